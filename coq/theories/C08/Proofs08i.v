(** C08 lemmas, part i: checkAttDerivationOK against Derivation Valid (Restriction, Complex) clauses 2-4. *)
From XV Require Import C08.Spec08 C08.Model08.

(** the restriction declares no prohibited attribute that the base type does not have *)
Definition no_stray_prohibited (base decls : list adecl) : bool :=
  forallb (fun r => match ad_use r, find_adecl (ad_name r) base with UProhibited, None => false | _, _ => true end) decls.
(** not: base wildcard not(ns) and derived wildcard a list containing absent *)
Definition no_absent_under_not (bw dw : option nsc) : bool :=
  match bw, dw with Some (NsNot _), Some (NsSet l) => negb (mem_uri absent l) | _, _ => true end.

Lemma m_adecl_check_spec tder base bw r :
  match ad_use r, find_adecl (ad_name r) base with UProhibited, None => false | _, _ => true end = true ->
  m_adecl_check tder base bw r = adecl_ok tder base bw r.
Proof.
  unfold m_adecl_check, adecl_ok. destruct (find_adecl (ad_name r) base) as [b|].
  - intros _. destruct (ad_use r); cbn [is_required negb andb orb];
      destruct (is_required (ad_use b)); cbn [negb andb orb]; try reflexivity;
      try (rewrite andb_true_r; reflexivity).
  - destruct (ad_use r); intros H; try reflexivity. discriminate H.
Qed.

Lemma m_wc_subset_spec wb wd : no_absent_under_not (Some wb) (Some wd) = true -> m_wc_subset wb wd = wc_subset wd wb.
Proof.
  unfold no_absent_under_not, m_wc_subset, wc_subset. destruct wb as [|v|lb], wd as [|u|l]; intros H; try reflexivity.
  rewrite H, andb_true_r. reflexivity.
Qed.

Lemma m_att_derivation_spec tder base bw decls dw :
  no_stray_prohibited base decls = true -> no_absent_under_not bw dw = true ->
  m_att_derivation tder base bw decls dw = attr_restriction_ok tder base bw decls dw.
Proof.
  intros H1 H2. unfold m_att_derivation, attr_restriction_ok. f_equal.
  - unfold no_stray_prohibited in H1. rewrite forallb_forall in H1.
    induction decls as [|r decls IH]; cbn [forallb]; auto.
    rewrite m_adecl_check_spec by (apply H1; left; auto). rewrite IH; auto. intros x Hx. apply H1. right; auto.
  - destruct dw as [wd|]; auto. destruct bw as [wb|]; auto. apply m_wc_subset_spec. exact H2.
Qed.

(** the subset table is sound for the namespaces it is about *)
Lemma wc_subset_sound sub super : wc_subset sub super = true ->
  forall x, wildcard_allows sub x = true -> wildcard_allows super x = true.
Proof.
  unfold wc_subset. destruct super as [|v|ls], sub as [|u|l]; intros H x Hx; try discriminate H; try reflexivity.
  - apply N.eqb_eq in H. subst. exact Hx.
  - cbn [wildcard_allows] in *. apply andb_true_iff in H. destruct H as [Hv Ha]. apply negb_true_iff in Hv, Ha.
    apply andb_true_iff. split; apply negb_true_iff.
    + destruct (N.eqb_spec x v) as [->|]; auto. congruence.
    + destruct (N.eqb_spec x absent) as [->|]; auto. congruence.
  - cbn [wildcard_allows] in *. rewrite forallb_forall in H. unfold mem_uri in Hx. apply existsb_exists in Hx.
    destruct Hx as (y & Hy & E). apply N.eqb_eq in E. subst. apply H. exact Hy.
Qed.
