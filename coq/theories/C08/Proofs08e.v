(** C08 lemmas, part e: the attribute-use loop of buildAttList against 3.4.4 clauses 3 and 4 / 3.4.5. *)
From XV Require Import C08.Spec08 C08.Model08.

Lemma any_attr_match_spec c x : any_attr_match c x = wildcard_allows c x.
Proof.
  destruct c as [|u|l]; cbn [any_attr_match wildcard_allows]; auto.
  - unfold absent. rewrite (N.eqb_sym u x). reflexivity.
  - unfold mem_uri. induction l as [|y l IH]; cbn [existsb]; auto. rewrite IH, (N.eqb_sym y x). reflexivity.
Qed.

Definition is_prohibited (u : attruse) : bool := match au_use u with UProhibited => true | _ => false end.
(** no provided attribute names a declaration with use = prohibited *)
Definition no_prohibited_hit (d : attrdecls) (atts : list (qname * list N)) : bool :=
  forallb (fun a => match find_use (fst a) (ad_uses d) with Some u => negb (is_prohibited u) | None => true end) atts.

Lemma m_attr_item_spec d declared a :
  match find_use (fst a) (ad_uses d) with Some u => negb (is_prohibited u) | None => true end = true ->
  m_attr_item d declared a = attr_item_ok d declared a.
Proof.
  unfold m_attr_item, attr_item_ok, wild_item_ok, is_prohibited.
  destruct (find_use (fst a) (ad_uses d)) as [u|].
  - destruct (au_use u); cbn; auto; discriminate.
  - intros _. destruct (ad_wild d) as [[c pc]|]; auto. rewrite any_attr_match_spec.
    destruct (wildcard_allows c (fst (fst a))); cbn [andb]; auto; destruct pc; auto.
Qed.

Lemma m_attr_defs_fst us atts :
  fst (m_attr_defs us atts) =
  forallb (fun u => match au_use u with
                    | URequired => match find_attr (au_name u) atts with Some _ => true | None => false end
                    | _ => true end) us.
Proof.
  induction us as [|u us IH]; cbn [m_attr_defs forallb]; auto.
  destruct (m_attr_defs us atts) as [ok f]. cbn [fst] in IH. rewrite <- IH.
  destruct (find_attr (au_name u) atts); [destruct (au_use u); reflexivity|].
  destruct (au_use u); cbn [fst andb]; auto. destruct (au_vc u); reflexivity.
Qed.

Lemma m_attr_defs_snd us atts : fst (m_attr_defs us atts) = true ->
  snd (m_attr_defs us atts) =
  flat_map (fun u => match au_use u, find_attr (au_name u) atts with
                     | UProhibited, _ => []
                     | _, Some _ => []
                     | _, None => match au_vc u with VDefault v | VFixed v => [(au_name u, v)] | VNone => [] end
                     end) us.
Proof.
  induction us as [|u us IH]; cbn [m_attr_defs flat_map]; auto.
  destruct (m_attr_defs us atts) as [ok f]. cbn [fst snd] in *.
  destruct (find_attr (au_name u) atts).
  - cbn [fst snd]. intros H. rewrite (IH H). destruct (au_use u); reflexivity.
  - destruct (au_use u); cbn [fst snd].
    + destruct (au_vc u); cbn [fst snd]; intros H; rewrite (IH H); reflexivity.
    + discriminate.
    + intros H. rewrite (IH H). reflexivity.
Qed.

Lemma m_attrs_valid_spec d declared atts : no_prohibited_hit d atts = true ->
  m_attrs_valid d declared atts = attrs_valid d declared atts.
Proof.
  intros H. unfold m_attrs_valid, attrs_valid, required_present. rewrite m_attr_defs_fst. f_equal.
  unfold no_prohibited_hit in H. rewrite forallb_forall in H.
  induction atts as [|a atts IH]; cbn [forallb]; auto.
  rewrite m_attr_item_spec by (apply H; left; auto). rewrite IH; auto. intros x Hx. apply H. right; auto.
Qed.

Lemma m_defaulted_spec d declared atts : m_attrs_valid d declared atts = true -> m_defaulted d atts = defaulted d atts.
Proof.
  unfold m_attrs_valid, m_defaulted, defaulted. rewrite andb_true_iff. intros [_ H]. apply m_attr_defs_snd. exact H.
Qed.
