(** C08 lemmas, part g: attribute wildcard intersection / union (TraverseSchema::attWildCardIntersection / Union). *)
From XV Require Import C08.Spec08 C08.Model08.

Lemma mem_uri_filter (f : uri -> bool) x l : mem_uri x (filter f l) = f x && mem_uri x l.
Proof.
  unfold mem_uri. induction l as [|y l IH]; cbn [filter existsb]; [rewrite andb_false_r; reflexivity|].
  destruct (f y) eqn:Ey; cbn [existsb]; rewrite IH.
  - destruct (N.eqb_spec x y) as [->|Hne]; cbn [orb]; [rewrite Ey; reflexivity|reflexivity].
  - destruct (N.eqb_spec x y) as [->|Hne]; cbn [orb]; [rewrite Ey; reflexivity|reflexivity].
Qed.

Lemma mem_uri_app x a b : mem_uri x (a ++ b) = mem_uri x a || mem_uri x b.
Proof. unfold mem_uri. apply existsb_app. Qed.

Lemma not_allows u x : wildcard_allows (NsNot u) x = negb (x =? u)%N && negb (x =? 1)%N.
Proof. reflexivity. Qed.

Lemma wc_inter_sound r c w : m_wc_inter r c = Some w -> is_wc_intersection w r c.
Proof.
  unfold is_wc_intersection. destruct r as [|u|lr], c as [|v|lc]; cbn [m_wc_inter]; intros E x;
    try (injection E as <-); cbn [wildcard_allows]; try rewrite andb_true_r; try reflexivity.
  - (* not u, not v *)
    destruct (N.eqb_spec u v) as [->|Huv].
    + injection E as <-. cbn [wildcard_allows]. destruct (negb (x =? v)%N && negb (x =? absent)%N); reflexivity.
    + destruct (N.eqb_spec u 1) as [->|Hu1].
      * injection E as <-. cbn [wildcard_allows]. unfold absent.
        destruct (x =? v)%N, (x =? 1)%N; reflexivity.
      * destruct (N.eqb_spec v 1) as [->|Hv1]; [|discriminate E].
        injection E as <-. cbn [wildcard_allows]. unfold absent. destruct (x =? u)%N, (x =? 1)%N; reflexivity.
  - (* not u, set *) rewrite mem_uri_filter. unfold absent. reflexivity.
  - (* set, not v *) rewrite mem_uri_filter. unfold absent. apply andb_comm.
  - (* set, set *) rewrite mem_uri_filter. reflexivity.
Qed.

Lemma wc_inter_none r c : m_wc_inter r c = None <-> inter_not_expressible r c.
Proof.
  unfold inter_not_expressible. split.
  - destruct r as [|u|lr], c as [|v|lc]; cbn [m_wc_inter]; try discriminate.
    destruct (N.eqb_spec u v); [discriminate|]. destruct (N.eqb_spec u 1); [discriminate|].
    destruct (N.eqb_spec v 1); [discriminate|]. intros _. exists u, v. unfold absent. auto.
  - intros (u & v & -> & -> & Huv & Hu & Hv). cbn [m_wc_inter]. unfold absent in *.
    destruct (N.eqb_spec u v); [contradiction|]. destruct (N.eqb_spec u 1); [contradiction|].
    destruct (N.eqb_spec v 1); [contradiction|]. reflexivity.
Qed.

Lemma union_not_set u l x : (u =? 1)%N = false ->
  forall w, match mem_uri 1%N l, mem_uri u l with
            | true, true => Some NsAny | false, true => Some (NsNot 1%N)
            | true, false => None | false, false => Some (NsNot u) end = Some w ->
  wildcard_allows w x = (negb (x =? u)%N && negb (x =? 1)%N) || mem_uri x l.
Proof.
  intros Hu w E. apply N.eqb_neq in Hu.
  destruct (mem_uri 1%N l) eqn:M1, (mem_uri u l) eqn:Mu; try discriminate E; injection E as <-; cbn [wildcard_allows].
  - destruct (N.eqb_spec x u) as [->|]; [rewrite Mu; reflexivity|]. destruct (N.eqb_spec x 1) as [->|]; [rewrite M1; reflexivity|reflexivity].
  - unfold absent. destruct (N.eqb_spec x 1) as [->|]; [rewrite M1; destruct (1 =? u)%N; reflexivity|].
    destruct (N.eqb_spec x u) as [->|]; [rewrite Mu; reflexivity|reflexivity].
  - unfold absent. destruct (N.eqb_spec x u) as [->|]; [rewrite Mu; reflexivity|].
    destruct (N.eqb_spec x 1) as [->|]; [rewrite M1; reflexivity|reflexivity].
Qed.

Lemma union_absent_set l x w :
  (if mem_uri 1%N l then Some NsAny else Some (NsNot 1%N)) = Some w ->
  wildcard_allows w x = (negb (x =? 1)%N && negb (x =? 1)%N) || mem_uri x l.
Proof.
  destruct (mem_uri 1%N l) eqn:M1; intros E; injection E as <-; cbn [wildcard_allows]; unfold absent.
  - destruct (N.eqb_spec x 1) as [->|]; [rewrite M1; reflexivity|reflexivity].
  - destruct (N.eqb_spec x 1) as [->|]; [rewrite M1; reflexivity|reflexivity].
Qed.

Lemma wc_union_sound r c w : m_wc_union r c = Some w -> is_wc_union w r c.
Proof.
  unfold is_wc_union. destruct r as [|u|lr], c as [|v|lc]; cbn [m_wc_union]; intros E x;
    try (injection E as <-; cbn [wildcard_allows]; try rewrite orb_true_r; reflexivity).
  - (* not, not *)
    destruct (N.eqb_spec u v) as [->|Huv]; injection E as <-; cbn [wildcard_allows]; unfold absent.
    + destruct (negb (x =? v)%N && negb (x =? 1)%N); reflexivity.
    + destruct (N.eqb_spec x u) as [E1|E1], (N.eqb_spec x v) as [E2|E2], (N.eqb_spec x 1) as [E3|E3]; cbn; try reflexivity; congruence.
  - (* not u, set *)
    rewrite not_allows. destruct (u =? 1)%N eqn:Hu.
    + apply N.eqb_eq in Hu. subst u. apply union_absent_set. exact E.
    + apply (union_not_set u lc x Hu w E).
  - (* set, not v *)
    rewrite not_allows, orb_comm. destruct (v =? 1)%N eqn:Hv.
    + apply N.eqb_eq in Hv. subst v. apply union_absent_set. exact E.
    + apply (union_not_set v lr x Hv w E).
  - (* set, set *)
    injection E as <-. cbn [wildcard_allows]. rewrite mem_uri_app, mem_uri_filter.
    destruct (mem_uri x lr), (mem_uri x lc); reflexivity.
Qed.

Lemma wc_union_none r c : m_wc_union r c = None <-> union_not_expressible r c.
Proof.
  unfold union_not_expressible. split.
  - destruct r as [|u|lr], c as [|v|lc]; cbn [m_wc_union]; try discriminate.
    + destruct (u =? v)%N; discriminate.
    + destruct (N.eqb_spec u 1); [destruct (mem_uri 1%N lc); discriminate|].
      destruct (mem_uri 1%N lc) eqn:M1, (mem_uri u lc) eqn:Mu; try discriminate. intros _.
      exists u, lc. unfold absent. repeat split; auto.
      * apply existsb_exists in M1. destruct M1 as (y & Hy & Ey). apply N.eqb_eq in Ey. subst; auto.
      * intro H. assert (mem_uri u lc = true) by (apply existsb_exists; exists u; split; auto; apply N.eqb_refl). congruence.
    + destruct (N.eqb_spec v 1); [destruct (mem_uri 1%N lr); discriminate|].
      destruct (mem_uri 1%N lr) eqn:M1, (mem_uri v lr) eqn:Mu; try discriminate. intros _.
      exists v, lr. unfold absent. repeat split; auto.
      * apply existsb_exists in M1. destruct M1 as (y & Hy & Ey). apply N.eqb_eq in Ey. subst; auto.
      * intro H. assert (mem_uri v lr = true) by (apply existsb_exists; exists v; split; auto; apply N.eqb_refl). congruence.
  - intros (u & l & [[-> ->]|[-> ->]] & Hu & Ha & Hn); cbn [m_wc_union]; unfold absent in *;
      (destruct (N.eqb_spec u 1); [contradiction|]);
      assert (M1 : mem_uri 1%N l = true) by (apply existsb_exists; exists 1%N; split; auto);
      assert (Mu : mem_uri u l = false)
        by (destruct (mem_uri u l) eqn:E; auto; apply existsb_exists in E; destruct E as (y & Hy & Ey);
            apply N.eqb_eq in Ey; subst; contradiction);
      rewrite M1, Mu; reflexivity.
Qed.

Lemma m_wexpr_sound e : forall w, m_wexpr e = Some w -> forall x, wildcard_allows w x = wexpr_allows e x.
Proof.
  induction e as [c|a IHa b IHb|a IHa b IHb]; intros w E x; cbn [m_wexpr wexpr_allows] in *.
  - injection E as <-. reflexivity.
  - destruct (m_wexpr a) as [wa|]; [|discriminate]. destruct (m_wexpr b) as [wb|]; [|discriminate].
    rewrite (wc_inter_sound _ _ _ E x), (IHa wa eq_refl x), (IHb wb eq_refl x). reflexivity.
  - destruct (m_wexpr a) as [wa|]; [|discriminate]. destruct (m_wexpr b) as [wb|]; [|discriminate].
    rewrite (wc_union_sound _ _ _ E x), (IHa wa eq_refl x), (IHb wb eq_refl x). reflexivity.
Qed.
