(** Specification side of C08, second part: validity of one element information item against its governing
    declaration (XSD 1.0 Structures 3.3.4 Element Locally Valid (Element) clauses 3 and 5, Element Locally Valid (Type),
    3.4.4 Element Locally Valid (Complex Type) clause 2), assessment of children matched by wildcards
    (3.10.1 {process contents}, 3.10.4 Item Valid (Wildcard), 3.3.5 [validity]) and the overlap of two particles'
    leaves (3.8.6 Unique Particle Attribution: two particles "overlap" when one item can match both, 3.9.6/3.10.6).
    Nothing here mentions the C++ code. *)
From XV Require Export C08.Spec08.

(** * One element against its declaration *)
(** {content type} of the actual type definition: empty, a simple type definition, element-only, mixed *)
Inductive ckind := KEmpty | KSimple | KElemOnly | KMixed.
(** the xsi:nil attribute of the item *)
Inductive nilattr := NilAbsent | NilTrue | NilFalse.

Definition is_ws_char (c : N) : bool := ((c =? 32) || (c =? 9) || (c =? 10) || (c =? 13))%N.
Definition all_ws (t : list N) : bool := forallb is_ws_char t.
Definition is_nil {A} (l : list A) : bool := match l with [] => true | _ => false end.

(** the governing element declaration: {nillable}, {value constraint}, and the content kind of the actual type *)
Record edecl := { e_kind : ckind; e_nillable : bool; e_vc : vc }.
(** the element information item: xsi:nil, number of element [children], whether the sequence of element children is
    valid with respect to the content particle (3.9.4; decided by [pmatch], T08_pmatch), the character [children] *)
Record eitem := { i_nil : nilattr; i_nkids : nat; i_cm_ok : bool; i_text : list N }.

Definition has_vc (v : vc) : bool := match v with VNone => false | _ => true end.
Definition is_fixed (v : vc) : bool := match v with VFixed _ => true | _ => false end.
Definition nilled (x : eitem) : bool := match i_nil x with NilTrue => true | _ => false end.
Definition has_kids (x : eitem) : bool := negb (i_nkids x =? 0).
(** neither element nor character information item [children] *)
Definition no_children (x : eitem) : bool := negb (has_kids x) && is_nil (i_text x).

Section ElemValid.
  (** String Valid (3.14.4) for the simple type of a [KSimple] declaration, and equality in its value space *)
  Variable dtv : list N -> bool.
  Variable dteq : list N -> list N -> bool.

  (** 3.3.4 clause 3: xsi:nil *)
  Definition clause3 (d : edecl) (x : eitem) : bool :=
    match i_nil x with
    | NilAbsent => true
    | NilFalse => e_nillable d                                            (* 3.1 *)
    | NilTrue => e_nillable d && no_children x && negb (is_fixed (e_vc d))  (* 3.1, 3.2.1, 3.2.2 *)
    end.
  (** Element Locally Valid (Type) clause 3 / (Complex Type) clause 2, when clause 3.2 above did not apply *)
  Definition type_valid (d : edecl) (x : eitem) : bool :=
    match e_kind d with
    | KEmpty => no_children x                                   (* 2.1 *)
    | KSimple => negb (has_kids x) && dtv (i_text x)            (* 2.2 / Type 3.2, 3.3 *)
    | KElemOnly => all_ws (i_text x) && i_cm_ok x               (* 2.3 + 2.4 *)
    | KMixed => i_cm_ok x                                       (* 2.4 *)
    end.
  (** 3.3.4 clause 5 *)
  Definition clause5 (d : edecl) (x : eitem) : bool :=
    if nilled x then true                     (* 5.2.1 with the content checks switched off by clause 3.2; 5.2.2 n/a *)
    else if has_vc (e_vc d) && no_children x then
      (* 5.1: the canonical lexical representation of the value constraint is used as the value, and the item
         must be valid with respect to the type with it (5.1.2) *)
      match e_vc d, e_kind d with
      | (VDefault v | VFixed v), KSimple => dtv v
      | _, KMixed => i_cm_ok x
      | _, _ => true
      end
    else
      type_valid d x &&                                                        (* 5.2.1 *)
      match e_vc d with
      | VFixed v => negb (has_kids x) &&                                       (* 5.2.2.1 *)
                    match e_kind d with
                    | KMixed => str_eqb v (i_text x)                           (* 5.2.2.2.1 *)
                    | KSimple => dteq (i_text x) v                             (* 5.2.2.2.2 *)
                    | _ => true
                    end
      | _ => true
      end.
  Definition elem_valid (d : edecl) (x : eitem) : bool := clause3 d x && clause5 d x.

  (** [schema normalized value] (3.3.5): the value constraint's when clause 5.1 applied, else the item's own *)
  Definition elem_value (d : edecl) (x : eitem) : list N :=
    if negb (nilled x) && no_children x then
      match e_vc d with VDefault v | VFixed v => v | VNone => i_text x end
    else i_text x.
End ElemValid.

(** constraints on the declaration (3.3.6 Element Declaration Properties Correct clause 2, Element Default Valid
    (Immediate)): a value constraint needs a simple or a mixed content type, and for a simple one its value is valid *)
Definition edecl_wf (dtv : list N -> bool) (d : edecl) : bool :=
  match e_vc d with
  | VNone => true
  | VDefault v | VFixed v => match e_kind d with KSimple => dtv v | KMixed => true | _ => false end
  end.

(** * Children matched through wildcards: {process contents} *)
(** how an element was attributed: to an element declaration of the content model, or to a wildcard *)
Inductive how := ByDecl | ByWild (pc : pcmode).
(** an element with: how its parent's content model attributed it, whether a declaration for it is available
    (the one of the content model, or a top-level one for wildcards), whether it is locally valid with respect to that
    declaration, and its element children *)
Inductive etree := ENode (h : how) (declared : bool) (local_ok : bool) (kids : list etree).

Inductive validity := Valid | Invalid | NotKnown.
Definition is_invalid (v : validity) : bool := match v with Invalid => true | _ => false end.

(** 3.3.5 [validity] with 3.10.4 / 3.3.4 Schema-Validity Assessment (Element):
    - skip: no assessment at all (notKnown), for the whole subtree;
    - strict (and children attributed to a declaration): a declaration must be available, else invalid; with it the
      item is strictly assessed: valid iff locally valid and no child is invalid;
    - lax: assessed like strict when a declaration is available, otherwise notKnown (the children are laxly assessed,
      which cannot make this item or its ancestors invalid) *)
Fixpoint assess (t : etree) : validity :=
  match t with
  | ENode h declared ok kids =>
      let strictly := if ok && negb (existsb (fun k => is_invalid (assess k)) kids) then Valid else Invalid in
      match h with
      | ByWild PcSkip => NotKnown
      | ByWild PcLax => if declared then strictly else NotKnown
      | ByWild PcStrict | ByDecl => if declared then strictly else Invalid
      end
  end.
(** the instance is reported valid iff its root is not invalid *)
Definition tree_valid (t : etree) : bool := negb (is_invalid (assess t)).

(** * Overlap of two leaves of a content model (element declarations / single-namespace wildcard branches) *)
Inductive pleaf := PElem (q : qname) | PWild (c : nsc).
Definition pleaf_match (l : pleaf) (x : qname) : bool :=
  match l with PElem q => qname_eqb q x | PWild c => wildcard_allows c (fst x) end.
(** 3.8.6 UPA: two leaves overlap when some element information item (name) can be attributed to both *)
Definition leaves_overlap (a b : pleaf) : Prop := exists x, pleaf_match a x = true /\ pleaf_match b x = true.
