(** C08 lemmas, part b: ComplexTypeInfo::expandContentModel and convertContentSpecTree preserve the language. *)
From XV Require Import C08.Spec08 C08.Model08 C08.Proofs08a.

Implicit Types A B C : lang.

(** * more occurrence algebra *)
Definition add_bound (k : nat) (n : option nat) : option nat := option_map (fun x => k + x) n.

Lemma l_rep_11 A : l_rep 1 (Some 1) A == A.
Proof.
  intro w; split.
  - intros (k & H1 & H2 & H3). cbn in H2. assert (k = 1) by lia. subst. apply l_pow_1; auto.
  - intro H. exists 1. repeat split; cbn; auto. apply l_pow_1; auto.
Qed.

Lemma l_rep_01 A : l_alt l_eps A == l_rep 0 (Some 1) A.
Proof.
  intro w; split.
  - intros [H|H].
    + exists 0. repeat split; cbn; auto.
    + exists 1. repeat split; cbn; auto. apply l_pow_1; auto.
  - intros (k & H1 & H2 & H3). cbn in H2. destruct k as [|[|k]]; [left; exact H3|right; apply l_pow_1; auto|lia].
Qed.

Lemma l_rep_cat_pow A m i n : l_cat (l_pow A m) (l_rep i n A) == l_rep (m + i) (add_bound m n) A.
Proof.
  intro w; split.
  - intros (u & v & E & Hu & (k & H1 & H2 & H3)). exists (m + k). repeat split; [lia| |].
    + destruct n; cbn in *; auto. lia.
    + apply l_pow_add. exists u, v; auto.
  - intros (k & H1 & H2 & H3). replace k with (m + (k - m)) in H3 by lia.
    apply l_pow_add in H3. destruct H3 as (u & v & E & Hu & Hv). exists u, v. repeat split; auto.
    exists (k - m). repeat split; auto; [lia|]. destruct n; cbn in *; auto. lia.
Qed.

Lemma l_rep_pow_cat A m i n : l_cat (l_rep i n A) (l_pow A m) == l_rep (i + m) (add_bound m n) A.
Proof.
  intro w; split.
  - intros (u & v & E & (k & H1 & H2 & H3) & Hv). exists (k + m). repeat split; [lia| |].
    + destruct n; cbn in *; auto. lia.
    + apply l_pow_add. exists u, v; auto.
  - intros (k & H1 & H2 & H3). replace k with ((k - m) + m) in H3 by lia.
    apply l_pow_add in H3. destruct H3 as (u & v & E & Hu & Hv). exists u, v. repeat split; auto.
    exists (k - m). repeat split; auto; [lia|]. destruct n; cbn in *; auto. lia.
Qed.

Lemma l_pow_opt A k : l_pow (l_alt l_eps A) k == l_rep 0 (Some k) A.
Proof.
  induction k.
  - intro w; split.
    + intro H. exists 0. repeat split; cbn; auto.
    + intros (j & _ & H2 & H3). cbn in H2. assert (j = 0) by lia. subst. exact H3.
  - cbn [l_pow]. intro w; split.
    + intros (u & v & E & [Hu|Hu] & Hv); apply IHk in Hv; destruct Hv as (j & _ & H2 & H3); cbn in H2.
      * unfold l_eps in Hu. subst. exists j. repeat split; cbn; auto; lia.
      * exists (S j). repeat split; cbn; [lia|lia|]. exists u, v; auto.
    + intros (j & _ & H2 & H3). cbn in H2. destruct j.
      * cbn in H3. unfold l_eps in H3. subst. exists [], []. repeat split; [left; reflexivity|].
        apply IHk. exists 0. repeat split; cbn; auto; lia.
      * cbn [l_pow] in H3. destruct H3 as (u & v & E & Hu & Hv). exists u, v. repeat split; auto; [right; auto|].
        apply IHk. exists j. repeat split; cbn; auto; lia.
Qed.

Lemma l_rep_exact A m : l_pow A m == l_rep m (Some m) A.
Proof.
  intro w; split.
  - intro H. exists m. repeat split; cbn; auto.
  - intros (k & H1 & H2 & H3). cbn in H2. assert (k = m) by lia. subst; auto.
Qed.

Lemma l_rep_eps_alt A m n : 1 <= m \/ n <> Some 0 -> le_bound m n ->
  (m = 0 -> l_alt l_eps (l_rep 1 n A) == l_rep 0 n A).
Proof.
  intros _ _ _ w; split.
  - intros [H|(k & H1 & H2 & H3)].
    + exists 0. repeat split; auto. destruct n; cbn; lia.
    + exists k. repeat split; auto. lia.
  - intros (k & H1 & H2 & H3). destruct k.
    + left. exact H3.
    + right. exists (S k). repeat split; auto. lia.
Qed.

(** * the chains built by the loops of expandContentModel *)
Lemma Lc_seq_left r s k : Lc (seq_left r s k) == l_cat (Lc r) (l_pow (Lc s) k).
Proof.
  revert r. induction k; intros r; cbn [seq_left l_pow].
  - apply leq_sym, l_cat_eps_r.
  - eapply leq_trans; [apply IHk|]. cbn [Lc].
    eapply leq_trans; [apply l_cat_assoc|]. apply l_cat_ext; [apply leq_refl|].
    eapply leq_trans; [apply l_cat_ext; [apply leq_sym, l_pow_1|apply leq_refl]|].
    eapply leq_trans; [apply l_pow_add|]. apply leq_refl.
Qed.

Lemma Lc_seq_right s r k : Lc (seq_right s r k) == l_cat (l_pow (Lc s) k) (Lc r).
Proof.
  revert r. induction k; intros r; cbn [seq_right l_pow].
  - apply leq_sym, l_cat_eps_l.
  - eapply leq_trans; [apply IHk|]. cbn [Lc].
    eapply leq_trans; [apply leq_sym, l_cat_assoc|]. apply l_cat_ext; [|apply leq_refl].
    eapply leq_trans; [apply l_pow_snoc|]. apply leq_refl.
Qed.

(** a node that is not a bare Loop (expand never returns one, and is never applied to one) *)
Definition not_loop (c : csn) : Prop := match c with CLoop _ _ _ => False | _ => True end.

Lemma Lc_star c : not_loop c -> Lc (CStar c) == l_rep 0 None (Lc c).
Proof. destruct c; cbn [not_loop]; intros H; try contradiction; cbn [Lc]; apply leq_refl. Qed.
Lemma Lc_plus c : not_loop c -> Lc (CPlus c) == l_rep 1 None (Lc c).
Proof. destruct c; cbn [not_loop]; intros H; try contradiction; cbn [Lc]; apply leq_refl. Qed.

Lemma expand_not_loop c m n b : not_loop c -> not_loop (expand c m n b).
Proof.
  intros Hc. unfold expand.
  assert (G : forall r s k, not_loop r -> not_loop (seq_left r s k)).
  { intros r s k; revert r; induction k; intros r Hr; cbn [seq_left]; auto. apply IHk. exact I. }
  assert (G2 : forall s r k, not_loop r -> not_loop (seq_right s r k)).
  { intros s r k; revert r; induction k; intros r Hr; cbn [seq_right]; auto. apply IHk. exact I. }
  destruct m as [|[|m]]; destruct n as [[|[|n]]|]; cbn [not_loop]; auto;
    repeat match goal with
           | |- not_loop (if ?x then _ else _) => destruct x
           | |- not_loop (seq_left _ _ _) => apply G
           | |- not_loop (seq_right _ _ _) => apply G2
           | |- not_loop (let _ := _ in _) => cbv zeta
           end; cbn [not_loop]; auto.
Qed.

(** the two non-compact general cases *)
Lemma expand_unbounded c m : 1 <= m -> not_loop c ->
  Lc (seq_right c (CPlus c) (m - 1)) == l_rep m None (Lc c).
Proof.
  intros Hm Hc. eapply leq_trans; [apply Lc_seq_right|].
  eapply leq_trans; [apply l_cat_ext; [apply leq_refl|apply Lc_plus; auto]|].
  eapply leq_trans; [apply l_rep_cat_pow|]. cbn [add_bound option_map].
  replace (m - 1 + 1) with m by lia. apply leq_refl.
Qed.

Lemma expand_opt_chain c n : 1 <= n ->
  Lc (seq_left (COpt c) (COpt c) (n - 1)) == l_rep 0 (Some n) (Lc c).
Proof.
  intros Hn. eapply leq_trans; [apply Lc_seq_left|]. cbn [Lc].
  eapply leq_trans; [apply l_cat_ext; [apply leq_sym, l_pow_1|apply leq_refl]|].
  eapply leq_trans; [apply l_pow_add|]. replace (1 + (n - 1)) with n by lia. apply l_pow_opt.
Qed.

Lemma expand_min_chain c m : 1 <= m ->
  Lc (if 1 <? m then seq_left (CSeq c c) c (m - 2) else c) == l_pow (Lc c) m.
Proof.
  intros Hm. destruct (Nat.ltb_spec 1 m).
  - eapply leq_trans; [apply Lc_seq_left|]. cbn [Lc].
    eapply leq_trans; [apply l_cat_ext; [apply l_cat_ext; apply leq_sym, l_pow_1|apply leq_refl]|].
    eapply leq_trans; [apply l_cat_ext; [apply l_pow_add|apply leq_refl]|].
    eapply leq_trans; [apply l_pow_add|]. replace (1 + 1 + (m - 2)) with m by lia. apply leq_refl.
  - assert (m = 1) by lia. subst. apply leq_sym, l_pow_1.
Qed.

Lemma expand_bounded c m n : 1 <= m -> m <= n ->
  Lc (let r := if 1 <? m then seq_left (CSeq c c) c (m - 2) else c in
      if 0 <? n - m then seq_left (CSeq r (COpt c)) (COpt c) (n - m - 1) else r) == l_rep m (Some n) (Lc c).
Proof.
  intros Hm Hn. cbv zeta. destruct (Nat.ltb_spec 0 (n - m)).
  - eapply leq_trans; [apply Lc_seq_left|]. cbn [Lc].
    eapply leq_trans; [apply l_cat_assoc|].
    eapply leq_trans; [apply l_cat_ext; [apply expand_min_chain; auto|]|].
    { eapply leq_trans; [apply l_cat_ext; [apply leq_sym, l_pow_1|apply leq_refl]|].
      eapply leq_trans; [apply l_pow_add|]. apply l_pow_opt. }
    eapply leq_trans; [apply l_rep_cat_pow|]. cbn [add_bound option_map].
    replace (m + 0) with m by lia. replace (m + (1 + (n - m - 1))) with n by lia. apply leq_refl.
  - assert (n = m) by lia. subst n.
    eapply leq_trans; [apply expand_min_chain; auto|]. apply l_rep_exact.
Qed.

(** the compact (Loop) form *)
Lemma expand_compact c m n : le_bound m n -> n <> Some 0 ->
  Lc (if m =? 0 then CStar (CLoop c m n) else CPlus (CLoop c m n)) == l_rep m n (Lc c).
Proof.
  intros Hb Hn.
  assert (Hmax : forall k, 1 <= k -> (le_bound k (max1 n) <-> le_bound k n)).
  { intros k Hk. destruct n as [n|]; cbn; [|tauto]. destruct n; [congruence|]. lia. }
  destruct (Nat.eqb_spec m 0) as [->|Hm]; cbn [Lc].
  - change (Nat.max 1 0) with 1. intro w; split.
    + intros [H|(k & H1 & H2 & H3)].
      * exists 0. repeat split; auto.
      * exists k. repeat split; auto; [lia|]. apply Hmax; auto.
    + intros (k & H1 & H2 & H3). destruct k.
      * left; exact H3.
      * right. exists (S k). repeat split; auto; [lia|]. apply Hmax; auto. lia.
  - assert (Em : Nat.max 1 m = m) by lia. rewrite Em.
    intro w; split; intros (k & H1 & H2 & H3); exists k; (split; [exact H1|split; [|exact H3]]);
      apply (Hmax k); auto; lia.
Qed.

(** ComplexTypeInfo::expandContentModel preserves the language, for every occurrence range with max >= 1 *)
Lemma expand_correct c m n b : not_loop c -> le_bound m n -> n <> Some 0 ->
  Lc (expand c m n b) == l_rep m n (Lc c).
Proof.
  intros Hc Hb Hn. unfold expand.
  destruct m as [|[|m]]; destruct n as [[|[|n]]|]; try congruence; cbn [le_bound] in Hb; try lia.
  - (* 0,1 *) cbn [Lc]. apply l_rep_01.
  - (* 0, n>=2 *)
    destruct (b && is_leafish c).
    + apply (expand_compact c 0 (Some (S (S n)))); cbn; auto; lia.
    + cbn [Nat.eqb]. apply (expand_opt_chain c (S (S n))). lia.
  - (* 0, unbounded *) apply Lc_star; auto.
  - (* 1,1 *) apply leq_sym, l_rep_11.
  - (* 1, n>=2 *)
    destruct (b && is_leafish c).
    + apply (expand_compact c 1 (Some (S (S n)))); cbn; auto; lia.
    + cbn [Nat.eqb]. apply (expand_bounded c 1 (S (S n))); lia.
  - (* 1, unbounded *) apply Lc_plus; auto.
  - (* m>=2, n>=2 *)
    destruct (b && is_leafish c).
    + apply (expand_compact c (S (S m)) (Some (S (S n)))); cbn; auto; lia.
    + cbn [Nat.eqb]. apply (expand_bounded c (S (S m)) (S (S n))); lia.
  - (* m>=2, unbounded *)
    destruct (b && is_leafish c).
    + apply (expand_compact c (S (S m)) None); cbn; auto; congruence.
    + apply (expand_unbounded c (S (S m))); auto; lia.
Qed.
