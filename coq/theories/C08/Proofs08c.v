(** C08 lemmas, part c: traverseAny / traverseChoiceSequence + convertContentSpecTree ([convert]) preserve the
    language of well-formed particles; the wildcard decision table. *)
From XV Require Import C08.Spec08 C08.Model08 C08.Proofs08a C08.Proofs08b.

Implicit Types A B C : lang.

Definition Lco (o : option csn) : lang := match o with None => l_eps | Some c => Lc c end.

(** * wildcards *)
Definition node_match (x : uri) (c : csn) : bool := match c with CAny k u => any_match k u x | _ => false end.
(** does some leaf produced by traverseAny accept namespace x (DFAContentModel::validateContent) *)
Definition wild_decide (c : nsc) (x : uri) : bool := existsb (node_match x) (any_nodes c).

Lemma mem_uri_In u l : mem_uri u l = true <-> In u l.
Proof.
  unfold mem_uri. rewrite existsb_exists. split.
  - intros (y & Hy & E). apply N.eqb_eq in E. subst; auto.
  - intros H. exists u. split; auto. apply N.eqb_refl.
Qed.

Lemma dedup_In u l seen : In u (dedup l seen) <-> In u l /\ ~ In u seen.
Proof.
  revert seen. induction l as [|y l IH]; intros seen; cbn [dedup].
  - cbn. tauto.
  - destruct (mem_uri y seen) eqn:E.
    + apply mem_uri_In in E. rewrite IH. cbn. split; [tauto|]. intros [[->|H] Hn]; [contradiction|tauto].
    + assert (Hn : ~ In y seen) by (intro H; apply mem_uri_In in H; congruence).
      cbn [In]. rewrite IH. cbn [In]. split.
      * intros [->|[H1 H2]]; [tauto|]. tauto.
      * intros [[->|H] Hs]; [tauto|]. destruct (N.eq_dec y u) as [->|Hne]; [tauto|]. right. split; auto.
        intros [E'|H']; [congruence|tauto].
Qed.

Lemma wild_decide_correct c x : c <> NsSet [] -> wild_decide c x = wildcard_allows c x.
Proof.
  intros Hc. unfold wild_decide. destruct c as [|u|l]; cbn [any_nodes existsb node_match any_match wildcard_allows].
  - reflexivity.
  - rewrite orb_false_r. unfold absent. rewrite andb_comm. reflexivity.
  - destruct l as [|y l]; [congruence|]. set (l' := y :: l).
    apply eq_true_iff_eq. rewrite existsb_exists, mem_uri_In. split.
    + intros (n & Hin & Hm). apply in_map_iff in Hin. destruct Hin as (u & <- & Hu).
      cbn [node_match any_match] in Hm. apply N.eqb_eq in Hm. subst. apply dedup_In in Hu. tauto.
    + intros Hin. exists (CAny KNS x). split.
      * apply in_map. apply dedup_In. split; auto.
      * cbn [node_match any_match]. apply N.eqb_refl.
Qed.

Lemma wild_decide_empty_list_refuted : wild_decide (NsSet []) 2%N = true /\ wildcard_allows (NsSet []) 2%N = false.
Proof. split; reflexivity. Qed.

(** * n-ary groups as left-nested binary trees *)
Lemma Lc_fold_seq r c : Lc (fold_left CSeq r c) == l_cat (Lc c) (l_seq (map Lc r)).
Proof.
  revert c. induction r as [|y r IH]; intros c; cbn [fold_left map l_seq].
  - apply leq_sym, l_cat_eps_r.
  - eapply leq_trans; [apply IH|]. cbn [Lc]. apply l_cat_assoc.
Qed.
Lemma l_alt_assoc A B C : l_alt (l_alt A B) C == l_alt A (l_alt B C).
Proof. intro w; unfold l_alt; tauto. Qed.
Lemma l_alt_void_r A : l_alt A l_void == A.
Proof. intro w; unfold l_alt, l_void; tauto. Qed.
Lemma Lc_fold_choice r c : Lc (fold_left CChoice r c) == l_alt (Lc c) (l_choice (map Lc r)).
Proof.
  revert c. induction r as [|y r IH]; intros c; cbn [fold_left map l_choice].
  - apply leq_sym, l_alt_void_r.
  - eapply leq_trans; [apply IH|]. cbn [Lc]. apply l_alt_assoc.
Qed.

Lemma Lco_nest_seq l : Lco (nest CSeq l) == l_seq (map Lc l).
Proof. destruct l as [|c r]; cbn [nest Lco map l_seq]; [apply leq_refl|apply Lc_fold_seq]. Qed.
Lemma Lco_nest_choice l : l <> [] -> Lco (nest CChoice l) == l_choice (map Lc l).
Proof. destruct l as [|c r]; [congruence|]. intros _. cbn [nest Lco map l_choice]. apply Lc_fold_choice. Qed.

Lemma l_rep_eps m n : le_bound m n -> l_rep m n l_eps == l_eps.
Proof.
  intros Hb w. assert (P : forall k v, l_pow l_eps k v <-> v = []).
  { induction k; intros v; cbn [l_pow]; [reflexivity|]. split.
    - intros (u & v' & E & Hu & Hv). apply IHk in Hv. unfold l_eps in Hu. subst. reflexivity.
    - intros ->. exists [], []. repeat split. apply IHk. reflexivity. }
  split.
  - intros (k & _ & _ & H). apply P in H. exact H.
  - intros H. exists m. repeat split; auto. apply P. exact H.
Qed.

(** * well-formed particles: ranges with min <= max and max >= 1, no empty namespace list, and every member of a
    choice produces a node (no empty model group directly inside a choice) *)
Definition okb (m : nat) (n : option nat) : bool :=
  leb_bound m n && match n with Some 0 => false | _ => true end.
Fixpoint wfb (p : particle) : bool :=
  match p with
  | Elem m n _ => okb m n
  | Wild m n c => okb m n && match c with NsSet [] => false | _ => true end
  | Seq m n ps => okb m n && (fix go (ps : list particle) : bool :=
                                match ps with [] => true | p :: r => wfb p && go r end) ps
  | Choice m n ps => okb m n && match ps with [] => false | _ => true end &&
                     (fix go (ps : list particle) : bool :=
                        match ps with [] => true | p :: r => wfb p && has_node p && go r end) ps
  end.

Lemma okb_spec m n : okb m n = true -> le_bound m n /\ n <> Some 0.
Proof.
  unfold okb. rewrite andb_true_iff, leb_bound_spec. intros [H1 H2]. split; auto. intros ->. discriminate H2.
Qed.

Lemma wfb_Seq m n ps : wfb (Seq m n ps) = okb m n && forallb wfb ps.
Proof. reflexivity. Qed.
Lemma wfb_Choice m n ps : wfb (Choice m n ps) =
  okb m n && match ps with [] => false | _ => true end && forallb (fun p => wfb p && has_node p) ps.
Proof. reflexivity. Qed.
Lemma has_node_group ps :
  (fix go (ps : list particle) : bool := match ps with [] => false | p :: r => has_node p || go r end) ps =
  existsb has_node ps.
Proof. reflexivity. Qed.
Lemma convert_kids b ps :
  (fix go (ps : list particle) : list (option csn) := match ps with [] => [] | p :: r => convert b p :: go r end) ps =
  map (convert b) ps.
Proof. reflexivity. Qed.

Lemma convert_Seq b m n ps : convert b (Seq m n ps) =
  match nest CSeq (filter_some (map (convert b) ps)) with Some t => Some (expand t m n b) | None => None end.
Proof. cbn [convert]. rewrite convert_kids. reflexivity. Qed.
Lemma convert_Choice b m n ps : convert b (Choice m n ps) =
  match nest CChoice (filter_some (map (convert b) ps)) with Some t => Some (expand t m n b) | None => None end.
Proof. cbn [convert]. rewrite convert_kids. reflexivity. Qed.

Lemma fold_left_not_loop (mk : csn -> csn -> csn) (r : list csn) (c : csn) : (forall a b, not_loop (mk a b)) -> not_loop c -> not_loop (fold_left mk r c).
Proof. intros Hmk. revert c. induction r; intros c Hc; cbn [fold_left]; auto. Qed.

Lemma nest_not_loop (mk : csn -> csn -> csn) (l : list csn) (t : csn) : (forall a b, not_loop (mk a b)) -> Forall not_loop l -> nest mk l = Some t -> not_loop t.
Proof.
  intros Hmk Hl. destruct l as [|c r]; cbn [nest]; [discriminate|]. intros E. injection E as <-.
  apply fold_left_not_loop; auto. inversion Hl; auto.
Qed.

Lemma filter_some_Forall {T : Type} (P : T -> Prop) (l : list (option T)) :
  Forall (fun o => match o with Some a => P a | None => True end) l -> Forall P (filter_some l).
Proof. induction 1 as [|o l Ho Hl IH]; cbn [filter_some]; [constructor|]. destruct o; auto. Qed.

Lemma any_nodes_not_loop c : Forall not_loop (any_nodes c).
Proof.
  destruct c as [|v|l]; cbn [any_nodes]; repeat constructor.
  destruct l; [repeat constructor|]. apply Forall_forall. intros x Hx. apply in_map_iff in Hx.
  destruct Hx as (uu & <- & _). exact I.
Qed.

Lemma convert_not_loop b p : match convert b p with Some c => not_loop c | None => True end.
Proof.
  induction p using particle_ind'.
  - cbn [convert]. apply expand_not_loop. exact I.
  - cbn [convert]. destruct n as [[|n]|]; auto; (destruct (nest CChoice (any_nodes c)) eqn:E; auto; apply expand_not_loop;
    eapply nest_not_loop; [|apply any_nodes_not_loop|exact E]; intros; exact I).
  - rewrite convert_Seq. destruct (nest CSeq _) eqn:E; auto. apply expand_not_loop.
    eapply nest_not_loop; [| |exact E]; [intros; exact I|]. apply filter_some_Forall.
    apply Forall_forall. intros o Ho. apply in_map_iff in Ho. destruct Ho as (q & <- & Hq).
    rewrite Forall_forall in H. apply (H q Hq).
  - rewrite convert_Choice. destruct (nest CChoice _) eqn:E; auto. apply expand_not_loop.
    eapply nest_not_loop; [| |exact E]; [intros; exact I|]. apply filter_some_Forall.
    apply Forall_forall. intros o Ho. apply in_map_iff in Ho. destruct Ho as (q & <- & Hq).
    rewrite Forall_forall in H. apply (H q Hq).
Qed.

Lemma has_node_convert b p : has_node p = true -> convert b p <> None.
Proof.
  induction p using particle_ind'; cbn [has_node].
  - intros _. cbn [convert]. discriminate.
  - intros Hn. cbn [convert]. assert (any_nodes c <> []).
    { destruct c as [| |l]; cbn [any_nodes]; try discriminate. destruct l; [discriminate|].
      cbn [dedup mem_uri existsb]. discriminate. }
    destruct n as [[|n]|]; [discriminate Hn| |]; (destruct (any_nodes c); [congruence|]; cbn [nest]; discriminate).
  - rewrite has_node_group, convert_Seq. intros Hex. apply existsb_exists in Hex. destruct Hex as (q & Hq & Hn).
    assert (filter_some (map (convert b) ps) <> []).
    { clear m n. induction ps as [|y ps IH]; [destruct Hq|]. inversion H; subst. cbn [map filter_some].
      destruct Hq as [->|Hq].
      - specialize (H2 Hn). destruct (convert b q); [discriminate|congruence].
      - destruct (convert b y); [discriminate|]. apply IH; auto. }
    destruct (filter_some (map (convert b) ps)); [congruence|]. cbn [nest]. discriminate.
  - rewrite has_node_group, convert_Choice. intros Hex. apply existsb_exists in Hex. destruct Hex as (q & Hq & Hn).
    assert (filter_some (map (convert b) ps) <> []).
    { clear m n. induction ps as [|y ps IH]; [destruct Hq|]. inversion H; subst. cbn [map filter_some].
      destruct Hq as [->|Hq].
      - specialize (H2 Hn). destruct (convert b q); [discriminate|congruence].
      - destruct (convert b y); [discriminate|]. apply IH; auto. }
    destruct (filter_some (map (convert b) ps)); [congruence|]. cbn [nest]. discriminate.
Qed.

Lemma Lc_any_nodes c : c <> NsSet [] ->
  l_choice (map Lc (any_nodes c)) == l_sym (fun x => wildcard_allows c (fst x)).
Proof.
  intros Hc w. split.
  - intros H. assert (G : exists n, In n (any_nodes c) /\ Lc n w).
    { clear Hc. induction (any_nodes c) as [|y l IH]; cbn [map l_choice] in H; [destruct H|].
      destruct H as [H|H]; [exists y; cbn; auto|]. destruct (IH H) as (n & Hn & Hw). exists n; cbn; auto. }
    destruct G as (n & Hn & Hw).
    assert (Hk : exists k u, n = CAny k u).
    { destruct c as [|v|l]; cbn [any_nodes] in Hn.
      - destruct Hn as [<-|[]]; eauto.
      - destruct Hn as [<-|[]]; eauto.
      - destruct l; [congruence|]. apply in_map_iff in Hn. destruct Hn as (uu & <- & _). eauto. }
    destruct Hk as (k & u & ->). cbn [Lc] in Hw. destruct Hw as (q & -> & Hq). exists q. split; auto.
    rewrite <- (wild_decide_correct c (fst q) Hc). unfold wild_decide. apply existsb_exists.
    exists (CAny k u). split; auto.
  - intros (q & -> & Hq). rewrite <- (wild_decide_correct c (fst q) Hc) in Hq. unfold wild_decide in Hq.
    apply existsb_exists in Hq. destruct Hq as (n & Hn & Hm).
    clear Hc. induction (any_nodes c) as [|y l IH]; [destruct Hn|]. cbn [map l_choice].
    destruct Hn as [->|Hn]; [left|right; auto].
    destruct n; cbn [node_match] in Hm; try discriminate. cbn [Lc]. exists q. auto.
Qed.

(** the language of the converted tree is the language of the particle *)
Lemma convert_correct b p : wfb p = true -> Lco (convert b p) == Lp p.
Proof.
  induction p using particle_ind'; intros Hwf.
  - cbn [wfb] in Hwf. apply okb_spec in Hwf. destruct Hwf. cbn [convert Lco Lp].
    eapply leq_trans; [apply expand_correct; auto; exact I|]. apply leq_refl.
  - cbn [wfb] in Hwf. apply andb_true_iff in Hwf. destruct Hwf as [Hok Hc]. apply okb_spec in Hok. destruct Hok.
    assert (Hc' : c <> NsSet []) by (intros ->; discriminate Hc).
    cbn [convert Lp]. pose proof (Lco_nest_choice (any_nodes c)) as Hn.
    assert (Hne : any_nodes c <> []).
    { destruct c as [| |l]; cbn [any_nodes]; try discriminate. destruct l; [congruence|].
      cbn [dedup mem_uri existsb]. discriminate. }
    specialize (Hn Hne).
    assert (Ec : match n with Some 0 => None | _ => match nest CChoice (any_nodes c) with
                 | Some t => Some (expand t m n b) | None => None end end =
                 match nest CChoice (any_nodes c) with Some t => Some (expand t m n b) | None => None end).
    { destruct n as [[|n]|]; auto. congruence. }
    rewrite Ec. clear Ec. destruct (nest CChoice (any_nodes c)) eqn:E.
    + cbn [Lco] in *. eapply leq_trans; [apply expand_correct; auto|].
      { eapply nest_not_loop; [|apply any_nodes_not_loop|exact E]. intros; exact I. }
      apply l_rep_ext. eapply leq_trans; [exact Hn|]. apply Lc_any_nodes; auto.
    + destruct (any_nodes c); [congruence|discriminate E].
  - rewrite wfb_Seq in Hwf. apply andb_true_iff in Hwf. destruct Hwf as [Hok Hall]. apply okb_spec in Hok. destruct Hok.
    eapply leq_trans; [|apply leq_sym, Lp_Seq]. rewrite convert_Seq.
    assert (Hkids : l_seq (map Lc (filter_some (map (convert b) ps))) == l_seq (map Lp ps)).
    { clear m n H0 H1. induction ps as [|y ps IH]; cbn [map filter_some l_seq]; [apply leq_refl|].
      inversion H; subst. cbn [forallb] in Hall. apply andb_true_iff in Hall. destruct Hall as [Hy Hr].
      specialize (H2 Hy). specialize (IH H3 Hr). destruct (convert b y); cbn [Lco] in H2.
      - cbn [map l_seq]. apply l_cat_ext; auto.
      - eapply leq_trans; [exact IH|]. eapply leq_trans; [apply leq_sym, l_cat_eps_l|].
        apply l_cat_ext; [exact H2|apply leq_refl]. }
    pose proof (Lco_nest_seq (filter_some (map (convert b) ps))) as Hn.
    destruct (nest CSeq (filter_some (map (convert b) ps))) eqn:E; cbn [Lco] in *.
    + eapply leq_trans; [apply expand_correct; auto|].
      { eapply nest_not_loop; [| |exact E]; [intros; exact I|]. apply filter_some_Forall.
        apply Forall_forall. intros o Ho. apply in_map_iff in Ho. destruct Ho as (q & <- & Hq).
        apply convert_not_loop. }
      apply l_rep_ext. eapply leq_trans; [exact Hn|exact Hkids].
    + eapply leq_trans; [|apply l_rep_ext; eapply leq_trans; [exact Hn|exact Hkids]].
      apply leq_sym, l_rep_eps; auto.
  - rewrite wfb_Choice in Hwf. apply andb_true_iff in Hwf. destruct Hwf as [Hwf Hall].
    apply andb_true_iff in Hwf. destruct Hwf as [Hok Hne]. apply okb_spec in Hok. destruct Hok.
    eapply leq_trans; [|apply leq_sym, Lp_Choice]. rewrite convert_Choice.
    assert (Hkids : l_choice (map Lc (filter_some (map (convert b) ps))) == l_choice (map Lp ps) /\
                    (ps <> [] -> filter_some (map (convert b) ps) <> [])).
    { clear m n H0 H1 Hne. induction ps as [|y ps IH]; cbn [map filter_some l_choice]; [split; [apply leq_refl|congruence]|].
      inversion H; subst. cbn [forallb] in Hall. apply andb_true_iff in Hall. destruct Hall as [Hy Hr].
      apply andb_true_iff in Hy. destruct Hy as [Hy Hn].
      specialize (H2 Hy). specialize (IH H3 Hr). pose proof (has_node_convert b y Hn) as Hs.
      destruct (convert b y); [|congruence]. cbn [Lco] in H2. cbn [map l_choice]. split; [|discriminate].
      apply l_alt_ext; [exact H2|apply IH]. }
    destruct Hkids as [Hkids Hnn].
    assert (Hps : ps <> []) by (destruct ps; [discriminate Hne|discriminate]).
    specialize (Hnn Hps). pose proof (Lco_nest_choice _ Hnn) as Hn.
    destruct (nest CChoice (filter_some (map (convert b) ps))) eqn:E; cbn [Lco] in *.
    + eapply leq_trans; [apply expand_correct; auto|].
      { eapply nest_not_loop; [| |exact E]; [intros; exact I|]. apply filter_some_Forall.
        apply Forall_forall. intros o Ho. apply in_map_iff in Ho. destruct Ho as (q & <- & Hq).
        apply convert_not_loop. }
      apply l_rep_ext. eapply leq_trans; [exact Hn|exact Hkids].
    + destruct (filter_some (map (convert b) ps)); [congruence|discriminate E].
Qed.

Lemma sym_any k u : l_sym (sym_match (match k with KAny => SW NsAny | KOther => SW (NsNot u) | KNS => SW (NsSet [u]) end))
                     == l_sym (fun x => any_match k u (fst x)).
Proof.
  assert (E : forall q, sym_match (match k with KAny => SW NsAny | KOther => SW (NsNot u) | KNS => SW (NsSet [u]) end) q
                        = any_match k u (fst q)).
  { intros q. destruct k; cbn [sym_match any_match wildcard_allows mem_uri existsb]; auto.
    - unfold absent. rewrite andb_comm. reflexivity.
    - rewrite orb_false_r. apply N.eqb_sym. }
  intro w; split; intros (q & -> & Hq); exists q; split; auto; [rewrite <- E|rewrite E]; auto.
Qed.

Lemma c2re_correct : forall c, Lr (c2re c) == Lc c.
Proof.
  fix IH 1. intros c. destruct c as [q|k u|a b|a b|a|a|a|a m n]; cbn [c2re Lr Lc].
  - apply leq_refl.
  - destruct k; cbn [Lr]; [apply (sym_any KAny u)|apply (sym_any KOther u)|apply (sym_any KNS u)].
  - apply l_cat_ext; apply IH.
  - apply l_alt_ext; apply IH.
  - apply l_alt_ext; [apply leq_refl|apply IH].
  - pose proof (IH a) as Ha.
    destruct a as [q|k u|a1 a2|a1 a2|a1|a1|a1|a1 m n]; cbn [Lr];
      try (apply l_rep_ext; exact Ha).
    apply l_alt_ext; [apply leq_refl|]. apply l_rep_ext. apply IH.
  - pose proof (IH a) as Ha.
    destruct a as [q|k u|a1 a2|a1 a2|a1|a1|a1|a1 m n]; cbn [Lr];
      try (apply l_rep_ext; exact Ha).
    apply l_rep_ext. apply IH.
  - apply l_rep_ext. apply IH.
Qed.

Lemma cmatch_correct o w : cmatch o w = true <-> Lco o w.
Proof.
  destruct o as [c|]; cbn [cmatch Lco].
  - rewrite rmatch_correct. apply c2re_correct.
  - destruct w; unfold l_eps; split; congruence.
Qed.
