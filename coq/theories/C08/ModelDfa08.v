(** Executable model of DFAContentModel for schema grammars (validators/common/DFAContentModel.cpp), no proofs:
    buildSyntaxTree (positions, nullable / firstpos / lastpos, follow lists), the element map (one entry per distinct
    leaf type + URI + local part, carrying the Occurence of the first CMRepeatingLeaf that created it), the subset
    construction in discovery order, fCountingStates, validateContent and handleRepetitions (enter / stay / overflow
    search "deeper in the element map" / exit of a counting state).
    This is the content model as built with schema-full-checking OFF (leaves are not renamed, so two leaves with the
    same name share one element-map entry).  Simplification: the processContents variant of a wildcard type is not
    part of the map key here (Any_Lax / Any_Skip are distinct keys in the C++). *)
From XV Require Export C08.Model08.

Inductive lsym := LQ (q : qname) | LA (k : anykind) (u : uri).
Definition anykind_eqb (a b : anykind) : bool :=
  match a, b with KAny, KAny | KOther, KOther | KNS, KNS => true | _, _ => false end.
Definition lsym_eqb (a b : lsym) : bool :=
  match a, b with
  | LQ x, LQ y => qname_eqb x y
  | LA k u, LA k' u' => anykind_eqb k k' && (u =? u')%N
  | _, _ => false
  end.
Definition lsym_match (s : lsym) (x : qname) : bool :=
  match s with LQ q => qname_eqb q x | LA k u => any_match k u (fst x) end.

Definition occ := (nat * option nat)%type.
Record leaf := { lf_sym : lsym; lf_occ : option occ }.

(** sets of positions: lists, normalised against [0..n) when used as DFA states *)
Definition memn (x : nat) (l : list nat) : bool := existsb (Nat.eqb x) l.
Definition norm (n : nat) (l : list nat) : list nat := filter (fun x => memn x l) (seq 0 n).
Fixpoint list_eqb (a b : list nat) : bool :=
  match a, b with
  | [], [] => true
  | x :: a', y :: b' => (x =? y) && list_eqb a' b'
  | _, _ => false
  end.

Record bst := { b_leaves : list leaf; b_edges : list (nat * nat) }.
Definition add_edges (from to : list nat) (e : list (nat * nat)) : list (nat * nat) :=
  flat_map (fun f => map (fun t => (f, t)) to) from ++ e.

Definition leaf_of (c : csn) : lsym :=
  match c with CLeaf q => LQ q | CAny k u => LA k u | _ => LQ (0%N, 0%N) end.

(** buildSyntaxTree: returns (nullable, firstpos, lastpos) and the extended leaf list / follow edges *)
Fixpoint build (c : csn) (s : bst) : (bool * list nat * list nat) * bst :=
  match c with
  | CLeaf _ | CAny _ _ =>
      let p := length (b_leaves s) in
      ((false, [p], [p]), {| b_leaves := b_leaves s ++ [{| lf_sym := leaf_of c; lf_occ := None |}]; b_edges := b_edges s |})
  | CLoop a m n =>
      let p := length (b_leaves s) in
      ((false, [p], [p]), {| b_leaves := b_leaves s ++ [{| lf_sym := leaf_of a; lf_occ := Some (m, n) |}]; b_edges := b_edges s |})
  | CSeq a b =>
      let '((na, fa, la), s1) := build a s in
      let '((nb, fb, lb), s2) := build b s1 in
      ((na && nb, (if na then fa ++ fb else fa), (if nb then la ++ lb else lb)),
       {| b_leaves := b_leaves s2; b_edges := add_edges la fb (b_edges s2) |})
  | CChoice a b =>
      let '((na, fa, la), s1) := build a s in
      let '((nb, fb, lb), s2) := build b s1 in
      ((na || nb, fa ++ fb, la ++ lb), s2)
  | COpt a =>
      let '((na, fa, la), s1) := build a s in ((true, fa, la), s1)
  | CStar a =>
      let '((na, fa, la), s1) := build a s in
      ((true, fa, la), {| b_leaves := b_leaves s1; b_edges := add_edges la fa (b_edges s1) |})
  | CPlus a =>
      let '((na, fa, la), s1) := build a s in
      ((na, fa, la), {| b_leaves := b_leaves s1; b_edges := add_edges la fa (b_edges s1) |})
  end.

(** the element map: distinct leaf symbols in position order, with the Occurence of the leaf that created the entry *)
Fixpoint emap_add (m : list (lsym * option occ)) (l : leaf) : list (lsym * option occ) :=
  match m with
  | [] => [(lf_sym l, lf_occ l)]
  | e :: r => if lsym_eqb (fst e) (lf_sym l) then m else e :: emap_add r l
  end.
Definition emap_of (ls : list leaf) : list (lsym * option occ) := fold_left emap_add ls [].

Record dfa := {
  d_emap : list (lsym * option occ);
  d_trans : list (list (option nat));      (* per state, per element-map index *)
  d_final : list bool;
  d_counting : list (option (nat * option nat * nat));   (* min, max, elemIndex *)
  d_emptyOk : bool;
  d_ok : bool                                (* false: fuel of the subset construction exhausted *)
}.

Definition follow_of (edges : list (nat * nat)) (p : nat) : list nat :=
  map snd (filter (fun e => fst e =? p) edges).
Fixpoint index_of (st : list nat) (states : list (list nat)) (i : nat) : option nat :=
  match states with [] => None | s :: r => if list_eqb s st then Some i else index_of st r (S i) end.

(** one row of the transition table for the state [st]; new states are appended to [states] *)
Fixpoint row (n : nat) (leaves : list leaf) (edges : list (nat * nat)) (st : list nat)
             (em : list (lsym * option occ)) (states : list (list nat)) : list (option nat) * list (list nat) :=
  match em with
  | [] => ([], states)
  | e :: r =>
      let tgt := norm n (flat_map (fun p => if lsym_eqb (lf_sym (nth p leaves {| lf_sym := LQ (0%N, 0%N); lf_occ := None |})) (fst e)
                                            then follow_of edges p else []) st) in
      match tgt with
      | [] => let '(rw, states') := row n leaves edges st r states in (None :: rw, states')
      | _ => (* the initial state is not entered into stateTable (the put is commented out in buildDFA), so a
                target equal to the initial set becomes a new state *)
             match index_of tgt (tl states) 1 with
             | Some i => let '(rw, states') := row n leaves edges st r states in (Some i :: rw, states')
             | None => let i := length states in
                       let '(rw, states') := row n leaves edges st r (states ++ [tgt]) in (Some i :: rw, states')
             end
      end
  end.

Fixpoint explore (fuel : nat) (n : nat) (leaves : list leaf) (edges : list (nat * nat)) (em : list (lsym * option occ))
                 (cur : nat) (states : list (list nat)) (trans : list (list (option nat)))
  : option (list (list nat) * list (list (option nat))) :=
  match fuel with
  | O => None
  | S fuel =>
      match nth_error states cur with
      | None => Some (states, trans)
      | Some st =>
          let '(rw, states') := row n leaves edges st em states in
          explore fuel n leaves edges em (S cur) states' (trans ++ [rw])
      end
  end.

Fixpoint first_self (i : nat) (rw : list (option nat)) (j : nat) : option nat :=
  match rw with
  | [] => None
  | t :: r => match t with
              | Some k => if k =? i then Some j else first_self i r (S j)
              | None => first_self i r (S j)
              end
  end.

Definition eoc_sym : lsym := LQ (0%N, 0%N).

Definition build_dfa (fuel : nat) (c : csn) : dfa :=
  let '((nul, fst_, lst), s) := build c {| b_leaves := []; b_edges := [] |} in
  let eoc := length (b_leaves s) in
  let leaves := b_leaves s ++ [{| lf_sym := eoc_sym; lf_occ := None |}] in
  let edges := add_edges lst [eoc] (b_edges s) in
  let n := S eoc in
  let em := emap_of leaves in
  let start := norm n (if nul then fst_ ++ [eoc] else fst_) in
  match explore fuel n leaves edges em 0 [start] [] with
  | None => {| d_emap := em; d_trans := []; d_final := []; d_counting := []; d_emptyOk := nul; d_ok := false |}
  | Some (states, trans) =>
      let has_occ := existsb (fun e => match snd e with Some _ => true | None => false end) em in
      {| d_emap := em; d_trans := trans;
         d_final := map (fun st => memn eoc st) states;
         d_counting := map (fun ir => let '(i, rw) := ir in
                                      if has_occ then
                                        match first_self i rw 0 with
                                        | Some j => match snd (nth j em (eoc_sym, None)) with
                                                    | Some (mn, mx) => Some (mn, mx, j)
                                                    | None => None
                                                    end
                                        | None => None
                                        end
                                      else None) (combine (seq 0 (length trans)) trans);
         d_emptyOk := nul; d_ok := true |}
  end.

(** the search for a matching element-map entry with a valid transition, from index [j] on *)
Fixpoint find_trans (em : list (lsym * option occ)) (rw : list (option nat)) (x : qname) (j : nat) : option (nat * nat) :=
  match em, rw with
  | e :: er, t :: tr =>
      match t with
      | Some k => if lsym_match (fst e) x then Some (j, k) else find_trans er tr x (S j)
      | None => find_trans er tr x (S j)
      end
  | _, _ => None
  end.

Definition gt_max (k : nat) (mx : option nat) : bool := match mx with Some m => m <? k | None => false end.
Definition counting_at (d : dfa) (s : nat) : option (nat * option nat * nat) := nth s (d_counting d) None.
Definition enter_count (d : dfa) (next elemIndex cur : nat) : nat :=
  match counting_at d next with
  | Some (_, _, ei) => if elemIndex =? ei then 1 else 0
  | None => cur
  end.

(** handleRepetitions: returns the (possibly redirected) next state and the next loop count, or None on failure *)
Definition handle_rep (d : dfa) (x : qname) (curState loopCount nextState elemIndex : nat) : option (nat * nat) :=
  if existsb (fun o => match o with Some _ => true | None => false end) (d_counting d) ||
     existsb (fun e => match snd e with Some _ => true | None => false end) (d_emap d) then
    match counting_at d curState with
    | Some (mn, mx, _) =>
        if curState =? nextState then
          if gt_max (S loopCount) mx then
            (* overflow: look deeper in the element map for another transition from the current state *)
            match find_trans (skipn (S elemIndex) (d_emap d)) (skipn (S elemIndex) (nth curState (d_trans d) [])) x (S elemIndex) with
            | None => None
            | Some (ei', next') => Some (next', enter_count d next' ei' (S loopCount))
            end
          else Some (nextState, S loopCount)
        else if loopCount <? mn then None
        else Some (nextState, enter_count d nextState elemIndex loopCount)
    | None => Some (nextState, enter_count d nextState elemIndex loopCount)
    end
  else Some (nextState, 0).

Fixpoint dfa_run (d : dfa) (w : list qname) (curState loopCount : nat) : bool :=
  match w with
  | [] =>
      nth curState (d_final d) false &&
      match counting_at d curState with
      | Some (mn, _, _) => negb (loopCount <? mn)
      | None => true
      end
  | x :: r =>
      match find_trans (d_emap d) (nth curState (d_trans d) []) x 0 with
      | None => false
      | Some (ei, next) =>
          match handle_rep d x curState loopCount next ei with
          | None => false
          | Some (next', loop') => dfa_run d r next' loop'
          end
      end
  end.

Definition dfa_validate (d : dfa) (w : list qname) : bool :=
  match w with [] => d_emptyOk d | _ => dfa_run d w 0 0 end.

(** 0 = invalid, 1 = valid, 2 = model fuel exhausted *)
Definition dfa_valid (fuel : nat) (p : particle) (w : list qname) : nat :=
  match content_tree p with
  | None => match w with [] => 1 | _ => 0 end
  | Some t => let d := build_dfa fuel t in
              if d_ok d then (if dfa_validate d w then 1 else 0) else 2
  end.
