(** C08 lemmas, part f: the xsi:type decision of SchemaValidator::validateElement. *)
From XV Require Import C08.Spec08 C08.Model08.

Lemma m_xsitype_chain d eb tb up :
  (m_find_decl d up && m_block_loop d eb tb up = true) <->
  exists pre m post, up = pre ++ (d, m) :: post /\ ~ In d (map fst pre) /\
    forall t s, In (t, s) pre -> blocked eb s = false /\ blocked tb s = false.
Proof.
  induction up as [|[t m] up IH]; cbn [m_find_decl m_block_loop].
  - cbn [andb]. split; [discriminate|]. intros (pre & m & post & E & _). destruct pre; discriminate E.
  - destruct (N.eqb_spec t d) as [->|Hne].
    + split; [|reflexivity]. intros _. exists [], m, up. split; [reflexivity|]. split; [intros []|intros ? ? []].
    + split.
      * intros H. apply andb_true_iff in H. destruct H as [Hf Hb].
        apply andb_true_iff in Hb. destruct Hb as [Hb Hl]. apply andb_true_iff in Hb. destruct Hb as [H1 H2].
        assert (Hr : m_find_decl d up && m_block_loop d eb tb up = true) by (rewrite Hf, Hl; reflexivity).
        apply IH in Hr. destruct Hr as (pre & m' & post & E & Hn & Hall).
        exists ((t, m) :: pre), m', post. subst up. split; [reflexivity|]. split.
        -- cbn [map fst In]. intros [E|E]; [congruence|auto].
        -- intros t0 s [E|H]; [|apply (Hall _ _ H)]. injection E as <- <-. split; apply negb_true_iff; auto.
      * intros (pre & m' & post & E & Hn & Hall). destruct pre as [|[t' s'] pre].
        -- cbn in E. injection E as -> _ _. congruence.
        -- cbn [app] in E. injection E as <- <- E.
           assert (Hr : m_find_decl d up && m_block_loop d eb tb up = true).
           { apply IH. exists pre, m', post. split; [auto|]. split.
             - intro H. apply Hn. cbn [map fst In]. auto.
             - intros t0 s H. apply (Hall t0 s). right; auto. }
           apply andb_true_iff in Hr. destruct Hr as [Hf Hl]. rewrite Hf, Hl.
           destruct (Hall t m (or_introl eq_refl)) as [H1 H2]. rewrite H1, H2. reflexivity.
Qed.

Lemma m_xsitype_correct d eb tb abstract up :
  m_xsitype d eb tb abstract up = true <-> xsitype_ok d eb tb abstract up.
Proof.
  unfold m_xsitype, xsitype_ok. destruct abstract.
  - split; [discriminate|intros [H _]; discriminate H].
  - rewrite <- m_xsitype_chain. destruct (m_find_decl d up); cbn [andb]; split; intros H.
    + split; auto.
    + destruct H; auto.
    + discriminate H.
    + destruct H as [_ H]; discriminate H.
Qed.

Lemma xsitype_okb_model d eb tb abstract up : xsitype_okb d eb tb abstract up = m_xsitype d eb tb abstract up.
Proof.
  unfold xsitype_okb, m_xsitype. destruct abstract; cbn [negb andb]; auto.
  induction up as [|[t m] up IH]; cbn [steps_to m_find_decl m_block_loop]; auto.
  destruct (N.eqb_spec t d); auto.
  destruct (steps_to d up) as [steps|]; cbn [option_map].
  - cbn [forallb]. destruct (m_find_decl d up).
    + rewrite <- IH. rewrite negb_orb. reflexivity.
    + rewrite IH. apply andb_false_r.
  - destruct (m_find_decl d up); auto. rewrite <- IH. rewrite andb_false_r. reflexivity.
Qed.

Lemma xsitype_okb_correct d eb tb abstract up : xsitype_okb d eb tb abstract up = true <-> xsitype_ok d eb tb abstract up.
Proof. rewrite xsitype_okb_model. apply m_xsitype_correct. Qed.
