(** Extraction of the executable C08 models and of the specification deciders used as oracle. *)
From Coq Require Import Extraction ExtrOcamlBasic.
From XV Require Import C08.Spec08 C08.Model08 C08.ModelDfa08 C08.SpecElem08 C08.ModelElem08 C08.Proofs08j.
Extraction Language OCaml.
Extraction "../ocaml/C08/gen_c08.ml"
  pmatch wildcard_allows constraint_of attrs_valid defaulted m_attrs_valid m_defaulted m_xsitype xsitype_okb build_dfa dfa_validate d_ok m_subst subst_okb m_wexpr m_wexpr_faithful wexpr_allows m_att_derivation attr_restriction_ok
  cls_nildefault cls_mixedvc cls_nilws pleaf_match spec_leaf m_elem_check elem_valid elem_value m_walk tree_valid m_conflict str_eqb
  model_valid content_tree use_repeating any_match all_validate.
