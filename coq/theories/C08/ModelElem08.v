(** Executable model of the C++ code that validates one element against its declaration and that decides how
    children matched by wildcards are processed.  No proofs here.

    - [m_elem_check]: SchemaValidator::validateElement (xsi:nil against nillable: NillNotAllowed),
      IGXMLScanner::sendCharData / SGXMLScanner::sendCharData (character data against the content type: NoCharDataInCM,
      what reaches fDatatypeBuffer) and SchemaValidator::checkContent (Empty / Children+Mixed / Simple branches:
      NilAttrNotEmpty, SimpleTypeHasChild, FixedDifferentFromActual, DatatypeError, default value sent to the handler);
    - [m_walk]: IGXMLScanner::scanStartTagNS + laxElementValidation: the fValidate flag along the element tree
      (skip switches validation off for the subtree; lax does so when no declaration is found; otherwise
      ElementNotDefined);
    - [m_conflict]: XercesElementWildcard::conflict / uriInWildcard / wildcardIntersect (without substitution groups),
      used by DFAContentModel::checkUniqueParticleAttribution. *)
From XV Require Export C08.SpecElem08 C08.ModelDfa08.

Inductive ecode := ENillNotAllowed | ENoCharDataInCM | ENilAttrNotEmpty | ESimpleTypeHasChild | EFixedDifferent
                 | EDatatypeError | EContent (* the content model rejected the children / Empty type with children *).

Section ElemModel.
  Variable dtv : list N -> bool.                 (* fCurrentDatatypeValidator->validate *)
  Variable dteq : list N -> list N -> bool.      (* fCurrentDatatypeValidator->compare(..) == 0 *)

  (** validateElement: "Check whether this element allows Nillable"; returns the errors and fNil afterwards *)
  Definition m_nil_check (d : edecl) (x : eitem) : list ecode * bool :=
    match i_nil x with
    | NilAbsent => ([], false)
    | NilTrue => if e_nillable d then ([], true) else ([ENillNotAllowed], false)
    | NilFalse => if e_nillable d then ([], false) else ([ENillNotAllowed], false)
    end.

  (** sendCharData: charOpts = NoCharData for Empty, SpacesOk for Children (and ElementOnlyEmpty), AllCharData else;
      only AllCharData appends to fDatatypeBuffer.  Returns the errors and the buffer. *)
  Definition m_chardata (d : edecl) (x : eitem) : list ecode * list N :=
    match i_text x with
    | [] => ([], [])
    | t =>
        match e_kind d with
        | KEmpty => ([ENoCharDataInCM], [])
        | KElemOnly => if all_ws t then ([], []) else ([ENoCharDataInCM], [])
        | KSimple | KMixed => ([], t)
        end
    end.

  (** checkContent; returns the errors and the characters sent to the document handler in place of the content
      (the default value), if any *)
  Definition m_check_content (d : edecl) (x : eitem) (fNil : bool) (buf : list N) : list ecode * option (list N) :=
    match e_kind d with
    | KEmpty => (if has_kids x then [EContent] else [], None)
    | KElemOnly | KMixed =>
        if fNil then ((if has_kids x || negb (is_nil buf) then [ENilAttrNotEmpty] else []), None)
        else ((if i_cm_ok x then [] else [EContent]), None)
    | KSimple =>
        if has_kids x then ([ESimpleTypeHasChild], None)
        else if fNil then ((if negb (is_nil buf) || has_vc (e_vc d) then [ENilAttrNotEmpty] else []), None)
        else
          match e_vc d with
          | VNone => ((if dtv buf then [] else [EDatatypeError]), None)
          | VDefault v =>
              if is_nil buf then ([], Some v)                      (* value = 0: validated during TraverseSchema *)
              else ((if dtv buf then [] else [EDatatypeError]), None)
          | VFixed v =>
              if is_nil buf then ([], Some v)
              else if dteq buf v then ((if dtv buf then [] else [EDatatypeError]), None)
              else ([EFixedDifferent], None)                       (* fErrorOccurred: validate() is not reached *)
          end
    end.

  Definition m_elem_check (d : edecl) (x : eitem) : list ecode * list N :=
    let '(e1, fNil) := m_nil_check d x in
    let '(e2, buf) := m_chardata d x in
    let '(e3, dflt) := m_check_content d x fNil buf in
    (e1 ++ e2 ++ e3, match dflt with Some v => v | None => i_text x end).
  Definition m_elem_valid (d : edecl) (x : eitem) : bool := is_nil (fst (m_elem_check d x)).
  Definition m_elem_value (d : edecl) (x : eitem) : list N := snd (m_elem_check d x).
End ElemModel.

(** * scanStartTagNS / laxElementValidation: number of errors reported in the subtree, given fValidate on entry *)
Fixpoint m_walk (validate : bool) (t : etree) : nat :=
  match t with
  | ENode h declared ok kids =>
      (* laxElementValidation: the wildcard leaf that takes the child: *_Skip -> fValidate = false; *_Lax -> laxThisOne *)
      let v1 := match h with ByWild PcSkip => false | _ => validate end in
      let lax := match h with ByWild PcLax => true | _ => false end in
      (* element declaration lookup: not found and laxThisOne -> fValidate = false; not found and validating ->
         ElementNotDefined, the element goes on with a faulted-in declaration of type "any" *)
      let v2 := if declared then v1 else if lax then false else v1 in
      let e := if declared then 0 else if lax then 0 else if v1 then 1 else 0 in
      e + (if v2 && declared && negb ok then 1 else 0) +
      (fix go (ks : list etree) : nat := match ks with [] => 0 | k :: r => m_walk v2 k + go r end) kids
  end.
Definition m_tree_valid (t : etree) : bool := m_walk true t =? 0.

(** * XercesElementWildcard::conflict on two element-map entries ("Below we assume that empty string has id 1") *)
Definition m_uri_in_wildcard (x : uri) (k : anykind) (u : uri) : bool :=
  match k with
  | KAny => true
  | KNS => (x =? u)%N                                   (* isAllowedByWildcard(.., wother = false) *)
  | KOther => negb (x =? 1)%N && negb (x =? u)%N        (* isAllowedByWildcard(.., wother = true) *)
  end.
Definition m_wildcard_intersect (k1 : anykind) (w1 : uri) (k2 : anykind) (w2 : uri) : bool :=
  match k1, k2 with
  | KAny, _ | _, KAny => true
  | KNS, KNS => (w1 =? w2)%N
  | KOther, KOther => true
  | KNS, KOther => negb (w1 =? w2)%N && negb (w1 =? 1)%N
  | KOther, KNS => negb (w1 =? w2)%N && negb (w2 =? 1)%N
  end.
Definition m_conflict (a b : lsym) : bool :=
  match a, b with
  | LQ q1, LQ q2 => qname_eqb q1 q2                      (* isEquivalentTo, no substitution groups *)
  | LQ q, LA k u => m_uri_in_wildcard (fst q) k u
  | LA k u, LQ q => m_uri_in_wildcard (fst q) k u
  | LA k1 u1, LA k2 u2 => m_wildcard_intersect k1 u1 k2 u2
  end.
(** the specification-side reading of an element-map entry *)
Definition spec_leaf (s : lsym) : pleaf :=
  match s with
  | LQ q => PElem q
  | LA KAny _ => PWild NsAny
  | LA KOther u => PWild (NsNot u)
  | LA KNS u => PWild (NsSet [u])
  end.
