(** Executable model of the C++ code that decides element-content validity for schema grammars.  No proofs here.

    - [csn]: ContentSpecNode trees as ComplexTypeInfo::convertContentSpecTree leaves them
      (validators/common/ContentSpecNode.hpp: Leaf, Any / Any_Other / Any_NS, Sequence, Choice, ZeroOrOne,
      ZeroOrMore, OneOrMore, Loop);
    - [expand]: ComplexTypeInfo::expandContentModel (validators/schema/ComplexTypeInfo.cpp), case by case;
    - [convert]: TraverseSchema::traverseChoiceSequence / traverseAny (how the binary tree is built from the
      children of <sequence>/<choice>/<any>) followed by ComplexTypeInfo::convertContentSpecTree;
    - [use_repeating]: ComplexTypeInfo::useRepeatingLeafNodes (whether the compact Loop form is allowed);
    - [any_match]: the wildcard cases of DFAContentModel::validateContent;
    - [all_validate]: AllContentModel::validateContent;
    - [Lc]: the language a converted tree denotes (what DFAContentModel is built to accept). *)
From XV Require Export C08.Spec08.

(** Any = ##any, Any_Other = ##other (uri = target namespace), Any_NS = one namespace *)
Inductive anykind := KAny | KOther | KNS.

Inductive csn :=
| CLeaf (q : qname)
| CAny (k : anykind) (u : uri)
| CSeq (a b : csn)
| CChoice (a b : csn)
| COpt (a : csn)            (* ZeroOrOne *)
| CStar (a : csn)           (* ZeroOrMore *)
| CPlus (a : csn)           (* OneOrMore *)
| CLoop (a : csn) (m : nat) (n : option nat).   (* Loop with min/max; maxOccurs -1 = None *)

(** DFAContentModel::validateContent, wildcard leaves ("Here we assume that empty string has id 1") *)
Definition any_match (k : anykind) (u : uri) (x : uri) : bool :=
  match k with
  | KAny => true
  | KNS => (u =? x)%N
  | KOther => negb (x =? 1)%N && negb (x =? u)%N
  end.

Definition is_leafish (c : csn) : bool := match c with CLeaf _ | CAny _ _ => true | _ => false end.

(** k times  ret := Sequence(ret, s) *)
Fixpoint seq_left (r s : csn) (k : nat) : csn := match k with O => r | S k => seq_left (CSeq r s) s k end.
(** k times  ret := Sequence(s, ret) *)
Fixpoint seq_right (s r : csn) (k : nat) : csn := match k with O => r | S k => seq_right s (CSeq s r) k end.

Definition expand (c : csn) (m : nat) (n : option nat) (compact : bool) : csn :=
  match m, n with
  | 1, Some 1 => c
  | 0, Some 1 => COpt c
  | 0, None => CStar c
  | 1, None => CPlus c
  | _, _ =>
      if compact && is_leafish c then
        (if m =? 0 then CStar (CLoop c m n) else CPlus (CLoop c m n))
      else
        match n with
        | None => seq_right c (CPlus c) (m - 1)
        | Some n =>
            if m =? 0 then seq_left (COpt c) (COpt c) (n - 1)
            else
              let r := if 1 <? m then seq_left (CSeq c c) c (m - 2) else c in
              let counter := n - m in
              if 0 <? counter then seq_left (CSeq r (COpt c)) (COpt c) (counter - 1) else r
        end
  end.

(** traverseAny: the node(s) for a namespace constraint; a list becomes a left-nested Any_NS_Choice chain over the
    distinct namespaces (uriList.containsElement); an empty [namespace] attribute is read as ##any *)
Fixpoint dedup (l : list uri) (seen : list uri) : list uri :=
  match l with
  | [] => []
  | u :: r => if mem_uri u seen then dedup r seen else u :: dedup r (u :: seen)
  end.
Definition any_nodes (c : nsc) : list csn :=
  match c with
  | NsAny => [CAny KAny absent]
  | NsNot u => [CAny KOther u]
  | NsSet [] => [CAny KAny absent]
  | NsSet l => map (CAny KNS) (dedup l [])
  end.

(** left-nested binary tree over a non-empty child list, as traverseChoiceSequence builds it *)
Definition nest (mk : csn -> csn -> csn) (cs : list csn) : option csn :=
  match cs with
  | [] => None
  | c :: r => Some (fold_left mk r c)
  end.

Fixpoint filter_some {A} (l : list (option A)) : list A :=
  match l with [] => [] | Some a :: r => a :: filter_some r | None :: r => filter_some r end.

(** traverseChoiceSequence + convertContentSpecTree.  [None] = no content spec node (empty group). *)
Fixpoint convert (compact : bool) (p : particle) : option csn :=
  match p with
  | Elem m n q => Some (expand (CLeaf q) m n compact)
  | Wild m n c =>
      match n with
      | Some O => None            (* traverseChoiceSequence: wasAny && getMaxOccurs() == 0 -> dropped *)
      | _ => match nest CChoice (any_nodes c) with
             | Some t => Some (expand t m n compact)
             | None => None
             end
      end
  | Seq m n ps =>
      match nest CSeq (filter_some ((fix go (ps : list particle) : list (option csn) :=
                                       match ps with [] => [] | p :: r => convert compact p :: go r end) ps)) with
      | Some t => Some (expand t m n compact)
      | None => None
      end
  | Choice m n ps =>
      match nest CChoice (filter_some ((fix go (ps : list particle) : list (option csn) :=
                                          match ps with [] => [] | p :: r => convert compact p :: go r end) ps)) with
      | Some t => Some (expand t m n compact)
      | None => None
      end
  end.

(** does the particle produce a node at all *)
Fixpoint has_node (p : particle) : bool :=
  match p with
  | Elem _ _ _ => true
  | Wild _ n _ => match n with Some O => false | _ => true end
  | Seq _ _ ps | Choice _ _ ps => (fix go (ps : list particle) : bool :=
                                     match ps with [] => false | p :: r => has_node p || go r end) ps
  end.

Definition is_11 (m : nat) (n : option nat) : bool := match m, n with 1, Some 1 => true | _, _ => false end.

(** a child that is a single leaf node with occurrence 1..1 *)
Definition plain_leaf (p : particle) : bool :=
  match p with
  | Elem m n _ => is_11 m n
  | Wild m n c => is_11 m n && (length (any_nodes c) =? 1)
  | _ => false
  end.

(** ComplexTypeInfo::useRepeatingLeafNodes *)
Fixpoint use_repeating (p : particle) : bool :=
  match p with
  | Elem _ _ _ => true
  | Wild m n c => if length (any_nodes c) =? 1 then true else is_11 m n
  | Seq m n ps | Choice m n ps =>
      let kids := filter has_node ps in
      if is_11 m n then
        (fix go (ps : list particle) : bool :=
           match ps with [] => true | p :: r => (if has_node p then use_repeating p else true) && go r end) ps
      else match kids with
           | [] => true
           | [k] => plain_leaf k
           | _ => false
           end
  end.

(** ComplexTypeInfo::makeContentModel: the tree handed to the content model *)
Definition content_tree (p : particle) : option csn := convert (use_repeating p) p.

(** the language of a converted tree: Sequence/Choice/ZeroOrOne/ZeroOrMore/OneOrMore as the usual regular
    operators; a Loop node (CMRepeatingLeaf with min/max, always directly under ZeroOrMore/OneOrMore) is a counted
    self-loop: at least one and at most max iterations are counted, min is checked when the loop is left
    (DFAContentModel::handleRepetitions / the final check of validateContent); the first iteration enters the
    counting state without a check against max *)
Definition max1 (n : option nat) : option nat := option_map (Nat.max 1) n.
Fixpoint Lc (c : csn) : lang :=
  match c with
  | CLeaf q => l_sym (qname_eqb q)
  | CAny k u => l_sym (fun x => any_match k u (fst x))
  | CSeq a b => l_cat (Lc a) (Lc b)
  | CChoice a b => l_alt (Lc a) (Lc b)
  | COpt a => l_alt l_eps (Lc a)
  | CStar a => match a with
               | CLoop b m n => l_alt l_eps (l_rep (Nat.max 1 m) (max1 n) (Lc b))
               | _ => l_rep 0 None (Lc a)
               end
  | CPlus a => match a with
               | CLoop b m n => l_rep (Nat.max 1 m) (max1 n) (Lc b)
               | _ => l_rep 1 None (Lc a)
               end
  | CLoop b m n => l_rep (Nat.max 1 m) (max1 n) (Lc b)
  end.

(** executable acceptance test for a converted tree (same reading as [Lc]) *)
Fixpoint c2re (c : csn) : re :=
  match c with
  | CLeaf q => RSym (SQ q)
  | CAny KAny _ => RSym (SW NsAny)
  | CAny KOther u => RSym (SW (NsNot u))
  | CAny KNS u => RSym (SW (NsSet [u]))
  | CSeq a b => RCat (c2re a) (c2re b)
  | CChoice a b => RAlt (c2re a) (c2re b)
  | COpt a => RAlt REps (c2re a)
  | CStar a => match a with
               | CLoop b m n => RAlt REps (ROcc (Nat.max 1 m) (max1 n) (c2re b))
               | _ => ROcc 0 None (c2re a)
               end
  | CPlus a => match a with
               | CLoop b m n => ROcc (Nat.max 1 m) (max1 n) (c2re b)
               | _ => ROcc 1 None (c2re a)
               end
  | CLoop b m n => ROcc (Nat.max 1 m) (max1 n) (c2re b)
  end.
Definition cmatch (c : option csn) (w : list qname) : bool :=
  match c with
  | None => match w with [] => true | _ => false end
  | Some t => rmatch (c2re t) w
  end.
(** the model's verdict for the children [w] of an element whose type has content particle [p] *)
Definition model_valid (p : particle) (w : list qname) : bool := cmatch (content_tree p) w.

(** * AllContentModel *)
(** buildChildList: fChildren / fChildOptional / fNumRequired / fHasOptionalContent *)
Record allcm := { ac_children : list qname; ac_optional : list bool; ac_numRequired : nat; ac_hasOptional : bool }.
Definition all_build (g : allgroup) : allcm :=
  {| ac_children := map fst (ag_members g);
     ac_optional := map (fun m => negb (snd m)) (ag_members g);
     ac_numRequired := length (filter (fun m => snd m) (ag_members g));
     ac_hasOptional := ag_optional g |}.

(** index of the first child equal to q *)
Fixpoint find_index (q : qname) (l : list qname) (i : nat) : option nat :=
  match l with [] => None | x :: r => if qname_eqb x q then Some i else find_index q r (S i) end.
Fixpoint set_nth (i : nat) (l : list bool) : list bool :=
  match l, i with
  | [], _ => []
  | _ :: r, O => true :: r
  | b :: r, S i => b :: set_nth i r
  end.

(** the loop over the children: returns None on failure, else numRequiredSeen *)
Fixpoint all_loop (cm : allcm) (w : list qname) (seen : list bool) (numReq : nat) : option nat :=
  match w with
  | [] => Some numReq
  | x :: r =>
      match find_index x (ac_children cm) 0 with
      | None => None
      | Some i =>
          if nth i seen false then None
          else all_loop cm r (set_nth i seen) (if nth i (ac_optional cm) false then numReq else S numReq)
      end
  end.
Definition all_validate_cm (cm : allcm) (w : list qname) : bool :=
  match w with
  | [] => if ac_hasOptional cm || (ac_numRequired cm =? 0) then true else (0 =? ac_numRequired cm)
  | _ => match all_loop cm w (map (fun _ => false) (ac_children cm)) 0 with
         | None => false
         | Some k => k =? ac_numRequired cm
         end
  end.
Definition all_validate (g : allgroup) (w : list qname) : bool := all_validate_cm (all_build g) w.

(** * attribute uses: the schema-grammar path of IGXMLScanner::buildAttList / SGXMLScanner::buildAttList *)
(** anyAttributeValidation: Any_Any / Any_Other / Any_List *)
Definition any_attr_match (c : nsc) (x : uri) : bool :=
  match c with
  | NsAny => true
  | NsNot u => negb (u =? x)%N && negb (x =? 1)%N
  | NsSet l => existsb (fun y => (y =? x)%N) l
  end.
(** one provided attribute: getAttDef; when there is none, the wildcard (skip / lax: accepted; strict: the attribute
    must be in the attribute registry of its namespace's grammar, else AttNotDefinedForElement); a found attDef with
    defaultType Prohibited gives ProhibitedAttributePresent; a Fixed one is compared in validateAttrValue *)
Definition m_attr_item (d : attrdecls) (declared : qname -> bool) (a : qname * list N) : bool :=
  match find_use (fst a) (ad_uses d) with
  | Some u =>
      match au_use u with
      | UProhibited => false
      | _ => match au_vc u with VFixed v => str_eqb v (snd a) | _ => true end
      end
  | None =>
      match ad_wild d with
      | Some (c, pc) =>
          if any_attr_match c (fst (fst a)) then
            match pc with PcSkip | PcLax => true | PcStrict => declared (fst a) end
          else false
      | None => false
      end
  end.
(** the loop over the attDefList after the provided attributes: Required and not provided -> RequiredAttrNotProvided;
    Default / Fixed and not provided -> faulted in *)
Fixpoint m_attr_defs (us : list attruse) (atts : list (qname * list N)) : bool * list (qname * list N) :=
  match us with
  | [] => (true, [])
  | u :: r =>
      let (ok, faulted) := m_attr_defs r atts in
      match find_attr (au_name u) atts with
      | Some _ => (ok, faulted)
      | None =>
          match au_use u with
          | URequired => (false, faulted)
          | UProhibited => (ok, faulted)
          | UOptional => match au_vc u with
                         | VDefault v | VFixed v => (ok, (au_name u, v) :: faulted)
                         | VNone => (ok, faulted)
                         end
          end
      end
  end.
Definition m_attrs_valid (d : attrdecls) (declared : qname -> bool) (atts : list (qname * list N)) : bool :=
  forallb (m_attr_item d declared) atts && fst (m_attr_defs (ad_uses d) atts).
Definition m_defaulted (d : attrdecls) (atts : list (qname * list N)) : list (qname * list N) :=
  snd (m_attr_defs (ad_uses d) atts).

(** * xsi:type: SchemaValidator::validateElement, complex declared type and complex xsi:type *)
(** first loop: walk getBaseComplexTypeInfo() from the xsi:type until the element's declared type is met *)
Fixpoint m_find_decl (d : N) (up : ancestry) : bool :=
  match up with [] => false | (t, _) :: r => if (t =? d)%N then true else m_find_decl d r end.
(** second loop ("perform the check on the entire inheritance chain"): for every type below the declared one, its
    getDerivedBy() against the element's block set (ElemNoSubforBlock) and the declared type's (TypeNoSubforBlock) *)
Fixpoint m_block_loop (d : N) (eb tb : blockset) (up : ancestry) : bool :=
  match up with
  | [] => true
  | (t, m) :: r => if (t =? d)%N then true
                   else negb (blocked eb m) && negb (blocked tb m) && m_block_loop d eb tb r
  end.
Definition m_xsitype (d : N) (eb tb : blockset) (abstract : bool) (up : ancestry) : bool :=
  if abstract then false                              (* NoAbstractInXsiType *)
  else if m_find_decl d up then m_block_loop d eb tb up
  else false.                                         (* NonDerivedXsiType *)

(** * SubstitutionGroupComparator::isEquivalentTo (complex types) *)
Definition bor (a b : blockset) : blockset := {| bk_ext := bk_ext a || bk_ext b; bk_restr := bk_restr a || bk_restr b |}.
(** while (pElemDecl) { if (pElemDecl is the exemplar) ... ; pElemDecl = pElemDecl->getSubstitutionGroupElem(); } *)
Fixpoint m_find_head (head : N) (affil : list N) : bool :=
  match affil with [] => false | h :: r => if (h =? head)%N then true else m_find_head head r end.
(** while (tempType != 0 && tempType != exemplarComplexType) { devMethod |= tempType->getDerivedBy();
    tempType = tempType->getBaseComplexTypeInfo(); if (tempType) blockConstraint |= tempType->getBlockSet(); }
    None: the walk ended at 0 (tempType != exemplarComplexType) *)
Fixpoint m_sg_walk (ht : N) (up : typechain) (dev : list dmethod) (blk : blockset) : option (list dmethod * blockset) :=
  match up with
  | [] => None
  | e :: r =>
      if (tc_id e =? ht)%N then Some (dev, blk)
      else match r with
           | [] => None
           | e' :: _ => m_sg_walk ht r (tc_method e :: dev) (bor blk (tc_block e'))
           end
  end.
Definition m_subst (member head : N) (affil : list N) (hb : eblock) (ht : N) (up : typechain) : bool :=
  if (member =? head)%N then true
  else if m_find_head head affil then
    if eb_subst hb then false
    else match m_sg_walk ht up [] (eb_types hb) with
         | None => false
         | Some (dev, blk) => negb (existsb (blocked blk) dev)
         end
  else false.

(** * TraverseSchema::attWildCardIntersection / attWildCardUnion.  [None] = AttTypes_Unknown (not expressible) *)
Definition m_wc_inter (r c : nsc) : option nsc :=
  match r, c with
  | _, NsAny => Some r
  | NsAny, _ => Some c
  | NsNot u, NsSet l | NsSet l, NsNot u =>
      Some (NsSet (filter (fun x => negb (x =? u)%N && negb (x =? 1)%N) l))
  | NsSet lr, NsSet lc => Some (NsSet (filter (fun x => mem_uri x lr) lc))
  | NsNot u, NsNot v =>
      if (u =? v)%N then Some (NsNot u)
      else if (u =? 1)%N then Some (NsNot v)
      else if (v =? 1)%N then Some (NsNot u)
      else None
  end.
Definition m_wc_union (r c : nsc) : option nsc :=
  match r, c with
  | NsAny, _ => Some NsAny
  | _, NsAny => Some NsAny
  | NsSet lr, NsSet lc => Some (NsSet (lr ++ filter (fun x => negb (mem_uri x lr)) lc))
  | NsNot u, NsNot v => if (u =? v)%N then Some (NsNot u) else Some (NsNot 1%N)
  | NsNot u, NsSet l | NsSet l, NsNot u =>
      if (u =? 1)%N then (if mem_uri 1%N l then Some NsAny else Some (NsNot 1%N))
      else match mem_uri 1%N l, mem_uri u l with
           | true, true => Some NsAny
           | false, true => Some (NsNot 1%N)
           | true, false => None
           | false, false => Some (NsNot u)
           end
  end.
(** a combination evaluated the way traverseComplexTypeDecl / processAttributes do: Unknown is absorbing *)
Fixpoint m_wexpr (e : wexpr) : option nsc :=
  match e with
  | WLeaf c => Some c
  | WInter a b => match m_wexpr a, m_wexpr b with Some x, Some y => m_wc_inter x y | _, _ => None end
  | WUnion a b => match m_wexpr a, m_wexpr b with Some x, Some y => m_wc_union x y | _, _ => None end
  end.

(** the unrepaired tree (known finding C08-attwild-anylist): when the wildcard being completed is ##any and the other one
    a namespace list, attWildCardIntersection copies type and URI of the list wildcard (copyWildCardData) but not its
    namespace list, after resetNamespaceList(): the result is a list wildcard that allows nothing *)
Definition m_wc_inter_faithful (r c : nsc) : option nsc :=
  match r, c with
  | NsAny, NsSet (_ :: _) => Some (NsSet [])
  | _, _ => m_wc_inter r c
  end.
(** the unrepaired tree (known finding C08-attwild-emptyunion): attWildCardUnion of not(namespace) with a list wildcard
    that has no namespace list (an empty set) takes the branch "5.3 not expressible" instead of 5.4 *)
Definition m_wc_union_faithful (r c : nsc) : option nsc :=
  match r, c with
  | NsNot u, NsSet [] | NsSet [], NsNot u => if (u =? 1)%N then m_wc_union r c else None
  | _, _ => m_wc_union r c
  end.
Fixpoint m_wexpr_faithful (e : wexpr) : option nsc :=
  match e with
  | WLeaf c => Some c
  | WInter a b => match m_wexpr_faithful a, m_wexpr_faithful b with Some x, Some y => m_wc_inter_faithful x y | _, _ => None end
  | WUnion a b => match m_wexpr_faithful a, m_wexpr_faithful b with Some x, Some y => m_wc_union_faithful x y | _, _ => None end
  end.

(** * TraverseSchema::checkAttDerivationOK (complex type restriction) and isWildCardSubset *)
Definition m_wc_subset (base child : nsc) : bool :=
  match base with
  | NsAny => true
  | NsNot v => match child with
               | NsNot u => (u =? v)%N
               | NsSet l => negb (mem_uri v l)
               | NsAny => false
               end
  | NsSet lb => match child with NsSet l => forallb (fun x => mem_uri x lb) l | _ => false end
  end.
(** the body of the loop for one attribute of the derived type that the restriction declares (the attributes copied
    from the base type compare equal to themselves and never report); true = no schema error *)
Definition m_adecl_check (tder : N -> N -> bool) (base : list adecl) (bw : option nsc) (c : adecl) : bool :=
  match find_adecl (ad_name c) base with
  | Some b =>
      negb (is_required (ad_use b) && negb (is_required (ad_use c))) &&     (* BadAttDerivation_2 *)
      match ad_use c with
      | UProhibited => true
      | _ => tder (ad_type c) (ad_type b) &&                                (* BadAttDerivation_3 *)
             vc_fixed_ok (ad_vc b) (ad_vc c)                                (* BadAttDerivation_4 *)
      end
  | None => match bw with Some w => wildcard_allows w (fst (ad_name c)) | None => false end   (* BadAttDerivation_5 *)
  end.
Definition m_att_derivation (tder : N -> N -> bool) (base : list adecl) (bw : option nsc)
                            (decls : list adecl) (dw : option nsc) : bool :=
  forallb (m_adecl_check tder base bw) decls &&
  match dw with
  | None => true
  | Some wd => match bw with Some wb => m_wc_subset wb wd | None => false end       (* _6 / _7 *)
  end.
