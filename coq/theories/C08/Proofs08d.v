(** C08 lemmas, part d: AllContentModel::validateContent decides the all-group language. *)
From XV Require Import C08.Spec08 C08.Model08 C08.Proofs08a.

Lemma qname_eqb_eq a b : qname_eqb a b = true <-> a = b.
Proof.
  unfold qname_eqb. rewrite andb_true_iff, !N.eqb_eq. destruct a, b; cbn. split; [intros [-> ->]; auto|].
  intros E; injection E; auto.
Qed.
Lemma qname_eqb_refl a : qname_eqb a a = true.
Proof. apply qname_eqb_eq; auto. Qed.

Lemma qname_eqb_sym_aux a b : qname_eqb a b = qname_eqb b a.
Proof. unfold qname_eqb. rewrite (N.eqb_sym (fst a)), (N.eqb_sym (snd a)). reflexivity. Qed.

Definition memq (x : qname) (l : list qname) : bool := existsb (qname_eqb x) l.
Lemma memq_In x l : memq x l = true <-> In x l.
Proof.
  unfold memq. rewrite existsb_exists. split.
  - intros (y & Hy & E). apply qname_eqb_eq in E. subst; auto.
  - intros H. exists x. split; auto. apply qname_eqb_refl.
Qed.
Fixpoint nodupb (l : list qname) : bool := match l with [] => true | x :: r => negb (memq x r) && nodupb r end.
Lemma nodupb_NoDup l : nodupb l = true <-> NoDup l.
Proof.
  induction l as [|x l IH]; cbn [nodupb].
  - split; [constructor|auto].
  - rewrite andb_true_iff, negb_true_iff, IH. split.
    + intros [H1 H2]. constructor; auto. intro H. apply memq_In in H. congruence.
    + intros H. inversion H; subst. split; auto. destruct (memq x l) eqn:E; auto. apply memq_In in E. contradiction.
Qed.

(** * find_index *)
Lemma find_index_some x l i j : find_index x l i = Some j -> i <= j /\ nth_error l (j - i) = Some x.
Proof.
  revert i. induction l as [|y l IH]; intros i; cbn [find_index]; [discriminate|].
  destruct (qname_eqb y x) eqn:E.
  - intros H; injection H as <-. apply qname_eqb_eq in E. subst. rewrite Nat.sub_diag. split; auto.
  - intros H. apply IH in H. destruct H as [H1 H2]. split; [lia|].
    replace (j - i) with (S (j - S i)) by lia. exact H2.
Qed.
Lemma find_index_none x l i : find_index x l i = None <-> ~ In x l.
Proof.
  revert i. induction l as [|y l IH]; intros i; cbn [find_index In]; [tauto|].
  destruct (qname_eqb y x) eqn:E.
  - apply qname_eqb_eq in E. subst. split; [discriminate|tauto].
  - rewrite IH. split; [|tauto]. intros H [->|H']; [|tauto]. rewrite qname_eqb_refl in E. discriminate.
Qed.
Lemma find_index_same x y l i : find_index x l 0 = Some i -> find_index y l 0 = Some i -> x = y.
Proof.
  intros H1 H2. apply find_index_some in H1. apply find_index_some in H2. destruct H1 as [_ H1], H2 as [_ H2].
  congruence.
Qed.

Lemma nth_set_nth i j l : nth j (set_nth i l) false = if (j =? i) && (i <? length l) then true else nth j l false.
Proof.
  revert i j. induction l as [|b l IH]; intros i j.
  - cbn [set_nth length]. rewrite andb_false_r. destruct i; reflexivity.
  - destruct i as [|i]; cbn [set_nth].
    + destruct j; cbn; auto.
    + destruct j as [|j]; [reflexivity|]. change (nth (S j) (b :: set_nth i l) false) with (nth j (set_nth i l) false).
      rewrite IH. reflexivity.
Qed.
Lemma set_nth_length i l : length (set_nth i l) = length l.
Proof. revert i; induction l; intros [|i]; cbn [set_nth length]; auto. Qed.

(** * the loop *)
Section AllLoop.
  Variable g : allgroup.
  Let cm := all_build g.
  Let names := map fst (ag_members g).

  (** is the (first) member named x required *)
  Definition reqb (x : qname) : bool :=
    match find (fun m => qname_eqb (fst m) x) (ag_members g) with Some (_, r) => r | None => false end.

  Lemma optional_at x i0 : find_index x names 0 = Some i0 -> nth i0 (ac_optional cm) false = negb (reqb x).
  Proof.
    unfold names, cm, all_build, reqb; cbn [ac_optional].
    assert (G : forall ms k i, find_index x (map fst ms) k = Some i ->
                nth (i - k) (map (fun m : qname * bool => negb (snd m)) ms) false =
                negb match find (fun m => qname_eqb (fst m) x) ms with Some (_, r) => r | None => false end).
    { induction ms as [|[q r] ms IH]; intros k i; cbn [map find_index find fst snd]; [discriminate|].
      destruct (qname_eqb q x) eqn:E.
      - intros H; injection H as <-. rewrite Nat.sub_diag. reflexivity.
      - intros H. pose proof (find_index_some _ _ _ _ H) as [Hk _]. specialize (IH _ _ H).
        replace (i - k) with (S (i - S k)) by lia. exact IH. }
    intros H. specialize (G _ _ _ H). rewrite Nat.sub_0_r in G. exact G.
  Qed.

  Definition count_req (w : list qname) : nat := length (filter reqb w).

  Definition Inv (seen : list bool) (W : list qname) : Prop :=
    length seen = length names /\
    forall x i, find_index x names 0 = Some i -> (nth i seen false = true <-> In x W).

  Lemma all_loop_spec w : forall seen W k, Inv seen W ->
    all_loop cm w seen k =
    if forallb (fun x => memq x names) w && nodupb w && forallb (fun x => negb (memq x W)) w
    then Some (k + count_req w) else None.
  Proof.
    induction w as [|x w IH]; intros seen W k HI; cbn [all_loop forallb nodupb].
    - cbn. f_equal. unfold count_req. cbn. lia.
    - change (ac_children cm) with names.
      destruct (find_index x names 0) as [i|] eqn:Ei.
      + assert (Hin : memq x names = true).
        { apply memq_In. destruct (find_index_some _ _ _ _ Ei) as [_ H]. apply nth_error_In in H. exact H. }
        rewrite Hin. cbn [andb]. destruct HI as [Hlen HI]. pose proof (HI x i Ei) as Hx.
        destruct (nth i seen false) eqn:Es.
        * assert (memq x W = true) by (apply memq_In; apply Hx; auto).
          rewrite H. cbn [negb andb]. rewrite !andb_false_r. reflexivity.
        * assert (HW : memq x W = false).
          { destruct (memq x W) eqn:E; auto. apply memq_In in E. apply Hx in E. discriminate. }
          rewrite HW. cbn [negb andb].
          assert (Hi : i < length seen).
          { rewrite Hlen. destruct (find_index_some _ _ _ _ Ei) as [_ H]. rewrite Nat.sub_0_r in H.
            apply nth_error_Some. congruence. }
          rewrite (IH (set_nth i seen) (x :: W)).
          2:{ split; [rewrite set_nth_length; auto|]. intros y j Ej. rewrite nth_set_nth.
              destruct (Nat.eqb_spec j i) as [->|Hne].
              - apply Nat.ltb_lt in Hi. rewrite Hi. cbn [andb]. pose proof (find_index_same _ _ _ _ Ei Ej). subst y.
                cbn; tauto.
              - cbn [andb]. rewrite (HI y j Ej). cbn [In]. split; [tauto|]. intros [->|H]; auto.
                rewrite Ei in Ej. injection Ej as <-. congruence. }
          rewrite (optional_at x i Ei).
          assert (Hr : forallb (fun y => negb (memq y (x :: W))) w =
                       negb (memq x w) && forallb (fun y => negb (memq y W)) w).
          { clear. induction w as [|y w IHw]; cbn [forallb]; auto.
            rewrite IHw. change (memq y (x :: W)) with (qname_eqb y x || memq y W).
            change (memq x (y :: w)) with (qname_eqb x y || memq x w). rewrite (qname_eqb_sym_aux y x).
            destruct (qname_eqb x y), (memq y W), (memq x w); cbn; auto. }
          rewrite Hr. unfold count_req. cbn [filter].
          destruct (reqb x); cbn [negb length];
            destruct (forallb (fun x0 => memq x0 names) w), (memq x w), (nodupb w),
                     (forallb (fun y => negb (memq y W)) w); cbn [negb andb]; auto; f_equal; lia.
      + assert (Hin : memq x names = false).
        { destruct (memq x names) eqn:E; auto. apply memq_In in E. apply find_index_none in Ei. contradiction. }
        rewrite Hin. reflexivity.
  Qed.
End AllLoop.

(** * the verdict *)
Definition all_char (g : allgroup) (w : list qname) : Prop :=
  (w = [] /\ ag_optional g = true) \/
  (NoDup w /\ (forall x, In x w -> In x (map fst (ag_members g))) /\
   (forall q, In (q, true) (ag_members g) -> In q w)).

Lemma find_member ms q r : NoDup (map fst ms) -> In (q, r) ms ->
  find (fun m : qname * bool => qname_eqb (fst m) q) ms = Some (q, r).
Proof.
  induction ms as [|[q' r'] ms IH]; cbn [map fst find In]; [tauto|]. intros Hnd Hin. inversion Hnd; subst.
  destruct Hin as [E|Hin].
  - injection E as -> ->. rewrite qname_eqb_refl. reflexivity.
  - destruct (qname_eqb q' q) eqn:E.
    + apply qname_eqb_eq in E. subst. exfalso. apply H1. apply in_map_iff. exists (q, r). auto.
    + apply IH; auto.
Qed.

Lemma reqb_member g q r : NoDup (map fst (ag_members g)) -> In (q, r) (ag_members g) -> reqb g q = r.
Proof. intros Hnd Hin. unfold reqb. rewrite (find_member _ q r Hnd Hin). reflexivity. Qed.

Lemma reqb_true g q : reqb g q = true -> In (q, true) (ag_members g).
Proof.
  unfold reqb. destruct (find _ _) as [[q' r]|] eqn:E; [|discriminate]. intros ->.
  apply find_some in E. destruct E as [Hin E]. cbn [fst] in E. apply qname_eqb_eq in E. subst. exact Hin.
Qed.

Lemma filter_map_fst g : NoDup (map fst (ag_members g)) ->
  filter (reqb g) (map fst (ag_members g)) = map fst (filter (fun m => snd m) (ag_members g)).
Proof.
  intros Hnd. assert (G : forall ms, (forall m, In m ms -> reqb g (fst m) = snd m) ->
                            filter (reqb g) (map fst ms) = map fst (filter (fun m => snd m) ms)).
  { induction ms as [|m ms IH]; intros H; cbn [map filter]; auto.
    rewrite (H m (or_introl eq_refl)). rewrite IH by (intros; apply H; right; auto).
    destruct (snd m); reflexivity. }
  apply G. intros [q r] Hin. cbn [fst snd]. apply reqb_member; auto.
Qed.

Lemma count_req_all g w : NoDup (map fst (ag_members g)) -> NoDup w ->
  (forall x, In x w -> In x (map fst (ag_members g))) ->
  (count_req g w = ac_numRequired (all_build g) <-> forall q, In (q, true) (ag_members g) -> In q w).
Proof.
  intros Hnd Hw Hin. set (names := map fst (ag_members g)) in *. set (R := filter (reqb g) names).
  assert (HR : length R = ac_numRequired (all_build g)).
  { unfold R, names. rewrite filter_map_fst by auto. rewrite map_length. reflexivity. }
  assert (HRnd : NoDup R) by (apply NoDup_filter; auto).
  assert (Hfnd : NoDup (filter (reqb g) w)) by (apply NoDup_filter; auto).
  assert (Hincl : incl (filter (reqb g) w) R).
  { intros x Hx. apply filter_In in Hx. destruct Hx. apply filter_In. split; auto. }
  unfold count_req. rewrite <- HR. split.
  - intros Hlen q Hq.
    assert (HqR : In q R).
    { apply filter_In. split; [apply in_map_iff; exists (q, true); auto|apply (reqb_member g q true); auto]. }
    assert (Hi : incl R (filter (reqb g) w)) by (apply NoDup_length_incl; auto; lia).
    apply Hi in HqR. apply filter_In in HqR. tauto.
  - intros Hall. assert (Hi : incl R (filter (reqb g) w)).
    { intros x Hx. apply filter_In in Hx. destruct Hx as [_ Hr]. apply filter_In. split; auto.
      apply Hall. apply reqb_true; auto. }
    pose proof (NoDup_incl_length HRnd Hi). pose proof (NoDup_incl_length Hfnd Hincl). lia.
Qed.

Lemma nth_all_false (l : list qname) i : nth i (map (fun _ => false) l) false = false.
Proof. revert i. induction l; intros [|i]; cbn; auto. Qed.

Lemma all_validate_correct g w : NoDup (map fst (ag_members g)) ->
  (all_validate g w = true <-> all_char g w).
Proof.
  intros Hnd. unfold all_validate, all_validate_cm. destruct w as [|x w].
  - change (ac_hasOptional (all_build g)) with (ag_optional g).
    assert (E : (if ag_optional g || (ac_numRequired (all_build g) =? 0) then true else 0 =? ac_numRequired (all_build g))
                = ag_optional g || (ac_numRequired (all_build g) =? 0)).
    { destruct (ag_optional g); cbn [orb]; auto. destruct (ac_numRequired (all_build g)); reflexivity. }
    rewrite E. rewrite orb_true_iff, Nat.eqb_eq. unfold all_char.
    pose proof (count_req_all g [] Hnd (NoDup_nil _) (fun x (H : In x []) => match H with end)) as Hc.
    unfold count_req in Hc. cbn [filter length] in Hc. split.
    + intros [H|H]; [left; auto|right]. repeat split; [constructor|intros ? []|]. apply Hc. auto.
    + intros [[_ H]|(_ & _ & H)]; [left; auto|right]. symmetry. apply Hc. exact H.
  - set (w' := x :: w). change (ac_children (all_build g)) with (map fst (ag_members g)).
    rewrite (all_loop_spec g w' _ [] 0).
    2:{ split; [apply map_length|]. intros y i _. rewrite nth_all_false. cbn. split; [discriminate|tauto]. }
    assert (Et : forallb (fun y => negb (memq y [])) w' = true) by (apply forallb_forall; intros; reflexivity).
    rewrite Et, andb_true_r. unfold all_char.
    destruct (forallb (fun y => memq y (map fst (ag_members g))) w') eqn:Ein; cbn [andb].
    + destruct (nodupb w') eqn:End.
      * apply nodupb_NoDup in End. rewrite forallb_forall in Ein.
        assert (Hin : forall y, In y w' -> In y (map fst (ag_members g))) by (intros y Hy; apply memq_In; auto).
        cbn [plus]. rewrite Nat.eqb_eq. rewrite (count_req_all g w' Hnd End Hin). split.
        -- intros H. right. auto.
        -- intros [[H _]|(_ & _ & H)]; [discriminate H|exact H].
      * split; [discriminate|]. intros [[H _]|(H & _)]; [discriminate H|]. apply nodupb_NoDup in H. congruence.
    + split; [discriminate|]. intros [[H _]|(_ & H & _)]; [discriminate H|].
      assert (forallb (fun y => memq y (map fst (ag_members g))) w' = true).
      { apply forallb_forall. intros y Hy. apply memq_In. auto. }
      congruence.
Qed.

(** * the specification: permutation of a sub-multiset containing the required members *)
Lemma sub_required_props ms s : sub_required ms s ->
  (forall x, In x s -> In x (map fst ms)) /\ (forall q, In (q, true) ms -> In q s) /\
  (NoDup (map fst ms) -> NoDup s).
Proof.
  induction 1 as [|q b ms w H (IH1 & IH2 & IH3)|q ms w H (IH1 & IH2 & IH3)]; cbn [map fst In].
  - repeat split; [tauto|tauto|constructor].
  - repeat split.
    + intros x [->|Hx]; auto.
    + intros q' [E|Hq]; [injection E as -> _; auto|right; auto].
    + intros Hnd. inversion Hnd; subst. constructor; auto.
  - repeat split.
    + intros x Hx; auto.
    + intros q' [E|Hq]; [discriminate E|auto].
    + intros Hnd. inversion Hnd; subst. auto.
Qed.

Lemma sub_required_filter ms (w : list qname) : (forall q, In (q, true) ms -> In q w) ->
  sub_required ms (filter (fun x => memq x w) (map fst ms)).
Proof.
  induction ms as [|[q r] ms IH]; intros Hreq; cbn [map filter fst]; [constructor|].
  assert (IH' : sub_required ms (filter (fun x => memq x w) (map fst ms))) by (apply IH; intros; apply Hreq; right; auto).
  destruct (memq q w) eqn:E.
  - constructor; auto.
  - destruct r.
    + exfalso. assert (In q w) by (apply Hreq; left; auto). apply memq_In in H. congruence.
    + constructor; auto.
Qed.

Lemma L_all_char g w : NoDup (map fst (ag_members g)) -> (L_all g w <-> all_char g w).
Proof.
  intros Hnd. unfold L_all, all_char. split.
  - intros [H|(s & Hs & Hp)]; [left; auto|right].
    destruct (sub_required_props _ _ Hs) as (H1 & H2 & H3). repeat split.
    + eapply Permutation_NoDup; eauto.
    + intros x Hx. apply H1. eapply Permutation_in; [apply Permutation_sym|]; eauto.
    + intros q Hq. eapply Permutation_in; eauto.
  - intros [H|(H1 & H2 & H3)]; [left; auto|right].
    exists (filter (fun x => memq x w) (map fst (ag_members g))). split; [apply sub_required_filter; auto|].
    apply NoDup_Permutation; auto; [apply NoDup_filter; auto|].
    intros x. rewrite filter_In, memq_In. split; [tauto|]. intros Hx. split; auto.
Qed.
