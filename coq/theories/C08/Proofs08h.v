(** C08 lemmas, part h: SubstitutionGroupComparator::isEquivalentTo against 3.3.6 Substitution Group OK (Transitive). *)
From XV Require Import C08.Spec08 C08.Model08.

Lemma m_find_head_In head affil : m_find_head head affil = true <-> In head affil.
Proof.
  induction affil as [|h r IH]; cbn [m_find_head In]; [split; [discriminate|tauto]|].
  destruct (N.eqb_spec h head) as [->|Hne]; [tauto|]. rewrite IH. split; [tauto|]. intros [E|H]; [congruence|auto].
Qed.

Lemma blocked_bor a b m : blocked (bor a b) m = blocked a m || blocked b m.
Proof. destruct m; reflexivity. Qed.

Definition bor_all (l : list blockset) (b0 : blockset) : blockset := fold_left bor l b0.
Lemma blocked_bor_all l b0 m : blocked (bor_all l b0) m = blocked b0 m || existsb (fun b => blocked b m) l.
Proof.
  unfold bor_all. revert b0. induction l as [|b l IH]; intros b0; cbn [fold_left existsb]; [rewrite orb_false_r; reflexivity|].
  rewrite IH, blocked_bor, orb_assoc. reflexivity.
Qed.

(** what the type walk computes *)
Lemma m_sg_walk_spec ht up : forall dev blk dev' blk',
  m_sg_walk ht up dev blk = Some (dev', blk') <->
  exists pre e post, up = pre ++ e :: post /\ tc_id e = ht /\ ~ In ht (map tc_id pre) /\
    dev' = rev (map tc_method pre) ++ dev /\ blk' = bor_all (map tc_block (tl (pre ++ [e]))) blk.
Proof.
  induction up as [|e0 r IH]; intros dev blk dev' blk'; cbn [m_sg_walk].
  - split; [discriminate|]. intros (pre & e & post & E & _). destruct pre; discriminate E.
  - destruct (N.eqb_spec (tc_id e0) ht) as [Heq|Hne].
    + split.
      * intros E. injection E as <- <-. exists [], e0, r. cbn. repeat split; auto.
      * intros (pre & e & post & E & Hid & Hn & -> & ->). destruct pre as [|p pre].
        -- cbn in E. injection E as <- <-. reflexivity.
        -- cbn [app] in E. injection E as <- _. exfalso. apply Hn. cbn [map In]. auto.
    + destruct r as [|e1 r'].
      * split; [discriminate|]. intros (pre & e & post & E & Hid & _).
        destruct pre as [|p [|q pre]]; cbn in E; try discriminate E. injection E as <- _. congruence.
      * rewrite IH. split.
        -- intros (pre & e & post & E & Hid & Hn & -> & ->).
           exists (e0 :: pre), e, post. rewrite E. cbn [app map rev In tl]. repeat split; auto.
           ++ intros [H|H]; [congruence|auto].
           ++ rewrite <- app_assoc. reflexivity.
           ++ destruct pre as [|p pre]; cbn [app] in E |- *.
              ** injection E as <- _. reflexivity.
              ** injection E as <- _. reflexivity.
        -- intros (pre & e & post & E & Hid & Hn & -> & ->). destruct pre as [|p pre].
           ++ cbn in E. injection E as <- _. congruence.
           ++ cbn [app] in E. injection E as <- E. exists pre, e, post. repeat split; auto.
              ** intro H. apply Hn. cbn [map In]. auto.
              ** cbn [map rev]. rewrite <- app_assoc. reflexivity.
              ** cbn [app tl]. destruct pre as [|q pre]; cbn [app] in E |- *; injection E as <- _; reflexivity.
Qed.

Lemma m_subst_correct member head affil hb ht up :
  m_subst member head affil hb ht up = true <-> subst_ok member head affil hb ht up.
Proof.
  unfold m_subst, subst_ok. destruct (N.eqb_spec member head) as [->|Hne]; [tauto|].
  destruct (m_find_head head affil) eqn:Ef.
  2:{ split; [discriminate|]. intros [E|(_ & H & _)]; [congruence|]. apply m_find_head_In in H. congruence. }
  apply m_find_head_In in Ef. destruct (eb_subst hb) eqn:Es.
  { split; [discriminate|]. intros [E|(H & _)]; [congruence|discriminate H]. }
  destruct (m_sg_walk ht up [] (eb_types hb)) as [[dev blk]|] eqn:Ew.
  - apply m_sg_walk_spec in Ew. destruct Ew as (pre & e & post & E & Hid & Hn & -> & ->).
    rewrite app_nil_r. split.
    + intros H. right. repeat split; auto. exists pre, e, post. repeat split; auto.
      * apply negb_true_iff in H. destruct (blocked (eb_types hb) (tc_method x)) eqn:B; auto.
        exfalso. rewrite <- not_true_iff_false in H. apply H. apply existsb_exists. exists (tc_method x). split.
        -- apply in_rev. rewrite rev_involutive. apply in_map. auto.
        -- rewrite blocked_bor_all, B. reflexivity.
      * intros y Hy. apply negb_true_iff in H. destruct (blocked (tc_block y) (tc_method x)) eqn:B; auto.
        exfalso. rewrite <- not_true_iff_false in H. apply H. apply existsb_exists. exists (tc_method x). split.
        -- apply in_rev. rewrite rev_involutive. apply in_map. auto.
        -- rewrite blocked_bor_all. apply orb_true_iff. right. apply existsb_exists. exists (tc_block y). split; auto.
           apply in_map. destruct pre as [|p pre]; [destruct H0|]. cbn [app tl] in *. exact Hy.
    + intros [Hm|(_ & _ & pre' & e' & post' & E' & Hid' & Hn' & Hall)]; [congruence|].
      assert (pre' = pre /\ e' = e).
      { clear Hall. subst up. revert pre' E' Hn'. induction pre as [|p pre IH]; intros pre' E' Hn'.
        - destruct pre' as [|p' pre']; cbn in E'; [injection E' as <- _; auto|].
          injection E' as <- _. exfalso. apply Hn'. cbn [map In]. auto.
        - destruct pre' as [|p' pre']; cbn [app] in E'.
          + injection E' as <- _. exfalso. apply Hn. cbn [map In]. auto.
          + injection E' as <- E'. destruct (IH (fun H => Hn (or_intror H)) pre' E' (fun H => Hn' (or_intror H))) as [-> ->]. auto. }
      destruct H as [-> ->]. apply negb_true_iff. rewrite <- not_true_iff_false. intro Hex.
      apply existsb_exists in Hex. destruct Hex as (m & Hm & Hb). apply in_rev in Hm. try rewrite rev_involutive in Hm.
      apply in_map_iff in Hm. destruct Hm as (x & <- & Hx). destruct (Hall x Hx) as [H1 H2].
      rewrite blocked_bor_all, H1 in Hb. cbn [orb] in Hb. apply existsb_exists in Hb. destruct Hb as (bb & Hbb & Hb).
      apply in_map_iff in Hbb. destruct Hbb as (y & <- & Hy).
      assert (In y (tl pre ++ [e])).
      { destruct pre as [|p pre]; [destruct Hx|]. cbn [app tl] in Hy. exact Hy. }
      rewrite (H2 y H) in Hb. discriminate Hb.
  - split; [discriminate|]. intros [Hm|(_ & _ & pre & e & post & E & Hid & Hn & _)]; [congruence|].
    assert (X : m_sg_walk ht up [] (eb_types hb) =
                Some (rev (map tc_method pre) ++ [], bor_all (map tc_block (tl (pre ++ [e]))) (eb_types hb))).
    { apply m_sg_walk_spec. exists pre, e, post. auto. }
    congruence.
Qed.

Lemma tc_split_spec ht up pre e :
  tc_split ht up = Some (pre, e) <-> exists post, up = pre ++ e :: post /\ tc_id e = ht /\ ~ In ht (map tc_id pre).
Proof.
  revert pre e. induction up as [|e0 r IH]; intros pre e; cbn [tc_split].
  - split; [discriminate|]. intros (post & E & _). destruct pre; discriminate E.
  - destruct (N.eqb_spec (tc_id e0) ht) as [Heq|Hne].
    + split.
      * intros E. injection E as <- <-. exists r. cbn. auto.
      * intros (post & E & Hid & Hn). destruct pre as [|p pre]; cbn [app] in E.
        -- injection E as <- _. reflexivity.
        -- injection E as <- _. exfalso. apply Hn. cbn [map In]. auto.
    + destruct (tc_split ht r) as [[pre' x]|] eqn:Er.
      * destruct (proj1 (IH pre' x) eq_refl) as (post & -> & Hid & Hn). split.
        -- intros E. injection E as <- <-. exists post. cbn [app map In]. repeat split; auto. intros [H|H]; [congruence|auto].
        -- intros (post' & E & Hid' & Hn'). destruct pre as [|p pre]; cbn [app] in E.
           ++ injection E as <- _. congruence.
           ++ injection E as <- E.
              assert (X : Some (pre', x) = Some (pre, e)).
              { apply IH. exists post'. repeat split; auto. intro H. apply Hn'. cbn [map In]. auto. }
              injection X as <- <-. reflexivity.
      * split; [discriminate|]. intros (post & E & Hid & Hn'). destruct pre as [|p pre]; cbn [app] in E.
        -- injection E as <- _. congruence.
        -- injection E as <- E. assert (X : None = Some (pre, e)).
           { apply IH. exists post. repeat split; auto. intro H. apply Hn'. cbn [map In]. auto. }
           discriminate X.
Qed.

Lemma subst_okb_correct member head affil hb ht up :
  subst_okb member head affil hb ht up = true <-> subst_ok member head affil hb ht up.
Proof.
  unfold subst_okb, subst_ok. rewrite orb_true_iff, N.eqb_eq, !andb_true_iff, negb_true_iff.
  assert (Hm : mem_uri head affil = true <-> In head affil).
  { unfold mem_uri. rewrite existsb_exists. split.
    - intros (y & Hy & E). apply N.eqb_eq in E. subst; auto.
    - intros H. exists head. split; auto. apply N.eqb_refl. }
  rewrite Hm. split.
  - intros [E|[[Hs Hi] Hc]]; [left; auto|right]. repeat split; auto.
    destruct (tc_split ht up) as [[pre e]|] eqn:Et; [|discriminate].
    apply tc_split_spec in Et. destruct Et as (post & E & Hid & Hn). exists pre, e, post. repeat split; auto.
    + rewrite forallb_forall in Hc. specialize (Hc x H). apply andb_true_iff in Hc. destruct Hc as [Hc _].
      apply negb_true_iff in Hc. exact Hc.
    + intros y Hy. rewrite forallb_forall in Hc. specialize (Hc x H). apply andb_true_iff in Hc. destruct Hc as [_ Hc].
      rewrite forallb_forall in Hc. specialize (Hc y Hy). apply negb_true_iff in Hc. exact Hc.
  - intros [E|(Hs & Hi & pre & e & post & E & Hid & Hn & Hall)]; [left; auto|right]. repeat split; auto.
    assert (Et : tc_split ht up = Some (pre, e)) by (apply tc_split_spec; exists post; auto).
    rewrite Et. apply forallb_forall. intros x Hx. destruct (Hall x Hx) as [H1 H2]. rewrite H1. cbn [negb andb].
    apply forallb_forall. intros y Hy. rewrite (H2 y Hy). reflexivity.
Qed.
