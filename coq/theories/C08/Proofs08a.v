(** C08 lemmas, part a: the language algebra of occurrence ranges, correctness of the derivative-based
    decider [rmatch]/[pmatch] with respect to [Lr]/[Lp]. *)
From XV Require Import C08.Spec08.

Implicit Types A B C dA : lang.
Implicit Types k i j m : nat.
Implicit Types w u v : list qname.

Definition leq (A B : lang) : Prop := forall w, A w <-> B w.
Infix "==" := leq (at level 70).

Lemma leq_refl A : A == A. Proof. intro; tauto. Qed.
Lemma leq_sym A B : A == B -> B == A. Proof. intros H w; symmetry; apply H. Qed.
Lemma leq_trans A B C : A == B -> B == C -> A == C.
Proof. intros H1 H2 w. rewrite (H1 w). apply H2. Qed.

Lemma l_cat_ext A A' B B' : A == A' -> B == B' -> l_cat A B == l_cat A' B'.
Proof.
  intros HA HB w; split; intros (u & v & E & H1 & H2); exists u, v; repeat split; auto;
    try (apply HA; auto); try (apply HB; auto).
Qed.
Lemma l_alt_ext A A' B B' : A == A' -> B == B' -> l_alt A B == l_alt A' B'.
Proof. intros HA HB w; unfold l_alt; rewrite (HA w), (HB w); tauto. Qed.
Lemma l_pow_ext A A' k : A == A' -> l_pow A k == l_pow A' k.
Proof. intros H; induction k; cbn [l_pow]; [apply leq_refl|apply l_cat_ext; auto]. Qed.
Lemma l_rep_ext A A' m n : A == A' -> l_rep m n A == l_rep m n A'.
Proof.
  intros H w; split; intros (k & H1 & H2 & H3); exists k; repeat split; auto; eapply l_pow_ext; eauto.
  apply leq_sym; auto.
Qed.

Lemma l_cat_eps_l A : l_cat l_eps A == A.
Proof.
  intro w; split.
  - intros (u & v & E & Hu & Hv). unfold l_eps in Hu. subst. exact Hv.
  - intro H. exists [], w. repeat split; auto.
Qed.
Lemma l_cat_eps_r A : l_cat A l_eps == A.
Proof.
  intro w; split.
  - intros (u & v & E & Hu & Hv). unfold l_eps in Hv. subst. rewrite app_nil_r. exact Hu.
  - intro H. exists w, []. rewrite app_nil_r. repeat split; auto.
Qed.
Lemma l_cat_assoc A B C : l_cat (l_cat A B) C == l_cat A (l_cat B C).
Proof.
  intro w; split.
  - intros (uv & x & E & (u & v & E' & Hu & Hv) & Hx). subst. exists u, (v ++ x). rewrite app_assoc.
    repeat split; auto. exists v, x; auto.
  - intros (u & vx & E & Hu & (v & x & E' & Hv & Hx)). subst. exists (u ++ v), x. rewrite app_assoc.
    repeat split; auto. exists u, v; auto.
Qed.
Lemma l_cat_void_l A : l_cat l_void A == l_void.
Proof. intro w; split; [intros (u & v & _ & [] & _)|intros []]. Qed.
Lemma l_cat_alt_l A B C : l_cat (l_alt A B) C == l_alt (l_cat A C) (l_cat B C).
Proof.
  intro w; split.
  - intros (u & v & E & [H|H] & Hv); [left|right]; exists u, v; auto.
  - intros [(u & v & E & H & Hv)|(u & v & E & H & Hv)]; exists u, v; repeat split; auto; [left|right]; auto.
Qed.

Lemma l_pow_add A i j : l_cat (l_pow A i) (l_pow A j) == l_pow A (i + j).
Proof.
  induction i; cbn [l_pow plus].
  - apply l_cat_eps_l.
  - eapply leq_trans; [apply l_cat_assoc|]. apply l_cat_ext; [apply leq_refl|exact IHi].
Qed.
Lemma l_pow_1 A : l_pow A 1 == A.
Proof. cbn [l_pow]. apply l_cat_eps_r. Qed.
Lemma l_pow_snoc A k : l_cat (l_pow A k) A == l_pow A (S k).
Proof.
  eapply leq_trans; [apply l_cat_ext; [apply leq_refl|apply leq_sym, l_pow_1]|].
  eapply leq_trans; [apply l_pow_add|]. replace (k + 1) with (S k) by lia. apply leq_refl.
Qed.

(** padding with empty pieces *)
Lemma l_pow_pad A k w : A [] -> l_pow A k w -> l_pow A (S k) w.
Proof. intros H0 H. cbn [l_pow]. exists [], w. auto. Qed.
Lemma l_pow_pad_n A k j w : A [] -> l_pow A k w -> l_pow A (j + k) w.
Proof. intros H0 H. induction j; cbn [plus]; auto. apply l_pow_pad; auto. Qed.
Lemma l_pow_nil A k : A [] -> l_pow A k [].
Proof. intros H. induction k; cbn [l_pow]; [reflexivity|]. exists [], []. auto. Qed.
Lemma l_pow_nil_inv A k : l_pow A (S k) [] -> A [].
Proof.
  cbn [l_pow]. intros (u & v & E & Hu & _). symmetry in E. apply app_eq_nil in E. destruct E; subst; auto.
Qed.

(** a non-empty word of A^k: the first non-empty piece and what follows *)
Lemma l_pow_cons A k x w : l_pow A k (x :: w) ->
  exists u v, w = u ++ v /\ A (x :: u) /\ exists j, j < k /\ l_pow A j v /\ (S j < k -> A []).
Proof.
  induction k; cbn [l_pow].
  - intros H; discriminate H.
  - intros (u & v & E & Hu & Hv). destruct u as [|y u].
    + cbn in E. subst v. destruct (IHk Hv) as (u' & v' & E' & Hx & j & Hj & Hp & Hn).
      exists u', v'. repeat split; auto. exists j. repeat split; auto.
    + cbn in E. injection E as -> ->. exists u, v. repeat split; auto. exists k. repeat split; auto.
      intro; lia.
Qed.

Lemma l_rep_nil A m n : l_rep m n A [] <-> m = 0 \/ (A [] /\ le_bound m n).
Proof.
  split.
  - intros (k & H1 & H2 & H3). destruct k.
    + left; lia.
    + right. split; [eapply l_pow_nil_inv; eauto|]. destruct n; cbn in *; auto. lia.
  - intros [->|[H0 Hb]].
    + exists 0. repeat split; auto. destruct n; cbn; lia.
    + exists m. repeat split; auto. apply l_pow_nil; auto.
Qed.

(** the derivative of an occurrence range *)
Lemma l_rep_cons A (dA : lang) x m n w :
  (forall u, dA u <-> A (x :: u)) ->
  (l_rep m n A (x :: w) <-> n <> Some 0 /\ l_cat dA (l_rep (pred m) (pred_bound n) A) w).
Proof.
  intros Hd. split.
  - intros (k & H1 & H2 & H3). split.
    + intros ->. cbn in H2. assert (k = 0) by lia. subst k. discriminate H3.
    + destruct (l_pow_cons _ _ _ _ H3) as (u & v & E & Hu & j & Hj & Hp & Hn).
      exists u, v. repeat split; auto. { apply Hd; auto. }
      destruct k; [lia|]. exists k. repeat split; [lia| |].
      * destruct n; cbn in *; auto. lia.
      * destruct (Nat.eq_dec j k) as [->|Hne]; auto.
        assert (H0 : A []) by (apply Hn; lia).
        replace k with ((k - j) + j) by lia. apply l_pow_pad_n; auto.
  - intros (Hn & u & v & E & Hu & (k & H1 & H2 & H3)). subst w.
    exists (S k). repeat split; [lia| |].
    + destruct n as [[|n]|]; cbn in *; auto; [congruence|lia].
    + cbn [l_pow]. exists (x :: u), v. repeat split; auto. apply Hd; auto.
Qed.

(** * nullable / deriv / rmatch *)
Lemma leb_bound_spec k n : leb_bound k n = true <-> le_bound k n.
Proof. destruct n; cbn; [apply Nat.leb_le|tauto]. Qed.

Lemma nullable_correct r : nullable r = true <-> Lr r [].
Proof.
  induction r; cbn [nullable Lr].
  - split; [discriminate|intros []].
  - split; reflexivity.
  - split; [discriminate|]. intros (q & E & _). discriminate E.
  - rewrite andb_true_iff, IHr1, IHr2. split.
    + intros [H1 H2]. exists [], []. auto.
    + intros (u & v & E & Hu & Hv). symmetry in E. apply app_eq_nil in E. destruct E; subst; auto.
  - rewrite orb_true_iff, IHr1, IHr2. reflexivity.
  - rewrite l_rep_nil, orb_true_iff, andb_true_iff, Nat.eqb_eq, IHr, leb_bound_spec. reflexivity.
Qed.

Lemma deriv_correct r x w : Lr (deriv x r) w <-> Lr r (x :: w).
Proof.
  revert w. induction r; intros w; cbn [deriv Lr].
  - split; intros [].
  - split; [intros []|intro H; discriminate H].
  - destruct (sym_match s x) eqn:E; cbn [Lr].
    + split.
      * intros ->. exists x. auto.
      * intros (q & E' & _). injection E' as -> ->. reflexivity.
    + split; [intros []|]. intros (q & E' & Hq). injection E' as -> ->. congruence.
  - assert (Hcat : l_cat (Lr (deriv x r1)) (Lr r2) w <-> exists u v, x :: w = (x :: u) ++ v /\ Lr r1 (x :: u) /\ Lr r2 v).
    { split.
      - intros (u & v & E & Hu & Hv). exists u, v. subst. repeat split; auto. apply IHr1; auto.
      - intros (u & v & E & Hu & Hv). cbn in E. injection E as ->. exists u, v. repeat split; auto. apply IHr1; auto. }
    destruct (nullable r1) eqn:En; cbn [Lr].
    + split.
      * intros [H|H].
        -- apply Hcat in H. destruct H as (u & v & E & Hu & Hv). exists (x :: u), v. auto.
        -- exists [], (x :: w). repeat split; auto. { apply nullable_correct; auto. } apply IHr2; auto.
      * intros (u & v & E & Hu & Hv). destruct u as [|y u].
        -- right. cbn in E. subst v. apply IHr2; auto.
        -- left. apply Hcat. cbn in E. injection E as <- ->. exists u, v. auto.
    + split.
      * intros H. apply Hcat in H. destruct H as (u & v & E & Hu & Hv). exists (x :: u), v. auto.
      * intros (u & v & E & Hu & Hv). destruct u as [|y u].
        -- apply nullable_correct in Hu. congruence.
        -- apply Hcat. cbn in E. injection E as <- ->. exists u, v. auto.
  - unfold l_alt. rewrite IHr1, IHr2. reflexivity.
  - rewrite (l_rep_cons (Lr r) (Lr (deriv x r)) x m n w IHr).
    destruct n as [[|n]|]; cbn [Lr].
    + split; [intros []|intros [H _]; congruence].
    + split; [intros H; split; [congruence|exact H]|intros [_ H]; exact H].
    + split; [intros H; split; [congruence|exact H]|intros [_ H]; exact H].
Qed.

Lemma rmatch_correct r w : rmatch r w = true <-> Lr r w.
Proof.
  revert r. induction w as [|x w IH]; intros r; cbn [rmatch].
  - apply nullable_correct.
  - rewrite IH. apply deriv_correct.
Qed.

(** * particles *)
Section PInd.
  Variable P : particle -> Prop.
  Hypothesis HE : forall m n q, P (Elem m n q).
  Hypothesis HW : forall m n c, P (Wild m n c).
  Hypothesis HS : forall m n ps, Forall P ps -> P (Seq m n ps).
  Hypothesis HC : forall m n ps, Forall P ps -> P (Choice m n ps).
  Fixpoint particle_ind' (p : particle) : P p :=
    match p with
    | Elem m n q => HE m n q
    | Wild m n c => HW m n c
    | Seq m n ps => HS m n ps ((fix go (ps : list particle) : Forall P ps :=
                                  match ps with [] => Forall_nil P | x :: r => Forall_cons x (particle_ind' x) (go r) end) ps)
    | Choice m n ps => HC m n ps ((fix go (ps : list particle) : Forall P ps :=
                                  match ps with [] => Forall_nil P | x :: r => Forall_cons x (particle_ind' x) (go r) end) ps)
    end.
End PInd.

Lemma Lp_Seq m n ps : Lp (Seq m n ps) == l_rep m n (l_seq (map Lp ps)).
Proof.
  cbn [Lp]. apply l_rep_ext. induction ps; cbn [map l_seq]; [apply leq_refl|].
  apply l_cat_ext; [apply leq_refl|exact IHps].
Qed.
Lemma Lp_Choice m n ps : Lp (Choice m n ps) == l_rep m n (l_choice (map Lp ps)).
Proof.
  cbn [Lp]. apply l_rep_ext. induction ps; cbn [map l_choice]; [apply leq_refl|].
  apply l_alt_ext; [apply leq_refl|exact IHps].
Qed.

Lemma p2re_correct p : Lr (p2re p) == Lp p.
Proof.
  induction p using particle_ind'.
  - cbn [p2re Lr Lp]. apply l_rep_ext. cbn [Lr sym_match]. apply leq_refl.
  - cbn [p2re Lr Lp]. apply l_rep_ext. cbn [Lr sym_match]. apply leq_refl.
  - eapply leq_trans; [|apply leq_sym, Lp_Seq]. cbn [p2re Lr]. apply l_rep_ext.
    induction H; cbn [map l_seq Lr]; [apply leq_refl|]. apply l_cat_ext; auto.
  - eapply leq_trans; [|apply leq_sym, Lp_Choice]. cbn [p2re Lr]. apply l_rep_ext.
    induction H; cbn [map l_choice Lr]; [apply leq_refl|]. apply l_alt_ext; auto.
Qed.

Lemma pmatch_correct p w : pmatch p w = true <-> Lp p w.
Proof. unfold pmatch. rewrite rmatch_correct. apply p2re_correct. Qed.
