(** C18 -- model of the DOM arena: DOMDocumentImpl::allocate / setMemoryAllocationBlockSize / deleteHeap
    (src/xercesc/dom/impl/DOMDocumentImpl.cpp).  size_t arithmetic is modelled modulo 2^64 where the code can
    wrap.  [fx = true] is the repaired allocate (fresh block made large enough for the request).  No proofs. *)
From Coq Require Import NArith List Bool.
From XV Require Import C18.Spec18 C18.Model18X.
Import ListNotations.
Local Open Scope N_scope.

Definition W : N := 18446744073709551616.      (* 2^64 *)
Definition wsub (a b : N) : N := (a + W - b mod W) mod W.

Record acfg : Type := {
  a_init : N;      (* kInitialHeapAllocSize *)
  a_max : N;       (* kMaxHeapAllocSize *)
  a_sub : N;       (* kMaxSubAllocationSize *)
  a_hdr : N;       (* alignPointerForNewBlockAllocation(sizeof(void* )) *)
  a_al : N         (* the alignment *)
}.

Inductive aop : Type :=
| AAlloc (amount base : N)     (* allocate(amount); [base] = the manager's answer should a block be requested *)
| ASetBlock (size : N).        (* setMemoryAllocationBlockSize(size) *)

Record astate : Type := {
  s_curs : list (N * N);       (* chain of sub-allocated blocks (base, size), head = fCurrentBlock *)
  s_singles : list (N * N);    (* chain of singleton blocks, head = fCurrentSingletonBlock *)
  s_fp : N;                    (* fFreePtr *)
  s_fr : N;                    (* fFreeBytesRemaining *)
  s_heap : N;                  (* fHeapAllocSize *)
  s_reqs : list (N * N);       (* blocks requested from the manager, in order (base, size) *)
  s_regions : list (N * N)     (* regions handed out (ptr, aligned amount), most recent first *)
}.

Definition ainit (c : acfg) : astate :=
  {| s_curs := []; s_singles := []; s_fp := 0; s_fr := 0; s_heap := a_init c; s_reqs := []; s_regions := [] |}.

(** the singleton chain: a new block is linked in *behind* the current head *)
Definition link_single (b : N * N) (l : list (N * N)) : list (N * N) :=
  match l with [] => [b] | h :: t => h :: b :: t end.

Definition astep (fx : bool) (c : acfg) (st : astate) (op : aop) : astate :=
  match op with
  | ASetBlock size =>
      if a_sub c <? size then
        {| s_curs := s_curs st; s_singles := s_singles st; s_fp := s_fp st; s_fr := s_fr st; s_heap := size;
           s_reqs := s_reqs st; s_regions := s_regions st |}
      else st
  | AAlloc amount0 base =>
      let amount := align_up (a_al c) amount0 in
      if a_sub c <? amount then
        let blk := (base, (a_hdr c + amount) mod W) in
        {| s_curs := s_curs st; s_singles := link_single blk (s_singles st); s_fp := s_fp st; s_fr := s_fr st;
           s_heap := s_heap st; s_reqs := s_reqs st ++ [blk]; s_regions := (base + a_hdr c, amount) :: s_regions st |}
      else if s_fr st <? amount then
        let bsz := if fx && (s_heap st <? a_hdr c + amount) then a_hdr c + amount else s_heap st in
        let blk := (base, bsz) in
        let fp := base + a_hdr c in
        let fr := wsub bsz (a_hdr c) in
        let heap' := if s_heap st <? a_max c then (s_heap st * 2) mod W else s_heap st in
        {| s_curs := blk :: s_curs st; s_singles := s_singles st; s_fp := fp + amount; s_fr := wsub fr amount;
           s_heap := heap'; s_reqs := s_reqs st ++ [blk]; s_regions := (fp, amount) :: s_regions st |}
      else
        {| s_curs := s_curs st; s_singles := s_singles st; s_fp := s_fp st + amount; s_fr := s_fr st - amount;
           s_heap := s_heap st; s_reqs := s_reqs st; s_regions := (s_fp st, amount) :: s_regions st |}
  end.

Definition arun (fx : bool) (c : acfg) (st : astate) (ops : list aop) : astate := fold_left (astep fx c) ops st.

(** deleteHeap: the blocks handed to deallocate, in order *)
Definition delete_heap (st : astate) : list (N * N) := s_curs st ++ s_singles st.

(** the manager-side trace of a document's arena: all requests, then deleteHeap *)
Definition arena_trace (m : N) (st : astate) : list event :=
  map (fun b => Alloc m (fst b) (snd b)) (s_reqs st) ++ map (fun b => Free m (fst b)) (delete_heap st).

Definition inside (r b : N * N) (hdr : N) : bool :=
  (fst b + hdr <=? fst r) && (fst r + snd r <=? fst b + snd b).

(** ---- correspondence helper: run with synthetic, well separated block addresses and report for every
    allocate (new block size or 0, block index, offset, fits?) ------------------------------------------- *)
Definition synth_base (i : nat) : N := (N.of_nat i + 1) * 1099511627776.     (* 2^40 apart *)

Fixpoint index_of (b : N) (l : list (N * N)) (i : nat) : option (nat * (N * N)) :=
  match l with
  | [] => None
  | x :: r => if (fst x <=? b) && (b <? fst x + 1099511627776) then Some (i, x) else index_of b r (S i)
  end.

Inductive areport : Type :=
| RSet
| RAlloc (newblk : option N) (idx : nat) (off : N) (fits : bool).

Definition areport_step (fx : bool) (c : acfg) (st : astate) (op : N + N) : astate * areport :=
  match op with
  | inr size => (astep fx c st (ASetBlock size), RSet)
  | inl amount =>
      let base := synth_base (length (s_reqs st)) in
      let st' := astep fx c st (AAlloc amount base) in
      let nb := if Nat.ltb (length (s_reqs st)) (length (s_reqs st')) then option_map snd (nth_error (s_reqs st') (length (s_reqs st))) else None in
      match s_regions st' with
      | r :: _ =>
          match index_of (fst r) (s_reqs st') 0 with
          | Some (i, b) => (st', RAlloc nb i (fst r - fst b) (inside r b 0))
          | None => (st', RAlloc nb 0 0 false)
          end
      | [] => (st', RAlloc nb 0 0 false)
      end
  end.

Fixpoint areports (fx : bool) (c : acfg) (st : astate) (ops : list (N + N)) : list areport :=
  match ops with
  | [] => []
  | op :: r => let '(st', rep) := areport_step fx c st op in rep :: areports fx c st' r
  end.
