(** C18 -- the executable ledger monitor (no proofs here).
    [ledger_check] is extracted to OCaml and judges every trace recorded from the real library. *)
From Coq Require Import NArith List FMapPositive.
From XV Require Import C18.Spec18.
Import ListNotations.
Local Open Scope N_scope.

(** live blocks: address -> (manager, size) *)
Definition lstate : Type := PositiveMap.t (N * N).
Definition key (p : N) : positive := N.succ_pos p.
Definition view (s : lstate) (p : N) : option (N * N) := PositiveMap.find (key p) s.
Definition lempty : lstate := PositiveMap.empty (N * N).

Definition step (s : lstate) (e : event) : option lstate :=
  match e with
  | Alloc m p n =>
      match view s p with
      | Some _ => None
      | None => Some (PositiveMap.add (key p) (m, n) s)
      end
  | Free m p =>
      match view s p with
      | Some (m', _) => if N.eqb m' m then Some (PositiveMap.remove (key p) s) else None
      | None => None
      end
  end.

Inductive verdict : Type :=
| V_Ok
| V_ForeignFree (i : N)      (* event i frees an address no manager ever handed out *)
| V_DoubleFree (i : N)       (* event i frees an address that is not live but was seen before *)
| V_WrongManager (i : N)     (* event i frees a live block through another manager *)
| V_DupAlloc (i : N)         (* event i: a manager returned an address that is still live *)
| V_Outstanding (l : list (N * N * N)).   (* (address, manager, size) still live at the end *)

Definition blocks_of (s : lstate) : list (N * N * N) :=
  map (fun kv => (Pos.pred_N (fst kv), fst (snd kv), snd (snd kv))) (PositiveMap.elements s).

Definition classify (s : lstate) (seen : list event) (i : N) (e : event) : verdict :=
  match e with
  | Alloc _ _ _ => V_DupAlloc i
  | Free _ p =>
      match view s p with
      | Some _ => V_WrongManager i
      | None => if existsb (fun e' => N.eqb (addr e') p) seen then V_DoubleFree i else V_ForeignFree i
      end
  end.

(** [seen] = events already processed (most recent first), [i] = index of the next event *)
Fixpoint run (s : lstate) (seen : list event) (i : N) (tr : list event) : verdict :=
  match tr with
  | [] => if PositiveMap.is_empty s then V_Ok else V_Outstanding (blocks_of s)
  | e :: r =>
      match step s e with
      | Some s1 => run s1 (e :: seen) (N.succ i) r
      | None => classify s seen i e
      end
  end.

Definition ledger_check (tr : list event) : verdict := run lempty [] 0 tr.

(** projection of a trace to a set of managers (the driver judges the managers of one test case) *)
Definition restrict (ms : list N) (tr : list event) : list event :=
  filter (fun e => existsb (N.eqb (mgr e)) ms) tr.

(** total bytes requested / number of allocations, used to compare the arena model with the code *)
Definition alloc_sizes (tr : list event) : list N :=
  flat_map (fun e => match e with Alloc _ _ n => [n] | Free _ _ => [] end) tr.

Definition trace_len (tr : list event) : nat := length tr.
