(** C18 -- adopting containers: BaseRefVectorOf<T> / RefVectorOf<T> (src/xercesc/util/BaseRefVectorOf.c, RefVectorOf.c) with the
    fAdoptedElems flag.  Elements are identified by numbers (the client allocates them, one number = one object);
    the model follows the member functions statement by statement and records every `delete fElemList[i]`.  No proofs here. *)
From Coq Require Import NArith List Bool.
Import ListNotations.
Local Open Scope N_scope.

Inductive vop : Type :=
| VAdd (e : N)                   (* addElement(e) *)
| VSet (e : N) (i : nat)         (* setElementAt(e, i) *)
| VInsert (e : N) (i : nat)      (* insertElementAt(e, i) *)
| VOrphan (i : nat)              (* orphanElementAt(i) : the caller owns the result *)
| VRemoveAt (i : nat)            (* removeElementAt(i) *)
| VRemoveLast                    (* removeLastElement() *)
| VRemoveAll.                    (* removeAllElements() *)

Record vst : Type := {
  v_el : list N;        (* fElemList[0 .. fCurCount) *)
  v_del : list N;       (* elements the container deleted, in order *)
  v_out : list N;       (* elements that are the client's again: orphaned, rejected by a bad index (exception), or dropped by
                           a container that does not adopt *)
  v_cap : N;            (* fMaxCount *)
  v_blk : list N        (* element-array requests made to the manager, in units of sizeof(TElem* ) *)
}.

Definition vinit (maxElems : N) : vst :=
  {| v_el := []; v_del := []; v_out := []; v_cap := maxElems; v_blk := [maxElems] |}.

(** an element leaves the container through remove/set/removeAll/destructor: `if (fAdoptedElems) delete ...` *)
Definition drop (adopt : bool) (es : list N) (st : vst) (el : list N) : vst :=
  {| v_el := el; v_del := if adopt then v_del st ++ es else v_del st;
     v_out := if adopt then v_out st else v_out st ++ es; v_cap := v_cap st; v_blk := v_blk st |}.

(** ensureExtraCapacity(1) *)
Definition ensure1 (st : vst) : vst :=
  let newMax := N.of_nat (length (v_el st)) + 1 in
  if newMax <=? v_cap st then st
  else let grown := v_cap st + v_cap st / 2 in
       let nm := if newMax <? grown then grown else newMax in
       {| v_el := v_el st; v_del := v_del st; v_out := v_out st; v_cap := nm; v_blk := v_blk st ++ [nm] |}.

Definition with_el (st : vst) (el : list N) : vst :=
  {| v_el := el; v_del := v_del st; v_out := v_out st; v_cap := v_cap st; v_blk := v_blk st |}.
Definition reject (st : vst) (e : N) : vst :=       (* ArrayIndexOutOfBoundsException: nothing changed, the caller keeps e *)
  {| v_el := v_el st; v_del := v_del st; v_out := v_out st ++ [e]; v_cap := v_cap st; v_blk := v_blk st |}.

Definition vstep (adopt : bool) (st : vst) (op : vop) : vst :=
  let n := length (v_el st) in
  match op with
  | VAdd e => let st1 := ensure1 st in with_el st1 (v_el st1 ++ [e])
  | VSet e i =>
      match nth_error (v_el st) i with
      | Some old => drop adopt [old] st (firstn i (v_el st) ++ e :: skipn (S i) (v_el st))
      | None => reject st e
      end
  | VInsert e i =>
      if Nat.eqb i n then let st1 := ensure1 st in with_el st1 (v_el st1 ++ [e])
      else if Nat.ltb n i then reject st e
      else let st1 := ensure1 st in with_el st1 (firstn i (v_el st1) ++ e :: skipn i (v_el st1))
  | VOrphan i =>
      match nth_error (v_el st) i with
      | Some x => {| v_el := firstn i (v_el st) ++ skipn (S i) (v_el st); v_del := v_del st; v_out := v_out st ++ [x];
                     v_cap := v_cap st; v_blk := v_blk st |}
      | None => st
      end
  | VRemoveAt i =>
      match nth_error (v_el st) i with
      | Some x => drop adopt [x] st (firstn i (v_el st) ++ skipn (S i) (v_el st))
      | None => st
      end
  | VRemoveLast =>
      match n with
      | O => st
      | S k => match nth_error (v_el st) k with
               | Some x => drop adopt [x] st (firstn k (v_el st))
               | None => st
               end
      end
  | VRemoveAll => drop adopt (v_el st) st []
  end.

Definition vrun (adopt : bool) (st : vst) (ops : list vop) : vst := fold_left (vstep adopt) ops st.

(** ~RefVectorOf: `if (fAdoptedElems) for (...) delete fElemList[index];` *)
Definition vdestroy (adopt : bool) (st : vst) : vst := drop adopt (v_el st) st [].

(** elements the client handed to the container *)
Definition vadded (ops : list vop) : list N :=
  flat_map (fun op => match op with VAdd e => [e] | VSet e _ => [e] | VInsert e _ => [e] | _ => [] end) ops.
