(** C18 -- model of XMemory::operator new(size, manager) / operator delete (src/xercesc/util/XMemory.cpp)
    and of XMLPlatformUtils::alignPointerForNewBlockAllocation.  No proofs here. *)
From Coq Require Import NArith List FMapPositive.
From XV Require Import C18.Spec18 C18.Model18.
Import ListNotations.
Local Open Scope N_scope.

(** alignPointerForNewBlockAllocation(ptrSize) with alignment [a] *)
Definition align_up (a x : N) : N :=
  let c := x mod a in if c =? 0 then x else x + a - c.

Record xcfg : Type := { ptr_size : N; alignment : N }.
Definition header (c : xcfg) : N := align_up (alignment c) (ptr_size c).
(** the build the harness runs: sizeof(MemoryManager* ) = sizeof(void* ) = sizeof(double) = 8 *)
Definition xcfg64 : xcfg := {| ptr_size := 8; alignment := 8 |}.

Inductive xop : Type :=
| XNew (m size base : N)       (* new (m) T : [base] is what manager m's allocate(header+size) returned *)
| XNewGlobal (size base : N)   (* new T     : uses the current global manager *)
| XSetGlobal (m : N)           (* the global manager changes (Terminate / Initialize with another manager) *)
| XDelete (p : N)              (* delete p  : p is a payload pointer *)
| XDeleteWith (p m : N).       (* operator delete(p, m) (placement form): the argument manager is ignored *)

Record xobj : Type := { o_p : N; o_base : N; o_mgr : N; o_tot : N }.

Record xstate : Type := {
  x_glob : N;                          (* XMLPlatformUtils::fgMemoryManager *)
  x_hdr : PositiveMap.t N;             (* memory: the manager word stored at a block base *)
  x_objs : list xobj;                  (* live objects *)
  x_trace : list event                 (* calls that reached the managers, in order *)
}.

Definition overlaps (a la b lb : N) : bool := (a <? b + lb) && (b <? a + la).

Definition xnew (c : xcfg) (st : xstate) (m size base : N) : option xstate :=
  let tot := header c + size in
  (* the manager returns a block that does not overlap a live one *)
  if existsb (fun o => overlaps base tot (o_base o) (o_tot o)) (x_objs st) then None
  else Some {| x_glob := x_glob st;
               x_hdr := PositiveMap.add (key base) m (x_hdr st);         (* *(MemoryManager** )block = manager *)
               x_objs := {| o_p := base + header c; o_base := base; o_mgr := m; o_tot := tot |} :: x_objs st;
               x_trace := x_trace st ++ [Alloc m base tot] |}.

Definition xdelete (c : xcfg) (st : xstate) (p : N) : option xstate :=
  (* the client deletes a live object *)
  if existsb (fun o => o_p o =? p) (x_objs st) then
    let block := p - header c in
    let m := match PositiveMap.find (key block) (x_hdr st) with Some m => m | None => 0 end in
    Some {| x_glob := x_glob st; x_hdr := x_hdr st;
            x_objs := filter (fun o => negb (o_p o =? p)) (x_objs st);
            x_trace := x_trace st ++ [Free m block] |}
  else None.

Definition xstep (c : xcfg) (st : xstate) (op : xop) : option xstate :=
  match op with
  | XNew m size base => xnew c st m size base
  | XNewGlobal size base => xnew c st (x_glob st) size base
  | XSetGlobal m => Some {| x_glob := m; x_hdr := x_hdr st; x_objs := x_objs st; x_trace := x_trace st |}
  | XDelete p => xdelete c st p
  | XDeleteWith p _ => xdelete c st p
  end.

Fixpoint xrun (c : xcfg) (st : xstate) (ops : list xop) : option xstate :=
  match ops with
  | [] => Some st
  | op :: r => match xstep c st op with Some st1 => xrun c st1 r | None => None end
  end.

Definition xinit (g : N) : xstate :=
  {| x_glob := g; x_hdr := PositiveMap.empty N; x_objs := []; x_trace := [] |}.
