(** C18 -- Initialize/Terminate state machine: invariants for every call sequence. *)
From Coq Require Import NArith List Bool Lia.
From XV Require Import C18.Model18I.
Import ListNotations.
Local Open Scope N_scope.

Definition is_new (e : ievent) : bool := match e with ENewOwnMgr => true | _ => false end.
Definition is_del_own (e : ievent) : bool := match e with EDeleteMgr GmOwn => true | _ => false end.
Definition news (l : list ievent) : nat := length (filter is_new l).
Definition dels (l : list ievent) : nat := length (filter is_del_own l).

Record Inv (cap : N) (st : istate) : Prop := {
  inv_live : i_live st = (0 <? i_cnt st);
  inv_cap : i_cnt st <= cap;
  inv_zero : i_cnt st = 0 -> i_mgr st = GmNone /\ i_adopted st = true;
  inv_pos : 0 < i_cnt st -> i_mgr st <> GmNone /\ (i_adopted st = false <-> exists m, i_mgr st = GmUser m);
  inv_nouser : forall who, In (EDeleteMgr who) (i_log st) -> who = GmOwn;
  inv_bal : news (i_log st) = (dels (i_log st) + (match i_mgr st with GmOwn => 1 | _ => 0 end))%nat
}.

Lemma news_app : forall a b, news (a ++ b) = (news a + news b)%nat.
Proof. intros. unfold news. rewrite filter_app, app_length. reflexivity. Qed.
Lemma dels_app : forall a b, dels (a ++ b) = (dels a + dels b)%nat.
Proof. intros. unfold dels. rewrite filter_app, app_length. reflexivity. Qed.

Lemma inv_pristine : forall cap d, Inv cap (pristine d).
Proof.
  intros. constructor; cbn; try reflexivity; try lia; auto; try (intros who []).
Qed.

Lemma inv_step : forall rd cap st op, 0 < cap -> Inv cap st -> Inv cap (istep rd cap st op).
Proof.
  intros rd cap st op Hc [L C Z P U B]. destruct op as [user dom|]; cbn [istep].
  - destruct (N.eqb_spec (i_cnt st) cap) as [E|E]; [constructor; assumption|].
    destruct (N.ltb_spec 1 (i_cnt st + 1)) as [G|G].
    + assert (0 < i_cnt st) by lia. constructor; cbn.
      * rewrite L. destruct (N.ltb_spec 0 (i_cnt st)), (N.ltb_spec 0 (i_cnt st + 1)); try reflexivity; lia.
      * lia.
      * lia.
      * intros _. apply P. assumption.
      * exact U.
      * exact B.
    + assert (Z0 : i_cnt st = 0) by lia. destruct (Z Z0) as [M A]. rewrite M. cbn [is_none].
      destruct user as [m|]; cbn.
      * constructor; cbn.
        -- rewrite Z0. reflexivity.
        -- lia.
        -- lia.
        -- intros _. split; [discriminate|]. split; [intros _; exists m; reflexivity|reflexivity].
        -- intros who H. apply in_app_or in H. destruct H as [H|[H|[]]]; [apply U; exact H|discriminate].
        -- rewrite M in B. unfold news, dels in *. rewrite !filter_app, !app_length. cbn. lia.
      * constructor; cbn.
        -- rewrite Z0. reflexivity.
        -- lia.
        -- lia.
        -- intros _. split; [discriminate|]. rewrite A. split; [discriminate|intros [m H]; discriminate].
        -- intros who H. apply in_app_or in H. destruct H as [H|[H|[]]]; [|discriminate].
           apply in_app_or in H. destruct H as [H|[H|[]]]; [apply U; exact H|discriminate].
        -- rewrite M in B. unfold news, dels in *. rewrite !filter_app, !app_length. cbn. lia.
  - destruct (N.eqb_spec (i_cnt st) 0) as [E|E]; [constructor; assumption|].
    destruct (N.ltb_spec 0 (i_cnt st - 1)) as [G|G].
    + constructor; cbn.
      * rewrite L. destruct (N.ltb_spec 0 (i_cnt st)), (N.ltb_spec 0 (i_cnt st - 1)); try reflexivity; lia.
      * lia.
      * lia.
      * intros _. apply P. lia.
      * exact U.
      * exact B.
    + assert (Pos : 0 < i_cnt st) by lia. destruct (P Pos) as [NN AD].
      constructor; cbn.
      * reflexivity.
      * lia.
      * auto.
      * lia.
      * intros who H. apply in_app_or in H. destruct H as [H|H]; [apply U; exact H|].
        destruct H as [H|H]; [discriminate|].
        destruct (i_adopted st) eqn:A; [|destruct H].
        destruct H as [H|[]]. inversion H; subst.
        destruct (i_mgr st) as [| |m] eqn:M; [contradiction|reflexivity|].
        exfalso. assert (X : true = false) by (apply AD; exists m; reflexivity). discriminate.
      * unfold news, dels in *. rewrite !filter_app, !app_length.
        destruct (i_adopted st) eqn:A.
        -- destruct (i_mgr st) as [| |m] eqn:M; cbn in *; try lia.
        -- destruct (proj1 AD eq_refl) as [m M]. rewrite M in *. cbn in *. lia.
Qed.

Lemma inv_run : forall rd cap ops st, 0 < cap -> Inv cap st -> Inv cap (irun rd cap st ops).
Proof.
  intros rd cap ops. induction ops as [|op r IH]; intros st Hc I; cbn [irun fold_left]; [exact I|].
  apply IH; [exact Hc|]. apply inv_step; assumption.
Qed.

Lemma cnt_step : forall rd cap st op, i_cnt (istep rd cap st op) = count_after cap (i_cnt st) op.
Proof.
  intros rd cap st op. destruct op as [user dom|]; cbn [istep count_after].
  - destruct (N.eqb_spec (i_cnt st) cap); [reflexivity|].
    destruct (N.ltb_spec 1 (i_cnt st + 1)); [reflexivity|].
    destruct (is_none (i_mgr st)); [destruct user|]; reflexivity.
  - destruct (N.eqb_spec (i_cnt st) 0) as [E|E]; [rewrite E; reflexivity|].
    destruct (N.ltb_spec 0 (i_cnt st - 1)); cbn; lia.
Qed.

Lemma cnt_run : forall rd cap ops st, i_cnt (irun rd cap st ops) = fold_left (count_after cap) ops (i_cnt st).
Proof.
  intros rd cap ops. induction ops as [|op r IH]; intros st; cbn [irun fold_left]; [reflexivity|].
  unfold irun in IH. rewrite IH, cnt_step. reflexivity.
Qed.

(** the DOM heap parameters only change through an Initialize that carries them *)
Definition no_dom_args (op : iop) : Prop := match op with Init _ (Some _) => False | _ => True end.

Lemma dom_step : forall cap st op, no_dom_args op -> i_dom (istep None cap st op) = i_dom st.
Proof.
  intros cap st op H. destruct op as [user [d|]|]; cbn [no_dom_args] in H; [contradiction| |]; cbn [istep].
  - destruct (i_cnt st =? cap); [reflexivity|]. destruct (1 <? i_cnt st + 1); [reflexivity|].
    destruct (is_none (i_mgr st)); [destruct user|]; reflexivity.
  - destruct (i_cnt st =? 0); [reflexivity|]. destruct (0 <? i_cnt st - 1); reflexivity.
Qed.

Lemma dom_run : forall cap ops st, Forall no_dom_args ops -> i_dom (irun None cap st ops) = i_dom st.
Proof.
  intros cap ops. induction ops as [|op r IH]; intros st F; cbn [irun fold_left]; [reflexivity|].
  inversion F; subst. unfold irun in IH. rewrite IH by assumption. apply dom_step. assumption.
Qed.

Lemma initterm_main : forall rd cap d ops, 0 < cap ->
  let st := irun rd cap (pristine d) ops in
  (i_live st = true <-> 0 < i_cnt st) /\
  i_cnt st = fold_left (count_after cap) ops 0 /\
  (i_cnt st = 0 -> i_mgr st = GmNone /\ i_adopted st = true /\ i_live st = false) /\
  (forall who, In (EDeleteMgr who) (i_log st) -> who = GmOwn) /\
  news (i_log st) = (dels (i_log st) + (match i_mgr st with GmOwn => 1 | _ => 0 end))%nat.
Proof.
  intros rd cap d ops Hc st. destruct (inv_run rd cap ops (pristine d) Hc (inv_pristine cap d)) as [L C Z P U B].
  fold st in L, C, Z, P, U, B. repeat split.
  - rewrite L. intros H. apply N.ltb_lt. exact H.
  - rewrite L. intros H. apply N.ltb_lt. exact H.
  - unfold st. rewrite cnt_run. reflexivity.
  - apply Z; assumption.
  - apply Z; assumption.
  - rewrite L, H. reflexivity.
  - exact U.
  - exact B.
Qed.

Lemma extra_term_noop : forall rd cap st, i_cnt st = 0 -> istep rd cap st Term = st.
Proof. intros rd cap st H. cbn [istep]. rewrite H. reflexivity. Qed.

Lemma pristine_again : forall cap d ops, 0 < cap -> Forall no_dom_args ops ->
  let st := irun None cap (pristine d) ops in
  i_cnt st = 0 -> st = {| i_cnt := 0; i_mgr := GmNone; i_adopted := true; i_live := false; i_dom := d; i_log := i_log st |}.
Proof.
  intros cap d ops Hc F st Z0.
  destruct (initterm_main None cap d ops Hc) as [_ [_ [Z _]]]. fold st in Z. destruct (Z Z0) as [M [A L]].
  assert (D : i_dom st = d) by (unfold st; rewrite dom_run by assumption; reflexivity).
  destruct st; cbn in *. subst. reflexivity.
Qed.

(** with Terminate restoring the defaults [d] the DOM heap parameters are [d] whenever the count is 0, for every sequence *)
Lemma dom_zero_step : forall cap d st op, 0 < cap -> (i_cnt st = 0 -> i_dom st = d) ->
  i_cnt (istep (Some d) cap st op) = 0 -> i_dom (istep (Some d) cap st op) = d.
Proof.
  intros cap d st op Hc H. destruct op as [user dom|]; cbn [istep].
  - destruct (N.eqb_spec (i_cnt st) cap) as [E|E]; [exact H|].
    destruct (N.ltb_spec 1 (i_cnt st + 1)); [cbn; lia|].
    destruct (is_none (i_mgr st)); [destruct user|]; cbn; lia.
  - destruct (N.eqb_spec (i_cnt st) 0) as [E|E]; [exact H|].
    destruct (N.ltb_spec 0 (i_cnt st - 1)); cbn; [lia|reflexivity].
Qed.

Lemma dom_zero_run : forall cap d ops st, 0 < cap -> (i_cnt st = 0 -> i_dom st = d) ->
  i_cnt (irun (Some d) cap st ops) = 0 -> i_dom (irun (Some d) cap st ops) = d.
Proof.
  intros cap d ops. induction ops as [|op r IH]; intros st Hc H; cbn [irun fold_left]; [exact H|].
  apply IH; [exact Hc|]. apply dom_zero_step; assumption.
Qed.

Lemma pristine_again_fixed : forall cap d ops, 0 < cap ->
  let st := irun (Some d) cap (pristine d) ops in
  i_cnt st = 0 -> st = {| i_cnt := 0; i_mgr := GmNone; i_adopted := true; i_live := false; i_dom := d; i_log := i_log st |}.
Proof.
  intros cap d ops Hc st Z0.
  destruct (initterm_main (Some d) cap d ops Hc) as [_ [_ [Z _]]]. fold st in Z. destruct (Z Z0) as [M [A L]].
  assert (D : i_dom st = d) by (apply dom_zero_run; [exact Hc|reflexivity|exact Z0]).
  destruct st; cbn in *. subst. reflexivity.
Qed.
