(** Property C18 -- MemoryManager discipline and Initialize/Terminate lifecycle are leak-free.
    Only the property theorems; each is closed by [exact] of a lemma proved in Proofs18*.v, followed by
    [Print Assumptions]; Examples show that hypotheses are satisfiable / defects exist (vm_compute).

    CLAIM: PARTIAL.  Proved here: the monitor (T18_monitor_sound_complete), the XMemory header mechanism
    (T18_xmemory theorems), the DOM arena (T18_arena theorems), the Initialize/Terminate state machine (T18_initterm theorems) and the
    generated pairing obligations (T18_init_pairing theorems).  NOT proved: that the whole parser (100k lines of
    exception paths) produces only disciplined traces -- that part of C18 rests on monitored exploration, where
    the extracted [ledger_check] judges every recorded trace. *)
From Coq Require Import NArith List Bool String FMapPositive Permutation.
From XV Require Import Gen.GenC18DomHeap Gen.GenC18Init Gen.GenC18Janitor.
From XV Require Import C18.Spec18 C18.Model18 C18.Model18X C18.Model18A C18.Model18I C18.Model18M C18.Model18G C18.Model18J C18.Model18V.
From XV Require Import C18.Proofs18a C18.Proofs18b C18.Proofs18c C18.Proofs18d C18.Proofs18e C18.Proofs18f C18.Proofs18g C18.Proofs18h C18.Proofs18j C18.Proofs18v.
Import ListNotations.
Local Open Scope N_scope.

(** ---- 1. the monitor ---------------------------------------------------------------------------------- *)
(** the extracted monitor answers [V_Ok] exactly for the traces in which every Free matches one earlier, not yet
    released Alloc of the same manager and nothing is live at the end.  The verdict on a *recorded* trace therefore
    needs no trust in harness bookkeeping. *)
Theorem T18_monitor_sound_complete : forall tr, ledger_check tr = V_Ok <-> disciplined tr.
Proof. exact ledger_sound_complete. Qed.
Print Assumptions T18_monitor_sound_complete.

(** the other verdicts mean what they say: the monitor reports an error iff the trace is not [safe_so_far] (a bad Free or
    a live address handed out again), an error verdict carries the index of the FIRST event that breaks the discipline,
    and [V_Outstanding l] lists exactly the blocks whose allocation is the last event on their address *)
Theorem T18_monitor_no_error_iff : forall tr, ~ is_error (ledger_check tr) <-> safe_so_far tr.
Proof. exact ledger_no_error_iff. Qed.
Print Assumptions T18_monitor_no_error_iff.

Theorem T18_monitor_error_index : forall tr, is_error (ledger_check tr) ->
  exists pre e post i, tr = pre ++ e :: post /\ verdict_index (ledger_check tr) = Some i /\ i = N.of_nat (List.length pre) /\
                       safe_so_far pre /\ ~ safe_so_far (pre ++ [e]).
Proof. exact ledger_error. Qed.
Print Assumptions T18_monitor_error_index.

Theorem T18_monitor_outstanding : forall tr l, ledger_check tr = V_Outstanding l ->
  safe_so_far tr /\ l <> [] /\ forall p m n, In (p, m, n) l <-> outstanding tr m p n.
Proof. exact ledger_outstanding. Qed.
Print Assumptions T18_monitor_outstanding.

Example monitor_accepts : ledger_check [Alloc 1 100 8; Alloc 2 200 16; Free 1 100; Alloc 1 100 4; Free 2 200; Free 1 100] = V_Ok.
Proof. vm_compute. reflexivity. Qed.
Example monitor_rejects_wrong_manager : ledger_check [Alloc 1 100 8; Free 2 100] = V_WrongManager 1.
Proof. vm_compute. reflexivity. Qed.
Example monitor_rejects_double_free : ledger_check [Alloc 1 100 8; Free 1 100; Free 1 100] = V_DoubleFree 2.
Proof. vm_compute. reflexivity. Qed.
Example monitor_rejects_foreign : ledger_check [Alloc 1 100 8; Free 1 104] = V_ForeignFree 1.
Proof. vm_compute. reflexivity. Qed.
Example monitor_reports_leak : ledger_check [Alloc 1 100 8; Alloc 1 200 9; Free 1 100] = V_Outstanding [(200, 1, 9)].
Proof. vm_compute. reflexivity. Qed.

(** ---- 2. XMemory::operator new(size, manager) / operator delete ----------------------------------------- *)
(** for ANY interleaving of new(size, m_i) / new(size) / delete / change of the global manager that the model
    accepts (managers return non-overlapping blocks, the client deletes live objects):
    - once every object is deleted the trace of calls to the managers is disciplined (each block went back to the
      manager that allocated it, exactly once);
    - the header word of every live object holds its allocating manager, the payload starts behind it and
      stays inside the block;
    - header+payload of distinct live blocks do not overlap. *)
Theorem T18_xmemory : forall c g ops st, 0 < ptr_size c -> 0 < alignment c -> xrun c (xinit g) ops = Some st ->
  (x_objs st = [] -> ledger_check (x_trace st) = V_Ok) /\
  (forall o, In o (x_objs st) -> PositiveMap.find (key (o_base o)) (x_hdr st) = Some (o_mgr o) /\
                                 o_p o = o_base o + header c /\ ptr_size c <= header c /\ o_p o <= o_base o + o_tot o) /\
  (forall a b, In a (x_objs st) -> In b (x_objs st) -> a <> b ->
               overlaps (o_base a) (o_tot a) (o_base b) (o_tot b) = false).
Proof. exact xmemory_main. Qed.
Print Assumptions T18_xmemory.

(** every delete hands the block base to the manager of the matching allocation, whatever the global manager is now *)
Theorem T18_xmemory_owner : forall c g ops st p st', 0 < ptr_size c -> 0 < alignment c ->
  xrun c (xinit g) ops = Some st -> xdelete c st p = Some st' ->
  exists o, In o (x_objs st) /\ o_p o = p /\ x_trace st' = x_trace st ++ [Free (o_mgr o) (o_base o)] /\
            exists pre mid, x_trace st = pre ++ Alloc (o_mgr o) (o_base o) (o_tot o) :: mid /\ untouched (o_base o) mid.
Proof. exact xdelete_owner. Qed.
Print Assumptions T18_xmemory_owner.

(** non-vacuity: three managers, the global manager changes between new and delete *)
Example xmemory_run :
  option_map (fun st => (x_trace st, List.length (x_objs st)))
    (xrun xcfg64 (xinit 1) [XNew 2 40 1000; XNewGlobal 16 2000; XSetGlobal 3; XNew 3 7 3000; XDelete 2008; XNewGlobal 1 4000;
                            XDeleteWith 1008 3; XDelete 3008; XDelete 4008])
  = Some ([Alloc 2 1000 48; Alloc 1 2000 24; Alloc 3 3000 15; Free 1 2000; Alloc 3 4000 9; Free 2 1000; Free 3 3000; Free 3 4000], 0%nat).
Proof. vm_compute. reflexivity. Qed.

(** ---- 3. DOM arena: DOMDocumentImpl::allocate / deleteHeap ---------------------------------------------- *)
(** Code as it is ([fx = false]): under  kMaxSubAllocationSize + header <= kInitialHeapAllocSize  and
    kMaxHeapAllocSize <= 2^63, for every request sequence in which the manager returns fresh blocks and
    setMemoryAllocationBlockSize stays out of (maxSub, maxSub+header):  every non-empty region handed out lies
    inside one block owned by the document (behind its header), regions are pairwise disjoint, and deleteHeap
    hands back exactly the blocks that were requested (a permutation: each exactly once). *)
Theorem T18_arena : forall c ops, cfg_base c -> cfg_ok c -> avalid false c (ainit c) ops ->
  let st := arun false c (ainit c) ops in
  (forall r, In r (s_regions st) -> snd r = 0 \/ exists blk, In blk (delete_heap st) /\ within (a_hdr c) r blk) /\
  pdisj (s_regions st) /\
  Permutation (s_reqs st) (delete_heap st).
Proof. intros c ops B K V. exact (arena_main false c ops B (or_introl K) V). Qed.
Print Assumptions T18_arena.

(** repaired allocate ([fx = true], fixes/C18-dom-arena-block-size.patch): no hypothesis on the configuration or on
    setMemoryAllocationBlockSize *)
Theorem T18_arena_fixed : forall c ops, cfg_base c -> avalid true c (ainit c) ops ->
  let st := arun true c (ainit c) ops in
  (forall r, In r (s_regions st) -> snd r = 0 \/ exists blk, In blk (delete_heap st) /\ within (a_hdr c) r blk) /\
  pdisj (s_regions st) /\
  Permutation (s_reqs st) (delete_heap st).
Proof. intros c ops B V. exact (arena_main true c ops B (or_intror eq_refl) V). Qed.
Print Assumptions T18_arena_fixed.

(** the configuration compiled into /repo (regenerated on every run) satisfies the hypotheses *)
Definition repo_cfg : acfg :=
  {| a_init := kInitialHeapAllocSize; a_max := kMaxHeapAllocSize; a_sub := kMaxSubAllocationSize; a_hdr := header xcfg64; a_al := 8 |}.
Theorem T18_arena_default_cfg_ok : cfg_base repo_cfg /\ cfg_ok repo_cfg.
Proof. vm_compute. repeat split; try reflexivity; discriminate. Qed.
Print Assumptions T18_arena_default_cfg_ok.

(** the arena AS BUILT in /repo: the translator reports whether allocate() sizes a fresh block to fit the request
    ([arena_block_fits_request], true since fix c3af9bb) and the compiled-in constants; with these the safety statement
    holds for every request sequence (and, when the flag is true, for every setMemoryAllocationBlockSize). *)
Theorem T18_arena_as_built : forall ops, avalid arena_block_fits_request repo_cfg (ainit repo_cfg) ops ->
  let st := arun arena_block_fits_request repo_cfg (ainit repo_cfg) ops in
  (forall r, In r (s_regions st) -> snd r = 0 \/ exists blk, In blk (delete_heap st) /\ within (a_hdr repo_cfg) r blk) /\
  pdisj (s_regions st) /\
  Permutation (s_reqs st) (delete_heap st).
Proof.
  intros ops V. apply arena_main; [|left|exact V]; vm_compute; repeat split; try reflexivity; discriminate.
Qed.
Print Assumptions T18_arena_as_built.

(** every region handed out is aligned (pointer and length) when the manager returns aligned blocks; the header size is
    a multiple of the alignment by construction (second statement) *)
Theorem T18_arena_regions_aligned : forall fx c ops, 0 < a_al c -> a_hdr c mod a_al c = 0 -> bases_aligned c ops ->
  forall r, In r (s_regions (arun fx c (ainit c) ops)) -> fst r mod a_al c = 0 /\ snd r mod a_al c = 0.
Proof. exact arena_aligned. Qed.
Print Assumptions T18_arena_regions_aligned.

Theorem T18_header_aligned : forall c, 0 < alignment c -> header c mod alignment c = 0 /\ ptr_size c <= header c.
Proof. intros c H. split; [apply align_up_mod; exact H|apply align_up_ge; exact H]. Qed.
Print Assumptions T18_header_aligned.

(** every region's length is a multiple of the alignment (so sub-allocations stay aligned) *)
Theorem T18_arena_aligned : forall c, 0 < a_al c -> forall x, (align_up (a_al c) x) mod (a_al c) = 0.
Proof. exact region_len_aligned. Qed.
Print Assumptions T18_arena_aligned.

(** F23: Initialize(initialDOMHeapAllocSize, max, maxDOMSubAllocationSize) accepts maxSub > initial.  Then the very
    first allocate(2000) returns a 2000-byte region in a fresh 1024-byte block: it lies in NO owned block, and
    fFreeBytesRemaining has wrapped around to 2^64 - 984 (so every later request is "served" past the block too).
    The request sequence satisfies the environment obligations, only [cfg_ok] fails. *)
Definition f23_cfg : acfg := {| a_init := 1024; a_max := 4096; a_sub := 2048; a_hdr := 8; a_al := 8 |}.
Definition not_in_any_block (r : N * N) (hdr : N) (st : astate) : bool :=
  forallb (fun blk => negb (inside r blk hdr)) (delete_heap st).
Theorem T18_arena_cfg_refuted :
  let st := arun false f23_cfg (ainit f23_cfg) [AAlloc 2000 65536] in
  avalid false f23_cfg (ainit f23_cfg) [AAlloc 2000 65536] /\ cfg_base f23_cfg /\
  s_reqs st = [(65536, 1024)] /\ s_regions st = [(65544, 2000)] /\
  not_in_any_block (65544, 2000) 8 st = true /\ (s_fr st =? W - 984) = true.
Proof.
  split; [apply avalidb_sound; vm_compute; reflexivity|].
  split; [vm_compute; repeat split; try reflexivity; discriminate|].
  repeat split; vm_compute; reflexivity.
Qed.
Print Assumptions T18_arena_cfg_refuted.

(** with the DEFAULT parameters of /repo: setMemoryAllocationBlockSize(maxSub+1) then allocate(maxSub) overruns the
    fresh block of maxSub+1 bytes (finding C18-ARENA-SETBLOCK) *)
Theorem T18_arena_setblock_refuted :
  let ops := [ASetBlock (kMaxSubAllocationSize + 1); AAlloc kMaxSubAllocationSize 65536] in
  let st := arun false repo_cfg (ainit repo_cfg) ops in
  match s_regions st with
  | r :: _ => s_reqs st = [(65536, kMaxSubAllocationSize + 1)] /\ not_in_any_block r (a_hdr repo_cfg) st = true
  | [] => False
  end.
Proof. vm_compute. split; reflexivity. Qed.
Print Assumptions T18_arena_setblock_refuted.

(** the repaired allocate serves both witnesses from blocks that are large enough *)
Example arena_fixed_witnesses :
  s_reqs (arun true f23_cfg (ainit f23_cfg) [AAlloc 2000 65536]) = [(65536, 2008)] /\
  s_reqs (arun true repo_cfg (ainit repo_cfg) [ASetBlock 257; AAlloc 256 65536]) = [(65536, 264)].
Proof. vm_compute. split; reflexivity. Qed.

(** non-vacuity of T18_arena: a request sequence on the default configuration with sub-allocations, a singleton
    block, a block change and a legal setMemoryAllocationBlockSize satisfies [avalid] *)
Example arena_valid_run :
  avalid false repo_cfg (ainit repo_cfg)
    [AAlloc 24 1048576; AAlloc 300 2097152; AAlloc 256 0; AAlloc 16000 3145728; AAlloc 100 4194304; ASetBlock 4096; AAlloc 8 0].
Proof. apply avalidb_sound. vm_compute. reflexivity. Qed.

(** ---- 4. Initialize / Terminate ------------------------------------------------------------------------- *)
(** [rd] says whether Terminate restores the built-in DOM heap parameters ([Some d]) or not ([None]); the statements
    below hold for both.  For EVERY sequence of Initialize(args)/Terminate calls from the pristine state:
    resources are live iff gInitFlag > 0;  gInitFlag is the saturating count of the calls;  whenever the count is
    back to 0 the manager is gone, the adopted flag is reset and nothing is live;  the only manager ever deleted is
    the library's own default manager (a user-supplied one never);  own managers created = own managers deleted
    (+1 while one is installed). *)
Theorem T18_initterm : forall rd cap d ops, 0 < cap ->
  let st := irun rd cap (pristine d) ops in
  (i_live st = true <-> 0 < i_cnt st) /\
  i_cnt st = fold_left (count_after cap) ops 0 /\
  (i_cnt st = 0 -> i_mgr st = GmNone /\ i_adopted st = true /\ i_live st = false) /\
  (forall who, In (EDeleteMgr who) (i_log st) -> who = GmOwn) /\
  news (i_log st) = (dels (i_log st) + (match i_mgr st with GmOwn => 1 | _ => 0 end))%nat.
Proof. exact initterm_main. Qed.
Print Assumptions T18_initterm.

(** an extra Terminate is a no-op *)
Theorem T18_initterm_extra_terminate : forall rd cap st, i_cnt st = 0 -> istep rd cap st Term = st.
Proof. exact extra_term_noop. Qed.
Print Assumptions T18_initterm_extra_terminate.

(** code WITHOUT the reset: after the last matching Terminate the state equals the pristine state (up to the event
    log) only if no Initialize carried DOM heap arguments ... *)
Theorem T18_initterm_pristine : forall cap d ops, 0 < cap -> Forall no_dom_args ops ->
  let st := irun None cap (pristine d) ops in
  i_cnt st = 0 -> st = {| i_cnt := 0; i_mgr := GmNone; i_adopted := true; i_live := false; i_dom := d; i_log := i_log st |}.
Proof. exact pristine_again. Qed.
Print Assumptions T18_initterm_pristine.

(** ... because Terminate does not restore them (finding C18-DOMHEAP-STICKY) *)
Theorem T18_initterm_domheap_sticky_refuted :
  let d := (kInitialHeapAllocSize, kMaxHeapAllocSize, kMaxSubAllocationSize) in
  exists ops, i_cnt (irun None long_max (pristine d) ops) = 0 /\ i_dom (irun None long_max (pristine d) ops) <> d.
Proof.
  intros d. exists [Init None (Some (kInitialHeapAllocSize + 1, kMaxHeapAllocSize, kMaxSubAllocationSize)); Term].
  split; [reflexivity|]. vm_compute. intros E. discriminate E.
Qed.
Print Assumptions T18_initterm_domheap_sticky_refuted.

(** code WITH the reset (fixes/C18-domheap-reset-on-terminate.patch): pristine again after the last Terminate for EVERY
    sequence, whatever arguments the Initialize calls carried *)
Theorem T18_initterm_pristine_fixed : forall cap d ops, 0 < cap ->
  let st := irun (Some d) cap (pristine d) ops in
  i_cnt st = 0 -> st = {| i_cnt := 0; i_mgr := GmNone; i_adopted := true; i_live := false; i_dom := d; i_log := i_log st |}.
Proof. exact pristine_again_fixed. Qed.
Print Assumptions T18_initterm_pristine_fixed.

Example initterm_run :
  let st := irun None long_max (pristine (1, 2, 3)) [Init (Some 7) None; Init None None; Term; Term; Term; Init None None; Term] in
  (i_cnt st, i_mgr st, i_live st, i_log st) = (0, GmNone, false, [ECreate; EDestroy; ENewOwnMgr; ECreate; EDestroy; EDeleteMgr GmOwn]).
Proof. vm_compute. reflexivity. Qed.

(** message-loader strings (XMLMsgLoader::fLocale / fPath, set from the locale / nlsHome arguments of Initialize) and the
    panic handler, for EVERY sequence of Initialize(user manager, DOM heap sizes, locale, nlsHome, panicHandler)/Terminate:
    after the last matching Terminate no string and no panic handler is left (this extends T18_initterm_pristine to the
    loader state);  while initialised each string is owned by the CURRENT global manager;  a string is never released
    through a manager other than the one that allocated it (no foreign pointer reaches a later global manager);
    strings allocated = strings released + strings live;  the Initialize/Terminate part of the state is the run of T18_initterm. *)
Theorem T18_initterm_msgloader : forall rd cap d ops, 0 < cap ->
  let st := mrun rd cap (mpristine d) ops in
  (i_cnt (m_i st) = 0 -> m_loc st = None /\ m_nls st = None /\ m_ph st = None) /\
  (forall g, m_loc st = Some g \/ m_nls st = Some g -> g = i_mgr (m_i st)) /\
  (forall o v, In (EStrFree o v) (m_slog st) -> o = v) /\
  sallocs (m_slog st) = (sfrees (m_slog st) + b2n (m_loc st) + b2n (m_nls st))%nat /\
  m_i st = irun rd cap (pristine d) (map to_iop ops).
Proof. exact msgloader_main. Qed.
Print Assumptions T18_initterm_msgloader.

Example msgloader_run :
  let st := mrun None long_max (mpristine (1, 2, 3))
              [MInit (Some 4) None true true false; MInit (Some 5) None true false true; MTerm; MTerm; MInit (Some 5) None false true true; MTerm] in
  (m_loc st, m_nls st, m_slog st) =
  (None, None, [EStrAlloc (GmUser 4); EStrAlloc (GmUser 4); EStrFree (GmUser 4) (GmUser 4); EStrFree (GmUser 4) (GmUser 4);
                EStrAlloc (GmUser 5); EStrFree (GmUser 5) (GmUser 5)]).
Proof. vm_compute. reflexivity. Qed.

(** ---- 4b. grammar ownership (who deletes a Grammar) ----------------------------------------------------------- *)
(** For EVERY sequence of parses (caching on/off, ending before the DOCTYPE or reaching the re-keying of the DTD grammar from
    "[dtd]" to the system id through orphanGrammar/putGrammar), pool lock/unlock between parses and resolver resets:
    no grammar is owned by both the pool and the resolver's bucket, none is dropped, and the destructors of resolver and pool
    delete every grammar exactly once.  [bf = true] (orphanGrammar looks into the bucket first) needs no hypothesis;
    for the code as it is ([bf = false]) the statement holds when no caching parse ends before the DOCTYPE ([gop_ok]). *)
Theorem T18_grammar_single_owner : forall bf ops, Forall (gop_ok bf) ops ->
  let st := grun bf ginit ops in
  NoDup (map snd (g_pool st) ++ map snd (g_bucket st)) /\ g_orphaned st = [] /\ NoDup (final_deletes st).
Proof. exact grammar_single_owner. Qed.
Print Assumptions T18_grammar_single_owner.

(** finding C18-DG-GRAMMAR-DOUBLE-OWNED on the model of the code as it is: a caching parse that ends before the DOCTYPE, then a parse
    of a document with an external subset: the second grammar (id 2) ends up in BOTH owners, the first (id 1) is dropped, and the
    destructors delete grammar 2 twice *)
Theorem T18_grammar_double_owner_refuted :
  let st := grun false ginit [GParse true true 7; GParse true false 7] in
  g_pool st = [(7, 2)] /\ g_bucket st = [(0, 2)] /\ g_orphaned st = [1] /\ final_deletes st = [2; 2].
Proof. vm_compute. repeat split; reflexivity. Qed.
Print Assumptions T18_grammar_double_owner_refuted.

(** the same history with the repaired order: single owner, nothing dropped *)
Example grammar_repaired_history :
  let st := grun true ginit [GParse true true 7; GParse true false 7; GLock; GParse true false 8; GUnlock; GParse false false 9] in
  (g_pool st, g_bucket st, g_orphaned st, g_deleted st) = ([(7, 2); (0, 1)], [(0, 4)], [], [3]).
Proof. vm_compute. reflexivity. Qed.

(** the variant /repo has (the translator reads which owner GrammarResolver::orphanGrammar asks first) *)
Theorem T18_grammar_as_built : forall ops, Forall (gop_ok orphan_bucket_first) ops ->
  let st := grun orphan_bucket_first ginit ops in
  NoDup (map snd (g_pool st) ++ map snd (g_bucket st)) /\ g_orphaned st = [] /\ NoDup (final_deletes st).
Proof. exact (grammar_single_owner orphan_bucket_first). Qed.
Print Assumptions T18_grammar_as_built.

(** ---- 5. generated obligations (Gen/GenC18Init.v is rewritten from /repo on every run) --------------------- *)
(** every initializeX() of XMLInitializer::initializeStaticData has its terminateX() in terminateStaticData, in
    exactly the reverse order *)
Theorem T18_init_pairing : static_terms = rev static_inits.
Proof. vm_compute. reflexivity. Qed.
Print Assumptions T18_init_pairing.

(** every global created with new/makeXxx() in XMLPlatformUtils::Initialize is deleted and reset to 0 in Terminate *)
Theorem T18_init_globals_released :
  forallb (fun g => existsb (String.eqb g) globals_deleted && existsb (String.eqb g) globals_zeroed) globals_created = true.
Proof. vm_compute. reflexivity. Qed.
Print Assumptions T18_init_globals_released.

(** every XMLMsgLoader::setX(argument) of Initialize (a string replicated with the global manager) has its
    XMLMsgLoader::setX(0) in Terminate *)
Theorem T18_init_msgloader_released :
  forallb (fun f => existsb (String.eqb f) msgloader_reset) msgloader_set = true.
Proof. vm_compute. reflexivity. Qed.
Print Assumptions T18_init_msgloader_released.

(** ---- 6. scope guards: JanitorMemFunCall on a constructor, Janitor / ArrayJanitor on a temporary ---------------- *)
(** the guarded constructor of Model18J.v (`CleanupType cleanup(this, &T::cleanUp); ... cleanup.release();`), for EVERY body
    of the statement language, EVERY choice of the statement that throws (and for no throw), any manager and first address:
    when the constructor satisfies [ctor_ok] (members assigned at most once, cleanUp and the destructor release every member
    the constructor assigns and none twice, `cleanup.release()` is the last statement) the manager's trace over the whole
    life of the object is accepted by the monitor: what was allocated before the exception is released exactly once by the
    guard; a completed object is released exactly once by its destructor. *)
Theorem T18_janitor_paths : forall m base c k, ctor_ok c = true -> ledger_check (jlife m base c k) = V_Ok.
Proof. exact janitor_paths. Qed.
Print Assumptions T18_janitor_paths.

(** non-vacuity, and the three ways to break the obligation each produce a trace the monitor rejects *)
Example janitor_ok_example :
  ctor_ok {| c_init := [7]; c_body := body_of [0; 1; 2] false; c_cleanup := [2; 1; 0; 7; 9]; c_dtor := [0; 1; 2; 7] |} = true.
Proof. vm_compute. reflexivity. Qed.
Theorem T18_janitor_missing_member_refuted : exists k,      (* cleanUp forgets member 1: a throw after its allocation leaks it *)
  ledger_check (jlife 1 100 {| c_init := []; c_body := body_of [0; 1] false; c_cleanup := [0]; c_dtor := [0; 1] |} (Some k))
  = V_Outstanding [(101, 1, 1)].
Proof. exists 4%nat. vm_compute. reflexivity. Qed.
Theorem T18_janitor_early_release_refuted : exists k,       (* work after cleanup.release(): a throw there leaks everything *)
  ledger_check (jlife 1 100 {| c_init := []; c_body := body_of [0] true; c_cleanup := [0]; c_dtor := [0] |} (Some k))
  = V_Outstanding [(100, 1, 1)].
Proof. exists 3%nat. vm_compute. reflexivity. Qed.
Theorem T18_janitor_no_release_refuted :                   (* release() never called: the guard fires on the normal exit, then the destructor *)
  ledger_check (jlife 1 100 {| c_init := []; c_body := [JAlloc 0; JCall]; c_cleanup := [0]; c_dtor := [0] |} None) = V_DoubleFree 2.
Proof. vm_compute. reflexivity. Qed.

(** generated per-constructor obligations: every function of /repo that arms `CleanupType cleanup(this, &C::fn)`, with the
    members it (and what it calls, two calls deep, and its initialiser list) assigns from new / allocate / replicate and keeps,
    the members C::fn and ~C release, and the place of `cleanup.release()`, satisfies [ctor_ok] ... *)
Theorem T18_ctor_guard_obligations : forallb (fun x => ctor_ok (snd x)) guard_sites = true.
Proof. vm_compute. reflexivity. Qed.
Print Assumptions T18_ctor_guard_obligations.
(** ... hence every modelled exit of each of them is leak-free and free of double releases *)
Theorem T18_ctor_guard_as_built : forall nm c, In (nm, c) guard_sites ->
  forall m base k, ledger_check (jlife m base c k) = V_Ok.
Proof.
  intros nm c I m base k. apply janitor_paths.
  pose proof T18_ctor_guard_obligations as H. rewrite forallb_forall in H. exact (H (nm, c) I).
Qed.
Print Assumptions T18_ctor_guard_as_built.
Example guard_sites_nonempty : Nat.leb 20 (List.length guard_sites) = true.
Proof. vm_compute. reflexivity. Qed.
(** Janitor.c still has the statements the models follow (destructor = reset(); release() forgets the block; reset() releases it) *)
Theorem T18_janitor_shapes : forallb snd janitor_shapes = true.
Proof. vm_compute. reflexivity. Qed.

(** a temporary under Janitor<T> / ArrayJanitor<T>: for EVERY sequence of possibly throwing calls, reset(new block) and
    release() (hand-over to a later owner) and every throw choice, the trace is accepted by the monitor (unconditional) *)
Theorem T18_janitor_local : forall m base ops k, ledger_check (ljlife m base ops k) = V_Ok.
Proof. exact janitor_local. Qed.
Print Assumptions T18_janitor_local.

(** ---- 7. adopting containers: RefVectorOf<T>(maxElems, adoptElems, manager) ---------------------------------------- *)
(** for EVERY history of addElement / setElementAt / insertElementAt / orphanElementAt / removeElementAt / removeLastElement /
    removeAllElements (bad indices included: ArrayIndexOutOfBoundsException) followed by the destructor, when the client hands in
    distinct objects: the destroyed container holds nothing; the objects it deleted and the objects that are the client's again
    are without repetition, disjoint, and together exactly the objects handed in.  An adopting vector therefore deletes each
    object it holds exactly once and never one it handed back; one that does not adopt deletes nothing. *)
Theorem T18_vector_adopt : forall adopt maxElems ops, NoDup (vadded ops) ->
  let st := vdestroy adopt (vrun adopt (vinit maxElems) ops) in
  v_el st = [] /\ NoDup (v_del st ++ v_out st) /\ Permutation (v_del st ++ v_out st) (vadded ops).
Proof. exact vector_accounting. Qed.
Print Assumptions T18_vector_adopt.
Theorem T18_vector_no_adopt : forall maxElems ops, v_del (vdestroy false (vrun false (vinit maxElems) ops)) = [].
Proof. exact vector_no_adopt. Qed.
Print Assumptions T18_vector_no_adopt.
Example vector_run :
  let st := vdestroy true (vrun true (vinit 2) [VAdd 1; VAdd 2; VAdd 3; VSet 4 1; VOrphan 0; VInsert 5 9; VRemoveLast; VAdd 6]) in
  (v_del st, v_out st, v_blk st) = ([2; 3; 4; 6], [1; 5], [2; 3]).
Proof. vm_compute. reflexivity. Qed.
