(** Property C18 -- MemoryManager discipline and Initialize/Terminate lifecycle are leak-free.
    Only the property theorems; each is closed by [exact] of a lemma proved in Proofs18*.v. *)
From Coq Require Import NArith List.
From XV Require Import C18.Spec18 C18.Model18 C18.Proofs18a.
Import ListNotations.
Local Open Scope N_scope.

(** the extracted monitor decides the discipline of a trace: it answers [V_Ok] exactly for the traces in
    which every Free matches one earlier, not yet released Alloc of the same manager and nothing is live at
    the end.  The verdict on a *recorded* trace therefore needs no trust in harness bookkeeping. *)
Theorem T18_monitor_sound_complete : forall tr, ledger_check tr = V_Ok <-> disciplined tr.
Proof. exact ledger_sound_complete. Qed.
Print Assumptions T18_monitor_sound_complete.
