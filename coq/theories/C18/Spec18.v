(** C18 -- specification of memory-manager discipline (mentions nothing of the C++).

    A trace is the sequence of calls that reached the application's MemoryManager objects:
    [Alloc m p n] = manager [m] returned address [p] for a request of [n] bytes,
    [Free m p]   = address [p] was handed to [deallocate] of manager [m].

    A trace is *disciplined* iff
      - every [Free m p] is preceded by an [Alloc m p _] of the SAME manager with no event on [p]
        in between (so it matches exactly one earlier allocation that has not been released yet:
        no foreign pointer, no double free, no wrong manager), and
      - every [Alloc m p _] is followed by its [Free m p] with no event on [p] in between
        (nothing is outstanding at the end, and no address is handed out twice while live). *)
From Coq Require Import NArith List.
Import ListNotations.
Local Open Scope N_scope.

Inductive event : Type :=
| Alloc (m p n : N)
| Free (m p : N).

Definition addr (e : event) : N := match e with Alloc _ p _ => p | Free _ p => p end.
Definition mgr (e : event) : N := match e with Alloc m _ _ => m | Free m _ => m end.

(** no event of [l] concerns address [p] *)
Definition untouched (p : N) (l : list event) : Prop := Forall (fun e => addr e <> p) l.

Definition free_ok (tr : list event) : Prop :=
  forall pre m p post, tr = pre ++ Free m p :: post ->
    exists pre1 n mid, pre = pre1 ++ Alloc m p n :: mid /\ untouched p mid.

Definition alloc_ok (tr : list event) : Prop :=
  forall pre m p n post, tr = pre ++ Alloc m p n :: post ->
    exists mid post', post = mid ++ Free m p :: post' /\ untouched p mid.

Definition disciplined (tr : list event) : Prop := free_ok tr /\ alloc_ok tr.

(** the part of the discipline that can be judged before the end of the run: no bad [Free] so far
    and no address handed out twice while live (used for traces of objects that are still alive) *)
Definition no_dup_alloc (tr : list event) : Prop :=
  forall pre m p n post, tr = pre ++ Alloc m p n :: post ->
    forall pre1 m' n' mid, pre = pre1 ++ Alloc m' p n' :: mid -> ~ untouched p mid.

Definition safe_so_far (tr : list event) : Prop := free_ok tr /\ no_dup_alloc tr.

(** a block is outstanding after [tr] when its allocation is the last event on its address *)
Definition outstanding (tr : list event) (m p n : N) : Prop :=
  exists pre post, tr = pre ++ Alloc m p n :: post /\ untouched p post.
