(** C18 -- every exit of a guarded constructor / of a function with a Janitor leaves a disciplined trace. *)
From Coq Require Import NArith List Bool FMapPositive Lia.
From XV Require Import C18.Spec18 C18.Model18 C18.Model18J C18.Proofs18a.
Import ListNotations.
Local Open Scope N_scope.

(** ---- a reusable bridge: the monitor's state described by the list of live addresses ----------------------- *)
Definition Live (m : N) (s : lstate) (l : list N) : Prop :=
  forall p, (In p l -> view s p = Some (m, 1)) /\ (~ In p l -> view s p = None).

Lemma live_equiv : forall m s l l', (forall p, In p l <-> In p l') -> Live m s l -> Live m s l'.
Proof.
  intros m s l l' E H p. destruct (H p) as [A B]. split; intros I.
  - apply A. apply E. exact I.
  - apply B. intro J. apply I. apply E. exact J.
Qed.

Lemma live_nil_empty : forall m s, Live m s [] -> PositiveMap.is_empty s = true.
Proof. intros m s H. apply is_empty_view. intros p. apply (H p). intros []. Qed.

Lemma live_init : forall m, Live m lempty [].
Proof. intros m p. split; [intros []|]. intros _. apply view_empty. Qed.

Lemma live_alloc : forall m s l p, Live m s l -> ~ In p l ->
  exists s', step s (Alloc m p 1) = Some s' /\ Live m s' (p :: l).
Proof.
  intros m s l p H N. exists (PositiveMap.add (key p) (m, 1) s). split.
  - apply step_alloc. split; [apply (H p); exact N|reflexivity].
  - intros q. destruct (N.eq_dec p q) as [->|D].
    + split; [intros _; apply view_add_same|]. intros C. exfalso. apply C. left. reflexivity.
    + rewrite (view_add_other _ _ _ _ D). destruct (H q) as [A B]. split.
      * intros [E|I]; [contradiction|auto].
      * intros C. apply B. intro I. apply C. right. exact I.
Qed.

Definition without (a : N) (l : list N) : list N := filter (fun x => negb (x =? a)) l.

Lemma in_without : forall a l p, In p (without a l) <-> In p l /\ p <> a.
Proof.
  intros. unfold without. rewrite filter_In. split; intros [A B]; split; auto.
  - intro E. subst. rewrite N.eqb_refl in B. discriminate.
  - destruct (N.eqb_spec p a); [contradiction|reflexivity].
Qed.

Lemma live_free : forall m s l a, Live m s l -> In a l ->
  exists s', step s (Free m a) = Some s' /\ Live m s' (without a l).
Proof.
  intros m s l a H I. exists (PositiveMap.remove (key a) s). split.
  - apply step_free. split; [exists 1; apply (H a); exact I|reflexivity].
  - intros q. rewrite in_without. destruct (N.eq_dec a q) as [->|D].
    + split; [intros [_ C]; contradiction|]. intros _. apply view_rem_same.
    + rewrite (view_rem_other _ _ _ D). destruct (H q) as [A B]. split.
      * intros [J _]. auto.
      * intros C. apply B. intro J. apply C. split; [exact J|]. intro E. apply D. symmetry. exact E.
Qed.

Lemma live_frees : forall m fl s l, Live m s l -> NoDup fl -> incl fl l ->
  exists s', exec s (map (Free m) fl) = Some s' /\ Live m s' (filter (fun x => negb (existsb (N.eqb x) fl)) l).
Proof.
  intros m fl. induction fl as [|a r IH]; intros s l H ND IN.
  - exists s. split; [reflexivity|]. eapply live_equiv; [|exact H]. intros p. rewrite filter_In. cbn. tauto.
  - inversion ND as [|? ? NI ND']; subst.
    destruct (live_free m s l a H) as [s1 [S1 L1]]; [apply IN; left; reflexivity|].
    destruct (IH s1 (without a l) L1 ND') as [s' [E L']].
    { intros x I. apply in_without. split; [apply IN; right; exact I|]. intro C. subst. contradiction. }
    exists s'. split.
    + cbn [map exec]. rewrite S1. exact E.
    + eapply live_equiv; [|exact L']. intros p. rewrite !filter_In, in_without. cbn [existsb].
      destruct (existsb (N.eqb p) r); destruct (N.eqb_spec p a) as [D|D]; cbn [negb orb]; intuition congruence.
Qed.

Lemma filter_none : forall (f : N -> bool) l, (forall x, In x l -> f x = false) -> filter f l = [].
Proof.
  induction l as [|x r IH]; intros H; [reflexivity|]. cbn. rewrite (H x (or_introl eq_refl)). apply IH.
  intros y I. apply H. right. exact I.
Qed.

(** freeing exactly the live set empties the monitor's state *)
Lemma live_frees_all : forall m fl s l, Live m s l -> NoDup fl -> incl fl l -> incl l fl ->
  exists s', exec s (map (Free m) fl) = Some s' /\ PositiveMap.is_empty s' = true.
Proof.
  intros m fl s l H ND I1 I2. destruct (live_frees m fl s l H ND I1) as [s' [E L]]. exists s'. split; [exact E|].
  rewrite filter_none in L; [exact (live_nil_empty m s' L)|].
  intros x I. apply negb_false_iff. apply existsb_exists. exists x. split; [apply I2; exact I|apply N.eqb_refl].
Qed.

(** ---- member slots ------------------------------------------------------------------------------------------- *)
Definition addrs (L : list N) (mem : list (N * N)) : list N :=
  flat_map (fun s => match slot_addr s mem with Some a => [a] | None => [] end) L.

Lemma free_slots_spec : forall m L mem, free_slots m L mem = map (Free m) (addrs L mem).
Proof.
  intros m L mem. unfold free_slots, addrs. induction L as [|x r IH]; [reflexivity|].
  cbn [flat_map]. rewrite map_app, IH. destruct (slot_addr x mem); reflexivity.
Qed.

Lemma slot_addr_in : forall s mem a, slot_addr s mem = Some a -> In (s, a) mem.
Proof.
  induction mem as [|[s' a'] r IH]; intros a H; cbn [slot_addr] in H; [discriminate|].
  destruct (N.eqb_spec s' s).
  - inversion H; subst. left. reflexivity.
  - right. apply IH. exact H.
Qed.

Lemma slot_addr_complete : forall mem s a, NoDup (map fst mem) -> In (s, a) mem -> slot_addr s mem = Some a.
Proof.
  induction mem as [|[s' a'] r IH]; intros s a ND I; [destruct I|]. cbn [slot_addr]. cbn [map fst] in ND.
  inversion ND as [|? ? NI ND']; subst. destruct I as [E|I].
  - inversion E; subst. rewrite N.eqb_refl. reflexivity.
  - destruct (N.eqb_spec s' s) as [->|D]; [|apply IH; assumption].
    exfalso. apply NI. apply in_map_iff. exists (s, a). split; [reflexivity|exact I].
Qed.

Lemma snd_inj : forall (mem : list (N * N)) (s s' a : N), NoDup (map snd mem) -> In (s, a) mem -> In (s', a) mem -> s = s'.
Proof.
  induction mem as [|[s0 a0] r IH]; intros s s' a ND I J; [destruct I|]. cbn [map snd] in ND.
  inversion ND as [|? ? NI ND']; subst.
  destruct I as [E|I]; destruct J as [F|J].
  - inversion E; inversion F; subst. reflexivity.
  - inversion E; subst. exfalso. apply NI. apply in_map_iff. exists (s', a). split; [reflexivity|exact J].
  - inversion F; subst. exfalso. apply NI. apply in_map_iff. exists (s, a). split; [reflexivity|exact I].
  - exact (IH s s' a ND' I J).
Qed.

Lemma in_addrs : forall L mem a, In a (addrs L mem) <-> exists s, In s L /\ slot_addr s mem = Some a.
Proof.
  intros L mem a. unfold addrs. rewrite in_flat_map. split.
  - intros [s [I H]]. exists s. split; [exact I|]. destruct (slot_addr s mem) as [b|]; [|destruct H].
    destruct H as [->|[]]. reflexivity.
  - intros [s [I H]]. exists s. split; [exact I|]. rewrite H. left. reflexivity.
Qed.

Lemma addrs_nodup : forall L mem, NoDup L -> NoDup (map snd mem) -> NoDup (addrs L mem).
Proof.
  induction L as [|x r IH]; intros mem ND NS; [constructor|].
  inversion ND as [|? ? NI ND']; subst.
  change (addrs (x :: r) mem) with ((match slot_addr x mem with Some a => [a] | None => [] end) ++ addrs r mem).
  destruct (slot_addr x mem) as [a|] eqn:E; [|apply IH; assumption].
  cbn [app]. constructor; [|apply IH; assumption].
  intros I. apply in_addrs in I. destruct I as [s [I H]].
  assert (s = x) by (eapply snd_inj; [exact NS|apply slot_addr_in; exact H|apply slot_addr_in; exact E]).
  subst. contradiction.
Qed.

(** releasing the slots of [L] releases every held block exactly once when every assigned slot is in [L] *)
Lemma free_slots_all : forall m L mem s, Live m s (map snd mem) -> NoDup L -> NoDup (map fst mem) -> NoDup (map snd mem) ->
  incl (map fst mem) L ->
  exists s', exec s (free_slots m L mem) = Some s' /\ PositiveMap.is_empty s' = true.
Proof.
  intros m L mem s H NL NF NS IN. rewrite free_slots_spec.
  apply (live_frees_all m (addrs L mem) s (map snd mem) H).
  - apply addrs_nodup; assumption.
  - intros a I. apply in_addrs in I. destruct I as [x [_ E]]. apply slot_addr_in in E.
    apply in_map_iff. exists (x, a). split; [reflexivity|exact E].
  - intros a I. apply in_map_iff in I. destruct I as [[x a'] [E I]]. cbn in E. subst a'.
    apply in_addrs. exists x. split.
    + apply IN. apply in_map_iff. exists (x, a). split; [reflexivity|exact I].
    + apply slot_addr_complete; assumption.
Qed.

(** ---- the guarded constructor --------------------------------------------------------------------------------- *)
Record JInv (m : N) (s : lstate) (st : jst) : Prop := {
  ji_exec : exec lempty (j_tr st) = Some s;
  ji_live : Live m s (map snd (j_mem st));
  ji_lt : forall a, In a (map snd (j_mem st)) -> a < j_next st;
  ji_nd : NoDup (map snd (j_mem st))
}.

Lemma jinv_alloc : forall m s st slot, JInv m s st -> exists s', JInv m s' (jalloc m st slot).
Proof.
  intros m s st slot [E L LT ND].
  assert (NI : ~ In (j_next st) (map snd (j_mem st))) by (intro I; apply LT in I; lia).
  destruct (live_alloc m s _ (j_next st) L NI) as [s' [S L']].
  exists s'. constructor; cbn [jalloc j_tr j_mem j_next map snd].
  - rewrite exec_app, E. cbn [exec]. rewrite S. reflexivity.
  - exact L'.
  - intros a [<-|I]; [lia|]. apply LT in I. lia.
  - constructor; assumption.
Qed.

Lemma jalloc_armed : forall m st slot, j_armed (jalloc m st slot) = j_armed st.
Proof. reflexivity. Qed.

Lemma jinv_disarm : forall m s st, JInv m s st -> JInv m s (jdisarm st).
Proof. intros m s st [E L LT ND]. constructor; assumption. Qed.

Lemma nodup_app_l : forall (a b : list N), NoDup (a ++ b) -> NoDup a.
Proof.
  induction a as [|x r IH]; intros b H; [constructor|]. cbn [app] in H. inversion H as [|? ? NI ND]; subst.
  constructor; [|apply (IH b ND)]. intro I. apply NI. apply in_or_app. left. exact I.
Qed.

Lemma nodup_move : forall (a : list N) x b, NoDup (a ++ x :: b) -> NoDup ((x :: a) ++ b).
Proof.
  intros a x b H. cbn [app]. constructor.
  - apply NoDup_remove_2 in H. exact H.
  - apply NoDup_remove_1 in H. exact H.
Qed.

(** invariant + slots stay distinct and among the declared ones, for every throw choice *)
Lemma jbody_inv : forall m body st k s,
  JInv m s st -> NoDup (map fst (j_mem st) ++ body_slots body) ->
  exists s1, JInv m s1 (fst (jbody m st body k)) /\
             NoDup (map fst (j_mem (fst (jbody m st body k)))) /\
             incl (map fst (j_mem (fst (jbody m st body k)))) (map fst (j_mem st) ++ body_slots body).
Proof.
  intros m body. induction body as [|stm r IH]; intros st k s I ND.
  - cbn [jbody fst]. exists s. split; [exact I|]. cbn [body_slots flat_map] in *. rewrite app_nil_r in *.
    split; [exact ND|apply incl_refl].
  - destruct stm as [slot| |].
    + assert (STOP : exists s1, JInv m s1 st /\ NoDup (map fst (j_mem st)) /\
                                 incl (map fst (j_mem st)) (map fst (j_mem st) ++ body_slots (JAlloc slot :: r))).
      { exists s. split; [exact I|]. split; [apply nodup_app_l in ND; exact ND|apply incl_appl, incl_refl]. }
      change (body_slots (JAlloc slot :: r)) with (slot :: body_slots r) in *.
      destruct (jinv_alloc m s st slot I) as [s' I'].
      assert (GO : forall k', exists s1, JInv m s1 (fst (jbody m (jalloc m st slot) r k')) /\
                    NoDup (map fst (j_mem (fst (jbody m (jalloc m st slot) r k')))) /\
                    incl (map fst (j_mem (fst (jbody m (jalloc m st slot) r k')))) (map fst (j_mem st) ++ slot :: body_slots r)).
      { intros k'. destruct (IH (jalloc m st slot) k' s' I') as [s1 [A [B C]]].
        - cbn [jalloc j_mem map fst]. apply nodup_move. exact ND.
        - exists s1. split; [exact A|]. split; [exact B|].
          intros x X. apply C in X. cbn [jalloc j_mem map fst app] in X.
          apply in_or_app. destruct X as [<-|X]; [right; left; reflexivity|].
          apply in_app_or in X. destruct X as [X|X]; [left; exact X|right; right; exact X]. }
      cbn [jbody]. destruct k as [[|k']|]; [exact STOP|apply GO|apply GO].
    + change (body_slots (JCall :: r)) with (body_slots r) in *.
      cbn [jbody]. destruct k as [[|k']|]; [|apply (IH st _ s I ND)|apply (IH st _ s I ND)].
      cbn [fst]. exists s. split; [exact I|]. split; [apply nodup_app_l in ND; exact ND|apply incl_appl, incl_refl].
    + change (body_slots (JRelease :: r)) with (body_slots r) in *.
      cbn [jbody]. apply (IH (jdisarm st) k s (jinv_disarm m s st I)). exact ND.
Qed.

(** with `cleanup.release()` last: an exceptional exit finds the guard armed, a normal exit finds it released *)
Lemma jbody_armed : forall m body st k, j_armed st = true -> release_last body = true ->
  (snd (jbody m st body k) = true /\ j_armed (fst (jbody m st body k)) = true) \/
  (snd (jbody m st body k) = false /\ j_armed (fst (jbody m st body k)) = false).
Proof.
  intros m body. induction body as [|stm r IH]; intros st k A R; [discriminate R|].
  destruct r as [|stm2 r'].
  - cbn [release_last] in R. destruct stm; try discriminate R. cbn [jbody fst snd jdisarm j_armed]. right. auto.
  - change (release_last (stm :: stm2 :: r')) with (negb (is_release stm) && release_last (stm2 :: r')) in R.
    apply andb_true_iff in R. destruct R as [R1 R2]. set (R := stm2 :: r') in *. clearbody R.
    destruct stm as [slot| |]; [| |discriminate R1].
    + cbn [jbody]. destruct k as [[|k']|].
      * left. cbn [fst snd]. auto.
      * apply IH; [rewrite jalloc_armed; exact A|exact R2].
      * apply IH; [rewrite jalloc_armed; exact A|exact R2].
    + cbn [jbody]. destruct k as [[|k']|].
      * left. cbn [fst snd]. auto.
      * apply IH; assumption.
      * apply IH; assumption.
Qed.

Lemma nodupb_spec : forall l, nodupb l = true -> NoDup l.
Proof.
  induction l as [|x r IH]; intros H; [constructor|]. cbn [nodupb] in H. apply andb_true_iff in H. destruct H as [A B].
  constructor; [|apply IH; exact B]. intros I. apply negb_true_iff in A.
  assert (E : existsb (N.eqb x) r = true) by (apply existsb_exists; exists x; split; [exact I|apply N.eqb_refl]).
  congruence.
Qed.

Lemma subsetb_spec : forall a b, subsetb a b = true -> incl a b.
Proof.
  intros a b H x I. unfold subsetb in H. rewrite forallb_forall in H. specialize (H x I).
  apply existsb_exists in H. destruct H as [y [J E]]. apply N.eqb_eq in E. subst. exact J.
Qed.

Lemma fold_jalloc_inv : forall m init st s, JInv m s st -> NoDup (map fst (j_mem st) ++ init) ->
  exists s', JInv m s' (fold_left (jalloc m) init st) /\
             j_armed (fold_left (jalloc m) init st) = j_armed st /\
             forall rest, NoDup (map fst (j_mem st) ++ init ++ rest) -> NoDup (map fst (j_mem (fold_left (jalloc m) init st)) ++ rest).
Proof.
  intros m init. induction init as [|x r IH]; intros st s I ND.
  - exists s. cbn [fold_left]. split; [exact I|]. split; [reflexivity|]. intros rest H. exact H.
  - cbn [fold_left]. destruct (jinv_alloc m s st x I) as [s1 I1].
    destruct (IH (jalloc m st x) s1 I1) as [s' [A [B C]]].
    + cbn [jalloc j_mem map fst]. apply nodup_move. exact ND.
    + exists s'. split; [exact A|]. split; [rewrite B; reflexivity|].
      intros rest H. apply C. cbn [jalloc j_mem map fst]. apply nodup_move. exact H.
Qed.

(** MAIN: for every constructor of the language that satisfies the obligation, every throw choice (and no throw) gives a
    trace the monitor accepts: blocks allocated before the exception are released exactly once by the guard, a completed
    object is released exactly once by its destructor, nothing is released twice *)
Lemma janitor_paths : forall m base c k, ctor_ok c = true -> ledger_check (jlife m base c k) = V_Ok.
Proof.
  intros m base c k OK. unfold ctor_ok in OK. repeat (apply andb_true_iff in OK; destruct OK as [OK ?]).
  rename H into RL. rename H0 into SD. rename H1 into SC. rename H2 into ND. rename H3 into NC.
  apply nodupb_spec in OK. apply nodupb_spec in NC. apply nodupb_spec in ND.
  apply subsetb_spec in SC. apply subsetb_spec in SD. unfold ctor_slots in *.
  unfold jlife.
  set (st00 := {| j_mem := []; j_armed := true; j_next := base; j_tr := [] |}).
  assert (I0 : JInv m lempty st00) by (constructor; cbn; [reflexivity|apply live_init|intros a []|constructor]).
  destruct (fold_jalloc_inv m (c_init c) st00 lempty I0) as [s0 [J0 [A0 N0]]].
  { cbn [st00 j_mem map app]. apply nodup_app_l in OK. exact OK. }
  set (st0 := fold_left (jalloc m) (c_init c) st00) in *.
  specialize (N0 (body_slots (c_body c))). cbn [st00 j_mem map app] in N0. specialize (N0 OK).
  destruct (jbody_inv m (c_body c) st0 k s0 J0 N0) as [s1 [J1 [NF IN]]].
  assert (AR := jbody_armed m (c_body c) st0 k). rewrite A0 in AR. specialize (AR eq_refl RL).
  destruct (jbody m st0 (c_body c) k) as [st1 threw]. cbn [fst snd] in *.
  assert (SL : incl (map fst (j_mem st1)) (c_init c ++ body_slots (c_body c))).
  { intros x X. apply IN in X. apply in_app_or in X. destruct X as [X|X]; [|apply in_or_app; right; exact X].
    (* slots of st0 come from the initialiser list *)
    clear - X N0 OK st0 st00. revert X. subst st0.
    assert (G : forall init st, incl (map fst (j_mem (fold_left (jalloc m) init st))) (map fst (j_mem st) ++ init)).
    { induction init as [|y r IH]; intros st; cbn [fold_left]; [rewrite app_nil_r; apply incl_refl|].
      intros z Z. apply IH in Z. cbn [jalloc j_mem map fst] in Z. apply in_or_app. cbn [app] in Z.
      destruct Z as [<-|Z]; [right; left; reflexivity|]. apply in_app_or in Z. destruct Z as [Z|Z]; [left; exact Z|right; right; exact Z]. }
    intros X. apply G in X. cbn [st00 j_mem map app] in X. apply in_or_app. left. exact X. }
  destruct J1 as [E1 L1 _ NS1].
  apply run_ok.
  destruct AR as [[T A]|[T A]]; rewrite T, A.
  - destruct (free_slots_all m (c_cleanup c) (j_mem st1) s1 L1 NC NF NS1) as [s' [E' EM]].
    { intros x X. apply SC. apply SL. exact X. }
    exists s'. split; [|exact EM]. rewrite app_nil_r. rewrite exec_app, E1. exact E'.
  - destruct (free_slots_all m (c_dtor c) (j_mem st1) s1 L1 ND NF NS1) as [s' [E' EM]].
    { intros x X. apply SD. apply SL. exact X. }
    exists s'. split; [|exact EM]. cbn [app]. rewrite exec_app, E1. exact E'.
Qed.

(** ---- Janitor<T> / ArrayJanitor<T> as a local guard ------------------------------------------------------------ *)
Definition ljlist (st : ljst) : list N := (match lj_held st with Some a => [a] | None => [] end) ++ lj_owned st.

Record LJInv (m : N) (s : lstate) (st : ljst) : Prop := {
  gi_exec : exec lempty (lj_t st) = Some s;
  gi_live : Live m s (ljlist st);
  gi_lt : forall a, In a (ljlist st) -> a < lj_nx st;
  gi_nd : NoDup (ljlist st)
}.

Lemma ljrun_inv : forall m ops st k s, LJInv m s st -> exists s', LJInv m s' (ljrun m st ops k).
Proof.
  intros m ops. induction ops as [|op r IH]; intros st k s I.
  - exists s. exact I.
  - destruct op.
    + cbn [ljrun]. destruct k as [[|k']|]; [exists s; exact I|apply (IH _ _ s I)|apply (IH _ _ s I)].
    + cbn [ljrun]. destruct I as [E L LT ND].
      assert (NI : ~ In (lj_nx st) (ljlist st)) by (intro X; apply LT in X; lia).
      destruct (live_alloc m s _ _ L NI) as [s1 [S1 L1]].
      unfold ljlist in *. destruct (lj_held st) as [a|] eqn:H.
      * destruct (live_free m s1 _ a L1) as [s2 [S2 L2]]; [right; left; reflexivity|].
        eapply IH. constructor; unfold ljlist; cbn [lj_t lj_held lj_owned lj_nx app].
        -- rewrite exec_app, E. cbn [exec app]. rewrite S1. cbn [exec]. rewrite S2. reflexivity.
        -- eapply live_equiv; [|exact L2]. intros p. rewrite in_without. cbn [app In] in *.
           inversion ND as [|? ? NA ND']; subst. split.
           ++ intros [[X|[X|X]] D]; [left; exact X|exfalso; apply D; symmetry; exact X|right; exact X].
           ++ intros [X|X]; (split; [tauto|]); intro C; subst p; [apply NI; left; congruence|contradiction].
        -- intros p [<-|X]; [lia|]. assert (p < lj_nx st) by (apply LT; right; exact X). lia.
        -- cbn [app]. inversion ND; subst. constructor; [|assumption]. intro X. apply NI. right. exact X.
      * eapply IH. constructor; unfold ljlist; cbn [lj_t lj_held lj_owned lj_nx app].
        -- rewrite exec_app, E. cbn [exec app]. rewrite S1. reflexivity.
        -- cbn [app] in *. exact L1.
        -- intros p [<-|X]; [lia|]. assert (p < lj_nx st) by (apply LT; exact X). lia.
        -- cbn [app] in *. constructor; assumption.
    + cbn [ljrun]. destruct I as [E L LT ND]. unfold ljlist in *. destruct (lj_held st) as [a|] eqn:H; cbn [app] in *; eapply IH;
      constructor; unfold ljlist; cbn [lj_t lj_held lj_owned lj_nx app]; eassumption.
Qed.

(** every exit of a function that keeps its temporary under a Janitor (exception at any call, reset to other blocks,
    release to a later owner) leaves a trace the monitor accepts *)
Lemma janitor_local : forall m base ops k, ledger_check (ljlife m base ops k) = V_Ok.
Proof.
  intros m base ops k. unfold ljlife.
  set (st0 := {| lj_held := Some base; lj_owned := []; lj_nx := N.succ base; lj_t := [Alloc m base 1] |}).
  assert (I0 : exists s0, LJInv m s0 st0).
  { destruct (live_alloc m lempty [] base (live_init m)) as [s0 [S0 L0]]; [intros []|].
    exists s0. constructor; cbn.
    - cbn in S0. rewrite S0. reflexivity.
    - exact L0.
    - intros a [<-|[]]. lia.
    - constructor; [intros []|constructor]. }
  destruct I0 as [s0 I0]. destruct (ljrun_inv m ops st0 k s0 I0) as [s1 [E L _ ND]].
  apply run_ok.
  destruct (live_frees_all m (ljlist (ljrun m st0 ops k)) s1 _ L ND (incl_refl _) (incl_refl _)) as [s' [E' EM]].
  exists s'. split; [|exact EM]. rewrite exec_app, E.
  replace ((match lj_held (ljrun m st0 ops k) with Some a => [Free m a] | None => [] end) ++ map (Free m) (lj_owned (ljrun m st0 ops k)))
    with (map (Free m) (ljlist (ljrun m st0 ops k))); [exact E'|].
  unfold ljlist. rewrite map_app. destruct (lj_held (ljrun m st0 ops k)); reflexivity.
Qed.
