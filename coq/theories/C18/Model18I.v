(** C18 -- model of XMLPlatformUtils::Initialize / Terminate (src/xercesc/util/PlatformUtils.cpp).
    No proofs here. *)
From Coq Require Import NArith List Bool.
Import ListNotations.
Local Open Scope N_scope.

(** Initialize(locale, nlsHome, panicHandler, memoryManager) with an optional user manager, or
    Initialize(initialDOMHeapAllocSize, maxDOMHeapAllocSize, maxDOMSubAllocationSize, ...) *)
Inductive iop : Type :=
| Init (user : option N) (dom : option (N * N * N))
| Term.

(** who is the global manager: nobody, the library's own MemoryManagerImpl, or user manager m *)
Inductive gm : Type := GmNone | GmOwn | GmUser (m : N).

Inductive ievent : Type :=
| ENewOwnMgr                 (* fgMemoryManager = new MemoryManagerImpl() *)
| EDeleteMgr (who : gm)      (* delete fgMemoryManager *)
| ECreate                    (* globals + static data created, in the generated order *)
| EDestroy.                  (* static data + globals destroyed *)

Record istate : Type := {
  i_cnt : N;                 (* gInitFlag *)
  i_mgr : gm;                (* fgMemoryManager *)
  i_adopted : bool;          (* fgMemMgrAdopted *)
  i_live : bool;             (* fgTransService, mutexes, static data ... exist *)
  i_dom : N * N * N;         (* kInitialHeapAllocSize, kMaxHeapAllocSize, kMaxSubAllocationSize *)
  i_log : list ievent
}.

Definition pristine (dom0 : N * N * N) : istate :=
  {| i_cnt := 0; i_mgr := GmNone; i_adopted := true; i_live := false; i_dom := dom0; i_log := [] |}.

Definition is_none (g : gm) : bool := match g with GmNone => true | _ => false end.

(** [cap] = LONG_MAX; [rd] = [Some d] when Terminate restores the built-in DOM heap parameters [d]
    (XMLInitializer::terminateDOMHeap, fixes/C18-domheap-reset-on-terminate.patch), [None] for the code without it *)
Definition istep (rd : option (N * N * N)) (cap : N) (st : istate) (op : iop) : istate :=
  match op with
  | Init user dom =>
      if i_cnt st =? cap then st                                        (* if (gInitFlag == LONG_MAX) return; *)
      else
        let c := i_cnt st + 1 in                                        (* gInitFlag++ *)
        if 1 <? c then                                                  (* if (gInitFlag > 1) return; *)
          {| i_cnt := c; i_mgr := i_mgr st; i_adopted := i_adopted st; i_live := i_live st; i_dom := i_dom st; i_log := i_log st |}
        else
          let '(mg, ad, lg) :=
            if is_none (i_mgr st) then                                  (* if (!fgMemoryManager) *)
              match user with
              | Some m => (GmUser m, false, i_log st)                    (* fgMemoryManager = memoryManager; adopted = false *)
              | None => (GmOwn, i_adopted st, i_log st ++ [ENewOwnMgr])  (* new MemoryManagerImpl() *)
              end
            else (i_mgr st, i_adopted st, i_log st) in
          {| i_cnt := c; i_mgr := mg; i_adopted := ad; i_live := true;
             (* second overload: if (gInitFlag == 1) initializeDOMHeap(...) *)
             i_dom := match dom with Some d => d | None => i_dom st end;
             i_log := lg ++ [ECreate] |}
  | Term =>
      if i_cnt st =? 0 then st                                          (* if (gInitFlag == 0) return; *)
      else
        let c := i_cnt st - 1 in                                        (* gInitFlag-- *)
        if 0 <? c then                                                  (* if (gInitFlag > 0) return; *)
          {| i_cnt := c; i_mgr := i_mgr st; i_adopted := i_adopted st; i_live := i_live st; i_dom := i_dom st; i_log := i_log st |}
        else
          {| i_cnt := 0; i_mgr := GmNone;
             i_adopted := true;                                         (* else fgMemMgrAdopted = true *)
             i_live := false;
             i_dom := match rd with Some d => d | None => i_dom st end; (* None: NOT restored (finding C18-DOMHEAP-STICKY) *)
             i_log := i_log st ++ [EDestroy] ++ (if i_adopted st then [EDeleteMgr (i_mgr st)] else []) |}
  end.

Definition irun (rd : option (N * N * N)) (cap : N) (st : istate) (ops : list iop) : istate := fold_left (istep rd cap) ops st.

(** what gInitFlag should be after a sequence of calls *)
Definition count_after (cap : N) (c : N) (op : iop) : N :=
  match op with
  | Init _ _ => if c =? cap then c else c + 1
  | Term => N.pred c
  end.

Definition long_max : N := 9223372036854775807.
