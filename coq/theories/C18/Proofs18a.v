(** C18 -- the ledger monitor decides the discipline: [ledger_check tr = V_Ok <-> disciplined tr]. *)
From Coq Require Import NArith List FMapPositive Lia.
From XV Require Import C18.Spec18 C18.Model18.
Import ListNotations.
Local Open Scope N_scope.

Fixpoint exec (s : lstate) (tr : list event) : option lstate :=
  match tr with
  | [] => Some s
  | e :: r => match step s e with Some s1 => exec s1 r | None => None end
  end.

Fixpoint last_touch (p : N) (l : list event) : option event :=
  match l with
  | [] => None
  | e :: r => match last_touch p r with
              | Some x => Some x
              | None => if N.eqb (addr e) p then Some e else None
              end
  end.

Lemma key_inj : forall p q, key p = key q -> p = q.
Proof.
  unfold key. intros p q H.
  assert (E : N.pos (N.succ_pos p) = N.pos (N.succ_pos q)) by (rewrite H; reflexivity).
  rewrite !N.succ_pos_spec in E. lia.
Qed.

Lemma view_add_same : forall s p v, view (PositiveMap.add (key p) v s) p = Some v.
Proof. intros. unfold view. apply PositiveMap.gss. Qed.
Lemma view_add_other : forall s p q v, p <> q -> view (PositiveMap.add (key p) v s) q = view s q.
Proof. intros. unfold view. apply PositiveMap.gso. intro E. apply H. symmetry. apply key_inj. exact E. Qed.
Lemma view_rem_same : forall s p, view (PositiveMap.remove (key p) s) p = None.
Proof. intros. unfold view. apply PositiveMap.grs. Qed.
Lemma view_rem_other : forall s p q, p <> q -> view (PositiveMap.remove (key p) s) q = view s q.
Proof. intros. unfold view. apply PositiveMap.gro. intro E. apply H. symmetry. apply key_inj. exact E. Qed.

Lemma step_alloc : forall s m p n s1, step s (Alloc m p n) = Some s1 <->
  view s p = None /\ s1 = PositiveMap.add (key p) (m, n) s.
Proof.
  intros. cbn [step]. destruct (view s p) as [v|]; split.
  - discriminate.
  - intros [H _]. discriminate.
  - intros H. inversion H. auto.
  - intros [_ H]. subst. reflexivity.
Qed.

Lemma step_free : forall s m p s1, step s (Free m p) = Some s1 <->
  (exists n, view s p = Some (m, n)) /\ s1 = PositiveMap.remove (key p) s.
Proof.
  intros. cbn [step]. destruct (view s p) as [[m' n']|]; split.
  - destruct (N.eqb_spec m' m); [|discriminate]. subst. intros H. inversion H. split; [eexists; reflexivity|reflexivity].
  - intros [[n H] E]. inversion H. subst. rewrite N.eqb_refl. reflexivity.
  - discriminate.
  - intros [[n H] _]. discriminate.
Qed.

Definition effect (e : event) : option (N * N) :=
  match e with Alloc m _ n => Some (m, n) | Free _ _ => None end.

Lemma step_view : forall s e s1, step s e = Some s1 ->
  forall p, view s1 p = if N.eqb (addr e) p then effect e else view s p.
Proof.
  intros s e s1 H p. destruct e as [m q n|m q]; cbn [addr effect].
  - apply step_alloc in H. destruct H as [_ ->]. destruct (N.eqb_spec q p).
    + subst. apply view_add_same.
    + apply view_add_other. exact n0.
  - apply step_free in H. destruct H as [_ ->]. destruct (N.eqb_spec q p).
    + subst. apply view_rem_same.
    + apply view_rem_other. exact n.
Qed.

Lemma exec_view : forall tr s s', exec s tr = Some s' ->
  forall p, view s' p = match last_touch p tr with None => view s p | Some e => effect e end.
Proof.
  induction tr as [|e r IH]; intros s s' H p; cbn [exec last_touch] in *.
  - inversion H. reflexivity.
  - destruct (step s e) as [s1|] eqn:E; [|discriminate].
    rewrite (IH _ _ H p). destruct (last_touch p r); [reflexivity|].
    rewrite (step_view _ _ _ E p). destruct (N.eqb (addr e) p); reflexivity.
Qed.

Lemma exec_app : forall a b s, exec s (a ++ b) = match exec s a with Some s1 => exec s1 b | None => None end.
Proof.
  induction a as [|e a IH]; intros b s; cbn [exec app]; [reflexivity|].
  destruct (step s e); [apply IH|reflexivity].
Qed.

Lemma last_touch_none : forall p l, last_touch p l = None <-> untouched p l.
Proof.
  unfold untouched. induction l as [|e r IH]; cbn [last_touch]; split; intros H.
  - constructor.
  - reflexivity.
  - destruct (last_touch p r); [discriminate|]. destruct (N.eqb_spec (addr e) p); [discriminate|].
    constructor; [assumption|]. apply IH. reflexivity.
  - inversion H; subst. apply IH in H3. rewrite H3. destruct (N.eqb_spec (addr e) p); [contradiction|reflexivity].
Qed.

Lemma last_touch_some : forall p l e, last_touch p l = Some e <->
  exists a b, l = a ++ e :: b /\ addr e = p /\ untouched p b.
Proof.
  induction l as [|x r IH]; intros e; cbn [last_touch]; split.
  - discriminate.
  - intros [a [b [H _]]]. destruct a; discriminate.
  - destruct (last_touch p r) as [y|] eqn:E.
    + intros H. inversion H; subst. destruct (proj1 (IH e) eq_refl) as [a [b [H1 [H2 H3]]]].
      exists (x :: a), b. subst r. auto.
    + destruct (N.eqb_spec (addr x) p); [|discriminate]. intros H. inversion H; subst.
      exists [], r. split; [reflexivity|]. split; [reflexivity|]. apply last_touch_none. exact E.
  - intros [a [b [H1 [H2 H3]]]]. destruct a as [|y a]; cbn [app] in H1; inversion H1; subst.
    + apply last_touch_none in H3. rewrite H3. rewrite N.eqb_refl. reflexivity.
    + assert (L : last_touch (addr e) (a ++ e :: b) = Some e) by (apply IH; exists a, b; auto).
      rewrite L. reflexivity.
Qed.

Lemma untouched_app : forall p a b, untouched p (a ++ b) <-> untouched p a /\ untouched p b.
Proof. intros. unfold untouched. apply Forall_app. Qed.

(** the first event on [p] in a list is unique *)
Lemma first_touch_unique : forall p a1 x b1 a2 y b2,
  a1 ++ x :: b1 = a2 ++ y :: b2 -> untouched p a1 -> untouched p a2 -> addr x = p -> addr y = p -> x = y.
Proof.
  induction a1 as [|e a1 IH]; intros x b1 a2 y b2 H U1 U2 Hx Hy.
  - destruct a2 as [|e2 a2]; cbn [app] in H; inversion H; subst; [reflexivity|].
    inversion U2; subst. contradiction.
  - destruct a2 as [|e2 a2]; cbn [app] in H; inversion H; subst.
    + inversion U1; subst. contradiction.
    + inversion U1; inversion U2; subst. eapply IH; eauto.
Qed.

Lemma classify_not_ok : forall s seen i e, classify s seen i e <> V_Ok.
Proof.
  intros. destruct e; cbn [classify]; [discriminate|].
  destruct (view s p); [discriminate|]. destruct (existsb _ seen); discriminate.
Qed.

Lemma run_ok : forall tr s seen i, run s seen i tr = V_Ok <->
  exists s', exec s tr = Some s' /\ PositiveMap.is_empty s' = true.
Proof.
  induction tr as [|e r IH]; intros s seen i; cbn [run exec].
  - split.
    + destruct (PositiveMap.is_empty s) eqn:E; [|discriminate]. intros _. exists s. auto.
    + intros [s' [H E]]. inversion H; subst. rewrite E. reflexivity.
  - destruct (step s e) as [s1|]; [apply IH|]. split.
    + intros H. exfalso. exact (classify_not_ok _ _ _ _ H).
    + intros [s' [H _]]. discriminate.
Qed.

Lemma view_empty : forall p, view lempty p = None.
Proof. intros. unfold view, lempty. apply PositiveMap.gempty. Qed.

Lemma is_empty_view : forall s, PositiveMap.is_empty s = true <-> forall p, view s p = None.
Proof.
  intros s. split.
  - intros H p. apply PositiveMap.is_empty_2 in H. unfold view.
    destruct (PositiveMap.find (key p) s) as [v|] eqn:E; [|reflexivity].
    exfalso. exact (H (key p) v E).
  - intros H. apply PositiveMap.is_empty_1. intros k v M. unfold PositiveMap.MapsTo in M.
    specialize (H (Pos.pred_N k)). unfold view, key in H.
    assert (K : N.succ_pos (Pos.pred_N k) = k).
    { assert (E : N.pos (N.succ_pos (Pos.pred_N k)) = N.pos k) by (rewrite N.succ_pos_spec; apply N.succ_pos_pred).
      injection E as E. exact E. }
    rewrite K in H. congruence.
Qed.

(** a live block stays live until the first event on its address, which must be its own Free *)
Lemma live_until_freed : forall post s s' p m n, exec s post = Some s' -> view s p = Some (m, n) ->
  view s' p = None -> exists mid post', post = mid ++ Free m p :: post' /\ untouched p mid.
Proof.
  induction post as [|e r IH]; intros s s' p m n H L E; cbn [exec] in H.
  - inversion H; subst. congruence.
  - destruct (step s e) as [s1|] eqn:S; [|discriminate].
    destruct (N.eqb_spec (addr e) p) as [A|A].
    + destruct e as [m' q n'|m' q]; cbn [addr] in A; subst q.
      * apply step_alloc in S. destruct S as [S _]. congruence.
      * apply step_free in S. destruct S as [[n' S] _]. rewrite L in S. inversion S; subst.
        exists [], r. split; [reflexivity|constructor].
    + assert (L1 : view s1 p = Some (m, n)).
      { rewrite (step_view _ _ _ S p). destruct (N.eqb_spec (addr e) p); [contradiction|exact L]. }
      destruct (IH _ _ _ _ _ H L1 E) as [mid [post' [H1 H2]]].
      exists (e :: mid), post'. subst r. split; [reflexivity|]. constructor; assumption.
Qed.

Lemma view_after_empty : forall pre s p m n, exec lempty pre = Some s -> view s p = Some (m, n) ->
  exists a b, pre = a ++ Alloc m p n :: b /\ untouched p b.
Proof.
  intros pre s p m n H V. rewrite (exec_view _ _ _ H p) in V.
  destruct (last_touch p pre) as [e|] eqn:L.
  - apply last_touch_some in L. destruct L as [a [b [H1 [H2 H3]]]].
    destruct e as [m' q n'|m' q]; cbn [effect addr] in *; [|discriminate].
    inversion V; subst. exists a, b. auto.
  - rewrite view_empty in V. discriminate.
Qed.

Lemma ledger_sound : forall tr, ledger_check tr = V_Ok -> disciplined tr.
Proof.
  intros tr H. unfold ledger_check in H. apply run_ok in H. destruct H as [s' [H E]].
  rewrite is_empty_view in E. split.
  - intros pre m p post ->. rewrite exec_app in H.
    destruct (exec lempty pre) as [s1|] eqn:E1; [|discriminate]. cbn [exec] in H.
    destruct (step s1 (Free m p)) as [s2|] eqn:S; [|discriminate].
    apply step_free in S. destruct S as [[n S] _].
    destruct (view_after_empty _ _ _ _ _ E1 S) as [a [b [H1 H2]]]. exists a, n, b. auto.
  - intros pre m p n post ->. rewrite exec_app in H.
    destruct (exec lempty pre) as [s1|] eqn:E1; [|discriminate]. cbn [exec] in H.
    destruct (step s1 (Alloc m p n)) as [s2|] eqn:S; [|discriminate].
    assert (L : view s2 p = Some (m, n)).
    { rewrite (step_view _ _ _ S p). cbn [addr effect]. rewrite N.eqb_refl. reflexivity. }
    exact (live_until_freed _ _ _ _ _ _ H L (E p)).
Qed.

Lemma disciplined_exec_prefix : forall tr, disciplined tr ->
  forall pre post, tr = pre ++ post -> exists s, exec lempty pre = Some s.
Proof.
  intros tr [FO AO] pre. induction pre as [|e pre IH] using rev_ind; intros post E.
  - exists lempty. reflexivity.
  - rewrite <- app_assoc in E. cbn [app] in E. destruct (IH _ E) as [s0 H0].
    rewrite exec_app, H0. cbn [exec].
    destruct e as [m p n|m p].
    + destruct (view s0 p) as [[m' n']|] eqn:V.
      * exfalso. destruct (view_after_empty _ _ _ _ _ H0 V) as [a [b [H1 H2]]].
        subst pre. rewrite <- app_assoc in E. cbn [app] in E.
        destruct (AO _ _ _ _ _ E) as [mid [post' [H3 H4]]].
        assert (X : Alloc m p n = Free m' p).
        { eapply (first_touch_unique p b _ _ mid _ _ H3 H2 H4); reflexivity. }
        discriminate.
      * assert (S : step s0 (Alloc m p n) = Some (PositiveMap.add (key p) (m, n) s0))
          by (apply step_alloc; split; [exact V|reflexivity]).
        rewrite S. eexists. reflexivity.
    + destruct (FO _ _ _ _ E) as [pre1 [n [mid [H1 H2]]]].
      assert (V : view s0 p = Some (m, n)).
      { rewrite (exec_view _ _ _ H0 p).
        assert (L : last_touch p pre = Some (Alloc m p n)) by (apply last_touch_some; exists pre1, mid; auto).
        rewrite L. reflexivity. }
      assert (S : step s0 (Free m p) = Some (PositiveMap.remove (key p) s0))
        by (apply step_free; split; [exists n; exact V|reflexivity]).
      rewrite S. eexists. reflexivity.
Qed.

Lemma ledger_complete : forall tr, disciplined tr -> ledger_check tr = V_Ok.
Proof.
  intros tr D. unfold ledger_check. apply run_ok.
  destruct (disciplined_exec_prefix tr D tr [] (eq_sym (app_nil_r tr))) as [s H].
  exists s. split; [exact H|]. apply is_empty_view. intros p.
  destruct (view s p) as [[m n]|] eqn:V; [|reflexivity]. exfalso.
  destruct (view_after_empty _ _ _ _ _ H V) as [a [b [H1 H2]]].
  destruct D as [_ AO]. destruct (AO _ _ _ _ _ H1) as [mid [post' [H3 H4]]].
  subst b. apply untouched_app in H2. destruct H2 as [_ H2]. inversion H2; subst. apply H5. reflexivity.
Qed.

Lemma ledger_sound_complete : forall tr, ledger_check tr = V_Ok <-> disciplined tr.
Proof. intros. split; [apply ledger_sound|apply ledger_complete]. Qed.
