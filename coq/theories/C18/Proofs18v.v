(** C18 -- an adopting RefVectorOf deletes every element it was given exactly once or hands it back exactly once. *)
From Coq Require Import NArith List Bool Permutation Lia.
From XV Require Import C18.Model18V.
Import ListNotations.
Local Open Scope N_scope.

Definition vall (st : vst) : list N := v_el st ++ v_del st ++ v_out st.

Lemma nth_split_perm : forall (l : list N) i x, nth_error l i = Some x ->
  Permutation l (x :: firstn i l ++ skipn (S i) l).
Proof.
  induction l as [|y r IH]; intros i x H; destruct i as [|i]; cbn in H; try discriminate.
  - inversion H; subst. cbn. apply Permutation_refl.
  - cbn [firstn skipn app]. eapply Permutation_trans; [apply perm_skip; apply (IH i x H)|]. apply perm_swap.
Qed.

Lemma firstn_skipn_perm : forall (l : list N) i e, Permutation (e :: l) (firstn i l ++ e :: skipn i l).
Proof.
  intros. rewrite <- (firstn_skipn i l) at 1. apply Permutation_middle.
Qed.

Lemma ensure1_all : forall st, v_el (ensure1 st) = v_el st /\ v_del (ensure1 st) = v_del st /\ v_out (ensure1 st) = v_out st.
Proof.
  intros st. unfold ensure1. destruct (_ <=? _); [auto|]. cbn. auto.
Qed.

(** permutation goals are decided by counting occurrences *)
Ltac cnt_norm H := repeat rewrite count_occ_app in H; cbn [count_occ] in H; repeat rewrite count_occ_app in H.
Ltac permc :=
  let z := fresh "z" in
  apply (Permutation_count_occ N.eq_dec); intro z;
  repeat match goal with
  | P : Permutation _ _ |- _ => let Pz := fresh "Pz" in
      pose proof (proj1 (Permutation_count_occ N.eq_dec _ _) P z) as Pz; clear P; cnt_norm Pz; revert Pz
  | F : forall y : N, count_occ N.eq_dec _ y = _ |- _ => let Fz := fresh "Fz" in pose proof (F z) as Fz; clear F; revert Fz
  end;
  repeat rewrite count_occ_app; cbn [count_occ]; repeat rewrite count_occ_app;
  repeat match goal with |- context [N.eq_dec ?a z] => destruct (N.eq_dec a z) end;
  intros; lia.

(** one step: the multiset (in container + deleted + handed back) grows by exactly the element handed in *)
Lemma vstep_perm : forall adopt st op,
  Permutation (vall (vstep adopt st op)) (vadded [op] ++ vall st).
Proof.
  intros adopt st op. unfold vall.
  destruct (ensure1_all st) as [E1 [E2 E3]].
  destruct op as [e|e i|e i|i|i| |]; cbn [vadded flat_map app vstep].
  - cbn [with_el v_el v_del v_out]. rewrite E1, E2, E3. permc.
  - destruct (nth_error (v_el st) i) as [old|] eqn:H.
    + pose proof (nth_split_perm _ _ _ H) as P. clear H.
      destruct adopt; cbn [drop v_el v_del v_out]; permc.
    + cbn [reject v_el v_del v_out]. permc.
  - destruct (Nat.eqb i (length (v_el st))).
    + cbn [with_el v_el v_del v_out]. rewrite E1, E2, E3. permc.
    + destruct (Nat.ltb (length (v_el st)) i).
      * cbn [reject v_el v_del v_out]. permc.
      * cbn [with_el v_el v_del v_out]. rewrite E1, E2, E3.
        assert (F : forall z, count_occ N.eq_dec (v_el st) z = (count_occ N.eq_dec (firstn i (v_el st)) z + count_occ N.eq_dec (skipn i (v_el st)) z)%nat)
          by (intro z; rewrite <- count_occ_app, firstn_skipn; reflexivity).
        permc.
  - destruct (nth_error (v_el st) i) as [x|] eqn:H; [|apply Permutation_refl].
    pose proof (nth_split_perm _ _ _ H) as P. clear H. cbn [v_el v_del v_out]. permc.
  - destruct (nth_error (v_el st) i) as [x|] eqn:H; [|apply Permutation_refl].
    pose proof (nth_split_perm _ _ _ H) as P. clear H.
    destruct adopt; cbn [drop v_el v_del v_out]; permc.
  - destruct (length (v_el st)) as [|k] eqn:LEN; [apply Permutation_refl|].
    destruct (nth_error (v_el st) k) as [x|] eqn:H; [|apply Permutation_refl].
    pose proof (nth_split_perm _ _ _ H) as P. clear H.
    assert (SK : skipn (S k) (v_el st) = []) by (apply skipn_all2; lia).
    rewrite SK, app_nil_r in P.
    destruct adopt; cbn [drop v_el v_del v_out]; permc.
  - destruct adopt; cbn [drop v_el v_del v_out]; permc.
Qed.

Lemma vadded_app : forall a b, vadded (a ++ b) = vadded a ++ vadded b.
Proof. intros. unfold vadded. apply flat_map_app. Qed.

Lemma vrun_perm : forall adopt ops st, Permutation (vall (vrun adopt st ops)) (vadded ops ++ vall st).
Proof.
  intros adopt ops. induction ops as [|op r IH]; intros st; [apply Permutation_refl|].
  unfold vrun in *. cbn [fold_left]. eapply Permutation_trans; [apply IH|].
  change (op :: r) with ([op] ++ r). rewrite vadded_app.
  eapply Permutation_trans; [apply Permutation_app_head; apply vstep_perm|].
  rewrite !app_assoc. apply Permutation_app_tail. apply Permutation_app_comm.
Qed.

Lemma vdestroy_perm : forall adopt st, Permutation (vall (vdestroy adopt st)) (vall st).
Proof.
  intros adopt st. unfold vdestroy. pose proof (vstep_perm adopt st VRemoveAll) as P. exact P.
Qed.

Lemma vstep_nodel : forall st op, v_del (vstep false st op) = v_del st.
Proof.
  intros st op. destruct (ensure1_all st) as [E1 [E2 E3]].
  destruct op as [e|e i|e i|i|i| |]; cbn [vstep].
  - cbn. exact E2.
  - destruct (nth_error _ _); reflexivity.
  - destruct (Nat.eqb _ _); [cbn; exact E2|]. destruct (Nat.ltb _ _); [reflexivity|cbn; exact E2].
  - destruct (nth_error _ _); reflexivity.
  - destruct (nth_error _ _); reflexivity.
  - destruct (length _); [reflexivity|]. destruct (nth_error _ _); reflexivity.
  - reflexivity.
Qed.

(** MAIN (adopting or not): over every operation history and the destructor, when the client hands in distinct objects:
    what the container deleted and what is the client's again are disjoint, without repetition, and together exactly the
    objects handed in; nothing stays in the destroyed container.  So an adopting vector deletes each object it still holds
    exactly once and never one it handed back. *)
Lemma vector_accounting : forall adopt maxElems ops, NoDup (vadded ops) ->
  let st := vdestroy adopt (vrun adopt (vinit maxElems) ops) in
  v_el st = [] /\ NoDup (v_del st ++ v_out st) /\ Permutation (v_del st ++ v_out st) (vadded ops).
Proof.
  intros adopt maxElems ops ND st.
  assert (P : Permutation (vall st) (vadded ops)).
  { unfold st. eapply Permutation_trans; [apply vdestroy_perm|]. eapply Permutation_trans; [apply vrun_perm|].
    unfold vall, vinit. cbn. rewrite app_nil_r. apply Permutation_refl. }
  assert (E : v_el st = []) by (unfold st, vdestroy; destruct adopt; reflexivity).
  unfold vall in P. rewrite E in P. cbn [app] in P.
  split; [exact E|]. split; [|exact P]. eapply Permutation_NoDup; [apply Permutation_sym; exact P|exact ND].
Qed.

(** a vector that does not adopt never deletes an element *)
Lemma vector_no_adopt : forall maxElems ops, v_del (vdestroy false (vrun false (vinit maxElems) ops)) = [].
Proof.
  intros maxElems ops. unfold vdestroy. cbn [drop v_del].
  assert (G : forall ops st, v_del (vrun false st ops) = v_del st).
  { induction ops0 as [|op r IH]; intros st; [reflexivity|]. unfold vrun in *. cbn [fold_left]. rewrite IH. apply vstep_nodel. }
  rewrite G. reflexivity.
Qed.
