(** C18 -- DOM arena (DOMDocumentImpl::allocate): regions inside owned blocks, pairwise disjoint; deleteHeap frees
    exactly the blocks that were requested.  [fx = false] is the code as it is (needs the configuration hypothesis),
    [fx = true] the repaired allocate (no hypothesis on the configuration). *)
From Coq Require Import NArith List Bool Lia Permutation.
From Coq Require Import ZArith ZifyBool ZifyN ZifyNat.
From XV Require Import C18.Spec18 C18.Model18X C18.Model18A C18.Proofs18b.
Import ListNotations.
Local Open Scope N_scope.
Ltac Zify.zify_post_hook ::= Z.div_mod_to_equations.

Definition rdisj (r q : N * N) : Prop := snd r = 0 \/ snd q = 0 \/ fst r + snd r <= fst q \/ fst q + snd q <= fst r.
Definition bdisj (a b : N * N) : Prop := fst a + snd a <= fst b \/ fst b + snd b <= fst a.
Definition within (hdr : N) (r blk : N * N) : Prop := fst blk + hdr <= fst r /\ fst r + snd r <= fst blk + snd blk.
Fixpoint pdisj (l : list (N * N)) : Prop :=
  match l with [] => True | r :: t => Forall (rdisj r) t /\ pdisj t end.

Definition BIG : N := 4611686018427387904.   (* 2^62 *)

(** configuration hypothesis for the unrepaired code *)
Definition cfg_ok (c : acfg) : Prop := a_sub c + a_hdr c <= a_init c /\ a_max c <= 2 * BIG.
(** what both variants need: sizes are size_t values, a sane header/alignment *)
Definition cfg_base (c : acfg) : Prop :=
  0 < a_al c /\ a_al c <= BIG /\ 0 < a_hdr c /\ a_hdr c <= BIG /\ a_sub c <= BIG /\ a_init c < W.

(** the size the next allocate(amount0) requests from the manager, if any *)
Definition next_request (fx : bool) (c : acfg) (st : astate) (amount0 : N) : option N :=
  let amount := align_up (a_al c) amount0 in
  if a_sub c <? amount then Some ((a_hdr c + amount) mod W)
  else if s_fr st <? amount then
    Some (if fx && (s_heap st <? a_hdr c + amount) then a_hdr c + amount else s_heap st)
  else None.

(** obligations of the environment: the client asks for less than 2^62 bytes, the manager returns a block that does
    not overlap a block the document owns; setMemoryAllocationBlockSize stays out of (maxSub, maxSub+header) *)
Definition aop_ok (fx : bool) (c : acfg) (st : astate) (op : aop) : Prop :=
  match op with
  | AAlloc amount0 base =>
      amount0 <= BIG /\
      forall sz, next_request fx c st amount0 = Some sz -> forall blk, In blk (delete_heap st) -> bdisj (base, sz) blk
  | ASetBlock size => size < W /\ (fx = true \/ size <= a_sub c \/ a_sub c + a_hdr c <= size)
  end.

Fixpoint avalid (fx : bool) (c : acfg) (st : astate) (ops : list aop) : Prop :=
  match ops with
  | [] => True
  | op :: r => aop_ok fx c st op /\ avalid fx c (astep fx c st op) r
  end.

Record AInv (fx : bool) (c : acfg) (st : astate) : Prop := {
  ai_heap : s_heap st < W /\ (fx = true \/ a_sub c + a_hdr c <= s_heap st);
  ai_cur : match s_curs st with
           | [] => s_fr st = 0 /\ s_fp st = 0
           | blk :: _ => fst blk + a_hdr c <= s_fp st /\ s_fp st + s_fr st = fst blk + snd blk
           end;
  ai_reg : forall r, In r (s_regions st) -> snd r = 0 \/
             ((exists blk, In blk (delete_heap st) /\ within (a_hdr c) r blk) /\
              (fst r + snd r <= s_fp st \/ s_fp st + s_fr st <= fst r));
  ai_disj : pdisj (s_regions st);
  ai_perm : Permutation (s_reqs st) (delete_heap st)
}.

Lemma W_val : W = 4 * BIG.
Proof. reflexivity. Qed.

Lemma wsub_ok : forall a b, b <= a -> a < W -> wsub a b = a - b.
Proof.
  intros a b H1 H2. unfold wsub. assert (WP : W <> 0) by discriminate.
  rewrite (N.mod_small b W) by lia.
  replace (a + W - b) with ((a - b) + 1 * W) by lia.
  rewrite N.mod_add by exact WP. apply N.mod_small. lia.
Qed.

Lemma align_up_le : forall a x, 0 < a -> align_up a x <= x + a.
Proof.
  intros a x Ha. unfold align_up. destruct (N.eqb_spec (x mod a) 0); lia.
Qed.

Lemma in_link_single : forall b l x, In x (link_single b l) <-> x = b \/ In x l.
Proof.
  intros b l x. destruct l as [|h t]; cbn; intuition.
Qed.

Lemma perm_link_single : forall b l, Permutation (b :: l) (link_single b l).
Proof. intros b l. destruct l as [|h t]; cbn; [apply Permutation_refl|apply perm_swap]. Qed.

Lemma ainv_init : forall fx c, cfg_base c -> cfg_ok c \/ fx = true -> AInv fx c (ainit c).
Proof.
  intros fx c [_ [_ [_ [_ [_ IW]]]]] H. constructor; cbn.
  - split; [exact IW|]. destruct H as [[A B]|H]; [right; lia|left; exact H].
  - split; reflexivity.
  - intros r [].
  - exact I.
  - apply Permutation_refl.
Qed.

Lemma within_bdisj_rdisj : forall h r blk q blk', within h r blk -> within h q blk' -> bdisj blk blk' -> rdisj r q.
Proof. intros h [r1 r2] [b1 b2] [q1 q2] [c1 c2] [A B] [C D] E. unfold rdisj, bdisj in *. cbn in *. lia. Qed.

Lemma ainv_step : forall fx c st op, cfg_base c -> (fx = true \/ a_max c <= 2 * BIG) ->
  AInv fx c st -> aop_ok fx c st op -> AInv fx c (astep fx c st op).
Proof.
  intros fx c st op [Hal [Hal2 [Hh [Hh2 [Hs2 _]]]]] HM [[HW HH] HC HR HD HP] OK.
  pose proof W_val as EW. assert (GB : 0 < BIG) by reflexivity.
  destruct op as [amount0 base|size]; unfold astep.
  - (* allocate *)
    destruct OK as [AB FRESH]. unfold next_request in FRESH.
    set (amount := align_up (a_al c) amount0) in *.
    assert (A1 : amount <= amount0 + a_al c) by (apply align_up_le; exact Hal).
    destruct (N.ltb_spec (a_sub c) amount) as [BIGREQ|SMALL].
    + (* singleton block *)
      assert (SZ : (a_hdr c + amount) mod W = a_hdr c + amount).
      { apply N.mod_small. remember W as w. remember BIG as g. clear Heqw Heqg. lia. }
      rewrite SZ in *. specialize (FRESH _ eq_refl).
      assert (NEWIN : within (a_hdr c) (base + a_hdr c, amount) (base, a_hdr c + amount)) by (unfold within; cbn; lia).
      constructor; cbn [s_curs s_singles s_fp s_fr s_heap s_reqs s_regions].
      * split; assumption.
      * exact HC.
      * intros r [E|I].
        -- subst r. cbn [fst snd]. right. split.
           ++ exists (base, a_hdr c + amount). split; [|exact NEWIN].
              unfold delete_heap. cbn [s_curs s_singles]. apply in_or_app. right. apply in_link_single. left. reflexivity.
           ++ destruct (s_curs st) as [|blk t] eqn:CU.
              ** destruct HC as [C1 C2]. right. lia.
              ** destruct HC as [C1 C2].
                 assert (BD : bdisj (base, a_hdr c + amount) blk).
                 { apply FRESH. unfold delete_heap. rewrite CU. left. reflexivity. }
                 unfold bdisj in BD. cbn [fst snd] in BD. lia.
        -- destruct (HR r I) as [Z|[[blk [IB WI]] FA]]; [left; exact Z|right]. split; [|exact FA].
           exists blk. split; [|exact WI]. unfold delete_heap in *. cbn [s_curs s_singles].
           apply in_app_or in IB. apply in_or_app. destruct IB as [IB|IB]; [left; exact IB|right; apply in_link_single; right; exact IB].
      * cbn [pdisj]. split; [|exact HD]. apply Forall_forall. intros q Iq.
        destruct (HR q Iq) as [Z|[[blk [IB WI]] _]]; [unfold rdisj; right; left; exact Z|].
        eapply within_bdisj_rdisj; [exact NEWIN|exact WI|]. apply FRESH. exact IB.
      * unfold delete_heap in *. cbn [s_curs s_singles].
        apply Permutation_trans with ((base, a_hdr c + amount) :: s_reqs st).
        -- apply Permutation_sym. apply Permutation_cons_append.
        -- apply Permutation_trans with ((base, a_hdr c + amount) :: (s_curs st ++ s_singles st)).
           ++ apply perm_skip. exact HP.
           ++ apply Permutation_trans with (s_curs st ++ (base, a_hdr c + amount) :: s_singles st).
              ** apply Permutation_middle.
              ** apply Permutation_app_head. apply perm_link_single.
    + destruct (N.ltb_spec (s_fr st) amount) as [SHORT|FITS].
      * (* fresh sub-allocation block *)
        set (bsz := if fx && (s_heap st <? a_hdr c + amount) then a_hdr c + amount else s_heap st) in *.
        specialize (FRESH _ eq_refl).
        assert (BS : a_hdr c + amount <= bsz /\ bsz < W).
        { unfold bsz. destruct fx; cbn [andb].
          - destruct (N.ltb_spec (s_heap st) (a_hdr c + amount)); [|lia].
            remember W as w. remember BIG as g. clear Heqw Heqg. lia.
          - destruct HH as [F|H1]; [discriminate|]. lia. }
        destruct BS as [BS1 BS2].
        assert (F1 : wsub bsz (a_hdr c) = bsz - a_hdr c) by (apply wsub_ok; lia).
        assert (F2 : wsub (bsz - a_hdr c) amount = bsz - a_hdr c - amount) by (apply wsub_ok; lia).
        rewrite F1, F2.
        assert (NEWIN : within (a_hdr c) (base + a_hdr c, amount) (base, bsz)) by (unfold within; cbn; lia).
        constructor; cbn [s_curs s_singles s_fp s_fr s_heap s_reqs s_regions].
        -- destruct (N.ltb_spec (s_heap st) (a_max c)) as [LT|GE]; [|split; assumption].
           split; [apply N.mod_lt; remember BIG as g; clear Heqg; lia|].
           destruct HH as [F|H1]; [left; exact F|].
           destruct HM as [F|HM]; [left; exact F|right].
           rewrite N.mod_small; [lia|]. remember W as w. remember BIG as g. clear Heqw Heqg. lia.
        -- cbn [fst snd]. lia.
        -- intros r [E|I].
           ++ subst r. cbn [fst snd]. right. split; [|left; lia].
              exists (base, bsz). split; [|exact NEWIN]. unfold delete_heap. cbn [s_curs]. left. reflexivity.
           ++ destruct (HR r I) as [Z|[[blk [IB WI]] FA]]; [left; exact Z|right]. split.
              ** exists blk. split; [|exact WI]. unfold delete_heap in *. cbn [s_curs]. right. exact IB.
              ** specialize (FRESH blk IB). unfold bdisj, within in *. cbn [fst snd] in *. lia.
        -- cbn [pdisj]. split; [|exact HD]. apply Forall_forall. intros q Iq.
           destruct (HR q Iq) as [Z|[[blk [IB WI]] _]]; [unfold rdisj; right; left; exact Z|].
           eapply within_bdisj_rdisj; [exact NEWIN|exact WI|]. apply FRESH. exact IB.
        -- unfold delete_heap in *. cbn [s_curs s_singles]. cbn [app].
           apply Permutation_trans with ((base, bsz) :: s_reqs st).
           ++ apply Permutation_sym. apply Permutation_cons_append.
           ++ apply perm_skip. exact HP.
      * (* bump allocation from the current block *)
        constructor; cbn [s_curs s_singles s_fp s_fr s_heap s_reqs s_regions].
        -- split; assumption.
        -- destruct (s_curs st) as [|blk t]; [lia|]. lia.
        -- intros r [E|I].
           ++ subst r. cbn [fst snd]. destruct (N.eq_dec amount 0) as [Z|NZ]; [left; exact Z|right].
              destruct (s_curs st) as [|blk t] eqn:CU; [lia|]. destruct HC as [C1 C2]. split; [|left; lia].
              exists blk. split; [unfold delete_heap; cbn [s_curs]; try rewrite CU; left; reflexivity|]. unfold within. cbn [fst snd]. lia.
           ++ destruct (HR r I) as [Z|[EX FA]]; [left; exact Z|right]. split; [exact EX|]. lia.
        -- cbn [pdisj]. split; [|exact HD]. apply Forall_forall. intros q Iq. unfold rdisj. cbn [fst snd].
           destruct (HR q Iq) as [Z|[_ FA]]; [right; left; exact Z|]. lia.
        -- exact HP.
  - (* setMemoryAllocationBlockSize *)
    destruct OK as [SW SOK]. destruct (N.ltb_spec (a_sub c) size) as [GT|LE].
    + constructor; cbn [s_curs s_singles s_fp s_fr s_heap s_reqs s_regions]; try assumption.
      split; [exact SW|]. destruct SOK as [F|[L|G]]; [left; exact F|lia|right; exact G].
    + constructor; try assumption. split; assumption.
Qed.

Lemma ainv_run : forall fx c ops st, cfg_base c -> (fx = true \/ a_max c <= 2 * BIG) ->
  AInv fx c st -> avalid fx c st ops -> AInv fx c (arun fx c st ops).
Proof.
  intros fx c ops. induction ops as [|op r IH]; intros st B M I V; cbn [arun fold_left]; [exact I|].
  destruct V as [V1 V2]. apply IH; auto. apply ainv_step; auto.
Qed.

Lemma arena_main : forall fx c ops, cfg_base c -> cfg_ok c \/ fx = true -> avalid fx c (ainit c) ops ->
  let st := arun fx c (ainit c) ops in
  (forall r, In r (s_regions st) -> snd r = 0 \/ exists blk, In blk (delete_heap st) /\ within (a_hdr c) r blk) /\
  pdisj (s_regions st) /\
  Permutation (s_reqs st) (delete_heap st).
Proof.
  intros fx c ops B H V st.
  assert (M : fx = true \/ a_max c <= 2 * BIG) by (destruct H as [[_ H]|H]; [right; exact H|left; exact H]).
  destruct (ainv_run fx c ops (ainit c) B M (ainv_init fx c B H) V) as [_ _ HR HD HP]. fold st in HR, HD, HP.
  split; [|split; assumption].
  intros r I. destruct (HR r I) as [Z|[EX _]]; [left; exact Z|right; exact EX].
Qed.

(** alignment of what is handed out *)
Lemma region_len_aligned : forall c, 0 < a_al c -> forall x, (align_up (a_al c) x) mod (a_al c) = 0.
Proof. intros c H x. apply align_up_mod. exact H. Qed.

(** a computable check of the environment obligations, used for the non-vacuity examples *)
Definition bdisjb (a b : N * N) : bool := (fst a + snd a <=? fst b) || (fst b + snd b <=? fst a).
Definition aop_okb (fx : bool) (c : acfg) (st : astate) (op : aop) : bool :=
  match op with
  | AAlloc amount0 base =>
      (amount0 <=? BIG) &&
      match next_request fx c st amount0 with
      | None => true
      | Some sz => forallb (bdisjb (base, sz)) (delete_heap st)
      end
  | ASetBlock size => (size <? W) && (fx || (size <=? a_sub c) || (a_sub c + a_hdr c <=? size))
  end.
Fixpoint avalidb (fx : bool) (c : acfg) (st : astate) (ops : list aop) : bool :=
  match ops with
  | [] => true
  | op :: r => aop_okb fx c st op && avalidb fx c (astep fx c st op) r
  end.

Lemma aop_okb_sound : forall fx c st op, aop_okb fx c st op = true -> aop_ok fx c st op.
Proof.
  intros fx c st op H. destruct op as [amount0 base|size]; cbn [aop_okb aop_ok] in *.
  - apply andb_true_iff in H. destruct H as [H1 H2]. split; [apply N.leb_le; exact H1|].
    intros sz E blk I. rewrite E in H2. rewrite forallb_forall in H2. specialize (H2 blk I).
    unfold bdisjb in H2. unfold bdisj. apply orb_true_iff in H2. destruct H2 as [H2|H2]; apply N.leb_le in H2; auto.
  - apply andb_true_iff in H. destruct H as [H1 H2]. split; [apply N.ltb_lt; exact H1|].
    apply orb_true_iff in H2. destruct H2 as [H2|H2].
    + apply orb_true_iff in H2. destruct H2 as [H2|H2]; [left; exact H2|right; left; apply N.leb_le; exact H2].
    + right. right. apply N.leb_le. exact H2.
Qed.

Lemma avalidb_sound : forall fx c ops st, avalidb fx c st ops = true -> avalid fx c st ops.
Proof.
  intros fx c ops. induction ops as [|op r IH]; intros st H; cbn [avalidb avalid] in *; [exact I|].
  apply andb_true_iff in H. destruct H as [H1 H2]. split; [apply aop_okb_sound; exact H1|apply IH; exact H2].
Qed.
