(** Extraction of the executable C18 models to OCaml (ExtrOcamlBasic only). *)
From Coq Require Import Extraction ExtrOcamlBasic.
From XV Require Import C18.Spec18 C18.Model18 C18.Model18X C18.Model18A C18.Model18I C18.Model18M C18.Model18J C18.Model18V Gen.GenC18Janitor.
Extraction Language OCaml.
Extraction "../ocaml/C18/gen_c18.ml" ledger_check restrict alloc_sizes trace_len
  xcfg64 header xinit xstep xrun
  ainit astep areports arena_trace
  pristine istep irun long_max mpristine mstep
  guard_sites ctor_ok jlife ljlife vinit vrun vdestroy.
