(** C18 -- single-owner invariant of grammars over scanReset + the re-keying step ("[dtd]" -> system id), for every sequence of
    parses (caching on/off, ending before the DOCTYPE or not), pool lock/unlock between parses and resolver resets. *)
From Coq Require Import NArith List Bool Lia Permutation.
From XV Require Import C18.Model18G.
Import ListNotations.
Local Open Scope N_scope.

Ltac perm_solve :=
  apply (Permutation_count_occ N.eq_dec); intro; cbn [map snd fst app];
  repeat (progress (rewrite ?count_occ_app; cbn [count_occ map snd fst app]));
  repeat match goal with |- context [N.eq_dec ?a ?b] => destruct (N.eq_dec a b) end; lia.

Ltac fin :=
  rewrite ?N.eqb_refl; cbn [negb filter app andb orb]; rewrite ?app_nil_r;
  first [reflexivity | assumption | perm_solve | auto].

Lemma aget_notin : forall k l, amem k l = false -> aget k l = [].
Proof.
  intros k l. unfold amem, aget. induction l as [|e l IH]; cbn [existsb filter map]; [reflexivity|].
  destruct (fst e =? k); cbn; [discriminate|exact IH].
Qed.

Lemma aremove_notin : forall k l, amem k l = false -> aremove k l = l.
Proof.
  intros k l. unfold amem, aremove. induction l as [|e l IH]; cbn [existsb filter]; [reflexivity|].
  destruct (fst e =? k); cbn; [discriminate|]. intros H. rewrite IH by exact H. reflexivity.
Qed.

(** environment obligations for the code as it is ([bf = false]): no parse with caching ends before the DOCTYPE (that is the known
    finding), and a system id is never the reserved key "[dtd]" *)
Definition gop_ok (bf : bool) (op : gop) : Prop :=
  match op with
  | GParse cache early sys => sys <> dtd_key /\ (bf = true \/ cache && early = false)
  | _ => True
  end.

Record GInv (bf : bool) (st : gstate) : Prop := {
  gi_nodup : NoDup (all_ids st);
  gi_fresh : Forall (fun x => x < g_next st) (all_ids st);
  gi_nodtd : bf = true \/ amem dtd_key (g_pool st) = false;
  gi_noorphan : g_orphaned st = []
}.

Lemma ginv_init : forall bf, GInv bf ginit.
Proof. intros. constructor; cbn; auto; constructor. Qed.

Lemma fresh_step : forall n l, Forall (fun x => x < n) l -> Forall (fun x => x < n + 1) (n :: l).
Proof.
  intros n l H. constructor; [lia|]. eapply Forall_impl; [|exact H]. cbn. intros. lia.
Qed.

Lemma notin_fresh : forall n l, Forall (fun x => x < n) l -> ~ In n l.
Proof. intros n l H I. rewrite Forall_forall in H. specialize (H n I). lia. Qed.

(** one parse adds exactly one grammar, owned once *)
Lemma parse_perm : forall bf st cache early sys, gop_ok bf (GParse cache early sys) -> GInv bf st ->
  let st' := gstep bf st (GParse cache early sys) in
  Permutation (all_ids st') (g_next st :: all_ids st) /\ g_next st' = g_next st + 1 /\ g_orphaned st' = [] /\
  (bf = true \/ amem dtd_key (g_pool st') = false).
Proof.
  intros bf st cache early sys [SK OKc] [ND FR NDTD NO].
  destruct st as [P B L n D O]. cbn [g_orphaned] in NO. subst O.
  unfold dtd_key in *. cbn [g_pool] in NDTD.
  assert (SK' : (sys =? 0) = false) by (apply N.eqb_neq; exact SK).
  assert (SK2 : (0 =? sys) = false) by (apply N.eqb_neq; intro E; apply SK; symmetry; exact E).
  assert (E1 : amem 0 P = false -> aget 0 P = []) by apply aget_notin.
  assert (E2 : amem 0 P = false -> aremove 0 P = P) by apply aremove_notin.
  unfold gstep, greset_bucket, gput, gorphan, all_ids, dtd_key.
  cbn [g_pool g_bucket g_locked g_next g_deleted g_orphaned].
  destruct (amem 0 P) eqn:M0; destruct (amem sys P) eqn:MS;
    try (specialize (E1 eq_refl); specialize (E2 eq_refl));
    destruct cache, L, early, bf;
    try solve [destruct NDTD as [X|X]; discriminate X];
    try solve [destruct OKc as [X|X]; discriminate X];
    cbn [andb negb orb amem existsb aremove filter aget map app fst snd N.eqb g_pool g_bucket g_locked g_next g_deleted g_orphaned];
    fold (amem 0 P); fold (amem sys P); fold (aget 0 P); fold (aremove 0 P);
    rewrite ?M0, ?MS, ?SK', ?SK2, ?N.eqb_refl, ?E1, ?E2;
    cbn [andb negb orb amem existsb aremove filter aget map app fst snd N.eqb g_pool g_bucket g_locked g_next g_deleted g_orphaned];
    fold (amem 0 P); fold (amem sys P); fold (aget 0 P); fold (aremove 0 P);
    rewrite ?M0, ?MS, ?SK', ?SK2, ?N.eqb_refl, ?E1, ?E2;
    cbn [andb negb orb amem existsb aremove filter aget map app fst snd N.eqb g_pool g_bucket g_locked g_next g_deleted g_orphaned];
    rewrite ?M0, ?MS, ?SK', ?SK2, ?N.eqb_refl;
    repeat split; fin.
Qed.

Lemma ginv_step : forall bf st op, gop_ok bf op -> GInv bf st -> GInv bf (gstep bf st op).
Proof.
  intros bf st op OK I. destruct op as [cache early sys| | |].
  - destruct (parse_perm bf st cache early sys OK I) as [PM [NX [NO ND]]]. destruct I as [I1 I2 I3 I4].
    constructor; auto.
    + eapply Permutation_NoDup; [apply Permutation_sym; exact PM|]. constructor; [apply notin_fresh; exact I2|exact I1].
    + rewrite NX. eapply Permutation_Forall; [apply Permutation_sym; exact PM|]. apply fresh_step. exact I2.
  - destruct I as [I1 I2 I3 I4]. constructor; auto.
  - destruct I as [I1 I2 I3 I4]. constructor; auto.
  - destruct I as [I1 I2 I3 I4]. destruct st as [P B L n D O]. unfold gstep, greset_bucket, all_ids in *.
    cbn [g_pool g_bucket g_locked g_next g_deleted g_orphaned] in *.
    assert (PM : Permutation ((D ++ map snd B) ++ O ++ map snd P ++ []) (D ++ O ++ map snd P ++ map snd B))
      by (rewrite ?app_nil_r; perm_solve).
    constructor; cbn [g_pool g_bucket g_locked g_next g_deleted g_orphaned]; auto.
    + eapply Permutation_NoDup; [apply Permutation_sym; exact PM|exact I1].
    + eapply Permutation_Forall; [apply Permutation_sym; exact PM|exact I2].
Qed.

Lemma ginv_run : forall bf ops st, Forall (gop_ok bf) ops -> GInv bf st -> GInv bf (grun bf st ops).
Proof.
  intros bf ops. induction ops as [|op r IH]; intros st F I; cbn [grun fold_left]; [exact I|].
  inversion F; subst. apply IH; [assumption|]. apply ginv_step; assumption.
Qed.

Lemma nodup_drop_prefix : forall (a b : list N), NoDup (a ++ b) -> NoDup b.
Proof. induction a as [|x a IH]; intros b H; [exact H|]. cbn [app] in H. inversion H; subst. apply IH. assumption. Qed.

(** main statement: no grammar is reachable from two owners, nothing was dropped, and the destructors delete each grammar once *)
Lemma grammar_single_owner : forall bf ops, Forall (gop_ok bf) ops ->
  let st := grun bf ginit ops in
  NoDup (map snd (g_pool st) ++ map snd (g_bucket st)) /\ g_orphaned st = [] /\ NoDup (final_deletes st).
Proof.
  intros bf ops F st. destruct (ginv_run bf ops ginit F (ginv_init bf)) as [I1 _ _ I4]. fold st in I1, I4.
  unfold all_ids in I1. rewrite I4 in I1. cbn [app] in I1. split; [|split; [exact I4|]].
  - apply nodup_drop_prefix in I1. exact I1.
  - unfold final_deletes. eapply Permutation_NoDup; [|exact I1]. perm_solve.
Qed.
