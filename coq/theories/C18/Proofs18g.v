(** C18 -- message-loader strings: owned by the current global manager while initialised, gone after the last
    Terminate, never released through another manager, allocations = releases + live strings. *)
From Coq Require Import NArith List Bool Lia.
From XV Require Import C18.Model18I C18.Model18M C18.Proofs18d.
Import ListNotations.
Local Open Scope N_scope.

Definition is_salloc (e : sevent) : bool := match e with EStrAlloc _ => true | _ => false end.
Definition is_sfree (e : sevent) : bool := match e with EStrFree _ _ => true | _ => false end.
Definition sallocs (l : list sevent) : nat := length (filter is_salloc l).
Definition sfrees (l : list sevent) : nat := length (filter is_sfree l).
Definition b2n (o : option gm) : nat := match o with Some _ => 1 | None => 0 end.

Record MInv (cap : N) (st : mstate) : Prop := {
  mi_inv : Inv cap (m_i st);
  mi_zero : i_cnt (m_i st) = 0 -> m_loc st = None /\ m_nls st = None /\ m_ph st = None;
  mi_loc : forall g, m_loc st = Some g -> g = i_mgr (m_i st);
  mi_nls : forall g, m_nls st = Some g -> g = i_mgr (m_i st);
  mi_free : forall o v, In (EStrFree o v) (m_slog st) -> o = v;
  mi_bal : sallocs (m_slog st) = (sfrees (m_slog st) + b2n (m_loc st) + b2n (m_nls st))%nat
}.

(** the global manager only changes when the body of Initialize / Terminate runs *)
Lemma mgr_kept_init : forall rd cap st u d, negb ((i_cnt st =? 0) && (i_cnt (istep rd cap st (Init u d)) =? 1)) = true ->
  i_mgr (istep rd cap st (Init u d)) = i_mgr st.
Proof.
  intros rd cap st u d H. rewrite cnt_step in H. cbn [count_after] in H. cbn [istep].
  destruct (N.eqb_spec (i_cnt st) cap); [reflexivity|].
  destruct (N.ltb_spec 1 (i_cnt st + 1)); [reflexivity|].
  exfalso. assert (Z : i_cnt st = 0) by lia. rewrite Z in H. cbn in H. discriminate.
Qed.

Lemma mgr_kept_term : forall rd cap st, negb (negb (i_cnt st =? 0) && (i_cnt (istep rd cap st Term) =? 0)) = true ->
  i_mgr (istep rd cap st Term) = i_mgr st.
Proof.
  intros rd cap st H. rewrite cnt_step in H. cbn [count_after] in H. cbn [istep].
  destruct (N.eqb_spec (i_cnt st) 0) as [E|E]; [reflexivity|].
  destruct (N.ltb_spec 0 (i_cnt st - 1)); [reflexivity|].
  exfalso. assert (P : N.pred (i_cnt st) = 0) by lia. rewrite P in H.
  destruct (N.eqb_spec (i_cnt st) 0); [contradiction|]. cbn in H. discriminate.
Qed.

Lemma minv_pristine : forall cap d, MInv cap (mpristine d).
Proof.
  intros. constructor; cbn; auto; try discriminate.
  - apply inv_pristine.
  - intros o v [].
Qed.

Lemma count_app : forall a b, sallocs (a ++ b) = (sallocs a + sallocs b)%nat /\ sfrees (a ++ b) = (sfrees a + sfrees b)%nat.
Proof. intros. unfold sallocs, sfrees. rewrite !filter_app, !app_length. auto. Qed.

Lemma minv_step : forall rd cap st op, 0 < cap -> MInv cap st -> MInv cap (mstep rd cap st op).
Proof.
  intros rd cap st op Hc [I Z L N F B].
  assert (I' : Inv cap (istep rd cap (m_i st) (to_iop op))) by (apply inv_step; assumption).
  destruct op as [u d l n ph|]; unfold mstep; cbn [to_iop] in *.
  - destruct ((i_cnt (m_i st) =? 0) && (i_cnt (istep rd cap (m_i st) (Init u d)) =? 1)) eqn:C.
    + apply andb_true_iff in C. destruct C as [C0 C1]. apply N.eqb_eq in C0. apply N.eqb_eq in C1.
      destruct (Z C0) as [ZL [ZN _]]. rewrite ZL, ZN in *. unfold setter, release. cbn [app].
      constructor; cbn [m_i m_loc m_nls m_ph m_slog].
      * exact I'.
      * intros E. rewrite E in C1. discriminate.
      * intros g E. destruct l; inversion E. reflexivity.
      * intros g E. destruct n; inversion E. reflexivity.
      * intros o v H. apply in_app_or in H. destruct H as [H|H]; [apply F; exact H|].
        destruct l, n; cbn in H; repeat (destruct H as [H|H]; [discriminate|]); destruct H.
      * destruct (count_app (m_slog st) ((if l then [EStrAlloc (i_mgr (istep rd cap (m_i st) (Init u d)))] else []) ++
                                          (if n then [EStrAlloc (i_mgr (istep rd cap (m_i st) (Init u d)))] else []))) as [A1 A2].
        rewrite A1, A2, B. destruct l, n; cbn; lia.
    + assert (K : i_mgr (istep rd cap (m_i st) (Init u d)) = i_mgr (m_i st)) by (apply mgr_kept_init; rewrite C; reflexivity).
      constructor; cbn [m_i m_loc m_nls m_ph m_slog]; auto.
      * intros E. apply Z.
        (* the count can only be 0 afterwards if it was 0 before and stayed (cap = 0 excluded) *)
        rewrite cnt_step in E. cbn [count_after] in E. destruct (N.eqb_spec (i_cnt (m_i st)) cap); lia.
      * intros g E. rewrite K. apply L. exact E.
      * intros g E. rewrite K. apply N. exact E.
  - destruct (negb (i_cnt (m_i st) =? 0) && (i_cnt (istep rd cap (m_i st) Term) =? 0)) eqn:C.
    + unfold setter. cbn [app]. rewrite !app_nil_r.
      constructor; cbn [m_i m_loc m_nls m_ph m_slog]; auto; try discriminate.
      * intros o v H. apply in_app_or in H. destruct H as [H|H]; [apply F; exact H|].
        apply in_app_or in H. unfold release in H. destruct H as [H|H].
        -- destruct (m_loc st) as [g|] eqn:E; [|destruct H]. destruct H as [H|[]]. inversion H; subst. apply L. reflexivity.
        -- destruct (m_nls st) as [g|] eqn:E; [|destruct H]. destruct H as [H|[]]. inversion H; subst. apply N. reflexivity.
      * destruct (count_app (m_slog st) (release (m_loc st) (i_mgr (m_i st)) ++ release (m_nls st) (i_mgr (m_i st)))) as [A1 A2].
        rewrite A1, A2, B. unfold release. destruct (m_loc st), (m_nls st); cbn; lia.
    + assert (K : i_mgr (istep rd cap (m_i st) Term) = i_mgr (m_i st)) by (apply mgr_kept_term; rewrite C; reflexivity).
      constructor; cbn [m_i m_loc m_nls m_ph m_slog]; auto.
      * intros E. apply Z. apply andb_false_iff in C. destruct C as [C|C].
        -- apply negb_false_iff in C. apply N.eqb_eq in C. exact C.
        -- apply N.eqb_neq in C. contradiction.
      * intros g E. rewrite K. apply L. exact E.
      * intros g E. rewrite K. apply N. exact E.
Qed.

Lemma minv_run : forall rd cap ops st, 0 < cap -> MInv cap st -> MInv cap (mrun rd cap st ops).
Proof.
  intros rd cap ops. induction ops as [|op r IH]; intros st Hc I; cbn [mrun fold_left]; [exact I|].
  apply IH; [exact Hc|]. apply minv_step; assumption.
Qed.

Lemma m_i_run : forall rd cap ops st, m_i (mrun rd cap st ops) = irun rd cap (m_i st) (map to_iop ops).
Proof.
  intros rd cap ops. induction ops as [|op r IH]; intros st; cbn [mrun fold_left map irun]; [reflexivity|].
  unfold mrun, irun in IH. rewrite IH. f_equal.
  destruct op as [u d l n ph|]; unfold mstep; cbn [to_iop].
  - destruct ((i_cnt (m_i st) =? 0) && (i_cnt (istep rd cap (m_i st) (Init u d)) =? 1)); unfold setter; reflexivity.
  - destruct (negb (i_cnt (m_i st) =? 0) && (i_cnt (istep rd cap (m_i st) Term) =? 0)); unfold setter; reflexivity.
Qed.

Lemma msgloader_main : forall rd cap d ops, 0 < cap ->
  let st := mrun rd cap (mpristine d) ops in
  (i_cnt (m_i st) = 0 -> m_loc st = None /\ m_nls st = None /\ m_ph st = None) /\
  (forall g, m_loc st = Some g \/ m_nls st = Some g -> g = i_mgr (m_i st)) /\
  (forall o v, In (EStrFree o v) (m_slog st) -> o = v) /\
  sallocs (m_slog st) = (sfrees (m_slog st) + b2n (m_loc st) + b2n (m_nls st))%nat /\
  m_i st = irun rd cap (pristine d) (map to_iop ops).
Proof.
  intros rd cap d ops Hc st. destruct (minv_run rd cap ops (mpristine d) Hc (minv_pristine cap d)) as [I Z L N F B].
  fold st in I, Z, L, N, F, B. repeat split; auto.
  - apply Z; assumption.
  - apply Z; assumption.
  - apply Z; assumption.
  - intros g [E|E]; [apply L|apply N]; exact E.
  - unfold st. rewrite m_i_run. reflexivity.
Qed.
