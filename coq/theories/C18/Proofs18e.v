(** C18 -- meaning of the monitor's other verdicts: no error so far <-> [safe_so_far]; [V_Outstanding l] lists exactly the
    outstanding blocks; an error verdict names the first event that breaks the discipline. *)
From Coq Require Import NArith List Bool FMapPositive Lia.
From XV Require Import C18.Spec18 C18.Model18 C18.Proofs18a.
Import ListNotations.
Local Open Scope N_scope.

Lemma exec_safe : forall tr s, exec lempty tr = Some s -> safe_so_far tr.
Proof.
  intros tr s H. split.
  - intros pre m p post ->. rewrite exec_app in H.
    destruct (exec lempty pre) as [s1|] eqn:E1; [|discriminate]. cbn [exec] in H.
    destruct (step s1 (Free m p)) as [s2|] eqn:S; [|discriminate].
    apply step_free in S. destruct S as [[n S] _].
    destruct (view_after_empty _ _ _ _ _ E1 S) as [a [b [H1 H2]]]. exists a, n, b. auto.
  - intros pre m p n post -> pre1 m' n' mid -> U. rewrite exec_app in H.
    destruct (exec lempty (pre1 ++ Alloc m' p n' :: mid)) as [s1|] eqn:E1; [|discriminate]. cbn [exec] in H.
    destruct (step s1 (Alloc m p n)) as [s2|] eqn:S; [|discriminate].
    apply step_alloc in S. destruct S as [S _].
    rewrite (exec_view _ _ _ E1 p) in S.
    assert (L : last_touch p (pre1 ++ Alloc m' p n' :: mid) = Some (Alloc m' p n'))
      by (apply last_touch_some; exists pre1, mid; auto).
    rewrite L in S. discriminate.
Qed.

Lemma safe_exec : forall tr, safe_so_far tr -> forall pre post, tr = pre ++ post -> exists s, exec lempty pre = Some s.
Proof.
  intros tr [FO ND] pre. induction pre as [|e pre IH] using rev_ind; intros post E.
  - exists lempty. reflexivity.
  - rewrite <- app_assoc in E. cbn [app] in E. destruct (IH _ E) as [s0 H0].
    rewrite exec_app, H0. cbn [exec].
    destruct e as [m p n|m p].
    + destruct (view s0 p) as [[m' n']|] eqn:V.
      * exfalso. destruct (view_after_empty _ _ _ _ _ H0 V) as [a [b [H1 H2]]].
        exact (ND _ _ _ _ _ E _ _ _ _ H1 H2).
      * assert (S : step s0 (Alloc m p n) = Some (PositiveMap.add (key p) (m, n) s0))
          by (apply step_alloc; split; [exact V|reflexivity]).
        rewrite S. eexists. reflexivity.
    + destruct (FO _ _ _ _ E) as [pre1 [n [mid [H1 H2]]]].
      assert (V : view s0 p = Some (m, n)).
      { rewrite (exec_view _ _ _ H0 p).
        assert (L : last_touch p pre = Some (Alloc m p n)) by (apply last_touch_some; exists pre1, mid; auto).
        rewrite L. reflexivity. }
      assert (S : step s0 (Free m p) = Some (PositiveMap.remove (key p) s0))
        by (apply step_free; split; [exists n; exact V|reflexivity]).
      rewrite S. eexists. reflexivity.
Qed.

Lemma exec_iff_safe : forall tr, (exists s, exec lempty tr = Some s) <-> safe_so_far tr.
Proof.
  intros tr. split.
  - intros [s H]. exact (exec_safe tr s H).
  - intros H. exact (safe_exec tr H tr [] (eq_sym (app_nil_r tr))).
Qed.

Definition is_error (v : verdict) : Prop :=
  match v with V_Ok | V_Outstanding _ => False | _ => True end.

Lemma classify_error : forall s seen i e, is_error (classify s seen i e).
Proof.
  intros. destruct e; cbn [classify]; [exact I|]. destruct (view s p); [exact I|]. destruct (existsb _ seen); exact I.
Qed.

Definition verdict_index (v : verdict) : option N :=
  match v with
  | V_ForeignFree i | V_DoubleFree i | V_WrongManager i | V_DupAlloc i => Some i
  | _ => None
  end.

Lemma classify_index : forall s seen i e, verdict_index (classify s seen i e) = Some i.
Proof.
  intros. destruct e; cbn [classify]; [reflexivity|]. destruct (view s p); [reflexivity|]. destruct (existsb _ seen); reflexivity.
Qed.

(** the run either ends without error (exec succeeds) or stops at the first event whose step fails *)
Lemma run_cases : forall tr s seen i,
  (exists s', exec s tr = Some s' /\ run s seen i tr = if PositiveMap.is_empty s' then V_Ok else V_Outstanding (blocks_of s')) \/
  (exists pre e post s1, tr = pre ++ e :: post /\ exec s pre = Some s1 /\ step s1 e = None /\
     is_error (run s seen i tr) /\ verdict_index (run s seen i tr) = Some (i + N.of_nat (length pre))).
Proof.
  induction tr as [|e r IH]; intros s seen i; cbn [run exec].
  - left. exists s. auto.
  - destruct (step s e) as [s1|] eqn:S.
    + destruct (IH s1 (e :: seen) (N.succ i)) as [[s' [E R]]|[pre [e' [post [s2 [E1 [E2 [E3 [E4 E5]]]]]]]]].
      * left. exists s'. auto.
      * right. exists (e :: pre), e', post, s2. subst r. cbn [app exec length]. rewrite S.
        repeat split; auto. rewrite E5. f_equal. lia.
    + right. exists [], e, r, s. cbn [app exec length]. repeat split; auto.
      * apply classify_error.
      * rewrite classify_index. f_equal. lia.
Qed.

Lemma blocks_of_view : forall s p m n, In (p, m, n) (blocks_of s) <-> view s p = Some (m, n).
Proof.
  intros s p m n. unfold blocks_of, view. rewrite in_map_iff. split.
  - intros [[k [m' n']] [E I]]. cbn [fst snd] in E. inversion E; subst.
    apply PositiveMap.elements_complete in I. unfold key.
    assert (K : N.succ_pos (Pos.pred_N k) = k).
    { assert (X : N.pos (N.succ_pos (Pos.pred_N k)) = N.pos k) by (rewrite N.succ_pos_spec; apply N.succ_pos_pred).
      injection X as X. exact X. }
    rewrite K. exact I.
  - intros H. exists (key p, (m, n)). cbn [fst snd]. split.
    + unfold key. rewrite N.pos_pred_succ. reflexivity.
    + apply PositiveMap.elements_correct. exact H.
Qed.

Lemma view_outstanding : forall tr s m p n, exec lempty tr = Some s -> (view s p = Some (m, n) <-> outstanding tr m p n).
Proof.
  intros tr s m p n H. split.
  - intros V. destruct (view_after_empty _ _ _ _ _ H V) as [a [b [H1 H2]]]. exists a, b. auto.
  - intros [a [b [H1 H2]]]. rewrite (exec_view _ _ _ H p).
    assert (L : last_touch p tr = Some (Alloc m p n)) by (apply last_touch_some; exists a, b; auto).
    rewrite L. reflexivity.
Qed.

Lemma ledger_outstanding : forall tr l, ledger_check tr = V_Outstanding l ->
  safe_so_far tr /\ l <> [] /\ forall p m n, In (p, m, n) l <-> outstanding tr m p n.
Proof.
  intros tr l H. unfold ledger_check in H.
  destruct (run_cases tr lempty [] 0) as [[s' [E R]]|[pre [e [post [s1 [_ [_ [_ [E4 _]]]]]]]]].
  - rewrite R in H. destruct (PositiveMap.is_empty s') eqn:EM; [discriminate|]. inversion H; subst l.
    split; [exact (exec_safe tr s' E)|]. split.
    + intros B. assert (X : PositiveMap.is_empty s' = true); [|congruence].
      apply is_empty_view. intros p. destruct (view s' p) as [[m n]|] eqn:V; [|reflexivity].
      apply blocks_of_view in V. rewrite B in V. destruct V.
    + intros p m n. rewrite blocks_of_view. apply view_outstanding. exact E.
  - rewrite H in E4. destruct E4.
Qed.

Lemma ledger_error : forall tr, is_error (ledger_check tr) ->
  exists pre e post i, tr = pre ++ e :: post /\ verdict_index (ledger_check tr) = Some i /\ i = N.of_nat (length pre) /\
                       safe_so_far pre /\ ~ safe_so_far (pre ++ [e]).
Proof.
  intros tr H. unfold ledger_check in *.
  destruct (run_cases tr lempty [] 0) as [[s' [E R]]|[pre [e [post [s1 [E1 [E2 [E3 [E4 E5]]]]]]]]].
  - rewrite R in H. destruct (PositiveMap.is_empty s'); destruct H.
  - exists pre, e, post, (N.of_nat (length pre)). repeat split; auto.
    + exact (proj1 (exec_safe pre s1 E2)).
    + exact (proj2 (exec_safe pre s1 E2)).
    + intros SF. apply exec_iff_safe in SF. destruct SF as [s2 X]. rewrite exec_app, E2 in X. cbn [exec] in X.
      rewrite E3 in X. discriminate.
Qed.

Lemma ledger_no_error_iff : forall tr, ~ is_error (ledger_check tr) <-> safe_so_far tr.
Proof.
  intros tr. split.
  - intros H. unfold ledger_check in H.
    destruct (run_cases tr lempty [] 0) as [[s' [E R]]|[pre [e [post [s1 [_ [_ [_ [E4 _]]]]]]]]].
    + exact (exec_safe tr s' E).
    + contradiction.
  - intros SF H. destruct (ledger_error tr H) as [pre [e [post [i [E [_ [_ [_ N]]]]]]]].
    apply N. destruct (safe_exec tr SF (pre ++ [e]) post) as [s X]; [rewrite <- app_assoc; exact E|].
    exact (exec_safe _ s X).
Qed.
