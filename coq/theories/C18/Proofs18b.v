(** C18 -- XMemory header mechanism: every interleaving of new/delete over several managers keeps the
    ledger disciplined, each block returns to the manager stored in its header, live blocks are disjoint. *)
From Coq Require Import NArith List Bool FMapPositive Lia.
From XV Require Import C18.Spec18 C18.Model18 C18.Proofs18a C18.Model18X.
Import ListNotations.
Local Open Scope N_scope.

Lemma align_up_ge : forall a x, 0 < a -> x <= align_up a x.
Proof.
  intros a x Ha. unfold align_up. destruct (N.eqb_spec (x mod a) 0); [lia|].
  assert (x mod a < a) by (apply N.mod_lt; lia). lia.
Qed.

Lemma align_up_mod : forall a x, 0 < a -> (align_up a x) mod a = 0.
Proof.
  intros a x Ha. unfold align_up. destruct (N.eqb_spec (x mod a) 0) as [E|E]; [exact E|].
  assert (L : x mod a < a) by (apply N.mod_lt; lia).
  assert (D : x = a * (x / a) + x mod a) by (apply N.div_mod; lia).
  assert (R : x + a - x mod a = (x / a + 1) * a) by lia.
  rewrite R. apply N.mod_mul. lia.
Qed.

Definition lookup (b : N) (l : list xobj) : option (N * N) :=
  match find (fun o => o_base o =? b) l with Some o => Some (o_mgr o, o_tot o) | None => None end.

Record XInv (c : xcfg) (st : xstate) : Prop := {
  xi_exec : exists s, exec lempty (x_trace st) = Some s /\ forall b, view s b = lookup b (x_objs st);
  xi_obj : forall o, In o (x_objs st) ->
      o_p o = o_base o + header c /\ PositiveMap.find (key (o_base o)) (x_hdr st) = Some (o_mgr o) /\ header c <= o_tot o;
  xi_nodup : NoDup (map o_base (x_objs st));
  xi_disj : forall a b, In a (x_objs st) -> In b (x_objs st) -> o_base a <> o_base b ->
      overlaps (o_base a) (o_tot a) (o_base b) (o_tot b) = false
}.

Lemma overlaps_sym : forall a la b lb, overlaps a la b lb = overlaps b lb a la.
Proof. intros. unfold overlaps. apply andb_comm. Qed.

Lemma overlaps_same : forall a la lb, 0 < la -> 0 < lb -> overlaps a la a lb = true.
Proof.
  intros. unfold overlaps. destruct (N.ltb_spec a (a + lb)); [|lia]. destruct (N.ltb_spec a (a + la)); [reflexivity|lia].
Qed.

Lemma lookup_in : forall l o, NoDup (map o_base l) -> In o l -> find (fun x => o_base x =? o_base o) l = Some o.
Proof.
  induction l as [|x l IH]; intros o ND H; [destruct H|]. cbn [find]. cbn [map] in ND. inversion ND; subst.
  destruct H as [H|H].
  - subst. rewrite N.eqb_refl. reflexivity.
  - destruct (N.eqb_spec (o_base x) (o_base o)) as [E|E].
    + exfalso. apply H2. rewrite E. apply in_map. exact H.
    + apply IH; assumption.
Qed.

Lemma lookup_none : forall l b, (forall o, In o l -> o_base o <> b) -> lookup b l = None.
Proof.
  intros l b H. unfold lookup. destruct (find (fun o => o_base o =? b) l) as [o|] eqn:E; [|reflexivity].
  apply find_some in E. destruct E as [I E]. apply N.eqb_eq in E. exfalso. exact (H o I E).
Qed.

Lemma lookup_filter : forall l b0 b,
  lookup b (filter (fun o => negb (o_base o =? b0)) l) = if b =? b0 then None else lookup b l.
Proof.
  intros l b0 b. unfold lookup. induction l as [|x l IH]; cbn [filter find].
  - destruct (b =? b0); reflexivity.
  - destruct (N.eqb_spec (o_base x) b0) as [E|E]; cbn [negb].
    + rewrite IH. destruct (N.eqb_spec b b0) as [F|F]; [reflexivity|].
      destruct (N.eqb_spec (o_base x) b); [lia|reflexivity].
    + cbn [find]. destruct (N.eqb_spec (o_base x) b) as [F|F].
      * destruct (N.eqb_spec b b0); [lia|reflexivity].
      * exact IH.
Qed.

Lemma nodup_map_filter : forall (f : xobj -> bool) l, NoDup (map o_base l) -> NoDup (map o_base (filter f l)).
Proof.
  intros f l. induction l as [|x l IH]; intros ND; cbn [filter map]; [constructor|].
  cbn [map] in ND. inversion ND; subst. destruct (f x); cbn [map]; [|apply IH; assumption].
  constructor; [|apply IH; assumption]. intros H. apply H1. apply in_map_iff in H. destruct H as [y [E I]].
  apply filter_In in I. destruct I as [I _]. apply in_map_iff. exists y. auto.
Qed.

Lemma xinv_init : forall c g, XInv c (xinit g).
Proof.
  intros. constructor; cbn.
  - exists lempty. split; [reflexivity|]. intros b. rewrite view_empty. reflexivity.
  - intros o [].
  - constructor.
  - intros a b [].
Qed.

Lemma xinv_new : forall c st m size base st', 0 < header c -> XInv c st -> xnew c st m size base = Some st' -> XInv c st'.
Proof.
  intros c st m size base st' Hh [[s [Ex V]] O ND D] H. unfold xnew in H.
  destruct (existsb _ (x_objs st)) eqn:EX; [discriminate|]. inversion H; subst; clear H.
  assert (NO : forall o, In o (x_objs st) -> overlaps base (header c + size) (o_base o) (o_tot o) = false).
  { intros o I. destruct (overlaps base (header c + size) (o_base o) (o_tot o)) eqn:E; [|reflexivity].
    assert (X : existsb (fun o => overlaps base (header c + size) (o_base o) (o_tot o)) (x_objs st) = true)
      by (apply existsb_exists; exists o; auto). congruence. }
  assert (NB : forall o, In o (x_objs st) -> o_base o <> base).
  { intros o I E. specialize (NO o I). rewrite E in NO. destruct (O o I) as [_ [_ T]].
    rewrite overlaps_same in NO; [discriminate|lia|lia]. }
  constructor; cbn [x_trace x_objs x_hdr].
  - assert (VN : view s base = None) by (rewrite V; apply lookup_none; exact NB).
    exists (PositiveMap.add (key base) (m, header c + size) s). split.
    + rewrite exec_app, Ex. cbn [exec].
      assert (S : step s (Alloc m base (header c + size)) = Some (PositiveMap.add (key base) (m, header c + size) s))
        by (apply step_alloc; auto).
      rewrite S. reflexivity.
    + intros b. unfold lookup. cbn [find o_base]. destruct (N.eqb_spec base b) as [E|E].
      * subst. rewrite view_add_same. reflexivity.
      * rewrite view_add_other by exact E. rewrite V. reflexivity.
  - intros o [E|I].
    + subst o. cbn. split; [reflexivity|]. split; [apply PositiveMap.gss|lia].
    + destruct (O o I) as [A [B C]]. split; [exact A|]. split; [|exact C].
      rewrite PositiveMap.gso; [exact B|]. intros K. apply key_inj in K. exact (NB o I K).
  - cbn [map o_base]. constructor; [|exact ND]. intros I. apply in_map_iff in I. destruct I as [o [E I]]. exact (NB o I E).
  - intros a b [Ea|Ia] [Eb|Ib] Hne.
    + subst. contradiction.
    + subst a. cbn. apply NO. exact Ib.
    + subst b. cbn. rewrite overlaps_sym. apply NO. exact Ia.
    + apply D; assumption.
Qed.

Lemma xinv_delete : forall c st p st', XInv c st -> xdelete c st p = Some st' ->
  XInv c st' /\ exists o, In o (x_objs st) /\ o_p o = p /\ x_trace st' = x_trace st ++ [Free (o_mgr o) (o_base o)].
Proof.
  intros c st p st' [[s [Ex V]] O ND D] H. unfold xdelete in H.
  destruct (existsb (fun o => o_p o =? p) (x_objs st)) eqn:EX; [|discriminate].
  apply existsb_exists in EX. destruct EX as [o [I E]]. apply N.eqb_eq in E.
  destruct (O o I) as [P [HD T]].
  assert (B : p - header c = o_base o) by lia. rewrite B in H. rewrite HD in H. inversion H; subst st'; clear H.
  assert (FE : filter (fun x => negb (o_p x =? p)) (x_objs st) = filter (fun x => negb (o_base x =? o_base o)) (x_objs st)).
  { apply filter_ext_in. intros x Ix. destruct (O x Ix) as [Px _]. f_equal.
    destruct (N.eqb_spec (o_p x) p), (N.eqb_spec (o_base x) (o_base o)); try reflexivity; lia. }
  split; [|exists o; auto].
  constructor; cbn [x_trace x_objs x_hdr]; rewrite ?FE.
  - assert (VS : view s (o_base o) = Some (o_mgr o, o_tot o)).
    { rewrite V. unfold lookup. rewrite (lookup_in _ _ ND I). reflexivity. }
    exists (PositiveMap.remove (key (o_base o)) s). split.
    + rewrite exec_app, Ex. cbn [exec].
      assert (S : step s (Free (o_mgr o) (o_base o)) = Some (PositiveMap.remove (key (o_base o)) s))
        by (apply step_free; split; [exists (o_tot o); exact VS|reflexivity]).
      rewrite S. reflexivity.
    + intros b. rewrite lookup_filter. destruct (N.eqb_spec b (o_base o)) as [F|F].
      * subst. apply view_rem_same.
      * rewrite view_rem_other by (intro; apply F; auto). apply V.
  - intros x Ix. apply filter_In in Ix. destruct Ix as [Ix _]. apply O. exact Ix.
  - apply nodup_map_filter. exact ND.
  - intros a b Ia Ib. apply filter_In in Ia. apply filter_In in Ib. apply D; tauto.
Qed.

Lemma xinv_step : forall c st op st', 0 < header c -> XInv c st -> xstep c st op = Some st' -> XInv c st'.
Proof.
  intros c st op st' Hh I H. destruct op; cbn [xstep] in H.
  - eapply xinv_new; eauto.
  - eapply xinv_new; eauto.
  - inversion H; subst. destruct I as [E O ND D]. constructor; assumption.
  - eapply xinv_delete; eauto.
  - eapply xinv_delete; eauto.
Qed.

Lemma xinv_run : forall c ops st st', 0 < header c -> XInv c st -> xrun c st ops = Some st' -> XInv c st'.
Proof.
  intros c ops. induction ops as [|op r IH]; intros st st' Hh I H; cbn [xrun] in H.
  - inversion H; subst. exact I.
  - destruct (xstep c st op) as [st1|] eqn:S; [|discriminate].
    exact (IH st1 st' Hh (xinv_step c st op st1 Hh I S) H).
Qed.

Lemma header_pos : forall c, 0 < ptr_size c -> 0 < alignment c -> ptr_size c <= header c /\ 0 < header c.
Proof. intros c P A. unfold header. pose proof (align_up_ge (alignment c) (ptr_size c) A). lia. Qed.

(** main statements *)
Lemma xmemory_main : forall c g ops st, 0 < ptr_size c -> 0 < alignment c -> xrun c (xinit g) ops = Some st ->
  (* the trace so far is consistent and nothing but the live objects is outstanding *)
  (x_objs st = [] -> ledger_check (x_trace st) = V_Ok) /\
  (* the header of every live object holds the manager that allocated it; payload starts behind the stored pointer *)
  (forall o, In o (x_objs st) -> PositiveMap.find (key (o_base o)) (x_hdr st) = Some (o_mgr o) /\
                                 o_p o = o_base o + header c /\ ptr_size c <= header c /\ o_p o <= o_base o + o_tot o) /\
  (* distinct live blocks (header + payload) do not overlap *)
  (forall a b, In a (x_objs st) -> In b (x_objs st) -> a <> b ->
               overlaps (o_base a) (o_tot a) (o_base b) (o_tot b) = false).
Proof.
  intros c g ops st P A H. destruct (header_pos c P A) as [HP H0].
  pose proof (xinv_run c ops (xinit g) st H0 (xinv_init c g) H) as [[s [Ex V]] O ND D].
  split; [|split].
  - intros E. unfold ledger_check. apply run_ok. exists s. split; [exact Ex|].
    apply is_empty_view. intros b. rewrite V, E. reflexivity.
  - intros o I. destruct (O o I) as [X [Y Z]]. repeat split; auto. lia.
  - intros a b Ia Ib Hne. apply D; auto. intros E. apply Hne.
    pose proof (lookup_in _ _ ND Ia) as La. pose proof (lookup_in _ _ ND Ib) as Lb. rewrite E in La. congruence.
Qed.

(** each delete hands the block to the manager recorded at allocation time, whatever the global manager is *)
Lemma xdelete_owner : forall c g ops st p st', 0 < ptr_size c -> 0 < alignment c ->
  xrun c (xinit g) ops = Some st -> xdelete c st p = Some st' ->
  exists o, In o (x_objs st) /\ o_p o = p /\ x_trace st' = x_trace st ++ [Free (o_mgr o) (o_base o)] /\
            exists pre mid, x_trace st = pre ++ Alloc (o_mgr o) (o_base o) (o_tot o) :: mid /\ untouched (o_base o) mid.
Proof.
  intros c g ops st p st' P A H Hd. destruct (header_pos c P A) as [HP H0].
  pose proof (xinv_run c ops (xinit g) st H0 (xinv_init c g) H) as I.
  destruct (xinv_delete c st p st' I Hd) as [_ [o [Io [Ep Et]]]].
  exists o. repeat split; auto.
  destruct I as [[s [Ex V]] O ND D].
  assert (VS : view s (o_base o) = Some (o_mgr o, o_tot o)).
  { rewrite V. unfold lookup. rewrite (lookup_in _ _ ND Io). reflexivity. }
  exact (view_after_empty _ _ _ _ _ Ex VS).
Qed.
