(** C18 -- DOM arena: every region handed out is aligned (pointer and length), provided the manager returns aligned
    blocks and the header size is a multiple of the alignment (it is: header = align_up alignment (sizeof void* )). *)
From Coq Require Import NArith List Bool Lia.
From XV Require Import C18.Spec18 C18.Model18X C18.Model18A C18.Proofs18b.
Import ListNotations.
Local Open Scope N_scope.

Lemma mod0_add : forall a x y, a <> 0 -> x mod a = 0 -> y mod a = 0 -> (x + y) mod a = 0.
Proof. intros a x y Ha Hx Hy. rewrite N.add_mod by exact Ha. rewrite Hx, Hy. rewrite N.add_0_r. apply N.mod_0_l. exact Ha. Qed.

Definition bases_aligned (c : acfg) (ops : list aop) : Prop :=
  Forall (fun op => match op with AAlloc _ base => base mod a_al c = 0 | ASetBlock _ => True end) ops.

Record AlInv (c : acfg) (st : astate) : Prop := {
  al_fp : s_fp st mod a_al c = 0;
  al_reg : forall r, In r (s_regions st) -> fst r mod a_al c = 0 /\ snd r mod a_al c = 0
}.

Lemma alinv_step : forall fx c st op, 0 < a_al c -> a_hdr c mod a_al c = 0 ->
  (match op with AAlloc _ base => base mod a_al c = 0 | ASetBlock _ => True end) ->
  AlInv c st -> AlInv c (astep fx c st op).
Proof.
  intros fx c st op Ha Hh Hb [FP RG]. assert (NZ : a_al c <> 0) by lia.
  destruct op as [amount0 base|size]; unfold astep.
  - set (amount := align_up (a_al c) amount0).
    assert (AM : amount mod a_al c = 0) by (apply align_up_mod; exact Ha).
    assert (BH : (base + a_hdr c) mod a_al c = 0) by (apply mod0_add; assumption).
    destruct (a_sub c <? amount).
    + constructor; cbn [s_fp s_regions]; [exact FP|].
      intros r [E|I]; [subst r; cbn [fst snd]; auto|apply RG; exact I].
    + destruct (s_fr st <? amount).
      * constructor; cbn [s_fp s_regions].
        -- apply mod0_add; assumption.
        -- intros r [E|I]; [subst r; cbn [fst snd]; auto|apply RG; exact I].
      * constructor; cbn [s_fp s_regions].
        -- apply mod0_add; assumption.
        -- intros r [E|I]; [subst r; cbn [fst snd]; auto|apply RG; exact I].
  - destruct (a_sub c <? size); constructor; cbn [s_fp s_regions]; assumption.
Qed.

Lemma alinv_run : forall fx c ops st, 0 < a_al c -> a_hdr c mod a_al c = 0 -> bases_aligned c ops ->
  AlInv c st -> AlInv c (arun fx c st ops).
Proof.
  intros fx c ops. induction ops as [|op r IH]; intros st Ha Hh B I; cbn [arun fold_left]; [exact I|].
  inversion B; subst. apply IH; auto. apply alinv_step; auto.
Qed.

Lemma arena_aligned : forall fx c ops, 0 < a_al c -> a_hdr c mod a_al c = 0 -> bases_aligned c ops ->
  forall r, In r (s_regions (arun fx c (ainit c) ops)) -> fst r mod a_al c = 0 /\ snd r mod a_al c = 0.
Proof.
  intros fx c ops Ha Hh B. apply (alinv_run fx c ops (ainit c) Ha Hh B). constructor; cbn.
  - reflexivity.
  - intros r [].
Qed.
