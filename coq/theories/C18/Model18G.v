(** C18 -- grammar ownership: who deletes a Grammar.  A grammar is owned either by the grammar pool's registry
    (XMLGrammarPoolImpl::fGrammarRegistry) or by the resolver's bucket (GrammarResolver::fGrammarBucket); both delete what they
    hold.  Modelled: GrammarResolver::putGrammar / orphanGrammar / reset / cacheGrammarFromParse, XMLGrammarPoolImpl::cacheGrammar /
    orphanGrammar / lockPool, and the scanner steps that use them: scanReset (a fresh DTDGrammar is put under the key "[dtd]") and
    the RE-KEYING of that grammar to the system id of the external subset in scanDocTypeDecl
    ([orphanGrammar("[dtd]"); setSystemId; putGrammar(fGrammar)] -- the value returned by orphanGrammar is ignored by the code).
    [bf = false] is the code as it is (orphanGrammar asks the pool first), [bf = true] the repaired order (the resolver's own
    bucket first, fixes/C18-orphan-grammar-bucket-first.patch).  No proofs here. *)
From Coq Require Import NArith List Bool.
Import ListNotations.
Local Open Scope N_scope.

Definition dtd_key : N := 0.                       (* XMLUni::fgDTDEntityString, "[dtd]" *)

Definition amem (k : N) (l : list (N * N)) : bool := existsb (fun e => fst e =? k) l.
Definition aremove (k : N) (l : list (N * N)) : list (N * N) := filter (fun e => negb (fst e =? k)) l.
Definition aget (k : N) (l : list (N * N)) : list N := map snd (filter (fun e => fst e =? k) l).

Record gstate : Type := {
  g_pool : list (N * N);        (* registry of the pool: key -> grammar id (owning) *)
  g_bucket : list (N * N);      (* fGrammarBucket of the resolver (owning) *)
  g_locked : bool;              (* XMLGrammarPoolImpl::fLocked *)
  g_next : N;                   (* next fresh grammar id *)
  g_deleted : list N;           (* grammars whose destructor ran, in order *)
  g_orphaned : list N           (* grammars that were taken out of their owner and dropped (leaked) *)
}.

Definition ginit : gstate :=
  {| g_pool := []; g_bucket := []; g_locked := false; g_next := 1; g_deleted := []; g_orphaned := [] |}.

(** GrammarResolver::putGrammar *)
Definition gput (cache : bool) (g k : N) (st : gstate) : gstate :=
  if cache && negb (g_locked st) && negb (amem k (g_pool st)) then          (* fGrammarPool->cacheGrammar accepted *)
    {| g_pool := (k, g) :: g_pool st; g_bucket := g_bucket st; g_locked := g_locked st; g_next := g_next st;
       g_deleted := g_deleted st; g_orphaned := g_orphaned st |}
  else                                                                       (* fGrammarBucket->put: an old value is deleted *)
    {| g_pool := g_pool st; g_bucket := (k, g) :: aremove k (g_bucket st); g_locked := g_locked st; g_next := g_next st;
       g_deleted := g_deleted st ++ aget k (g_bucket st); g_orphaned := g_orphaned st |}.

(** GrammarResolver::orphanGrammar; returns the grammars handed out (at most one) *)
Definition gorphan (bf cache : bool) (k : N) (st : gstate) : list N * gstate :=
  let from_bucket := (aget k (g_bucket st),
                      {| g_pool := g_pool st; g_bucket := aremove k (g_bucket st); g_locked := g_locked st; g_next := g_next st;
                         g_deleted := g_deleted st; g_orphaned := g_orphaned st |}) in
  let from_pool := (aget k (g_pool st),
                    {| g_pool := aremove k (g_pool st); g_bucket := g_bucket st; g_locked := g_locked st; g_next := g_next st;
                       g_deleted := g_deleted st; g_orphaned := g_orphaned st |}) in
  if negb cache then from_bucket
  else if bf then
    (if amem k (g_bucket st) then from_bucket else if negb (g_locked st) && amem k (g_pool st) then from_pool else ([], st))
  else
    (if negb (g_locked st) && amem k (g_pool st) then from_pool else if amem k (g_bucket st) then from_bucket else ([], st)).

Inductive gop : Type :=
| GParse (cache early : bool) (sys : N)    (* one parse: scanReset; unless it ends [early] (before the DOCTYPE), the re-keying to [sys] *)
| GLock | GUnlock                          (* application locks / unlocks the pool between parses *)
| GResolverReset.                          (* GrammarResolver::reset() outside a parse (parser reset / deletion) *)

Definition greset_bucket (st : gstate) : gstate :=
  {| g_pool := g_pool st; g_bucket := []; g_locked := g_locked st; g_next := g_next st;
     g_deleted := g_deleted st ++ map snd (g_bucket st); g_orphaned := g_orphaned st |}.

Definition gstep (bf : bool) (st : gstate) (op : gop) : gstate :=
  match op with
  | GLock => {| g_pool := g_pool st; g_bucket := g_bucket st; g_locked := true; g_next := g_next st;
                g_deleted := g_deleted st; g_orphaned := g_orphaned st |}
  | GUnlock => {| g_pool := g_pool st; g_bucket := g_bucket st; g_locked := false; g_next := g_next st;
                  g_deleted := g_deleted st; g_orphaned := g_orphaned st |}
  | GResolverReset => greset_bucket st
  | GParse cache early sys =>
      (* scanReset: cacheGrammarFromParse(flag) resets the bucket; a fresh DTDGrammar is put under "[dtd]" *)
      let st1 := greset_bucket st in
      let g := g_next st1 in
      let st2 := {| g_pool := g_pool st1; g_bucket := g_bucket st1; g_locked := g_locked st1; g_next := g + 1;
                    g_deleted := g_deleted st1; g_orphaned := g_orphaned st1 |} in
      let st3 := gput cache g dtd_key st2 in
      if early || negb cache then st3
      else
        (* scanDocTypeDecl, if (fToCacheGrammar): orphanGrammar("[dtd]") -- result ignored --, putGrammar(fGrammar) under sys *)
        let '(r, st4) := gorphan bf cache dtd_key st3 in
        let st5 := gput cache g sys st4 in
        {| g_pool := g_pool st5; g_bucket := g_bucket st5; g_locked := g_locked st5; g_next := g_next st5;
           g_deleted := g_deleted st5; g_orphaned := g_orphaned st5 ++ filter (fun x => negb (x =? g)) r |}
  end.

Definition grun (bf : bool) (st : gstate) (ops : list gop) : gstate := fold_left (gstep bf) ops st.

(** every grammar the model knows, each slot once: deleted, dropped, owned by the pool, owned by the bucket *)
Definition all_ids (st : gstate) : list N :=
  g_deleted st ++ g_orphaned st ++ map snd (g_pool st) ++ map snd (g_bucket st).
(** what the destructors of resolver and pool delete in the end *)
Definition final_deletes (st : gstate) : list N := g_deleted st ++ map snd (g_bucket st) ++ map snd (g_pool st).
