(** C18 -- scope guards on a constructor (util/Janitor.hpp: JanitorMemFunCall<T>, used as
      CleanupType cleanup(this, &T::cleanUp);  ... body ...  cleanup.release();
    in 55 constructors of the library: scanners, parsers, XMLURL, XMLUri, QName, RegularExpression, TraverseSchema, ...).
    A tiny statement language for such a body, executed for EVERY choice of the statement that throws.  No proofs here.

    JanitorMemFunCall (src/xercesc/util/Janitor.c):
      ~JanitorMemFunCall() { reset(); }      reset(p) { if (fObject != 0 && fToCall != 0) (fObject->*fToCall)(); fObject = p; }
      release() { p = fObject; fObject = 0; return p; }
    C++: when the body of a constructor throws, the destructor of the object under construction is NOT run; only the guard
    (a local) is destroyed.  Raw-pointer members are released by nobody else. *)
From Coq Require Import NArith List Bool.
From XV Require Import C18.Spec18 C18.Model18.
Import ListNotations.
Local Open Scope N_scope.

Inductive jstmt : Type :=
| JAlloc (slot : N)     (* fSlot = new (fMemoryManager) T(...) / allocate / replicate : may throw (the callee's constructor) *)
| JCall                 (* any other call that may end in an exception *)
| JRelease.             (* cleanup.release() *)

Record jst : Type := {
  j_mem : list (N * N);      (* member slot -> address it holds (most recent assignment first) *)
  j_armed : bool;            (* JanitorMemFunCall::fObject != 0 *)
  j_next : N;                (* the manager hands out fresh addresses *)
  j_tr : list event          (* calls that reached the manager *)
}.

Fixpoint slot_addr (slot : N) (mem : list (N * N)) : option N :=
  match mem with
  | [] => None
  | (s, a) :: r => if s =? slot then Some a else slot_addr slot r
  end.

(** the cleanUp member function / the destructor: `delete fSlot` for every slot of the list, in order
    (delete of a null member is a no-op; the member is not reset, as in the code) *)
Definition free_slots (m : N) (slots : list N) (mem : list (N * N)) : list event :=
  flat_map (fun s => match slot_addr s mem with Some a => [Free m a] | None => [] end) slots.

Definition jalloc (m : N) (st : jst) (slot : N) : jst :=
  {| j_mem := (slot, j_next st) :: j_mem st; j_armed := j_armed st; j_next := N.succ (j_next st);
     j_tr := j_tr st ++ [Alloc m (j_next st) 1] |}.

Definition jdisarm (st : jst) : jst :=
  {| j_mem := j_mem st; j_armed := false; j_next := j_next st; j_tr := j_tr st |}.

(** [k] = number of throwing-capable statements that still complete before one throws; None = nothing throws.
    result: state at the exit, and whether the exit is an exception *)
Fixpoint jbody (m : N) (st : jst) (body : list jstmt) (k : option nat) : jst * bool :=
  match body with
  | [] => (st, false)
  | JRelease :: r => jbody m (jdisarm st) r k
  | JAlloc slot :: r =>
      match k with
      | Some O => (st, true)
      | Some (S k') => jbody m (jalloc m st slot) r (Some k')
      | None => jbody m (jalloc m st slot) r None
      end
  | JCall :: r =>
      match k with
      | Some O => (st, true)
      | Some (S k') => jbody m st r (Some k')
      | None => jbody m st r None
      end
  end.

Record jctor : Type := {
  c_init : list N;          (* members allocated in the initialiser list (before the guard exists) *)
  c_body : list jstmt;      (* statements after `CleanupType cleanup(this, &T::cleanUp);` *)
  c_cleanup : list N;       (* members T::cleanUp releases *)
  c_dtor : list N           (* members ~T releases *)
}.

(** the whole life of the object for throw choice [k] and manager [m], first address [base]:
    initialiser list; guard armed; body; at the exit the guard's destructor runs cleanUp iff still armed;
    if the constructor completed, the object is later destroyed (destructor).  Result: the manager's trace. *)
Definition jlife (m base : N) (c : jctor) (k : option nat) : list event :=
  let st0 := fold_left (jalloc m) (c_init c) {| j_mem := []; j_armed := true; j_next := base; j_tr := [] |} in
  let '(st1, threw) := jbody m st0 (c_body c) k in
  let guard := if j_armed st1 then free_slots m (c_cleanup c) (j_mem st1) else [] in
  j_tr st1 ++ guard ++ (if threw then [] else free_slots m (c_dtor c) (j_mem st1)).

(** slots the constructor assigns, in order *)
Definition body_slots (body : list jstmt) : list N :=
  flat_map (fun s => match s with JAlloc x => [x] | _ => [] end) body.
Definition ctor_slots (c : jctor) : list N := c_init c ++ body_slots (c_body c).

(** `cleanup.release()` is the last statement and occurs nowhere else *)
Definition is_release (s : jstmt) : bool := match s with JRelease => true | _ => false end.
Fixpoint release_last (body : list jstmt) : bool :=
  match body with
  | [] => false
  | [s] => is_release s
  | s :: r => negb (is_release s) && release_last r
  end.

Fixpoint nodupb (l : list N) : bool :=
  match l with [] => true | x :: r => negb (existsb (N.eqb x) r) && nodupb r end.
Definition subsetb (a b : list N) : bool := forallb (fun x => existsb (N.eqb x) b) a.

(** the obligation the translator instantiates per constructor read from /repo *)
Definition ctor_ok (c : jctor) : bool :=
  nodupb (ctor_slots c) && nodupb (c_cleanup c) && nodupb (c_dtor c) &&
  subsetb (ctor_slots c) (c_cleanup c) && subsetb (ctor_slots c) (c_dtor c) && release_last (c_body c).

(** shape the translator gives a constructor read from the source: a possibly throwing call before and after every
    allocation, `cleanup.release()` where the source has it: last ([late] = false), or followed by more work ([late] = true) *)
Definition body_of (slots : list N) (release_then_work : bool) : list jstmt :=
  JCall :: flat_map (fun s => [JAlloc s; JCall]) slots ++ (if release_then_work then [JRelease; JCall] else [JRelease]).

(** ---- Janitor<T> / ArrayJanitor<T> as local guards over one block ------------------------------------- *)
(** a function body that allocates a temporary, puts it under a Janitor, may throw at any of [n] later calls, optionally
    hands the block over (release()/orphan()) to a new owner that frees it later, optionally resets the janitor to another block *)
Inductive ljop : Type :=
| LCall                 (* a call that may throw *)
| LReset                (* janitor.reset(new block) : deletes the held block, holds the new one *)
| LRelease.             (* p = janitor.release() : the caller / a container owns p from here and frees it at the end *)

Record ljst : Type := { lj_held : option N; lj_owned : list N; lj_nx : N; lj_t : list event }.

Fixpoint ljrun (m : N) (st : ljst) (ops : list ljop) (k : option nat) : ljst :=
  match ops with
  | [] => st
  | LCall :: r =>
      match k with
      | Some O => st
      | Some (S k') => ljrun m st r (Some k')
      | None => ljrun m st r None
      end
  | LReset :: r =>
      ljrun m {| lj_held := Some (lj_nx st); lj_owned := lj_owned st; lj_nx := N.succ (lj_nx st);
                lj_t := lj_t st ++ [Alloc m (lj_nx st) 1] ++ (match lj_held st with Some a => [Free m a] | None => [] end) |} r k
  | LRelease :: r =>
      ljrun m {| lj_held := None; lj_nx := lj_nx st; lj_t := lj_t st;
                lj_owned := match lj_held st with Some a => a :: lj_owned st | None => lj_owned st end |} r k
  end.

(** whole activation: allocate, guard, run, ~Janitor (reset()) on EVERY exit, then the new owners free what they adopted *)
Definition ljlife (m base : N) (ops : list ljop) (k : option nat) : list event :=
  let st := ljrun m {| lj_held := Some base; lj_owned := []; lj_nx := N.succ base; lj_t := [Alloc m base 1] |} ops k in
  lj_t st ++ (match lj_held st with Some a => [Free m a] | None => [] end) ++ map (Free m) (lj_owned st).
