(** C18 -- message-loader state on top of the Initialize/Terminate model: XMLMsgLoader::fLocale / fPath are strings
    replicated with the global manager in Initialize (setLocale(locale); setNLSHome(nlsHome)) and released in Terminate
    (setLocale(0); setNLSHome(0)), each setter first releasing the current string through the CURRENT global manager
    (src/xercesc/util/XMLMsgLoader.cpp, PlatformUtils.cpp).  No proofs here. *)
From Coq Require Import NArith List Bool.
From XV Require Import C18.Model18I.
Import ListNotations.
Local Open Scope N_scope.

(** Initialize with all its arguments: user manager, DOM heap sizes, [loc] = a locale string the loader keeps
    (two letters or ll_CC...), [nls] = nlsHome is non-null, [ph] = application panic handler; or Terminate *)
Inductive mop : Type :=
| MInit (user : option N) (dom : option (N * N * N)) (loc nls ph : bool)
| MTerm.

Definition to_iop (op : mop) : iop :=
  match op with MInit u d _ _ _ => Init u d | MTerm => Term end.

Inductive sevent : Type :=
| EStrAlloc (g : gm)                 (* XMLString::replicate(..., fgMemoryManager) with global manager g *)
| EStrFree (owner via : gm).         (* fgMemoryManager->deallocate(string) : allocated by [owner], released through [via] *)

Record mstate : Type := {
  m_i : istate;
  m_loc : option gm;        (* XMLMsgLoader::fLocale : who allocated it *)
  m_nls : option gm;        (* XMLMsgLoader::fPath *)
  m_ph : option bool;       (* Some true: fgUserPanicHandler set; Some false: fgDefaultPanicHandler allocated *)
  m_slog : list sevent
}.

Definition mpristine (d : N * N * N) : mstate :=
  {| m_i := pristine d; m_loc := None; m_nls := None; m_ph := None; m_slog := [] |}.

Definition release (cur : option gm) (via : gm) : list sevent :=
  match cur with Some o => [EStrFree o via] | None => [] end.

(** setX(arg): release the current string through the current manager, then replicate the argument *)
Definition setter (cur : option gm) (arg : bool) (g : gm) : option gm * list sevent :=
  (if arg then Some g else None, release cur g ++ (if arg then [EStrAlloc g] else [])).

Definition mstep (rd : option (N * N * N)) (cap : N) (st : mstate) (op : mop) : mstate :=
  let i' := istep rd cap (m_i st) (to_iop op) in
  match op with
  | MInit _ _ l n ph =>
      if (i_cnt (m_i st) =? 0) && (i_cnt i' =? 1) then          (* the body of Initialize ran *)
        let g := i_mgr i' in
        let '(loc', e1) := setter (m_loc st) l g in
        let '(nls', e2) := setter (m_nls st) n g in
        {| m_i := i'; m_loc := loc'; m_nls := nls'; m_ph := Some ph; m_slog := m_slog st ++ e1 ++ e2 |}
      else {| m_i := i'; m_loc := m_loc st; m_nls := m_nls st; m_ph := m_ph st; m_slog := m_slog st |}
  | MTerm =>
      if negb (i_cnt (m_i st) =? 0) && (i_cnt i' =? 0) then      (* the body of Terminate ran *)
        let g := i_mgr (m_i st) in
        let '(loc', e1) := setter (m_loc st) false g in
        let '(nls', e2) := setter (m_nls st) false g in
        {| m_i := i'; m_loc := loc'; m_nls := nls'; m_ph := None; m_slog := m_slog st ++ e1 ++ e2 |}
      else {| m_i := i'; m_loc := m_loc st; m_nls := m_nls st; m_ph := m_ph st; m_slog := m_slog st |}
  end.

Definition mrun (rd : option (N * N * N)) (cap : N) (st : mstate) (ops : list mop) : mstate :=
  fold_left (mstep rd cap) ops st.
