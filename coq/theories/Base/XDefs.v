(** Shared basic definitions: bytes, UTF-16 code units and code points are all [N]. *)
From Coq Require Export NArith List Bool Lia.
Export ListNotations.
Local Open Scope N_scope.

Definition tbl (t : list N) (i : N) : N := nth (N.to_nat i) t 0.

Definition is_byte (b : N) : Prop := b < 256.
Definition bytes (l : list N) : Prop := Forall is_byte l.

(** [nrange n] = [0; 1; ...; n-1] as N, used for finite sweeps lifted by [forallb_forall]. *)
Definition nrange (n : nat) : list N := map N.of_nat (seq 0 n).

Lemma nrange_in : forall n b, b < N.of_nat n -> In b (nrange n).
Proof.
  intros n b H. unfold nrange. apply in_map_iff. exists (N.to_nat b). split.
  - apply N2Nat.id.
  - apply in_seq. lia.
Qed.

Lemma sweep256 : forall (P : N -> bool), forallb P (nrange 256) = true -> forall b, b < 256 -> P b = true.
Proof.
  intros P H b Hb. rewrite forallb_forall in H. apply H. apply nrange_in. exact Hb.
Qed.

Inductive res (A E : Type) : Type := Ok (a : A) | Err (e : E).
Arguments Ok {A E} a.
Arguments Err {A E} e.

Fixpoint sumN (l : list N) : N := match l with [] => 0 | x :: r => x + sumN r end.

Lemma sumN_app : forall a b, sumN (a ++ b) = sumN a + sumN b.
Proof. induction a as [|x a IH]; intros b; cbn [sumN app]; [reflexivity|]. rewrite IH. lia. Qed.
