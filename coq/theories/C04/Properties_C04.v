(** Property C04 -- the parse result is independent of input chunking, buffer alignment and source type.
    Only property theorems here, each closed by a lemma of Proofs04*.v and followed by [Print Assumptions].
    Spec: Spec04.v ([Dec] = decoding of the whole byte string, [eol_norm] = XML line-end normalisation; neither
    mentions reads or buffers).  Model: Model04.v (XMLReader.cpp).  Contract on the transcoder: Contract04.v. *)
From XV Require Import C04.Spec04 C04.Model04 C04.Contract04 C04.Proofs04a C04.Proofs04b C04.Proofs04c C04.Proofs04d C04.Proofs04e
                       C04.Proofs04f C04.Proofs04g C04.Proofs04h C04.Inst04 C04.Spec04t C04.Model04b C04.Proofs04i.
From Coq Require Import Lia.
Local Open Scope N_scope.

(** T04_chars.  For EVERY partition of the byte stream into non-empty reads, every transcoder meeting the contract,
    every buffer geometry (character buffer >= 3, raw buffer >= one longest byte sequence, any low-water mark),
    both variants of refreshRawBuffer and both line-end regimes: repeated getNextChar delivers exactly the
    line-end-normalised decoding of the whole byte string, then reports the end of input.  The right-hand side
    does not mention the chunks, so the result is independent of chunking and of where characters, surrogate
    pairs and CR LF pairs fall relative to the refill points. *)
Theorem T04_chars : forall step maxSeq c chunks cs st fuel,
  xcontract step (X c) maxSeq -> sizes_ok c maxSeq -> Forall (fun ch => ch <> []) chunks ->
  Dec step (concat chunks) cs st -> st = Clean -> (length cs < fuel)%nat ->
  deliver c fuel (mk_reader chunks) = (eol_norm (nel c) cs, EndEOF).
Proof.
  intros step maxSeq c chunks cs st fuel HC HS Hne D Hnb Hf.
  exact (deliver_ok step maxSeq c HC HS fuel _ cs st (St_init step c chunks cs st Hne D) Hnb Hf).
Qed.
Print Assumptions T04_chars.

(** the corollary in the words of the property: two ways of splitting the same bytes deliver the same characters *)
Theorem T04_chunking : forall step maxSeq c chunks1 chunks2 cs st fuel,
  xcontract step (X c) maxSeq -> sizes_ok c maxSeq ->
  Forall (fun ch => ch <> []) chunks1 -> Forall (fun ch => ch <> []) chunks2 -> concat chunks1 = concat chunks2 ->
  Dec step (concat chunks1) cs st -> st = Clean -> (length cs < fuel)%nat ->
  deliver c fuel (mk_reader chunks1) = deliver c fuel (mk_reader chunks2).
Proof.
  intros step maxSeq c k1 k2 cs st fuel HC HS H1 H2 E D Hnb Hf.
  rewrite (T04_chars step maxSeq c k1 cs st fuel HC HS H1 D Hnb Hf).
  rewrite E in D. rewrite (T04_chars step maxSeq c k2 cs st fuel HC HS H2 D Hnb Hf). reflexivity.
Qed.
Print Assumptions T04_chunking.

(** ill-formed input: for every chunking the SAME transcoder error ends the delivery, after a prefix of the
    specified character sequence (how long that prefix is does depend on the block structure: finding FA below) *)
Theorem T04_chars_error : forall step maxSeq c chunks cs e fuel,
  xcontract step (X c) maxSeq -> sizes_ok c maxSeq -> Forall (fun ch => ch <> []) chunks ->
  Dec step (concat chunks) cs (Bad e) -> (length cs < fuel)%nat ->
  exists p q, deliver c fuel (mk_reader chunks) = (p, EndErr (XErr e)) /\ eol_norm (nel c) cs = p ++ q.
Proof.
  intros step maxSeq c chunks cs e fuel HC HS Hne D Hf.
  exact (deliver_bad step maxSeq c HC HS fuel _ cs e (St_init step c chunks cs (Bad e) Hne D) Hf).
Qed.
Print Assumptions T04_chars_error.

(** input that ends inside a character (odd byte of UTF-16, 1-3 bytes of UCS-4, the head of a multi-byte UTF-8 sequence): after the
    repair of finding F2 (XMLReader::xcodeMoreChars throws Trans_BadSrcSeq when the transcoder needs more bytes and the source
    has none) EVERY chunking ends the delivery with that error, after a prefix of the specified characters (all of them, except
    that a final CR is consumed by handleEOL's look-ahead, which hits the error first) *)
Theorem T04_chars_truncated : forall step maxSeq c chunks cs fuel,
  xcontract step (X c) maxSeq -> sizes_ok c maxSeq -> Forall (fun ch => ch <> []) chunks ->
  Dec step (concat chunks) cs Truncated -> (length cs < fuel)%nat ->
  exists p q, deliver c fuel (mk_reader chunks) = (p, EndErr (XErr E_Trans_BadSrcSeq)) /\ eol_norm (nel c) cs = p ++ q.
Proof.
  intros step maxSeq c chunks cs fuel HC HS Hne D Hf.
  exact (deliver_trunc step maxSeq c HC HS fuel _ cs (St_init step c chunks cs Truncated Hne D) Hf).
Qed.
Print Assumptions T04_chars_truncated.

(** one refill keeps the remaining character sequence: the key invariant (also the C01 index invariant [good]) *)
Theorem T04_refresh_keeps_remaining : forall step maxSeq c r cs st,
  xcontract step (X c) maxSeq -> sizes_ok c maxSeq -> St step c r cs st ->
  match refresh_char c r with
  | Err Fault | Err FuelOut => False
  | Err (XErr e) => errOK st e
  | Ok (r', b) => St step c r' cs st /\ (b = false -> cs = []) /\ (exists new, ccur r' = ccur r ++ new)
  end.
Proof.
  intros step maxSeq c r cs st HC HS H. pose proof (refresh_char_spec step maxSeq c HC HS r cs st H) as Hr.
  destruct (refresh_char c r) as [[r' b]|[| |e]]; auto.
  destruct Hr as [A [_ [_ [B [_ [C _]]]]]]. split; [exact A|]. split; [|exact B]. intros Hb. now destruct (C Hb).
Qed.
Print Assumptions T04_refresh_keeps_remaining.

(** T04_tokens (partial: skippedChar, peekNextChar, skippedString, peekString; getNextChar is T04_chars; for getName,
    getNextCharIfNot, skippedSpace and skipSpaces only safety and state preservation are proved -- C01/T01_reader_inv):
    in every reachable state the answer of a token operation is a function of the remaining character sequence [cs]
    alone -- not of the buffer contents, refill points or chunking -- and the state afterwards holds the specified rest *)
Theorem T04_tokens_partial : forall step maxSeq c r cs st,
  xcontract step (X c) maxSeq -> sizes_ok c maxSeq -> St step c r cs st -> st = Clean ->
  (forall ch, match skipped_char c r ch with
              | Ok (r', b) => St step c r' (snd (spec_skipped_char ch cs)) st /\ b = fst (spec_skipped_char ch cs)
              | Err _ => False end) /\
  (match peek_next c r with Ok (r', o) => St step c r' cs st /\ o = spec_peek (nel c) cs | Err _ => False end) /\
  (forall s, (length s + 1 <= cbsz c)%nat ->
             match skipped_string c r s with
             | Ok (r', b) => St step c r' (snd (spec_skipped_string s cs)) st /\ b = fst (spec_skipped_string s cs)
             | Err _ => False end) /\
  (forall s, (length s + 1 <= cbsz c)%nat ->
             match peek_string c r s with Ok (r', b) => St step c r' cs st /\ b = is_prefix s cs | Err _ => False end).
Proof.
  intros step maxSeq c r cs st HC HS H Hnb. repeat split.
  - intros ch. exact (skipped_char_spec step maxSeq c HC HS r cs st ch H Hnb).
  - exact (peek_next_spec step maxSeq c HC HS r cs st H Hnb).
  - intros s Hs. exact (skipped_string_spec step maxSeq c HC HS r cs st s H Hnb Hs).
  - intros s Hs. exact (peek_string_spec step maxSeq c HC HS r cs st s H Hnb Hs).
Qed.
Print Assumptions T04_tokens_partial.

(** every reachable state: the initial reader is in state [St] with the decoding of the whole input, and every
    operation of the operation language keeps [St] (with fewer or equally many characters left) *)
Theorem T04_ops_keep_state : forall step maxSeq c fuel r cs st o,
  xcontract step (X c) maxSeq -> sizes_ok c maxSeq -> safename c = true -> St step c r cs st ->
  (2 * length cs + 2 <= fuel)%nat ->
  match do_op c fuel r o with
  | Err Fault | Err FuelOut => False
  | Err (XErr e) => errOK st e
  | Ok (r', _) => exists cs', St step c r' cs' st /\ (length cs' <= length cs)%nat
  end.
Proof.
  intros step maxSeq c fuel r cs st o HC HS Hsafe H Hf.
  exact (do_op_safe step maxSeq c HC HS Hsafe fuel r cs st o H Hf).
Qed.
Print Assumptions T04_ops_keep_state.

(** T04_pop_keeps_remaining (ReaderMgr::popReader, non-throwing path, modelled as [pop_loop] over the reader stack): when the
    entity on top ends, a parent that still has characters -- in its buffer OR not yet decoded, e.g. because the ';' of the
    reference was the last character of its 16K buffer -- becomes the current reader with exactly its remaining
    characters; only a parent that is really exhausted is skipped.  So references behave the same wherever their ';'
    falls relative to the refill points of the containing entity. *)
Theorem T04_pop_keeps_remaining : forall step maxSeq c p rest cs st,
  xcontract step (X c) maxSeq -> sizes_ok c maxSeq -> St step c p cs st -> st = Clean -> cs <> [] ->
  exists p', pop_reader c (p :: rest) = Ok (Some (p', rest)) /\ St step c p' cs st /\ ccur p' <> [].
Proof.
  intros step maxSeq c p rest cs st HC HS H Hnb Hne. exact (pop_loop_keeps step maxSeq c HC HS p rest cs st H Hnb Hne).
Qed.
Print Assumptions T04_pop_keeps_remaining.

Theorem T04_pop_skips_exhausted : forall step maxSeq c p q rest st,
  xcontract step (X c) maxSeq -> sizes_ok c maxSeq -> St step c p [] st -> st = Clean ->
  pop_reader c (p :: q :: rest) = pop_reader c (q :: rest) /\ pop_reader c [p] = Ok None.
Proof.
  intros step maxSeq c p q rest st HC HS H Hnb. split.
  - exact (pop_loop_skips step maxSeq c HC HS p q rest st H Hnb).
  - exact (pop_loop_last_exhausted step maxSeq c HC HS p st H Hnb).
Qed.
Print Assumptions T04_pop_keeps_remaining.

(** non-vacuity / the breaking change it excludes: a parent whose 4-character buffer is exhausted while two more
    characters are still undecoded; popping refills it (dropping the refresh would report the end of the input) *)
Example T04_pop_refills_parent :
  match run_ops (mk_cfg 3 false 4 8 2 true true) 16 (mk_reader [[0x61; 0x62; 0x63; 0x3B; 0x64; 0x65]]) [OGet; OGet; OGet; OGet] with
  | (_, None, p) => ccur p = [] /\ noMore p = false /\
                    match pop_reader (mk_cfg 3 false 4 8 2 true true) [p] with
                    | Ok (Some (p', [])) => ccur p' = [0x64; 0x65]
                    | _ => False
                    end
  | _ => False
  end.
Proof. vm_compute. auto. Qed.

(** T04_bom_strip: removing a UCS-4 byte order mark from the raw buffer removes exactly those four bytes from the input that
    is still to be decoded -- no byte of the first raw buffer is lost or decoded twice -- and keeps the index invariant.
    (Tie to doInitDecode: the encoding-variant oracle of checks/C04.py, same text with and without BOM.) *)
Theorem T04_bom_strip : forall c r, good c r ->
  good c (ucs4_bom_strip r) /\
  (is_ucs4_bom (rcur r) = true -> pending (ucs4_bom_strip r) = skipn 4 (pending r) /\ (4 <= length (rcur r))%nat) /\
  (is_ucs4_bom (rcur r) = false -> ucs4_bom_strip r = r).
Proof.
  intros c r [G1 [G2 G3]]. unfold ucs4_bom_strip. destruct (is_ucs4_bom (rcur r)) eqn:E.
  - assert (L : (4 <= length (rcur r))%nat).
    { destruct (rcur r) as [|a [|b [|d [|e t]]]]; try discriminate. cbn. lia. }
    split; [|split; [|discriminate]].
    + unfold good. cbn [ccur cidx rcur ridx strm]. rewrite skipn_length. repeat split; auto. lia.
    + intros _. split; [|exact L]. unfold pending. cbn [rcur strm]. rewrite skipn_app.
      replace (4 - length (rcur r))%nat with 0%nat by lia. reflexivity.
  - split; [unfold good; auto|]. split; [discriminate|reflexivity].
Qed.
Print Assumptions T04_bom_strip.

(** the specification is total and deterministic: every byte string has exactly one decoding *)
Theorem T04_spec_total : forall step X maxSeq s, xcontract step X maxSeq -> exists cs st, Dec step s cs st.
Proof. intros step X maxSeq s HC. exact (Dec_total step X maxSeq HC s). Qed.
Theorem T04_spec_deterministic : forall step X maxSeq s cs st cs' st', xcontract step X maxSeq ->
  Dec step s cs st -> Dec step s cs' st' -> cs = cs' /\ st = st'.
Proof. intros step X maxSeq s cs st cs' st' HC D1 D2. exact (Dec_det step X maxSeq HC s cs st D1 cs' st' D2). Qed.
Theorem T04_spec_function : forall step X maxSeq s, xcontract step X maxSeq ->
  Dec step s (fst (dec_fn step (length s) s)) (snd (dec_fn step (length s) s)).
Proof. intros step X maxSeq s HC. exact (dec_fn_Dec step X maxSeq HC (length s) s (le_n _)). Qed.
Print Assumptions T04_spec_function.

(** the contract is met by the transcoder models of C05 for ISO-8859-1, UTF-16 (both byte orders) and UTF-8, so the
    theorems above apply to them with the real buffer sizes regenerated from XMLReader.hpp *)
Theorem T04_contract_latin1 : xcontract step_latin1 xc_latin1 1.
Proof. exact latin1_contract. Qed.
Theorem T04_contract_utf16 : forall sw, xcontract (step_utf16 sw) (xc_utf16 sw) 2.
Proof. exact utf16_contract. Qed.
(** ... and by the UTF-8 transcoder model: C05's step function [x8_step] (the one T05_utf8_dec_sound/complete are about)
    iterated by Model04.x8_fast; at most 5 trailing bytes are ever awaited *)
Theorem T04_contract_utf8 : xcontract step_utf8 xc_utf8 6.
Proof. exact utf8_contract. Qed.
Print Assumptions T04_contract_utf8.

Theorem T04_real_sizes_ok : forall enc v11 lw fill safe, sizes_ok (real_cfg enc v11 lw fill safe) 4.
Proof.
  intros. unfold sizes_ok, real_cfg, mk_cfg. cbn [cbsz rbsz]. unfold kCharBufSize, kRawBufSize. lia.
Qed.
Theorem T04_real_sizes_ok_6 : forall enc v11 lw fill safe, sizes_ok (real_cfg enc v11 lw fill safe) 6.
Proof.
  intros. unfold sizes_ok, real_cfg, mk_cfg. cbn [cbsz rbsz]. unfold kCharBufSize, kRawBufSize. lia.
Qed.
Print Assumptions T04_real_sizes_ok.

Theorem T04_chars_utf16_real : forall sw v11 lw fill safe chunks cs st fuel,
  Forall (fun ch => ch <> []) chunks -> Dec (step_utf16 sw) (concat chunks) cs st -> st = Clean ->
  (length cs < fuel)%nat ->
  deliver (real_cfg (if sw then 2 else 1) v11 lw fill safe) fuel (mk_reader chunks) = (eol_norm v11 cs, EndEOF).
Proof.
  intros sw v11 lw fill safe chunks cs st fuel Hne D Hnb Hf.
  assert (HS : sizes_ok (real_cfg (if sw then 2 else 1) v11 lw fill safe) 2).
  { unfold sizes_ok, real_cfg, mk_cfg. cbn [cbsz rbsz]. unfold kCharBufSize, kRawBufSize. lia. }
  refine (T04_chars (step_utf16 sw) 2 _ chunks cs st fuel _ HS Hne D Hnb Hf).
  destruct sw; exact (utf16_contract _).
Qed.
Print Assumptions T04_chars_utf16_real.

Theorem T04_chars_utf8_real : forall v11 lw fill safe chunks cs st fuel,
  Forall (fun ch => ch <> []) chunks -> Dec step_utf8 (concat chunks) cs st -> st = Clean ->
  (length cs < fuel)%nat ->
  deliver (real_cfg 0 v11 lw fill safe) fuel (mk_reader chunks) = (eol_norm v11 cs, EndEOF).
Proof.
  intros v11 lw fill safe chunks cs st fuel Hne D Hnb Hf.
  exact (T04_chars step_utf8 6 (real_cfg 0 v11 lw fill safe) chunks cs st fuel utf8_contract
           (T04_real_sizes_ok_6 0 v11 lw fill safe) Hne D Hnb Hf).
Qed.
Print Assumptions T04_chars_utf8_real.

(* ------------------------------------------------------------------------------------------- *)
(** * T04_tokens, character-level operations at FULL strength (Spec04t.v: functions of position and remaining characters).
    In every reachable state [St r cs st] -- any chunking, any buffer alignment, any input status -- the operation returns
    exactly the specified answer, leaves the reader at the specified line/column and with exactly the specified
    characters remaining; a transcoder error can only be the one the input's status allows, a model fault never.
    [nelcol c = true] = the column repair of finding FD (fixes/C04-nel-column.patch); without it see
    T04_column_depends_on_alignment_refuted below. *)
Theorem T04_tokens_chars : forall step maxSeq c r cs st,
  xcontract step (X c) maxSeq -> sizes_ok c maxSeq -> nelcol c = true -> St step c r cs st ->
  okres st (get_next c r) (fun a => tkpost step c st (tk_get (nel c) (rpos r) cs) (fst a) (snd a)) /\
  (forall notc, okres st (get_next_if_not c r notc)
                      (fun a => tkpost step c st (tk_get_if_not (nel c) notc (rpos r) cs) (fst a) (snd a))) /\
  (forall ch, okres st (skipped_char c r ch) (fun a => tkpost step c st (tk_skipped_char ch (rpos r) cs) (fst a) (snd a))) /\
  okres st (skip_if_quote c r) (fun a => tkpost step c st (tk_skip_if_quote (rpos r) cs) (fst a) (snd a)) /\
  okres st (skipped_space c r) (fun a => tkpost step c st (tk_skipped_space (isWS c) (nel c) (rpos r) cs) (fst a) (snd a)).
Proof.
  intros step maxSeq c r cs st HC HS Hn H. repeat split.
  - exact (get_next_tk step maxSeq c HC HS Hn r cs st H).
  - intros notc. exact (get_next_if_not_tk step maxSeq c HC HS Hn r cs st notc H).
  - intros ch. exact (skipped_char_tk step maxSeq c HC HS r cs st ch H).
  - exact (skip_if_quote_tk step maxSeq c HC HS r cs st H).
  - exact (skipped_space_tk step maxSeq c HC HS Hn r cs st H).
Qed.
Print Assumptions T04_tokens_chars.

(** skipSpaces, getSpaces, getUpToCharOrWS: the longest run of white space (resp. of characters that are neither white space
    nor the given one) with line-end handling, [tk_run]; the same function of the characters however many refills the run spans *)
Theorem T04_tokens_runs : forall step maxSeq c fuel r cs st,
  xcontract step (X c) maxSeq -> sizes_ok c maxSeq -> nelcol c = true -> St step c r cs st -> (2 * length cs + 2 <= fuel)%nat ->
  okres st (skip_spaces c fuel r false)
        (fun a => let sp := tk_run (isWS c) (nel c) (rpos r) [] cs in
                  St step c (fst a) (snd sp) st /\
                  snd a = (fst (fst (fst sp)), match snd (fst (fst sp)) with [] => false | _ => true end) /\
                  rpos (fst a) = snd (fst sp)) /\
  okres st (get_spaces c fuel r)
        (fun a => let sp := tk_run (isWS c) (nel c) (rpos r) [] cs in
                  St step c (fst a) (snd sp) st /\ snd a = (fst (fst (fst sp)), rev (snd (fst (fst sp)))) /\
                  rpos (fst a) = snd (fst sp)) /\
  (forall ch, isWS c 0xA = true ->
     okres st (get_up_to c fuel r ch)
        (fun a => let sp := tk_run (upto_take c ch) (nel c) (rpos r) [] cs in
                  St step c (fst a) (snd sp) st /\ snd a = (fst (fst (fst sp)), rev (snd (fst (fst sp)))) /\
                  rpos (fst a) = snd (fst sp))).
Proof.
  intros step maxSeq c fuel r cs st HC HS Hn H Hf. split; [|split].
  - exact (skip_spaces_tk step maxSeq c HC HS Hn fuel r cs st H Hf).
  - exact (get_spaces_tk step maxSeq c HC HS Hn fuel r cs st H Hf).
  - intros ch Hlf. exact (get_up_to_tk step maxSeq c HC HS Hn fuel r cs st ch Hlf H Hf).
Qed.
Print Assumptions T04_tokens_runs.

(** movePlainContentChars moves a prefix of the run of plain content characters -- how long a prefix depends on the buffer
    BY DESIGN (the scanners call it in a loop) -- advances the column by exactly that many and leaves exactly the rest;
    it stops early only at the end of the buffer.  (The character-data loop around it: Model04b.content_run, correspondence only.) *)
Theorem T04_move_plain : forall step maxSeq c isPlain r cs st,
  xcontract step (X c) maxSeq -> sizes_ok c maxSeq -> St step c r cs st ->
  okres st (move_plain isPlain r)
        (fun a => let k := length (snd a) in
                  snd a = firstn k (plain_run isPlain cs) /\ (k <= length (plain_run isPlain cs))%nat /\
                  St step c (fst a) (skipn k cs) st /\ rpos (fst a) = col1 (rpos r) (N.of_nat k) /\
                  (ccur (fst a) = [] \/ exists x t, skipn k cs = x :: t /\ isPlain x = false)).
Proof. intros step maxSeq c isPlain r cs st HC HS H. exact (move_plain_tk step c isPlain r cs st H). Qed.
Print Assumptions T04_move_plain.

(** FD: as written (nelcol = false) handleEOL does not count a column for U+0085 / U+2028 under XML 1.0 rules, but
    movePlainContentChars (and skippedChar, getName, ...) do: the same characters consumed by the scanner's loop
    "movePlainContentChars; getNextChar" leave a different column depending on whether the character is the first of a
    refilled buffer -- 4-character buffer, the NEL at index 4 (first of the second buffer) vs index 3 *)
Definition fd_ops : list xop := [XBase OGet; XMovePlain; XBase OGet; XMovePlain; XBase OGet; XMovePlain].
Fixpoint run_xops (c : cfg) (isPlain : N -> bool) (fuel : nat) (r : reader) (ops : list xop) : option reader :=
  match ops with
  | [] => Some r
  | o :: rest => match do_xop c isPlain fuel r o with Ok (r', _) => run_xops c isPlain fuel r' rest | Err _ => None end
  end.
Theorem T04_column_depends_on_alignment_refuted :
  (* 'x' x x x NEL y  : all six characters consumed, column 6 instead of 7 *)
  option_map col (run_xops (mk_cfg 3 false 4 8 2 true true) (is_plain false) 16
                           (mk_reader [[0x78; 0x78; 0x78; 0x78; 0x85; 0x79]]) fd_ops) = Some 6 /\
  (* 'x' x x NEL x y  : the same number of characters, column 7 *)
  option_map col (run_xops (mk_cfg 3 false 4 8 2 true true) (is_plain false) 16
                           (mk_reader [[0x78; 0x78; 0x78; 0x85; 0x78; 0x79]]) fd_ops) = Some 7 /\
  (* repaired: 7 in both alignments *)
  option_map col (run_xops (with_nelcol (mk_cfg 3 false 4 8 2 true true) true) (is_plain false) 16
                           (mk_reader [[0x78; 0x78; 0x78; 0x78; 0x85; 0x79]]) fd_ops) = Some 7.
Proof. repeat split; vm_compute; reflexivity. Qed.

(** non-vacuity of T04_tokens_runs' side condition and a run across three refills of a 4-character buffer *)
Example T04_tokens_nonvacuous :
  isWS (mk_cfg 1 false 4 8 2 true true) 0xA = true /\ nelcol (with_nelcol (mk_cfg 1 false 4 8 2 true true) true) = true /\
  match get_spaces (with_nelcol (mk_cfg 3 false 4 8 2 true true) true) 64
                   (mk_reader [[0x20; 0x0D]; [0x0A; 0x09; 0x0D; 0x0D; 0x0A; 0x20; 0x0A; 0x78]]) with
  | Ok (r', (b, l)) => b = true /\ l = [0x20; 0x0A; 0x09; 0x0A; 0x0A; 0x20; 0x0A] /\ rpos r' = (5, 1) /\ ccur r' = [0x78]
  | Err _ => False
  end.
Proof. vm_compute. repeat split; reflexivity. Qed.

(* ------------------------------------------------------------------------------------------- *)
(** * findings, stated on the as-written model by evaluation of concrete witnesses *)

Definition b_A : N := 0x41.
(** FA: ill-formed input -- how many characters are delivered before the error depends on the read sizes
    (as written) and on the position relative to the block structure (in both variants) *)
Theorem T04_error_prefix_depends_on_chunking_refuted :
  exists k1 k2, concat k1 = concat k2 /\
    fst (deliver (mk_cfg 0 false 4 8 2 false false) 16 (mk_reader k1)) <>
    fst (deliver (mk_cfg 0 false 4 8 2 false false) 16 (mk_reader k2)).
Proof.
  exists [[b_A; b_A; 0xFF; b_A; b_A; b_A; b_A; b_A]], [[b_A]; [b_A]; [0xFF; b_A; b_A; b_A; b_A; b_A]].
  split; [reflexivity|]. vm_compute. discriminate.
Qed.
Theorem T04_error_prefix_depends_on_alignment_refuted :
  deliver (mk_cfg 0 false 4 16 2 true true) 16 (mk_reader [[b_A; b_A; b_A; b_A; b_A; 0xFF; b_A; b_A; b_A; b_A; b_A; b_A]])
    = ([b_A; b_A; b_A; b_A], EndErr (XErr E_UTF8_FormatError)).
Proof. vm_compute. reflexivity. Qed.

(** F2 (property C02, fixed in /repo by 752899c): a truncated sequence at the end of the input is reported, for every chunking *)
Theorem T04_truncated_tail_is_reported :
  deliver (mk_cfg 1 false 4 8 2 false false) 16 (mk_reader [[0x3C; 0; 0x61]]) = ([0x3C], EndErr (XErr E_Trans_BadSrcSeq)) /\
  deliver (mk_cfg 1 false 4 8 2 true false) 16 (mk_reader [[0x3C]; [0]; [0x61]]) = ([0x3C], EndErr (XErr E_Trans_BadSrcSeq)) /\
  dec_fn (step_utf16 false) 3 [0x3C; 0; 0x61] = ([0x3C], Truncated).
Proof. repeat split; vm_compute; reflexivity. Qed.

(** F1: getName as written reads fCharBuf[fCharIndex+1] beyond fCharsAvail after the refresh at a trailing high
    surrogate ([Fault]); with the repair it reports "no name" *)
Definition f1_doc : list N := [0x40; 0xD8; 0x00; 0xDC; 0x3C; 0x00; 0x40; 0xD8].   (* D840 DC00 '<' D840, UTF-16LE *)
Theorem T04_getName_stale_read_refuted :
  snd (fst (run_ops (mk_cfg 1 false 8 16 2 false false) 16 (mk_reader [f1_doc]) [OName true; OSkipChar 0x3C; OName false]))
    = Some Fault.
Proof. vm_compute. reflexivity. Qed.
Theorem T04_getName_repaired :
  fst (run_ops (mk_cfg 1 false 8 16 2 false true) 16 (mk_reader [f1_doc]) [OName true; OSkipChar 0x3C; OName false; OGet; OGet])
    = ([RName true [0xD840; 0xDC00]; RBool true; RName false []; RCh (Some 0xD840); RCh None], None).
Proof. vm_compute. reflexivity. Qed.

(* ------------------------------------------------------------------------------------------- *)
(** * non-vacuity: the hypotheses are satisfiable by non-trivial values *)
Example T04_nonvacuous_sizes : sizes_ok (mk_cfg 1 true 4 8 2 false true) 2.
Proof. unfold sizes_ok. cbn. lia. Qed.
Example T04_nonvacuous_dec :
  Dec (step_utf16 false) [0x3C; 0; 0x0D; 0; 0x0A; 0; 0x40; 0xD8; 0x00; 0xDC; 0x28; 0x20] [0x3C; 0x0D; 0x0A; 0xD840; 0xDC00; 0x2028] Clean.
Proof. repeat (eapply (Dec_out _ _ [_] 2); [reflexivity|cbn [skipn app]]). constructor. Qed.
Example T04_nonvacuous_deliver :   (* CR LF and a line separator across refills of a 4-character buffer, 1-byte reads *)
  deliver (mk_cfg 1 true 4 8 2 false true) 16
          (mk_reader (map (fun b => [b]) [0x3C; 0; 0x0D; 0; 0x0A; 0; 0x40; 0xD8; 0x00; 0xDC; 0x28; 0x20]))
  = ([0x3C; 0x0A; 0xD840; 0xDC00; 0x0A], EndEOF).
Proof. vm_compute. reflexivity. Qed.
