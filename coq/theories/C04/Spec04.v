(** Specification side of C04 (and of the reader part of C01).  Nothing here mentions buffers, refills or
    reads: a document is ONE byte string; decoding it character by character and normalising line ends
    gives the character sequence every reader must deliver, however the bytes arrive. *)
From XV Require Export Base.XDefs.
From XV Require Export C05.Model05.     (* only for the error enum [xerr] shared with the transcoder models *)
Local Open Scope N_scope.

(** result of decoding the first character of a byte string *)
Inductive dres : Type :=
| DNeed                          (* the string ends inside a character (or is empty) *)
| DErr (e : xerr)                (* the string starts with an ill-formed sequence *)
| DOut (u : list N) (n : nat).   (* first character: UTF-16 units [u] (one or two), made from [n] bytes *)

Inductive dstatus : Type := Clean | Truncated | Bad (e : xerr).

Section Decode.
  Variable step : list N -> dres.

  (** decoding of a whole byte string: the characters before the first problem, and how it ends *)
  Inductive Dec : list N -> list N -> dstatus -> Prop :=
  | Dec_nil  : Dec [] [] Clean
  | Dec_need : forall s, s <> [] -> step s = DNeed -> Dec s [] Truncated
  | Dec_err  : forall s e, step s = DErr e -> Dec s [] (Bad e)
  | Dec_out  : forall s u n cs st, step s = DOut u n -> Dec (skipn n s) cs st -> Dec s (u ++ cs) st.

  (** the same as a function (used as executable oracle); fuel = length of the string suffices *)
  Fixpoint dec_fn (fuel : nat) (s : list N) : list N * dstatus :=
    match s with
    | [] => ([], Clean)
    | _ =>
      match fuel with
      | O => ([], Truncated)
      | S f =>
        match step s with
        | DNeed => ([], Truncated)
        | DErr e => ([], Bad e)
        | DOut u n => let (cs, st) := dec_fn f (skipn n s) in (u ++ cs, st)
        end
      end
    end.

  (** [k] characters decoded from the front of [s]: their units and the number of bytes they took *)
  Fixpoint nsteps (k : nat) (s : list N) : option (list N * nat) :=
    match k with
    | O => Some ([], O)
    | S k' =>
      match step s with
      | DOut u n => match nsteps k' (skipn n s) with Some (o, e) => Some (u ++ o, (n + e)%nat) | None => None end
      | _ => None
      end
    end.
End Decode.

(** XML 1.0 2.11 / XML 1.1 2.11 end-of-line handling on a character sequence ([nel] = XML 1.1 rules) *)
Fixpoint eol_norm (nel : bool) (l : list N) : list N :=
  match l with
  | [] => []
  | x :: t =>
    if x =? 0xD then
      0xA :: match t with
             | y :: t' => if (y =? 0xA) || ((y =? 0x85) && nel) then eol_norm nel t' else eol_norm nel t
             | [] => []
             end
    else if nel && ((x =? 0x85) || (x =? 0x2028)) then 0xA :: eol_norm nel t
    else x :: eol_norm nel t
  end.

(** line / column after reading raw characters (before normalisation), as XML error positions count them *)
Definition is_high (x : N) : bool := (0xD800 <=? x) && (x <=? 0xDB7F).
Definition is_low (x : N) : bool := (0xDC00 <=? x) && (x <=? 0xDFFF).

(** Name token at the head of a character sequence (XML Name with supplementary characters as pairs):
    the longest prefix made of name characters / well-formed private-use-free surrogate pairs *)
Fixpoint name_prefix (isName : N -> bool) (l : list N) : list N :=
  match l with
  | [] => []
  | x :: t =>
    if is_high x then
      match t with
      | y :: t' => if is_low y then x :: y :: name_prefix isName t' else []
      | [] => []
      end
    else if isName x then x :: name_prefix isName t else []
  end.
