(** Instantiation of the reader model with the constants and character classes regenerated from /repo
    (Gen/GenReaderConsts.v) and the transcoder models of C05. *)
From XV Require Export C04.Model04.
From XV Require Export Gen.GenReaderConsts.
Local Open Scope N_scope.

Definition in_ranges (rs : list (N * N)) (c : N) : bool :=
  existsb (fun p => (fst p <=? c) && (c <=? snd p)) rs.

(** [enc]: 0 = UTF-8, 1 = UTF-16LE, 2 = UTF-16BE, 3 = ISO-8859-1, 4 = UCS-4LE, 5 = UCS-4BE (host is little endian) *)
Definition xc_of (enc : N) : xcoder :=
  if enc =? 0 then xc_utf8 else if enc =? 1 then xc_utf16 false else if enc =? 2 then xc_utf16 true
  else if enc =? 4 then xc_ucs4 false else if enc =? 5 then xc_ucs4 true else xc_latin1.
Definition step_of (enc : N) : list N -> dres :=
  if enc =? 0 then step_utf8 else if enc =? 1 then step_utf16 false else if enc =? 2 then step_utf16 true
  else if enc =? 4 then step_ucs4 false else if enc =? 5 then step_ucs4 true else step_latin1.

(** configuration with explicit sizes (small sizes are used by the model-only sweeps and the Examples) *)
Definition mk_cfg (enc : N) (v11 : bool) (cb rb lw : nat) (fill safe : bool) : cfg :=
  mkCfg (xc_of enc) cb rb lw fill safe v11
        (in_ranges (if v11 then name_ranges_11 else name_ranges_10))
        (in_ranges (if v11 then firstname_ranges_11 else firstname_ranges_10))
        (in_ranges (if v11 then ws_ranges_11 else ws_ranges_10))
        (in_ranges (if v11 then ncname_ranges_11 else ncname_ranges_10)) false.
(** the same with the column repair of finding FD switched on/off *)
Definition with_nelcol (c : cfg) (b : bool) : cfg :=
  mkCfg (X c) (cbsz c) (rbsz c) (low c) (fillraw c) (safename c) (nel c) (isName c) (isFirstName c) (isWS c) (isNCName c) b.
Definition is_plain (v11 : bool) : N -> bool := in_ranges (if v11 then plain_ranges_11 else plain_ranges_10).

(** the configuration of the real reader: sizes from XMLReader.hpp *)
Definition real_cfg (enc : N) (v11 : bool) (lw : nat) (fill safe : bool) : cfg :=
  mk_cfg enc v11 (N.to_nat kCharBufSize) (N.to_nat kRawBufSize) lw fill safe.

(** executable decoding oracle (Spec): the characters of a whole byte string and how it ends *)
Definition spec_decode (enc : N) (bs : list N) : list N * dstatus := dec_fn (step_of enc) (length bs) bs.
Definition spec_chars (enc : N) (v11 : bool) (bs : list N) : list N * dstatus :=
  let (cs, st) := spec_decode enc bs in (eol_norm v11 cs, st).
