(** Extraction of the reader model and of the specification functions used as oracle.  ExtrOcamlBasic only. *)
From Coq Require Import Extraction ExtrOcamlBasic.
From XV Require Import C04.Spec04 C04.Spec04t C04.Model04 C04.Model04b C04.Inst04.
Extraction Language OCaml.
Extraction "../ocaml/C04/gen_c04.ml"
  mk_reader mk_cfg real_cfg with_nelcol is_plain do_op do_xop run_ops deliver get_next get_name get_ncname get_qname
  spec_decode spec_chars eol_norm name_prefix kCharBufSize kRawBufSize lowWaterDefault line col ccur
  tk_get tk_get_if_not tk_skipped_char tk_skip_if_quote tk_skipped_space tk_run tk_skipped_string starts_with tk_peek
  tk_name tk_ncname tk_qname plain_run upto_take.
