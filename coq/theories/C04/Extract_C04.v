(** Extraction of the reader model and of the specification functions used as oracle.  ExtrOcamlBasic only. *)
From Coq Require Import Extraction ExtrOcamlBasic.
From XV Require Import C04.Spec04 C04.Model04 C04.Inst04.
Extraction Language OCaml.
Extraction "../ocaml/C04/gen_c04.ml"
  mk_reader mk_cfg real_cfg do_op run_ops deliver get_next get_name get_ncname get_qname
  spec_decode spec_chars eol_norm name_prefix kCharBufSize kRawBufSize lowWaterDefault line col ccur.
