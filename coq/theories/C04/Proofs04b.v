(** Refill lemmas: readBytes on a chunked stream, refreshRawBuffer, xcodeMoreChars, refreshCharBuffer. *)
From XV Require Export C04.Proofs04a.
From Coq Require Import Lia Arith.
Local Open Scope N_scope.

Definition ne (ch : list N) : Prop := ch <> [].

Lemma sread_spec : forall s req got s', Forall ne s -> sread s req = (got, s') ->
  got ++ concat s' = concat s /\ (length got <= req)%nat /\ Forall ne s' /\
  (got = [] -> req = 0%nat \/ s = []) /\ (s = [] -> s' = []).
Proof.
  intros s req got s' Hs H. destruct s as [|c rest]; cbn [sread] in H.
  - inversion H; subst. cbn. repeat split; auto; lia.
  - inversion Hs as [|? ? Hc Hrest]; subst.
    destruct (Nat.leb_spec (length c) req) as [Hle|Hgt]; inversion H; subst; clear H.
    + repeat split; auto. intros E. subst. now destruct Hc. discriminate.
    + cbn [concat]. rewrite app_assoc, firstn_skipn. repeat split.
      * rewrite firstn_length. lia.
      * constructor; [|exact Hrest]. intros E. apply (f_equal (@length N)) in E. rewrite skipn_length in E. cbn in E. lia.
      * intros E. apply (f_equal (@length N)) in E. rewrite firstn_length in E. cbn in E. lia.
      * discriminate.
Qed.

Lemma sfill_spec : forall s req got s', Forall ne s -> sfill s req = (got, s') ->
  got ++ concat s' = concat s /\ (length got <= req)%nat /\ Forall ne s' /\
  (got = [] -> req = 0%nat \/ s = []) /\ (s = [] -> s' = []).
Proof.
  induction s as [|c rest IH]; intros req got s' Hs H; cbn [sfill] in H.
  - inversion H; subst. cbn. repeat split; auto; lia.
  - inversion Hs as [|? ? Hc Hrest]; subst.
    destruct c as [|b c']; [now destruct Hc|].
    destruct (Nat.eqb_spec req 0) as [E0|N0].
    + inversion H; subst. cbn. repeat split; auto; try lia; try discriminate.
    + destruct (Nat.leb_spec (length (b :: c')) req) as [Hle|Hgt].
      * destruct (sfill rest (req - length (b :: c'))) as [g s2] eqn:Ef. inversion H; subst; clear H.
        destruct (IH _ _ _ Hrest Ef) as [A [B [C [D E]]]].
        repeat split; auto.
        -- cbn [concat]. rewrite <- A. cbn. f_equal. now rewrite <- app_assoc.
        -- cbn [length app] in *. rewrite ?app_length. lia.
        -- discriminate.
        -- discriminate.
      * inversion H; subst; clear H. cbn [concat]. rewrite app_assoc, firstn_skipn. repeat split.
        -- rewrite firstn_length. lia.
        -- constructor; [|exact Hrest]. intros E. apply (f_equal (@length N)) in E. rewrite skipn_length in E. cbn [length] in *. lia.
        -- intros E. apply (f_equal (@length N)) in E. rewrite firstn_length in E. cbn [length] in *. lia.
        -- discriminate.
Qed.

Section Refill.
  Variable step : list N -> dres.
  Variable maxSeq : nat.
  Variable c : cfg.
  Hypothesis HC : xcontract step (X c) maxSeq.
  Hypothesis HS : sizes_ok c maxSeq.

  Lemma refresh_raw_spec : forall r, good c r -> exists got s',
    refresh_raw c r = Ok (mkR (ccur r) (cidx r) (rcur r ++ got) 0 s' (noMore r) (line r) (col r)) /\
    got ++ concat s' = concat (strm r) /\ (length (rcur r) + length got <= rbsz c)%nat /\ Forall ne s' /\
    (got = [] -> length (rcur r) = rbsz c \/ strm r = []) /\ (strm r = [] -> s' = []).
  Proof.
    intros r [G1 [G2 G3]]. unfold refresh_raw.
    destruct (Nat.ltb_spec (rbsz c) (length (rcur r))) as [Hlt|Hge]; [lia|].
    destruct (if fillraw c then sfill (strm r) (rbsz c - length (rcur r)) else sread (strm r) (rbsz c - length (rcur r)))
      as [got s'] eqn:Eg.
    assert (Hsp : got ++ concat s' = concat (strm r) /\ (length got <= rbsz c - length (rcur r))%nat /\ Forall ne s' /\
                  (got = [] -> (rbsz c - length (rcur r) = 0)%nat \/ strm r = []) /\ (strm r = [] -> s' = [])).
    { destruct (fillraw c); [eapply sfill_spec|eapply sread_spec]; eauto. }
    destruct Hsp as [A [B [C [D E]]]].
    destruct (Nat.ltb_spec (rbsz c - length (rcur r)) (length got)) as [Hlt|Hge2]; [lia|].
    exists got, s'. repeat split; auto; try lia.
    intros Eg0. destruct (D Eg0); [left; lia|right; assumption].
  Qed.

  (** what xcodeMoreChars guarantees; [cs]/[st] = the decoding of everything not yet decoded *)
  Definition xm_post (r : reader) (m : nat) (cs : list N) (st : dstatus) (r' : reader) (new : list N) : Prop :=
    good c r' /\ ccur r' = ccur r /\ cidx r' = cidx r /\ noMore r' = noMore r /\ line r' = line r /\ col r' = col r /\
    (length new <= m)%nat /\
    exists rest, cs = new ++ rest /\ Dec step (pending r') rest st /\
      (new = [] -> (rest = [] /\ st = Clean /\ strm r' = []) \/
                   (exists u n, step (rcur r') = DOut u n /\ (m < length u)%nat)) /\
      (new <> [] -> (length (pending r') < length (pending r))%nat).

  Lemma step_pending_err : forall s t k o n e, nsteps step k s = Some (o, n) -> step (skipn n s) = DErr e ->
    forall cs st, Dec step (s ++ t) cs st -> st = Bad e.
  Proof.
    intros s t k o n e Hn He cs st D.
    destruct (nsteps_bounds step (X c) maxSeq HC _ _ _ _ Hn) as [B1 _].
    eapply (nsteps_err_Dec step (X c) maxSeq HC k (s ++ t) o n e cs st).
    - eapply nsteps_app; eauto.
    - rewrite skipn_app_le by lia. eapply xc_err_ext; eauto.
    - exact D.
  Qed.

  Lemma xcode_more_spec : forall (fuel : nat) (needMore : bool) (r : reader) (m : nat),
    good c r -> (0 < m)%nat ->
    (rbsz c - length (rcur r) + (if needMore then 1 else 2) <= fuel)%nat ->
    (needMore = true -> step (rcur r) = DNeed \/ exists u n, step (rcur r) = DOut u n /\ (m < length u)%nat) ->
    forall cs st, Dec step (pending r) cs st ->
    match xcode_more c fuel needMore r m with
    | Err Fault | Err FuelOut => False
    | Err (XErr e) => st = Bad e \/ (e = E_Trans_BadSrcSeq /\ (st = Truncated \/ (m < 2)%nat))
    | Ok (r', new) => xm_post r m cs st r' new
    end.
  Proof.
    induction fuel as [|f IH]; intros needMore r m G Hm0 Hf Hinv cs st D.
    { destruct needMore; lia. }
    cbn [xcode_more].
    (* the transcoding step, shared by both branches; r1 is the reader after the optional raw refresh *)
    assert (Hmain : forall r1, good c r1 -> pending r1 = pending r -> ccur r1 = ccur r -> cidx r1 = cidx r ->
              noMore r1 = noMore r -> line r1 = line r -> col r1 = col r ->
              (rbsz c - length (rcur r1) + 1 <= f)%nat ->
              match (match X c (rcur r1) m with
                     | Err e => Err (XErr e)
                     | Ok (out, eaten) =>
                       if Nat.ltb m (length out) || Nat.ltb (length (rcur r1)) eaten then Err Fault
                       else if Nat.eqb eaten 0 then xcode_more c f true r1 m
                       else Ok (mkR (ccur r1) (cidx r1) (skipn eaten (rcur r1)) (ridx r1 + eaten) (strm r1) (noMore r1)
                                    (line r1) (col r1), out)
                     end) with
              | Err Fault | Err FuelOut => False
              | Err (XErr e) => st = Bad e \/ (e = E_Trans_BadSrcSeq /\ (st = Truncated \/ (m < 2)%nat))
              | Ok (r', new) => xm_post r m cs st r' new
              end).
    { intros r1 G1 P1 E1 E2 E3 E4 E5 Hf1.
      destruct (X c (rcur r1) m) as [[out eaten]|e] eqn:EX.
      - destruct (xc_ok _ _ _ HC _ _ _ _ EX) as [Hm [k Hk]].
        destruct (nsteps_bounds step (X c) maxSeq HC _ _ _ _ Hk) as [B1 [B2 [B3 B4]]].
        destruct (Nat.ltb_spec m (length out)) as [?|_]; [lia|].
        destruct (Nat.ltb_spec (length (rcur r1)) eaten) as [?|_]; [lia|]. cbn [orb].
        destruct (Nat.eqb_spec eaten 0) as [E0|N0].
        + subst eaten.
          assert (Hpr := xc_progress _ _ _ HC _ _ _ Hm0 EX).
          specialize (IH true r1 m G1 Hm0 Hf1 (fun _ => Hpr) cs st ltac:(rewrite P1; exact D)).
          destruct (xcode_more c f true r1 m) as [[r' new]|[| |e]]; auto.
          unfold xm_post in *. destruct IH as [A1 [A2 [A3 [A4 [A5 [A6 [A7 [rest [R1 [R2 [R3 R4]]]]]]]]]]].
          destruct A1 as [? [? ?]].
          repeat split; try congruence; auto.
          exists rest. repeat split; auto. rewrite <- P1. exact R4.
        + unfold xm_post.
          destruct G1 as [G1a [G1b G1c]].
          assert (Hpd : Dec step (rcur r1 ++ concat (strm r1)) cs st) by (unfold pending in P1; rewrite P1; exact D).
          pose proof (nsteps_app step (X c) maxSeq HC _ _ (concat (strm r1)) _ _ Hk) as Hk2.
          destruct (nsteps_Dec step (X c) maxSeq HC _ _ _ _ _ _ Hk2 Hpd) as [rest [Er Dr]].
          rewrite skipn_app_le in Dr by lia.
          split.
          { unfold good. cbn [ccur cidx rcur ridx strm]. rewrite skipn_length. repeat split; auto; lia. }
          cbn [ccur cidx rcur ridx strm noMore line col].
          repeat (split; [solve [auto]|]).
          exists rest. repeat split; auto.
          * intros En. subst out. assert (k = 0)%nat by (cbn in B2; lia). subst k. cbn in Hk. inversion Hk. lia.
          * intros _. unfold pending at 1. cbn [rcur strm]. rewrite <- P1. unfold pending.
            rewrite !app_length, skipn_length. lia.
      - destruct (xc_err _ _ _ HC _ _ _ EX) as [k [o [n [Hn He]]]].
        left. eapply step_pending_err; eauto. unfold pending in P1. rewrite P1. exact D. }
    destruct (needMore || Nat.eqb (length (rcur r)) 0 || Nat.ltb (length (rcur r)) (low c)) eqn:Econd.
    - destruct (refresh_raw_spec r G) as [got [s' [ER [A [B [Cn [Dn En]]]]]]]. rewrite ER.
      set (r1 := mkR (ccur r) (cidx r) (rcur r ++ got) 0 s' (noMore r) (line r) (col r)) in *.
      assert (G1 : good c r1).
      { destruct G as [Ga [Gb Gc]]. unfold good, r1. cbn [ccur cidx rcur ridx strm]. rewrite app_length. repeat split; auto; lia. }
      assert (P1 : pending r1 = pending r).
      { unfold pending, r1. cbn [rcur strm]. now rewrite <- app_assoc, A. }
      cbn [rcur] . change (rcur r1) with (rcur r ++ got).
      destruct HS as [_ [Hms1 Hms2]].
      destruct (Nat.eqb_spec (length (rcur r ++ got)) 0) as [E0|N0].
      + (* fRawBytesAvail == 0: return 0 *)
        unfold xm_post. split; [exact G1|].
        repeat (split; [solve [reflexivity | cbn; lia]|]).
        exists cs. split; [reflexivity|]. split; [rewrite P1; exact D|]. split; [|intros Hx; now destruct Hx].
        intros _. rewrite app_length in E0.
        assert (Er : rcur r = []) by (destruct (rcur r); [reflexivity|cbn in E0; lia]).
        assert (Eg : got = []) by (destruct got; [reflexivity|cbn in E0; lia]).
        destruct (Dn Eg) as [Hfull|Hst]; [rewrite Er in Hfull; cbn in Hfull; lia|].
        left. assert (Es' : s' = []) by auto.
        assert (Hp : pending r = []) by (unfold pending; rewrite Er, Hst; reflexivity).
        rewrite Hp in D. destruct (Dec_nil_inv step (X c) maxSeq HC _ _ D). subst. unfold r1. cbn [strm]. auto.
      + destruct (needMore && Nat.eqb (length (rcur r)) (length (rcur r ++ got))) eqn:E1.
        * (* the transcoder needs more and the source has none: Trans_BadSrcSeq *)
          apply Bool.andb_true_iff in E1. destruct E1 as [En1 E1]. apply Nat.eqb_eq in E1. rewrite app_length in E1.
          assert (Eg : got = []) by (destruct got; [reflexivity|cbn in E1; lia]).
          subst got. rewrite app_nil_r in N0. right. split; [reflexivity|].
          destruct (Hinv En1) as [Hneed|[u [n [Hu Hlen]]]].
          -- left. pose proof (xc_need _ _ _ HC _ Hneed) as Hl.
             destruct (Dn eq_refl) as [Hfull|Hst]; [lia|].
             assert (Hp : pending r = rcur r) by (unfold pending; rewrite Hst; cbn; now rewrite app_nil_r).
             rewrite Hp in D.
             assert (Hne : rcur r <> []) by (intros E; rewrite E in N0; cbn in N0; lia).
             destruct (Dec_need_inv step _ _ _ Hne Hneed D). assumption.
          -- right. destruct (xc_out_bounds _ _ _ HC _ _ _ Hu) as [_ [_ Hu2]]. lia.
        * (* transcode *)
          apply (Hmain r1 G1 P1 eq_refl eq_refl eq_refl eq_refl eq_refl).
          destruct needMore.
          -- cbn [andb] in E1. apply Nat.eqb_neq in E1. unfold r1. cbn [rcur]. rewrite app_length in *. lia.
          -- unfold r1. cbn [rcur]. rewrite app_length. lia.
    - apply Bool.orb_false_iff in Econd. destruct Econd as [Ec _]. apply Bool.orb_false_iff in Ec. destruct Ec as [Ec _].
      subst needMore. apply Hmain; auto. lia.
  Qed.
End Refill.
