(** The contract between the reader and a transcoder (the only thing the reader theorems assume about the
    block transcoder [X]): there is a character-level decoding function [step] (decode the first character of a
    byte string) which is prefix-stable, needs fewer than [maxSeq] bytes of look-ahead, and [X] does nothing but
    apply it repeatedly: whatever [X] returns is the decoding of some number of whole characters from the
    front of its input, it makes progress (when given room) unless the first character is incomplete or does not fit, and it
    throws only the error of the first ill-formed sequence.  Proofs04e.v shows the transcoder models of C05
    (ISO-8859-1, UTF-16 in both byte orders) meet it. *)
From XV Require Export C04.Model04.

Record xcontract (step : list N -> dres) (X : xcoder) (maxSeq : nat) : Prop := {
  xc_nil : step [] = DNeed;
  xc_out_bounds : forall s u n, step s = DOut u n -> (0 < n <= length s)%nat /\ (1 <= length u <= 2)%nat;
  xc_out_ext : forall s t u n, step s = DOut u n -> step (s ++ t) = DOut u n;
  xc_err_ext : forall s t e, step s = DErr e -> step (s ++ t) = DErr e;
  xc_need : forall s, step s = DNeed -> (length s < maxSeq)%nat;
  xc_ok : forall s m out eaten, X s m = Ok (out, eaten) ->
          (length out <= m)%nat /\ exists k, nsteps step k s = Some (out, eaten);
  xc_progress : forall s m out, (0 < m)%nat -> X s m = Ok (out, 0%nat) ->
          step s = DNeed \/ exists u n, step s = DOut u n /\ (m < length u)%nat;
  xc_err : forall s m e, X s m = Err e ->
          exists k o n, nsteps step k s = Some (o, n) /\ step (skipn n s) = DErr e
}.

(** the only transcoder exceptions a reader operation may raise: the error of the first ill-formed sequence, or
    Trans_BadSrcSeq when the input ends inside a character *)
Definition errOK (st : dstatus) (e : xerr) : Prop := st = Bad e \/ (e = E_Trans_BadSrcSeq /\ st = Truncated).

(** the bytes the reader has not decoded yet *)
Definition pending (r : reader) : list N := rcur r ++ concat (strm r).

(** index invariant of C01 on the two buffers, and the stream's chunks are real reads (non-empty) *)
Definition good (c : cfg) (r : reader) : Prop :=
  (cidx r + length (ccur r) <= cbsz c)%nat /\ (ridx r + length (rcur r) <= rbsz c)%nat /\
  Forall (fun ch => ch <> []) (strm r).

(** sizes for which the theorems hold: the character buffer holds a surrogate pair plus one more character,
    the raw buffer holds one longest byte sequence *)
Definition sizes_ok (c : cfg) (maxSeq : nat) : Prop :=
  (3 <= cbsz c)%nat /\ (1 <= maxSeq <= rbsz c)%nat.
