(** UTF-8: C05's step function [x8_step] (and the loop [x8_fast] over it) meets the reader's transcoder contract. *)
From XV Require Export C04.Proofs04a.
From Coq Require Import Lia Arith.
Local Open Scope N_scope.

(** the tail of one loop iteration ("finish" in Model05.x8_step), as a function of the accumulated value *)
Definition fin8 (tb : N) (room produced : nat) (tmp : N) : sres :=
  let v := sub32 tmp (tbl gUTFOffsets tb) in
  if N.land v 0xFFFF0000 =? 0 then SOut [v] (N.to_nat tb + 1)
  else if 0x10FFFF <? v then (if Nat.ltb 32 produced then SBreak32 else SErr E_Trans_BadSrcSeq)
  else if Nat.leb room 1 then SStop
  else let w := v - 0x10000 in SOut [N.shiftr w 10 + 0xD800; N.land w 0x3FF + 0xDC00] (N.to_nat tb + 1).

(** the multi-byte part of the iteration with the tail abstracted *)
Definition body8 (F : N -> sres) (b0 tb : N) (rest : list N) : sres :=
  match tb, rest with
  | 1, b1 :: _ =>
      if trail_bad b1 then SErr E_UTF8_FormatError else F (N.shiftl b0 6 + b1)
  | 2, b1 :: b2 :: _ =>
      if (b0 =? 0xE0) && (b1 <? 0xA0) then SErr E_UTF8_Invalid_3BytesSeq else
      if trail_bad b1 then SErr E_UTF8_FormatError else
      if trail_bad b2 then SErr E_UTF8_FormatError else
      if (b0 =? 0xED) && (0xA0 <=? b1) then SErr E_UTF8_Irregular_3BytesSeq else
      F (N.shiftl (N.shiftl b0 6 + b1) 6 + b2)
  | 3, b1 :: b2 :: b3 :: _ =>
      if ((b0 =? 0xF0) && (b1 <? 0x90)) || ((b0 =? 0xF4) && (0x8F <? b1)) then SErr E_UTF8_Invalid_4BytesSeq else
      if trail_bad b1 then SErr E_UTF8_FormatError else
      if trail_bad b2 then SErr E_UTF8_FormatError else
      if trail_bad b3 then SErr E_UTF8_FormatError else
      F (N.shiftl (N.shiftl (N.shiftl b0 6 + b1) 6 + b2) 6 + b3)
  | _, _ => SErr E_UTF8_Exceeds_BytesLimit
  end.

Lemma x8_step_eq : forall s room p, x8_step s room p =
  match s with
  | [] => SStop
  | b0 :: rest =>
    if Nat.eqb room 0 then SStop else
    if b0 <=? 127 then SOut [b0] 1 else
    let tb := tbl gUTFBytes b0 in
    if Nat.ltb (length rest) (N.to_nat tb) then SStop else
    if negb (N.land (tbl gUTFByteIndicatorTest tb) b0 =? tbl gUTFByteIndicator tb) then SErr E_UTF8_FormatError else
    body8 (fin8 tb room p) b0 tb rest
  end.
Proof. intros s room p. destruct s; reflexivity. Qed.

(** outcome of the tail for room 2 and nothing produced yet, from its outcome for any room / count *)
Lemma fin8_out : forall tb room p tmp u n, (1 <= room)%nat -> fin8 tb room p tmp = SOut u n ->
  fin8 tb 2 0 tmp = SOut u n /\ n = (N.to_nat tb + 1)%nat /\ (1 <= length u <= 2)%nat /\ (length u <= room)%nat.
Proof.
  intros tb room p tmp u n Hr H. unfold fin8 in *.
  set (v := sub32 tmp (tbl gUTFOffsets tb)) in *. clearbody v.
  destruct (N.land v 4294901760 =? 0).
  - inversion H; subst. cbn [length]. repeat split; lia.
  - destruct (1114111 <? v).
    + destruct (Nat.ltb 32 p); discriminate.
    + destruct (Nat.leb_spec room 1) as [Hle|Hgt]; [discriminate|].
      inversion H; subst. cbn [length Nat.leb]. repeat split; lia.
Qed.

Lemma fin8_err : forall tb room p tmp e, fin8 tb room p tmp = SErr e -> fin8 tb 2 0 tmp = SErr e.
Proof.
  intros tb room p tmp e H. unfold fin8 in *.
  set (v := sub32 tmp (tbl gUTFOffsets tb)) in *. clearbody v.
  destruct (N.land v 4294901760 =? 0); [discriminate|].
  destruct (1114111 <? v).
  - destruct (Nat.ltb 32 p); [discriminate|]. exact H.
  - destruct (Nat.leb room 1); discriminate.
Qed.

Lemma fin8_stop : forall tb room p tmp, fin8 tb room p tmp = SStop ->
  (room <= 1)%nat /\ exists a b, fin8 tb 2 0 tmp = SOut [a; b] (N.to_nat tb + 1).
Proof.
  intros tb room p tmp H. unfold fin8 in *.
  set (v := sub32 tmp (tbl gUTFOffsets tb)) in *. clearbody v.
  destruct (N.land v 4294901760 =? 0); [discriminate|].
  destruct (1114111 <? v).
  - destruct (Nat.ltb 32 p); discriminate.
  - destruct (Nat.leb_spec room 1) as [Hle|Hgt]; [|discriminate]. split; [exact Hle|]. cbn [Nat.leb]. eauto.
Qed.

Lemma fin8_no_break : forall tb room tmp, fin8 tb room 0 tmp <> SBreak32.
Proof.
  intros tb room tmp. unfold fin8.
  set (v := sub32 tmp (tbl gUTFOffsets tb)). clearbody v.
  destruct (N.land v 4294901760 =? 0); [discriminate|].
  destruct (1114111 <? v); [cbn [Nat.ltb Nat.leb]; discriminate|].
  destruct (Nat.leb room 1); discriminate.
Qed.

(** [body8] passes properties of the tail through *)
Lemma body8_cases : forall (F : N -> sres) b0 tb rest (P : sres -> Prop),
  (forall e, P (SErr e)) -> (forall tmp, P (F tmp)) -> P (body8 F b0 tb rest).
Proof.
  intros F b0 tb rest P He HF. unfold body8.
  destruct tb as [|[[q|q|]|[q|q|]|]]; try apply He.
  - destruct rest as [|b1 [|b2 [|b3 r]]]; try apply He.
    destruct ((b0 =? 240) && (b1 <? 144) || (b0 =? 244) && (143 <? b1)); [apply He|].
    destruct (trail_bad b1); [apply He|]. destruct (trail_bad b2); [apply He|]. destruct (trail_bad b3); [apply He|]. apply HF.
  - destruct rest as [|b1 [|b2 r]]; try apply He.
    destruct ((b0 =? 224) && (b1 <? 160)); [apply He|].
    destruct (trail_bad b1); [apply He|]. destruct (trail_bad b2); [apply He|].
    destruct ((b0 =? 237) && (160 <=? b1)); [apply He|]. apply HF.
  - destruct rest as [|b1 r]; try apply He.
    destruct (trail_bad b1); [apply He|]. apply HF.
Qed.

(** two tails related pointwise give related bodies *)
Lemma body8_rel : forall (F G : N -> sres) b0 tb rest (R : sres -> sres -> Prop),
  (forall e, R (SErr e) (SErr e)) -> (forall tmp, R (F tmp) (G tmp)) -> R (body8 F b0 tb rest) (body8 G b0 tb rest).
Proof.
  intros F G b0 tb rest R He HF. unfold body8.
  destruct tb as [|[[q|q|]|[q|q|]|]]; try apply He.
  - destruct rest as [|b1 [|b2 [|b3 r]]]; try apply He.
    destruct ((b0 =? 240) && (b1 <? 144) || (b0 =? 244) && (143 <? b1)); [apply He|].
    destruct (trail_bad b1); [apply He|]. destruct (trail_bad b2); [apply He|]. destruct (trail_bad b3); [apply He|]. apply HF.
  - destruct rest as [|b1 [|b2 r]]; try apply He.
    destruct ((b0 =? 224) && (b1 <? 160)); [apply He|].
    destruct (trail_bad b1); [apply He|]. destruct (trail_bad b2); [apply He|].
    destruct ((b0 =? 237) && (160 <=? b1)); [apply He|]. apply HF.
  - destruct rest as [|b1 r]; try apply He.
    destruct (trail_bad b1); [apply He|]. apply HF.
Qed.

(** relation between an iteration with any room / count and the canonical one (room 2, count 0) *)
Definition rel8 (tbn : nat) (room : nat) (x y : sres) : Prop :=
  match x with
  | SOut u n => y = SOut u n /\ n = (tbn + 1)%nat /\ (1 <= length u <= 2)%nat /\ (length u <= room)%nat
  | SErr e => y = SErr e
  | SBreak32 => True
  | SStop => (room <= 1)%nat /\ exists a b n, y = SOut [a; b] n
  end.

Lemma utf8_bytes_le5 : forall b, tbl gUTFBytes b <= 5.
Proof.
  intros b. destruct (N.ltb_spec b 256) as [Hlt|Hge].
  - assert (H := sweep256 (fun x => tbl gUTFBytes x <=? 5) ltac:(vm_compute; reflexivity) b Hlt).
    apply N.leb_le in H. exact H.
  - unfold tbl. rewrite nth_overflow; [lia|].
    assert (L : length gUTFBytes = 256%nat) by (vm_compute; reflexivity). rewrite L. lia.
Qed.

Lemma x8_step_rel : forall s room p, (1 <= room)%nat ->
  match x8_step s room p with
  | SOut u n => x8_step s 2 0 = SOut u n /\ (0 < n <= length s)%nat /\ (1 <= length u <= 2)%nat /\ (length u <= room)%nat
  | SErr e => x8_step s 2 0 = SErr e
  | SBreak32 => True
  | SStop => x8_step s 2 0 = SStop \/ ((room <= 1)%nat /\ exists a b n, x8_step s 2 0 = SOut [a; b] n)
  end.
Proof.
  intros s room p Hr. rewrite !x8_step_eq. destruct s as [|b0 rest]; [left; reflexivity|].
  destruct (Nat.eqb_spec room 0) as [E0|_]; [lia|]. cbn [Nat.eqb].
  destruct (b0 <=? 127); [cbn [length]; repeat split; lia|].
  cbv zeta. set (tb := tbl gUTFBytes b0).
  destruct (Nat.ltb_spec (length rest) (N.to_nat tb)) as [Hlt|Hge]; [left; reflexivity|].
  destruct (negb (N.land (tbl gUTFByteIndicatorTest tb) b0 =? tbl gUTFByteIndicator tb)); [reflexivity|].
  pose proof (body8_rel (fin8 tb room p) (fin8 tb 2 0) b0 tb rest (rel8 (N.to_nat tb) room)) as HR.
  assert (H1 : forall e, rel8 (N.to_nat tb) room (SErr e) (SErr e)) by (intros; reflexivity).
  assert (H2 : forall tmp, rel8 (N.to_nat tb) room (fin8 tb room p tmp) (fin8 tb 2 0 tmp)).
  { intros tmp. unfold rel8. destruct (fin8 tb room p tmp) as [| |e|u n] eqn:Ef; auto.
    - destruct (fin8_stop _ _ _ _ Ef) as [A [a [b B]]]. split; [exact A|]. eauto.
    - apply fin8_err in Ef. exact Ef.
    - destruct (fin8_out _ _ _ _ _ _ Hr Ef) as [A [B [C D]]]. auto. }
  specialize (HR H1 H2). unfold rel8 in HR.
  destruct (body8 (fin8 tb room p) b0 tb rest) as [| |e|u n]; auto.
  destruct HR as [A [B [C D]]]. split; [exact A|]. cbn [length]. repeat split; lia.
Qed.

Lemma x8_step_no_break : forall s room, x8_step s room 0 <> SBreak32.
Proof.
  intros s room. rewrite x8_step_eq. destruct s as [|b0 rest]; [discriminate|].
  destruct (Nat.eqb room 0); [discriminate|]. destruct (b0 <=? 127); [discriminate|].
  cbv zeta. set (tb := tbl gUTFBytes b0).
  destruct (Nat.ltb (length rest) (N.to_nat tb)); [discriminate|].
  destruct (negb (N.land (tbl gUTFByteIndicatorTest tb) b0 =? tbl gUTFByteIndicator tb)); [discriminate|].
  apply (body8_cases (fin8 tb room 0) b0 tb rest (fun x => x <> SBreak32)); [discriminate|apply fin8_no_break].
Qed.

Lemma x8_step_stop_short : forall s, x8_step s 2 0 = SStop -> (length s < 6)%nat.
Proof.
  intros s H. rewrite x8_step_eq in H. destruct s as [|b0 rest]; [cbn; lia|].
  cbn [Nat.eqb] in H. destruct (b0 <=? 127); [discriminate|].
  cbv zeta in H. set (tb := tbl gUTFBytes b0) in *.
  destruct (Nat.ltb_spec (length rest) (N.to_nat tb)) as [Hlt|Hge].
  - pose proof (utf8_bytes_le5 b0) as Hb. fold tb in Hb. cbn [length]. lia.
  - destruct (negb (N.land (tbl gUTFByteIndicatorTest tb) b0 =? tbl gUTFByteIndicator tb)); [discriminate|].
    exfalso. revert H. apply (body8_cases (fin8 tb 2 0) b0 tb rest (fun x => x = SStop -> False)); [discriminate|].
    intros tmp Hs. destruct (fin8_stop _ _ _ _ Hs) as [Hle _]. lia.
Qed.

Lemma x8_step_app : forall s t room p, x8_step s room p <> SStop -> x8_step (s ++ t) room p = x8_step s room p.
Proof.
  intros s t room p H. unfold x8_step in *.
  destruct s as [|b0 rest]; [now destruct H|]. cbn [app].
  destruct (Nat.eqb room 0); [now destruct H|].
  destruct (b0 <=? 127); [reflexivity|].
  set (tb := tbl gUTFBytes b0) in *.
  destruct (Nat.ltb_spec (length rest) (N.to_nat tb)) as [Hlt|Hge]; [now destruct H|].
  destruct (Nat.ltb_spec (length (rest ++ t)) (N.to_nat tb)) as [Hlt2|_]; [rewrite app_length in Hlt2; lia|].
  destruct (negb (N.land (tbl gUTFByteIndicatorTest tb) b0 =? tbl gUTFByteIndicator tb)); [reflexivity|].
  clearbody tb.
  destruct tb as [|[[q|q|]|[q|q|]|]]; try reflexivity.
  - destruct rest as [|b1 [|b2 [|b3 r]]]; try (cbn in Hge; lia). reflexivity.
  - destruct rest as [|b1 [|b2 r]]; try (cbn in Hge; lia). reflexivity.
  - destruct rest as [|b1 r]; try (cbn in Hge; lia). reflexivity.
Qed.

Lemma x8_step_room0 : forall s p, x8_step s 0 p = SStop.
Proof. intros s p. rewrite x8_step_eq. destruct s; reflexivity. Qed.

Lemma step_utf8_out : forall s u n, x8_step s 2 0 = SOut u n -> step_utf8 s = DOut u n.
Proof. intros s u n H. unfold step_utf8. rewrite H. reflexivity. Qed.
Lemma step_utf8_err : forall s e, x8_step s 2 0 = SErr e -> step_utf8 s = DErr e.
Proof. intros s e H. unfold step_utf8. rewrite H. reflexivity. Qed.
Lemma step_utf8_stop : forall s, x8_step s 2 0 = SStop -> step_utf8 s = DNeed.
Proof. intros s H. unfold step_utf8. rewrite H. reflexivity. Qed.

Lemma x8_fast_ok : forall fuel src room p out eaten, (length src < fuel)%nat ->
  x8_fast fuel src room p = Ok (out, eaten) ->
  (length out <= room)%nat /\ exists k, nsteps step_utf8 k src = Some (out, eaten).
Proof.
  induction fuel as [|f IH]; intros src room p out eaten Hf H; [lia|].
  cbn [x8_fast] in H.
  destruct room as [|room'].
  { rewrite x8_step_room0 in H. inversion H; subst. split; [cbn; lia|]. exists 0%nat. reflexivity. }
  pose proof (x8_step_rel src (S room') p ltac:(lia)) as HR.
  destruct (x8_step src (S room') p) as [| |e|u n].
  - inversion H; subst. split; [cbn; lia|]. exists 0%nat. reflexivity.
  - inversion H; subst. split; [cbn; lia|]. exists 0%nat. reflexivity.
  - discriminate.
  - destruct HR as [A [[B1 B2] [C D]]].
    destruct (x8_fast f (skipn n src) (S room' - length u)
                (if Nat.ltb 32 p then p else (p + length u)%nat)) as [[o e]|e] eqn:Er; [|discriminate].
    inversion H; subst.
    assert (Hl : (length (skipn n src) < f)%nat) by (rewrite skipn_length; lia).
    destruct (IH _ _ _ _ _ Hl Er) as [L [k Hk]].
    split; [rewrite app_length; lia|].
    exists (S k). cbn [nsteps]. rewrite (step_utf8_out _ _ _ A), Hk. reflexivity.
Qed.

Lemma x8_fast_err : forall fuel src room p e, (length src < fuel)%nat -> x8_fast fuel src room p = Err e ->
  exists k o n, nsteps step_utf8 k src = Some (o, n) /\ step_utf8 (skipn n src) = DErr e.
Proof.
  induction fuel as [|f IH]; intros src room p e Hf H; [lia|].
  cbn [x8_fast] in H.
  destruct room as [|room'].
  { rewrite x8_step_room0 in H. discriminate. }
  pose proof (x8_step_rel src (S room') p ltac:(lia)) as HR.
  destruct (x8_step src (S room') p) as [| |e0|u n]; try discriminate.
  - inversion H; subst. exists 0%nat, [], 0%nat. split; [reflexivity|]. cbn [skipn]. apply step_utf8_err. exact HR.
  - destruct HR as [A [[B1 B2] [C D]]].
    destruct (x8_fast f (skipn n src) (S room' - length u)
                (if Nat.ltb 32 p then p else (p + length u)%nat)) as [[o e1]|e1] eqn:Er; [discriminate|].
    inversion H; subst.
    assert (Hl : (length (skipn n src) < f)%nat) by (rewrite skipn_length; lia).
    destruct (IH _ _ _ _ Hl Er) as [k [o [n' [Hk He]]]].
    exists (S k), (u ++ o), (n + n')%nat. split.
    + cbn [nsteps]. rewrite (step_utf8_out _ _ _ A), Hk. reflexivity.
    + rewrite <- (skipn_skipn n' n src). exact He.
Qed.

Lemma utf8_contract : xcontract step_utf8 xc_utf8 6.
Proof.
  constructor.
  - reflexivity.
  - intros s u n H. unfold step_utf8 in H.
    pose proof (x8_step_rel s 2 0 ltac:(lia)) as HR.
    destruct (x8_step s 2 0) as [| |e|u0 n0]; try discriminate. inversion H; subst.
    destruct HR as [_ [B [C _]]]. split; assumption.
  - intros s t u n H. unfold step_utf8 in *.
    destruct (x8_step s 2 0) as [| |e|u0 n0] eqn:E; try discriminate.
    rewrite x8_step_app; [rewrite E; exact H|rewrite E; discriminate].
  - intros s t e H. unfold step_utf8 in *.
    destruct (x8_step s 2 0) as [| |e0|u0 n0] eqn:E; try discriminate.
    rewrite x8_step_app; [rewrite E; exact H|rewrite E; discriminate].
  - intros s H. unfold step_utf8 in H.
    destruct (x8_step s 2 0) as [| |e|u0 n0] eqn:E; try discriminate.
    + apply x8_step_stop_short. exact E.
    + exfalso. exact (x8_step_no_break s 2 E).
  - intros s m out eaten H. unfold xc_utf8 in H. exact (x8_fast_ok (S (length s)) s m 0 out eaten (Nat.lt_succ_diag_r _) H).
  - intros s m out Hm H. unfold xc_utf8 in H. cbn [x8_fast] in H.
    pose proof (x8_step_rel s m 0 Hm) as HR.
    destruct (x8_step s m 0) as [| |e|u n] eqn:E.
    + destruct HR as [A|[A [a [b [n B]]]]].
      * left. apply step_utf8_stop. exact A.
      * right. exists [a; b], n. split; [apply step_utf8_out; exact B|cbn; lia].
    + exfalso. exact (x8_step_no_break s m E).
    + discriminate.
    + destruct HR as [A [[B1 B2] _]].
      destruct (x8_fast (length s) (skipn n s) (m - length u) (if Nat.ltb 32 0 then 0%nat else (0 + length u)%nat)) as [[o e]|e];
        [|discriminate].
      inversion H. lia.
  - intros s m e H. unfold xc_utf8 in H. exact (x8_fast_err (S (length s)) s m 0 e (Nat.lt_succ_diag_r _) H).
Qed.
