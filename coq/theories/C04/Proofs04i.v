(** T04_tokens, character-level operations: getNextChar, getNextCharIfNot, skippedChar, skipIfQuote, skippedSpace,
    skipSpaces, getSpaces, getUpToCharOrWS, movePlainContentChars compute the functions of Spec04t.v on
    (position, remaining characters) in every reachable state -- answer, new line/column and remaining characters. *)
From XV Require Export C04.Proofs04f C04.Spec04t C04.Model04b.
From Coq Require Import Lia Arith.
Local Open Scope N_scope.

Definition rpos (r : reader) : pos := (line r, col r).

(** no model fault, transcoder errors only as the input's status allows, and [P] on a normal return *)
Definition okres {A : Type} (st : dstatus) (x : res A rerr) (P : A -> Prop) : Prop :=
  match x with
  | Err Fault | Err FuelOut => False
  | Err (XErr e) => errOK st e
  | Ok a => P a
  end.

Lemma okres_imp : forall A st (x : res A rerr) (P Q : A -> Prop), okres st x P -> (forall a, P a -> Q a) -> okres st x Q.
Proof. intros A st x P Q H HI. destruct x as [a|[| |e]]; cbn in *; auto. Qed.

Lemma plain_eol : forall nl x t p, (x =? 0xD) = false -> (x =? 0xA) = false -> (x =? 0x85) = false -> (x =? 0x2028) = false ->
  eol_rest nl x t = t /\ eol_ch nl x = x /\ eol_pos nl p x = (fst p, snd p + 1).
Proof.
  intros nl x t p H1 H2 H3 H4. unfold eol_rest, eol_ch, eol_pos. rewrite H1, H2, H3, H4. cbn [orb]. auto.
Qed.

Lemma ws_plain_facts : forall x, ws_plain x = true ->
  (x =? 0xD) = false /\ (x =? 0xA) = false /\ (x =? 0x85) = false /\ (x =? 0x2028) = false.
Proof.
  intros x H. unfold ws_plain in H. apply Bool.orb_true_iff in H.
  destruct H as [H|H]; apply N.eqb_eq in H; subst x; repeat split; reflexivity.
Qed.

(** the fast test of getUpToCharOrWS lets LF through (it is meant for characters that are not white space) *)
Lemma upto_fast_facts : forall x, upto_fast x = true ->
  (x =? 0xD) = false /\ (x =? 0x85) = false /\ (x =? 0x2028) = false.
Proof.
  intros x H. repeat split; apply N.eqb_neq; intros E; subst x; vm_compute in H; discriminate.
Qed.

Ltac conj_auto := repeat match goal with |- _ /\ _ => split end; auto.

Section Tok.
  Variable step : list N -> dres.
  Variable maxSeq : nat.
  Variable c : cfg.
  Hypothesis HC : xcontract step (X c) maxSeq.
  Hypothesis HS : sizes_ok c maxSeq.
  Hypothesis Hnc : nelcol c = true.
  Notation St := (St step c).

  (** the reader is in abstract state (position, remaining characters) = the third and second component of a spec result,
      and returned the first *)
  Definition tkpost {A : Type} (st : dstatus) (spec : A * pos * list N) (r' : reader) (a : A) : Prop :=
    St r' (snd spec) st /\ a = fst (fst spec) /\ rpos r' = snd (fst spec).

  Lemma handle_eol_tk : forall r ch cs2 st, St r cs2 st ->
    okres st (handle_eol c r ch)
          (fun a => St (fst a) (eol_rest (nel c) ch cs2) st /\ snd a = eol_ch (nel c) ch /\
                    rpos (fst a) = eol_pos (nel c) (rpos r) ch).
  Proof.
    intros r ch cs2 st H. unfold handle_eol.
    destruct (N.eqb_spec ch 0xD) as [ED|ND].
    - subst ch.
      pose proof (ensure_spec step maxSeq c HC HS (set_pos r (line r + 1) 1) cs2 st (St_pos step c _ _ _ _ _ H)) as He.
      destruct (ensure c (set_pos r (line r + 1) 1)) as [[r1 b]|[| |e]]; cbn [okres]; auto.
      destruct He as [H1 [L1 [C1 [Hb1 Hb0]]]]. cbn [set_pos line col] in L1, C1. destruct b.
      + destruct (Hb1 eq_refl) as [x [t Ec]]. unfold rd. rewrite Ec. cbn [nth_error].
        destruct (adv1_St step c r1 x t cs2 st H1 Ec) as [r2 [cs3 [Ea [Ecs [H2 [_ [L2 C2]]]]]]].
        destruct ((x =? 0xA) || (x =? 0x85) && nel c) eqn:Ey.
        * rewrite Ea. cbn [okres fst snd]. subst cs2. unfold eol_rest. rewrite N.eqb_refl, Ey.
          split; [exact H2|]. split; [reflexivity|]. unfold rpos. rewrite L2, C2, L1, C1. reflexivity.
        * cbn [okres fst snd]. subst cs2. unfold eol_rest. rewrite N.eqb_refl, Ey.
          split; [exact H1|]. split; [reflexivity|]. unfold rpos. rewrite L1, C1. reflexivity.
      + destruct (Hb0 eq_refl) as [E0 _]. subst cs2. cbn [okres fst snd].
        split; [exact H1|]. split; [reflexivity|]. unfold rpos. rewrite L1, C1. reflexivity.
    - apply N.eqb_neq in ND.
      destruct (N.eqb_spec ch 0xA) as [EA|NA].
      + subst ch. cbn [okres fst snd]. split; [exact H|]. split; reflexivity.
      + apply N.eqb_neq in NA.
        destruct ((ch =? 0x85) || (ch =? 0x2028)) eqn:En.
        * destruct (nel c) eqn:Enel; cbn [okres fst snd].
          -- unfold eol_rest, eol_ch, eol_pos. rewrite ND, NA, En. cbn [orb].
             split; [exact H|]. split; reflexivity.
          -- rewrite Hnc. unfold eol_rest, eol_ch, eol_pos. rewrite ND, NA, En. cbn [orb].
             split; [exact H|]. split; reflexivity.
        * apply Bool.orb_false_iff in En. destruct En as [E1 E2].
          destruct (plain_eol (nel c) ch cs2 (rpos r) ND NA E1 E2) as [P1 [P2 P3]].
          cbn [okres fst snd]. rewrite P1, P2, P3. split; [exact H|]. split; reflexivity.
  Qed.

  (** a consumed character that takes the fast path "fCurCol++" of its operation *)
  Lemma fast_step : forall r2 x cs2 st, St r2 cs2 st ->
    (x =? 0xD) = false -> (x =? 0xA) = false -> (x =? 0x85) = false -> (x =? 0x2028) = false ->
    St (add_col r2 1) (eol_rest (nel c) x cs2) st /\ x = eol_ch (nel c) x /\
    rpos (add_col r2 1) = eol_pos (nel c) (rpos r2) x.
  Proof.
    intros r2 x cs2 st H A1 A2 A3 A4. destruct (plain_eol (nel c) x cs2 (rpos r2) A1 A2 A3 A4) as [P1 [P2 P3]].
    rewrite P1, P2, P3. split; [exact H|]. split; reflexivity.
  Qed.

  Lemma after_get_tk : forall r ch cs2 st, St r cs2 st ->
    okres st (after_get c r ch)
          (fun a => St (fst a) (eol_rest (nel c) ch cs2) st /\ snd a = eol_ch (nel c) ch /\
                    rpos (fst a) = eol_pos (nel c) (rpos r) ch).
  Proof.
    intros r ch cs2 st H. unfold after_get. destruct (plain_ch ch) eqn:Ep.
    - destruct (plain_ch_facts _ Ep) as [P1 [P2 [P3 P4]]]. cbn [okres fst snd].
      destruct (fast_step r ch cs2 st H P1 P2 P3 P4) as [A [B C]]. auto.
    - apply handle_eol_tk. exact H.
  Qed.

  Ltac ens r cs st H r1 H1 P1 Hb1 Hb0 :=
    let He := fresh "He" in let L1 := fresh "Lq" in let C1 := fresh "Cq" in
    pose proof (ensure_spec step maxSeq c HC HS r cs st H) as He;
    destruct (ensure c r) as [[r1 [|]]|[| |?e]]; cbn [okres]; auto;
    [ destruct He as [H1 [L1 [C1 [Hb1 _]]]] | destruct He as [H1 [L1 [C1 [_ Hb0]]]] ];
    assert (P1 : rpos r1 = rpos r) by (unfold rpos; rewrite L1, C1; reflexivity).

  Theorem get_next_tk : forall r cs st, St r cs st ->
    okres st (get_next c r) (fun a => tkpost st (tk_get (nel c) (rpos r) cs) (fst a) (snd a)).
  Proof.
    intros r cs st H. unfold get_next. ens r cs st H r1 H1 P1 Hb1 Hb0.
    - destruct (Hb1 eq_refl) as [x [t Ec]]. unfold rd. rewrite Ec. cbn [nth_error].
      destruct (adv1_St step c r1 x t cs st H1 Ec) as [r2 [cs2 [Ea [Ecs [H2 [_ [L2 C2]]]]]]]. rewrite Ea.
      pose proof (after_get_tk r2 x cs2 st H2) as Ha.
      destruct (after_get c r2 x) as [[r3 ch']|[| |e]]; cbn [okres] in *; auto.
      cbn [fst snd] in Ha. destruct Ha as [A [B C]]. subst cs. unfold tkpost. cbn [tk_get fst snd].
      split; [exact A|]. split; [now rewrite B|]. rewrite C. unfold rpos in *. rewrite L2, C2. now rewrite P1.
    - destruct (Hb0 eq_refl) as [E0 _]. subst cs. unfold tkpost. cbn [tk_get fst snd]. conj_auto.
  Qed.

  Theorem get_next_if_not_tk : forall r cs st notc, St r cs st ->
    okres st (get_next_if_not c r notc) (fun a => tkpost st (tk_get_if_not (nel c) notc (rpos r) cs) (fst a) (snd a)).
  Proof.
    intros r cs st notc H. unfold get_next_if_not. ens r cs st H r1 H1 P1 Hb1 Hb0.
    - destruct (Hb1 eq_refl) as [x [t Ec]]. unfold rd. rewrite Ec. cbn [nth_error].
      destruct (adv1_St step c r1 x t cs st H1 Ec) as [r2 [cs2 [Ea [Ecs [H2 [_ [L2 C2]]]]]]].
      subst cs. cbn [tk_get_if_not]. destruct (x =? notc).
      + cbn [okres]. unfold tkpost. cbn [fst snd]. conj_auto.
      + rewrite Ea. pose proof (after_get_tk r2 x cs2 st H2) as Ha.
        destruct (after_get c r2 x) as [[r3 ch']|[| |e]]; cbn [okres] in *; auto.
        cbn [fst snd] in Ha. destruct Ha as [A [B C]]. unfold tkpost. cbn [tk_get fst snd].
        split; [exact A|]. split; [now rewrite B|]. rewrite C. unfold rpos in *. rewrite L2, C2. now rewrite P1.
    - destruct (Hb0 eq_refl) as [E0 _]. subst cs. unfold tkpost. cbn [tk_get_if_not fst snd]. conj_auto.
  Qed.

  Theorem skipped_char_tk : forall r cs st ch, St r cs st ->
    okres st (skipped_char c r ch) (fun a => tkpost st (tk_skipped_char ch (rpos r) cs) (fst a) (snd a)).
  Proof.
    intros r cs st ch H. unfold skipped_char. ens r cs st H r1 H1 P1 Hb1 Hb0.
    - destruct (Hb1 eq_refl) as [x [t Ec]]. unfold rd. rewrite Ec. cbn [nth_error].
      destruct (adv1_St step c r1 x t cs st H1 Ec) as [r2 [cs2 [Ea [Ecs [H2 [_ [L2 C2]]]]]]].
      subst cs. cbn [tk_skipped_char]. destruct (x =? ch).
      + rewrite Ea. cbn [okres]. unfold tkpost. cbn [fst snd]. split; [exact H2|]. split; [reflexivity|].
        unfold rpos, col1 in *. cbn [add_col set_pos line col fst snd]. rewrite L2, C2.
        inversion P1 as [[Q1 Q2]]. reflexivity.
      + cbn [okres]. unfold tkpost. cbn [fst snd]. conj_auto.
    - destruct (Hb0 eq_refl) as [E0 _]. subst cs. unfold tkpost. cbn [tk_skipped_char fst snd]. conj_auto.
  Qed.

  Theorem skip_if_quote_tk : forall r cs st, St r cs st ->
    okres st (skip_if_quote c r) (fun a => tkpost st (tk_skip_if_quote (rpos r) cs) (fst a) (snd a)).
  Proof.
    intros r cs st H. unfold skip_if_quote. ens r cs st H r1 H1 P1 Hb1 Hb0.
    - destruct (Hb1 eq_refl) as [x [t Ec]]. unfold rd. rewrite Ec. cbn [nth_error].
      destruct (adv1_St step c r1 x t cs st H1 Ec) as [r2 [cs2 [Ea [Ecs [H2 [_ [L2 C2]]]]]]].
      subst cs. cbn [tk_skip_if_quote]. destruct ((x =? 0x22) || (x =? 0x27)).
      + rewrite Ea. cbn [okres]. unfold tkpost. cbn [fst snd]. split; [exact H2|]. split; [reflexivity|].
        unfold rpos, col1 in *. cbn [add_col set_pos line col fst snd]. rewrite L2, C2.
        inversion P1 as [[Q1 Q2]]. reflexivity.
      + cbn [okres]. unfold tkpost. cbn [fst snd]. conj_auto.
    - destruct (Hb0 eq_refl) as [E0 _]. subst cs. unfold tkpost. cbn [tk_skip_if_quote fst snd]. conj_auto.
  Qed.

  Theorem skipped_space_tk : forall r cs st, St r cs st ->
    okres st (skipped_space c r) (fun a => tkpost st (tk_skipped_space (isWS c) (nel c) (rpos r) cs) (fst a) (snd a)).
  Proof.
    intros r cs st H. unfold skipped_space. ens r cs st H r1 H1 P1 Hb1 Hb0.
    - destruct (Hb1 eq_refl) as [x [t Ec]]. unfold rd. rewrite Ec. cbn [nth_error].
      destruct (adv1_St step c r1 x t cs st H1 Ec) as [r2 [cs2 [Ea [Ecs [H2 [_ [L2 C2]]]]]]].
      assert (P2 : rpos r2 = rpos r) by (unfold rpos in *; rewrite L2, C2; exact P1).
      subst cs. cbn [tk_skipped_space]. destruct (isWS c x).
      + rewrite Ea. destruct (ws_plain x) eqn:Ew.
        * destruct (ws_plain_facts x Ew) as [A1 [A2 [A3 A4]]].
          destruct (fast_step r2 x cs2 st H2 A1 A2 A3 A4) as [A [_ C]].
          cbn [okres]. unfold tkpost. cbn [fst snd]. rewrite <- P2. auto.
        * pose proof (handle_eol_tk r2 x cs2 st H2) as Hh.
          destruct (handle_eol c r2 x) as [[r3 ch']|[| |e]]; cbn [okres] in *; auto.
          cbn [fst snd] in Hh. destruct Hh as [A [_ C]]. unfold tkpost. cbn [fst snd]. rewrite <- P2. auto.
      + cbn [okres]. unfold tkpost. cbn [fst snd]. conj_auto.
    - destruct (Hb0 eq_refl) as [E0 _]. subst cs. unfold tkpost. cbn [tk_skipped_space fst snd]. conj_auto.
  Qed.

  (* ---- the run loops ---- *)
  Lemma tk_run_cons : forall take nl p acc x t, tk_run take nl p acc (x :: t) =
    if take x then tk_run take nl (eol_pos nl p x) (eol_ch nl x :: acc) (eol_rest nl x t) else (true, acc, p, x :: t).
  Proof.
    intros take nl p acc x t. cbn [tk_run]. destruct (take x); [|reflexivity].
    unfold eol_rest, eol_ch. destruct (N.eqb_spec x 0xD) as [E|NE].
    - subst x. cbn [orb N.eqb Pos.eqb]. destruct t as [|y t']; [reflexivity|].
      destruct ((y =? 0xA) || (y =? 0x85) && nl); reflexivity.
    - cbn [orb]. reflexivity.
  Qed.

  Definition runpost (st : dstatus) (spec : bool * list N * pos * list N) (a : reader * (bool * list N)) : Prop :=
    St (fst a) (snd spec) st /\ fst (snd a) = fst (fst (fst spec)) /\ snd (snd a) = snd (fst (fst spec)) /\
    rpos (fst a) = snd (fst spec).

  (** getSpaces / getUpToCharOrWS: [fast] characters are never line ends *)
  Lemma scan_loop_tk : forall take fast,
    (forall x, take x = true -> fast x = true ->
               (x =? 0xD) = false /\ (x =? 0xA) = false /\ (x =? 0x85) = false /\ (x =? 0x2028) = false) ->
    forall fuel r cs st acc, St r cs st ->
    (2 * length cs + (match ccur r with [] => 2 | _ => 1 end) <= fuel)%nat ->
    okres st (scan_loop c fuel take fast r acc) (runpost st (tk_run take (nel c) (rpos r) acc cs)).
  Proof.
    intros take fast Hfast. induction fuel as [|f IH]; intros r cs st acc H Hf; [destruct (ccur r); lia|].
    cbn [scan_loop]. destruct (ccur r) as [|x t] eqn:Ec.
    - pose proof (refresh_char_spec step maxSeq c HC HS r cs st H) as Hr.
      destruct (refresh_char c r) as [[r1 b]|[| |e]]; cbn [okres]; auto.
      destruct Hr as [H1 [L1 [C1 [_ [Hb1 [Hb0 _]]]]]].
      assert (P1 : rpos r1 = rpos r) by (unfold rpos; rewrite L1, C1; reflexivity). destruct b.
      + rewrite <- P1. apply IH; [exact H1|]. specialize (Hb1 eq_refl). destruct (ccur r1); [now destruct Hb1|lia].
      + destruct (Hb0 eq_refl) as [E0 _]. subst cs. unfold runpost. cbn [tk_run okres fst snd]. conj_auto.
    - destruct (adv1_St step c r x t cs st H Ec) as [r2 [cs2 [Ea [Ecs [H2 [_ [L2 C2]]]]]]].
      assert (P2 : rpos r2 = rpos r) by (unfold rpos; rewrite L2, C2; reflexivity).
      subst cs. rewrite tk_run_cons. destruct (take x) eqn:Etk.
      + rewrite Ea. cbn [length] in Hf. destruct (fast x) eqn:Ef.
        * destruct (Hfast x Etk Ef) as [A1 [A2 [A3 A4]]].
          destruct (fast_step r2 x cs2 st H2 A1 A2 A3 A4) as [A [B C]].
          destruct (plain_eol (nel c) x cs2 (rpos r2) A1 A2 A3 A4) as [Q1 [Q2 Q3]].
          rewrite Q2. rewrite <- P2, <- C. rewrite Q1 in *. apply IH; [exact A|].
          destruct (ccur (add_col r2 1)); lia.
        * pose proof (handle_eol_tk r2 x cs2 st H2) as Hh.
          destruct (handle_eol c r2 x) as [[r3 ch']|[| |e]]; cbn [okres] in *; auto.
          cbn [fst snd] in Hh. destruct Hh as [A [B C]]. subst ch'. rewrite <- P2, <- C.
          apply IH; [exact A|].
          assert (Hl : (length (eol_rest (nel c) x cs2) <= length cs2)%nat).
          { unfold eol_rest. destruct (x =? 0xD); [|lia]. destruct cs2 as [|y t']; [cbn; lia|].
            destruct ((y =? 0xA) || (y =? 0x85) && nel c); cbn; lia. }
          destruct (ccur r3); lia.
      + cbn [okres]. unfold runpost. cbn [fst snd]. conj_auto.
  Qed.

  Theorem get_spaces_tk : forall fuel r cs st, St r cs st -> (2 * length cs + 2 <= fuel)%nat ->
    okres st (get_spaces c fuel r)
          (fun a => let sp := tk_run (isWS c) (nel c) (rpos r) [] cs in
                    St (fst a) (snd sp) st /\ snd a = (fst (fst (fst sp)), rev (snd (fst (fst sp)))) /\ rpos (fst a) = snd (fst sp)).
  Proof.
    intros fuel r cs st H Hf. unfold get_spaces.
    pose proof (scan_loop_tk (isWS c) ws_plain (fun x _ => ws_plain_facts x) fuel r cs st [] H ltac:(destruct (ccur r); lia)) as Hs.
    destruct (scan_loop c fuel (isWS c) ws_plain r []) as [[r' [b acc]]|[| |e]]; cbn [okres] in *; auto.
    destruct Hs as [A [B [C D]]]. cbn [fst snd] in *. subst. auto.
  Qed.

  Theorem get_up_to_tk : forall fuel r cs st ch, isWS c 0xA = true -> St r cs st -> (2 * length cs + 2 <= fuel)%nat ->
    okres st (get_up_to c fuel r ch)
          (fun a => let sp := tk_run (upto_take c ch) (nel c) (rpos r) [] cs in
                    St (fst a) (snd sp) st /\ snd a = (fst (fst (fst sp)), rev (snd (fst (fst sp)))) /\ rpos (fst a) = snd (fst sp)).
  Proof.
    intros fuel r cs st ch Hlf H Hf. unfold get_up_to.
    assert (Hfast : forall x, upto_take c ch x = true -> upto_fast x = true ->
               (x =? 0xD) = false /\ (x =? 0xA) = false /\ (x =? 0x85) = false /\ (x =? 0x2028) = false).
    { intros x Ht Hf0. destruct (upto_fast_facts x Hf0) as [A1 [A3 A4]]. repeat split; auto.
      apply N.eqb_neq. intros E. subst x. unfold upto_take in Ht. rewrite Hlf in Ht. discriminate. }
    pose proof (scan_loop_tk (upto_take c ch) upto_fast Hfast fuel r cs st [] H ltac:(destruct (ccur r); lia)) as Hs.
    destruct (scan_loop c fuel (upto_take c ch) upto_fast r []) as [[r' [b acc]]|[| |e]]; cbn [okres] in *; auto.
    destruct Hs as [A [B [C D]]]. cbn [fst snd] in *. subst. auto.
  Qed.

  (** skipSpaces is the same loop without the buffer: it skips exactly the run getSpaces would return *)
  Lemma skip_spaces_scan : forall fuel r sk acc,
    match skip_spaces c fuel r sk, scan_loop c fuel (isWS c) ws_plain r acc with
    | Ok (r1, (b1, s1)), Ok (r2, (b2, acc2)) =>
        r1 = r2 /\ b1 = b2 /\ exists l, acc2 = l ++ acc /\ s1 = (sk || match l with [] => false | _ => true end)%bool
    | Err e1, Err e2 => e1 = e2
    | _, _ => False
    end.
  Proof.
    induction fuel as [|f IH]; intros r sk acc; [reflexivity|].
    cbn [skip_spaces scan_loop]. destruct (ccur r) as [|x t] eqn:Ec.
    - destruct (refresh_char c r) as [[r1 [|]]|e]; [apply IH| |reflexivity].
      split; [reflexivity|]. split; [reflexivity|]. exists []. split; [reflexivity|]. now rewrite Bool.orb_false_r.
    - destruct (isWS c x).
      + destruct (adv1 r) as [r2|e]; [|reflexivity]. destruct (ws_plain x).
        * specialize (IH (add_col r2 1) true (x :: acc)).
          destruct (skip_spaces c f (add_col r2 1) true) as [[r3 [b3 s3]]|e1];
            destruct (scan_loop c f (isWS c) ws_plain (add_col r2 1) (x :: acc)) as [[r4 [b4 a4]]|e2]; auto.
          destruct IH as [A [B [l [D E]]]]. split; [exact A|]. split; [exact B|]. exists (l ++ [x]).
          split; [rewrite <- app_assoc; exact D|]. rewrite E. cbn [orb].
          destruct (l ++ [x]) eqn:El; [now destruct l|now rewrite Bool.orb_true_r].
        * destruct (handle_eol c r2 x) as [[r3 ch']|e]; [|reflexivity].
          specialize (IH r3 true (ch' :: acc)).
          destruct (skip_spaces c f r3 true) as [[r5 [b5 s5]]|e1];
            destruct (scan_loop c f (isWS c) ws_plain r3 (ch' :: acc)) as [[r4 [b4 a4]]|e2]; auto.
          destruct IH as [A [B [l [D E]]]]. split; [exact A|]. split; [exact B|]. exists (l ++ [ch']).
          split; [rewrite <- app_assoc; exact D|]. rewrite E. cbn [orb].
          destruct (l ++ [ch']) eqn:El; [now destruct l|now rewrite Bool.orb_true_r].
      + split; [reflexivity|]. split; [reflexivity|]. exists []. split; [reflexivity|]. now rewrite Bool.orb_false_r.
  Qed.

  Theorem skip_spaces_tk : forall fuel r cs st, St r cs st -> (2 * length cs + 2 <= fuel)%nat ->
    okres st (skip_spaces c fuel r false)
          (fun a => let sp := tk_run (isWS c) (nel c) (rpos r) [] cs in
                    St (fst a) (snd sp) st /\
                    snd a = (fst (fst (fst sp)), match snd (fst (fst sp)) with [] => false | _ => true end) /\
                    rpos (fst a) = snd (fst sp)).
  Proof.
    intros fuel r cs st H Hf.
    pose proof (scan_loop_tk (isWS c) ws_plain (fun x _ => ws_plain_facts x) fuel r cs st [] H ltac:(destruct (ccur r); lia)) as Hs.
    pose proof (skip_spaces_scan fuel r false []) as Hq.
    destruct (skip_spaces c fuel r false) as [[r1 [b1 s1]]|e1];
      destruct (scan_loop c fuel (isWS c) ws_plain r []) as [[r2 [b2 acc2]]|e2]; try contradiction.
    - destruct Hq as [A [B [l [D E]]]]. subst r2 b2. rewrite app_nil_r in D. subst l.
      cbn [okres] in *. destruct Hs as [S1 [S2 [S3 S4]]]. cbn [fst snd] in *.
      split; [exact S1|]. split; [|exact S4]. rewrite <- S2, <- S3. rewrite E. reflexivity.
    - subst e2. exact Hs.
  Qed.

  (** movePlainContentChars: SOME prefix of the plain run is moved (how much depends on the buffer, by design), the column
      advances by its length and exactly the rest remains *)
  Lemma plain_count_prefix : forall isPlain a b, firstn (plain_count isPlain a) a = firstn (plain_count isPlain a) (plain_run isPlain (a ++ b)).
  Proof.
    intros isPlain a b. induction a as [|x a IH]; [reflexivity|].
    cbn [plain_count plain_run app]. destruct (isPlain x); [|reflexivity]. cbn [firstn]. now rewrite IH.
  Qed.
  Lemma plain_count_le : forall isPlain a, (plain_count isPlain a <= length a)%nat.
  Proof. intros isPlain a. induction a as [|x a IH]; cbn; [lia|]. destruct (isPlain x); cbn; lia. Qed.
  Lemma plain_run_len : forall isPlain a b, (plain_count isPlain a <= length (plain_run isPlain (a ++ b)))%nat.
  Proof.
    intros isPlain a b. induction a as [|x a IH]; cbn [plain_count app plain_run]; [lia|].
    destruct (isPlain x); cbn [length]; lia.
  Qed.

  Theorem move_plain_tk : forall isPlain r cs st, St r cs st ->
    okres st (move_plain isPlain r)
          (fun a => let k := length (snd a) in
                    snd a = firstn k (plain_run isPlain cs) /\ (k <= length (plain_run isPlain cs))%nat /\
                    St (fst a) (skipn k cs) st /\ rpos (fst a) = col1 (rpos r) (N.of_nat k) /\
                    (** it stops only at a character that is not plain content or at the end of the BUFFER *)
                    (ccur (fst a) = [] \/ exists x t, skipn k cs = x :: t /\ isPlain x = false)).
  Proof.
    intros isPlain r cs st H. unfold move_plain.
    destruct (St_ccur_prefix step c r cs st H) as [D ED].
    pose proof (plain_count_le isPlain (ccur r)) as Hle.
    destruct (Nat.eqb_spec (plain_count isPlain (ccur r)) 0) as [E0|N0].
    - cbn [okres fst snd length firstn skipn]. split; [reflexivity|]. split; [lia|]. split; [exact H|].
      split; [unfold col1, rpos; cbn [fst snd]; now rewrite N.add_0_r|].
      destruct (ccur r) as [|x t] eqn:Ec; [left; reflexivity|right].
      cbn [plain_count] in E0. destruct (isPlain x) eqn:Ex; [discriminate|]. subst cs. exists x, (t ++ D). auto.
    - destruct (adv_St step c r (plain_count isPlain (ccur r)) cs st H Hle) as [r2 [Ea H2]]. rewrite Ea.
      cbn [okres fst snd]. rewrite firstn_length, Nat.min_l by exact Hle.
      split; [subst cs; apply plain_count_prefix|]. split; [subst cs; apply plain_run_len|].
      split; [exact H2|]. split.
      + unfold adv in Ea. destruct (skipn_chk (plain_count isPlain (ccur r)) (ccur r)); [|discriminate].
        inversion Ea; subst r2. reflexivity.
      + unfold adv in Ea. rewrite (skipn_chk_some _ _ Hle) in Ea. inversion Ea; subst r2. cbn [add_col set_pos ccur].
        subst cs. rewrite skipn_app. replace (plain_count isPlain (ccur r) - length (ccur r))%nat with 0%nat by lia.
        cbn [skipn]. clear. induction (ccur r) as [|x t IH]; [left; reflexivity|].
        cbn [plain_count]. destruct (isPlain x) eqn:Ex.
        * cbn [skipn]. exact IH.
        * right. cbn [skipn app]. eauto.
  Qed.
End Tok.
