(** The transcoder models of C05 meet the reader's contract: ISO-8859-1 and UTF-16 (both byte orders). *)
From XV Require Export C04.Proofs04a.
From Coq Require Import Lia Arith.
Local Open Scope N_scope.

(* ---- ISO-8859-1 ---- *)
Lemma nsteps_latin1 : forall k s, (k <= length s)%nat -> nsteps step_latin1 k s = Some (firstn k s, k).
Proof.
  induction k as [|k IH]; intros s H; [reflexivity|].
  destruct s as [|b s]; [cbn in H; lia|]. cbn [nsteps step_latin1 skipn].
  rewrite IH by (cbn in H; lia). reflexivity.
Qed.

Lemma latin1_contract : xcontract step_latin1 xc_latin1 1.
Proof.
  constructor.
  - reflexivity.
  - intros s u n H. destruct s; inversion H; subst. cbn. lia.
  - intros s t u n H. destruct s; inversion H; subst. reflexivity.
  - intros s t e H. destruct s; discriminate.
  - intros s H. destruct s; [cbn; lia|discriminate].
  - intros s m out eaten H. unfold xc_latin1, l1_from in H. inversion H; subst; clear H.
    rewrite firstn_length. split; [lia|].
    exists (Nat.min (Nat.min (length s) m) (length s)). rewrite nsteps_latin1 by lia.
    replace (Nat.min (Nat.min (length s) m) (length s)) with (Nat.min (length s) m) by lia. reflexivity.
  - intros s m out Hm H. unfold xc_latin1, l1_from in H. inversion H as [[H1 H2]]; clear H.
    rewrite firstn_length in H2. destruct s as [|b s]; [left; reflexivity|].
    right. exists [b], 1%nat. split; [reflexivity|]. cbn [length] in *. lia.
  - intros s m e H. discriminate.
Qed.

(* ---- UTF-16 ---- *)
Lemma u16_from_nsteps : forall sw m s, nsteps (step_utf16 sw) (length (u16_from sw s m)) s =
                                       Some (u16_from sw s m, (2 * length (u16_from sw s m))%nat).
Proof.
  induction m as [|m IH]; intros s; [destruct s as [|b0 [|b1 s]]; reflexivity|].
  destruct s as [|b0 [|b1 s]]; try reflexivity.
  cbn [u16_from length nsteps step_utf16 skipn]. rewrite IH. cbn [app]. f_equal. f_equal. lia.
Qed.

Lemma u16_from_len : forall sw m s, (length (u16_from sw s m) <= m)%nat.
Proof.
  induction m as [|m IH]; intros s; [destruct s as [|b0 [|b1 s]]; cbn; lia|].
  destruct s as [|b0 [|b1 s]]; cbn [u16_from length]; try lia. specialize (IH s). lia.
Qed.

Lemma utf16_contract : forall sw, xcontract (step_utf16 sw) (xc_utf16 sw) 2.
Proof.
  intros sw. constructor.
  - reflexivity.
  - intros s u n H. destruct s as [|b0 [|b1 s]]; inversion H; subst. cbn. lia.
  - intros s t u n H. destruct s as [|b0 [|b1 s]]; inversion H; subst. reflexivity.
  - intros s t e H. destruct s as [|b0 [|b1 s]]; discriminate.
  - intros s H. destruct s as [|b0 [|b1 s]]; try discriminate; cbn; lia.
  - intros s m out eaten H. unfold xc_utf16 in H. inversion H; subst; clear H.
    split; [apply u16_from_len|]. eexists. apply u16_from_nsteps.
  - intros s m out Hm H. unfold xc_utf16 in H. inversion H as [[H1 H2]]; clear H.
    assert (E : u16_from sw s m = []) by (destruct (u16_from sw s m); [reflexivity|cbn in H2; lia]).
    destruct s as [|b0 [|b1 s]]; [left; reflexivity|left; reflexivity|].
    right. eexists. exists 2%nat. split; [reflexivity|].
    destruct m; [cbn; lia|]. cbn in E. discriminate.
  - intros s m e H. discriminate.
Qed.
