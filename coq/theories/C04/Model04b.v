(** Executable model of the remaining token-level operations of src/xercesc/internal/XMLReader.{hpp,cpp} that scanners
    call: skipIfQuote, getSpaces, getUpToCharOrWS, skippedStringLong, movePlainContentChars, and the extended operation
    language [xop] (everything of Model04.op plus these and getNCName / getQName).  Same conventions as Model04.v
    (valid window, [Err Fault] for every access outside it).  No proofs here. *)
From XV Require Export C04.Model04.
Local Open Scope N_scope.

(** XMLReader::skipIfQuote: "if (fCharIndex == fCharsAvail && !refreshCharBuffer()) return false;" *)
Definition skip_if_quote (c : cfg) (r : reader) : res (reader * option N) rerr :=
  match ensure c r with
  | Err e => Err e
  | Ok (r1, false) => Ok (r1, None)
  | Ok (r1, true) =>
    match rd r1 0 with
    | None => Err Fault
    | Some ch =>
      if (ch =? 0x22) || (ch =? 0x27)
      then match adv1 r1 with Ok r2 => Ok (add_col r2 1, Some ch) | Err e => Err e end
      else Ok (r1, None)
    end
  end.

(** the loop shared by XMLReader::getSpaces and XMLReader::getUpToCharOrWS (the two C++ functions differ only in the test
    [take] that decides whether the current character is consumed and in the test [fast] that bypasses handleEOL):
      while (true) { while (fCharIndex < fCharsAvail) { curCh = fCharBuf[fCharIndex];
                       if (take(curCh)) { fCharIndex++; if (fast(curCh)) fCurCol++; else handleEOL(curCh, false);
                                          toFill.append(curCh); } else return true; }
                     if (!refreshCharBuffer()) break; }  return false;
    [acc] = toFill reversed *)
Fixpoint scan_loop (c : cfg) (fuel : nat) (take fast : N -> bool) (r : reader) (acc : list N)
  : res (reader * (bool * list N)) rerr :=
  match fuel with
  | O => Err FuelOut
  | S f =>
    match ccur r with
    | [] =>
      match refresh_char c r with
      | Err e => Err e
      | Ok (r1, false) => Ok (r1, (false, acc))
      | Ok (r1, true) => scan_loop c f take fast r1 acc
      end
    | ch :: _ =>
      if take ch then
        match adv1 r with
        | Err e => Err e
        | Ok r2 =>
          if fast ch then scan_loop c f take fast (add_col r2 1) (ch :: acc)
          else match handle_eol c r2 ch with
               | Ok (r3, ch') => scan_loop c f take fast r3 (ch' :: acc)
               | Err e => Err e
               end
        end
      else Ok (r, (true, acc))
    end
  end.

(** getSpaces: take = isWhitespace, fast = "curCh == chSpace || curCh == chHTab" *)
Definition get_spaces (c : cfg) (fuel : nat) (r : reader) : res (reader * (bool * list N)) rerr :=
  match scan_loop c fuel (isWS c) ws_plain r [] with
  | Ok (r', (b, acc)) => Ok (r', (b, rev acc))
  | Err e => Err e
  end.

(** getUpToCharOrWS: take = "!isWhitespace(curCh) && (curCh != toCheck)", fast = "curCh & (XMLCh) ~(chNEL|chLineSeparator)" *)
Definition upto_take (c : cfg) (toCheck : N) (ch : N) : bool := negb (isWS c ch) && negb (ch =? toCheck).
Definition upto_fast (ch : N) : bool := negb (N.land ch 0xDF52 =? 0).
Definition get_up_to (c : cfg) (fuel : nat) (r : reader) (toCheck : N) : res (reader * (bool * list N)) rerr :=
  match scan_loop c fuel (upto_take c toCheck) upto_fast r [] with
  | Ok (r', (b, acc)) => Ok (r', (b, rev acc))
  | Err e => Err e
  end.

(** XMLReader::skippedStringLong, inner loop "while (charsLeft < srcLen && charsLeft + 1 < kCharBufSize)";
    charsLeft always equals charsLeftInBuffer() = length of the window *)
Fixpoint want_long (c : cfg) (fuel : nat) (r : reader) (srcLen : nat) : res (reader * bool) rerr :=
  match fuel with
  | O => Err FuelOut
  | S f =>
    let left := length (ccur r) in
    if Nat.ltb left srcLen && Nat.ltb (S left) (cbsz c) then
      match refresh_char c r with
      | Err e => Err e
      | Ok (r1, b) =>
        if negb b then Ok (r1, false)
        else if Nat.eqb (length (ccur r1)) left then Ok (r1, false)
        else want_long c f r1 srcLen
      end
    else Ok (r, true)
  end.

(** outer loop "while (srcLen != 0)": compare what is buffered (n = min(charsLeft, srcLen)), consume it, go on *)
Fixpoint skipped_string_long (c : cfg) (fuel : nat) (r : reader) (s : list N) : res (reader * bool) rerr :=
  match fuel with
  | O => Err FuelOut
  | S f =>
    match s with
    | [] => Ok (r, true)
    | _ =>
      match want_long c (S (length s)) r (length s) with
      | Err e => Err e
      | Ok (r1, false) => Ok (r1, false)
      | Ok (r1, true) =>
        let n := Nat.min (length (ccur r1)) (length s) in
        if eq_list (firstn n (ccur r1)) (firstn n s) then
          match adv r1 n with
          | Err e => Err e
          | Ok r2 => skipped_string_long c f (add_col r2 (N.of_nat n)) (skipn n s)
          end
        else Ok (r1, false)
      end
    end
  end.

(** XMLReader::movePlainContentChars: the plain content characters at the head of the WINDOW (no refill) *)
Fixpoint plain_count (isPlain : N -> bool) (l : list N) : nat :=
  match l with
  | x :: t => if isPlain x then S (plain_count isPlain t) else O
  | [] => O
  end.
Definition move_plain (isPlain : N -> bool) (r : reader) : res (reader * list N) rerr :=
  let n := plain_count isPlain (ccur r) in
  if Nat.eqb n 0 then Ok (r, []) else
  match adv r n with
  | Ok r2 => Ok (add_col r2 (N.of_nat n), firstn n (ccur r))
  | Err e => Err e
  end.

(** the scanner's character-data loop (IGXMLScanner::scanCharData and its siblings in the other scanners, state
    State_Waiting): "movePlainContentChars(toUse); if (!getNextChar(nextCh)) break; if plain: append and go on" --
    result: the characters appended, and the first character delivered by getNextChar that is not plain content *)
Fixpoint content_run (c : cfg) (isPlain : N -> bool) (fuel : nat) (r : reader) (acc : list N)
  : res (reader * (list N * option N)) rerr :=
  match fuel with
  | O => Err FuelOut
  | S f =>
    match move_plain isPlain r with
    | Err e => Err e
    | Ok (r1, moved) =>
      match get_next c r1 with
      | Err e => Err e
      | Ok (r2, None) => Ok (r2, (rev (rev moved ++ acc), None))
      | Ok (r2, Some ch) =>
        if isPlain ch then content_run c isPlain f r2 (ch :: rev moved ++ acc)
        else Ok (r2, (rev (rev moved ++ acc), Some ch))
      end
    end
  end.

(* ------------------------------------------------------------------------------------------- *)
(** * extended operation language (correspondence and T04_tokens) *)
Inductive xop : Type :=
| XBase (o : op)
| XQuote | XSpaces | XUpTo (ch : N) | XSkipLong (s : list N) | XNCName | XQName
| XMovePlain | XContent.

Inductive xout : Type :=
| YBase (o : oout)
| YCh (o : option N) | YName (b : bool) (nm : list N) | YBool (b : bool)
| YQName (b : bool) (nm : list N) (colon : option nat)
| YChars (l : list N) | YContent (l : list N) (o : option N).

Definition do_xop (c : cfg) (isPlain : N -> bool) (fuel : nat) (r : reader) (o : xop) : res (reader * xout) rerr :=
  match o with
  | XBase b => match do_op c fuel r b with Ok (r', x) => Ok (r', YBase x) | Err e => Err e end
  | XQuote => match skip_if_quote c r with Ok (r', x) => Ok (r', YCh x) | Err e => Err e end
  | XSpaces => match get_spaces c fuel r with Ok (r', (b, l)) => Ok (r', YName b l) | Err e => Err e end
  | XUpTo ch => match get_up_to c fuel r ch with Ok (r', (b, l)) => Ok (r', YName b l) | Err e => Err e end
  | XSkipLong s => match skipped_string_long c (S (length s)) r s with Ok (r', b) => Ok (r', YBool b) | Err e => Err e end
  | XNCName => match get_ncname c fuel r with Ok (r', (b, l)) => Ok (r', YName b l) | Err e => Err e end
  | XQName => match get_qname c fuel r with Ok (r', (b, l, k)) => Ok (r', YQName b l k) | Err e => Err e end
  | XMovePlain => match move_plain isPlain r with Ok (r', l) => Ok (r', YChars l) | Err e => Err e end
  | XContent => match content_run c isPlain fuel r [] with Ok (r', (l, o)) => Ok (r', YContent l o) | Err e => Err e end
  end.
