(** Token operations are functions of the remaining character sequence only (T04_tokens). *)
From XV Require Export C04.Proofs04d.
From Coq Require Import Lia Arith.
Local Open Scope N_scope.

(** specifications on the remaining (raw, decoded) characters; none mentions buffers *)
Definition spec_skipped_char (ch : N) (cs : list N) : bool * list N :=
  match cs with
  | x :: t => if x =? ch then (true, t) else (false, cs)
  | [] => (false, [])
  end.

Definition spec_peek (nl : bool) (cs : list N) : option N :=
  match cs with
  | x :: _ => if (x =? 0xD) || (nl && ((x =? 0x85) || (x =? 0x2028))) then Some 0xA else Some x
  | [] => None
  end.

Fixpoint is_prefix (s cs : list N) : bool :=
  match s, cs with
  | [], _ => true
  | a :: s', b :: cs' => (a =? b) && is_prefix s' cs'
  | _ :: _, [] => false
  end.

Definition spec_skipped_string (s cs : list N) : bool * list N :=
  if is_prefix s cs then (true, skipn (length s) cs) else (false, cs).

Section Tokens.
  Variable step : list N -> dres.
  Variable maxSeq : nat.
  Variable c : cfg.
  Hypothesis HC : xcontract step (X c) maxSeq.
  Hypothesis HS : sizes_ok c maxSeq.
  Notation St := (St step c).

  Lemma St_ccur_prefix : forall r cs st, St r cs st -> exists D, cs = ccur r ++ D.
  Proof. intros r cs st [_ [_ [D [_ E]]]]. eauto. Qed.

  Lemma skipped_char_spec : forall r cs st ch, St r cs st -> noBad st ->
    match skipped_char c r ch with
    | Ok (r', b) => St r' (snd (spec_skipped_char ch cs)) st /\ b = fst (spec_skipped_char ch cs)
    | Err _ => False
    end.
  Proof.
    intros r cs st ch H Hnb. unfold skipped_char.
    pose proof (ensure_spec step maxSeq c HC HS r cs st H) as He.
    destruct (ensure c r) as [[r1 b]|[| |e]]; try contradiction.
    2:{ unfold noBad in Hnb; unfold errOK in *; intuition congruence. }
    destruct He as [H1 [_ [_ [Hb1 Hb0]]]]. destruct b.
    - destruct (Hb1 eq_refl) as [x [t Ec]]. unfold rd. rewrite Ec. cbn [nth_error].
      destruct (adv1_StL step c r1 x t cs st H1 Ec) as [r2 [cs2 [Ea [Ecs [H2 _]]]]].
      subst cs. cbn [spec_skipped_char]. destruct (x =? ch).
      + rewrite Ea. cbn [fst snd]. split; [exact H2|reflexivity].
      + cbn [fst snd]. split; [exact H1|reflexivity].
    - destruct (Hb0 eq_refl) as [E0 _]. subst cs. cbn. split; [exact H1|reflexivity].
  Qed.

  Lemma peek_next_spec : forall r cs st, St r cs st -> noBad st ->
    match peek_next c r with
    | Ok (r', o) => St r' cs st /\ o = spec_peek (nel c) cs
    | Err _ => False
    end.
  Proof.
    intros r cs st H Hnb. unfold peek_next.
    pose proof (ensure_spec step maxSeq c HC HS r cs st H) as He.
    destruct (ensure c r) as [[r1 b]|[| |e]]; try contradiction.
    2:{ unfold noBad in Hnb; unfold errOK in *; intuition congruence. }
    destruct He as [H1 [_ [_ [Hb1 Hb0]]]]. destruct b.
    - destruct (Hb1 eq_refl) as [x [t Ec]]. unfold rd. rewrite Ec. cbn [nth_error].
      destruct (St_ccur_prefix r1 cs st H1) as [D ED]. rewrite Ec in ED. subst cs. cbn [spec_peek app].
      destruct ((x =? 13) || nel c && ((x =? 133) || (x =? 8232))); split; auto.
    - destruct (Hb0 eq_refl) as [E0 _]. subst cs. cbn. split; [exact H1|reflexivity].
  Qed.

  (** the refill loop obtains [n] characters exactly when that many remain *)
  Lemma want_chars_spec : forall fuel strict r cs st n, St r cs st -> noBad st ->
    (n + 1 <= cbsz c)%nat -> (n - length (ccur r) + 1 <= fuel)%nat ->
    match want_chars c fuel strict r n with
    | Ok (r', b) => St r' cs st /\ (b = true -> (n <= length (ccur r'))%nat) /\ (b = false -> (length cs < n)%nat)
    | Err _ => False
    end.
  Proof.
    induction fuel as [|f IH]; intros strict r cs st n H Hnb Hn Hf; [lia|].
    cbn [want_chars]. destruct (Nat.ltb_spec (length (ccur r)) n) as [Hlt|Hge].
    - pose proof (refresh_char_spec step maxSeq c HC HS r cs st H) as Hr.
      destruct (refresh_char c r) as [[r1 b]|[| |e]]; try contradiction.
      2:{ unfold noBad in Hnb; unfold errOK in *; intuition congruence. }
      destruct Hr as [H1 [_ [_ [[new Enew] [_ [Hb0 Hprog]]]]]].
      destruct (strict && negb b) eqn:Esb.
      { split; [exact H1|]. split; [discriminate|]. intros _.
        apply Bool.andb_true_iff in Esb. destruct Esb as [_ Eb]. destruct b; [discriminate|].
        destruct (Hb0 eq_refl) as [E0 _]. subst cs. cbn. lia. }
      destruct (Nat.eqb_spec (length (ccur r1)) (length (ccur r))) as [Eq|Nq].
      { split; [exact H1|]. split; [discriminate|]. intros _.
        assert (Esame : ccur r1 = ccur r).
        { rewrite Enew in Eq. rewrite app_length in Eq. destruct new; [now rewrite Enew, app_nil_r|cbn in Eq; lia]. }
        destruct (Hprog ltac:(lia) Esame) as [Ecs _]. rewrite Ecs. exact Hlt. }
      apply IH; auto. rewrite Enew, app_length in *. lia.
    - split; [exact H|]. split; [intros _; lia|discriminate].
  Qed.

  Lemma eq_list_true : forall a b, eq_list a b = true <-> a = b.
  Proof.
    induction a as [|x a IH]; destruct b as [|y b]; cbn [eq_list]; split; intros H; try discriminate; auto.
    - apply Bool.andb_true_iff in H. destruct H as [H1 H2]. apply N.eqb_eq in H1. apply IH in H2. congruence.
    - inversion H; subst. rewrite N.eqb_refl. cbn. apply IH. reflexivity.
  Qed.

  Lemma is_prefix_firstn : forall s cs, is_prefix s cs = eq_list (firstn (length s) cs) s.
  Proof.
    induction s as [|a s IH]; intros cs; [reflexivity|].
    destruct cs as [|b cs]; [reflexivity|]. cbn [is_prefix length firstn eq_list]. rewrite IH, N.eqb_sym. reflexivity.
  Qed.

  Lemma is_prefix_short : forall s cs, (length cs < length s)%nat -> is_prefix s cs = false.
  Proof.
    induction s as [|a s IH]; intros cs H; [cbn in H; lia|].
    destruct cs as [|b cs]; [reflexivity|]. cbn [is_prefix]. rewrite IH; [apply Bool.andb_false_r|cbn in H; lia].
  Qed.

  Lemma firstn_app_le : forall (n : nat) (a b : list N), (n <= length a)%nat -> firstn n (a ++ b) = firstn n a.
  Proof.
    intros n a b H. rewrite firstn_app. replace (n - length a)%nat with 0%nat by lia. cbn. apply app_nil_r.
  Qed.

  Lemma skipped_string_spec : forall r cs st s, St r cs st -> noBad st -> (length s + 1 <= cbsz c)%nat ->
    match skipped_string c r s with
    | Ok (r', b) => St r' (snd (spec_skipped_string s cs)) st /\ b = fst (spec_skipped_string s cs)
    | Err _ => False
    end.
  Proof.
    intros r cs st s H Hnb Hn. unfold skipped_string, spec_skipped_string.
    pose proof (want_chars_spec (S (length s)) true r cs st (length s) H Hnb Hn ltac:(lia)) as Hw.
    destruct (want_chars c (S (length s)) true r (length s)) as [[r1 b]|e]; [|contradiction].
    destruct Hw as [H1 [Hb1 Hb0]]. destruct b.
    - specialize (Hb1 eq_refl). destruct (St_ccur_prefix r1 cs st H1) as [D ED].
      assert (Hfe : firstn (length s) cs = firstn (length s) (ccur r1)) by (rewrite ED; apply firstn_app_le; exact Hb1).
      rewrite is_prefix_firstn, Hfe.
      destruct (eq_list (firstn (length s) (ccur r1)) s) eqn:Eq; cbn [fst snd].
      + destruct (adv_St step c r1 (length s) cs st H1 Hb1) as [r2 [Ea H2]]. rewrite Ea.
        split; [exact H2|reflexivity].
      + split; [exact H1|reflexivity].
    - rewrite (is_prefix_short s cs (Hb0 eq_refl)). cbn [fst snd]. split; [exact H1|reflexivity].
  Qed.

  Lemma peek_string_spec : forall r cs st s, St r cs st -> noBad st -> (length s + 1 <= cbsz c)%nat ->
    match peek_string c r s with
    | Ok (r', b) => St r' cs st /\ b = is_prefix s cs
    | Err _ => False
    end.
  Proof.
    intros r cs st s H Hnb Hn. unfold peek_string.
    pose proof (want_chars_spec (S (length s)) false r cs st (length s) H Hnb Hn ltac:(lia)) as Hw.
    destruct (want_chars c (S (length s)) false r (length s)) as [[r1 b]|e]; [|contradiction].
    destruct Hw as [H1 [Hb1 Hb0]]. destruct b.
    - specialize (Hb1 eq_refl). destruct (St_ccur_prefix r1 cs st H1) as [D ED].
      assert (Hfe : firstn (length s) cs = firstn (length s) (ccur r1)) by (rewrite ED; apply firstn_app_le; exact Hb1).
      split; [exact H1|]. rewrite is_prefix_firstn, Hfe. reflexivity.
    - split; [exact H1|]. symmetry. apply is_prefix_short. auto.
  Qed.
End Tokens.
