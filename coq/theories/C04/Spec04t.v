(** Specification of the token-level reader operations (T04_tokens).  Nothing here mentions buffers, refills or
    reads: every operation is a FUNCTION of the current position (line, column) and of the remaining decoded
    character sequence [cs] (raw characters, before line-end normalisation), and returns its answer, the new
    position and the characters that remain.  The theorems of Proofs04i/j/k say that the model of XMLReader
    computes exactly these functions in every reachable state, wherever the refill points fall. *)
From XV Require Export C04.Spec04.
Local Open Scope N_scope.

Definition pos : Type := (N * N)%type.                      (* line, column *)

(** one raw character [x] is consumed, [t] follows it: XML 1.0/1.1 2.11 line ends.  A CR swallows a following LF
    (and NEL under 1.1 rules); CR, LF (and NEL, LS under 1.1 rules) are delivered as LF and start a new line;
    every other character -- NEL and LS under 1.0 rules included -- advances the column by one. *)
Definition eol_rest (nel : bool) (x : N) (t : list N) : list N :=
  if x =? 0xD then
    match t with
    | y :: t' => if (y =? 0xA) || ((y =? 0x85) && nel) then t' else t
    | [] => []
    end
  else t.
Definition eol_pos (nel : bool) (p : pos) (x : N) : pos :=
  if (x =? 0xD) || (x =? 0xA) then (fst p + 1, 1)
  else if (x =? 0x85) || (x =? 0x2028) then (if nel then (fst p + 1, 1) else (fst p, snd p + 1))
  else (fst p, snd p + 1).
Definition eol_ch (nel : bool) (x : N) : N :=
  if (x =? 0xD) || (x =? 0xA) then 0xA
  else if (x =? 0x85) || (x =? 0x2028) then (if nel then 0xA else x)
  else x.
Definition col1 (p : pos) (k : N) : pos := (fst p, snd p + k).

(** getNextChar / getNextCharIfNot *)
Definition tk_get (nel : bool) (p : pos) (cs : list N) : option N * pos * list N :=
  match cs with
  | [] => (None, p, [])
  | x :: t => (Some (eol_ch nel x), eol_pos nel p x, eol_rest nel x t)
  end.
Definition tk_get_if_not (nel : bool) (notc : N) (p : pos) (cs : list N) : option N * pos * list N :=
  match cs with
  | [] => (None, p, [])
  | x :: t => if x =? notc then (None, p, cs) else tk_get nel p cs
  end.
(** skippedChar / skipIfQuote / skippedSpace *)
Definition tk_skipped_char (ch : N) (p : pos) (cs : list N) : bool * pos * list N :=
  match cs with
  | x :: t => if x =? ch then (true, col1 p 1, t) else (false, p, cs)
  | [] => (false, p, [])
  end.
Definition tk_skip_if_quote (p : pos) (cs : list N) : option N * pos * list N :=
  match cs with
  | x :: t => if (x =? 0x22) || (x =? 0x27) then (Some x, col1 p 1, t) else (None, p, cs)
  | [] => (None, p, [])
  end.
Definition tk_skipped_space (isWS : N -> bool) (nel : bool) (p : pos) (cs : list N) : bool * pos * list N :=
  match cs with
  | x :: t => if isWS x then (true, eol_pos nel p x, eol_rest nel x t) else (false, p, cs)
  | [] => (false, p, [])
  end.

(** the longest run of characters satisfying [take], consumed with line-end handling: (stopped at a character
    that is not taken, the normalised characters of the run REVERSED onto [acc], position, rest).
    skipSpaces, getSpaces ([take] = white space) and getUpToCharOrWS ([take] = neither white space nor the given
    character) are this function *)
Fixpoint tk_run (take : N -> bool) (nel : bool) (p : pos) (acc : list N) (cs : list N) : bool * list N * pos * list N :=
  match cs with
  | [] => (false, acc, p, [])
  | x :: t =>
    if take x then
      if x =? 0xD then
        match t with
        | y :: t' => if (y =? 0xA) || ((y =? 0x85) && nel)
                     then tk_run take nel (eol_pos nel p x) (0xA :: acc) t'
                     else tk_run take nel (eol_pos nel p x) (0xA :: acc) t
        | [] => (false, 0xA :: acc, eol_pos nel p x, [])
        end
      else tk_run take nel (eol_pos nel p x) (eol_ch nel x :: acc) t
    else (true, acc, p, cs)
  end.

(** skippedString / peekString / skippedStringLong (when the string is there) *)
Fixpoint starts_with (s cs : list N) : bool :=
  match s, cs with
  | [], _ => true
  | a :: s', b :: cs' => (a =? b) && starts_with s' cs'
  | _ :: _, [] => false
  end.
Definition tk_skipped_string (s : list N) (p : pos) (cs : list N) : bool * pos * list N :=
  if starts_with s cs then (true, col1 p (N.of_nat (length s)), skipn (length s) cs) else (false, p, cs).
Definition tk_peek (nel : bool) (cs : list N) : option N :=
  match cs with x :: _ => Some (if (x =? 0xD) || (nel && ((x =? 0x85) || (x =? 0x2028))) then 0xA else x) | [] => None end.

(** Name / NCName / Nmtoken: the longest run of name characters ([name_prefix] of Spec04), a supplementary character being
    a high surrogate (D800..DB7F) followed by a low surrogate.  [name_from]: the name that starts here, None if none can:
    a Name must start with a first-name character or a surrogate pair, an Nmtoken (token = true) need not *)
Definition name_from (isName isFirst : N -> bool) (token : bool) (cs : list N) : option (list N) :=
  if token then Some (name_prefix isName cs) else
  match cs with
  | x :: t =>
    if is_high x then
      match t with
      | y :: t' => if is_low y then Some (x :: y :: name_prefix isName t') else None
      | [] => None
      end
    else if isFirst x then Some (x :: name_prefix isName t) else None
  | [] => None
  end.
(** getName / getNameToken: answer (non-empty?, the name), column advanced by its length *)
Definition tk_name (isName isFirst : N -> bool) (token : bool) (p : pos) (cs : list N) : (bool * list N) * pos * list N :=
  match name_from isName isFirst token cs with
  | Some nm => ((match nm with [] => false | _ => true end, nm), col1 p (N.of_nat (length nm)), skipn (length nm) cs)
  | None => ((false, []), p, cs)
  end.
(** getNCName: first character a first-name character other than ':' *)
Definition tk_ncname (isNC isFirst : N -> bool) (p : pos) (cs : list N) : (bool * list N) * pos * list N :=
  match name_from isNC (fun x => isFirst x && negb (x =? 0x3A)) false cs with
  | Some nm => ((true, nm), col1 p (N.of_nat (length nm)), skipn (length nm) cs)
  | None => ((false, []), p, cs)
  end.
(** getQName: NCName [':' NCName]; answer (ok, text put into the buffer, colon position) *)
Definition tk_qname (isNC isFirst : N -> bool) (p : pos) (cs : list N) : (bool * list N * option nat) * pos * list N :=
  match tk_ncname isNC isFirst p cs with
  | ((false, _), _, _) => ((false, [], None), p, cs)
  | ((true, n1), p1, cs1) =>
    match cs1 with
    | x :: t =>
      if x =? 0x3A then
        match tk_ncname isNC isFirst (col1 p1 1) t with
        | ((b, n2), p2, cs2) => ((b, n1 ++ 0x3A :: n2, Some (length n1)), p2, cs2)
        end
      else ((true, n1, None), p1, cs1)
    | [] => ((true, n1, None), p1, cs1)
    end
  end.

(** movePlainContentChars moves SOME prefix of the run of plain content characters (how much of it is buffer dependent by
    design -- the scanner's loop calls it again); the loop "movePlainContentChars; getNextChar" until a non-plain
    character has been delivered is a function of the characters: the plain run, then one getNextChar *)
Fixpoint plain_run (isPlain : N -> bool) (cs : list N) : list N :=
  match cs with
  | x :: t => if isPlain x then x :: plain_run isPlain t else []
  | [] => []
  end.
