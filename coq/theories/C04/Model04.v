(** Executable model of src/xercesc/internal/XMLReader.{hpp,cpp}: raw byte buffer, character buffer, refills,
    and the scanning primitives, following the C++ statement by statement.  No proofs here.

    Representation.  A buffer is modelled by its *valid window* and an explicit index:
      [ccur] = fCharBuf[fCharIndex .. fCharsAvail)      [cidx] = fCharIndex     (so fCharsAvail = cidx + length ccur)
      [rcur] = fRawByteBuf[fRawBufIndex .. fRawBytesAvail)  [ridx] = fRawBufIndex
    Content outside the window (consumed or stale memory) is NOT represented; every access the C++ makes outside
    the window -- fCharBuf[i] with i >= fCharsAvail, advancing fCharIndex past fCharsAvail, writing at or beyond
    kCharBufSize / kRawBufSize, a transcoder that reports more than it was given -- evaluates to [Err Fault].
    Buffer sizes, low-water mark, transcoder and character classes are parameters ([cfg]), so the theorems hold
    for all sizes above a small bound and the correspondence runs with the sizes read from XMLReader.hpp.

    Two switches select the behaviour of two repairs proposed in /verif/fixes (see known-findings.d/C04.json):
      [fillraw]  refreshRawBuffer keeps reading until the raw buffer is full or the stream is at its end
      [safename] getName/getNCName re-check fCharIndex+1 < fCharsAvail after the refresh of a trailing high surrogate *)
From XV Require Export C04.Spec04.
Local Open Scope N_scope.

Inductive rerr : Type :=
| Fault                 (* access outside the valid window / buffer *)
| FuelOut               (* model fuel exhausted (proved unreachable) *)
| XErr (e : xerr).      (* exception thrown by the transcoder *)

(** block transcoder: source bytes, maxChars -> (characters, bytesEaten) *)
Definition xcoder := list N -> nat -> res (list N * nat) xerr.

Record cfg : Type := mkCfg {
  X : xcoder;
  cbsz : nat;            (* kCharBufSize *)
  rbsz : nat;            (* kRawBufSize *)
  low : nat;             (* fLowWaterMark *)
  fillraw : bool;
  safename : bool;
  nel : bool;            (* fNEL: XML 1.1 line ends *)
  isName : N -> bool;    (* isNameChar *)
  isFirstName : N -> bool;
  isWS : N -> bool;      (* isWhitespace *)
  isNCName : N -> bool;  (* isNCNameChar *)
  nelcol : bool          (* handleEOL counts a column for NEL / LS when they are ordinary characters (XML 1.0 rules):
                            repair fixes/C04-nel-column.patch, finding FD; false = as written before the repair *)
}.

Record reader : Type := mkR {
  ccur : list N; cidx : nat;
  rcur : list N; ridx : nat;
  strm : list (list N);          (* the rest of the input stream as the chunks its reads will return *)
  noMore : bool;                 (* fNoMore *)
  line : N; col : N
}.

Definition mk_reader (chunks : list (list N)) : reader := mkR [] 0 [] 0 chunks false 1 1.

(* ------------------------------------------------------------------------------------------- *)
(** * BinInputStream::readBytes on a chunked stream: at most [req] bytes, the head of the current chunk *)
Definition sread (s : list (list N)) (req : nat) : list N * list (list N) :=
  match s with
  | [] => ([], [])
  | c :: rest => if Nat.leb (length c) req then (c, rest) else (firstn req c, skipn req c :: rest)
  end.

(** repaired refreshRawBuffer: repeat readBytes until the request is satisfied or a read returns nothing *)
Fixpoint sfill (s : list (list N)) (req : nat) : list N * list (list N) :=
  match s with
  | [] => ([], [])
  | c :: rest =>
    match c with
    | [] => ([], rest)
    | _ =>
      if Nat.eqb req 0 then ([], s) else
      if Nat.leb (length c) req then let (g, s') := sfill rest (req - length c) in (c ++ g, s')
      else (firstn req c, skipn req c :: rest)
    end
  end.

(** XMLReader::refreshRawBuffer *)
Definition refresh_raw (c : cfg) (r : reader) : res reader rerr :=
  let left := length (rcur r) in                                   (* bytesLeft = fRawBytesAvail - fRawBufIndex *)
  if Nat.ltb (rbsz c) left then Err Fault else                     (* move-down / read target beyond the buffer *)
  let (got, s') := if fillraw c then sfill (strm r) (rbsz c - left) else sread (strm r) (rbsz c - left) in
  if Nat.ltb (rbsz c - left) (length got) then Err Fault else      (* stream wrote more than asked *)
  Ok (mkR (ccur r) (cidx r) (rcur r ++ got) 0 s' (noMore r) (line r) (col r)).

(** XMLReader::xcodeMoreChars: the [while (!bytesEaten)] loop *)
Fixpoint xcode_more (c : cfg) (fuel : nat) (needMore : bool) (r : reader) (maxChars : nat)
  : res (reader * list N) rerr :=
  match fuel with
  | O => Err FuelOut
  | S f =>
    let left := length (rcur r) in
    let pre : res (reader * bool) rerr :=
      if needMore || Nat.eqb left 0 || Nat.ltb left (low c) then
        match refresh_raw c r with
        | Err e => Err e
        | Ok r1 =>
          (* if (fRawBytesAvail == 0) return 0;
             if (needMode && bytesLeft == fRawBytesAvail - fRawBufIndex) throw TranscodingException(Trans_BadSrcSeq);
             -- the input ends inside a multi-byte sequence (repair of finding F2) *)
          if Nat.eqb (length (rcur r1)) 0 then Ok (r1, true)
          else if needMore && Nat.eqb left (length (rcur r1)) then Err (XErr E_Trans_BadSrcSeq)
          else Ok (r1, false)
        end
      else Ok (r, false) in
    match pre with
    | Err e => Err e
    | Ok (r1, true) => Ok (r1, [])
    | Ok (r1, false) =>
      match X c (rcur r1) maxChars with
      | Err e => Err (XErr e)
      | Ok (out, eaten) =>
        if Nat.ltb maxChars (length out) || Nat.ltb (length (rcur r1)) eaten then Err Fault
        else if Nat.eqb eaten 0 then xcode_more c f true r1 maxChars
        else Ok (mkR (ccur r1) (cidx r1) (skipn eaten (rcur r1)) (ridx r1 + eaten) (strm r1) (noMore r1) (line r1) (col r1),
                 out)
      end
    end
  end.

(** XMLReader::refreshCharBuffer (document/general entities: no PE trailing space) *)
Definition refresh_char (c : cfg) (r : reader) : res (reader * bool) rerr :=
  if noMore r then Ok (r, false) else
  let spare := length (ccur r) in                                  (* fCharsAvail - fCharIndex *)
  (* "if (spareChars + 1 >= kCharBufSize) return true;": a buffer with one free slot counts as full (a surrogate pair could
     not be stored); proposed repair fixes/C04-longname-pair-room.patch, finding FC *)
  if Nat.leb (cbsz c) (S spare) then Ok (r, true) else
  if Nat.ltb (cbsz c) spare then Err Fault else                    (* kCharBufSize - spareChars wraps *)
  match xcode_more c (S (S (rbsz c))) false r (cbsz c - spare) with
  | Err e => Err e
  | Ok (r1, new) =>
    let cc := ccur r ++ new in
    let nm := match cc with [] => true | _ => false end in
    Ok (mkR cc 0 (rcur r1) (ridx r1) (strm r1) nm (line r1) (col r1), negb nm)
  end.

(* ------------------------------------------------------------------------------------------- *)
(** * window primitives *)
Definition rd (r : reader) (k : nat) : option N := nth_error (ccur r) k.     (* fCharBuf[fCharIndex + k] *)

Definition adv1 (r : reader) : res reader rerr :=                             (* fCharIndex++ *)
  match ccur r with
  | [] => Err Fault
  | _ :: t => Ok (mkR t (S (cidx r)) (rcur r) (ridx r) (strm r) (noMore r) (line r) (col r))
  end.

Fixpoint skipn_chk (k : nat) (l : list N) : option (list N) :=
  match k, l with
  | O, _ => Some l
  | S k', _ :: t => skipn_chk k' t
  | S _, [] => None
  end.

Definition adv (r : reader) (k : nat) : res reader rerr :=                    (* fCharIndex += k *)
  match skipn_chk k (ccur r) with
  | None => Err Fault
  | Some t => Ok (mkR t (cidx r + k) (rcur r) (ridx r) (strm r) (noMore r) (line r) (col r))
  end.

Definition set_pos (r : reader) (l cl : N) : reader :=
  mkR (ccur r) (cidx r) (rcur r) (ridx r) (strm r) (noMore r) l cl.
Definition add_col (r : reader) (k : N) : reader := set_pos r (line r) (col r + k).

(** "if (fCharIndex == fCharsAvail) { if (!refreshCharBuffer()) return false; }" *)
Definition ensure (c : cfg) (r : reader) : res (reader * bool) rerr :=
  match ccur r with
  | [] => refresh_char c r
  | _ => Ok (r, true)
  end.

(* ------------------------------------------------------------------------------------------- *)
(** * XMLReader::handleEOL (external source, not in a declaration) *)
Definition handle_eol (c : cfg) (r : reader) (ch : N) : res (reader * N) rerr :=
  if ch =? 0xD then
    let r0 := set_pos r (line r + 1) 1 in
    (* if ((fCharIndex < fCharsAvail) || refreshCharBuffer()) *)
    match ensure c r0 with
    | Err e => Err e
    | Ok (r1, false) => Ok (r1, 0xA)
    | Ok (r1, true) =>
      match rd r1 0 with
      | None => Err Fault
      | Some x =>
        if (x =? 0xA) || ((x =? 0x85) && nel c)
        then match adv1 r1 with Ok r2 => Ok (r2, 0xA) | Err e => Err e end
        else Ok (r1, 0xA)
      end
    end
  else if ch =? 0xA then Ok (set_pos r (line r + 1) 1, ch)
  else if (ch =? 0x85) || (ch =? 0x2028) then
    if nel c then Ok (set_pos r (line r + 1) 1, 0xA)
    else Ok ((if nelcol c then add_col r 1 else r), ch)     (* as written: no column step (finding FD) *)
  else Ok (add_col r 1, ch).

(** the test "chGotten & ~(chCR|chLF|chNEL|chLineSeparator)" : non-zero means ordinary character *)
Definition plain_ch (ch : N) : bool := negb (N.land ch 0xDF50 =? 0).

(** after fCharBuf[fCharIndex++] was read as [ch] *)
Definition after_get (c : cfg) (r : reader) (ch : N) : res (reader * N) rerr :=
  if plain_ch ch then Ok (add_col r 1, ch) else handle_eol c r ch.

(** XMLReader::getNextChar *)
Definition get_next (c : cfg) (r : reader) : res (reader * option N) rerr :=
  match ensure c r with
  | Err e => Err e
  | Ok (r1, false) => Ok (r1, None)
  | Ok (r1, true) =>
    match rd r1 0 with
    | None => Err Fault
    | Some ch =>
      match adv1 r1 with
      | Err e => Err e
      | Ok r2 => match after_get c r2 ch with Ok (r3, ch') => Ok (r3, Some ch') | Err e => Err e end
      end
    end
  end.

(** XMLReader::getNextCharIfNot *)
Definition get_next_if_not (c : cfg) (r : reader) (notc : N) : res (reader * option N) rerr :=
  match ensure c r with
  | Err e => Err e
  | Ok (r1, false) => Ok (r1, None)
  | Ok (r1, true) =>
    match rd r1 0 with
    | None => Err Fault
    | Some ch =>
      if ch =? notc then Ok (r1, None) else
      match adv1 r1 with
      | Err e => Err e
      | Ok r2 => match after_get c r2 ch with Ok (r3, ch') => Ok (r3, Some ch') | Err e => Err e end
      end
    end
  end.

(** XMLReader::peekNextChar *)
Definition peek_next (c : cfg) (r : reader) : res (reader * option N) rerr :=
  match ensure c r with
  | Err e => Err e
  | Ok (r1, false) => Ok (r1, None)
  | Ok (r1, true) =>
    match rd r1 0 with
    | None => Err Fault
    | Some ch =>
      if (ch =? 0xD) || (nel c && ((ch =? 0x85) || (ch =? 0x2028))) then Ok (r1, Some 0xA) else Ok (r1, Some ch)
    end
  end.

(** XMLReader::skippedChar *)
Definition skipped_char (c : cfg) (r : reader) (toSkip : N) : res (reader * bool) rerr :=
  match ensure c r with
  | Err e => Err e
  | Ok (r1, false) => Ok (r1, false)
  | Ok (r1, true) =>
    match rd r1 0 with
    | None => Err Fault
    | Some ch =>
      if ch =? toSkip then match adv1 r1 with Ok r2 => Ok (add_col r2 1, true) | Err e => Err e end
      else Ok (r1, false)
    end
  end.

(** the test "curCh == chSpace || curCh == chHTab" of the white-space paths (since /repo ed42853; it was the bit test
    "(curCh & (chCR|chLF) & ~(0x9|0x20)) == 0", which also took U+2028 -- white space and a line end in XML 1.1 -- for a
    plain blank); every other white-space character goes through handleEOL *)
Definition ws_plain (ch : N) : bool := (ch =? 0x20) || (ch =? 0x9).

(** XMLReader::skippedSpace *)
Definition skipped_space (c : cfg) (r : reader) : res (reader * bool) rerr :=
  match ensure c r with
  | Err e => Err e
  | Ok (r1, false) => Ok (r1, false)
  | Ok (r1, true) =>
    match rd r1 0 with
    | None => Err Fault
    | Some ch =>
      if isWS c ch then
        match adv1 r1 with
        | Err e => Err e
        | Ok r2 =>
          if ws_plain ch then Ok (add_col r2 1, true)
          else match handle_eol c r2 ch with Ok (r3, _) => Ok (r3, true) | Err e => Err e end
        end
      else Ok (r1, false)
    end
  end.

(** XMLReader::skipSpaces: result = (hit a non-space, skipped something) *)
Fixpoint skip_spaces (c : cfg) (fuel : nat) (r : reader) (skipped : bool) : res (reader * (bool * bool)) rerr :=
  match fuel with
  | O => Err FuelOut
  | S f =>
    match ccur r with
    | [] =>
      match refresh_char c r with
      | Err e => Err e
      | Ok (r1, false) => Ok (r1, (false, skipped))
      | Ok (r1, true) => skip_spaces c f r1 skipped
      end
    | ch :: _ =>
      if isWS c ch then
        match adv1 r with
        | Err e => Err e
        | Ok r2 =>
          if ws_plain ch then skip_spaces c f (add_col r2 1) true
          else match handle_eol c r2 ch with Ok (r3, _) => skip_spaces c f r3 true | Err e => Err e end
        end
      else Ok (r, (true, skipped))
    end
  end.

Fixpoint eq_list (a b : list N) : bool :=
  match a, b with
  | [], [] => true
  | x :: a', y :: b' => (x =? y) && eq_list a' b'
  | _, _ => false
  end.

(** the "while (charsLeft < srcLen)" refill loop shared by skippedString and peekString;
    [strict] = skippedString (gives up as soon as refreshCharBuffer returns false) *)
Fixpoint want_chars (c : cfg) (fuel : nat) (strict : bool) (r : reader) (srcLen : nat) : res (reader * bool) rerr :=
  match fuel with
  | O => Err FuelOut
  | S f =>
    let left := length (ccur r) in
    if Nat.ltb left srcLen then
      match refresh_char c r with
      | Err e => Err e
      | Ok (r1, b) =>
        if strict && negb b then Ok (r1, false)
        else if Nat.eqb (length (ccur r1)) left then Ok (r1, false)
        else want_chars c f strict r1 srcLen
      end
    else Ok (r, true)
  end.

(** XMLReader::skippedString *)
Definition skipped_string (c : cfg) (r : reader) (s : list N) : res (reader * bool) rerr :=
  match want_chars c (S (length s)) true r (length s) with
  | Err e => Err e
  | Ok (r1, false) => Ok (r1, false)
  | Ok (r1, true) =>
    if eq_list (firstn (length s) (ccur r1)) s      (* memcmp over srcLen chars: inside the window by the loop *)
    then match adv r1 (length s) with Ok r2 => Ok (add_col r2 (N.of_nat (length s)), true) | Err e => Err e end
    else Ok (r1, false)
  end.

(** XMLReader::peekString *)
Definition peek_string (c : cfg) (r : reader) (s : list N) : res (reader * bool) rerr :=
  match want_chars c (S (length s)) false r (length s) with
  | Err e => Err e
  | Ok (r1, false) => Ok (r1, false)
  | Ok (r1, true) => Ok (r1, eq_list (firstn (length s) (ccur r1)) s)
  end.

(* ------------------------------------------------------------------------------------------- *)
(** * XMLReader::getName *)

(** "fCurCol += fCharIndex - charIndex_start; toFill.append(&fCharBuf[charIndex_start], ...)" ;
    [acc] = the characters since charIndex_start and [name] = toFill, both reversed *)
Definition flush (r : reader) (acc name : list N) : reader * list N :=
  match acc with
  | [] => (r, name)
  | _ => (add_col r (N.of_nat (length acc)), acc ++ name)
  end.

(** the surrogate look-ahead "fCharBuf[fCharIndex+1]" at a high surrogate; [K] continues with the pair eaten *)
Definition pair_step (c : cfg) (r : reader) (acc name : list N)
           (K : reader -> list N -> list N -> res (reader * list N) rerr) : res (reader * list N) rerr :=
  match rd r 0, rd r 1 with
  | Some x, Some y =>
    if is_low y then match adv r 2 with Ok r2 => K r2 (y :: x :: acc) name | Err e => Err e end
    else let (r1, n1) := flush r acc name in Ok (r1, n1)             (* break *)
  | Some _, None =>
    if safename c then let (r1, n1) := flush r acc name in Ok (r1, n1)   (* repaired: fCharIndex+1 >= fCharsAvail -> break *)
    else Err Fault                                                   (* as written: reads beyond fCharsAvail *)
  | None, _ => Err Fault
  end.

Fixpoint name_loop (c : cfg) (fuel : nat) (r : reader) (acc name : list N) : res (reader * list N) rerr :=
  match fuel with
  | O => Err FuelOut
  | S f =>
    match ccur r with
    | [] =>
      (* inner loop left with fCharIndex == fCharsAvail: append, then "|| !refreshCharBuffer()" *)
      let (r1, n1) := flush r acc name in
      match refresh_char c r1 with
      | Err e => Err e
      | Ok (r2, false) => Ok (r2, n1)
      | Ok (r2, true) => name_loop c f r2 [] n1
      end
    | x :: t =>
      if is_high x then
        match t with
        | [] =>
          (* fCharIndex+1 == fCharsAvail: append what was accepted, refresh, restart charIndex_start *)
          let (r1, n1) := flush r acc name in
          match refresh_char c r1 with
          | Err e => Err e
          | Ok (r2, false) => let (r3, n3) := flush r2 acc n1 in Ok (r3, n3)   (* break; appended a second time *)
          | Ok (r2, true) => pair_step c r2 [] n1 (name_loop c f)
          end
        | _ => pair_step c r acc name (name_loop c f)
        end
      else if isName c x then
        match adv1 r with Ok r2 => name_loop c f r2 (x :: acc) name | Err e => Err e end
      else let (r1, n1) := flush r acc name in Ok (r1, n1)
    end
  end.

(** result: (reader, returned bool, toFill) *)
Definition get_name (c : cfg) (fuel : nat) (r : reader) (token : bool) : res (reader * (bool * list N)) rerr :=
  let fin (x : res (reader * list N) rerr) :=
    match x with
    | Err e => Err e
    | Ok (r', nm) => Ok (r', (match nm with [] => false | _ => true end, rev nm))
    end in
  match ensure c r with
  | Err e => Err e
  | Ok (r1, false) => Ok (r1, (false, []))
  | Ok (r1, true) =>
    if token then fin (name_loop c fuel r1 [] []) else
    match ccur r1 with
    | [] => Err Fault
    | x :: t =>
      if is_high x then
        let cont (r2 : reader) : res (reader * (bool * list N)) rerr :=
          match rd r2 0, rd r2 1 with
          | Some x0, Some y =>
            if is_low y then match adv r2 2 with Ok r3 => fin (name_loop c fuel r3 [y; x0] []) | Err e => Err e end
            else Ok (r2, (false, []))
          | Some _, None => if safename c then Ok (r2, (false, [])) else Err Fault
          | None, _ => Err Fault
          end in
        match t with
        | [] =>
          match refresh_char c r1 with
          | Err e => Err e
          | Ok (r2, false) => Ok (r2, (false, []))
          | Ok (r2, true) => cont r2
          end
        | _ => cont r1
        end
      else if isFirstName c x then
        match adv1 r1 with Ok r2 => fin (name_loop c fuel r2 [x] []) | Err e => Err e end
      else Ok (r1, (false, []))
    end
  end.

(* ------------------------------------------------------------------------------------------- *)
(** * XMLReader::getNCName and getQName (same look-ahead and append-before-refresh structure as getName; the loop over
      name characters is [name_loop] with the NCName character class) *)
Definition with_name_class (c : cfg) (f : N -> bool) : cfg :=
  mkCfg (X c) (cbsz c) (rbsz c) (low c) (fillraw c) (safename c) (nel c) f (isFirstName c) (isWS c) (isNCName c) (nelcol c).

(** [acc0] = content already in toFill (reversed), for the second half of a QName *)
Definition get_ncname_into (c : cfg) (fuel : nat) (r : reader) (acc0 : list N) : res (reader * (bool * list N)) rerr :=
  let cn := with_name_class c (isNCName c) in
  let fin (x : res (reader * list N) rerr) :=
    match x with
    | Err e => Err e
    | Ok (r', nm) => Ok (r', (true, nm))
    end in
  match ensure c r with
  | Err e => Err e
  | Ok (r1, false) => Ok (r1, (false, acc0))
  | Ok (r1, true) =>
    match ccur r1 with
    | [] => Err Fault
    | x :: t =>
      if is_high x then
        let cont (r2 : reader) : res (reader * (bool * list N)) rerr :=
          match rd r2 0, rd r2 1 with
          | Some x0, Some y =>
            if is_low y then match adv r2 2 with Ok r3 => fin (name_loop cn fuel r3 [y; x0] acc0) | Err e => Err e end
            else Ok (r2, (false, acc0))
          | Some _, None => if safename c then Ok (r2, (false, acc0)) else Err Fault
          | None, _ => Err Fault
          end in
        match t with
        | [] =>
          match refresh_char c r1 with
          | Err e => Err e
          | Ok (r2, false) => Ok (r2, (false, acc0))
          | Ok (r2, true) => cont r2
          end
        | _ => cont r1
        end
      else if isFirstName c x && negb (x =? 0x3A) then                      (* isFirstNCNameChar *)
        match adv1 r1 with Ok r2 => fin (name_loop cn fuel r2 [x] acc0) | Err e => Err e end
      else Ok (r1, (false, acc0))
    end
  end.

Definition get_ncname (c : cfg) (fuel : nat) (r : reader) : res (reader * (bool * list N)) rerr :=
  match get_ncname_into c fuel r [] with
  | Ok (r', (b, nm)) => Ok (r', (b, rev nm))
  | Err e => Err e
  end.

(** getQName: result (returned bool, toFill, colon position or None for -1) *)
Definition get_qname (c : cfg) (fuel : nat) (r : reader) : res (reader * (bool * list N * option nat)) rerr :=
  match get_ncname_into c fuel r [] with
  | Err e => Err e
  | Ok (r1, (false, nm)) => Ok (r1, (false, rev nm, None))
  | Ok (r1, (true, nm)) =>
    match ensure c r1 with
    | Err e => Err e
    | Ok (r2, false) => Ok (r2, (true, rev nm, None))
    | Ok (r2, true) =>
      match rd r2 0 with
      | None => Err Fault
      | Some ch =>
        if negb (ch =? 0x3A) then Ok (r2, (true, rev nm, None)) else
        match adv1 r2 with
        | Err e => Err e
        | Ok r3 =>
          match get_ncname_into c fuel (add_col r3 1) (0x3A :: nm) with
          | Err e => Err e
          | Ok (r4, (b, nm2)) => Ok (r4, (b, rev nm2, Some (length nm)))
          end
        end
      end
    end
  end.

(* ------------------------------------------------------------------------------------------- *)
(** * ReaderMgr::popReader (src/xercesc/internal/ReaderMgr.cpp), the path that does not throw EndOfEntity:
      the reader stack is a list (head = most recently pushed parent).  After popping, "we might have multiple readers
      on the stack that are empty (the last char in them was the ';' of the entity reference that pushed the next
      entity)": loop until a reader with characters is found, REFRESHING a reader whose buffer is merely exhausted *)
Fixpoint pop_loop (c : cfg) (cur : reader) (stack : list reader) : res (option (reader * list reader)) rerr :=
  match ccur cur with
  | _ :: _ => Ok (Some (cur, stack))                     (* if (fCurReader->charsLeftInBuffer()) break; *)
  | [] =>
    match refresh_char c cur with                        (* fCurReader->refreshCharBuffer(); *)
    | Err e => Err e
    | Ok (cur', _) =>
      match ccur cur' with
      | _ :: _ => Ok (Some (cur', stack))                (* if (fCurReader->charsLeftInBuffer()) break; *)
      | [] =>
        match stack with
        | [] => Ok None                                  (* if (fReaderStack->empty()) return false; *)
        | p :: rest => pop_loop c p rest                 (* pop again and try one more time *)
        end
      end
    end
  end.

(** popReader: false when the stack is empty, else pop and look for a non-empty reader *)
Definition pop_reader (c : cfg) (stack : list reader) : res (option (reader * list reader)) rerr :=
  match stack with
  | [] => Ok None
  | p :: rest => pop_loop c p rest
  end.

(* ------------------------------------------------------------------------------------------- *)
(** * XMLReader::doInitDecode, UCS-4 case: removal of a byte order mark from the freshly filled raw buffer:
      "for (i = 0; i + 4 < fRawBytesAvail; i++) fRawByteBuf[i] = fRawByteBuf[i+4];  fRawBytesAvail -= 4;"
      In window form: the four BOM bytes leave the window and the count shrinks by four (both happen, or neither) *)
Definition is_ucs4_bom (l : list N) : bool :=
  match l with
  | b0 :: b1 :: b2 :: b3 :: _ =>
    ((b0 =? 0) && (b1 =? 0) && (b2 =? 0xFE) && (b3 =? 0xFF)) || ((b0 =? 0xFF) && (b1 =? 0xFE) && (b2 =? 0) && (b3 =? 0))
  | _ => false
  end.
Definition ucs4_bom_strip (r : reader) : reader :=
  if is_ucs4_bom (rcur r)
  then mkR (ccur r) (cidx r) (skipn 4 (rcur r)) (ridx r) (strm r) (noMore r) (line r) (col r)
  else r.

(* ------------------------------------------------------------------------------------------- *)
(** * operation language of the correspondence and of T01_reader_inv *)
Inductive op : Type :=
| OGet | OPeek | OGetIfNot (ch : N) | OSkipChar (ch : N) | OSkipSpace | OSkipSpaces
| OSkipStr (s : list N) | OPeekStr (s : list N) | OName (token : bool).

Inductive oout : Type :=
| RCh (o : option N) | RBool (b : bool) | RBool2 (a b : bool) | RName (b : bool) (nm : list N).

Definition do_op (c : cfg) (fuel : nat) (r : reader) (o : op) : res (reader * oout) rerr :=
  match o with
  | OGet => match get_next c r with Ok (r', x) => Ok (r', RCh x) | Err e => Err e end
  | OPeek => match peek_next c r with Ok (r', x) => Ok (r', RCh x) | Err e => Err e end
  | OGetIfNot ch => match get_next_if_not c r ch with Ok (r', x) => Ok (r', RCh x) | Err e => Err e end
  | OSkipChar ch => match skipped_char c r ch with Ok (r', b) => Ok (r', RBool b) | Err e => Err e end
  | OSkipSpace => match skipped_space c r with Ok (r', b) => Ok (r', RBool b) | Err e => Err e end
  | OSkipSpaces => match skip_spaces c fuel r false with Ok (r', (a, b)) => Ok (r', RBool2 a b) | Err e => Err e end
  | OSkipStr s => match skipped_string c r s with Ok (r', b) => Ok (r', RBool b) | Err e => Err e end
  | OPeekStr s => match peek_string c r s with Ok (r', b) => Ok (r', RBool b) | Err e => Err e end
  | OName tok => match get_name c fuel r tok with Ok (r', (b, nm)) => Ok (r', RName b nm) | Err e => Err e end
  end.

(** run operations until one fails; results in order, then the terminating error if any *)
Fixpoint run_ops (c : cfg) (fuel : nat) (r : reader) (ops : list op) : list oout * option rerr * reader :=
  match ops with
  | [] => ([], None, r)
  | o :: rest =>
    match do_op c fuel r o with
    | Err e => ([], Some e, r)
    | Ok (r', x) => let '(l, e, rf) := run_ops c fuel r' rest in (x :: l, e, rf)
    end
  end.

(** repeated getNextChar: the delivered characters and how delivery ended *)
Inductive dend : Type := EndEOF | EndErr (e : rerr) | EndFuel.
Fixpoint deliver (c : cfg) (fuel : nat) (r : reader) : list N * dend :=
  match fuel with
  | O => ([], EndFuel)
  | S f =>
    match get_next c r with
    | Err e => ([], EndErr e)
    | Ok (_, None) => ([], EndEOF)
    | Ok (r', Some ch) => let (l, e) := deliver c f r' in (ch :: l, e)
    end
  end.

(* ------------------------------------------------------------------------------------------- *)
(** * transcoder instances (the models of C05) and their character-level decoding functions *)
(** XMLUTF8Transcoder::transcodeFrom: the loop of C05's [x8_loop] over the same step function [x8_step], without the
    charSizes output and with the "more than 32 characters produced" counter saturating at 33 (the only test on
    it is [32 < produced]); this keeps the extracted unary-number arithmetic linear in the block size *)
Fixpoint x8_fast (fuel : nat) (src : list N) (room produced : nat) : res (list N * nat) xerr :=
  match fuel with
  | O => Err E_Fuel
  | S f =>
    match x8_step src room produced with
    | SStop | SBreak32 => Ok ([], O)
    | SErr e => Err e
    | SOut u n =>
      match x8_fast f (skipn n src) (room - length u) (if Nat.ltb 32 produced then produced else (produced + length u)%nat) with
      | Ok (o, e) => Ok (u ++ o, (n + e)%nat)
      | Err e => Err e
      end
    end
  end.
Definition xc_utf8 : xcoder := fun src m => x8_fast (S (length src)) src m 0.
Definition xc_utf16 (swapped : bool) : xcoder := fun src m =>
  let o := u16_from swapped src m in Ok (o, (2 * length o)%nat).
Definition xc_latin1 : xcoder := fun src m => let o := l1_from src m in Ok (o, length o).
(** XMLUCS4Transcoder (C05's model; [swapped] relative to the little-endian host) *)
Definition xc_ucs4 (swapped : bool) : xcoder := fun src m =>
  match u4_from swapped src m with Ok (o, _, e) => Ok (o, e) | Err e => Err e end.

Definition step_latin1 (s : list N) : dres := match s with [] => DNeed | b :: _ => DOut [b] 1 end.
Definition step_utf16 (swapped : bool) (s : list N) : dres :=
  match s with
  | b0 :: b1 :: _ => DOut [if swapped then b1 + 256 * b0 else b0 + 256 * b1] 2
  | _ => DNeed
  end.
Definition step_ucs4 (swapped : bool) (s : list N) : dres :=
  match u4_step swapped s 2 with
  | SOut u n => DOut u n
  | SErr e => DErr e
  | _ => DNeed
  end.
(** UTF-8: one iteration of the transcoder's loop with unlimited room *)
Definition step_utf8 (s : list N) : dres :=
  match x8_step s 2 0 with
  | SOut u n => DOut u n
  | SErr e => DErr e
  | _ => DNeed
  end.
