(** Lemmas about the decoding specification ([Dec], [nsteps], [dec_fn]) under the transcoder contract. *)
From XV Require Export C04.Contract04.
From Coq Require Import Lia Arith.
Local Open Scope N_scope.

Section DecLemmas.
  Variable step : list N -> dres.
  Variable X : xcoder.
  Variable maxSeq : nat.
  Hypothesis HC : xcontract step X maxSeq.

  Lemma Dec_nil_inv : forall cs st, Dec step [] cs st -> cs = [] /\ st = Clean.
  Proof.
    intros cs st H. pose proof (xc_nil _ _ _ HC) as Hn. inversion H; subst; auto.
    - congruence.
    - congruence.
    - congruence.
  Qed.

  Lemma Dec_need_inv : forall s cs st, s <> [] -> step s = DNeed -> Dec step s cs st -> cs = [] /\ st = Truncated.
  Proof. intros s cs st Hne Hs H. inversion H; subst; auto; congruence. Qed.

  Lemma Dec_err_inv : forall s e cs st, step s = DErr e -> Dec step s cs st -> cs = [] /\ st = Bad e.
  Proof.
    intros s e cs st Hs H. inversion H; subst; try congruence.
    - pose proof (xc_nil _ _ _ HC). congruence.
    - rewrite Hs in H0. inversion H0. auto.
  Qed.

  Lemma Dec_out_inv : forall s u n cs st, step s = DOut u n -> Dec step s cs st ->
    exists cs', cs = u ++ cs' /\ Dec step (skipn n s) cs' st.
  Proof.
    intros s u n cs st Hs H. inversion H; subst; try congruence.
    - pose proof (xc_nil _ _ _ HC). congruence.
    - rewrite Hs in H0. inversion H0; subst. eauto.
  Qed.

  Lemma Dec_det : forall s cs st, Dec step s cs st -> forall cs' st', Dec step s cs' st' -> cs = cs' /\ st = st'.
  Proof.
    intros s cs st H. induction H; intros cs' st' H'.
    - apply Dec_nil_inv in H'. destruct H'; subst; auto.
    - destruct (Dec_need_inv _ _ _ H H0 H'); subst; auto.
    - destruct (Dec_err_inv _ _ _ _ H H'); subst; auto.
    - destruct (Dec_out_inv _ _ _ _ _ H H') as [c2 [E D2]]. subst.
      destruct (IHDec _ _ D2); subst; auto.
  Qed.

  Lemma Dec_total : forall s, exists cs st, Dec step s cs st.
  Proof.
    intros s. remember (length s) as k eqn:Ek. revert s Ek.
    induction k as [k IH] using lt_wf_ind. intros s Ek.
    destruct s as [|b s'].
    - exists [], Clean. constructor.
    - destruct (step (b :: s')) as [|e|u n] eqn:Es.
      + exists [], Truncated. apply Dec_need; [discriminate|exact Es].
      + exists [], (Bad e). apply Dec_err. exact Es.
      + destruct (xc_out_bounds _ _ _ HC _ _ _ Es) as [[Hn1 Hn2] _].
        destruct (IH (length (skipn n (b :: s')))) with (s := skipn n (b :: s')) as [cs [st D]].
        * rewrite skipn_length. subst k. lia.
        * reflexivity.
        * exists (u ++ cs), st. eapply Dec_out; eauto.
  Qed.

  Lemma dec_fn_Dec : forall fuel s, (length s <= fuel)%nat ->
    Dec step s (fst (dec_fn step fuel s)) (snd (dec_fn step fuel s)).
  Proof.
    induction fuel as [|f IH]; intros s Hl.
    - destruct s; [|cbn in Hl; lia]. cbn. constructor.
    - destruct s as [|b s']; [cbn; constructor|].
      cbn [dec_fn]. destruct (step (b :: s')) as [|e|u n] eqn:Es.
      + cbn. apply Dec_need; [discriminate|exact Es].
      + cbn. apply Dec_err. exact Es.
      + destruct (xc_out_bounds _ _ _ HC _ _ _ Es) as [[Hn1 Hn2] _].
        specialize (IH (skipn n (b :: s'))).
        destruct (dec_fn step f (skipn n (b :: s'))) as [cs st] eqn:Ed. cbn [fst snd] in *.
        eapply Dec_out; [exact Es|]. apply IH. rewrite skipn_length. cbn [length] in *. lia.
  Qed.

  Lemma skipn_app_le : forall (n : nat) (s t : list N), (n <= length s)%nat -> skipn n (s ++ t) = skipn n s ++ t.
  Proof.
    intros n s t H. rewrite skipn_app. replace (n - length s)%nat with 0%nat by lia. reflexivity.
  Qed.

  Lemma nsteps_bounds : forall k s o e, nsteps step k s = Some (o, e) ->
    (e <= length s)%nat /\ (k <= length o)%nat /\ (k <= e)%nat /\ (length o <= 2 * k)%nat.
  Proof.
    induction k as [|k IH]; intros s o e H; cbn [nsteps] in H.
    - inversion H; subst. cbn. lia.
    - destruct (step s) as [| |u n] eqn:Es; try discriminate.
      destruct (nsteps step k (skipn n s)) as [[o' e']|] eqn:En; try discriminate.
      inversion H; subst. destruct (IH _ _ _ En) as [B1 [B2 [B3 B4]]].
      destruct (xc_out_bounds _ _ _ HC _ _ _ Es) as [[Hn1 Hn2] [Hu1 Hu2]].
      rewrite skipn_length in B1. rewrite app_length. lia.
  Qed.

  Lemma nsteps_app : forall k s t o e, nsteps step k s = Some (o, e) -> nsteps step k (s ++ t) = Some (o, e).
  Proof.
    induction k as [|k IH]; intros s t o e H; cbn [nsteps] in *; [exact H|].
    destruct (step s) as [| |u n] eqn:Es; try discriminate.
    rewrite (xc_out_ext _ _ _ HC _ t _ _ Es).
    destruct (xc_out_bounds _ _ _ HC _ _ _ Es) as [[Hn1 Hn2] _].
    rewrite skipn_app_le by lia.
    destruct (nsteps step k (skipn n s)) as [[o' e']|] eqn:En; try discriminate.
    rewrite (IH _ t _ _ En). exact H.
  Qed.

  Lemma skipn_skipn : forall (a b : nat) (l : list N), skipn a (skipn b l) = skipn (b + a) l.
  Proof.
    intros a b. revert a. induction b as [|b IH]; intros a l; [reflexivity|].
    destruct l as [|x l]; [now rewrite !skipn_nil|]. cbn. apply IH.
  Qed.

  (** decoding [k] characters from the front and then the rest = decoding the whole *)
  Lemma nsteps_Dec : forall k s o e cs st, nsteps step k s = Some (o, e) -> Dec step s cs st ->
    exists rest, cs = o ++ rest /\ Dec step (skipn e s) rest st.
  Proof.
    induction k as [|k IH]; intros s o e cs st H D; cbn [nsteps] in H.
    - inversion H; subst. exists cs. auto.
    - destruct (step s) as [| |u n] eqn:Es; try discriminate.
      destruct (nsteps step k (skipn n s)) as [[o' e']|] eqn:En; try discriminate.
      inversion H; subst.
      destruct (Dec_out_inv _ _ _ _ _ Es D) as [c1 [E1 D1]]. subst cs.
      destruct (IH _ _ _ _ _ En D1) as [rest [E2 D2]]. subst c1.
      exists rest. split; [now rewrite app_assoc|]. rewrite skipn_skipn in D2. exact D2.
  Qed.

  (** if the first [k] characters decode and then an ill-formed sequence follows, the whole is [Bad] *)
  Lemma nsteps_err_Dec : forall k s o n e cs st, nsteps step k s = Some (o, n) -> step (skipn n s) = DErr e ->
    Dec step s cs st -> st = Bad e.
  Proof.
    intros k s o n e cs st H He D. destruct (nsteps_Dec _ _ _ _ _ _ H D) as [rest [E D2]].
    destruct (Dec_err_inv _ _ _ _ He D2). assumption.
  Qed.
End DecLemmas.
