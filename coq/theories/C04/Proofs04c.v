(** refreshCharBuffer, getNextChar and the delivered character sequence. *)
From XV Require Export C04.Proofs04b.
From Coq Require Import Lia Arith.
Local Open Scope N_scope.

(** the input is well-formed in its encoding up to its very end *)
Definition noBad (st : dstatus) : Prop := st = Clean.

Section Chars.
  Variable step : list N -> dres.
  Variable maxSeq : nat.
  Variable c : cfg.
  Hypothesis HC : xcontract step (X c) maxSeq.
  Hypothesis HS : sizes_ok c maxSeq.

  (** once fNoMore is set the buffer is empty and nothing decodable is left *)
  Definition nm_ok (r : reader) : Prop :=
    noMore r = true -> ccur r = [] /\ exists st', noBad st' /\ Dec step (pending r) [] st'.

  (** the abstract state: reader [r] still has the (raw, not yet normalised) characters [cs] to deliver and the
      input ends with status [st] *)
  Definition St (r : reader) (cs : list N) (st : dstatus) : Prop :=
    good c r /\ nm_ok r /\ exists D, Dec step (pending r) D st /\ cs = ccur r ++ D.

  Lemma St_init : forall chunks cs st, Forall ne chunks -> Dec step (concat chunks) cs st -> St (mk_reader chunks) cs st.
  Proof.
    intros chunks cs st Hne D. unfold St, good, nm_ok, mk_reader, pending. cbn [ccur cidx rcur ridx strm noMore].
    repeat split; try (cbn; lia); auto; try discriminate.
    exists cs. cbn. auto.
  Qed.

  Lemma St_pos : forall r l cl cs st, St r cs st -> St (set_pos r l cl) cs st.
  Proof. intros r l cl cs st H. exact H. Qed.

  Definition rc_post (r : reader) (cs : list N) (st : dstatus) (r' : reader) (b : bool) : Prop :=
    St r' cs st /\ line r' = line r /\ col r' = col r /\
    (exists new, ccur r' = ccur r ++ new) /\
    (b = true -> ccur r' <> []) /\ (b = false -> cs = [] /\ noBad st /\ ccur r' = []) /\
    ((length (ccur r) + 2 <= cbsz c)%nat -> ccur r' = ccur r -> cs = ccur r /\ noBad st).

  Lemma refresh_char_spec : forall r cs st, St r cs st ->
    match refresh_char c r with
    | Err Fault | Err FuelOut => False
    | Err (XErr e) => errOK st e
    | Ok (r', b) => rc_post r cs st r' b
    end.
  Proof.
    intros r cs st [G [NM [D [HD Ecs]]]]. unfold refresh_char.
    destruct HS as [Hcb [Hms1 Hms2]].
    destruct (noMore r) eqn:Enm.
    { destruct (NM Enm) as [Ec [st' [Hnb HD']]].
      destruct (Dec_det step (X c) maxSeq HC _ _ _ HD _ _ HD') as [E1 E2]. subst D st'.
      assert (Hst : St r cs st) by (unfold St; split; [exact G|]; split; [exact NM|]; exists []; split; [exact HD|exact Ecs]).
      unfold rc_post. split; [exact Hst|]. split; [reflexivity|]. split; [reflexivity|].
      split; [exists []; now rewrite app_nil_r|]. split; [discriminate|]. split.
      - intros _. rewrite Ecs, Ec. repeat split; auto.
      - intros _ _. rewrite Ecs, Ec. split; auto. }
    destruct (Nat.leb_spec (cbsz c) (S (length (ccur r)))) as [Efull|Nfull].
    { assert (Hst : St r cs st) by (unfold St; split; [exact G|]; split; [exact NM|]; exists D; split; [exact HD|exact Ecs]).
      unfold rc_post. split; [exact Hst|]. split; [reflexivity|]. split; [reflexivity|].
      split; [exists []; now rewrite app_nil_r|]. split; [|split].
      - intros _ E. rewrite E in Efull. cbn in Efull. lia.
      - discriminate.
      - lia. }
    destruct G as [G1 [G2 G3]].
    destruct (Nat.ltb_spec (cbsz c) (length (ccur r))) as [?|_]; [lia|].
    pose proof (xcode_more_spec step maxSeq c HC HS (S (S (rbsz c))) false r (cbsz c - length (ccur r))
                  (conj G1 (conj G2 G3)) ltac:(lia) ltac:(cbn [Nat.add]; lia) ltac:(discriminate) D st HD) as Hx.
    destruct (xcode_more c (S (S (rbsz c))) false r (cbsz c - length (ccur r))) as [[r1 new]|[| |e]]; auto.
    2:{ destruct Hx as [E|[E1 [E2|E2]]]; [left; exact E|right; auto|lia]. }
    destruct Hx as [Gr1 [A2 [A3 [A4 [A5 [A6 [A7 [rest [R1 [R2 [R3 R4]]]]]]]]]]].
    set (cc := ccur r ++ new) in *.
    set (r' := mkR cc 0 (rcur r1) (ridx r1) (strm r1) (match cc with [] => true | _ :: _ => false end) (line r1) (col r1)).
    assert (Hgood : good c r').
    { destruct Gr1 as [_ [Gb Gc]]. unfold good, r'. cbn [ccur cidx rcur ridx strm]. unfold cc. rewrite app_length.
      repeat split; auto. lia. }
    assert (Hpend : pending r' = pending r1) by reflexivity.
    (* the end-of-input case *)
    assert (Hend : new = [] -> (length (ccur r) + 2 <= cbsz c)%nat -> rest = [] /\ noBad st /\ strm r1 = []).
    { intros En Hroom. destruct (R3 En) as [[Ra [Rb Rc]]|[u [n [Hu Hlen]]]]; [auto|].
      destruct (xc_out_bounds _ _ _ HC _ _ _ Hu) as [_ [_ Hu2]]. lia. }
    assert (Hst : St r' cs st).
    { unfold St. split; [exact Hgood|]. split.
      - unfold nm_ok, r'. cbn [noMore ccur]. intros Hnm.
        destruct cc as [|x0 cc'] eqn:Ecc; [|discriminate]. split; [reflexivity|].
        unfold cc in Ecc. apply app_eq_nil in Ecc. destruct Ecc as [Ec0 En0].
        destruct (Hend En0 ltac:(rewrite Ec0; cbn; lia)) as [Hr [Hnb _]].
        exists st. split; [exact Hnb|]. subst rest. exact R2.
      - exists rest. split; [exact R2|]. unfold r'. cbn [ccur]. unfold cc. subst cs D.
        now rewrite app_assoc. }
    unfold rc_post. split; [exact Hst|]. unfold r'. cbn [line col ccur].
    split; [congruence|]. split; [congruence|]. split; [exists new; reflexivity|].
    split; [|split].
    - destruct cc; [discriminate|]. intros _. discriminate.
    - intros Hb. destruct cc as [|x0 cc'] eqn:Ecc; [|discriminate].
      unfold cc in Ecc. apply app_eq_nil in Ecc. destruct Ecc as [Ec0 En0].
      destruct (Hend En0 ltac:(rewrite Ec0; cbn; lia)) as [Hr [Hnb _]].
      repeat split; auto. subst cs D rest. rewrite Ec0, En0. reflexivity.
    - intros Hroom Esame. unfold cc in Esame.
      assert (En0 : new = []).
      { apply (f_equal (@length N)) in Esame. rewrite app_length in Esame. destruct new; [reflexivity|cbn in Esame; lia]. }
      destruct (Hend En0 Hroom) as [Hr [Hnb _]]. subst cs D rest new. rewrite !app_nil_r. auto.
  Qed.

  Lemma ensure_spec : forall r cs st, St r cs st ->
    match ensure c r with
    | Err Fault | Err FuelOut => False
    | Err (XErr e) => errOK st e
    | Ok (r', b) => St r' cs st /\ line r' = line r /\ col r' = col r /\
                    (b = true -> exists x t, ccur r' = x :: t) /\ (b = false -> cs = [] /\ noBad st /\ ccur r' = [])
    end.
  Proof.
    intros r cs st H. unfold ensure. destruct (ccur r) as [|x t] eqn:Ec.
    - pose proof (refresh_char_spec r cs st H) as Hr.
      destruct (refresh_char c r) as [[r' b]|[| |e]]; auto.
      destruct Hr as [A [B [C [_ [E [F _]]]]]]. split; [exact A|]. split; [exact B|]. split; [exact C|]. split.
      + intros Hb. specialize (E Hb). destruct (ccur r') as [|x t]; [now destruct E|]. eauto.
      + exact F.
    - split; [exact H|]. split; [reflexivity|]. split; [reflexivity|]. split; [intros _; eauto|discriminate].
  Qed.

  (** consuming one buffered character *)
  Lemma adv1_St : forall r x t cs st, St r cs st -> ccur r = x :: t ->
    exists r2 cs2, adv1 r = Ok r2 /\ cs = x :: cs2 /\ St r2 cs2 st /\ ccur r2 = t /\ line r2 = line r /\ col r2 = col r.
  Proof.
    intros r x t cs st [G [NM [D [HD Ecs]]]] Ec. unfold adv1. rewrite Ec.
    eexists. exists (t ++ D). split; [reflexivity|]. split; [rewrite Ecs, Ec; reflexivity|].
    split; [|cbn; auto].
    unfold St. split; [|split].
    - destruct G as [G1 [G2 G3]]. unfold good. cbn [ccur cidx rcur ridx strm]. rewrite Ec in G1. cbn [length] in G1.
      repeat split; auto. lia.
    - unfold nm_ok. cbn [noMore ccur]. intros Hn. destruct (NM Hn) as [E0 _]. congruence.
    - exists D. split; [exact HD|reflexivity].
  Qed.

  (* ---- end-of-line normalisation facts ---- *)
  Lemma eol_plain : forall nl x t, (x =? 0xD) = false -> nl && ((x =? 0x85) || (x =? 0x2028)) = false ->
    eol_norm nl (x :: t) = x :: eol_norm nl t.
  Proof. intros nl x t H1 H2. cbn [eol_norm]. rewrite H1, H2. reflexivity. Qed.

  Lemma plain_ch_facts : forall x, plain_ch x = true ->
    (x =? 0xD) = false /\ (x =? 0xA) = false /\ (x =? 0x85) = false /\ (x =? 0x2028) = false.
  Proof.
    intros x H. repeat split; apply N.eqb_neq; intros E; subst x; vm_compute in H; discriminate.
  Qed.

  Definition gn_post (cs : list N) (st : dstatus) (r' : reader) (ch : N) : Prop :=
    exists cs', St r' cs' st /\ (length cs' < length cs)%nat /\
                eol_norm (nel c) cs = ch :: eol_norm (nel c) cs'.

  (** handleEOL after the character [ch] (head of the remaining characters) has been consumed *)
  Lemma handle_eol_spec : forall r ch cs2 st, St r cs2 st ->
    match handle_eol c r ch with
    | Err Fault | Err FuelOut => False
    | Err (XErr e) => errOK st e
    | Ok (r', ch') => gn_post (ch :: cs2) st r' ch'
    end.
  Proof.
    intros r ch cs2 st H. unfold handle_eol.
    destruct (N.eqb_spec ch 0xD) as [ED|ND].
    - subst ch.
      pose proof (ensure_spec (set_pos r (line r + 1) 1) cs2 st (St_pos _ _ _ _ _ H)) as He.
      destruct (ensure c (set_pos r (line r + 1) 1)) as [[r1 b]|[| |e]]; auto.
      destruct He as [H1 [_ [_ [Hb1 Hb0]]]]. destruct b.
      + destruct (Hb1 eq_refl) as [x [t Ec]]. unfold rd. rewrite Ec. cbn [nth_error].
        destruct (adv1_St r1 x t cs2 st H1 Ec) as [r2 [cs3 [Ea [Ecs [H2 _]]]]].
        destruct ((x =? 0xA) || (x =? 0x85) && nel c) eqn:Ey.
        * rewrite Ea. exists cs3. split; [exact H2|]. split; [subst cs2; cbn; lia|].
          subst cs2. cbn [eol_norm]. rewrite N.eqb_refl, Ey. reflexivity.
        * exists cs2. split; [exact H1|]. split; [cbn; lia|].
          subst cs2. cbn [eol_norm]. rewrite N.eqb_refl, Ey. reflexivity.
      + destruct (Hb0 eq_refl) as [E0 _]. subst cs2. exists []. split; [exact H1|]. split; [cbn; lia|]. reflexivity.
    - apply N.eqb_neq in ND.
      destruct (N.eqb_spec ch 0xA) as [EA|NA].
      + subst ch. exists cs2. split; [apply St_pos; exact H|]. split; [cbn; lia|].
        apply eol_plain; [reflexivity|]. destruct (nel c); reflexivity.
      + apply N.eqb_neq in NA.
        destruct ((ch =? 0x85) || (ch =? 0x2028)) eqn:En.
        * destruct (nel c) eqn:Enel.
          -- exists cs2. split; [apply St_pos; exact H|]. split; [cbn; lia|].
             cbn [eol_norm]. rewrite ND, En, Enel. reflexivity.
          -- exists cs2. split; [destruct (nelcol c); exact H|]. split; [cbn; lia|]. apply eol_plain; auto. rewrite Enel. reflexivity.
        * exists cs2. split; [apply St_pos; exact H|]. split; [cbn; lia|]. apply eol_plain; auto.
          rewrite En. now destruct (nel c).
  Qed.

  Lemma after_get_spec : forall r ch cs2 st, St r cs2 st ->
    match after_get c r ch with
    | Err Fault | Err FuelOut => False
    | Err (XErr e) => errOK st e
    | Ok (r', ch') => gn_post (ch :: cs2) st r' ch'
    end.
  Proof.
    intros r ch cs2 st H. unfold after_get. destruct (plain_ch ch) eqn:Ep.
    - destruct (plain_ch_facts _ Ep) as [P1 [P2 [P3 P4]]].
      exists cs2. split; [apply St_pos; exact H|]. split; [cbn; lia|]. apply eol_plain; auto.
      rewrite P3, P4. now destruct (nel c).
    - apply handle_eol_spec. exact H.
  Qed.

  Lemma get_next_spec : forall r cs st, St r cs st ->
    match get_next c r with
    | Err Fault | Err FuelOut => False
    | Err (XErr e) => errOK st e
    | Ok (r', None) => cs = [] /\ noBad st /\ St r' [] st
    | Ok (r', Some ch) => gn_post cs st r' ch
    end.
  Proof.
    intros r cs st H. unfold get_next.
    pose proof (ensure_spec r cs st H) as He.
    destruct (ensure c r) as [[r1 b]|[| |e]]; auto.
    destruct He as [H1 [_ [_ [Hb1 Hb0]]]]. destruct b.
    - destruct (Hb1 eq_refl) as [x [t Ec]]. unfold rd. rewrite Ec. cbn [nth_error].
      destruct (adv1_St r1 x t cs st H1 Ec) as [r2 [cs2 [Ea [Ecs [H2 _]]]]]. rewrite Ea.
      pose proof (after_get_spec r2 x cs2 st H2) as Ha.
      destruct (after_get c r2 x) as [[r3 ch']|[| |e]]; auto. subst cs. exact Ha.
    - destruct (Hb0 eq_refl) as [E0 [Hnb _]]. subst cs. auto.
  Qed.

  (** T04_chars: the delivered sequence is the normalised decoding of the whole input *)
  Lemma deliver_ok : forall fuel r cs st, St r cs st -> noBad st -> (length cs < fuel)%nat ->
    deliver c fuel r = (eol_norm (nel c) cs, EndEOF).
  Proof.
    induction fuel as [|f IH]; intros r cs st H Hnb Hf; [lia|].
    cbn [deliver]. pose proof (get_next_spec r cs st H) as Hg.
    destruct (get_next c r) as [[r' [ch|]]|[| |e]]; try contradiction.
    - destruct Hg as [cs' [H' [Hl Eq]]]. rewrite (IH r' cs' st H' Hnb ltac:(lia)). rewrite Eq. reflexivity.
    - destruct Hg as [E0 _]. subst cs. reflexivity.
    - unfold noBad in Hnb; subst st; unfold errOK in *; intuition congruence.
  Qed.

  (** input that is ill-formed or ends inside a character: the error is reported (the same one for every arrangement)
      after a prefix of the specified characters *)
  Lemma deliver_err : forall fuel r cs st, St r cs st -> st <> Clean -> (length cs < fuel)%nat ->
    exists p q e, deliver c fuel r = (p, EndErr (XErr e)) /\ errOK st e /\ eol_norm (nel c) cs = p ++ q.
  Proof.
    induction fuel as [|f IH]; intros r cs st H Hst Hf; [lia|].
    cbn [deliver]. pose proof (get_next_spec r cs st H) as Hg.
    destruct (get_next c r) as [[r' [ch|]]|[| |e']]; try contradiction.
    - destruct Hg as [cs' [H' [Hl Eq]]]. destruct (IH r' cs' st H' Hst ltac:(lia)) as [p [q [e [Ed [He Ep]]]]].
      rewrite Ed. exists (ch :: p), q, e. split; [reflexivity|]. split; [exact He|]. rewrite Eq, Ep. reflexivity.
    - destruct Hg as [_ [Hc _]]. contradiction.
    - exists [], (eol_norm (nel c) cs), e'. auto.
  Qed.

  Lemma deliver_bad : forall fuel r cs e, St r cs (Bad e) -> (length cs < fuel)%nat ->
    exists p q, deliver c fuel r = (p, EndErr (XErr e)) /\ eol_norm (nel c) cs = p ++ q.
  Proof.
    intros fuel r cs e H Hf.
    destruct (deliver_err fuel r cs (Bad e) H ltac:(discriminate) Hf) as [p [q [e' [Ed [He Ep]]]]].
    exists p, q. split; [|exact Ep]. destruct He as [E|[_ E]]; [inversion E; subst; exact Ed|discriminate].
  Qed.

  Lemma deliver_trunc : forall fuel r cs, St r cs Truncated -> (length cs < fuel)%nat ->
    exists p q, deliver c fuel r = (p, EndErr (XErr E_Trans_BadSrcSeq)) /\ eol_norm (nel c) cs = p ++ q.
  Proof.
    intros fuel r cs H Hf.
    destruct (deliver_err fuel r cs Truncated H ltac:(discriminate) Hf) as [p [q [e' [Ed [He Ep]]]]].
    exists p, q. split; [|exact Ep]. destruct He as [E|[E _]]; [discriminate|subst e'; exact Ed].
  Qed.
End Chars.
