(** ReaderMgr::popReader on the reader stack: popping keeps the parent's remaining characters. *)
From XV Require Export C04.Proofs04d.
From Coq Require Import Lia Arith.
Local Open Scope N_scope.

Section Pop.
  Variable step : list N -> dres.
  Variable maxSeq : nat.
  Variable c : cfg.
  Hypothesis HC : xcontract step (X c) maxSeq.
  Hypothesis HS : sizes_ok c maxSeq.
  Notation St := (St step c).

  (** a parent with characters left (in its buffer or still undecoded) is the reader found, with exactly those characters *)
  Lemma pop_loop_keeps : forall p rest cs st, St p cs st -> noBad st -> cs <> [] ->
    exists p', pop_loop c p rest = Ok (Some (p', rest)) /\ St p' cs st /\ ccur p' <> [].
  Proof.
    intros p rest cs st H Hnb Hne. destruct rest as [|q rest']; cbn [pop_loop].
    - destruct (ccur p) as [|x t] eqn:Ec.
      + pose proof (refresh_char_spec step maxSeq c HC HS p cs st H) as Hr.
        destruct (refresh_char c p) as [[p' b]|[| |e]]; try contradiction.
        2:{ unfold noBad in Hnb; unfold errOK in *; intuition congruence. }
        destruct Hr as [H1 [_ [_ [_ [Hb1 [Hb0 _]]]]]].
        destruct b; [|destruct (Hb0 eq_refl) as [E _]; contradiction].
        specialize (Hb1 eq_refl). destruct (ccur p') as [|y t'] eqn:Ec'; [now destruct Hb1|].
        exists p'. split; [reflexivity|]. split; [exact H1|rewrite Ec'; discriminate].
      + exists p. split; [reflexivity|]. split; [exact H|rewrite Ec; discriminate].
    - destruct (ccur p) as [|x t] eqn:Ec.
      + pose proof (refresh_char_spec step maxSeq c HC HS p cs st H) as Hr.
        destruct (refresh_char c p) as [[p' b]|[| |e]]; try contradiction.
        2:{ unfold noBad in Hnb; unfold errOK in *; intuition congruence. }
        destruct Hr as [H1 [_ [_ [_ [Hb1 [Hb0 _]]]]]].
        destruct b; [|destruct (Hb0 eq_refl) as [E _]; contradiction].
        specialize (Hb1 eq_refl). destruct (ccur p') as [|y t'] eqn:Ec'; [now destruct Hb1|].
        exists p'. split; [reflexivity|]. split; [exact H1|rewrite Ec'; discriminate].
      + exists p. split; [reflexivity|]. split; [exact H|rewrite Ec; discriminate].
  Qed.

  (** a parent that is really exhausted (the reference's ';' was its last character) is skipped *)
  Lemma pop_loop_skips : forall p q rest st, St p [] st -> noBad st ->
    pop_loop c p (q :: rest) = pop_loop c q rest.
  Proof.
    intros p q rest st H Hnb. cbn [pop_loop].
    assert (Ec : ccur p = []).
    { destruct H as [_ [_ [D [_ E]]]]. symmetry in E. apply app_eq_nil in E. tauto. }
    rewrite Ec.
    pose proof (refresh_char_spec step maxSeq c HC HS p [] st H) as Hr.
    destruct (refresh_char c p) as [[p' b]|[| |e]]; try contradiction.
    2:{ unfold noBad in Hnb; unfold errOK in *; intuition congruence. }
    destruct Hr as [[_ [_ [D [_ E]]]] _]. symmetry in E. apply app_eq_nil in E. destruct E as [E _]. rewrite E. reflexivity.
  Qed.

  Lemma pop_loop_last_exhausted : forall p st, St p [] st -> noBad st -> pop_loop c p [] = Ok None.
  Proof.
    intros p st H Hnb. cbn [pop_loop].
    assert (Ec : ccur p = []).
    { destruct H as [_ [_ [D [_ E]]]]. symmetry in E. apply app_eq_nil in E. tauto. }
    rewrite Ec.
    pose proof (refresh_char_spec step maxSeq c HC HS p [] st H) as Hr.
    destruct (refresh_char c p) as [[p' b]|[| |e]]; try contradiction.
    2:{ unfold noBad in Hnb; unfold errOK in *; intuition congruence. }
    destruct Hr as [[_ [_ [D [_ E]]]] _]. symmetry in E. apply app_eq_nil in E. destruct E as [E _]. rewrite E. reflexivity.
  Qed.
End Pop.
