(** Safety of every reader operation (C01: no access outside the valid window, no index overrun, fuel never
    runs out) and preservation of the abstract state, for arbitrary operation sequences. *)
From XV Require Export C04.Proofs04c.
From Coq Require Import Lia Arith.
Local Open Scope N_scope.

Section Safety.
  Variable step : list N -> dres.
  Variable maxSeq : nat.
  Variable c : cfg.
  Hypothesis HC : xcontract step (X c) maxSeq.
  Hypothesis HS : sizes_ok c maxSeq.

  Notation St := (St step c).

  (** the reader is in a consistent state with at most [n] characters left *)
  Definition StL (r : reader) (n : nat) (st : dstatus) : Prop := exists cs, St r cs st /\ (length cs <= n)%nat.

  Definition safe {A : Type} (st : dstatus) (n : nat) (x : res (reader * A) rerr) : Prop :=
    match x with
    | Err Fault | Err FuelOut => False
    | Err (XErr e) => errOK st e
    | Ok (r', _) => StL r' n st
    end.

  Lemma StL_pos : forall r l cl n st, StL r n st -> StL (set_pos r l cl) n st.
  Proof. intros r l cl n st H. exact H. Qed.

  Lemma StL_le : forall r n m st, StL r n st -> (n <= m)%nat -> StL r m st.
  Proof. intros r n m st [cs [H L]] Hle. exists cs. split; [exact H|lia]. Qed.

  Lemma Dec_len : forall s D st, Dec step s D st -> (length D <= 2 * length s)%nat.
  Proof.
    intros s D st H. induction H; try (cbn; lia).
    destruct (xc_out_bounds _ _ _ HC _ _ _ H) as [[N1 N2] [U1 U2]].
    rewrite app_length. rewrite skipn_length in IHDec. lia.
  Qed.

  Lemma ensure_safe : forall r cs st, St r cs st ->
    match ensure c r with
    | Err Fault | Err FuelOut => False
    | Err (XErr e) => errOK st e
    | Ok (r', b) => St r' cs st /\ line r' = line r /\ col r' = col r /\
                    (b = true -> exists x t, ccur r' = x :: t) /\ (b = false -> ccur r' = [] /\ cs = [])
    end.
  Proof.
    intros r cs st H. pose proof (ensure_spec step maxSeq c HC HS r cs st H) as He.
    destruct (ensure c r) as [[r' b]|[| |e]]; auto.
    destruct He as [A [B [C [D E]]]]. split; [exact A|]. split; [exact B|]. split; [exact C|]. split; [exact D|].
    intros Hb. destruct (E Hb) as [E1 [_ E3]]. auto.
  Qed.

  Lemma adv1_StL : forall r x t cs st, St r cs st -> ccur r = x :: t ->
    exists r2 cs2, adv1 r = Ok r2 /\ cs = x :: cs2 /\ St r2 cs2 st /\ ccur r2 = t.
  Proof.
    intros r x t cs st H E. destruct (adv1_St step c r x t cs st H E) as [r2 [cs2 [A [B [C [D _]]]]]].
    exists r2, cs2. auto.
  Qed.

  Lemma handle_eol_safe : forall r ch cs2 st, St r cs2 st -> safe st (length cs2) (handle_eol c r ch).
  Proof.
    intros r ch cs2 st H. pose proof (handle_eol_spec step maxSeq c HC HS r ch cs2 st H) as Hh.
    unfold safe. destruct (handle_eol c r ch) as [[r' ch']|[| |e]]; auto.
    destruct Hh as [cs' [H' [L _]]]. exists cs'. split; [exact H'|]. cbn in L. lia.
  Qed.

  Lemma after_get_safe : forall r ch cs2 st, St r cs2 st -> safe st (length cs2) (after_get c r ch).
  Proof.
    intros r ch cs2 st H. pose proof (after_get_spec step maxSeq c HC HS r ch cs2 st H) as Hh.
    unfold safe. destruct (after_get c r ch) as [[r' ch']|[| |e]]; auto.
    destruct Hh as [cs' [H' [L _]]]. exists cs'. split; [exact H'|]. cbn in L. lia.
  Qed.

  Lemma get_next_safe : forall r cs st, St r cs st -> safe st (length cs) (get_next c r).
  Proof.
    intros r cs st H. pose proof (get_next_spec step maxSeq c HC HS r cs st H) as Hg.
    unfold safe. destruct (get_next c r) as [[r' [ch|]]|[| |e]]; auto.
    - destruct Hg as [cs' [H' [L _]]]. exists cs'. split; [exact H'|lia].
    - destruct Hg as [E [_ H']]. exists []. split; [exact H'|cbn; lia].
  Qed.

  Lemma get_next_if_not_safe : forall r cs st ch0, St r cs st -> safe st (length cs) (get_next_if_not c r ch0).
  Proof.
    intros r cs st ch0 H. unfold get_next_if_not. pose proof (ensure_safe r cs st H) as He.
    destruct (ensure c r) as [[r1 b]|[| |e]]; auto.
    destruct He as [H1 [_ [_ [Hb1 Hb0]]]]. destruct b.
    - destruct (Hb1 eq_refl) as [x [t Ec]]. unfold rd. rewrite Ec. cbn [nth_error].
      destruct (x =? ch0); [exists cs; split; [exact H1|lia]|].
      destruct (adv1_StL r1 x t cs st H1 Ec) as [r2 [cs2 [Ea [Ecs [H2 _]]]]]. rewrite Ea.
      pose proof (after_get_safe r2 x cs2 st H2) as Ha. unfold safe in *.
      destruct (after_get c r2 x) as [[r3 ch']|[| |e]]; auto.
      eapply StL_le; [exact Ha|]. subst cs. cbn. lia.
    - exists cs. split; [exact H1|lia].
  Qed.

  Lemma peek_next_safe : forall r cs st, St r cs st -> safe st (length cs) (peek_next c r).
  Proof.
    intros r cs st H. unfold peek_next. pose proof (ensure_safe r cs st H) as He.
    destruct (ensure c r) as [[r1 b]|[| |e]]; auto.
    destruct He as [H1 [_ [_ [Hb1 Hb0]]]]. destruct b.
    - destruct (Hb1 eq_refl) as [x [t Ec]]. unfold rd. rewrite Ec. cbn [nth_error].
      destruct ((x =? 13) || nel c && ((x =? 133) || (x =? 8232))); exists cs; (split; [exact H1|lia]).
    - exists cs. split; [exact H1|lia].
  Qed.

  Lemma skipped_char_safe : forall r cs st ch0, St r cs st -> safe st (length cs) (skipped_char c r ch0).
  Proof.
    intros r cs st ch0 H. unfold skipped_char. pose proof (ensure_safe r cs st H) as He.
    destruct (ensure c r) as [[r1 b]|[| |e]]; auto.
    destruct He as [H1 [_ [_ [Hb1 Hb0]]]]. destruct b.
    - destruct (Hb1 eq_refl) as [x [t Ec]]. unfold rd. rewrite Ec. cbn [nth_error].
      destruct (x =? ch0); [|exists cs; split; [exact H1|lia]].
      destruct (adv1_StL r1 x t cs st H1 Ec) as [r2 [cs2 [Ea [Ecs [H2 _]]]]]. rewrite Ea.
      exists cs2. split; [exact H2|]. subst cs. cbn. lia.
    - exists cs. split; [exact H1|lia].
  Qed.

  Lemma skipped_space_safe : forall r cs st, St r cs st -> safe st (length cs) (skipped_space c r).
  Proof.
    intros r cs st H. unfold skipped_space. pose proof (ensure_safe r cs st H) as He.
    destruct (ensure c r) as [[r1 b]|[| |e]]; auto.
    destruct He as [H1 [_ [_ [Hb1 Hb0]]]]. destruct b.
    - destruct (Hb1 eq_refl) as [x [t Ec]]. unfold rd. rewrite Ec. cbn [nth_error].
      destruct (isWS c x); [|exists cs; split; [exact H1|lia]].
      destruct (adv1_StL r1 x t cs st H1 Ec) as [r2 [cs2 [Ea [Ecs [H2 _]]]]]. rewrite Ea.
      destruct (ws_plain x).
      + exists cs2. split; [exact H2|]. subst cs. cbn. lia.
      + pose proof (handle_eol_safe r2 x cs2 st H2) as Hh. unfold safe in *.
        destruct (handle_eol c r2 x) as [[r3 ch']|[| |e]]; auto.
        eapply StL_le; [exact Hh|]. subst cs. cbn. lia.
    - exists cs. split; [exact H1|lia].
  Qed.

  (** skipSpaces: every iteration either consumes a character or refills an empty buffer *)
  Lemma skip_spaces_safe : forall fuel r cs st sk, St r cs st ->
    (2 * length cs + (match ccur r with [] => 2 | _ => 1 end) <= fuel)%nat ->
    safe st (length cs) (skip_spaces c fuel r sk).
  Proof.
    induction fuel as [|f IH]; intros r cs st sk H Hf; [destruct (ccur r); lia|].
    cbn [skip_spaces]. destruct (ccur r) as [|x t] eqn:Ec.
    - pose proof (refresh_char_spec step maxSeq c HC HS r cs st H) as Hr.
      destruct (refresh_char c r) as [[r1 b]|[| |e]]; auto.
      destruct Hr as [H1 [_ [_ [_ [Hb1 [Hb0 _]]]]]]. destruct b.
      + apply IH; [exact H1|]. specialize (Hb1 eq_refl). destruct (ccur r1); [now destruct Hb1|lia].
      + exists cs. split; [exact H1|lia].
    - destruct (isWS c x); [|exists cs; split; [exact H|lia]].
      destruct (adv1_StL r x t cs st H Ec) as [r2 [cs2 [Ea [Ecs [H2 _]]]]]. rewrite Ea.
      assert (Hl : (length cs = S (length cs2))%nat) by (subst cs; reflexivity).
      destruct (ws_plain x).
      + assert (Hs := IH (add_col r2 1) cs2 st true H2 ltac:(destruct (ccur (add_col r2 1)); lia)).
        unfold safe in *. destruct (skip_spaces c f (add_col r2 1) true) as [[r3 o]|[| |e]]; auto.
        eapply StL_le; [exact Hs|lia].
      + pose proof (handle_eol_spec step maxSeq c HC HS r2 x cs2 st H2) as Hh.
        destruct (handle_eol c r2 x) as [[r3 ch']|[| |e]]; auto.
        destruct Hh as [cs3 [H3 [L3 _]]]. cbn [length] in L3.
        assert (Hs := IH r3 cs3 st true H3 ltac:(destruct (ccur r3); lia)).
        unfold safe in *. destruct (skip_spaces c f r3 true) as [[r4 o]|[| |e]]; auto.
        eapply StL_le; [exact Hs|lia].
  Qed.

  Lemma skipn_chk_some : forall (k : nat) (l : list N), (k <= length l)%nat -> skipn_chk k l = Some (skipn k l).
  Proof.
    induction k as [|k IH]; intros l H; [reflexivity|].
    destruct l as [|x l]; [cbn in H; lia|]. cbn. apply IH. cbn in H. lia.
  Qed.

  Lemma adv_St : forall r k cs st, St r cs st -> (k <= length (ccur r))%nat ->
    exists r2, adv r k = Ok r2 /\ St r2 (skipn k cs) st.
  Proof.
    intros r k cs st [G [NM [D [HD Ecs]]]] Hk. unfold adv. rewrite skipn_chk_some by exact Hk.
    eexists. split; [reflexivity|]. unfold Proofs04c.St. split; [|split].
    - destruct G as [G1 [G2 G3]]. unfold good. cbn [ccur cidx rcur ridx strm]. rewrite skipn_length.
      repeat split; auto. lia.
    - unfold nm_ok. cbn [noMore ccur]. intros Hn. destruct (NM Hn) as [E0 [st' [Hnb HD']]].
      rewrite E0. rewrite skipn_nil. split; [reflexivity|]. exists st'. split; [exact Hnb|exact HD'].
    - exists D. split; [exact HD|]. cbn [ccur]. subst cs. rewrite skipn_app.
      replace (k - length (ccur r))%nat with 0%nat by lia. reflexivity.
  Qed.

  (** the refill loop of skippedString / peekString *)
  Lemma want_chars_safe : forall fuel strict r cs st n, St r cs st ->
    (n - length (ccur r) + 1 <= fuel)%nat ->
    match want_chars c fuel strict r n with
    | Err Fault | Err FuelOut => False
    | Err (XErr e) => errOK st e
    | Ok (r', b) => St r' cs st /\ (b = true -> (n <= length (ccur r'))%nat)
    end.
  Proof.
    induction fuel as [|f IH]; intros strict r cs st n H Hf; [lia|].
    cbn [want_chars]. destruct (Nat.ltb_spec (length (ccur r)) n) as [Hlt|Hge].
    - pose proof (refresh_char_spec step maxSeq c HC HS r cs st H) as Hr.
      destruct (refresh_char c r) as [[r1 b]|[| |e]]; auto.
      destruct Hr as [H1 [_ [_ [[new Enew] _]]]].
      destruct (strict && negb b); [split; [exact H1|discriminate]|].
      destruct (Nat.eqb_spec (length (ccur r1)) (length (ccur r))) as [Eq|Nq]; [split; [exact H1|discriminate]|].
      apply IH; [exact H1|]. rewrite Enew, app_length in *. lia.
    - split; [exact H|]. intros _. lia.
  Qed.

  Lemma skipped_string_safe : forall r cs st s, St r cs st -> safe st (length cs) (skipped_string c r s).
  Proof.
    intros r cs st s H. unfold skipped_string.
    pose proof (want_chars_safe (S (length s)) true r cs st (length s) H ltac:(lia)) as Hw.
    destruct (want_chars c (S (length s)) true r (length s)) as [[r1 b]|[| |e]]; auto.
    destruct Hw as [H1 Hb]. destruct b; [|exists cs; split; [exact H1|lia]].
    destruct (eq_list (firstn (length s) (ccur r1)) s); [|exists cs; split; [exact H1|lia]].
    destruct (adv_St r1 (length s) cs st H1 (Hb eq_refl)) as [r2 [Ea H2]]. rewrite Ea.
    exists (skipn (length s) cs). split; [exact H2|]. rewrite skipn_length. lia.
  Qed.

  Lemma peek_string_safe : forall r cs st s, St r cs st -> safe st (length cs) (peek_string c r s).
  Proof.
    intros r cs st s H. unfold peek_string.
    pose proof (want_chars_safe (S (length s)) false r cs st (length s) H ltac:(lia)) as Hw.
    destruct (want_chars c (S (length s)) false r (length s)) as [[r1 b]|[| |e]]; auto.
    destruct Hw as [H1 Hb]. destruct b; exists cs; (split; [exact H1|lia]).
  Qed.

  (* ---- getName (repaired look-ahead) ---- *)
  Hypothesis Hsafe : safename c = true.

  Lemma flush_St : forall r acc name cs st, St r cs st -> St (fst (flush r acc name)) cs st /\
    ccur (fst (flush r acc name)) = ccur r.
  Proof. intros r acc name cs st H. unfold flush. destruct acc; cbn [fst]; split; auto. Qed.

  Definition nl_safe (st : dstatus) (n : nat) (x : res (reader * list N) rerr) : Prop :=
    match x with
    | Err Fault | Err FuelOut => False
    | Err (XErr e) => errOK st e
    | Ok (r', _) => StL r' n st
    end.

  Lemma pair_step_safe : forall r acc name cs st K, St r cs st -> ccur r <> [] ->
    (forall r2 acc2 name2 cs2, St r2 cs2 st -> (length cs2 + 2 <= length cs)%nat -> nl_safe st (length cs2) (K r2 acc2 name2)) ->
    nl_safe st (length cs) (pair_step c r acc name K).
  Proof.
    intros r acc name cs st K H Hne HK. unfold pair_step, rd.
    destruct (ccur r) as [|x [|y t]] eqn:Ec; [now destruct Hne| |]; cbn [nth_error].
    - rewrite Hsafe. destruct (flush_St r acc name cs st H) as [Hf _].
      destruct (flush r acc name) as [r1 n1]. cbn [fst] in Hf. exists cs. split; [exact Hf|lia].
    - destruct (is_low y).
      + destruct (adv_St r 2 cs st H ltac:(rewrite Ec; cbn; lia)) as [r2 [Ea H2]]. rewrite Ea.
        assert (Hl : (2 <= length cs)%nat).
        { destruct H as [_ [_ [D [_ E]]]]. rewrite E, Ec. cbn. lia. }
        specialize (HK r2 (y :: x :: acc) name (skipn 2 cs) H2 ltac:(rewrite skipn_length; lia)).
        unfold nl_safe in *. destruct (K r2 (y :: x :: acc) name) as [[r3 n3]|[| |e]]; auto.
        eapply StL_le; [exact HK|]. rewrite skipn_length. lia.
      + destruct (flush_St r acc name cs st H) as [Hf _].
        destruct (flush r acc name) as [r1 n1]. cbn [fst] in Hf. exists cs. split; [exact Hf|lia].
  Qed.

  Lemma name_loop_safe : forall fuel r acc name cs st, St r cs st ->
    (2 * length cs + (match ccur r with [] => 2 | _ => 1 end) <= fuel)%nat ->
    nl_safe st (length cs) (name_loop c fuel r acc name).
  Proof.
    induction fuel as [|f IH]; intros r acc name cs st H Hf; [destruct (ccur r); lia|].
    cbn [name_loop]. destruct (ccur r) as [|x t] eqn:Ec.
    - destruct (flush_St r acc name cs st H) as [Hfl Hcc]. destruct (flush r acc name) as [r1 n1]. cbn [fst] in *.
      pose proof (refresh_char_spec step maxSeq c HC HS r1 cs st Hfl) as Hr.
      destruct (refresh_char c r1) as [[r2 b]|[| |e]]; auto.
      destruct Hr as [H2 [_ [_ [_ [Hb1 _]]]]]. destruct b.
      + apply IH; [exact H2|]. specialize (Hb1 eq_refl). destruct (ccur r2); [now destruct Hb1|lia].
      + exists cs. split; [exact H2|lia].
    - assert (Hl : (1 <= length cs)%nat).
      { destruct H as [_ [_ [D [_ E]]]]. rewrite E, Ec. cbn. lia. }
      destruct (is_high x).
      + assert (HK : forall r2 acc2 name2 cs2, St r2 cs2 st -> (length cs2 + 2 <= length cs)%nat ->
                     nl_safe st (length cs2) (name_loop c f r2 acc2 name2)).
        { intros r2 acc2 name2 cs2 H2 L2. apply IH; [exact H2|]. destruct (ccur r2); lia. }
        destruct t as [|y t'].
        * destruct (flush_St r acc name cs st H) as [Hfl Hcc]. destruct (flush r acc name) as [r1 n1]. cbn [fst] in *.
          pose proof (refresh_char_spec step maxSeq c HC HS r1 cs st Hfl) as Hr.
          destruct (refresh_char c r1) as [[r2 b]|[| |e]]; auto.
          destruct Hr as [H2 [_ [_ [[new Enew] _]]]]. destruct b.
          -- apply pair_step_safe; [exact H2| |exact HK]. rewrite Enew, Hcc, Ec. discriminate.
          -- destruct (flush_St r2 acc n1 cs st H2) as [Hf3 _]. destruct (flush r2 acc n1) as [r3 n3]. cbn [fst] in Hf3.
             exists cs. split; [exact Hf3|lia].
        * apply pair_step_safe; [exact H| |exact HK]. rewrite Ec. discriminate.
      + destruct (isName c x).
        * destruct (adv1_StL r x t cs st H Ec) as [r2 [cs2 [Ea [Ecs [H2 _]]]]]. rewrite Ea.
          assert (Hs := IH r2 (x :: acc) name cs2 st H2 ltac:(subst cs; cbn [length] in *; destruct (ccur r2); lia)).
          unfold nl_safe in *. destruct (name_loop c f r2 (x :: acc) name) as [[r3 n3]|[| |e]]; auto.
          eapply StL_le; [exact Hs|]. subst cs. cbn. lia.
        * destruct (flush_St r acc name cs st H) as [Hfl _]. destruct (flush r acc name) as [r1 n1]. cbn [fst] in *.
          exists cs. split; [exact Hfl|lia].
  Qed.

  Lemma get_name_safe : forall fuel r cs st tok, St r cs st -> (2 * length cs + 2 <= fuel)%nat ->
    safe st (length cs) (get_name c fuel r tok).
  Proof.
    intros fuel r cs st tok H Hf. unfold get_name.
    assert (Hfin : forall x n, nl_safe st n x -> (n <= length cs)%nat ->
              safe st (length cs) (match x with
                                   | Err e => Err e
                                   | Ok (r', nm) => Ok (r', (match nm with [] => false | _ => true end, rev nm))
                                   end)).
    { intros x n Hx Hn. unfold safe, nl_safe in *. destruct x as [[r' nm]|[| |e]]; auto. eapply StL_le; eauto. }
    pose proof (ensure_safe r cs st H) as He.
    destruct (ensure c r) as [[r1 b]|[| |e]]; auto.
    destruct He as [H1 [_ [_ [Hb1 Hb0]]]]. destruct b; [|exists cs; split; [exact H1|lia]].
    destruct (Hb1 eq_refl) as [x [t Ec]].
    destruct tok.
    { apply (Hfin _ (length cs)); [|lia]. apply name_loop_safe; [exact H1|]. rewrite Ec. lia. }
    rewrite Ec.
    assert (Hl : (1 <= length cs)%nat).
    { destruct H1 as [_ [_ [D [_ E]]]]. rewrite E, Ec. cbn. lia. }
    assert (Hcont : forall r2, St r2 cs st -> ccur r2 <> [] ->
              safe st (length cs)
                (match rd r2 0, rd r2 1 with
                 | Some x0, Some y =>
                   if is_low y then match adv r2 2 with
                                    | Ok r3 => (fun x => match x with
                                                          | Err e => Err e
                                                          | Ok (r', nm) => Ok (r', (match nm with [] => false | _ => true end, rev nm))
                                                          end) (name_loop c fuel r3 [y; x0] [])
                                    | Err e => Err e
                                    end
                   else Ok (r2, (false, []))
                 | Some _, None => if safename c then Ok (r2, (false, [])) else Err Fault
                 | None, _ => Err Fault
                 end)).
    { intros r2 H2 Hne. unfold rd. destruct (ccur r2) as [|x0 [|y t2]] eqn:Ec2; [now destruct Hne| |]; cbn [nth_error].
      - rewrite Hsafe. exists cs. split; [exact H2|lia].
      - destruct (is_low y); [|exists cs; split; [exact H2|lia]].
        destruct (adv_St r2 2 cs st H2 ltac:(rewrite Ec2; cbn; lia)) as [r3 [Ea H3]]. rewrite Ea.
        apply (Hfin _ (length (skipn 2 cs))); [|rewrite skipn_length; lia].
        apply name_loop_safe; [exact H3|]. rewrite skipn_length. destruct (ccur r3); lia. }
    destruct (is_high x).
    - destruct t as [|y t'].
      + pose proof (refresh_char_spec step maxSeq c HC HS r1 cs st H1) as Hr.
        destruct (refresh_char c r1) as [[r2 b]|[| |e]]; auto.
        destruct Hr as [H2 [_ [_ [[new Enew] _]]]]. destruct b; [|exists cs; split; [exact H2|lia]].
        apply Hcont; [exact H2|]. rewrite Enew, Ec. discriminate.
      + apply Hcont; [exact H1|]. rewrite Ec. discriminate.
    - destruct (isFirstName c x); [|exists cs; split; [exact H1|lia]].
      destruct (adv1_StL r1 x t cs st H1 Ec) as [r2 [cs2 [Ea [Ecs [H2 _]]]]]. rewrite Ea.
      apply (Hfin _ (length cs2)); [|subst cs; cbn; lia].
      apply name_loop_safe; [exact H2|]. subst cs. cbn [length] in *. destruct (ccur r2); lia.
  Qed.

  Lemma do_op_safe : forall fuel r cs st o, St r cs st -> (2 * length cs + 2 <= fuel)%nat ->
    safe st (length cs) (do_op c fuel r o).
  Proof.
    intros fuel r cs st o H Hf. destruct o; cbn [do_op].
    - pose proof (get_next_safe r cs st H) as S0. unfold safe in *. destruct (get_next c r) as [[r' x]|[| |e]]; auto.
    - pose proof (peek_next_safe r cs st H) as S0. unfold safe in *. destruct (peek_next c r) as [[r' x]|[| |e]]; auto.
    - pose proof (get_next_if_not_safe r cs st ch H) as S0. unfold safe in *.
      destruct (get_next_if_not c r ch) as [[r' x]|[| |e]]; auto.
    - pose proof (skipped_char_safe r cs st ch H) as S0. unfold safe in *.
      destruct (skipped_char c r ch) as [[r' x]|[| |e]]; auto.
    - pose proof (skipped_space_safe r cs st H) as S0. unfold safe in *.
      destruct (skipped_space c r) as [[r' x]|[| |e]]; auto.
    - pose proof (skip_spaces_safe fuel r cs st false H ltac:(destruct (ccur r); lia)) as S0. unfold safe in *.
      destruct (skip_spaces c fuel r false) as [[r' [x y]]|[| |e]]; auto.
    - pose proof (skipped_string_safe r cs st s H) as S0. unfold safe in *.
      destruct (skipped_string c r s) as [[r' x]|[| |e]]; auto.
    - pose proof (peek_string_safe r cs st s H) as S0. unfold safe in *.
      destruct (peek_string c r s) as [[r' x]|[| |e]]; auto.
    - pose proof (get_name_safe fuel r cs st token H Hf) as S0. unfold safe in *.
      destruct (get_name c fuel r token) as [[r' [x y]]|[| |e]]; auto.
  Qed.

  (** T01_reader_inv: arbitrary operation sequences never fault, and the index invariant holds at the end *)
  Lemma run_ops_safe : forall ops fuel r cs st, St r cs st -> (2 * length cs + 2 <= fuel)%nat ->
    match run_ops c fuel r ops with
    | (_, Some Fault, _) | (_, Some FuelOut, _) => False
    | (_, Some (XErr e), rf) => errOK st e /\ good c rf
    | (_, None, rf) => good c rf
    end.
  Proof.
    induction ops as [|o rest IH]; intros fuel r cs st H Hf; cbn [run_ops].
    - destruct H as [G _]. exact G.
    - pose proof (do_op_safe fuel r cs st o H Hf) as S0. unfold safe in S0.
      destruct (do_op c fuel r o) as [[r' x]|[| |e]]; try contradiction.
      + destruct S0 as [cs' [H' L']]. specialize (IH fuel r' cs' st H' ltac:(lia)).
        destruct (run_ops c fuel r' rest) as [[l e] rf]. exact IH.
      + destruct H as [G _]. auto.
  Qed.
End Safety.
