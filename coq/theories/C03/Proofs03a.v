(** C03 -- lemmas: XML 1.1 end-of-line handling, line/column positions. *)
From Coq Require Import ZArith ZifyBool ZifyN ZifyNat Lia.
From XV Require Import Base.XDefs C02.Model02 C03.Model03.
Local Open Scope N_scope.

Lemma list_ind2' : forall (P : str -> Prop), P [] -> (forall c, P [c]) ->
  (forall c d r, P r -> P (d :: r) -> P (c :: d :: r)) -> forall s, P s.
Proof.
  intros P H0 H1 H2. assert (A : forall s, P s /\ forall c, P (c :: s)).
  { induction s as [|d r [IH1 IH2]]; [split; [exact H0|exact H1]|]. split; [apply IH2|]. intros c. apply H2; [exact IH1|apply IH2]. }
  intros s. apply A.
Qed.
Lemma eol11_cons2 : forall c d r, eol_norm11 (c :: d :: r) =
  if c =? 13 then 10 :: (if (d =? 10) || (d =? 0x85) then eol_norm11 r else eol_norm11 (d :: r))
  else if (c =? 0x85) || (c =? 0x2028) then 10 :: eol_norm11 (d :: r) else c :: eol_norm11 (d :: r).
Proof. reflexivity. Qed.
Lemma eol11_cons1 : forall c, eol_norm11 [c] = if c =? 13 then [10] else if (c =? 0x85) || (c =? 0x2028) then [10] else [c].
Proof. intros c. cbn [eol_norm11]. destruct (c =? 13); [reflexivity|]. destruct ((c =? 0x85) || (c =? 0x2028)); reflexivity. Qed.
Lemma pair11_cons2 : forall c d r, pair11_to_lf (c :: d :: r) =
  if (c =? 13) && ((d =? 10) || (d =? 0x85)) then 10 :: pair11_to_lf r else c :: pair11_to_lf (d :: r).
Proof. reflexivity. Qed.
Lemma single10 : is_eol11_single 10 = false. Proof. reflexivity. Qed.

Lemma eol11_eq : forall s, eol_norm11 s = eol11_spec s.
Proof.
  apply list_ind2'; [reflexivity| |].
  - intros c. rewrite eol11_cons1. unfold eol11_spec, is_eol11_single. cbn [pair11_to_lf map].
    destruct (c =? 13); [reflexivity|]. cbn [orb]. destruct ((c =? 0x85) || (c =? 0x2028)); reflexivity.
  - intros c d r IHr IHd. unfold eol11_spec in *. rewrite eol11_cons2, pair11_cons2. destruct (c =? 13) eqn:E.
    + cbn [andb]. destruct ((d =? 10) || (d =? 0x85)) eqn:E2.
      * cbn [map]. rewrite single10, IHr. reflexivity.
      * cbn [map]. unfold is_eol11_single at 1. rewrite E. cbn [orb]. rewrite IHd. reflexivity.
    + cbn [andb map]. unfold is_eol11_single at 1. rewrite E. cbn [orb]. rewrite IHd.
      destruct ((c =? 0x85) || (c =? 0x2028)); reflexivity.
Qed.

Definition clean11 (s : str) : bool := forallb (fun c => negb (is_eol11_single c)) s.
Lemma eol11_clean : forall s, clean11 (eol_norm11 s) = true.
Proof.
  apply list_ind2'; [reflexivity| |].
  - intros c. rewrite eol11_cons1. unfold clean11, is_eol11_single. destruct (c =? 13) eqn:E; [reflexivity|].
    destruct ((c =? 0x85) || (c =? 0x2028)) eqn:E2; [reflexivity|]. cbn [forallb]. rewrite E, E2. reflexivity.
  - intros c d r IHr IHd. rewrite eol11_cons2. unfold clean11 in *. destruct (c =? 13) eqn:E.
    + destruct ((d =? 10) || (d =? 0x85)); cbn [forallb]; rewrite single10; cbn [negb andb]; assumption.
    + destruct ((c =? 0x85) || (c =? 0x2028)) eqn:E2; cbn [forallb].
      * rewrite single10. cbn [negb andb]. exact IHd.
      * unfold is_eol11_single at 1. rewrite E. cbn [orb]. rewrite E2. cbn [negb andb]. exact IHd.
Qed.
Lemma eol11_id_clean : forall s, clean11 s = true -> eol_norm11 s = s.
Proof.
  induction s as [|c r IH]; intros H; [reflexivity|]. unfold clean11 in H. cbn [forallb] in H. apply andb_true_iff in H.
  destruct H as [H1 H2]. cbn [eol_norm11]. unfold is_eol11_single in H1. destruct (c =? 13); [discriminate|]. cbn [orb] in H1.
  destruct ((c =? 0x85) || (c =? 0x2028)); [discriminate|]. rewrite (IH H2). reflexivity.
Qed.
Lemma clean11_not_in : forall s c, clean11 s = true -> is_eol11_single c = true -> ~ In c s.
Proof. intros s c H S I. unfold clean11 in H. rewrite forallb_forall in H. specialize (H c I). rewrite S in H. discriminate. Qed.

(* splitting: the normalisation distributes over every split that does not separate #xD from its #xA / #x85 *)
Lemma eol11_app : forall a b, (last a 0 <> 13 \/ (hd 0 b <> 10 /\ hd 0 b <> 0x85)) ->
  eol_norm11 (a ++ b) = eol_norm11 a ++ eol_norm11 b.
Proof.
  apply (list_ind2' (fun a => forall b, (last a 0 <> 13 \/ (hd 0 b <> 10 /\ hd 0 b <> 0x85)) ->
                                        eol_norm11 (a ++ b) = eol_norm11 a ++ eol_norm11 b)).
  - intros b _. reflexivity.
  - intros c b H. cbn [app last] in *. rewrite eol11_cons1. destruct b as [|d r].
    + rewrite eol11_cons1, app_nil_r. reflexivity.
    + rewrite eol11_cons2. destruct (c =? 13) eqn:E.
      * apply N.eqb_eq in E. subst c. destruct H as [H|[H1 H2]]; [contradiction|]. cbn [hd] in *.
        replace (d =? 10) with false by (symmetry; apply N.eqb_neq; exact H1).
        replace (d =? 0x85) with false by (symmetry; apply N.eqb_neq; exact H2). reflexivity.
      * destruct ((c =? 0x85) || (c =? 0x2028)); reflexivity.
  - intros c d r IHr IHd b H. change ((c :: d :: r) ++ b) with (c :: d :: (r ++ b)). rewrite !eol11_cons2.
    assert (Hd : last (d :: r) 0 <> 13 \/ (hd 0 b <> 10 /\ hd 0 b <> 0x85)) by (destruct H as [H|H]; [left; exact H|right; exact H]).
    specialize (IHd b Hd). change (d :: r ++ b) with ((d :: r) ++ b). rewrite IHd.
    destruct (c =? 13).
    + destruct ((d =? 10) || (d =? 0x85)) eqn:E2; [|reflexivity].
      destruct r as [|e r'].
      * cbn [app eol_norm11]. reflexivity.
      * rewrite (IHr b); [reflexivity|]. destruct H as [H|H]; [left; exact H|right; exact H].
    + destruct ((c =? 0x85) || (c =? 0x2028)); reflexivity.
Qed.

(* without NEL / LSEP the two normalisations coincide *)
Lemma eol_10_is_11 : forall s, no_nel s = true -> eol_norm s = eol_norm11 s.
Proof.
  apply (list_ind2' (fun s => no_nel s = true -> eol_norm s = eol_norm11 s)); [reflexivity| |].
  - intros c H. unfold no_nel in H. cbn [forallb] in H. rewrite andb_true_r in H. rewrite eol11_cons1. cbn [eol_norm].
    unfold c_cr, c_lf. destruct (c =? 13); [reflexivity|]. destruct ((c =? 0x85) || (c =? 0x2028)); [discriminate|reflexivity].
  - intros c d r IHr IHd H. unfold no_nel in *. cbn [forallb] in H. apply andb_true_iff in H. destruct H as [Hc H].
    pose proof H as Hdr. cbn [forallb] in H. apply andb_true_iff in H. destruct H as [Hdd Hr].
    rewrite eol11_cons2. change (eol_norm (c :: d :: r)) with
      (if c =? 13 then 10 :: (if d =? 10 then eol_norm r else eol_norm (d :: r)) else c :: eol_norm (d :: r)).
    rewrite (IHr Hr), (IHd Hdr). destruct (c =? 13).
    + assert (X : (d =? 0x85) = false). { destruct (d =? 0x85); [discriminate|reflexivity]. }
      rewrite X, orb_false_r. reflexivity.
    + destruct ((c =? 0x85) || (c =? 0x2028)); [discriminate|reflexivity].
Qed.
Lemma eol_doc11_eq : forall decl rest, no_nel decl = true -> last decl 0 <> 13 ->
  eol_doc11 decl rest = eol_norm11 (decl ++ rest).
Proof. intros decl rest H L. unfold eol_doc11. rewrite (eol_10_is_11 decl H). symmetry. apply eol11_app. left. exact L. Qed.

(* ---- line / column *)
Lemma since_lf_app : forall a b acc, since_lf acc (a ++ b) = since_lf (since_lf acc a) b.
Proof. induction a as [|c a IH]; intros b acc; [reflexivity|]. cbn [app since_lf]. apply IH. Qed.
Lemma count_lf_cons : forall c s, count_lf (c :: s) = (if c =? 10 then 1 else 0) + count_lf s.
Proof. intros c s. unfold count_lf. cbn [filter]. destruct (c =? 10); cbn [length]; lia. Qed.
Lemma since_lf_split : forall s acc, since_lf acc s = if count_lf s =? 0 then acc + N.of_nat (length s) else since_lf 0 s.
Proof.
  induction s as [|c s IH]; intros acc.
  - cbn. lia.
  - rewrite count_lf_cons. cbn [since_lf length]. destruct (c =? 10) eqn:E.
    + replace (1 + count_lf s =? 0) with false by (symmetry; apply N.eqb_neq; lia). reflexivity.
    + rewrite (IH (acc + 1)), (IH (0 + 1)). change (0 + count_lf s) with (count_lf s). destruct (count_lf s =? 0); lia.
Qed.
Definition norm_of (v11 : bool) (s : str) : str := if v11 then eol_norm11 s else eol_norm s.
Definition split_ok (v11 : bool) (a b : str) : Prop :=
  last a 0 <> 13 \/ (hd 0 b <> 10 /\ (v11 = true -> hd 0 b <> 0x85)).
Lemma eol10_cons2 : forall c d r, eol_norm (c :: d :: r) =
  if c =? 13 then 10 :: (if d =? 10 then eol_norm r else eol_norm (d :: r)) else c :: eol_norm (d :: r).
Proof. reflexivity. Qed.
Lemma eol10_app : forall a b, (last a 0 <> 13 \/ hd 0 b <> 10) -> eol_norm (a ++ b) = eol_norm a ++ eol_norm b.
Proof.
  apply (list_ind2' (fun a => forall b, (last a 0 <> 13 \/ hd 0 b <> 10) -> eol_norm (a ++ b) = eol_norm a ++ eol_norm b)).
  - intros b _. reflexivity.
  - intros c b H. cbn [app last] in *. cbn [eol_norm]. unfold c_cr, c_lf. destruct (c =? 13) eqn:E.
    + apply N.eqb_eq in E. subst c. destruct H as [H|H]; [contradiction|]. destruct b as [|d r]; [reflexivity|].
      cbn [hd] in H. replace (d =? 10) with false by (symmetry; apply N.eqb_neq; exact H). reflexivity.
    + reflexivity.
  - intros c d r IHr IHd b H. change ((c :: d :: r) ++ b) with (c :: d :: (r ++ b)). rewrite !eol10_cons2.
    assert (Hd : last (d :: r) 0 <> 13 \/ hd 0 b <> 10) by (destruct H as [H|H]; [left; exact H|right; exact H]).
    assert (Hr : last r 0 <> 13 \/ hd 0 b <> 10 \/ r = []).
    { destruct H as [H|H]; [|tauto]. destruct r; [tauto|left; exact H]. }
    specialize (IHd b Hd). change (d :: r ++ b) with ((d :: r) ++ b). rewrite IHd.
    destruct (c =? 13); [|reflexivity]. destruct (d =? 10) eqn:E2; [|reflexivity].
    destruct r as [|e r'].
    + cbn [app eol_norm]. reflexivity.
    + rewrite (IHr b); [reflexivity|]. destruct Hr as [Hr|[Hr|Hr]]; [left; exact Hr|right; exact Hr|discriminate].
Qed.
Lemma norm_app : forall v a b, split_ok v a b -> norm_of v (a ++ b) = norm_of v a ++ norm_of v b.
Proof.
  intros v a b H. unfold norm_of, split_ok in *. destruct v.
  - apply eol11_app. destruct H as [H|[H1 H2]]; [left; exact H|right; split; [exact H1|apply H2; reflexivity]].
  - apply eol10_app. destruct H as [H|[H1 _]]; [left; exact H|right; exact H1].
Qed.
Lemma count_lf_app' : forall a b, count_lf (a ++ b) = count_lf a + count_lf b.
Proof. intros a b. unfold count_lf. rewrite filter_app, app_length. lia. Qed.
(* line: additive (both versions) *)
Lemma line_additive : forall v a b, split_ok v a b ->
  line_after v (a ++ b) = line_after v a + count_lf (norm_of v b).
Proof. intros v a b H. unfold line_after. fold (norm_of v (a ++ b)). fold (norm_of v a). rewrite (norm_app v a b H), count_lf_app'. lia. Qed.
(* column: if the continuation contains no line end the column advances by its length in UTF-16 units (a TAB
   counts one, a supplementary character two); otherwise it only depends on the continuation *)
Lemma col_additive : forall v a b, split_ok v a b ->
  col_after v (a ++ b) = if count_lf (norm_of v b) =? 0 then col_after v a + N.of_nat (length (norm_of v b))
                         else col_after v b.
Proof.
  intros v a b H. unfold col_after. fold (norm_of v (a ++ b)). fold (norm_of v a). fold (norm_of v b).
  rewrite (norm_app v a b H), since_lf_app, since_lf_split. destruct (count_lf (norm_of v b) =? 0); lia.
Qed.
(* a text free of line-end characters is not changed by the normalisation *)
Definition plain (v11 : bool) (s : str) : bool :=
  forallb (fun c => negb ((c =? 13) || (c =? 10) || (v11 && ((c =? 0x85) || (c =? 0x2028))))) s.
Lemma plain_norm : forall v s, plain v s = true -> norm_of v s = s /\ count_lf s = 0.
Proof.
  intros v. induction s as [|c s IH]; intros H; [split; [destruct v|]; reflexivity|]. unfold plain in H. cbn [forallb] in H.
  apply andb_true_iff in H. destruct H as [Hc Hs]. destruct (IH Hs) as [I1 I2]. rewrite count_lf_cons, I2.
  destruct (c =? 13) eqn:E13; [discriminate|]. destruct (c =? 10) eqn:E10; [discriminate|]. cbn [orb] in Hc.
  split; [|reflexivity]. unfold norm_of in *. destruct v.
  - cbn [andb] in Hc. cbn [eol_norm11]. rewrite E13. destruct ((c =? 0x85) || (c =? 0x2028)); [discriminate|]. rewrite I1. reflexivity.
  - cbn [eol_norm]. unfold c_cr. rewrite E13, I1. reflexivity.
Qed.
Lemma col_plain : forall v a b, plain v b = true -> col_after v (a ++ b) = col_after v a + N.of_nat (length b).
Proof.
  intros v a b P. destruct (plain_norm v b P) as [N1 N2]. assert (S : split_ok v a b).
  { right. destruct b as [|c r]; cbn [hd]; [split; [lia|intros _; lia]|]. unfold plain in P. cbn [forallb] in P.
    apply andb_true_iff in P. destruct P as [P _]. destruct (c =? 13); [discriminate|]. destruct (c =? 10) eqn:E10; [discriminate|].
    cbn [orb] in P. apply N.eqb_neq in E10. split; [exact E10|]. intros V. subst v. cbn [andb] in P.
    destruct (c =? 0x85) eqn:E; [discriminate|]. apply N.eqb_neq in E. exact E. }
  rewrite (col_additive v a b S), N1, N2. reflexivity.
Qed.
(* right after a line end the column is 1 and the line one more, whatever came before; [e] = one of the line-end forms
   of the version *)
Definition breaks (v11 : bool) : list str :=
  [[10]; [13]; [13; 10]] ++ (if v11 then [[0x85]; [0x2028]; [13; 0x85]] else []).
Lemma break_norm : forall v e, In e (breaks v) -> norm_of v e = [10] /\ e <> [].
Proof.
  intros v e H. destruct v; cbn [breaks app In] in H;
    repeat (destruct H as [H|H]; [subst e; split; [reflexivity|discriminate]|]); contradiction.
Qed.
Lemma after_break : forall v a e, In e (breaks v) -> last a 0 <> 13 ->
  col_after v (a ++ e) = 1 /\ line_after v (a ++ e) = line_after v a + 1.
Proof.
  intros v a e H L. destruct (break_norm v e H) as [N1 _]. assert (S : split_ok v a e) by (left; exact L).
  rewrite (col_additive v a e S), (line_additive v a e S), N1. split; [|reflexivity].
  change (count_lf [10] =? 0) with false. cbv iota. unfold col_after. fold (norm_of v e). rewrite N1. reflexivity.
Qed.

(* ---- DTD defaulting: the [specified] flag *)
Lemma att_list_literal : forall lit defs a, In a lit -> In (a, true) (att_list lit defs).
Proof. intros lit defs a H. unfold att_list. apply in_or_app. left. apply in_map_iff. exists a. split; [reflexivity|exact H]. Qed.
Lemma att_list_flag : forall lit defs a f, In (a, f) (att_list lit defs) ->
  if f then In a lit else In a defs /\ has_name (fst a) lit = false.
Proof.
  intros lit defs a f H. unfold att_list in H. apply in_app_or in H. destruct H as [H|H]; apply in_map_iff in H;
    destruct H as [x [E I]]; inversion E; subst.
  - exact I.
  - apply filter_In in I. destruct I as [I1 I2]. split; [exact I1|]. destruct (has_name (fst a) lit); [discriminate|reflexivity].
Qed.
Lemma att_list_order : forall lit defs, map fst (firstn (length lit) (att_list lit defs)) = lit.
Proof.
  intros lit defs. unfold att_list. rewrite <- (map_length (fun a => (a, true)) lit) at 1. rewrite firstn_app, Nat.sub_diag, firstn_all.
  cbn [firstn]. rewrite app_nil_r, map_map. cbn [fst]. apply map_id.
Qed.
(* ---- Locator inside nested entities *)
Lemma last_ext_internal : forall ints c below, forallb (fun e => negb (fst e)) ints = true ->
  last_ext (ints ++ (true, c) :: below) = c.
Proof.
  induction ints as [|[e t] r IH]; intros c below H; [reflexivity|]. cbn [forallb fst] in H. apply andb_true_iff in H.
  destruct H as [H1 H2]. destruct e; [discriminate|]. cbn [app last_ext]. rewrite (IH c below H2).
  destruct (r ++ (true, c) :: below) eqn:E; [destruct r; discriminate|reflexivity].
Qed.
