(** C03 -- models and specifications of the normalisation rules: end-of-line handling (XML 1.0 section 2.11;
    code: XMLReader::getNextChar/peekNextChar/getSpaces/skipSpaces + handleEOL; model = Model02.eol_norm, which
    the C02 scanner model applies to its input) and attribute-value normalisation (section 3.3.3; code:
    IGXMLScanner::basicAttrValueScan producing a raw value in which a character that came from a character
    reference is preceded by the marker 0xFFFF, then IGXMLScanner::normalizeAttValue).  No proofs here. *)
From XV Require Import Base.XDefs C02.Model02.
Local Open Scope N_scope.

(* ---- section 2.11, written as the recommendation words it: first every two-character sequence #xD #xA becomes
        #xA, then every remaining #xD becomes #xA *)
Fixpoint crlf_to_lf (s : str) : str :=
  match s with
  | c :: r =>
      match r with
      | d :: r' => if (c =? 13) && (d =? 10) then 10 :: crlf_to_lf r' else c :: crlf_to_lf r
      | [] => [c]
      end
  | [] => []
  end.
Definition eol_spec (s : str) : str := map (fun c => if c =? 13 then 10 else c) (crlf_to_lf s).

(* ---- raw attribute value: (escaped, char); escaped = the character came from a character reference *)
Definition raw := list (bool * N).
(* section 3.3.3, first pass: a referenced character is appended as it is; a literal white-space character
   (#x20, #xD, #xA, #x9) is appended as #x20; any other character is appended *)
Definition step1 (p : bool * N) : N := if fst p then snd p else if is_ws (snd p) then 32 else snd p.
Definition attnorm_spec_cdata (v : raw) : str := map step1 v.
(* second pass for non-CDATA types: discard leading and trailing #x20, replace runs of #x20 by one #x20.
   Written as a two-state pass over the first-pass result; [is_sp] is the test for the characters that are
   collapsed: the recommendation collapses #x20 only *)
Fixpoint collapse (is_sp : N -> bool) (in_ws first_seen : bool) (l : str) : str :=
  match l with
  | [] => []
  | c :: r =>
      if is_sp c then collapse is_sp true first_seen r
      else (if in_ws && first_seen then [32] else []) ++ c :: collapse is_sp false true r
  end.
Definition attnorm_spec_tok (v : raw) : str := collapse (fun c => c =? 32) false false (map step1 v).

(* ---- IGXMLScanner::normalizeAttValue, CDATA branch *)
Definition attnorm_cdata (v : raw) : str :=
  map (fun p : bool * N => if fst p then snd p else if (snd p =? 9) || (snd p =? 10) || (snd p =? 13) then 32 else snd p) v.
(* ---- IGXMLScanner::normalizeAttValue, tokenised branch (namespace-aware start-tag path): the marker is skipped
        and THEN isWhitespace(nextCh) is tested, so an escaped TAB/LF/CR is collapsed like a literal blank *)
Fixpoint attnorm_tok (in_ws first_seen : bool) (v : raw) : str :=
  match v with
  | [] => []
  | p :: r =>
      if is_ws (snd p) then attnorm_tok true first_seen r
      else (if in_ws && first_seen then [32] else []) ++ snd p :: attnorm_tok false true r
  end.
(* ---- the non-namespace start-tag path (IGXMLScanner::scanAttValue with an attDef): white space is collapsed
        inline; a character counts as blank when it is #x20 or an unescaped white-space character *)
Fixpoint attnorm_tok_inline (in_ws first_seen : bool) (v : raw) : str :=
  match v with
  | [] => []
  | p :: r =>
      if (snd p =? 32) || (negb (fst p) && is_ws (snd p)) then attnorm_tok_inline true first_seen r
      else (if in_ws && first_seen then [32] else []) ++ snd p :: attnorm_tok_inline false true r
  end.

(* ---- XML 1.1 end-of-line handling (section 2.11 of XML 1.1; code: handleEOL with fNEL = true): #xD #xA, #xD #x85,
        #x85, #x2028 and any other #xD become #xA *)
Fixpoint eol_norm11 (l : str) : str :=
  match l with
  | c :: r =>
      if c =? 13 then
        10 :: match r with
              | d :: r' => if (d =? 10) || (d =? 0x85) then eol_norm11 r' else eol_norm11 r
              | [] => []
              end
      else if (c =? 0x85) || (c =? 0x2028) then 10 :: eol_norm11 r
      else c :: eol_norm11 r
  | [] => []
  end.

(* ---- source positions (Locator): after the reader has consumed [prefix] of the entity, the line number is
        1 + the number of normalised line ends in it and the column is 1 + the number of characters since the
        last one *)
Definition count_lf (s : str) : N := N.of_nat (length (filter (fun c => c =? 10) s)).
Fixpoint since_lf (acc : N) (s : str) : N :=
  match s with [] => acc | c :: r => since_lf (if c =? 10 then 0 else acc + 1) r end.
Definition line_after (v11 : bool) (prefix : str) : N :=
  1 + count_lf (if v11 then eol_norm11 prefix else eol_norm prefix).
Definition col_after (v11 : bool) (prefix : str) : N :=
  1 + since_lf 0 (if v11 then eol_norm11 prefix else eol_norm prefix).

(* ---- XML 1.1 section 2.11 as the recommendation words it: first the two-character sequences #xD #xA and
        #xD #x85 become #xA, then every remaining #xD, #x85 and #x2028 becomes #xA *)
Fixpoint pair11_to_lf (s : str) : str :=
  match s with
  | c :: r =>
      match r with
      | d :: r' => if (c =? 13) && ((d =? 10) || (d =? 0x85)) then 10 :: pair11_to_lf r' else c :: pair11_to_lf r
      | [] => [c]
      end
  | [] => []
  end.
Definition is_eol11_single (c : N) : bool := (c =? 13) || ((c =? 0x85) || (c =? 0x2028)).
Definition eol11_spec (s : str) : str := map (fun c => if is_eol11_single c then 10 else c) (pair11_to_lf s).
(* the reader of an XML 1.1 entity: the XML (text) declaration is read in XML 1.0 mode (fNEL is switched on by
   setXMLVersion after the declaration has been scanned), the rest in XML 1.1 mode *)
Definition eol_doc11 (decl rest : str) : str := eol_norm decl ++ eol_norm11 rest.
Definition no_nel (s : str) : bool := forallb (fun c => negb ((c =? 0x85) || (c =? 0x2028))) s.

(* ---- the attribute list of a start tag with DTD defaulting (IGXMLScanner::scanStartTag / buildAttList,
        DGXMLScanner::buildAttList): first the attributes written in the tag, each with specified = true, then - in
        declaration order - every declared attribute with a default (#FIXED or plain) that was not written, with its
        default value and specified = false.  The XMLAttr objects come from a pool that is reused from element to
        element and from parse to parse; the flag is set on every (re)use. *)
Definition att := (str * str)%type.
Definition has_name (n : str) (l : list att) : bool := existsb (fun a => str_eqb n (fst a)) l.
Definition att_list (literal defaults : list att) : list (att * bool) :=
  map (fun a => (a, true)) literal ++
  map (fun d => (d, false)) (filter (fun d => negb (has_name (fst d) literal)) defaults).

(* ---- the position the Locator / an error reports (ReaderMgr::getLastExtEntityInfo -> getLastExtEntity): the
        reader stack from the top, each entry (external?, text consumed so far); the position is the one of the
        nearest enclosing EXTERNAL entity (the bottom entry is the document entity) *)
Fixpoint last_ext (stk : list (bool * str)) : str :=
  match stk with
  | [] => []
  | (ext, consumed) :: r => if ext then consumed else match r with [] => consumed | _ => last_ext r end
  end.
Definition locator (v11 : bool) (stk : list (bool * str)) : N * N :=
  (line_after v11 (last_ext stk), col_after v11 (last_ext stk)).
