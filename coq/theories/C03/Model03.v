(** C03 -- models and specifications of the normalisation rules: end-of-line handling (XML 1.0 section 2.11;
    code: XMLReader::getNextChar/peekNextChar/getSpaces/skipSpaces + handleEOL; model = Model02.eol_norm, which
    the C02 scanner model applies to its input) and attribute-value normalisation (section 3.3.3; code:
    IGXMLScanner::basicAttrValueScan producing a raw value in which a character that came from a character
    reference is preceded by the marker 0xFFFF, then IGXMLScanner::normalizeAttValue).  No proofs here. *)
From XV Require Import Base.XDefs C02.Model02.
Local Open Scope N_scope.

(* ---- section 2.11, written as the recommendation words it: first every two-character sequence #xD #xA becomes
        #xA, then every remaining #xD becomes #xA *)
Fixpoint crlf_to_lf (s : str) : str :=
  match s with
  | c :: r =>
      match r with
      | d :: r' => if (c =? 13) && (d =? 10) then 10 :: crlf_to_lf r' else c :: crlf_to_lf r
      | [] => [c]
      end
  | [] => []
  end.
Definition eol_spec (s : str) : str := map (fun c => if c =? 13 then 10 else c) (crlf_to_lf s).

(* ---- raw attribute value: (escaped, char); escaped = the character came from a character reference *)
Definition raw := list (bool * N).
(* section 3.3.3, first pass: a referenced character is appended as it is; a literal white-space character
   (#x20, #xD, #xA, #x9) is appended as #x20; any other character is appended *)
Definition step1 (p : bool * N) : N := if fst p then snd p else if is_ws (snd p) then 32 else snd p.
Definition attnorm_spec_cdata (v : raw) : str := map step1 v.
(* second pass for non-CDATA types: discard leading and trailing #x20, replace runs of #x20 by one #x20.
   Written as a two-state pass over the first-pass result; [is_sp] is the test for the characters that are
   collapsed: the recommendation collapses #x20 only *)
Fixpoint collapse (is_sp : N -> bool) (in_ws first_seen : bool) (l : str) : str :=
  match l with
  | [] => []
  | c :: r =>
      if is_sp c then collapse is_sp true first_seen r
      else (if in_ws && first_seen then [32] else []) ++ c :: collapse is_sp false true r
  end.
Definition attnorm_spec_tok (v : raw) : str := collapse (fun c => c =? 32) false false (map step1 v).

(* ---- IGXMLScanner::normalizeAttValue, CDATA branch *)
Definition attnorm_cdata (v : raw) : str :=
  map (fun p : bool * N => if fst p then snd p else if (snd p =? 9) || (snd p =? 10) || (snd p =? 13) then 32 else snd p) v.
(* ---- IGXMLScanner::normalizeAttValue, tokenised branch (namespace-aware start-tag path): the marker is skipped
        and THEN isWhitespace(nextCh) is tested, so an escaped TAB/LF/CR is collapsed like a literal blank *)
Fixpoint attnorm_tok (in_ws first_seen : bool) (v : raw) : str :=
  match v with
  | [] => []
  | p :: r =>
      if is_ws (snd p) then attnorm_tok true first_seen r
      else (if in_ws && first_seen then [32] else []) ++ snd p :: attnorm_tok false true r
  end.
(* ---- the non-namespace start-tag path (IGXMLScanner::scanAttValue with an attDef): white space is collapsed
        inline; a character counts as blank when it is #x20 or an unescaped white-space character *)
Fixpoint attnorm_tok_inline (in_ws first_seen : bool) (v : raw) : str :=
  match v with
  | [] => []
  | p :: r =>
      if (snd p =? 32) || (negb (fst p) && is_ws (snd p)) then attnorm_tok_inline true first_seen r
      else (if in_ws && first_seen then [32] else []) ++ snd p :: attnorm_tok_inline false true r
  end.

(* ---- XML 1.1 end-of-line handling (section 2.11 of XML 1.1; code: handleEOL with fNEL = true): #xD #xA, #xD #x85,
        #x85, #x2028 and any other #xD become #xA *)
Fixpoint eol_norm11 (l : str) : str :=
  match l with
  | c :: r =>
      if c =? 13 then
        10 :: match r with
              | d :: r' => if (d =? 10) || (d =? 0x85) then eol_norm11 r' else eol_norm11 r
              | [] => []
              end
      else if (c =? 0x85) || (c =? 0x2028) then 10 :: eol_norm11 r
      else c :: eol_norm11 r
  | [] => []
  end.

(* ---- source positions (Locator): after the reader has consumed [prefix] of the entity, the line number is
        1 + the number of normalised line ends in it and the column is 1 + the number of characters since the
        last one *)
Definition count_lf (s : str) : N := N.of_nat (length (filter (fun c => c =? 10) s)).
Fixpoint since_lf (acc : N) (s : str) : N :=
  match s with [] => acc | c :: r => since_lf (if c =? 10 then 0 else acc + 1) r end.
Definition line_after (v11 : bool) (prefix : str) : N :=
  1 + count_lf (if v11 then eol_norm11 prefix else eol_norm prefix).
Definition col_after (v11 : bool) (prefix : str) : N :=
  1 + since_lf 0 (if v11 then eol_norm11 prefix else eol_norm prefix).
