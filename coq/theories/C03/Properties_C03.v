(** Property C03 -- the content reported equals the document's infoset; all APIs / scanners agree.
    Theorems about the normalisation rules (Model03.v) and the corollary of C02's accept theorem. *)
From Coq Require Import ZArith ZifyBool ZifyN ZifyNat Lia.
From XV Require Import Base.XDefs C02.Model02 C02.Spec02 C02.Proofs02a C02.Proofs02e C02.Properties_C02 C03.Model03 C03.Proofs03a.
Local Open Scope N_scope.

(** end-of-line handling: the reader's normalisation is the function of XML 1.0 section 2.11, for every input *)
Lemma list_ind2 : forall (P : str -> Prop), P [] -> (forall c, P [c]) ->
  (forall c d r, P r -> P (d :: r) -> P (c :: d :: r)) -> forall s, P s.
Proof.
  intros P H0 H1 H2. assert (A : forall s, P s /\ forall c, P (c :: s)).
  { induction s as [|d r [IH1 IH2]]; [split; [exact H0|exact H1]|]. split; [apply IH2|]. intros c. apply H2; [exact IH1|apply IH2]. }
  intros s. apply A.
Qed.
Lemma eol_norm_cons2 : forall c d r, eol_norm (c :: d :: r) =
  if c =? 13 then 10 :: (if d =? 10 then eol_norm r else eol_norm (d :: r)) else c :: eol_norm (d :: r).
Proof. reflexivity. Qed.
Lemma crlf_cons2 : forall c d r, crlf_to_lf (c :: d :: r) =
  if (c =? 13) && (d =? 10) then 10 :: crlf_to_lf r else c :: crlf_to_lf (d :: r).
Proof. reflexivity. Qed.
Lemma eol_eq : forall s, eol_norm s = eol_spec s.
Proof.
  apply list_ind2; [reflexivity| |].
  - intros c. unfold eol_spec. cbn [eol_norm crlf_to_lf map]. unfold c_cr, c_lf. destruct (c =? 13); reflexivity.
  - intros c d r IHr IHd. unfold eol_spec in *. rewrite eol_norm_cons2, crlf_cons2. destruct (c =? 13) eqn:E.
    + cbn [andb]. destruct (d =? 10) eqn:E2.
      * cbn [map N.eqb Pos.eqb]. rewrite IHr. reflexivity.
      * cbn [map]. rewrite E. rewrite IHd. reflexivity.
    + cbn [andb map]. rewrite E. rewrite IHd. reflexivity.
Qed.
Theorem T03_eol : forall s, eol_norm s = eol_spec s.
Proof. exact eol_eq. Qed.
Print Assumptions T03_eol.

Lemma eol_no_cr : forall s, no_cr (eol_norm s) = true.
Proof.
  apply list_ind2; [reflexivity| |].
  - intros c. cbn [eol_norm]. destruct (c =? c_cr) eqn:E; cbn [no_cr forallb]; [reflexivity|rewrite E; reflexivity].
  - intros c d r IHr IHd. rewrite eol_norm_cons2. destruct (c =? 13) eqn:E.
    + destruct (d =? 10); cbn [no_cr forallb]; [exact IHr|exact IHd].
    + cbn [no_cr forallb]. unfold c_cr. rewrite E. cbn [negb andb]. exact IHd.
Qed.
Lemma eol_id_no_cr : forall s, no_cr s = true -> eol_norm s = s.
Proof. induction s as [|c r IH]; intros H; [reflexivity|]. cbn [no_cr forallb] in H. apply andb_true_iff in H.
  destruct H as [H1 H2]. cbn [eol_norm]. destruct (c =? c_cr); [discriminate|]. rewrite (IH H2). reflexivity. Qed.
(** no #xD survives, and normalising twice changes nothing *)
Theorem T03_eol_no_cr : forall s, ~ In 13 (eol_norm s).
Proof. intros s H. pose proof (eol_no_cr s) as N. unfold no_cr in N. rewrite forallb_forall in N. specialize (N 13 H). discriminate. Qed.
Print Assumptions T03_eol_no_cr.
Theorem T03_eol_idempotent : forall s, eol_norm (eol_norm s) = eol_norm s.
Proof. intros s. apply eol_id_no_cr. apply eol_no_cr. Qed.
Print Assumptions T03_eol_idempotent.

(** source line numbers: the line count is additive over any split of the text that does not separate a #xD from
    the #xA that belongs to it - so the line reported at an event position only depends on the text before it *)
Lemma eol_app : forall a b, (last a 0 <> 13 \/ hd 0 b <> 10) -> eol_norm (a ++ b) = eol_norm a ++ eol_norm b.
Proof.
  apply (list_ind2 (fun a => forall b, (last a 0 <> 13 \/ hd 0 b <> 10) -> eol_norm (a ++ b) = eol_norm a ++ eol_norm b)).
  - intros b _. reflexivity.
  - intros c b H. cbn [app last] in *. cbn [eol_norm]. unfold c_cr, c_lf. destruct (c =? 13) eqn:E.
    + apply N.eqb_eq in E. subst c. destruct H as [H|H]; [contradiction|]. destruct b as [|d r]; [reflexivity|].
      cbn [hd] in H. replace (d =? 10) with false by (symmetry; apply N.eqb_neq; exact H). reflexivity.
    + reflexivity.
  - intros c d r IHr IHd b H. change ((c :: d :: r) ++ b) with (c :: d :: (r ++ b)). rewrite !eol_norm_cons2.
    assert (Hd : last (d :: r) 0 <> 13 \/ hd 0 b <> 10) by (destruct H as [H|H]; [left; exact H|right; exact H]).
    assert (Hr : last r 0 <> 13 \/ hd 0 b <> 10 \/ r = []).
    { destruct H as [H|H]; [|tauto]. destruct r; [tauto|left; exact H]. }
    specialize (IHd b Hd). change (d :: r ++ b) with ((d :: r) ++ b). rewrite IHd.
    destruct (c =? 13); [|reflexivity]. destruct (d =? 10) eqn:E2; [|reflexivity].
    destruct r as [|e r'].
    + cbn [app eol_norm]. reflexivity.
    + rewrite (IHr b); [reflexivity|]. destruct Hr as [Hr|[Hr|Hr]]; [left; exact Hr|right; exact Hr|discriminate].
Qed.
Lemma count_lf_app : forall a b, count_lf (a ++ b) = count_lf a + count_lf b.
Proof. intros a b. unfold count_lf. rewrite filter_app, app_length. lia. Qed.
Theorem T03_line_additive : forall a b, (last a 0 <> 13 \/ hd 0 b <> 10) ->
  line_after false (a ++ b) = line_after false a + count_lf (eol_norm b).
Proof. intros a b H. unfold line_after. rewrite (eol_app a b H), count_lf_app. lia. Qed.
Print Assumptions T03_line_additive.

(** attribute-value normalisation, CDATA attributes: the code computes section 3.3.3 *)
Theorem T03_attnorm_cdata : forall v, attnorm_cdata v = attnorm_spec_cdata v.
Proof.
  induction v as [|[e c] v IH]; [reflexivity|]. unfold attnorm_cdata, attnorm_spec_cdata in *. cbn [map]. rewrite IH.
  f_equal. unfold step1. cbn [fst snd]. destruct e; [reflexivity|].
  destruct (is_ws c) eqn:W.
  - apply is_ws_spec in W. destruct W as [X|[X|[X|X]]]; subst c; reflexivity.
  - replace ((c =? 9) || (c =? 10) || (c =? 13)) with false; [reflexivity|].
    symmetry. destruct ((c =? 9) || (c =? 10) || (c =? 13)) eqn:X; [|reflexivity].
    assert (is_ws c = true) by (apply is_ws_spec; lia). congruence.
Qed.
Print Assumptions T03_attnorm_cdata.

(** tokenised attributes *)
Definition no_escaped_blank (v : raw) : bool := forallb (fun p => negb (fst p && is_ws (snd p) && negb (snd p =? 32))) v.
(** under the guard that excludes exactly the defect class (no TAB/LF/CR written as a character reference), the
    namespace-aware path (normalizeAttValue) computes section 3.3.3 as well *)
Theorem T03_attnorm_tokenized_guarded : forall v a b, no_escaped_blank v = true ->
  attnorm_tok a b v = collapse (fun c => c =? 32) a b (map step1 v).
Proof.
  induction v as [|[e c] v IH]; intros a b G; [reflexivity|]. cbn [no_escaped_blank forallb fst snd] in G.
  apply andb_true_iff in G. destruct G as [G1 G]. cbn [attnorm_tok map collapse snd]. unfold step1 at 1 2 3. cbn [fst snd].
  destruct (is_ws c) eqn:W.
  - assert (S32 : ((if e then c else 32) =? 32) = true).
    { destruct e; [|reflexivity]. cbn [andb] in G1. destruct (c =? 32); [reflexivity|discriminate]. }
    rewrite S32. apply IH. exact G.
  - assert (S32 : ((if e then c else c) =? 32) = false).
    { destruct e; apply N.eqb_neq; intro X; subst c; vm_compute in W; discriminate. }
    rewrite S32. rewrite (IH false true G). destruct e; reflexivity.
Qed.
Print Assumptions T03_attnorm_tokenized_guarded.
(** the inline (non-namespace) start-tag path computes section 3.3.3 for every raw value *)
Theorem T03_attnorm_tokenized_inline : forall v a b,
  attnorm_tok_inline a b v = collapse (fun c => c =? 32) a b (map step1 v).
Proof.
  induction v as [|[e c] v IH]; intros a b; [reflexivity|]. cbn [attnorm_tok_inline map collapse fst snd].
  assert (T : ((c =? 32) || (negb e && is_ws c)) = (step1 (e, c) =? 32)).
  { unfold step1. cbn [fst snd]. destruct e; cbn [negb andb]; [rewrite orb_false_r; reflexivity|].
    destruct (is_ws c) eqn:W; [rewrite orb_true_r; reflexivity|]. rewrite orb_false_r. reflexivity. }
  rewrite T. destruct (step1 (e, c) =? 32) eqn:S32; [apply IH|].
  rewrite (IH false true). assert (C : step1 (e, c) = c).
  { unfold step1 in *. cbn [fst snd] in *. destruct e; [reflexivity|]. destruct (is_ws c); [discriminate|reflexivity]. }
  rewrite C. reflexivity.
Qed.
Print Assumptions T03_attnorm_tokenized_inline.

(** known finding F3: without the guard the namespace-aware path does NOT compute section 3.3.3, and the two
    start-tag paths disagree with each other: value  x&#9;&#9;y  of an NMTOKENS attribute *)
Definition f3_value : raw := [(false, 120); (true, 9); (true, 9); (false, 121)].
Theorem T03_attnorm_tokenized_refuted :
  attnorm_tok false false f3_value = [120; 32; 121] /\ attnorm_spec_tok f3_value = [120; 9; 9; 121] /\
  attnorm_tok_inline false false f3_value = [120; 9; 9; 121].
Proof. vm_compute. repeat split; reflexivity. Qed.
Print Assumptions T03_attnorm_tokenized_refuted.

(** the content delivered is a function of the document's content alone: two lexical documents with the same
    content ([events]) are reported identically, whatever their quotes, references, white space, CDATA/empty-tag
    forms and line ends (corollary of T02_accept_partial, with its restrictions) *)
Theorem T03_content_partial : forall nsf d1 d2 ch1 ch2,
  events d1 = events d2 ->
  wf_ldoc nsf d1 = true -> ld_decl d1 = None -> forallb misc_simple (ld_prolog d1) = true ->
  forallb misc_simple (ld_epilog d1) = true -> no_cr (render1 d1) = true -> eol_choices_ok (render1 d1) ch1 = true ->
  wf_ldoc nsf d2 = true -> ld_decl d2 = None -> forallb misc_simple (ld_prolog d2) = true ->
  forallb misc_simple (ld_epilog d2) = true -> no_cr (render1 d2) = true -> eol_choices_ok (render1 d2) ch2 = true ->
  xscan {| ns := nsf |} (render d1 ch1) = xscan {| ns := nsf |} (render d2 ch2).
Proof.
  intros nsf d1 d2 ch1 ch2 E A1 A2 A3 A4 A5 A6 B1 B2 B3 B4 B5 B6.
  rewrite (T02_accept_partial nsf d1 ch1 A1 A2 A3 A4 A5 A6), (T02_accept_partial nsf d2 ch2 B1 B2 B3 B4 B5 B6), E. reflexivity.
Qed.
Print Assumptions T03_content_partial.

Example T03_nonvacuous_eol : eol_norm [97; 13; 10; 98; 13; 99; 10; 13; 13; 10] = [97; 10; 98; 10; 99; 10; 10; 10].
Proof. vm_compute. reflexivity. Qed.
Example T03_nonvacuous_guard : no_escaped_blank [(false, 32); (false, 9); (true, 32); (true, 65); (false, 66)] = true /\
  attnorm_tok false false [(false, 32); (false, 9); (true, 32); (true, 65); (false, 32); (false, 66); (false, 10)] = [65; 32; 66].
Proof. vm_compute. split; reflexivity. Qed.

(** XML 1.1 end-of-line handling (handleEOL with fNEL on): the reader's normalisation is the function of XML 1.1
    section 2.11 for every input; none of #xD, #x85, #x2028 survives; idempotent *)
Theorem T03_eol11 : forall s, eol_norm11 s = eol11_spec s.
Proof. exact eol11_eq. Qed.
Print Assumptions T03_eol11.
Theorem T03_eol11_clean : forall s c, is_eol11_single c = true -> ~ In c (eol_norm11 s).
Proof. exact (fun s c => clean11_not_in (eol_norm11 s) c (eol11_clean s)). Qed.
Print Assumptions T03_eol11_clean.
Theorem T03_eol11_idempotent : forall s, eol_norm11 (eol_norm11 s) = eol_norm11 s.
Proof. exact (fun s => eol11_id_clean (eol_norm11 s) (eol11_clean s)). Qed.
Print Assumptions T03_eol11_idempotent.
(** a text without NEL / LSEP is normalised identically by both versions *)
Theorem T03_eol11_conservative : forall s, no_nel s = true -> eol_norm s = eol_norm11 s.
Proof. exact eol_10_is_11. Qed.
Print Assumptions T03_eol11_conservative.
(** interaction with the XML declaration: the declaration is read in XML 1.0 mode and the rest in XML 1.1 mode;
    for a declaration without NEL / LSEP (XML 1.1 section 2.11 forbids them there) that does not end in #xD the
    result is the XML 1.1 normalisation of the whole entity *)
Theorem T03_eol11_decl : forall decl rest, no_nel decl = true -> last decl 0 <> 13 ->
  eol_doc11 decl rest = eol_norm11 (decl ++ rest).
Proof. exact eol_doc11_eq. Qed.
Print Assumptions T03_eol11_decl.
Example T03_nonvacuous_eol11 :
  eol_norm11 [97; 13; 0x85; 98; 0x85; 99; 0x2028; 13; 13; 10; 13] = [97; 10; 98; 10; 99; 10; 10; 10; 10] /\
  no_nel [60; 63; 120; 109; 108; 32; 10; 63; 62] = true /\
  eol_doc11 [60; 63; 120; 109; 108; 13; 10; 63; 62] [13; 0x85; 0x85] = [60; 63; 120; 109; 108; 10; 63; 62; 10; 10].
Proof. vm_compute. repeat split; reflexivity. Qed.

(** line and column (Locator) in both versions: over every split of the text consumed that does not separate #xD
    from the #xA (#x85 in XML 1.1) belonging to it, the line is additive; the column advances by the number of
    UTF-16 units of a continuation without line ends (TAB = 1, supplementary character = 2) and otherwise depends on
    the continuation alone; right after any line-end form the column is 1 and the line one more *)
Theorem T03_line_additive_v : forall v a b, split_ok v a b ->
  line_after v (a ++ b) = line_after v a + count_lf (norm_of v b).
Proof. exact line_additive. Qed.
Print Assumptions T03_line_additive_v.
Theorem T03_col_additive : forall v a b, split_ok v a b ->
  col_after v (a ++ b) = if count_lf (norm_of v b) =? 0 then col_after v a + N.of_nat (length (norm_of v b))
                         else col_after v b.
Proof. exact col_additive. Qed.
Print Assumptions T03_col_additive.
Theorem T03_col_units : forall v a b, plain v b = true -> col_after v (a ++ b) = col_after v a + N.of_nat (length b).
Proof. exact col_plain. Qed.
Print Assumptions T03_col_units.
Theorem T03_col_after_break : forall v a e, In e (breaks v) -> last a 0 <> 13 ->
  col_after v (a ++ e) = 1 /\ line_after v (a ++ e) = line_after v a + 1.
Proof. exact after_break. Qed.
Print Assumptions T03_col_after_break.
Example T03_nonvacuous_col :
  plain true [9; 0xD801; 0xDC00; 120] = true /\ col_after true ([97; 0x2028; 98] ++ [9; 0xD801; 0xDC00; 120]) = 6 /\
  col_after false [97; 13; 10; 9; 98] = 3 /\ line_after true [97; 13; 0x85; 0x85; 98] = 3.
Proof. vm_compute. repeat split; reflexivity. Qed.
Example T03_nonvacuous_split : split_ok true [97; 13] [98] /\ In [13; 0x85] (breaks true).
Proof. split; [right; split; [discriminate|intros _; discriminate]|cbn; tauto]. Qed.

(** DTD defaulting and the [specified] property: every attribute written in the tag is delivered, in document order,
    with specified = true; an attribute delivered with specified = false is a declared default whose name is not
    written in the tag; the flag does not depend on anything else (in particular not on the history of the pooled
    XMLAttr objects: the model sets it on every use - the correspondence runs element sequences and consecutive parses
    on one parser object against it) *)
Theorem T03_specified_literal : forall lit defs a, In a lit -> In (a, true) (att_list lit defs).
Proof. exact att_list_literal. Qed.
Print Assumptions T03_specified_literal.
Theorem T03_specified_flag : forall lit defs a f, In (a, f) (att_list lit defs) ->
  if f then In a lit else In a defs /\ has_name (fst a) lit = false.
Proof. exact att_list_flag. Qed.
Print Assumptions T03_specified_flag.
Theorem T03_specified_order : forall lit defs, map fst (firstn (length lit) (att_list lit defs)) = lit.
Proof. exact att_list_order. Qed.
Print Assumptions T03_specified_order.
(** Locator / error position inside nested entities: while any number of INTERNAL entities are open on top of an
    external entity, the position reported is the one reached in that external entity (just past the reference),
    whatever lies below it on the reader stack *)
Theorem T03_locator_nearest_external : forall v ints c below, forallb (fun e => negb (fst e)) ints = true ->
  locator v (ints ++ (true, c) :: below) = (line_after v c, col_after v c).
Proof. exact (fun v ints c below H => f_equal (fun s => (line_after v s, col_after v s)) (last_ext_internal ints c below H)). Qed.
Print Assumptions T03_locator_nearest_external.
Example T03_nonvacuous_specified :
  att_list [([100], [108]); ([120], [49])] [([100], [118]); ([102], [119])] =
    [(([100], [108]), true); (([120], [49]), true); (([102], [119]), false)] /\
  locator false [(false, [65; 10; 10]); (false, [66]); (true, [108; 10; 38; 105; 59]); (true, [10; 10; 10; 10])] = (2, 4).
Proof. vm_compute. split; reflexivity. Qed.
