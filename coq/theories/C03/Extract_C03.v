(** Extraction of the C03 normalisation models and specifications (ExtrOcamlBasic only). *)
From Coq Require Import Extraction ExtrOcamlBasic.
From XV Require Import C02.Model02 C03.Model03.
Extraction Language OCaml.
Extraction "../ocaml/C03/gen_c03.ml" eol_norm eol_spec attnorm_cdata attnorm_spec_cdata attnorm_tok attnorm_tok_inline attnorm_spec_tok length eol_norm11 line_after col_after eol11_spec eol_doc11 att_list locator.
