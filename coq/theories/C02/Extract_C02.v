(** Extraction of the executable C02/C03 models and of the specification functions used as oracle / generator
    (render, events, wf_ldoc).  Only ExtrOcamlBasic: N/positive/nat stay the extracted inductive types. *)
From Coq Require Import Extraction ExtrOcamlBasic.
From XV Require Import C02.Model02 C02.Spec02 C02.Model02e.
Extraction Language OCaml.
Extraction "../ocaml/C02/gen_c02.ml"
  xscan scan_doc escan_doc eol_norm code_num all_ecodes
  render render1 events wf_ldoc eol_choices_ok eol_expand u16 enc16
  is_xmlchar is_firstname is_namechar is_ws name_ok.
