(** C02 proofs, part f: the entity layer (Model02e) is a conservative extension of the DOCTYPE-free model: with no
    declared entity its loops are Model02's. *)
From Coq Require Import ZArith Lia.
From XV Require Import Base.XDefs Gen.GenXMLChar Gen.GenErrs C02.Model02 C02.Model02e.
Local Open Scope N_scope.

Lemma declared_ref_nil : forall r, declared_ref [] r = None.
Proof. intros r. unfold declared_ref. destruct (get_name r) as [[n [|d rest]]|]; try reflexivity.
  destruct (d =? c_semi); [|reflexivity]. destruct (predefined n); reflexivity. Qed.

Lemma eattval_nil : forall fuel q sur l, eattval fuel [] q sur l = scan_attval fuel q sur l.
Proof.
  induction fuel as [|f IH]; intros q sur l; [reflexivity|]. destruct l as [|c r]; [reflexivity|].
  cbn [eattval scan_attval]. destruct (c =? 0); [reflexivity|]. destruct (c =? q); [reflexivity|].
  destruct (c =? c_amp).
  - rewrite declared_ref_nil. destruct (scan_entref r) as [[c1 c2] r'|s]; [rewrite IH; reflexivity|reflexivity].
  - destruct (sur_check2 EC_InvalidCharacterInAttrValue sur c); [|reflexivity]. destruct (c =? c_lt); [reflexivity|].
    rewrite IH. reflexivity.
Qed.
Lemma escan_chardata_nil : forall fuel st sur l, escan_chardata fuel [] st sur l = scan_chardata fuel st sur l.
Proof.
  induction fuel as [|f IH]; intros st sur l; [reflexivity|]. destruct l as [|c r]; [reflexivity|].
  cbn [escan_chardata scan_chardata]. destruct (c =? c_lt); [reflexivity|]. destruct (c =? c_amp).
  - rewrite declared_ref_nil. destruct (scan_entref r) as [[c1 c2] r'|s]; [rewrite IH; reflexivity|reflexivity].
  - destruct (sur_check2 EC_InvalidCharacter sur c); [|reflexivity].
    destruct (c =? c_rbrack); [rewrite IH; reflexivity|]. destruct (c =? c_gt); [destruct st; try reflexivity; rewrite IH; reflexivity|].
    rewrite IH. reflexivity.
Qed.
Lemma escan_attrs_nil : forall fuel nsf acc l, escan_attrs fuel nsf [] acc l = scan_attrs fuel nsf acc l.
Proof.
  induction fuel as [|f IH]; intros nsf acc l; [reflexivity|]. cbn [escan_attrs scan_attrs].
  destruct (if negb (is_nil acc) && negb ((peek l =? c_slash) || (peek l =? c_gt))
            then if starts_ws l then inl (skip_ws l) else inr EC_ExpectedWhitespace else inl l) as [l1|e]; [|reflexivity].
  destruct (negb (is_special (peek l1))); [|reflexivity].
  destruct (get_name l1) as [[an l2]|]; [|reflexivity]. destruct (ns_unsupported nsf an); [reflexivity|].
  destruct (scan_eq l2) as [l3|]; [|reflexivity]. destruct (existsb (str_eqb an) (map fst acc)); [reflexivity|].
  destruct l3 as [|q l4]; [reflexivity|]. destruct ((q =? c_dq) || (q =? c_sq)); [|reflexivity].
  cbn [total_len fold_right]. rewrite Nat.add_0_r. rewrite eattval_nil.
  destruct (scan_attval (S (length l4)) q false l4); [rewrite IH; reflexivity|reflexivity].
Qed.
Lemma escan_starttag_nil : forall nsf l, escan_starttag nsf [] l = scan_starttag nsf l.
Proof. intros nsf l. unfold escan_starttag, scan_starttag. destruct (get_name l) as [[name l1]|]; [|reflexivity].
  destruct (ns_unsupported nsf name); [reflexivity|]. rewrite escan_attrs_nil. reflexivity. Qed.

Lemma econtent_nil : forall fuel nsf stack l, econtent fuel nsf [] [] false stack l = content fuel nsf stack l.
Proof.
  induction fuel as [|f IH]; intros nsf stack l; [reflexivity|]. destruct l as [|c r].
  - cbn [econtent content]. destruct (is_nil stack); reflexivity.
  - cbn [econtent content]. cbn [negb andb]. rewrite !andb_true_r.
    destruct (c =? 0); [destruct (is_nil stack); reflexivity|].
    destruct (negb (c =? c_lt)).
    + assert (D : (if c =? c_amp then declared_ref [] r else None) = None) by (destruct (c =? c_amp); [apply declared_ref_nil|reflexivity]).
      rewrite D. rewrite escan_chardata_nil. destruct (scan_chardata (S (length (c :: r))) CW false (c :: r)); [rewrite IH; reflexivity|reflexivity].
    + destruct (peek r =? c_slash).
      * destruct stack as [|top stack']; [reflexivity|]. destruct (scan_endtag top (tl r)); [|reflexivity].
        destruct (is_nil stack'); [reflexivity|rewrite IH; reflexivity].
      * destruct (peek r =? c_bang).
        -- destruct (strip_prefix s_cdata (tl r)) as [r2|].
           ++ destruct (is_nil stack); [reflexivity|]. destruct (scan_cdsection r2); [rewrite IH; reflexivity|reflexivity].
           ++ destruct (strip_prefix s_dashdash (tl r)) as [r2|]; [|reflexivity].
              destruct (scan_comment CmText false r2); [rewrite IH; reflexivity|reflexivity].
        -- destruct (peek r =? c_quest).
           ++ destruct (scan_pi nsf (tl r)); [rewrite IH; reflexivity|reflexivity].
           ++ rewrite escan_starttag_nil. destruct (scan_starttag nsf r) as [[[name atts] empty] rest|]; [|reflexivity].
              destruct empty; [destruct (is_nil stack); [reflexivity|rewrite IH; reflexivity]|rewrite IH; reflexivity].
Qed.
