(** C02 proofs, part e: the content loop over a balanced item sequence, Misc before/after the root, the document,
    and line-end expansion. *)
From Coq Require Import ZArith ZifyBool ZifyN ZifyNat Lia.
From XV Require Import Base.XDefs Gen.GenXMLChar Gen.GenErrs C02.Model02 C02.Spec02 C02.Proofs02a C02.Proofs02b C02.Proofs02c
  C02.Proofs02d.
Local Open Scope N_scope.
Ltac Zify.zify_post_hook ::= Z.div_mod_to_equations.

Lemma name_head2 : forall n, name_ok n = true -> exists c r, n = c :: r /\
  c <> 0 /\ c <> c_lt /\ c <> c_slash /\ c <> c_bang /\ c <> c_quest.
Proof.
  intros n H. destruct n as [|c r]; [discriminate|]. exists c, r. split; [reflexivity|]. cbn [name_ok] in H.
  destruct (is_hi_name c) eqn:Eh.
  - unfold is_hi_name in Eh. unfold c_lt, c_slash, c_bang, c_quest. lia.
  - apply andb_true_iff in H. destruct H as [Hc _].
    repeat split; intro X; subst c; vm_compute in Hc; discriminate.
Qed.

Lemma text_head : forall t, forallb (lchar_ok lit_ok_text) t = true -> t <> [] ->
  exists c r, render_text t = c :: r /\ c <> 0 /\ c <> c_lt /\ text_val t <> [].
Proof.
  intros t Hv Hn. destruct t as [|[c k] t]; [contradiction|]. cbn [forallb] in Hv. apply andb_true_iff in Hv.
  destruct Hv as [Hc _]. destruct (lchar_ok_inv _ c k Hc) as [Hcp [Href Hlit]].
  rewrite render_text_cons, text_val_cons.
  assert (NV : u16 c ++ text_val t <> []).
  { pose proof (units_of_u16 c Hcp) as U. inversion U; discriminate. }
  destruct k as [|ds|ds|].
  - specialize (Hlit eq_refl). unfold lit_ok_text in Hlit. unfold render_char. cbn [fst snd].
    pose proof (units_of_u16 c Hcp) as U. inversion U as [A B C D E Eq|h l Hh Hl Eq].
    + exists c, (render_text t). repeat split; try assumption; try (cbn [app]; discriminate). intro X. subst c. discriminate.
    + exists h, (l :: render_text t). repeat split; try assumption; try (cbn [app]; discriminate); unfold c_lt; lia.
  - destruct (entref_ok c (RDec ds) [] Hcp Href) as [tl [Et _]]; [discriminate|]. rewrite Et.
    exists c_amp, (tl ++ render_text t). repeat split; try assumption; discriminate.
  - destruct (entref_ok c (RHex ds) [] Hcp Href) as [tl [Et _]]; [discriminate|]. rewrite Et.
    exists c_amp, (tl ++ render_text t). repeat split; try assumption; discriminate.
  - destruct (entref_ok c REnt [] Hcp Href) as [tl [Et _]]; [discriminate|]. rewrite Et.
    exists c_amp, (tl ++ render_text t). repeat split; try assumption; discriminate.
Qed.

Lemma render_stag_eq : forall n atts ws empty rest,
  render_stag n atts ws (close_of empty) ++ rest = c_lt :: n ++ flat_map render_attr atts ++ ws ++ close_of empty ++ rest.
Proof. intros. unfold render_stag. cbn [app]. rewrite <- !app_assoc. reflexivity. Qed.

Lemma item_starts_lt : forall i X, is_text i = false -> exists Y, render_item i ++ X = c_lt :: Y.
Proof.
  intros i X H. destruct i as [n atts ws|n atts ws sc ws2|n ws|t|s|s|t ws d]; try discriminate; cbn [render_item].
  - eexists. unfold render_stag. cbn [app]. reflexivity.
  - destruct sc; eexists; unfold render_stag; cbn [app]; reflexivity.
  - eexists. reflexivity.
  - eexists. reflexivity.
  - eexists. reflexivity.
  - eexists. reflexivity.
Qed.
Lemma render_stag_len : forall n atts ws cl, (1 <= length (render_stag n atts ws cl))%nat.
Proof. intros. unfold render_stag. cbn [app length]. lia. Qed.

Lemma emit_eq : forall evs k, emit evs k = (evs ++ fst k, snd k).
Proof. reflexivity. Qed.

Lemma content_ok : forall nsf items stack fuel rest,
  forallb (item_ok nsf) items = true -> body_ok stack items = true ->
  (length (flat_map render_item items) < fuel)%nat ->
  content fuel nsf stack (flat_map render_item items ++ rest) = (flat_map item_events items, SOk tt rest).
Proof.
  intros nsf. induction items as [|i items IH]; intros stack fuel rest Hok Hb Hf; [discriminate|].
  cbn [forallb] in Hok. apply andb_true_iff in Hok. destruct Hok as [Hi Hok].
  cbn [flat_map] in *. rewrite app_length in Hf. rewrite <- app_assoc.
  destruct i as [n atts ws|n atts ws sc ws2|n ws|t|s|s|t ws d]; cbn [body_ok] in Hb; cbn [item_ok] in Hi; cbn [item_events].
  - (* start tag *)
    rewrite !andb_true_iff in Hi. destruct Hi as [[[[Hn Hns] Ha] Hans] Hw].
    cbn [render_item] in *. change [c_gt] with (close_of false) in *. rewrite render_stag_eq.
    destruct fuel as [|f]; [inversion Hf|]. destruct (name_head2 n Hn) as [c [r [En [N0 [N1 [N2 [N3 N4]]]]]]].
    assert (PK : forall Z, peek (n ++ Z) = c) by (intros Z; rewrite En; reflexivity).
    cbn [content]. cbn [N.eqb c_lt Pos.eqb negb]. rewrite !PK.
    rewrite (eqb_false c c_slash N2), (eqb_false c c_bang N3), (eqb_false c c_quest N4).
    rewrite (scan_starttag_ok nsf n atts ws false _ Hn Hns Ha Hans Hw).
    rewrite emit_eq. rewrite (IH (n :: stack) f rest Hok Hb) by (pose proof (render_stag_len n atts ws (close_of false)); lia). reflexivity.
  - (* empty element *)
    rewrite !andb_true_iff in Hi. destruct Hi as [[[[[Hn Hns] Ha] Hans] Hw] Hw2].
    destruct (name_head2 n Hn) as [c [r [En [N0 [N1 [N2 [N3 N4]]]]]]].
    assert (PK : forall Z, peek (n ++ Z) = c) by (intros Z; rewrite En; reflexivity).
    destruct sc.
    + cbn [render_item] in *. change [c_slash; c_gt] with (close_of true) in *. rewrite render_stag_eq.
      destruct fuel as [|f]; [inversion Hf|].
      cbn [content]. cbn [N.eqb c_lt Pos.eqb negb]. rewrite !PK.
      rewrite (eqb_false c c_slash N2), (eqb_false c c_bang N3), (eqb_false c c_quest N4).
      rewrite (scan_starttag_ok nsf n atts ws true _ Hn Hns Ha Hans Hw).
      destruct stack as [|top st]; cbn [is_nil] in *.
      * destruct items; [|discriminate]. reflexivity.
      * rewrite emit_eq. rewrite (IH (top :: st) f rest Hok Hb) by (pose proof (render_stag_len n atts ws (close_of true)); lia). reflexivity.
    + cbn [render_item] in *. change [c_gt] with (close_of false) in *. rewrite <- app_assoc. rewrite render_stag_eq.
      rewrite app_length in Hf. unfold render_stag, s_etag in Hf. cbn [app length] in Hf.
      destruct fuel as [|[|f]]; [inversion Hf|lia|].
      cbn [content]. cbn [N.eqb c_lt Pos.eqb negb]. rewrite !PK.
      rewrite (eqb_false c c_slash N2), (eqb_false c c_bang N3), (eqb_false c c_quest N4).
      rewrite (scan_starttag_ok nsf n atts ws false _ Hn Hns Ha Hans Hw).
      rewrite emit_eq. unfold s_etag. rewrite <- !app_assoc. cbn [app].
      cbn [content]. cbn [N.eqb c_lt Pos.eqb negb peek c_slash tl].
      change (close_of false ++ flat_map render_item items ++ rest) with (c_gt :: flat_map render_item items ++ rest).
      rewrite (scan_endtag_ok n ws2 _ Hw2).
      destruct stack as [|top st]; cbn [is_nil] in *.
      * destruct items; [|discriminate]. reflexivity.
      * rewrite emit_eq. rewrite (IH (top :: st) f rest Hok Hb) by lia. reflexivity.
  - (* end tag *)
    destruct stack as [|top st]; [discriminate|]. apply andb_true_iff in Hb. destruct Hb as [He Hb].
    apply str_eqb_eq in He. subst top. cbn [render_item] in *. unfold s_etag. rewrite <- !app_assoc. cbn [app].
    destruct fuel as [|f]; [inversion Hf|].
    cbn [content]. cbn [N.eqb c_lt Pos.eqb negb peek c_slash tl].
    rewrite (scan_endtag_ok n ws _ Hi).
    destruct st as [|top st]; cbn [is_nil] in *.
    + destruct items; [|discriminate]. reflexivity.
    + rewrite emit_eq. rewrite (IH (top :: st) f rest Hok Hb) by (unfold s_etag in Hf; cbn [app length] in Hf; lia). reflexivity.
  - (* character data *)
    rewrite !andb_true_iff in Hb. destruct Hb as [[Hs Hnt] Hb].
    unfold text_ok in Hi. rewrite !andb_true_iff in Hi. destruct Hi as [[Hne Hv] Hcd].
    cbn [render_item] in *.
    destruct items as [|j items]; [discriminate|].
    assert (Hj : is_text j = false) by (destruct (is_text j); [discriminate|reflexivity]).
    cbn [flat_map]. rewrite <- app_assoc. destruct (item_starts_lt j (flat_map render_item items ++ rest) Hj) as [Y EY].
    rewrite EY.
    destruct (text_head t Hv) as [c [r [Et [T0 [T1 TV]]]]]; [destruct t; [discriminate|discriminate]|].
    destruct fuel as [|f]; [inversion Hf|].
    cbn [content]. rewrite Et at 1. cbn [app]. rewrite (eqb_false c 0 T0). rewrite (eqb_false c c_lt T1). cbn [negb].
    rewrite (scan_chardata_ok t _ CW Y Hv Hcd) by (rewrite app_length; cbn [length]; lia).
    rewrite emit_eq. rewrite <- EY.
    replace (flat_map render_item items ++ rest) with (flat_map render_item items ++ rest) by reflexivity.
    assert (EQ : render_item j ++ flat_map render_item items ++ rest = flat_map render_item (j :: items) ++ rest).
    { cbn [flat_map]. rewrite app_assoc. reflexivity. }
    rewrite EQ. rewrite (IH stack f rest Hok Hb).
    + unfold text_ev. destruct (text_val t); [contradiction|]. reflexivity.
    + cbn [flat_map].
      assert (1 <= length (render_text t))%nat by (rewrite Et; cbn [length]; lia). cbn [flat_map] in Hf. lia.
  - (* CDATA section *)
    rewrite !andb_true_iff in Hb. destruct Hb as [Hs Hb].
    unfold cdata_ok in Hi. apply andb_true_iff in Hi. destruct Hi as [Hc Hn].
    cbn [render_item] in *. unfold s_cdstart. rewrite <- !app_assoc. cbn [app].
    destruct fuel as [|f]; [inversion Hf|].
    cbn [content]. cbn [N.eqb c_lt Pos.eqb negb peek c_slash c_bang tl strip_prefix s_cdata].
    destruct stack as [|top st]; [discriminate|]. cbn [is_nil].
    cbn [scan_cdsection N.eqb Pos.eqb c_lbrack]. rewrite (scan_cdata_body_ok s _ Hc Hn).
    rewrite emit_eq. rewrite (IH (top :: st) f rest Hok Hb) by (unfold s_cdstart in Hf; cbn [app length] in Hf; lia). reflexivity.
  - (* comment *)
    rewrite !andb_true_iff in Hb. destruct Hb as [Hs Hb].
    cbn [render_item] in *. unfold render_comment, s_comment in *. rewrite <- !app_assoc. cbn [app].
    destruct fuel as [|f]; [inversion Hf|].
    cbn [content]. cbn [N.eqb c_lt Pos.eqb negb peek c_slash c_bang tl strip_prefix s_cdata s_dashdash].
    rewrite (scan_comment_ok s _ Hi).
    rewrite emit_eq. rewrite (IH stack f rest Hok Hb) by (cbn [app length] in Hf; lia). reflexivity.
  - (* processing instruction *)
    rewrite !andb_true_iff in Hb. destruct Hb as [Hs Hb].
    cbn [render_item] in *. unfold render_pi, s_pi in *. rewrite <- !app_assoc. cbn [app].
    destruct fuel as [|f]; [inversion Hf|].
    cbn [content]. cbn [N.eqb c_lt Pos.eqb negb peek c_slash c_bang c_quest tl].
    rewrite (scan_pi_ok nsf t ws d _ Hi).
    rewrite emit_eq. rewrite (IH stack f rest Hok Hb) by (cbn [app length] in Hf; lia). reflexivity.
Qed.

(* ---- Misc around the root: comments and white space (processing instructions outside the root: see the note in
        Properties_C02.v) *)
Definition misc_simple (m : lmisc) : bool := match m with MPI _ _ _ => false | _ => true end.

Lemma skip_ws_s : forall w rest, s_ok w = true -> skip_ws (w ++ rest) = skip_ws rest.
Proof. induction w as [|c w IH]; intros rest H; [reflexivity|]. cbn [s_ok forallb] in H. apply andb_true_iff in H.
  destruct H as [Hc Hw]. cbn [app skip_ws]. rewrite (s_char_ws c Hc). apply IH. exact Hw. Qed.

Lemma misc_loop_ok : forall nsf ms w fuel,
  forallb (misc_ok nsf) ms = true -> forallb misc_simple ms = true -> s_ok w = true ->
  (length (flat_map render_misc ms) + 2 <= fuel)%nat ->
  misc fuel nsf (w ++ flat_map render_misc ms ++ []) = (flat_map misc_events ms, SOk tt []).
Proof.
  intros nsf. induction ms as [|m ms IH]; intros w fuel Hok Hs Hw Hf.
  - cbn [flat_map app]. rewrite app_nil_r. destruct fuel as [|[|f]]; [lia|lia|].
    destruct w as [|c w]; [reflexivity|]. cbn [s_ok forallb] in Hw. apply andb_true_iff in Hw as Hw'. destruct Hw' as [Hc _].
    cbn [misc peek]. assert (c <> 0 /\ c <> c_lt) by (unfold is_s_char in Hc; unfold c_lt; lia).
    rewrite (eqb_false c 0), (eqb_false c c_lt) by tauto. rewrite (s_char_ws c Hc).
    replace (c :: w) with ((c :: w) ++ []) by apply app_nil_r. rewrite (skip_ws_s (c :: w) [] Hw). reflexivity.
  - cbn [forallb] in Hok, Hs. apply andb_true_iff in Hok. destruct Hok as [Hm Hok]. apply andb_true_iff in Hs.
    destruct Hs as [Hsm Hs]. cbn [flat_map length] in *. rewrite app_length in Hf. rewrite <- app_assoc.
    destruct m as [s|t ws d|w2]; [|discriminate|].
    + (* comment *)
      cbn [render_misc misc_events misc_ok] in *.
      assert (LC : (4 <= length (render_comment s))%nat) by (unfold render_comment, s_comment; cbn [app length]; lia).
      unfold render_comment, s_comment. rewrite <- !app_assoc. cbn [app].
      set (X := enc16 s ++ s_cmend ++ flat_map render_misc ms ++ []).
      assert (STEP : forall f, misc (S f) nsf (c_lt :: c_bang :: c_dash :: c_dash :: X) =
                emit [EvComment (enc16 s)] (misc f nsf ([] ++ flat_map render_misc ms ++ []))).
      { intros f. cbn [misc peek]. cbn [N.eqb c_lt Pos.eqb check_xmldecl strip_prefix s_xmldecl s_xmldeclU s_pi s_comment c_bang c_dash].
        subst X. rewrite (scan_comment_ok s _ Hm). reflexivity. }
      destruct w as [|c w].
      * cbn [app]. destruct fuel as [|f]; [lia|]. rewrite STEP. rewrite (IH [] f Hok Hs eq_refl) by lia. reflexivity.
      * cbn [s_ok forallb] in Hw. apply andb_true_iff in Hw as Hw'. destruct Hw' as [Hc _].
        destruct fuel as [|f']; [lia|]. cbn [app]. cbn [misc peek].
        assert (c <> 0 /\ c <> c_lt) by (unfold is_s_char in Hc; unfold c_lt; lia).
        rewrite (eqb_false c 0), (eqb_false c c_lt) by tauto. rewrite (s_char_ws c Hc).
        change (c :: w ++ 60 :: 33 :: 45 :: 45 :: X) with ((c :: w) ++ c_lt :: c_bang :: c_dash :: c_dash :: X).
        rewrite (skip_ws_app (c :: w) _ Hw) by reflexivity. destruct f' as [|f]; [lia|]. rewrite STEP.
        rewrite (IH [] f Hok Hs eq_refl) by lia. reflexivity.
    + (* white space *)
      cbn [render_misc misc_events misc_ok] in *. rewrite app_assoc. cbn [app].
      apply (IH (w ++ w2) fuel Hok Hs); [|lia]. unfold s_ok. rewrite forallb_app. unfold s_ok in Hw. rewrite Hw.
      apply s1_s in Hm. exact Hm.
Qed.

Lemma root_checks : forall c r, c <> c_quest -> c <> c_bang ->
  check_xmldecl (c_lt :: c :: r) = None /\ strip_prefix s_pi (c_lt :: c :: r) = None /\
  strip_prefix s_comment (c_lt :: c :: r) = None /\ strip_prefix s_doctype (c_lt :: c :: r) = None.
Proof.
  intros c r Q1 Q2. unfold check_xmldecl, s_xmldecl, s_xmldeclU, s_pi, s_comment, s_doctype, c_lt.
  cbn [strip_prefix]. rewrite !N.eqb_refl.
  rewrite (eqb_false 63 c) by (intro X; apply Q1; rewrite <- X; reflexivity).
  rewrite (eqb_false 33 c) by (intro X; apply Q2; rewrite <- X; reflexivity).
  repeat split; reflexivity.
Qed.

(* the prolog loop: same Misc, then the '<' of the root start tag *)
Definition root_head (B : str) : Prop :=
  exists c r, B = c_lt :: c :: r /\ c <> c_quest /\ c <> c_bang.
Lemma prolog_loop_ok : forall nsf ms w fuel first B,
  forallb (misc_ok nsf) ms = true -> forallb misc_simple ms = true -> s_ok w = true -> root_head B ->
  (length (flat_map render_misc ms) + 2 <= fuel)%nat ->
  prolog fuel nsf first (w ++ flat_map render_misc ms ++ B) = (flat_map misc_events ms, SOk tt B).
Proof.
  intros nsf. induction ms as [|m ms IH]; intros w fuel first B Hok Hs Hw HB Hf.
  - cbn [flat_map app]. destruct HB as [c [r [EB [Q1 Q2]]]]. subst B.
    assert (ROOT : forall f fst, prolog (S f) nsf fst (c_lt :: c :: r) = ([], SOk tt (c_lt :: c :: r))).
    { intros f fst. cbn [prolog peek]. rewrite N.eqb_refl.
      destruct (root_checks c r Q1 Q2) as [R1 [R2 [R3 R4]]]. rewrite R1, R2, R3, R4. reflexivity. }
    destruct fuel as [|f']; [lia|].
    destruct w as [|d w]; [apply ROOT|]. cbn [s_ok forallb] in Hw. apply andb_true_iff in Hw as Hw'. destruct Hw' as [Hd _].
    cbn [app]. cbn [prolog peek]. assert (d <> c_lt) by (unfold is_s_char in Hd; unfold c_lt; lia).
    rewrite (eqb_false d c_lt) by tauto. rewrite (s_char_ws d Hd).
    change (d :: w ++ c_lt :: c :: r) with ((d :: w) ++ c_lt :: c :: r).
    rewrite (skip_ws_app (d :: w) _ Hw) by reflexivity. destruct f' as [|f]; [cbn [flat_map length] in Hf; lia|]. apply ROOT.
  - cbn [forallb] in Hok, Hs. apply andb_true_iff in Hok. destruct Hok as [Hm Hok]. apply andb_true_iff in Hs.
    destruct Hs as [Hsm Hs]. cbn [flat_map length] in *. rewrite app_length in Hf. rewrite <- app_assoc.
    destruct m as [s|t ws d|w2]; [|discriminate|].
    + cbn [render_misc misc_events misc_ok] in *.
      assert (LC : (4 <= length (render_comment s))%nat) by (unfold render_comment, s_comment; cbn [app length]; lia).
      unfold render_comment, s_comment. rewrite <- !app_assoc. cbn [app].
      set (X := enc16 s ++ s_cmend ++ flat_map render_misc ms ++ B).
      assert (STEP : forall f fst, prolog (S f) nsf fst (c_lt :: c_bang :: c_dash :: c_dash :: X) =
                emit [EvComment (enc16 s)] (prolog f nsf false ([] ++ flat_map render_misc ms ++ B))).
      { intros f fst. cbn [prolog peek]. cbn [N.eqb c_lt Pos.eqb check_xmldecl strip_prefix s_xmldecl s_xmldeclU s_pi s_comment c_bang c_dash].
        subst X. rewrite (scan_comment_ok s _ Hm). reflexivity. }
      destruct w as [|c w].
      * cbn [app]. destruct fuel as [|f]; [lia|]. rewrite STEP. rewrite (IH [] f false B Hok Hs eq_refl HB) by lia. reflexivity.
      * cbn [s_ok forallb] in Hw. apply andb_true_iff in Hw as Hw'. destruct Hw' as [Hc _].
        destruct fuel as [|f']; [lia|]. cbn [app]. cbn [prolog peek].
        assert (c <> c_lt) by (unfold is_s_char in Hc; unfold c_lt; lia).
        rewrite (eqb_false c c_lt) by tauto. rewrite (s_char_ws c Hc).
        change (c :: w ++ 60 :: 33 :: 45 :: 45 :: X) with ((c :: w) ++ c_lt :: c_bang :: c_dash :: c_dash :: X).
        rewrite (skip_ws_app (c :: w) _ Hw) by reflexivity. destruct f' as [|f]; [lia|]. rewrite STEP.
        rewrite (IH [] f false B Hok Hs eq_refl HB) by lia. reflexivity.
    + cbn [render_misc misc_events misc_ok] in *. rewrite app_assoc. cbn [app].
      apply (IH (w ++ w2) fuel first B Hok Hs); [|exact HB|lia]. unfold s_ok. rewrite forallb_app. unfold s_ok in Hw. rewrite Hw.
      apply s1_s in Hm. exact Hm.
Qed.

(* ---- line ends *)
Definition no_cr (s : str) : bool := forallb (fun c => negb (c =? c_cr)) s.
Lemma eol_roundtrip : forall s ch, no_cr s = true -> eol_choices_ok s ch = true -> eol_norm (eol_expand s ch) = s.
Proof.
  induction s as [|c s IH]; intros ch Hn Hc; [reflexivity|].
  cbn [no_cr forallb] in Hn. apply andb_true_iff in Hn. destruct Hn as [Hc13 Hn].
  assert (C13 : c <> c_cr) by (intro X; subst c; discriminate).
  cbn [eol_expand eol_choices_ok] in *. destruct (c =? c_lf) eqn:El.
  - apply N.eqb_eq in El. subst c. destruct ch as [|[| |] ch].
    + cbn [eol_norm]. rewrite (IH [] Hn Hc). reflexivity.
    + cbn [eol_norm]. cbn [N.eqb c_lf c_cr Pos.eqb]. rewrite (IH ch Hn Hc). reflexivity.
    + cbn [eol_norm]. cbn [N.eqb c_lf c_cr Pos.eqb]. rewrite (IH ch Hn Hc). reflexivity.
    + apply andb_true_iff in Hc. destruct Hc as [Hp Hc]. cbn [eol_norm]. cbn [N.eqb c_cr Pos.eqb].
      specialize (IH ch Hn Hc).
      destruct s as [|d s].
      * cbn [eol_expand]. reflexivity.
      * cbn [peek] in Hp. cbn [eol_expand] in *. destruct (d =? c_lf) eqn:Ed; [discriminate|].
        rewrite Ed. rewrite IH. reflexivity.
  - cbn [eol_norm]. rewrite (eqb_false c c_cr C13). rewrite (IH ch Hn Hc). reflexivity.
Qed.

(* ---- the document (no XML declaration; comments and white space around the root) *)
Lemma body_root_head : forall nsf items rest, forallb (item_ok nsf) items = true -> body_ok [] items = true ->
  root_head (flat_map render_item items ++ rest).
Proof.
  intros nsf items rest Hok Hb. destruct items as [|i items]; [discriminate|]. cbn [forallb] in Hok.
  apply andb_true_iff in Hok. destruct Hok as [Hi _]. cbn [flat_map]. rewrite <- app_assoc.
  destruct i as [n atts ws|n atts ws sc ws2|n ws|t|s|s|t ws d]; cbn [body_ok is_nil negb andb] in Hb; try discriminate.
  - cbn [item_ok] in Hi. rewrite !andb_true_iff in Hi. destruct Hi as [[[[Hn _] _] _] _].
    destruct (name_head2 n Hn) as [c [r [En [N0 [N1 [N2 [N3 N4]]]]]]].
    cbn [render_item]. unfold render_stag. rewrite En. cbn [app]. eexists; eexists; split; [reflexivity|tauto].
  - cbn [item_ok] in Hi. rewrite !andb_true_iff in Hi. destruct Hi as [[[[[Hn _] _] _] _] _].
    destruct (name_head2 n Hn) as [c [r [En [N0 [N1 [N2 [N3 N4]]]]]]].
    cbn [render_item]. destruct sc; unfold render_stag; rewrite En; cbn [app]; eexists; eexists; (split; [reflexivity|tauto]).
Qed.

Lemma scan_doc_ok : forall nsf d, wf_ldoc nsf d = true -> ld_decl d = None ->
  forallb misc_simple (ld_prolog d) = true -> forallb misc_simple (ld_epilog d) = true ->
  scan_doc nsf (render1 d) = (events d, OOk).
Proof.
  intros nsf d Hwf Hd Hp He. unfold wf_ldoc in Hwf. rewrite Hd in Hwf. rewrite !andb_true_iff in Hwf.
  destruct Hwf as [[[[_ Hpro] Hitems] Hbody] Hepi].
  unfold render1, events. rewrite Hd. cbn [app].
  set (P := flat_map render_misc (ld_prolog d)). set (B := flat_map render_item (ld_body d)).
  set (E := flat_map render_misc (ld_epilog d)).
  assert (RH : root_head (B ++ E)) by (subst B; apply (body_root_head nsf _ _ Hitems Hbody)).
  assert (LB : (1 <= length B)%nat).
  { destruct (body_root_head nsf _ [] Hitems Hbody) as [c [r [EB _]]]. rewrite app_nil_r in EB. fold B in EB. rewrite EB. cbn [length]. lia. }
  unfold scan_doc.
  assert (TOT : length (P ++ B ++ E) = (length P + length B + length E)%nat) by (rewrite !app_length; lia).
  replace (P ++ B ++ E) with ([] ++ P ++ (B ++ E)) by reflexivity.
  rewrite (prolog_loop_ok nsf (ld_prolog d) [] _ true (B ++ E) Hpro Hp eq_refl).
  - rewrite (content_ok nsf (ld_body d) [] _ E Hitems Hbody).
    + pose proof (misc_loop_ok nsf (ld_epilog d) [] (S (length ([] ++ P ++ B ++ E))) Hepi He eq_refl) as EM.
      cbn [app] in EM. rewrite app_nil_r in EM. fold E in EM. cbn [app]. rewrite EM; [reflexivity|]. rewrite TOT. lia.
    + fold B. cbn [app]. rewrite TOT. lia.
  - exact RH.
  - fold P. cbn [app]. rewrite TOT. lia.
Qed.
