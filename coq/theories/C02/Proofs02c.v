(** C02 proofs, part c: character / entity references, attribute values and character data are scanned back to
    the characters they denote, whatever representation was chosen for each character. *)
From Coq Require Import ZArith ZifyBool ZifyN ZifyNat Lia.
From XV Require Import Base.XDefs Gen.GenXMLChar Gen.GenErrs C02.Model02 C02.Spec02 C02.Proofs02a C02.Proofs02b.
Local Open Scope N_scope.
Ltac Zify.zify_post_hook ::= Z.div_mod_to_equations.

Definition app_res (p : str) (r : sres str) : sres str :=
  match r with SOk t rest => SOk (p ++ t) rest | SStop s => SStop s end.
Definition pair_of (c : N) : N * N :=
  if c <? 0x10000 then (c, 0) else (0xD800 + (c - 0x10000) / 1024, 0xDC00 + (c - 0x10000) mod 1024).
Lemma pair_cons : forall c X, is_cp_char c = true ->
  (let (c1, c2) := pair_of c in cons_res c1 (consopt c2 X)) = app_res (u16 c) X.
Proof.
  intros c X H. unfold pair_of, u16. destruct (N.ltb_spec c 0x10000) as [L|L].
  - unfold consopt. cbn [N.eqb]. destruct X; reflexivity.
  - assert (R : 0x10000 <= c <= 0x10FFFF) by (unfold is_cp_char in H; lia).
    destruct (supp_units c R) as [_ Y]. unfold consopt. rewrite (eqb_false _ 0) by lia. destruct X; reflexivity.
Qed.

(* ---- digit strings *)
Lemma fold_ge : forall radix ds v, v <= fold_left (fun v d => v * radix + d) ds v \/ radix = 0.
Proof.
  intros radix. induction ds as [|d ds IH]; intros v; cbn [fold_left]; [left; lia|].
  destruct (N.eq_dec radix 0) as [E|E]; [right; exact E|left].
  destruct (IH (v * radix + d)) as [H|H]; [|contradiction]. nia.
Qed.
Lemma digits_dec : forall ds v got rest, forallb (fun d => d <? 10) ds = true ->
  fold_left (fun v d => v * 10 + d) ds v <= 0x10FFFF ->
  charref_digits 10 v got (map dec_char ds ++ c_semi :: rest) = SOk (fold_left (fun v d => v * 10 + d) ds v) rest.
Proof.
  induction ds as [|d ds IH]; intros v got rest Hd Hb.
  - cbn [map app charref_digits fold_left]. reflexivity.
  - cbn [forallb] in Hd. apply andb_true_iff in Hd. destruct Hd as [Hd0 Hd].
    cbn [map app fold_left] in *. cbn [charref_digits]. change (dec_char d) with (48 + d).
    rewrite (eqb_false (48 + d) 0) by lia. rewrite (eqb_false (48 + d) c_semi) by (unfold c_semi; lia).
    assert (DV : digit_val (48 + d) = Some d).
    { unfold digit_val. replace ((48 <=? 48 + d) && (48 + d <=? 57)) with true by lia. f_equal. lia. }
    rewrite DV. replace (10 <=? d) with false by lia.
    destruct (fold_ge 10 ds (v * 10 + d)) as [G|G]; [|discriminate].
    replace (0x10FFFF <? v * 10 + d) with false by lia. apply IH; assumption.
Qed.
Lemma digits_hex : forall ds v got rest, forallb (fun d => fst d <? 16) ds = true ->
  fold_left (fun v d => v * 16 + d) (map fst ds) v <= 0x10FFFF ->
  charref_digits 16 v got (map hex_char ds ++ c_semi :: rest) = SOk (fold_left (fun v d => v * 16 + d) (map fst ds) v) rest.
Proof.
  induction ds as [|[d up] ds IH]; intros v got rest Hd Hb.
  - cbn [map app charref_digits fold_left]. reflexivity.
  - cbn [forallb fst] in Hd. apply andb_true_iff in Hd. destruct Hd as [Hd0 Hd].
    cbn [map app fold_left fst] in *. cbn [charref_digits].
    set (ch := hex_char (d, up)).
    assert (CH : ch <> 0 /\ ch <> c_semi /\ digit_val ch = Some d).
    { subst ch. unfold hex_char, digit_val, c_semi. cbn [fst snd]. destruct (N.ltb_spec d 10) as [L|L].
      - replace ((48 <=? 48 + d) && (48 + d <=? 57)) with true by lia. repeat split; try lia. f_equal. lia.
      - destruct up.
        + replace ((48 <=? 55 + d) && (55 + d <=? 57)) with false by lia.
          replace ((65 <=? 55 + d) && (55 + d <=? 70)) with true by lia. repeat split; try lia. f_equal. lia.
        + replace ((48 <=? 87 + d) && (87 + d <=? 57)) with false by lia.
          replace ((65 <=? 87 + d) && (87 + d <=? 70)) with false by lia.
          replace ((97 <=? 87 + d) && (87 + d <=? 102)) with true by lia. repeat split; try lia. f_equal. lia. }
    destruct CH as [C0 [C1 C2]]. rewrite (eqb_false ch 0 C0), (eqb_false ch c_semi C1), C2.
    replace (16 <=? d) with false by lia.
    destruct (fold_ge 16 (map fst ds) (v * 16 + d)) as [G|G]; [|discriminate].
    replace (0x10FFFF <? v * 16 + d) with false by lia. apply IH; assumption.
Qed.

Lemma charref_value : forall c rest, is_cp_char c = true ->
  (if 0x10000 <=? c then SOk (0xD800 + (c - 0x10000) / 1024, 0xDC00 + (c - 0x10000) mod 1024) rest
   else if c <=? 0xFFFD then (if is_xmlchar c || is_control c then SOk (c, 0) rest else SStop (Fatal EC_InvalidCharacterRef))
   else SStop (Fatal EC_InvalidCharacterRef)) = SOk (pair_of c) rest.
Proof.
  intros c rest H. unfold pair_of. destruct (cp_char_cases c H) as [[A [B _]]|A].
  - replace (0x10000 <=? c) with false by lia. replace (c <? 0x10000) with true by lia.
    apply is_xmlchar_spec in B as B'. replace (c <=? 0xFFFD) with true by lia. rewrite B. reflexivity.
  - replace (0x10000 <=? c) with true by lia. replace (c <? 0x10000) with false by lia. reflexivity.
Qed.

(* a rendered reference is scanned to the character it denotes *)
Lemma entref_ok : forall c r rest, is_cp_char c = true -> ref_ok (c, r) = true -> r <> RLit ->
  exists t, render_char (c, r) = c_amp :: t /\ scan_entref (t ++ rest) = SOk (pair_of c) rest.
Proof.
  intros c r rest Hc Hr Hn. destruct r as [|ds|ds|]; [contradiction| | |].
  - (* decimal *)
    unfold ref_ok in Hr. cbn [fst snd] in Hr. apply andb_true_iff in Hr. destruct Hr as [Hr Hv].
    apply andb_true_iff in Hr. destruct Hr as [Hne Hd]. apply N.eqb_eq in Hv. unfold fold_digits in Hv.
    exists ([c_hash] ++ map dec_char ds ++ [c_semi]). split; [reflexivity|].
    destruct ds as [|d ds]; [discriminate|].
    cbn [app map]. rewrite <- app_assoc. cbn [app]. cbn [scan_entref]. cbn [N.eqb c_hash Pos.eqb].
    unfold scan_charref. cbn [forallb] in Hd. apply andb_true_iff in Hd as Hd'. destruct Hd' as [Hd0 _].
    change (dec_char d) with (48 + d). rewrite (eqb_false (48 + d) 120) by lia. rewrite (eqb_false (48 + d) 88) by lia.
    change (48 + d :: map dec_char ds ++ c_semi :: rest) with (map dec_char (d :: ds) ++ c_semi :: rest).
    assert (B : fold_left (fun v d => v * 10 + d) (d :: ds) 0 <= 0x10FFFF) by (rewrite Hv; unfold is_cp_char in Hc; lia).
    rewrite (digits_dec (d :: ds) 0 false rest Hd B). rewrite Hv. apply charref_value. exact Hc.
  - (* hexadecimal *)
    unfold ref_ok in Hr. cbn [fst snd] in Hr. apply andb_true_iff in Hr. destruct Hr as [Hr Hv].
    apply andb_true_iff in Hr. destruct Hr as [Hne Hd]. apply N.eqb_eq in Hv. unfold fold_digits in Hv.
    exists ([c_hash; 120] ++ map hex_char ds ++ [c_semi]). split; [reflexivity|].
    cbn [app]. rewrite <- app_assoc. cbn [app]. cbn [scan_entref]. cbn [N.eqb c_hash Pos.eqb].
    unfold scan_charref. cbn [N.eqb Pos.eqb].
    assert (B : fold_left (fun v d => v * 16 + d) (map fst ds) 0 <= 0x10FFFF) by (rewrite Hv; unfold is_cp_char in Hc; lia).
    rewrite (digits_hex ds 0 false rest Hd B). rewrite Hv. apply charref_value. exact Hc.
  - (* predefined entity *)
    unfold ref_ok in Hr. cbn [fst snd] in Hr. unfold render_char. cbn [fst snd]. unfold ent_name in *.
    destruct (c =? c_amp) eqn:E1; [apply N.eqb_eq in E1; subst c; exists (s_amp ++ [c_semi]); split; reflexivity|].
    destruct (c =? c_lt) eqn:E2; [apply N.eqb_eq in E2; subst c; exists (s_lt ++ [c_semi]); split; reflexivity|].
    destruct (c =? c_gt) eqn:E3; [apply N.eqb_eq in E3; subst c; exists (s_gt ++ [c_semi]); split; reflexivity|].
    destruct (c =? c_dq) eqn:E4; [apply N.eqb_eq in E4; subst c; exists (s_quot ++ [c_semi]); split; reflexivity|].
    destruct (c =? c_sq) eqn:E5; [apply N.eqb_eq in E5; subst c; exists (s_apos ++ [c_semi]); split; reflexivity|].
    discriminate.
Qed.

Lemma lchar_ok_inv : forall lit c r, lchar_ok lit (c, r) = true ->
  is_cp_char c = true /\ ref_ok (c, r) = true /\ (r = RLit -> lit c = true).
Proof. intros lit c r H. unfold lchar_ok in H. cbn [fst snd] in H. apply andb_true_iff in H. destruct H as [H H3].
  apply andb_true_iff in H. destruct H as [H1 H2]. repeat split; try assumption. intros E. subst r. exact H3. Qed.

Lemma text_val_cons : forall c r t, text_val ((c, r) :: t) = u16 c ++ text_val t.
Proof. reflexivity. Qed.
Lemma att_val_cons : forall p t, att_val (p :: t) = att_char_val p ++ att_val t.
Proof. reflexivity. Qed.
Lemma render_text_cons : forall p t, render_text (p :: t) = render_char p ++ render_text t.
Proof. reflexivity. Qed.

(* ---- attribute values *)
Lemma scan_attval_ok : forall q, (q = c_dq \/ q = c_sq) -> forall v fuel rest,
  forallb (lchar_ok (lit_ok_att q)) v = true -> (length (render_text v) < fuel)%nat ->
  scan_attval fuel q false (render_text v ++ q :: rest) = SOk (att_val v) rest.
Proof.
  intros q Hq. induction v as [|[c r] v IH]; intros fuel rest Hv Hf.
  - destruct fuel as [|f]; [inversion Hf|]. cbn [render_text flat_map app scan_attval].
    rewrite (eqb_false q 0) by (unfold c_dq, c_sq in Hq; lia). rewrite N.eqb_refl. reflexivity.
  - cbn [forallb] in Hv. apply andb_true_iff in Hv. destruct Hv as [Hc Hv].
    destruct (lchar_ok_inv _ c r Hc) as [Hcp [Href Hlit]].
    rewrite render_text_cons, att_val_cons, <- app_assoc. rewrite render_text_cons, app_length in Hf.
    destruct r as [|ds|ds|]; unfold att_char_val; cbn [fst snd].
    + (* literal *)
      specialize (Hlit eq_refl). unfold lit_ok_att in Hlit. unfold render_char in Hf |- *. cbn [fst snd] in Hf |- *.
      pose proof (units_of_u16 c Hcp) as U. inversion U as [A B C D E Eq|h l Hh Hl Eq].
      * rewrite <- Eq in Hf. cbn [length] in Hf. destruct fuel as [|f]; [inversion Hf|].
        cbn [app scan_attval]. rewrite (eqb_false c 0 E).
        rewrite (eqb_false c q) by (intro X; subst c; rewrite N.eqb_refl in Hlit; rewrite !orb_true_r in Hlit; discriminate).
        rewrite (eqb_false c c_amp) by (intro X; subst c; discriminate).
        rewrite sc2_plain by assumption.
        rewrite (eqb_false c c_lt) by (intro X; subst c; discriminate).
        assert (W : [if is_ws c then c_sp else c] = (if (c =? 9) || (c =? 10) then [32] else [c])).
        { assert (NW : c <> 13) by (unfold c_cr in Hlit; lia).
          destruct (is_ws c) eqn:Ew.
          - apply is_ws_spec in Ew. unfold c_sp. destruct Ew as [X|[X|[X|X]]]; subst c; try reflexivity. contradiction.
          - replace ((c =? 9) || (c =? 10)) with false; [reflexivity|]. symmetry.
            destruct ((c =? 9) || (c =? 10)) eqn:X; [|reflexivity]. assert (is_ws c = true) by (apply is_ws_spec; lia). congruence. }
        rewrite (IH f rest Hv) by lia. cbn [cons_res].
        change ((if is_ws c then c_sp else c) :: att_val v) with ([if is_ws c then c_sp else c] ++ att_val v).
        f_equal. f_equal. exact W.
      * rewrite <- Eq in Hf. cbn [length] in Hf. destruct fuel as [|[|f]]; [inversion Hf|lia|].
        assert (Qv : q < 0xD800) by (unfold c_dq, c_sq in Hq; lia).
        cbn [app scan_attval]. rewrite (eqb_false h 0) by lia. rewrite (eqb_false h q) by lia.
        rewrite (eqb_false h c_amp) by (unfold c_amp; lia). rewrite sc2_hi by assumption.
        rewrite (eqb_false h c_lt) by (unfold c_lt; lia).
        replace (is_ws h) with false by (symmetry; destruct (is_ws h) eqn:Ew; [apply is_ws_spec in Ew; lia|reflexivity]).
        rewrite (eqb_false l 0) by lia. rewrite (eqb_false l q) by lia.
        rewrite (eqb_false l c_amp) by (unfold c_amp; lia). rewrite sc2_lo by assumption.
        rewrite (eqb_false l c_lt) by (unfold c_lt; lia).
        replace (is_ws l) with false by (symmetry; destruct (is_ws l) eqn:Ew; [apply is_ws_spec in Ew; lia|reflexivity]).
        rewrite (IH f rest Hv) by lia. replace ((c =? 9) || (c =? 10)) with false; [reflexivity|].
        symmetry. destruct ((c =? 9) || (c =? 10)) eqn:X; [|reflexivity].
        assert (c = 9 \/ c = 10) by lia. rewrite u16_bmp in Eq by lia. discriminate.
    + destruct (entref_ok c (RDec ds) (render_text v ++ q :: rest) Hcp Href) as [t [Et Es]]; [discriminate|].
      rewrite Et in *. cbn [length] in Hf. destruct fuel as [|f]; [inversion Hf|]. cbn [app scan_attval].
      rewrite (eqb_false c_amp 0) by discriminate. rewrite (eqb_false c_amp q) by (unfold c_amp, c_dq, c_sq in *; lia).
      rewrite N.eqb_refl. rewrite Es. rewrite (IH f rest Hv) by lia.
      rewrite (pair_cons c _ Hcp). reflexivity.
    + destruct (entref_ok c (RHex ds) (render_text v ++ q :: rest) Hcp Href) as [t [Et Es]]; [discriminate|].
      rewrite Et in *. cbn [length] in Hf. destruct fuel as [|f]; [inversion Hf|]. cbn [app scan_attval].
      rewrite (eqb_false c_amp 0) by discriminate. rewrite (eqb_false c_amp q) by (unfold c_amp, c_dq, c_sq in *; lia).
      rewrite N.eqb_refl. rewrite Es. rewrite (IH f rest Hv) by lia.
      rewrite (pair_cons c _ Hcp). reflexivity.
    + destruct (entref_ok c REnt (render_text v ++ q :: rest) Hcp Href) as [t [Et Es]]; [discriminate|].
      rewrite Et in *. cbn [length] in Hf. destruct fuel as [|f]; [inversion Hf|]. cbn [app scan_attval].
      rewrite (eqb_false c_amp 0) by discriminate. rewrite (eqb_false c_amp q) by (unfold c_amp, c_dq, c_sq in *; lia).
      rewrite N.eqb_refl. rewrite Es. rewrite (IH f rest Hv) by lia.
      rewrite (pair_cons c _ Hcp). reflexivity.
Qed.

(* ---- character data, up to the '<' that follows it *)
Lemma scan_chardata_ok : forall t fuel st rest,
  forallb (lchar_ok lit_ok_text) t = true -> no_cdend st t = true -> (length (render_text t) < fuel)%nat ->
  scan_chardata fuel st false (render_text t ++ c_lt :: rest) = SOk (text_val t) (c_lt :: rest).
Proof.
  induction t as [|[c r] t IH]; intros fuel st rest Hv Hs Hf.
  - destruct fuel as [|f]; [inversion Hf|]. cbn [render_text flat_map app scan_chardata]. rewrite N.eqb_refl. reflexivity.
  - cbn [forallb] in Hv. apply andb_true_iff in Hv. destruct Hv as [Hc Hv].
    destruct (lchar_ok_inv _ c r Hc) as [Hcp [Href Hlit]].
    rewrite render_text_cons, text_val_cons, <- app_assoc. rewrite render_text_cons, app_length in Hf.
    assert (REF : r <> RLit -> forall f', (length (render_text t) < f')%nat ->
              no_cdend CW t = true ->
              forall tl, render_char (c, r) = c_amp :: tl -> scan_entref (tl ++ render_text t ++ c_lt :: rest) = SOk (pair_of c) (render_text t ++ c_lt :: rest) ->
              scan_chardata (S f') st false (c_amp :: tl ++ render_text t ++ c_lt :: rest) = SOk (u16 c ++ text_val t) (c_lt :: rest)).
    { intros _ f' Hf' Hs' tl _ Es. cbn [scan_chardata]. rewrite (eqb_false c_amp c_lt) by discriminate. rewrite N.eqb_refl.
      rewrite Es. rewrite (IH f' CW rest Hv Hs' Hf'). rewrite (pair_cons c _ Hcp). reflexivity. }
    destruct r as [|ds|ds|].
    + specialize (Hlit eq_refl). unfold lit_ok_text in Hlit. unfold render_char in Hf |- *. cbn [fst snd] in Hf |- *.
      cbn [no_cdend] in Hs.
      pose proof (units_of_u16 c Hcp) as U. inversion U as [A B C D E Eq|h l Hh Hl Eq].
      * rewrite <- Eq in Hf. cbn [length] in Hf. destruct fuel as [|f]; [inversion Hf|].
        cbn [app scan_chardata].
        rewrite (eqb_false c c_lt) by (intro X; subst c; discriminate).
        rewrite (eqb_false c c_amp) by (intro X; subst c; discriminate).
        rewrite sc2_plain by assumption.
        destruct (c =? c_rbrack) eqn:E1.
        -- rewrite (IH f _ rest Hv Hs) by lia. reflexivity.
        -- destruct (c =? c_gt) eqn:E2.
           ++ destruct st; try discriminate; rewrite (IH f _ rest Hv Hs) by lia; reflexivity.
           ++ rewrite (IH f _ rest Hv Hs) by lia. reflexivity.
      * rewrite <- Eq in Hf. cbn [length] in Hf. destruct fuel as [|[|f]]; [inversion Hf|lia|].
        assert (X1 : (c =? c_rbrack) = false).
        { apply eqb_false. intro X. subst c. rewrite u16_bmp in Eq by (unfold c_rbrack; lia). discriminate. }
        assert (X2 : (c =? c_gt) = false).
        { apply eqb_false. intro X. subst c. rewrite u16_bmp in Eq by (unfold c_gt; lia). discriminate. }
        rewrite X1, X2 in Hs.
        cbn [app scan_chardata]. rewrite (eqb_false h c_lt) by (unfold c_lt; lia).
        rewrite (eqb_false h c_amp) by (unfold c_amp; lia). rewrite sc2_hi by assumption.
        rewrite (eqb_false h c_rbrack) by (unfold c_rbrack; lia). rewrite (eqb_false h c_gt) by (unfold c_gt; lia).
        rewrite (eqb_false l c_lt) by (unfold c_lt; lia).
        rewrite (eqb_false l c_amp) by (unfold c_amp; lia). rewrite sc2_lo by assumption.
        rewrite (eqb_false l c_rbrack) by (unfold c_rbrack; lia). rewrite (eqb_false l c_gt) by (unfold c_gt; lia).
        rewrite (IH f _ rest Hv Hs) by lia. reflexivity.
    + destruct (entref_ok c (RDec ds) (render_text t ++ c_lt :: rest) Hcp Href) as [tl [Et Es]]; [discriminate|].
      rewrite Et in *. cbn [length] in Hf. destruct fuel as [|f]; [inversion Hf|]. cbn [app].
      apply (REF ltac:(discriminate) f ltac:(lia) Hs tl eq_refl Es).
    + destruct (entref_ok c (RHex ds) (render_text t ++ c_lt :: rest) Hcp Href) as [tl [Et Es]]; [discriminate|].
      rewrite Et in *. cbn [length] in Hf. destruct fuel as [|f]; [inversion Hf|]. cbn [app].
      apply (REF ltac:(discriminate) f ltac:(lia) Hs tl eq_refl Es).
    + destruct (entref_ok c REnt (render_text t ++ c_lt :: rest) Hcp Href) as [tl [Et Es]]; [discriminate|].
      rewrite Et in *. cbn [length] in Hf. destruct fuel as [|f]; [inversion Hf|]. cbn [app].
      apply (REF ltac:(discriminate) f ltac:(lia) Hs tl eq_refl Es).
Qed.
