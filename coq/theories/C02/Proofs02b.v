(** C02 proofs, part b: comments, processing instructions and CDATA sections are scanned back exactly. *)
From Coq Require Import ZArith ZifyBool ZifyN ZifyNat Lia.
From XV Require Import Base.XDefs Gen.GenXMLChar Gen.GenErrs C02.Model02 C02.Spec02 C02.Proofs02a.
Local Open Scope N_scope.
Ltac Zify.zify_post_hook ::= Z.div_mod_to_equations.

(* one legal character = one or two units; facts about the units *)
Inductive units_of (c : N) : str -> Prop :=
| U1 : c < 0x10000 -> is_xmlchar c = true -> is_hi c = false -> is_lo c = false -> c <> 0 -> units_of c [c]
| U2 : forall h l, 0xD800 <= h <= 0xDBFF -> 0xDC00 <= l <= 0xDFFF -> units_of c [h; l].
Lemma units_of_u16 : forall c, is_cp_char c = true -> units_of c (u16 c).
Proof.
  intros c H. destruct (cp_char_cases c H) as [[A [B [C [D E]]]]|A].
  - rewrite (u16_bmp c A). constructor; assumption.
  - rewrite (u16_supp c (proj1 A)). destruct (supp_units c A) as [X Y]. apply U2; assumption.
Qed.
Lemma body_chars_cons : forall c s, body_chars_ok (c :: s) = true ->
  is_cp_char c = true /\ c <> 13 /\ body_chars_ok s = true.
Proof. intros c s H. unfold body_chars_ok in *. cbn [forallb] in H. apply andb_true_iff in H. destruct H as [H1 H2].
  apply andb_true_iff in H1. destruct H1 as [H0 H1]. repeat split; [exact H0| |exact H2].
  intro X. subst c. discriminate. Qed.

Lemma sc1_plain : forall c, is_hi c = false -> is_xmlchar c = true -> sur_check1 false c = inl false.
Proof. intros c A B. unfold sur_check1. rewrite A, B. reflexivity. Qed.
Lemma sc1_hi : forall c, 0xD800 <= c <= 0xDBFF -> sur_check1 false c = inl true.
Proof. intros c A. unfold sur_check1. replace (is_hi c) with true by (unfold is_hi; lia). reflexivity. Qed.
Lemma sc1_lo : forall c, 0xDC00 <= c <= 0xDFFF -> sur_check1 true c = inl false.
Proof. intros c A. unfold sur_check1. replace (is_hi c) with false by (unfold is_hi; lia).
  replace (is_lo c) with true by (unfold is_lo; lia). reflexivity. Qed.
Lemma sc2_plain : forall bad c, is_hi c = false -> is_lo c = false -> is_xmlchar c = true -> sur_check2 bad false c = inl false.
Proof. intros bad c A B C. unfold sur_check2. rewrite A, B, C. reflexivity. Qed.
Lemma sc2_hi : forall bad c, 0xD800 <= c <= 0xDBFF -> sur_check2 bad false c = inl true.
Proof. intros bad c A. unfold sur_check2. replace (is_hi c) with true by (unfold is_hi; lia). reflexivity. Qed.
Lemma sc2_lo : forall bad c, 0xDC00 <= c <= 0xDFFF -> sur_check2 bad true c = inl false.
Proof. intros bad c A. unfold sur_check2. replace (is_hi c) with false by (unfold is_hi; lia).
  replace (is_lo c) with true by (unfold is_lo; lia). reflexivity. Qed.

Lemma eqb_false : forall a b : N, a <> b -> (a =? b) = false.
Proof. intros a b H. apply N.eqb_neq. exact H. Qed.

(* ---- comments *)
Lemma cm_text_bmp : forall c r, units_of c [c] -> c <> c_dash ->
  scan_comment CmText false (c :: r) = cons_res c (scan_comment CmText false r).
Proof. intros c r U Hd. inversion U; subst. cbn [scan_comment]. rewrite (eqb_false c 0) by assumption.
  rewrite sc1_plain by assumption. rewrite (eqb_false c c_dash Hd). reflexivity. Qed.
Lemma cm_one_bmp : forall c r, units_of c [c] -> c <> c_dash ->
  scan_comment CmOne false (c :: r) = cons_res c_dash (cons_res c (scan_comment CmText false r)).
Proof. intros c r U Hd. inversion U; subst. cbn [scan_comment]. rewrite (eqb_false c 0) by assumption.
  rewrite sc1_plain by assumption. rewrite (eqb_false c c_dash Hd). reflexivity. Qed.
Lemma cm_dash : forall r, scan_comment CmText false (c_dash :: r) = scan_comment CmOne false r.
Proof. intros r. reflexivity. Qed.
Lemma cm_text_pair : forall h l r, 0xD800 <= h <= 0xDBFF -> 0xDC00 <= l <= 0xDFFF ->
  scan_comment CmText false (h :: l :: r) = cons_res h (cons_res l (scan_comment CmText false r)).
Proof. intros h l r Hh Hl. cbn [scan_comment]. rewrite (eqb_false h 0) by lia. rewrite sc1_hi by assumption.
  rewrite (eqb_false h c_dash) by (unfold c_dash; lia). rewrite (eqb_false l 0) by lia. rewrite sc1_lo by assumption.
  rewrite (eqb_false l c_dash) by (unfold c_dash; lia). reflexivity. Qed.
Lemma cm_one_pair : forall h l r, 0xD800 <= h <= 0xDBFF -> 0xDC00 <= l <= 0xDFFF ->
  scan_comment CmOne false (h :: l :: r) = cons_res c_dash (cons_res h (cons_res l (scan_comment CmText false r))).
Proof. intros h l r Hh Hl. cbn [scan_comment]. rewrite (eqb_false h 0) by lia. rewrite sc1_hi by assumption.
  rewrite (eqb_false h c_dash) by (unfold c_dash; lia). rewrite (eqb_false l 0) by lia. rewrite sc1_lo by assumption.
  rewrite (eqb_false l c_dash) by (unfold c_dash; lia). reflexivity. Qed.

Lemma scan_comment_both : forall s rest, body_chars_ok s = true -> no_dashdash s = true ->
  scan_comment CmText false (enc16 s ++ s_cmend ++ rest) = SOk (enc16 s) rest /\
  (match s with [] => False | c :: _ => c <> c_dash end ->
   scan_comment CmOne false (enc16 s ++ s_cmend ++ rest) = SOk (c_dash :: enc16 s) rest).
Proof.
  induction s as [|c s IH]; intros rest Hb Hn.
  - split; [reflexivity|intros []].
  - destruct (body_chars_cons c s Hb) as [Hc [H13 Hb']].
    assert (Hn' : no_dashdash s = true).
    { cbn [no_dashdash] in Hn. destruct (c =? c_dash); [|exact Hn]. destruct s as [|d s']; [discriminate|].
      apply andb_true_iff in Hn. tauto. }
    destruct (IH rest Hb' Hn') as [IH1 IH2].
    unfold enc16 in *. cbn [flat_map]. pose proof (units_of_u16 c Hc) as U. rewrite <- app_assoc.
    inversion U as [A B C D E Eq|h l Hh Hl Eq].
    + rewrite <- Eq in U. cbn [app]. split.
      * destruct (N.eq_dec c c_dash) as [Ed|Ed].
        -- subst c. rewrite cm_dash. cbn [no_dashdash] in Hn. rewrite N.eqb_refl in Hn.
           destruct s as [|d s']; [discriminate|]. apply andb_true_iff in Hn. destruct Hn as [Hd _].
           rewrite IH2; [reflexivity|]. intro X. subst d. rewrite N.eqb_refl in Hd. discriminate.
        -- rewrite cm_text_bmp by assumption. rewrite IH1. reflexivity.
      * intros Hd. rewrite cm_one_bmp by assumption. rewrite IH1. reflexivity.
    + cbn [app]. split.
      * rewrite cm_text_pair by assumption. rewrite IH1. reflexivity.
      * intros _. rewrite cm_one_pair by assumption. rewrite IH1. reflexivity.
Qed.
Lemma scan_comment_ok : forall s rest, comment_ok s = true ->
  scan_comment CmText false (enc16 s ++ s_cmend ++ rest) = SOk (enc16 s) rest.
Proof. intros s rest H. unfold comment_ok in H. apply andb_true_iff in H. destruct H as [A B].
  exact (proj1 (scan_comment_both s rest A B)). Qed.

(* ---- processing-instruction data *)
Lemma peek_enc16 : forall c s t, is_cp_char c = true -> peek (enc16 (c :: s) ++ t) = c_gt -> c = c_gt.
Proof.
  intros c s t Hc H. unfold enc16 in H. cbn [flat_map] in H. rewrite <- app_assoc in H.
  pose proof (units_of_u16 c Hc) as U. inversion U as [A B C D E Eq|h l Hh Hl Eq]; rewrite <- Eq in H; cbn [app peek] in H.
  - exact H.
  - unfold c_gt in H. lia.
Qed.
Lemma scan_pi_data_ok : forall d rest, body_chars_ok d = true -> no_pi_end d = true ->
  scan_pi_data false (enc16 d ++ s_piend ++ rest) = SOk (enc16 d) rest.
Proof.
  induction d as [|c d IH]; intros rest Hb Hn.
  - reflexivity.
  - destruct (body_chars_cons c d Hb) as [Hc [H13 Hb']].
    cbn [no_pi_end] in Hn. apply andb_true_iff in Hn. destruct Hn as [Hq Hn'].
    specialize (IH rest Hb' Hn').
    unfold enc16 in *. cbn [flat_map]. pose proof (units_of_u16 c Hc) as U. rewrite <- app_assoc.
    inversion U as [A B C D E Eq|h l Hh Hl Eq].
    + cbn [app scan_pi_data]. rewrite (eqb_false c 0) by assumption.
      assert (T : (c =? c_quest) && (peek (flat_map u16 d ++ s_piend ++ rest) =? c_gt) = false).
      { destruct (c =? c_quest) eqn:E1; [|reflexivity]. cbn [andb].
        destruct d as [|e d'].
        - reflexivity.
        - destruct (peek (flat_map u16 (e :: d') ++ s_piend ++ rest) =? c_gt) eqn:E2; [|reflexivity].
          apply N.eqb_eq in E2. destruct (body_chars_cons e d' Hb') as [He _].
          pose proof (peek_enc16 e d' (s_piend ++ rest) He E2) as X. subst e.
          cbn [peek] in Hq. rewrite N.eqb_refl in Hq. discriminate. }
      rewrite T. rewrite sc1_plain by assumption. rewrite IH. reflexivity.
    + cbn [app scan_pi_data]. rewrite (eqb_false h 0) by lia.
      rewrite (eqb_false h c_quest) by (unfold c_quest; lia). cbn [andb]. rewrite sc1_hi by assumption.
      rewrite (eqb_false l 0) by lia. rewrite (eqb_false l c_quest) by (unfold c_quest; lia). cbn [andb].
      rewrite sc1_lo by assumption. rewrite IH. reflexivity.
Qed.

(* ---- CDATA sections *)
Lemma cd_close_none : forall s t, body_chars_ok s = true -> starts_with [c_rbrack; c_gt] s = false ->
  strip_prefix [c_rbrack; c_gt] (enc16 s ++ s_cdend ++ t) = None.
Proof.
  intros s t Hb Hs. destruct s as [|e s].
  - reflexivity.
  - destruct (body_chars_cons e s Hb) as [He [_ Hb']]. unfold enc16. cbn [flat_map]. rewrite <- app_assoc.
    pose proof (units_of_u16 e He) as U. inversion U as [A B C D E Eq|h l Hh Hl Eq].
    + cbn [app strip_prefix]. destruct (c_rbrack =? e) eqn:E1; [|reflexivity]. apply N.eqb_eq in E1. subst e.
      destruct s as [|f s].
      * reflexivity.
      * destruct (body_chars_cons f s Hb') as [Hf _]. cbn [flat_map]. rewrite <- app_assoc.
        pose proof (units_of_u16 f Hf) as U2. inversion U2 as [A2 B2 C2 D2 E2 Eq2|h2 l2 Hh2 Hl2 Eq2].
        -- cbn [app]. destruct (c_gt =? f) eqn:E3; [|reflexivity]. apply N.eqb_eq in E3. subst f.
           unfold starts_with in Hs. cbn [strip_prefix] in Hs. rewrite !N.eqb_refl in Hs. discriminate.
        -- cbn [app]. rewrite (eqb_false c_gt h2) by (unfold c_gt; lia). reflexivity.
    + cbn [app strip_prefix]. rewrite (eqb_false c_rbrack h) by (unfold c_rbrack; lia). reflexivity.
Qed.
Lemma scan_cdata_body_ok : forall s rest, body_chars_ok s = true -> no_cdata_end s = true ->
  scan_cdata_body false (enc16 s ++ s_cdend ++ rest) = SOk (enc16 s) rest.
Proof.
  induction s as [|c s IH]; intros rest Hb Hn.
  - reflexivity.
  - destruct (body_chars_cons c s Hb) as [Hc [H13 Hb']].
    cbn [no_cdata_end] in Hn. apply andb_true_iff in Hn. destruct Hn as [Hq Hn'].
    specialize (IH rest Hb' Hn').
    unfold enc16 in *. cbn [flat_map]. pose proof (units_of_u16 c Hc) as U. rewrite <- app_assoc.
    inversion U as [A B C D E Eq|h l Hh Hl Eq].
    + cbn [app scan_cdata_body]. rewrite (eqb_false c 0) by assumption.
      assert (T : (if c =? c_rbrack then strip_prefix [c_rbrack; c_gt] (flat_map u16 s ++ s_cdend ++ rest) else None) = None).
      { destruct (c =? c_rbrack) eqn:E1; [|reflexivity]. cbn [andb negb] in Hq.
        apply (cd_close_none s rest Hb'). destruct (starts_with [c_rbrack; c_gt] s); [discriminate|reflexivity]. }
      rewrite T. rewrite sc2_plain by assumption. rewrite IH. reflexivity.
    + cbn [app scan_cdata_body]. rewrite (eqb_false h 0) by lia. rewrite (eqb_false h c_rbrack) by (unfold c_rbrack; lia).
      rewrite sc2_hi by assumption. rewrite (eqb_false l 0) by lia. rewrite (eqb_false l c_rbrack) by (unfold c_rbrack; lia).
      rewrite sc2_lo by assumption. rewrite IH. reflexivity.
Qed.
