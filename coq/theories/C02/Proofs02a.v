(** C02 proofs, part a: facts about the generated character tables, reader primitives (skip_ws, get_name,
    strip_prefix), UTF-16 forms. *)
From Coq Require Import ZArith ZifyBool ZifyN ZifyNat Lia.
From XV Require Import Base.XDefs Gen.GenXMLChar Gen.GenErrs C02.Model02 C02.Spec02.
Local Open Scope N_scope.
Ltac Zify.zify_post_hook ::= Z.div_mod_to_equations.

(* ---- range lists *)
Definition disj (a b : list (N * N)) : bool :=
  forallb (fun p => forallb (fun q => (snd p <? fst q) || (snd q <? fst p)) b) a.
Lemma disj_sound : forall a b c, disj a b = true -> in_ranges c a = true -> in_ranges c b = false.
Proof.
  intros a b c Hd Ha. destruct (in_ranges c b) eqn:Hb; [|reflexivity]. exfalso.
  unfold in_ranges in *. apply existsb_exists in Ha. destruct Ha as [p [Hp Hpc]].
  apply existsb_exists in Hb. destruct Hb as [q [Hq Hqc]].
  unfold disj in Hd. rewrite forallb_forall in Hd. specialize (Hd p Hp). rewrite forallb_forall in Hd.
  specialize (Hd q Hq). unfold in_rng in *. lia.
Qed.

(* ---- the classes the proofs rely on, as obligations over the generated tables *)
Lemma is_ws_spec : forall c, is_ws c = true <-> (c = 9 \/ c = 10 \/ c = 13 \/ c = 32).
Proof. intros c. unfold is_ws, in_ranges, x10_ws. cbn [existsb]. unfold in_rng. cbn [fst snd]. lia. Qed.
Lemma is_xmlchar_spec : forall c, is_xmlchar c = true <->
  (c = 9 \/ c = 10 \/ c = 13 \/ (32 <= c <= 0xD7FF) \/ (0xE000 <= c <= 0xFFFD)).
Proof. intros c. unfold is_xmlchar, in_ranges, x10_xmlchar. cbn [existsb]. unfold in_rng. cbn [fst snd]. lia. Qed.
Lemma is_special_spec : forall c, is_special c = true <->
  (c = 0 \/ c = 9 \/ c = 10 \/ c = 13 \/ c = 32 \/ c = 34 \/ c = 39 \/ c = 47 \/ c = 60 \/ c = 62).
Proof. intros c. unfold is_special, in_ranges, x10_special. cbn [existsb]. unfold in_rng. cbn [fst snd]. lia. Qed.

(* characters that may follow a name in the rendering: never name characters *)
Definition follow : list (N * N) := [(0, 0); (9, 10); (13, 13); (32, 32); (34, 34); (39, 39); (47, 47); (59, 63)].
Lemma namechar_follow : forall c, in_ranges c follow = true -> is_namechar c = false.
Proof. intros c H. destruct (is_namechar c) eqn:E; [|reflexivity]. unfold is_namechar in E.
  assert (D : disj x10_namechar follow = true) by (vm_compute; reflexivity).
  rewrite (disj_sound _ _ c D E) in H. discriminate. Qed.
Lemma firstname_namechar_tables : forallb (fun p => in_ranges (fst p) x10_namechar && in_ranges (snd p) x10_namechar) x10_firstname = true.
Proof. vm_compute. reflexivity. Qed.
Lemma firstname_not_special : forall c, is_firstname c = true -> is_special c = false.
Proof. intros c H. unfold is_firstname in H. unfold is_special.
  assert (D : disj x10_firstname x10_special = true) by (vm_compute; reflexivity). exact (disj_sound _ _ c D H). Qed.
Lemma firstname_not_ws : forall c, is_firstname c = true -> is_ws c = false.
Proof. intros c H. unfold is_firstname in H. unfold is_ws.
  assert (D : disj x10_firstname x10_ws = true) by (vm_compute; reflexivity). exact (disj_sound _ _ c D H). Qed.
Lemma firstname_not_follow : forall c, is_firstname c = true -> in_ranges c follow = false.
Proof. intros c H. unfold is_firstname in H.
  assert (D : disj x10_firstname follow = true) by (vm_compute; reflexivity). exact (disj_sound _ _ c D H). Qed.
Lemma hi_name_props : forall c, is_hi_name c = true ->
  is_special c = false /\ is_ws c = false /\ in_ranges c follow = false /\ is_hi c = true.
Proof.
  intros c H. unfold is_hi_name in H. repeat split.
  - destruct (is_special c) eqn:E; [|reflexivity]. apply is_special_spec in E. lia.
  - destruct (is_ws c) eqn:E; [|reflexivity]. apply is_ws_spec in E. lia.
  - unfold in_ranges, follow. cbn [existsb]. unfold in_rng. cbn [fst snd]. lia.
  - unfold is_hi. lia.
Qed.
Lemma follow_not_hi_name : forall c, in_ranges c follow = true -> is_hi_name c = false.
Proof. intros c H. unfold in_ranges, follow in H. cbn [existsb] in H. unfold in_rng in H. cbn [fst snd] in H.
  unfold is_hi_name. lia. Qed.

(* ---- white space *)
Lemma s_char_ws : forall c, is_s_char c = true -> is_ws c = true.
Proof. intros c H. apply is_ws_spec. unfold is_s_char in H. lia. Qed.
Lemma s_char_follow : forall c, is_s_char c = true -> in_ranges c follow = true.
Proof. intros c H. unfold is_s_char in H. unfold in_ranges, follow. cbn [existsb]. unfold in_rng. cbn [fst snd]. lia. Qed.
Definition not_ws_head (l : str) : Prop := starts_ws l = false.
Lemma skip_ws_app : forall w rest, s_ok w = true -> not_ws_head rest -> skip_ws (w ++ rest) = rest.
Proof.
  induction w as [|c w IH]; intros rest Hw Hr.
  - cbn [app]. unfold not_ws_head, starts_ws in Hr. destruct rest as [|d r]; [reflexivity|].
    cbn [skip_ws]. rewrite Hr. reflexivity.
  - cbn [s_ok forallb] in Hw. apply andb_true_iff in Hw. destruct Hw as [Hc Hw].
    cbn [app skip_ws]. rewrite (s_char_ws c Hc). apply IH; assumption.
Qed.
Lemma starts_ws_app_s1 : forall w rest, s1_ok w = true -> starts_ws (w ++ rest) = true.
Proof. intros w rest H. unfold s1_ok in H. apply andb_true_iff in H. destruct H as [Hn Hs].
  destruct w as [|c w]; [discriminate|]. cbn [s_ok forallb] in Hs. apply andb_true_iff in Hs.
  cbn [app starts_ws]. apply s_char_ws. tauto. Qed.
Lemma s1_s : forall w, s1_ok w = true -> s_ok w = true.
Proof. intros w H. unfold s1_ok in H. apply andb_true_iff in H. tauto. Qed.

(* ---- strip_prefix *)
Lemma strip_prefix_app : forall p rest, strip_prefix p (p ++ rest) = Some rest.
Proof. induction p as [|x p IH]; intros rest; cbn [strip_prefix app]; [reflexivity|]. rewrite N.eqb_refl. apply IH. Qed.
Lemma str_eqb_refl : forall a, str_eqb a a = true.
Proof. induction a as [|x a IH]; cbn [str_eqb]; [reflexivity|]. rewrite N.eqb_refl, IH. reflexivity. Qed.
Lemma str_eqb_eq : forall a b, str_eqb a b = true -> a = b.
Proof. induction a as [|x a IH]; intros [|y b] H; cbn [str_eqb] in H; try discriminate; [reflexivity|].
  apply andb_true_iff in H. destruct H as [H1 H2]. apply N.eqb_eq in H1. rewrite (IH b H2), H1. reflexivity. Qed.

(* ---- names: get_name is exact on a name followed by a non-name character *)
Definition name_stop (l : str) : Prop := match l with [] => True | c :: _ => in_ranges c follow = true end.
Lemma name_tail_app : forall n rest, name_rest_ok n = true -> name_stop rest -> name_tail (n ++ rest) = (n, rest).
Proof.
  fix IH 1. intros n rest Hn Hs. destruct n as [|c n].
  - cbn [app]. destruct rest as [|d r]; [reflexivity|]. cbn [name_stop] in Hs. cbn [name_tail].
    rewrite (follow_not_hi_name d Hs), (namechar_follow d Hs). reflexivity.
  - cbn [name_rest_ok] in Hn. cbn [app name_tail]. destruct (is_hi_name c) eqn:Eh.
    + destruct n as [|d n]; [discriminate|]. apply andb_true_iff in Hn. destruct Hn as [Hd Hn].
      cbn [app]. rewrite Hd. rewrite (IH n rest Hn Hs). reflexivity.
    + apply andb_true_iff in Hn. destruct Hn as [Hc Hn]. rewrite Hc. rewrite (IH n rest Hn Hs). reflexivity.
Qed.
Lemma get_name_app : forall n rest, name_ok n = true -> name_stop rest -> get_name (n ++ rest) = Some (n, rest).
Proof.
  intros n rest Hn Hs. destruct n as [|c n]; [discriminate|]. cbn [name_ok] in Hn. cbn [app get_name].
  destruct (is_hi_name c) eqn:Eh.
  - destruct n as [|d n]; [discriminate|]. apply andb_true_iff in Hn. destruct Hn as [Hd Hn].
    cbn [app]. rewrite Hd. rewrite (name_tail_app n rest Hn Hs). reflexivity.
  - apply andb_true_iff in Hn. destruct Hn as [Hc Hn]. rewrite Hc. rewrite (name_tail_app n rest Hn Hs). reflexivity.
Qed.
(* first character of a name *)
Lemma name_head : forall n, name_ok n = true -> exists c r, n = c :: r /\ is_special c = false /\ is_ws c = false /\
  in_ranges c follow = false.
Proof.
  intros n H. destruct n as [|c r]; [discriminate|]. exists c, r. split; [reflexivity|]. cbn [name_ok] in H.
  destruct (is_hi_name c) eqn:Eh.
  - destruct (hi_name_props c Eh) as [A [B [C _]]]. tauto.
  - apply andb_true_iff in H. destruct H as [Hc _].
    repeat split; [apply firstname_not_special|apply firstname_not_ws|apply firstname_not_follow]; exact Hc.
Qed.

(* ---- UTF-16 form of a legal character *)
Lemma u16_bmp : forall c, c < 0x10000 -> u16 c = [c].
Proof. intros c H. unfold u16. destruct (N.ltb_spec c 0x10000); [reflexivity|lia]. Qed.
Lemma u16_supp : forall c, 0x10000 <= c -> u16 c = [0xD800 + (c - 0x10000) / 1024; 0xDC00 + (c - 0x10000) mod 1024].
Proof. intros c H. unfold u16. destruct (N.ltb_spec c 0x10000); [lia|reflexivity]. Qed.
Lemma supp_units : forall c, 0x10000 <= c <= 0x10FFFF ->
  let h := 0xD800 + (c - 0x10000) / 1024 in let l := 0xDC00 + (c - 0x10000) mod 1024 in
  0xD800 <= h <= 0xDBFF /\ 0xDC00 <= l <= 0xDFFF.
Proof. intros c H h l. subst h l. lia. Qed.
Lemma cp_char_cases : forall c, is_cp_char c = true ->
  (c < 0x10000 /\ is_xmlchar c = true /\ is_hi c = false /\ is_lo c = false /\ c <> 0) \/ (0x10000 <= c <= 0x10FFFF).
Proof.
  intros c H. unfold is_cp_char in H. destruct (N.ltb_spec c 0x10000) as [Hl|Hl]; [left|right; lia].
  split; [exact Hl|]. split; [apply is_xmlchar_spec; lia|]. unfold is_hi, is_lo. lia.
Qed.

(* ---- supplementary name characters: the surrogate-pair tests of XMLReader::getName / getNCName (read from
        XMLReader.cpp by the translator) and the model's is_hi_name / is_lo denote exactly [#x10000-#xEFFFF] *)
Definition pair_cp (h l : N) : N := 0x10000 + (h - 0xD800) * 1024 + (l - 0xDC00).
Definition surr_test_ok (t : N * N * N * N) : bool :=
  match t with (a, b, c, d) => (a =? 0xD800) && (b =? 0xDB7F) && (c =? 0xDC00) && (d =? 0xDFFF) end.
Lemma name_surrogates_ok :
  reader_name_surrogate_tests <> [] /\ forallb surr_test_ok reader_name_surrogate_tests = true /\
  (forall h l, is_hi_name h = true -> is_lo l = true -> 0x10000 <= pair_cp h l <= 0xEFFFF) /\
  (forall cp, 0x10000 <= cp <= 0xEFFFF -> exists h l, is_hi_name h = true /\ is_lo l = true /\ pair_cp h l = cp).
Proof.
  split; [discriminate|]. split; [vm_compute; reflexivity|]. split.
  - intros h l Hh Hl. unfold is_hi_name, is_lo, pair_cp in *. lia.
  - intros cp H. exists (0xD800 + (cp - 0x10000) / 1024), (0xDC00 + (cp - 0x10000) mod 1024).
    unfold is_hi_name, is_lo, pair_cp. repeat split; lia.
Qed.
