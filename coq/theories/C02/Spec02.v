(** C02/C03 -- specification side: well-formed DOCTYPE-free XML 1.0 documents as a data type together with all
    their lexical freedoms, the text they denote ([render]) and the content they carry ([events]).
    Nothing here mentions the scanner.

    A lexical document [ldoc] is the document (names, attribute values, character data, CDATA sections, comments,
    processing instructions: the fields read by [events]) decorated with one choice for every freedom the grammar
    leaves: presence and shape of the XML declaration, every white-space run S (which characters, how many), the
    quote of every attribute value, the representation of every character of character data and attribute
    values (literal | decimal reference with arbitrary digit string | hexadecimal reference with arbitrary
    digit string and digit case | predefined entity), [<e/>] versus [<e></e>], white space before [>] / [/>]
    / [?>], and the line-end form (LF | CR LF | CR) of every line break ([eol_expand]).
    [events] reads only the undecorated content, so two lexical documents with the same content have the same
    events by definition; [wf_ldoc] states the well-formedness constraints of XML 1.0 on this representation.
    The body is kept flat (a sequence of start/end/... items, balanced per [body_ok]); the tree view is
    [xnode]/[flatten] at the end of this file. *)
From XV Require Import Base.XDefs C02.Model02.
Local Open Scope N_scope.

(* ---- characters: XML 1.0 production [2] Char, on code points *)
Definition is_cp_char (c : N) : bool :=
  (c =? 9) || (c =? 10) || (c =? 13) || ((32 <=? c) && (c <=? 0xD7FF)) || ((0xE000 <=? c) && (c <=? 0xFFFD)) ||
  ((0x10000 <=? c) && (c <=? 0x10FFFF)).
(* UTF-16 form of a code point *)
Definition u16 (c : N) : str :=
  if c <? 0x10000 then [c] else [0xD800 + (c - 0x10000) / 1024; 0xDC00 + (c - 0x10000) mod 1024].
Definition enc16 (s : list N) : str := flat_map u16 s.

(* ---- names: production [5] Name over UTF-16 units, classes from the generated tables; supplementary name
        characters are the surrogate pairs the implementation accepts (high 0xD800..0xDB7F + low) *)
Fixpoint name_rest_ok (l : str) : bool :=
  match l with
  | [] => true
  | c :: r =>
      if is_hi_name c then match r with d :: r' => is_lo d && name_rest_ok r' | [] => false end
      else is_namechar c && name_rest_ok r
  end.
Definition name_ok (l : str) : bool :=
  match l with
  | [] => false
  | c :: r =>
      if is_hi_name c then match r with d :: r' => is_lo d && name_rest_ok r' | [] => false end
      else is_firstname c && name_rest_ok r
  end.

(* ---- white space S (production [3]) before line-end expansion: SPACE, TAB, LF *)
Definition is_s_char (c : N) : bool := (c =? 32) || (c =? 9) || (c =? 10).
Definition s_ok (w : str) : bool := forallb is_s_char w.
Definition s1_ok (w : str) : bool := negb (is_nil w) && s_ok w.           (* S, at least one *)

(* ---- representation of one character of character data / attribute value *)
Inductive cref :=
| RLit                                   (* the character itself *)
| RDec (ds : list N)                     (* &#ddd;  arbitrary decimal digit string (values 0..9) denoting the code point *)
| RHex (ds : list (N * bool))            (* &#xhhh; digit values 0..15, each with its case (true = upper) *)
| REnt.                                  (* &amp; &lt; &gt; &quot; &apos; *)
Definition lchar := (N * cref)%type.
Definition ltext := list lchar.

Definition dec_char (d : N) : N := 48 + d.
Definition hex_char (p : N * bool) : N := if fst p <? 10 then 48 + fst p else if snd p then 55 + fst p else 87 + fst p.
Definition fold_digits (radix : N) (ds : list N) : N := fold_left (fun v d => v * radix + d) ds 0.
Definition ent_name (c : N) : option str :=
  if c =? c_amp then Some s_amp else if c =? c_lt then Some s_lt else if c =? c_gt then Some s_gt
  else if c =? c_dq then Some s_quot else if c =? c_sq then Some s_apos else None.

Definition render_char (p : lchar) : str :=
  match snd p with
  | RLit => u16 (fst p)
  | RDec ds => [c_amp; c_hash] ++ map dec_char ds ++ [c_semi]
  | RHex ds => [c_amp; c_hash; 120] ++ map hex_char ds ++ [c_semi]
  | REnt => match ent_name (fst p) with Some n => [c_amp] ++ n ++ [c_semi] | None => [] end
  end.
Definition render_text (t : ltext) : str := flat_map render_char t.
Definition text_val (t : ltext) : str := enc16 (map fst t).

(* a reference must denote the character *)
Definition ref_ok (p : lchar) : bool :=
  match snd p with
  | RLit => true
  | RDec ds => negb (is_nil ds) && forallb (fun d => d <? 10) ds && (fold_digits 10 ds =? fst p)
  | RHex ds => negb (is_nil ds) && forallb (fun d => fst d <? 16) ds && (fold_digits 16 (map fst ds) =? fst p)
  | REnt => match ent_name (fst p) with Some _ => true | None => false end
  end.
(* which characters may stand literally in character data (production [14] CharData, section 2.11) ... *)
Definition lit_ok_text (c : N) : bool := negb ((c =? c_lt) || (c =? c_amp) || (c =? c_cr)).
(* ... and in an attribute value quoted with [q] (production [10]).  A literal TAB / LF is legal there and denotes a
   blank (attribute-value normalisation, section 3.3.3): [att_val] *)
Definition lit_ok_att (q c : N) : bool := negb ((c =? c_lt) || (c =? c_amp) || (c =? q) || (c =? c_cr)).
Definition att_char_val (p : lchar) : str :=
  match snd p with RLit => if (fst p =? 9) || (fst p =? 10) then [32] else u16 (fst p) | _ => u16 (fst p) end.
Definition att_val (t : ltext) : str := flat_map att_char_val t.
Definition lchar_ok (lit : N -> bool) (p : lchar) : bool :=
  is_cp_char (fst p) && ref_ok p && match snd p with RLit => lit (fst p) | _ => true end.
(* the literal sequence "]]>" must not occur in character data *)
Fixpoint no_cdend (st : cdst) (t : ltext) : bool :=
  match t with
  | [] => true
  | (c, RLit) :: t' =>
      if c =? c_rbrack then no_cdend (match st with CW => C1 | _ => C2 end) t'
      else if c =? c_gt then match st with C2 => false | _ => no_cdend CW t' end
      else no_cdend CW t'
  | _ :: t' => no_cdend CW t'
  end.
Definition text_ok (t : ltext) : bool := negb (is_nil t) && forallb (lchar_ok lit_ok_text) t && no_cdend CW t.

(* ---- attributes *)
Record lattr := { la_ws : str;            (* S before the name *)
                  la_name : str;
                  la_ws1 : str; la_ws2 : str;   (* S? around '=' *)
                  la_dq : bool;           (* true: "..."   false: '...' *)
                  la_val : ltext }.
Definition quote_of (dq : bool) : N := if dq then c_dq else c_sq.
Definition render_attr (a : lattr) : str :=
  la_ws a ++ la_name a ++ la_ws1 a ++ [c_eq] ++ la_ws2 a ++ [quote_of (la_dq a)] ++ render_text (la_val a) ++
  [quote_of (la_dq a)].
Definition attr_ok (a : lattr) : bool :=
  s1_ok (la_ws a) && name_ok (la_name a) && s_ok (la_ws1 a) && s_ok (la_ws2 a) &&
  forallb (lchar_ok (lit_ok_att (quote_of (la_dq a)))) (la_val a).
Fixpoint names_unique (ns : list str) : bool :=
  match ns with [] => true | n :: r => negb (existsb (str_eqb n) r) && names_unique r end.
Definition attrs_ok (atts : list lattr) : bool := forallb attr_ok atts && names_unique (map la_name atts).
Definition attr_ev (a : lattr) : str * str := (la_name a, att_val (la_val a)).

(* ---- comment / PI / CDATA bodies: code point strings written literally *)
Definition body_chars_ok (s : list N) : bool := forallb (fun c => is_cp_char c && negb (c =? c_cr)) s.
Fixpoint no_dashdash (s : list N) : bool :=            (* no "--" inside and no '-' at the end: production [15] *)
  match s with
  | [] => true
  | c :: r => if c =? c_dash then match r with [] => false | d :: _ => negb (d =? c_dash) && no_dashdash r end
              else no_dashdash r
  end.
Definition comment_ok (s : list N) : bool := body_chars_ok s && no_dashdash s.
Fixpoint no_pi_end (s : list N) : bool :=              (* no "?>" inside: production [16] *)
  match s with
  | [] => true
  | c :: r => negb ((c =? c_quest) && (peek r =? c_gt)) && no_pi_end r
  end.
Definition pi_ok (nsf : bool) (target ws : str) (data : list N) : bool :=
  name_ok target && negb (is_xml_name target) && negb (nsf && has_colon target) &&
  s_ok ws && body_chars_ok data && no_pi_end data &&
  (is_nil data || (negb (is_nil ws) && negb (is_s_char (peek data)))).
Fixpoint no_cdata_end (s : list N) : bool :=           (* no "]]>" inside: production [20] *)
  match s with
  | [] => true
  | c :: r => negb ((c =? c_rbrack) && starts_with [c_rbrack; c_gt] r) && no_cdata_end r
  end.
Definition cdata_ok (s : list N) : bool := body_chars_ok s && no_cdata_end s.

(* ---- items of the document body *)
Inductive litem :=
| LStart (name : str) (atts : list lattr) (ws : str)                     (* <name atts S?> *)
| LEmpty (name : str) (atts : list lattr) (ws : str) (selfclose : bool) (ws2 : str)   (* <name atts S?/> | <name atts S?></name S?> *)
| LEnd (name : str) (ws : str)                                            (* </name S?> *)
| LText (t : ltext)
| LCData (s : list N)
| LComment (s : list N)
| LPI (target ws : str) (data : list N).

Definition s_cdstart : str := [60; 33; 91; 67; 68; 65; 84; 65; 91].      (* "<![CDATA[" *)
Definition s_cdend : str := [93; 93; 62].                                 (* "]]>" *)
Definition s_cmend : str := [45; 45; 62].                                 (* "-->" *)
Definition s_piend : str := [63; 62].                                     (* "?>" *)
Definition s_etag : str := [60; 47].                                      (* "</" *)
Definition render_stag (name : str) (atts : list lattr) (ws : str) (close : str) : str :=
  [c_lt] ++ name ++ flat_map render_attr atts ++ ws ++ close.
Definition render_pi (target ws : str) (data : list N) : str := s_pi ++ target ++ ws ++ enc16 data ++ s_piend.
Definition render_comment (s : list N) : str := s_comment ++ enc16 s ++ s_cmend.
Definition render_item (i : litem) : str :=
  match i with
  | LStart n atts ws => render_stag n atts ws [c_gt]
  | LEmpty n atts ws true _ => render_stag n atts ws [c_slash; c_gt]
  | LEmpty n atts ws false ws2 => render_stag n atts ws [c_gt] ++ s_etag ++ n ++ ws2 ++ [c_gt]
  | LEnd n ws => s_etag ++ n ++ ws ++ [c_gt]
  | LText t => render_text t
  | LCData s => s_cdstart ++ enc16 s ++ s_cdend
  | LComment s => render_comment s
  | LPI t ws d => render_pi t ws d
  end.
Definition item_events (i : litem) : list event :=
  match i with
  | LStart n atts _ => [EvStart n (map attr_ev atts)]
  | LEmpty n atts _ _ _ => [EvStart n (map attr_ev atts); EvEnd n]
  | LEnd n _ => [EvEnd n]
  | LText t => [EvText (text_val t)]
  | LCData s => [EvCData (enc16 s)]
  | LComment s => [EvComment (enc16 s)]
  | LPI t _ d => [EvPI t (enc16 d)]
  end.
(* names usable when namespace processing is on without declaring prefixes (prefix resolution is property C06) *)
Definition ns_name_ok (nsf : bool) (n : str) : bool := negb (ns_unsupported nsf n).
Definition item_ok (nsf : bool) (i : litem) : bool :=
  match i with
  | LStart n atts ws => name_ok n && ns_name_ok nsf n && attrs_ok atts && forallb (fun a => ns_name_ok nsf (la_name a)) atts && s_ok ws
  | LEmpty n atts ws _ ws2 => name_ok n && ns_name_ok nsf n && attrs_ok atts && forallb (fun a => ns_name_ok nsf (la_name a)) atts && s_ok ws && s_ok ws2
  | LEnd n ws => s_ok ws
  | LText t => text_ok t
  | LCData s => cdata_ok s
  | LComment s => comment_ok s
  | LPI t ws d => pi_ok nsf t ws d
  end.
(* element structure: tags balanced and name-matched, exactly one root, character data / CDATA only inside
   the root, no two adjacent character-data items (they would be one item) *)
Definition is_text (i : litem) : bool := match i with LText _ => true | _ => false end.
Fixpoint body_ok (stack : list str) (items : list litem) : bool :=
  match items with
  | [] => false
  | i :: rest =>
      match i with
      | LStart n _ _ => body_ok (n :: stack) rest
      | LEmpty _ _ _ _ _ => if is_nil stack then is_nil rest else body_ok stack rest
      | LEnd n _ =>
          match stack with
          | [] => false
          | top :: st' => str_eqb n top && (if is_nil st' then is_nil rest else body_ok st' rest)
          end
      | LText _ => negb (is_nil stack) && negb (match rest with j :: _ => is_text j | [] => false end) && body_ok stack rest
      | _ => negb (is_nil stack) && body_ok stack rest
      end
  end.

(* ---- Misc before and after the root *)
Inductive lmisc := MComment (s : list N) | MPI (target ws : str) (data : list N) | MWs (w : str).
Definition render_misc (m : lmisc) : str :=
  match m with MComment s => render_comment s | MPI t ws d => render_pi t ws d | MWs w => w end.
Definition misc_events (m : lmisc) : list event :=
  match m with MComment s => [EvComment (enc16 s)] | MPI t _ d => [EvPI t (enc16 d)] | MWs _ => [] end.
Definition misc_ok (nsf : bool) (m : lmisc) : bool :=
  match m with MComment s => comment_ok s | MPI t ws d => pi_ok nsf t ws d | MWs w => s1_ok w end.

(* ---- XML declaration (production [23]); version 1.0 *)
Record lpseudo := { p_ws : str; p_ws1 : str; p_ws2 : str; p_dq : bool }.   (* S name S? = S? quote *)
Record ldecl := { d_ver : lpseudo;
                  d_enc : option (lpseudo * str);           (* encoding name *)
                  d_sd : option (lpseudo * bool);           (* standalone yes/no *)
                  d_wsend : str }.
Definition render_pseudo (p : lpseudo) (name value : str) : str :=
  p_ws p ++ name ++ p_ws1 p ++ [c_eq] ++ p_ws2 p ++ [quote_of (p_dq p)] ++ value ++ [quote_of (p_dq p)].
Definition render_decl (d : ldecl) : str :=
  s_xmldecl ++ render_pseudo (d_ver d) s_version s_1_0 ++
  match d_enc d with Some (p, n) => render_pseudo p s_encoding n | None => [] end ++
  match d_sd d with Some (p, b) => render_pseudo p s_standalone (if b then s_yes else s_no) | None => [] end ++
  d_wsend d ++ s_piend.
Definition pseudo_ok (p : lpseudo) : bool := s1_ok (p_ws p) && s_ok (p_ws1 p) && s_ok (p_ws2 p).
Definition decl_ok (d : ldecl) : bool :=
  pseudo_ok (d_ver d) &&
  match d_enc d with Some (p, n) => pseudo_ok p && valid_enc_name n && enc_supported n | None => true end &&
  match d_sd d with Some (p, _) => pseudo_ok p | None => true end && s_ok (d_wsend d).

(* ---- documents *)
Record ldoc := { ld_decl : option ldecl; ld_prolog : list lmisc; ld_body : list litem; ld_epilog : list lmisc }.
Definition render1 (d : ldoc) : str :=
  match ld_decl d with Some x => render_decl x | None => [] end ++
  flat_map render_misc (ld_prolog d) ++ flat_map render_item (ld_body d) ++ flat_map render_misc (ld_epilog d).
Definition events (d : ldoc) : list event :=
  flat_map misc_events (ld_prolog d) ++ flat_map item_events (ld_body d) ++ flat_map misc_events (ld_epilog d).
Definition wf_ldoc (nsf : bool) (d : ldoc) : bool :=
  match ld_decl d with Some x => decl_ok x | None => true end &&
  forallb (misc_ok nsf) (ld_prolog d) && forallb (item_ok nsf) (ld_body d) && body_ok [] (ld_body d) &&
  forallb (misc_ok nsf) (ld_epilog d).

(* ---- line ends (section 2.11): every LF of the text may be written LF, CR LF or CR *)
Inductive eolc := EolLF | EolCRLF | EolCR.
Fixpoint eol_expand (s : str) (ch : list eolc) : str :=
  match s with
  | [] => []
  | c :: r =>
      if c =? c_lf then
        match ch with
        | EolCRLF :: ch' => c_cr :: c_lf :: eol_expand r ch'
        | EolCR :: ch' => c_cr :: eol_expand r ch'
        | EolLF :: ch' => c_lf :: eol_expand r ch'
        | [] => c_lf :: eol_expand r []
        end
      else c :: eol_expand r ch
  end.
(* a lone CR must not be followed by a character that is itself an LF not produced from the same break; the
   expansion above keeps that: "CR" then an original LF would read as one break, so [EolCR] is only allowed
   when the next character of the text is not LF *)
Fixpoint eol_choices_ok (s : str) (ch : list eolc) : bool :=
  match s with
  | [] => true
  | c :: r =>
      if c =? c_lf then
        match ch with
        | EolCR :: ch' => negb (peek r =? c_lf) && eol_choices_ok r ch'
        | _ :: ch' => eol_choices_ok r ch'
        | [] => eol_choices_ok r []
        end
      else eol_choices_ok r ch
  end.
Definition render (d : ldoc) (ch : list eolc) : str := eol_expand (render1 d) ch.
