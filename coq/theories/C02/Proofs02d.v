(** C02 proofs, part d: processing instructions, end tags and start tags with their attribute lists. *)
From Coq Require Import ZArith ZifyBool ZifyN ZifyNat Lia.
From XV Require Import Base.XDefs Gen.GenXMLChar Gen.GenErrs C02.Model02 C02.Spec02 C02.Proofs02a C02.Proofs02b C02.Proofs02c.
Local Open Scope N_scope.
Ltac Zify.zify_post_hook ::= Z.div_mod_to_equations.

Lemma not_ws_char : forall c r, is_ws c = false -> not_ws_head (c :: r).
Proof. intros c r H. exact H. Qed.
Lemma s_ok_head : forall w rest, s_ok w = true -> w <> [] -> name_stop (w ++ rest).
Proof. intros [|c w] rest H Hn; [contradiction|]. cbn [s_ok forallb] in H. apply andb_true_iff in H.
  cbn [app name_stop]. apply s_char_follow. tauto. Qed.
Lemma name_stop_s : forall w rest, s_ok w = true -> name_stop rest -> name_stop (w ++ rest).
Proof. intros w rest H Hr. destruct w as [|c w]; [exact Hr|]. apply s_ok_head; [exact H|discriminate]. Qed.
Lemma name_not_ws_head : forall n rest, name_ok n = true -> not_ws_head (n ++ rest).
Proof. intros n rest H. destruct (name_head n H) as [c [r [E [_ [W _]]]]]. subst n. exact W. Qed.

(* ---- processing instructions *)
Lemma enc16_not_ws_head : forall d t, body_chars_ok d = true -> is_s_char (peek d) = false -> not_ws_head t ->
  not_ws_head (enc16 d ++ t).
Proof.
  intros d t Hb Hs Ht. destruct d as [|e d]; [exact Ht|]. destruct (body_chars_cons e d Hb) as [He [H13 _]].
  unfold enc16. cbn [flat_map]. rewrite <- app_assoc. pose proof (units_of_u16 e He) as U.
  cbn [peek] in Hs. inversion U as [A B C D E Eq|h l Hh Hl Eq]; cbn [app]; unfold not_ws_head, starts_ws.
  - destruct (is_ws e) eqn:W; [|reflexivity]. apply is_ws_spec in W. unfold is_s_char in Hs. lia.
  - destruct (is_ws h) eqn:W; [|reflexivity]. apply is_ws_spec in W. lia.
Qed.
Lemma scan_pi_ok : forall nsf t ws d rest, pi_ok nsf t ws d = true ->
  scan_pi nsf (t ++ ws ++ enc16 d ++ s_piend ++ rest) = SOk (EvPI t (enc16 d)) rest.
Proof.
  intros nsf t ws d rest H. unfold pi_ok in H.
  repeat (apply andb_true_iff in H; let X := fresh "P" in destruct H as [H X]).
  rename H into Pn. (* P P0 P1 P2 P3 P4 *)
  unfold scan_pi. pose proof (name_not_ws_head t (ws ++ enc16 d ++ s_piend ++ rest) Pn) as NW.
  unfold not_ws_head in NW. rewrite NW.
  assert (ST : name_stop (ws ++ enc16 d ++ s_piend ++ rest)).
  { destruct ws as [|w ws]; [|apply s_ok_head; [exact P2|discriminate]].
    cbn [app]. destruct d as [|e d]; [reflexivity|]. cbn [is_nil orb andb negb] in P. discriminate. }
  rewrite (get_name_app t _ Pn ST).
  replace (is_xml_name t) with false by (destruct (is_xml_name t); [discriminate|reflexivity]).
  replace (nsf && has_colon t) with false by (destruct (nsf && has_colon t); [discriminate|reflexivity]).
  destruct ws as [|w ws].
  - cbn [app]. destruct d as [|e d]; [|cbn [is_nil orb andb negb] in P; discriminate]. reflexivity.
  - assert (SW : starts_ws ((w :: ws) ++ enc16 d ++ s_piend ++ rest) = true).
    { cbn [s_ok forallb] in P2. apply andb_true_iff in P2. cbn [app starts_ws]. apply s_char_ws. tauto. }
    rewrite SW.
    assert (NH : not_ws_head (enc16 d ++ s_piend ++ rest)).
    { destruct d as [|e d]; [reflexivity|]. apply enc16_not_ws_head; [exact P1| |reflexivity].
      cbn [is_nil orb] in P. apply andb_true_iff in P. destruct P as [_ P]. destruct (is_s_char (peek (e :: d))); [discriminate|reflexivity]. }
    rewrite (skip_ws_app _ _ P2 NH). rewrite (scan_pi_data_ok d rest P1 P0). reflexivity.
Qed.

(* ---- end tags *)
Lemma scan_endtag_ok : forall n ws rest, s_ok ws = true ->
  scan_endtag n (n ++ ws ++ c_gt :: rest) = SOk tt rest.
Proof. intros n ws rest H. unfold scan_endtag. rewrite strip_prefix_app.
  rewrite (skip_ws_app ws (c_gt :: rest) H) by reflexivity. reflexivity. Qed.

(* ---- attributes *)
Definition attr_body (a : lattr) : str :=
  la_name a ++ la_ws1 a ++ [c_eq] ++ la_ws2 a ++ [quote_of (la_dq a)] ++ render_text (la_val a) ++ [quote_of (la_dq a)].
Lemma render_attr_body : forall a, render_attr a = la_ws a ++ attr_body a.
Proof. reflexivity. Qed.
Lemma str_eqb_sym : forall a b, str_eqb a b = str_eqb b a.
Proof. induction a as [|x a IH]; intros [|y b]; cbn [str_eqb]; try reflexivity. rewrite N.eqb_sym, IH. reflexivity. Qed.
Lemma unique_not_in : forall pre n post, names_unique (pre ++ n :: post) = true -> existsb (str_eqb n) pre = false.
Proof.
  induction pre as [|x pre IH]; intros n post H; [reflexivity|].
  cbn [app names_unique] in H. apply andb_true_iff in H. destruct H as [H1 H2]. cbn [existsb].
  rewrite (IH n post H2). rewrite orb_false_r.
  rewrite existsb_app in H1. cbn [existsb] in H1. rewrite str_eqb_sym.
  destruct (str_eqb x n) eqn:E; [|reflexivity]. exfalso. destruct (existsb (str_eqb x) pre); cbn [orb negb] in H1; discriminate.
Qed.
Lemma quote_cases : forall b, quote_of b = c_dq \/ quote_of b = c_sq.
Proof. intros [|]; [left|right]; reflexivity. Qed.

(* the body of one attribute, reached after the white-space rule of the loop *)
Lemma attr_body_step : forall nsf a (K : str -> option (str * str) -> sres (list (str * str) * bool)) acc tail f,
  attr_ok a = true -> ns_name_ok nsf (la_name a) = true -> existsb (str_eqb (la_name a)) (map fst acc) = false ->
  match get_name (attr_body a ++ tail) with
  | None => SStop (Fatal EC_ExpectedAttrName)
  | Some (an, l2) =>
      if ns_unsupported nsf an then SStop Unsupported else
      match scan_eq l2 with
      | None => SStop (Fatal EC_ExpectedEqSign)
      | Some l3 =>
          if existsb (str_eqb an) (map fst acc) then SStop (Fatal EC_AttrAlreadyUsedInSTag) else
          match l3 with
          | q :: l4 =>
              if (q =? c_dq) || (q =? c_sq) then
                match scan_attval (S (length l4)) q false l4 with
                | SOk v l5 => scan_attrs f nsf (acc ++ [(an, v)]) l5
                | SStop s => SStop s
                end
              else SStop (Fatal EC_ExpectedAttrValue)
          | [] => SStop (Fatal EC_ExpectedAttrValue)
          end
      end
  end = scan_attrs f nsf (acc ++ [attr_ev a]) tail.
Proof.
  intros nsf a K acc tail f Ha Hns Hu. unfold attr_ok in Ha.
  repeat (apply andb_true_iff in Ha; let X := fresh "A" in destruct Ha as [Ha X]).
  (* Ha: s1_ok ws; A2: name; A1: ws1; A0: ws2; A: value *)
  unfold attr_body. rewrite <- !app_assoc.
  assert (ST : name_stop (la_ws1 a ++ [c_eq] ++ la_ws2 a ++ [quote_of (la_dq a)] ++ render_text (la_val a) ++ [quote_of (la_dq a)] ++ tail)).
  { apply name_stop_s; [exact A1|]. reflexivity. }
  rewrite (get_name_app _ _ A2 ST).
  unfold ns_name_ok in Hns. destruct (ns_unsupported nsf (la_name a)); [discriminate|].
  unfold scan_eq. rewrite (skip_ws_app _ _ A1) by reflexivity. cbn [app]. rewrite N.eqb_refl.
  assert (QW : not_ws_head (quote_of (la_dq a) :: render_text (la_val a) ++ quote_of (la_dq a) :: tail)).
  { destruct (la_dq a); reflexivity. }
  rewrite (skip_ws_app _ _ A0 QW). rewrite Hu.
  assert (QQ : (quote_of (la_dq a) =? c_dq) || (quote_of (la_dq a) =? c_sq) = true) by (destruct (la_dq a); reflexivity).
  rewrite QQ.
  rewrite (scan_attval_ok _ (quote_cases (la_dq a)) (la_val a) _ tail A).
  - reflexivity.
  - rewrite app_length. cbn [length]. lia.
Qed.

Lemma attr_ok_inv : forall a, attr_ok a = true ->
  s1_ok (la_ws a) = true /\ name_ok (la_name a) = true /\ s_ok (la_ws1 a) = true /\ s_ok (la_ws2 a) = true.
Proof. intros a H. unfold attr_ok in H. rewrite !andb_true_iff in H. tauto. Qed.

Definition close_of (empty : bool) : str := if empty then [c_slash; c_gt] else [c_gt].
Lemma attrs_end : forall f nsf acc ws empty rest, s_ok ws = true -> (acc <> [] \/ ws = []) ->
  scan_attrs (S f) nsf acc (ws ++ close_of empty ++ rest) = SOk (acc, empty) rest.
Proof.
  intros f nsf acc ws empty rest Hw Hc. cbn [scan_attrs].
  match goal with |- match ?X with _ => _ end = _ => assert (E : X = inl (close_of empty ++ rest)) end.
  { destruct ws as [|w ws].
    - cbn [app]. destruct empty; cbn [close_of app peek]; rewrite ?N.eqb_refl, ?orb_true_r; cbn [orb negb andb]; rewrite ?andb_false_r; reflexivity.
    - destruct Hc as [Hc|Hc]; [|discriminate]. destruct acc as [|x acc]; [contradiction|]. cbn [is_nil negb andb].
      cbn [s_ok forallb] in Hw. apply andb_true_iff in Hw as Hw'. destruct Hw' as [Hw0 _].
      cbn [app peek]. assert (w <> c_slash /\ w <> c_gt) by (unfold is_s_char, c_slash, c_gt in *; lia).
      rewrite (eqb_false w c_slash), (eqb_false w c_gt) by tauto. cbn [orb negb].
      cbn [starts_ws]. rewrite (s_char_ws w Hw0).
      change (w :: ws ++ close_of empty ++ rest) with ((w :: ws) ++ close_of empty ++ rest).
      rewrite (skip_ws_app (w :: ws) (close_of empty ++ rest) Hw) by (destruct empty; reflexivity). reflexivity. }
  rewrite E. destruct empty; reflexivity.
Qed.

Lemma attrs_loop : forall nsf atts acc f ws empty rest,
  forallb attr_ok atts = true -> forallb (fun a => ns_name_ok nsf (la_name a)) atts = true ->
  names_unique (map fst acc ++ map la_name atts) = true -> acc <> [] -> s_ok ws = true -> (length atts < f)%nat ->
  scan_attrs f nsf acc (flat_map render_attr atts ++ ws ++ close_of empty ++ rest) =
    SOk (acc ++ map attr_ev atts, empty) rest.
Proof.
  intros nsf. induction atts as [|a atts IH]; intros acc f ws empty rest Ha Hn Hu Hacc Hw Hf.
  - destruct f as [|f]; [inversion Hf|]. cbn [flat_map app map]. rewrite app_nil_r. apply attrs_end; [exact Hw|left; exact Hacc].
  - destruct f as [|f]; [inversion Hf|]. cbn [forallb] in Ha, Hn. apply andb_true_iff in Ha. destruct Ha as [Ha Has].
    apply andb_true_iff in Hn. destruct Hn as [Hn Hns]. cbn [flat_map]. rewrite render_attr_body, <- !app_assoc.
    cbn [scan_attrs].
    destruct (attr_ok_inv a Ha) as [AW [AN _]].
    set (TL := flat_map render_attr atts ++ ws ++ close_of empty ++ rest).
    destruct (la_ws a) as [|w wr] eqn:EW; [discriminate|].
    pose proof (s1_s _ AW) as AWs. cbn [s_ok forallb] in AWs. apply andb_true_iff in AWs as AW'. destruct AW' as [Hw0 _].
    destruct acc as [|x acc]; [contradiction|]. cbn [is_nil negb andb].
    cbn [app peek]. assert (w <> c_slash /\ w <> c_gt) by (unfold is_s_char, c_slash, c_gt in *; lia).
    rewrite (eqb_false w c_slash), (eqb_false w c_gt) by tauto. cbn [orb negb].
    cbn [starts_ws]. rewrite (s_char_ws w Hw0).
    change (w :: wr ++ attr_body a ++ TL) with ((w :: wr) ++ attr_body a ++ TL).
    assert (NB : not_ws_head (attr_body a ++ TL)).
    { unfold attr_body. rewrite <- app_assoc. apply name_not_ws_head. exact AN. }
    rewrite (skip_ws_app (w :: wr) _ AWs NB).
    assert (PK : is_special (peek (attr_body a ++ TL)) = false).
    { unfold attr_body. rewrite <- app_assoc. destruct (name_head _ AN) as [c [r [E [S _]]]]. rewrite E. exact S. }
    rewrite PK. cbn [negb].
    assert (HU : existsb (str_eqb (la_name a)) (map fst (x :: acc)) = false).
    { cbn [map] in Hu. exact (unique_not_in _ _ _ Hu). }
    refine (eq_trans (attr_body_step nsf a (fun _ _ => SStop OutOfFuel) (x :: acc) TL f Ha Hn HU) _).
    subst TL. rewrite (IH ((x :: acc) ++ [attr_ev a]) f ws empty rest Has Hns).
    + rewrite <- app_assoc. reflexivity.
    + rewrite map_app. cbn [map attr_ev fst]. rewrite <- app_assoc. exact Hu.
    + destruct acc; discriminate.
    + exact Hw.
    + cbn [length] in Hf. lia.
Qed.

Lemma attrs_len : forall atts, (length atts <= length (flat_map render_attr atts))%nat.
Proof. induction atts as [|b atts IH]; cbn [length flat_map]; [lia|].
  assert (1 <= length (render_attr b))%nat by (unfold render_attr; rewrite !app_length; cbn [length]; lia).
  rewrite app_length. lia. Qed.

(* ---- start tags *)
Lemma scan_starttag_ok : forall nsf n atts ws empty rest,
  name_ok n = true -> ns_name_ok nsf n = true -> attrs_ok atts = true ->
  forallb (fun a => ns_name_ok nsf (la_name a)) atts = true -> s_ok ws = true ->
  scan_starttag nsf (n ++ flat_map render_attr atts ++ ws ++ close_of empty ++ rest) =
    SOk (n, map attr_ev atts, empty) rest.
Proof.
  intros nsf n atts ws empty rest Hn Hns Ha Hans Hw. unfold attrs_ok in Ha. apply andb_true_iff in Ha. destruct Ha as [Ha Hu].
  unfold scan_starttag.
  assert (ST : name_stop (flat_map render_attr atts ++ ws ++ close_of empty ++ rest)).
  { destruct atts as [|a atts].
    - cbn [flat_map app]. apply name_stop_s; [exact Hw|]. destruct empty; reflexivity.
    - cbn [flat_map]. rewrite render_attr_body, <- !app_assoc. cbn [forallb] in Ha. apply andb_true_iff in Ha. destruct Ha as [Ha _].
      destruct (attr_ok_inv a Ha) as [AW _].
      apply s_ok_head; [apply s1_s; exact AW|]. unfold s1_ok in AW. destruct (la_ws a); [discriminate|discriminate]. }
  rewrite (get_name_app n _ Hn ST). unfold ns_name_ok in Hns. destruct (ns_unsupported nsf n); [discriminate|].
  destruct atts as [|a atts].
  - cbn [flat_map app]. rewrite (skip_ws_app ws _ Hw) by (destruct empty; reflexivity).
    rewrite (attrs_end _ nsf [] [] empty rest eq_refl (or_intror eq_refl)). reflexivity.
  - cbn [flat_map]. rewrite render_attr_body, <- !app_assoc.
    cbn [forallb] in Ha, Hans. apply andb_true_iff in Ha. destruct Ha as [Ha Has].
    apply andb_true_iff in Hans. destruct Hans as [Hn1 Hns1].
    destruct (attr_ok_inv a Ha) as [AW [AN _]].
    set (TL := flat_map render_attr atts ++ ws ++ close_of empty ++ rest).
    assert (NB : not_ws_head (attr_body a ++ TL)).
    { unfold attr_body. rewrite <- app_assoc. apply name_not_ws_head. exact AN. }
    rewrite (skip_ws_app _ _ (s1_s _ AW) NB).
    cbn [scan_attrs is_nil negb andb].
    assert (PK : is_special (peek (attr_body a ++ TL)) = false).
    { unfold attr_body. rewrite <- app_assoc. destruct (name_head _ AN) as [c [r [E [S _]]]]. rewrite E. exact S. }
    rewrite PK. cbn [negb].
    rewrite (attr_body_step nsf a (fun _ _ => SStop OutOfFuel) [] TL _ Ha Hn1 eq_refl).
    subst TL. cbn [app].
    rewrite (attrs_loop nsf atts [attr_ev a] _ ws empty rest Has Hns1).
    + reflexivity.
    + cbn [map attr_ev fst app]. cbn [map] in Hu. exact Hu.
    + discriminate.
    + exact Hw.
    + rewrite !app_length. cbn [length]. unfold attr_body. rewrite !app_length. cbn [length].
      pose proof (attrs_len atts). lia.
Qed.
