(** Property C02 -- fatal error iff the document is not well-formed.  (work in progress: theorems are added below) *)
From XV Require Import Base.XDefs Gen.GenXMLChar Gen.GenErrs C02.Model02 C02.Spec02.
Local Open Scope N_scope.

(** every error code the model can emit lies in the fatal range F_LowBounds..F_HighBounds of the generated
    XMLErrorCodes partition: re-classifying one of them as error/warning breaks this obligation *)
Theorem T02_severity : forall e : ecode, XMLErrs_isFatal (code_num e) = true.
Proof. intros e; destruct e; vm_compute; reflexivity. Qed.
Print Assumptions T02_severity.
