(** Property C02 -- a fatal error is reported iff the document is not well-formed.
    Only the property theorems: each is closed by a lemma of Proofs02*.v and followed by [Print Assumptions].
    Model: Model02.v (WFXMLScanner / XMLScanner, DOCTYPE-free documents, XML 1.0; character classes and error-code
    severities regenerated from /repo on every run).  Spec: Spec02.v (lexical documents, render, events, wf_ldoc). *)
From XV Require Import Base.XDefs Gen.GenXMLChar Gen.GenErrs C02.Model02 C02.Spec02 C02.Proofs02a C02.Proofs02b C02.Proofs02c
  C02.Proofs02d C02.Proofs02e C02.Model02e C02.Proofs02f.
Local Open Scope N_scope.

(** every error code the model can emit lies in the fatal range F_LowBounds..F_HighBounds of the generated
    XMLErrorCodes partition: re-classifying one of them as error/warning breaks this obligation *)
Theorem T02_severity : forall e : ecode, XMLErrs_isFatal (code_num e) = true.
Proof. intros e; destruct e; vm_compute; reflexivity. Qed.
Print Assumptions T02_severity.

(** ACCEPT SIDE (partial, see below): every well-formed lexical document is scanned without error and the events
    delivered are exactly [events d] -- for every choice of quotes, white space, character / entity references,
    empty-element form and line-end form, with namespace processing on or off.  Since [events] does not read the
    lexical decorations, this is also C03's "the content reported is independent of every lexical choice".
    PARTIAL in three respects (each covered by the correspondence on every run, not by this proof):
    (1) no XML declaration ([ld_decl d = None]); (2) the Misc before and after the root element are comments and
    white space (processing instructions are proved inside the root element only); (3) the fact that the rendering
    of a well-formed document contains no CR before line-end expansion is a hypothesis ([no_cr]) instead of a lemma. *)
Theorem T02_accept_partial : forall nsf d ch,
  wf_ldoc nsf d = true -> ld_decl d = None ->
  forallb misc_simple (ld_prolog d) = true -> forallb misc_simple (ld_epilog d) = true ->
  no_cr (render1 d) = true -> eol_choices_ok (render1 d) ch = true ->
  xscan {| ns := nsf |} (render d ch) = (events d, OOk).
Proof.
  intros nsf d ch Hwf Hd Hp He Hcr Hch. unfold xscan, render. cbn [ns].
  rewrite (eol_roundtrip _ _ Hcr Hch). exact (scan_doc_ok nsf d Hwf Hd Hp He).
Qed.
Print Assumptions T02_accept_partial.

(** the pieces of the accept side, each at full strength for its construct *)
Theorem T02_accept_attvalue : forall q, (q = c_dq \/ q = c_sq) -> forall v fuel rest,
  forallb (lchar_ok (lit_ok_att q)) v = true -> (length (render_text v) < fuel)%nat ->
  scan_attval fuel q false (render_text v ++ q :: rest) = SOk (att_val v) rest.
Proof. exact scan_attval_ok. Qed.
Print Assumptions T02_accept_attvalue.
Theorem T02_accept_chardata : forall t fuel st rest,
  forallb (lchar_ok lit_ok_text) t = true -> no_cdend st t = true -> (length (render_text t) < fuel)%nat ->
  scan_chardata fuel st false (render_text t ++ c_lt :: rest) = SOk (text_val t) (c_lt :: rest).
Proof. exact scan_chardata_ok. Qed.
Print Assumptions T02_accept_chardata.
Theorem T02_accept_starttag : forall nsf n atts ws empty rest,
  name_ok n = true -> ns_name_ok nsf n = true -> attrs_ok atts = true ->
  forallb (fun a => ns_name_ok nsf (la_name a)) atts = true -> s_ok ws = true ->
  scan_starttag nsf (n ++ flat_map render_attr atts ++ ws ++ close_of empty ++ rest) = SOk (n, map attr_ev atts, empty) rest.
Proof. exact scan_starttag_ok. Qed.
Print Assumptions T02_accept_starttag.
Theorem T02_accept_pi : forall nsf t ws d rest, pi_ok nsf t ws d = true ->
  scan_pi nsf (t ++ ws ++ enc16 d ++ s_piend ++ rest) = SOk (EvPI t (enc16 d)) rest.
Proof. exact scan_pi_ok. Qed.
Print Assumptions T02_accept_pi.
Theorem T02_accept_comment : forall s rest, comment_ok s = true ->
  scan_comment CmText false (enc16 s ++ s_cmend ++ rest) = SOk (enc16 s) rest.
Proof. exact scan_comment_ok. Qed.
Print Assumptions T02_accept_comment.
Theorem T02_accept_cdata : forall s rest, body_chars_ok s = true -> no_cdata_end s = true ->
  scan_cdata_body false (enc16 s ++ s_cdend ++ rest) = SOk (enc16 s) rest.
Proof. exact scan_cdata_body_ok. Qed.
Print Assumptions T02_accept_cdata.
Theorem T02_accept_content : forall nsf items stack fuel rest,
  forallb (item_ok nsf) items = true -> body_ok stack items = true ->
  (length (flat_map render_item items) < fuel)%nat ->
  content fuel nsf stack (flat_map render_item items ++ rest) = (flat_map item_events items, SOk tt rest).
Proof. exact content_ok. Qed.
Print Assumptions T02_accept_content.

(** line-end forms: the reader's normalisation undoes every legal expansion of the line breaks *)
Theorem T02_eol_roundtrip : forall s ch, no_cr s = true -> eol_choices_ok s ch = true -> eol_norm (eol_expand s ch) = s.
Proof. exact eol_roundtrip. Qed.
Print Assumptions T02_eol_roundtrip.

(** character-class obligations over the regenerated tables that the proofs rest on (an edit of a table entry that
    matters for these constructs breaks them): white space is exactly S; Char below U+10000 is production [2];
    the characters that may follow a name are not name characters; name-start characters are not "special
    start-tag characters" (the start-tag loop would otherwise misread an attribute name) *)
Theorem T02_tables : (forall c, is_ws c = true <-> (c = 9 \/ c = 10 \/ c = 13 \/ c = 32)) /\
  (forall c, is_xmlchar c = true <-> (c = 9 \/ c = 10 \/ c = 13 \/ (32 <= c <= 0xD7FF) \/ (0xE000 <= c <= 0xFFFD))) /\
  (forall c, in_ranges c follow = true -> is_namechar c = false) /\
  (forall c, is_firstname c = true -> is_special c = false).
Proof. repeat split; try apply is_ws_spec; try apply is_xmlchar_spec; [exact namechar_follow|exact firstname_not_special]. Qed.
Print Assumptions T02_tables.

(** supplementary name characters: every surrogate-pair test in XMLReader::getName / getNCName (constants read from
    XMLReader.cpp on every run) is  0xD800 <= high <= 0xDB7F, 0xDC00 <= low <= 0xDFFF, and these pairs - the model's
    is_hi_name / is_lo - are exactly the code points [#x10000-#xEFFFF] of productions [4]/[4a]; widening a bound
    (e.g. to 0xDBFF, which would admit the private-use planes 15/16 into names) breaks this obligation *)
Theorem T02_name_surrogates :
  reader_name_surrogate_tests <> [] /\ forallb surr_test_ok reader_name_surrogate_tests = true /\
  (forall h l, is_hi_name h = true -> is_lo l = true -> 0x10000 <= pair_cp h l <= 0xEFFFF) /\
  (forall cp, 0x10000 <= cp <= 0xEFFFF -> exists h l, is_hi_name h = true /\ is_lo l = true /\ pair_cp h l = cp).
Proof. exact name_surrogates_ok. Qed.
Print Assumptions T02_name_surrogates.

(** ENTITY LAYER (Model02e.v): internal general entities, each replacement text scanned as [content] on its own (XML 1.0
    4.3.2) and, in attribute values, as attribute text.  It is a conservative extension: without declared entities its
    content loop, start-tag scanner, attribute-value and character-data scanners are the DOCTYPE-free model's, so every
    theorem above carries over to documents whose DTD declares no general entity. *)
Theorem T02_entity_layer_conservative : forall fuel nsf stack l,
  econtent fuel nsf [] [] false stack l = content fuel nsf stack l.
Proof. exact econtent_nil. Qed.
Print Assumptions T02_entity_layer_conservative.
Theorem T02_entity_layer_conservative_attval : forall fuel q sur l, eattval fuel [] q sur l = scan_attval fuel q sur l.
Proof. exact eattval_nil. Qed.
Print Assumptions T02_entity_layer_conservative_attval.
(** executions of the entity layer (not universal claims): an element may not start in one entity and end in another -
    side by side or nested -, a quote inside a referenced entity does not end the attribute value, recursion is an error *)
Definition A (s : list N) := s.
Example T02_entity_examples :
  let e1 := ([101;49], [60;98;62;116]) in                 (* e1 = "<b>t" *)
  let e2 := ([101;50], [109;60;47;98;62]) in              (* e2 = "m</b>" *)
  let inner := ([105], [60;47;98;62]) in                  (* i  = "</b>" *)
  let outer := ([111], [60;98;62;38;105;59]) in           (* o  = "<b>&i;" *)
  let q := ([113], [105;116;39;115]) in                   (* q  = "it's" *)
  let el := ([108], [60;101;32;120;61;39;38;113;59;32;102;39;47;62]) in   (* l = "<e x='&q; f'/>" *)
  let rc := ([114], [97;38;114;59]) in                    (* r  = "a&r;" *)
  snd (escan_doc false [e1; e2] [60;97;62;38;101;49;59;38;101;50;59;60;47;97;62]) = OStop (Fatal EC_PartialTagMarkupError) /\
  snd (escan_doc false [inner; outer] [60;97;62;38;111;59;60;47;97;62]) = OStop (Fatal EC_PartialTagMarkupError) /\
  escan_doc false [q; el] [60;97;62;38;108;59;60;47;97;62] =
    ([EvStart [97] []; EvStart [101] [([120], [105;116;39;115;32;102])]; EvEnd [101]; EvEnd [97]], OOk) /\
  snd (escan_doc false [rc] [60;97;62;38;114;59;60;47;97;62]) = OStop (Fatal EC_RecursiveEntity).
Proof. vm_compute. repeat split; reflexivity. Qed.

(** REJECT SIDE.  Full statement (NOT proved; no counterexample is known for the model as it stands):
      T02_reject : forall cfg s ev, xscan cfg s = (ev, OOk) ->
                   exists d ch, wf_ldoc (ns cfg) d = true /\ eol_choices_ok (render1 d) ch = true /\ s = render d ch /\ ev = events d.
    The former counterexamples are gone: the model follows the repaired scanners (F41: a NUL after the root element is
    InvalidCharacter; F42: an unpaired high surrogate before the closing quote / before "?>" is Expected2ndSurrogateChar)
    and the repair proposed in fixes/C02-surrogate-before-reference.patch (an unpaired high surrogate before a
    character / entity reference).  The three theorems below are the universal statements for exactly these holes; the
    correspondence checks the reject side on every run with single-constraint mutants. *)
Definition S (l : list N) := l.
(** F41 repaired: whatever follows the root element, a document that still contains a NUL character there is fatal *)
Theorem T02_nul_epilog_fatal : forall fuel nsf r, exists e, snd (misc (Datatypes.S fuel) nsf (0 :: r)) = SStop (Fatal e).
Proof. intros fuel nsf r. exists EC_InvalidCharacter. reflexivity. Qed.
Print Assumptions T02_nul_epilog_fatal.
(** F42 repaired + proposed fix: with a pending unpaired high surrogate, the closing quote, a reference ('&'), the end
    of the character data and the "?>" of a processing instruction are all fatal errors *)
Theorem T02_pending_surrogate_fatal : forall fuel q r, q <> 0 ->
  scan_attval (Datatypes.S fuel) q true (q :: r) = SStop (Fatal EC_Expected2ndSurrogateChar).
Proof. intros fuel q r E. cbn [scan_attval]. replace (q =? 0) with false by (symmetry; apply N.eqb_neq; exact E).
  rewrite N.eqb_refl. reflexivity. Qed.
Print Assumptions T02_pending_surrogate_fatal.
Theorem T02_pending_surrogate_ref_fatal : forall fuel q st r, q <> c_amp -> q <> 0 ->
  scan_attval (Datatypes.S fuel) q true (c_amp :: r) = SStop (Fatal EC_Expected2ndSurrogateChar) /\
  scan_chardata (Datatypes.S fuel) st true (c_amp :: r) = SStop (Fatal EC_Expected2ndSurrogateChar) /\
  scan_chardata (Datatypes.S fuel) st true (c_lt :: r) = SStop (Fatal EC_Expected2ndSurrogateChar) /\
  scan_chardata (Datatypes.S fuel) st true [] = SStop (Fatal EC_Expected2ndSurrogateChar) /\
  scan_pi_data true (c_quest :: c_gt :: r) = SStop (Fatal EC_Expected2ndSurrogateChar).
Proof. intros fuel q st r Hq H0. split; [|repeat split; reflexivity]. cbn [scan_attval]. change (c_amp =? 0) with false.
  replace (c_amp =? q) with false by (symmetry; apply N.eqb_neq; congruence). rewrite N.eqb_refl. reflexivity. Qed.
Print Assumptions T02_pending_surrogate_ref_fatal.
(** the former witnesses, now rejected (executions) *)
Example T02_former_witnesses :
  snd (xscan {| ns := false |} [60; 97; 47; 62; 0; 60; 98; 47; 62]) = OStop (Fatal EC_InvalidCharacter) /\
  snd (xscan {| ns := false |} [60; 97; 32; 98; 61; 34; 120; 0xD800; 34; 47; 62]) = OStop (Fatal EC_Expected2ndSurrogateChar) /\
  snd (xscan {| ns := false |} [60; 97; 62; 0xD800; 38; 97; 109; 112; 59; 0xDC00; 60; 47; 97; 62]) = OStop (Fatal EC_Expected2ndSurrogateChar) /\
  snd (xscan {| ns := false |} [60; 97; 32; 98; 61; 34; 0xD800; 38; 35; 54; 53; 59; 0xDC00; 34; 47; 62]) = OStop (Fatal EC_Expected2ndSurrogateChar).
Proof. vm_compute. repeat split; reflexivity. Qed.

(** reject side, by example only (each line is one violated constraint; these are executions of the model, NOT a
    universal claim -- the universal reject side is the correspondence's job) *)
Definition outcome_of (s : list N) := snd (xscan {| ns := false |} s).
Example T02_reject_examples :
  outcome_of [60;97;62;60;47;98;62] = OStop (Fatal EC_ExpectedEndOfTagX) /\                 (* <a></b> *)
  outcome_of [60;97;32;120;61;34;49;34;32;120;61;34;50;34;47;62] = OStop (Fatal EC_AttrAlreadyUsedInSTag) /\  (* <a x="1" x="2"/> *)
  outcome_of [60;97;32;120;61;34;60;34;47;62] = OStop (Fatal EC_BracketInAttrValue) /\     (* <a x="<"/> *)
  outcome_of [60;97;62;93;93;62;60;47;97;62] = OStop (Fatal EC_BadSequenceInCharData) /\   (* <a>]]></a> *)
  outcome_of [60;33;45;45;45;45;45;62;60;97;47;62] = OStop (Fatal EC_IllegalSequenceInComment) /\ (* <!-----><a/> *)
  outcome_of [60;97;47;62;60;98;47;62] = OStop (Fatal EC_ExpectedCommentOrPI) /\           (* <a/><b/> *)
  outcome_of [60;97;62] = OStop (Fatal EC_EndedWithTagsOnStack) /\                          (* <a> *)
  outcome_of [60;97;62;38;35;48;59;60;47;97;62] = OStop (Fatal EC_InvalidCharacterRef) /\  (* <a>&#0;</a> *)
  outcome_of [60;97;62;38;120;59;60;47;97;62] = OStop (Fatal EC_EntityNotFound) /\         (* <a>&x;</a> *)
  outcome_of [60;97;62;1;60;47;97;62] = OStop (Fatal EC_InvalidCharacter) /\               (* <a>U+0001</a> *)
  outcome_of [32;60;63;120;109;108;32;118;101;114;115;105;111;110;61;34;49;46;48;34;63;62;60;97;47;62]
    = OStop (Fatal EC_XMLDeclMustBeFirst).                                                 (* " <?xml version="1.0"?><a/>" *)
Proof. vm_compute. repeat split; reflexivity. Qed.

(** non-vacuity of the accept theorem: a non-trivial document satisfying all its hypotheses *)
Definition ex_doc : ldoc :=
  {| ld_decl := None;
     ld_prolog := [MComment [99; 0x1F600]; MWs [10]];
     ld_body := [ LStart [97] [ {| la_ws := [32]; la_name := [120]; la_ws1 := []; la_ws2 := [9]; la_dq := false;
                                   la_val := [(60, REnt); (0x20AC, RHex [(2,false);(0,false);(10,true);(12,false)]); (9, RDec [0;9])] |} ] [32];
                  LText [(93, RLit); (93, RLit); (62, REnt); (0x10000, RLit); (13, RDec [1;3])];
                  LEmpty [98] [] [] false [10];
                  LCData [93; 93]; LPI [112] [32] [63; 100]; LComment [45; 120];
                  LEnd [97] [] ];
     ld_epilog := [MWs [32; 10]; MComment []] |}.
Example T02_nonvacuous : wf_ldoc true ex_doc = true /\ no_cr (render1 ex_doc) = true /\
  eol_choices_ok (render1 ex_doc) [EolCRLF; EolCR; EolLF] = true /\
  xscan {| ns := true |} (render ex_doc [EolCRLF; EolCR; EolLF]) = (events ex_doc, OOk).
Proof. vm_compute. repeat split; reflexivity. Qed.
