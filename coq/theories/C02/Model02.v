(** C02 -- executable model of the DOCTYPE-free document scanner (WFXMLScanner; IGXMLScanner behaves
    identically on DOCTYPE-free input).  It follows src/xercesc/internal/WFXMLScanner.cpp and XMLScanner.cpp
    function by function (names in the comments), with exceptions / emitError of a fatal code as early exit:
    the default exit-on-first-fatal behaviour, i.e. behaviour up to the first fatal error.
    Input: the decoded UTF-16 units of the main entity.  The reader's end-of-line normalisation
    (XMLReader::getNextChar/peekNextChar/getSpaces/skipSpaces + handleEOL, XML 1.0, external entity) is applied as a
    pre-pass [eol_norm]; every reader operation that returns or classifies a character normalises the same way.
    The character classes come from the generated tables (Gen/GenXMLChar.v).  NO proofs in this file.

    Outside the model (outcome [Unsupported]): DOCTYPE, version="1.1", encoding names other than UTF-8/UTF-16
    spellings, and - when namespace processing is on - qualified names with a colon and xmlns attributes
    (prefix resolution is property C06). *)
From XV Require Import Base.XDefs Gen.GenXMLChar Gen.GenErrs.
Local Open Scope N_scope.

(* ---- character classes: XMLReader::isXMLChar etc. = table byte & mask, here membership in the generated ranges *)
Definition in_rng (c : N) (p : N * N) : bool := (fst p <=? c) && (c <=? snd p).
Definition in_ranges (c : N) (rs : list (N * N)) : bool := existsb (in_rng c) rs.
Definition is_ws (c : N) : bool := in_ranges c x10_ws.
Definition is_xmlchar (c : N) : bool := in_ranges c x10_xmlchar.
Definition is_firstname (c : N) : bool := in_ranges c x10_firstname.
Definition is_namechar (c : N) : bool := in_ranges c x10_namechar.
Definition is_special (c : N) : bool := in_ranges c x10_special.
Definition is_control (c : N) : bool := in_ranges c x10_control.
Definition is_plain (c : N) : bool := in_ranges c x10_plain.
Definition is_hi (c : N) : bool := (0xD800 <=? c) && (c <=? 0xDBFF).
Definition is_lo (c : N) : bool := (0xDC00 <=? c) && (c <=? 0xDFFF).
Definition is_hi_name (c : N) : bool := (0xD800 <=? c) && (c <=? 0xDB7F).   (* getName: 0xD800..0xDB7F *)

Definition c_tab := 9.   Definition c_lf := 10.   Definition c_cr := 13.   Definition c_sp := 32.
Definition c_bang := 33. Definition c_dq := 34.   Definition c_hash := 35. Definition c_amp := 38.
Definition c_sq := 39.   Definition c_dash := 45. Definition c_dot := 46.  Definition c_slash := 47.
Definition c_colon := 58. Definition c_semi := 59. Definition c_lt := 60.  Definition c_eq := 61.
Definition c_gt := 62.   Definition c_quest := 63. Definition c_lbrack := 91. Definition c_rbrack := 93.
Definition c_us := 95.

(* ---- error codes the modelled paths can emit (XMLErrs::Codes); numbers come from Gen/GenErrs.v *)
Inductive ecode :=
| EC_ExpectedCommentOrCDATA | EC_ExpectedAttrName | EC_ExpectedEqSign | EC_ExpectedElementName
| EC_InvalidDocumentStructure | EC_ExpectedDeclString | EC_UnsupportedXMLVersion | EC_UnterminatedXMLDecl
| EC_BadXMLEncoding | EC_BadStandalone | EC_UnterminatedComment | EC_PINameExpected | EC_UnterminatedPI
| EC_InvalidCharacter | EC_UnterminatedStartTag | EC_ExpectedAttrValue | EC_UnterminatedEndTag
| EC_ExpectedEndOfTagX | EC_NotValidAfterContent | EC_ExpectedCommentOrPI | EC_ExpectedWhitespace
| EC_ExpectedQuotedString | EC_InvalidCharacterInAttrValue | EC_InvalidCharacterRef | EC_UnterminatedCharRef
| EC_ExpectedEntityRefName | EC_EntityNotFound | EC_UnterminatedEntityRef | EC_MoreEndThanStartTags
| EC_AttrAlreadyUsedInSTag | EC_BracketInAttrValue | EC_Expected2ndSurrogateChar | EC_ExpectedNumericalCharRef
| EC_ExpectedOpenSquareBracket | EC_BadSequenceInCharData | EC_IllegalSequenceInComment
| EC_UnterminatedCDATASection | EC_HexRadixMustBeLowerCase | EC_DeclStringRep | EC_DeclStringsInWrongOrder
| EC_XMLDeclMustBeLowerCase | EC_BadDigitForRadix | EC_EndedWithTagsOnStack | EC_CDATAOutsideOfContent
| EC_Unexpected2ndSurrogateChar | EC_NoPIStartsWithXML | EC_XMLDeclMustBeFirst | EC_XMLVersionRequired
| EC_ColonNotLegalWithNS | EC_XMLException_Fatal
| EC_RecursiveEntity | EC_PartialMarkupInEntity | EC_PartialTagMarkupError.

Definition all_ecodes : list ecode :=
  [ EC_ExpectedCommentOrCDATA; EC_ExpectedAttrName; EC_ExpectedEqSign; EC_ExpectedElementName;
    EC_InvalidDocumentStructure; EC_ExpectedDeclString; EC_UnsupportedXMLVersion; EC_UnterminatedXMLDecl;
    EC_BadXMLEncoding; EC_BadStandalone; EC_UnterminatedComment; EC_PINameExpected; EC_UnterminatedPI;
    EC_InvalidCharacter; EC_UnterminatedStartTag; EC_ExpectedAttrValue; EC_UnterminatedEndTag;
    EC_ExpectedEndOfTagX; EC_NotValidAfterContent; EC_ExpectedCommentOrPI; EC_ExpectedWhitespace;
    EC_ExpectedQuotedString; EC_InvalidCharacterInAttrValue; EC_InvalidCharacterRef; EC_UnterminatedCharRef;
    EC_ExpectedEntityRefName; EC_EntityNotFound; EC_UnterminatedEntityRef; EC_MoreEndThanStartTags;
    EC_AttrAlreadyUsedInSTag; EC_BracketInAttrValue; EC_Expected2ndSurrogateChar; EC_ExpectedNumericalCharRef;
    EC_ExpectedOpenSquareBracket; EC_BadSequenceInCharData; EC_IllegalSequenceInComment;
    EC_UnterminatedCDATASection; EC_HexRadixMustBeLowerCase; EC_DeclStringRep; EC_DeclStringsInWrongOrder;
    EC_XMLDeclMustBeLowerCase; EC_BadDigitForRadix; EC_EndedWithTagsOnStack; EC_CDATAOutsideOfContent;
    EC_Unexpected2ndSurrogateChar; EC_NoPIStartsWithXML; EC_XMLDeclMustBeFirst; EC_XMLVersionRequired;
    EC_ColonNotLegalWithNS; EC_XMLException_Fatal; EC_RecursiveEntity; EC_PartialMarkupInEntity;
    EC_PartialTagMarkupError ].

Definition code_num (e : ecode) : N :=
  match e with
  | EC_ExpectedCommentOrCDATA => XMLErrs_ExpectedCommentOrCDATA | EC_ExpectedAttrName => XMLErrs_ExpectedAttrName
  | EC_ExpectedEqSign => XMLErrs_ExpectedEqSign | EC_ExpectedElementName => XMLErrs_ExpectedElementName
  | EC_InvalidDocumentStructure => XMLErrs_InvalidDocumentStructure | EC_ExpectedDeclString => XMLErrs_ExpectedDeclString
  | EC_UnsupportedXMLVersion => XMLErrs_UnsupportedXMLVersion | EC_UnterminatedXMLDecl => XMLErrs_UnterminatedXMLDecl
  | EC_BadXMLEncoding => XMLErrs_BadXMLEncoding | EC_BadStandalone => XMLErrs_BadStandalone
  | EC_UnterminatedComment => XMLErrs_UnterminatedComment | EC_PINameExpected => XMLErrs_PINameExpected
  | EC_UnterminatedPI => XMLErrs_UnterminatedPI | EC_InvalidCharacter => XMLErrs_InvalidCharacter
  | EC_UnterminatedStartTag => XMLErrs_UnterminatedStartTag | EC_ExpectedAttrValue => XMLErrs_ExpectedAttrValue
  | EC_UnterminatedEndTag => XMLErrs_UnterminatedEndTag | EC_ExpectedEndOfTagX => XMLErrs_ExpectedEndOfTagX
  | EC_NotValidAfterContent => XMLErrs_NotValidAfterContent | EC_ExpectedCommentOrPI => XMLErrs_ExpectedCommentOrPI
  | EC_ExpectedWhitespace => XMLErrs_ExpectedWhitespace | EC_ExpectedQuotedString => XMLErrs_ExpectedQuotedString
  | EC_InvalidCharacterInAttrValue => XMLErrs_InvalidCharacterInAttrValue
  | EC_InvalidCharacterRef => XMLErrs_InvalidCharacterRef | EC_UnterminatedCharRef => XMLErrs_UnterminatedCharRef
  | EC_ExpectedEntityRefName => XMLErrs_ExpectedEntityRefName | EC_EntityNotFound => XMLErrs_EntityNotFound
  | EC_UnterminatedEntityRef => XMLErrs_UnterminatedEntityRef | EC_MoreEndThanStartTags => XMLErrs_MoreEndThanStartTags
  | EC_AttrAlreadyUsedInSTag => XMLErrs_AttrAlreadyUsedInSTag | EC_BracketInAttrValue => XMLErrs_BracketInAttrValue
  | EC_Expected2ndSurrogateChar => XMLErrs_Expected2ndSurrogateChar
  | EC_ExpectedNumericalCharRef => XMLErrs_ExpectedNumericalCharRef
  | EC_ExpectedOpenSquareBracket => XMLErrs_ExpectedOpenSquareBracket
  | EC_BadSequenceInCharData => XMLErrs_BadSequenceInCharData
  | EC_IllegalSequenceInComment => XMLErrs_IllegalSequenceInComment
  | EC_UnterminatedCDATASection => XMLErrs_UnterminatedCDATASection
  | EC_HexRadixMustBeLowerCase => XMLErrs_HexRadixMustBeLowerCase | EC_DeclStringRep => XMLErrs_DeclStringRep
  | EC_DeclStringsInWrongOrder => XMLErrs_DeclStringsInWrongOrder
  | EC_XMLDeclMustBeLowerCase => XMLErrs_XMLDeclMustBeLowerCase | EC_BadDigitForRadix => XMLErrs_BadDigitForRadix
  | EC_EndedWithTagsOnStack => XMLErrs_EndedWithTagsOnStack | EC_CDATAOutsideOfContent => XMLErrs_CDATAOutsideOfContent
  | EC_Unexpected2ndSurrogateChar => XMLErrs_Unexpected2ndSurrogateChar
  | EC_NoPIStartsWithXML => XMLErrs_NoPIStartsWithXML | EC_XMLDeclMustBeFirst => XMLErrs_XMLDeclMustBeFirst
  | EC_XMLVersionRequired => XMLErrs_XMLVersionRequired | EC_ColonNotLegalWithNS => XMLErrs_ColonNotLegalWithNS
  | EC_XMLException_Fatal => XMLErrs_XMLException_Fatal
  | EC_RecursiveEntity => XMLErrs_RecursiveEntity | EC_PartialMarkupInEntity => XMLErrs_PartialMarkupInEntity
  | EC_PartialTagMarkupError => XMLErrs_PartialTagMarkupError
  end.

(* ---- events (the internal XMLDocumentHandler stream, character data accumulated per run between markup) *)
Definition str := list N.
Inductive event :=
| EvStart (name : str) (atts : list (str * str))      (* startElement; attributes in document order *)
| EvEnd (name : str)                                  (* endElement (also after an empty-element tag) *)
| EvText (s : str)                                    (* docCharacters, cdataSection = false *)
| EvCData (s : str)                                   (* docCharacters, cdataSection = true *)
| EvComment (s : str)                                 (* docComment *)
| EvPI (target data : str).                           (* docPI *)

Inductive stop := Fatal (e : ecode) | Unsupported | OutOfFuel.
Inductive outcome := OOk | OStop (s : stop).
Inductive sres (A : Type) := SOk (a : A) (rest : str) | SStop (s : stop).
Arguments SOk {A} a rest.
Arguments SStop {A} s.
Definition cons_res (c : N) (r : sres str) : sres str :=
  match r with SOk t rest => SOk (c :: t) rest | SStop s => SStop s end.
Definition consopt (c : N) (r : sres str) : sres str := if c =? 0 then r else cons_res c r.

(* ---- end-of-line normalisation of the reader (XML 1.0: fNEL = false): getNextChar + handleEOL *)
Fixpoint eol_norm (l : str) : str :=
  match l with
  | c :: r =>
      if c =? c_cr then
        c_lf :: match r with
                | d :: r' => if d =? c_lf then eol_norm r' else eol_norm r
                | [] => []
                end
      else c :: eol_norm r
  | [] => []
  end.

(* ---- reader primitives on the remaining input *)
Definition peek (l : str) : N := match l with c :: _ => c | [] => 0 end.       (* ReaderMgr::peekNextChar: 0 at the end *)
Fixpoint skip_ws (l : str) : str :=                                             (* skipPastSpaces *)
  match l with c :: r => if is_ws c then skip_ws r else l | [] => [] end.
Definition starts_ws (l : str) : bool := match l with c :: _ => is_ws c | [] => false end.
Fixpoint str_eqb (a b : str) : bool :=
  match a, b with
  | [], [] => true
  | x :: a', y :: b' => (x =? y) && str_eqb a' b'
  | _, _ => false
  end.
Fixpoint strip_prefix (p l : str) : option str :=                               (* skippedString / skippedStringLong *)
  match p with
  | [] => Some l
  | x :: p' => match l with y :: l' => if x =? y then strip_prefix p' l' else None | [] => None end
  end.

(* XMLReader::getName (token = false): first char, then name chars; surrogate pairs 0xD800..0xDB7F + low *)
Fixpoint name_tail (l : str) : str * str :=
  match l with
  | c :: r =>
      if is_hi_name c then
        match r with
        | d :: r' => if is_lo d then (let (n, rest) := name_tail r' in (c :: d :: n, rest)) else ([], l)
        | [] => ([], l)
        end
      else if is_namechar c then (let (n, rest) := name_tail r in (c :: n, rest))
      else ([], l)
  | [] => ([], [])
  end.
Definition get_name (l : str) : option (str * str) :=
  match l with
  | c :: r =>
      if is_hi_name c then
        match r with
        | d :: r' => if is_lo d then (let (n, rest) := name_tail r' in Some (c :: d :: n, rest)) else None
        | [] => None
        end
      else if is_firstname c then (let (n, rest) := name_tail r in Some (c :: n, rest))
      else None
  | [] => None
  end.

(* XMLScanner::scanEq *)
Definition scan_eq (l : str) : option str :=
  match skip_ws l with
  | c :: r => if c =? c_eq then Some (skip_ws r) else None
  | [] => None
  end.

(* surrogate pairing + character validity, as written in scanComment / scanPI *)
Definition sur_check1 (sur : bool) (c : N) : bool + ecode :=
  if is_hi c then (if sur then inr EC_Expected2ndSurrogateChar else inl true)
  else if sur then (if is_lo c then inl false else inr EC_Expected2ndSurrogateChar)
  else if is_xmlchar c then inl false else inr EC_InvalidCharacter.
(* ... and as written in scanCharData / scanCDSection / scanAttValue *)
Definition sur_check2 (bad : ecode) (sur : bool) (c : N) : bool + ecode :=
  if is_hi c then (if sur then inr EC_Expected2ndSurrogateChar else inl true)
  else if is_lo c then (if sur then inl false else inr EC_Unexpected2ndSurrogateChar)
  else if sur then inr EC_Expected2ndSurrogateChar
  else if is_xmlchar c then inl false else inr bad.

(* ---- XMLScanner::scanComment (after "<!--") *)
Inductive cmst := CmText | CmOne | CmTwo.
Fixpoint scan_comment (st : cmst) (sur : bool) (l : str) : sres str :=
  match l with
  | [] => SStop (Fatal EC_UnterminatedComment)
  | c :: r =>
      if c =? 0 then SStop (Fatal EC_UnterminatedComment) else
      match sur_check1 sur c with
      | inr e => SStop (Fatal e)
      | inl sur' =>
          match st with
          | CmText => if c =? c_dash then scan_comment CmOne sur' r else cons_res c (scan_comment CmText sur' r)
          | CmOne => if c =? c_dash then scan_comment CmTwo sur' r
                     else cons_res c_dash (cons_res c (scan_comment CmText sur' r))
          | CmTwo => if c =? c_gt then SOk [] r else SStop (Fatal EC_IllegalSequenceInComment)
          end
      end
  end.

(* ---- XMLScanner::scanPI (after "<?") *)
Fixpoint scan_pi_data (sur : bool) (l : str) : sres str :=
  match l with
  | [] => SStop (Fatal EC_UnterminatedPI)
  | c :: r =>
      if c =? 0 then SStop (Fatal EC_UnterminatedPI) else
      if (c =? c_quest) && (peek r =? c_gt)
      then (if sur then SStop (Fatal EC_Expected2ndSurrogateChar) else SOk [] (tl r)) else
      match sur_check1 sur c with
      | inr e => SStop (Fatal e)
      | inl sur' => cons_res c (scan_pi_data sur' r)
      end
  end.
Definition lower (c : N) : N := if (65 <=? c) && (c <=? 90) then c + 32 else c.
Definition is_xml_name (n : str) : bool :=            (* 3 chars, any case of "xml" *)
  match n with
  | [a; b; c] => (lower a =? 120) && (lower b =? 109) && (lower c =? 108)
  | _ => false
  end.
Definition has_colon (n : str) : bool := existsb (N.eqb c_colon) n.
Definition scan_pi (ns : bool) (l : str) : sres event :=
  if starts_ws l then SStop (Fatal EC_PINameExpected) else
  match get_name l with
  | None => SStop (Fatal EC_PINameExpected)
  | Some (name, l1) =>
      if is_xml_name name then SStop (Fatal EC_NoPIStartsWithXML) else
      if ns && has_colon name then SStop (Fatal EC_ColonNotLegalWithNS) else
      if starts_ws l1 then
        match scan_pi_data false (skip_ws l1) with
        | SOk d rest => SOk (EvPI name d) rest
        | SStop s => SStop s
        end
      else
        match l1 with
        | c :: r => if c =? c_quest then
                      match r with
                      | d :: r' => if d =? c_gt then SOk (EvPI name []) r' else SStop (Fatal EC_UnterminatedPI)
                      | [] => SStop (Fatal EC_UnterminatedPI)
                      end
                    else SStop (Fatal EC_UnterminatedPI)
        | [] => SStop (Fatal EC_UnterminatedPI)
        end
  end.

(* ---- XMLScanner::scanCharRef (after "&#") *)
Definition digit_val (c : N) : option N :=
  if (48 <=? c) && (c <=? 57) then Some (c - 48)
  else if (65 <=? c) && (c <=? 70) then Some (c - 55)
  else if (97 <=? c) && (c <=? 102) then Some (c - 87)
  else None.
Fixpoint charref_digits (radix value : N) (got : bool) (l : str) : sres N :=
  match l with
  | [] => SStop (Fatal EC_XMLException_Fatal)                    (* UnexpectedEOFException *)
  | c :: r =>
      if c =? 0 then SStop (Fatal EC_XMLException_Fatal) else
      if c =? c_semi then SOk value r else
      match digit_val c with
      | None => SStop (Fatal (if got then EC_UnterminatedCharRef else EC_ExpectedNumericalCharRef))
      | Some v =>
          if radix <=? v then SStop (Fatal EC_BadDigitForRadix) else
          let value' := value * radix + v in
          if 0x10FFFF <? value' then SStop (Fatal EC_InvalidCharacterRef) else charref_digits radix value' true r
      end
  end.
Definition scan_charref (l : str) : sres (N * N) :=
  let body (radix : N) (l1 : str) :=
    match charref_digits radix 0 false l1 with
    | SStop s => SStop s
    | SOk v rest =>
        if 0x10000 <=? v then SOk (0xD800 + (v - 0x10000) / 1024, 0xDC00 + (v - 0x10000) mod 1024) rest
        else if v <=? 0xFFFD then
          (if is_xmlchar v || is_control v then SOk (v, 0) rest else SStop (Fatal EC_InvalidCharacterRef))
        else SStop (Fatal EC_InvalidCharacterRef)
    end in
  match l with
  | c :: r => if c =? 120 then body 16 r
              else if c =? 88 then SStop (Fatal EC_HexRadixMustBeLowerCase)
              else body 10 l
  | [] => body 10 l
  end.

(* ---- WFXMLScanner::scanEntityRef (after "&"): character references and the five predefined entities *)
Definition s_amp : str := [97; 109; 112].        Definition s_lt : str := [108; 116].
Definition s_gt : str := [103; 116].             Definition s_quot : str := [113; 117; 111; 116].
Definition s_apos : str := [97; 112; 111; 115].
Definition predefined (n : str) : option N :=
  if str_eqb n s_amp then Some c_amp else if str_eqb n s_lt then Some c_lt else if str_eqb n s_gt then Some c_gt
  else if str_eqb n s_quot then Some c_dq else if str_eqb n s_apos then Some c_sq else None.
Definition scan_entref (l : str) : sres (N * N) :=
  match l with
  | c :: r =>
      if c =? c_hash then scan_charref r else
      match get_name l with
      | None => SStop (Fatal EC_ExpectedEntityRefName)
      | Some (n, l1) =>
          match l1 with
          | d :: l2 => if d =? c_semi then
                         match predefined n with
                         | Some v => SOk (v, 0) l2
                         | None => SStop (Fatal EC_EntityNotFound)
                         end
                       else SStop (Fatal EC_UnterminatedEntityRef)
          | [] => SStop (Fatal EC_UnterminatedEntityRef)
          end
      end
  | [] => SStop (Fatal EC_ExpectedEntityRefName)
  end.

(* ---- WFXMLScanner::scanAttValue (after the opening quote [q]) *)
Fixpoint scan_attval (fuel : nat) (q : N) (sur : bool) (l : str) : sres str :=
  match fuel with
  | O => SStop OutOfFuel
  | S f =>
      match l with
      | [] => SStop (Fatal EC_XMLException_Fatal)               (* UnexpectedEOFException *)
      | c :: r =>
          if c =? 0 then SStop (Fatal EC_XMLException_Fatal) else
          if c =? q then (if sur then SStop (Fatal EC_Expected2ndSurrogateChar) else SOk [] r) else
          if c =? c_amp then
            if sur then SStop (Fatal EC_Expected2ndSurrogateChar) else      (* proposed fix C02-surrogate-before-reference *)
            match scan_entref r with
            | SOk (c1, c2) r' => cons_res c1 (consopt c2 (scan_attval f q false r'))
            | SStop s => SStop s
            end
          else
            match sur_check2 EC_InvalidCharacterInAttrValue sur c with
            | inr e => SStop (Fatal e)
            | inl sur' =>
                if c =? c_lt then SStop (Fatal EC_BracketInAttrValue)
                else cons_res (if is_ws c then c_sp else c) (scan_attval f q sur' r)
            end
      end
  end.

(* ---- WFXMLScanner::scanCDSection (after "<![CDATA") *)
Fixpoint scan_cdata_body (sur : bool) (l : str) : sres str :=
  match l with
  | [] => SStop (Fatal EC_UnterminatedCDATASection)
  | c :: r =>
      if c =? 0 then SStop (Fatal EC_UnterminatedCDATASection) else
      match (if c =? c_rbrack then strip_prefix [c_rbrack; c_gt] r else None) with
      | Some rest => if sur then SStop (Fatal EC_Expected2ndSurrogateChar) else SOk [] rest
      | None =>
          match sur_check2 EC_InvalidCharacter sur c with
          | inr e => SStop (Fatal e)
          | inl sur' => cons_res c (scan_cdata_body sur' r)
          end
      end
  end.
Definition scan_cdsection (l : str) : sres str :=
  match l with
  | c :: r => if c =? c_lbrack then scan_cdata_body false r else SStop (Fatal EC_ExpectedOpenSquareBracket)
  | [] => SStop (Fatal EC_ExpectedOpenSquareBracket)
  end.

(* ---- WFXMLScanner::scanCharData; the whole run up to the next '<' (or the end) is one text event *)
Inductive cdst := CW | C1 | C2.
Fixpoint scan_chardata (fuel : nat) (st : cdst) (sur : bool) (l : str) : sres str :=
  match fuel with
  | O => SStop OutOfFuel
  | S f =>
      match l with
      | [] => if sur then SStop (Fatal EC_Expected2ndSurrogateChar) else SOk [] []
      | c :: r =>
          if c =? c_lt then (if sur then SStop (Fatal EC_Expected2ndSurrogateChar) else SOk [] l) else
          if c =? c_amp then
            if sur then SStop (Fatal EC_Expected2ndSurrogateChar) else      (* proposed fix C02-surrogate-before-reference *)
            match scan_entref r with
            | SOk (c1, c2) r' => cons_res c1 (consopt c2 (scan_chardata f CW false r'))
            | SStop s => SStop s
            end
          else
            match sur_check2 EC_InvalidCharacter sur c with
            | inr e => SStop (Fatal e)
            | inl sur' =>
                if c =? c_rbrack then
                  cons_res c (scan_chardata f (match st with CW => C1 | _ => C2 end) sur' r)
                else if c =? c_gt then
                  match st with
                  | C2 => SStop (Fatal EC_BadSequenceInCharData)
                  | _ => cons_res c (scan_chardata f CW sur' r)
                  end
                else cons_res c (scan_chardata f CW sur' r)
            end
      end
  end.

(* ---- WFXMLScanner::scanStartTag (after '<'); namespaces off.  With namespaces on, names with a colon and
        xmlns attributes are outside this model *)
Definition s_xmlns : str := [120; 109; 108; 110; 115].
Definition ns_unsupported (ns : bool) (n : str) : bool := ns && (has_colon n || str_eqb n s_xmlns).
Definition is_nil {A} (l : list A) : bool := match l with [] => true | _ => false end.

Fixpoint scan_attrs (fuel : nat) (ns : bool) (acc : list (str * str)) (l : str) : sres (list (str * str) * bool) :=
  match fuel with
  | O => SStop OutOfFuel
  | S f =>
      let c0 := peek l in
      let chk : str + ecode :=
        if negb (is_nil acc) && negb ((c0 =? c_slash) || (c0 =? c_gt))
        then (if starts_ws l then inl (skip_ws l) else inr EC_ExpectedWhitespace)
        else inl l in
      match chk with
      | inr e => SStop (Fatal e)
      | inl l1 =>
          let c := peek l1 in
          if negb (is_special c) then
            match get_name l1 with
            | None => SStop (Fatal EC_ExpectedAttrName)
            | Some (an, l2) =>
                if ns_unsupported ns an then SStop Unsupported else
                match scan_eq l2 with
                | None => SStop (Fatal EC_ExpectedEqSign)
                | Some l3 =>
                    if existsb (str_eqb an) (map fst acc) then SStop (Fatal EC_AttrAlreadyUsedInSTag) else
                    match l3 with
                    | q :: l4 =>
                        if (q =? c_dq) || (q =? c_sq) then
                          match scan_attval (S (length l4)) q false l4 with
                          | SOk v l5 => scan_attrs f ns (acc ++ [(an, v)]) l5
                          | SStop s => SStop s
                          end
                        else SStop (Fatal EC_ExpectedAttrValue)
                    | [] => SStop (Fatal EC_ExpectedAttrValue)
                    end
                end
            end
          else if c =? 0 then SStop (Fatal EC_XMLException_Fatal)       (* UnexpectedEOFException *)
          else if c =? c_slash then
            match tl l1 with
            | d :: r => if d =? c_gt then SOk (acc, true) r else SStop (Fatal EC_UnterminatedStartTag)
            | [] => SStop (Fatal EC_UnterminatedStartTag)
            end
          else if c =? c_gt then SOk (acc, false) (tl l1)
          else if c =? c_lt then SStop (Fatal EC_UnterminatedStartTag)
          else if (c =? c_sq) || (c =? c_dq) then SStop (Fatal EC_ExpectedAttrName)
          else SStop OutOfFuel     (* a special character the tag loop does not handle: the C++ loop would spin *)
      end
  end.

Definition scan_starttag (ns : bool) (l : str) : sres (str * list (str * str) * bool) :=
  match get_name l with
  | None => SStop (Fatal EC_ExpectedElementName)
  | Some (name, l1) =>
      if ns_unsupported ns name then SStop Unsupported else
      let l2 := skip_ws l1 in
      match scan_attrs (S (length l2)) ns [] l2 with
      | SOk (atts, empty) rest => SOk (name, atts, empty) rest
      | SStop s => SStop s
      end
  end.

(* ---- WFXMLScanner::scanEndTag (after "</") *)
Definition scan_endtag (top : str) (l : str) : sres unit :=
  match strip_prefix top l with
  | None => SStop (Fatal EC_ExpectedEndOfTagX)
  | Some l1 =>
      match skip_ws l1 with
      | c :: r => if c =? c_gt then SOk tt r else SStop (Fatal EC_UnterminatedEndTag)
      | [] => SStop (Fatal EC_UnterminatedEndTag)
      end
  end.

Definition s_cdata : str := [91; 67; 68; 65; 84; 65].          (* "[CDATA" *)
Definition s_dashdash : str := [45; 45].
Definition text_ev (t : str) : list event := if is_nil t then [] else [EvText t].
Definition emit (evs : list event) (k : list event * sres unit) : list event * sres unit := (evs ++ fst k, snd k).

(* ---- WFXMLScanner::scanContent with XMLScanner::senseNextToken; [stack] = names of the open elements *)
Fixpoint content (fuel : nat) (ns : bool) (stack : list str) (l : str) : list event * sres unit :=
  match fuel with
  | O => ([], SStop OutOfFuel)
  | S f =>
      let at_eof := if is_nil stack then ([], SOk tt l) else ([], SStop (Fatal EC_EndedWithTagsOnStack)) in
      match l with
      | [] => at_eof
      | c :: r =>
          if c =? 0 then at_eof else
          if negb (c =? c_lt) then
            match scan_chardata (S (length l)) CW false l with
            | SOk t rest => emit (text_ev t) (content f ns stack rest)
            | SStop s => ([], SStop s)
            end
          else
            let c2 := peek r in
            if c2 =? c_slash then
              match stack with
              | [] => ([], SStop (Fatal EC_MoreEndThanStartTags))
              | top :: stack' =>
                  match scan_endtag top (tl r) with
                  | SOk _ rest => if is_nil stack' then ([EvEnd top], SOk tt rest)
                                  else emit [EvEnd top] (content f ns stack' rest)
                  | SStop s => ([], SStop s)
                  end
              end
            else if c2 =? c_bang then
              match strip_prefix s_cdata (tl r) with
              | Some r2 =>
                  if is_nil stack then ([], SStop (Fatal EC_CDATAOutsideOfContent)) else
                  match scan_cdsection r2 with
                  | SOk t rest => emit [EvCData t] (content f ns stack rest)
                  | SStop s => ([], SStop s)
                  end
              | None =>
                  match strip_prefix s_dashdash (tl r) with
                  | Some r2 =>
                      match scan_comment CmText false r2 with
                      | SOk t rest => emit [EvComment t] (content f ns stack rest)
                      | SStop s => ([], SStop s)
                      end
                  | None => ([], SStop (Fatal EC_ExpectedCommentOrCDATA))
                  end
              end
            else if c2 =? c_quest then
              match scan_pi ns (tl r) with
              | SOk ev rest => emit [ev] (content f ns stack rest)
              | SStop s => ([], SStop s)
              end
            else
              match scan_starttag ns r with
              | SOk (name, atts, empty) rest =>
                  if empty then
                    (if is_nil stack then ([EvStart name atts; EvEnd name], SOk tt rest)
                     else emit [EvStart name atts; EvEnd name] (content f ns stack rest))
                  else emit [EvStart name atts] (content f ns (name :: stack) rest)
              | SStop s => ([], SStop s)
              end
      end
  end.

(* ---- XMLScanner::scanXMLDecl (after "<?xml" and one whitespace character) *)
Fixpoint upto_ws_or (stopc : N) (l : str) : str * str :=               (* getUpToCharOrWS *)
  match l with
  | c :: r => if is_ws c || (c =? stopc) then ([], l) else (let (n, rest) := upto_ws_or stopc r in (c :: n, rest))
  | [] => ([], [])
  end.
Fixpoint until_quote (q : N) (l : str) : option (str * str) :=          (* getQuotedString body *)
  match l with
  | c :: r => if c =? q then Some ([], r) else if c =? 0 then None
              else match until_quote q r with Some (v, rest) => Some (c :: v, rest) | None => None end
  | [] => None
  end.
Definition quoted_string (l : str) : option (str * str) :=
  match l with
  | q :: r => if (q =? c_dq) || (q =? c_sq) then until_quote q r else None
  | [] => None
  end.
Definition s_version : str := [118; 101; 114; 115; 105; 111; 110].
Definition s_encoding : str := [101; 110; 99; 111; 100; 105; 110; 103].
Definition s_standalone : str := [115; 116; 97; 110; 100; 97; 108; 111; 110; 101].
Definition s_1_0 : str := [49; 46; 48].   Definition s_1_1 : str := [49; 46; 49].
Definition s_yes : str := [121; 101; 115]. Definition s_no : str := [110; 111].
Definition is_alpha (c : N) : bool := ((97 <=? c) && (c <=? 122)) || ((65 <=? c) && (c <=? 90)).
Definition is_digit (c : N) : bool := (48 <=? c) && (c <=? 57).
Definition valid_enc_name (n : str) : bool :=                             (* XMLString::isValidEncName *)
  match n with
  | c :: r => is_alpha c && forallb (fun d => is_alpha d || is_digit d || (d =? c_dot) || (d =? c_us) || (d =? c_dash)) r
  | [] => false
  end.
(* encodings for which the reader keeps decoding the way the correspondence encodes the input *)
Definition enc_supported (n : str) : bool :=
  let u := map lower n in
  str_eqb u [117; 116; 102; 45; 56] || str_eqb u [117; 116; 102; 45; 49; 54].
Definition starts_with (p l : str) : bool := match strip_prefix p l with Some _ => true | None => false end.

Record dflags := { f_cnt : nat; f_ver : option nat; f_enc : option nat; f_sd : option nat }.
Definition opt_eqb (a : option nat) (b : nat) : bool := match a with Some x => Nat.eqb x b | None => false end.
Definition decl_finish (fl : dflags) (l : str) : sres unit :=
  (* order check runs over version and encoding only (index < StandaloneString) *)
  let top1 := match f_ver fl with Some x => x | None => O end in
  let bad_order :=
    (match f_ver fl with Some x => negb (Nat.eqb x 1) | None => false end) ||
    (match f_enc fl with Some x => negb (Nat.eqb x (S top1)) | None => false end) in
  if bad_order then SStop (Fatal EC_DeclStringsInWrongOrder) else
  match f_ver fl with
  | None => SStop (Fatal EC_XMLVersionRequired)
  | Some _ =>
      match l with
      | c :: d :: r => if (c =? c_quest) && (d =? c_gt) then SOk tt r else SStop (Fatal EC_UnterminatedXMLDecl)
      | _ => SStop (Fatal EC_UnterminatedXMLDecl)
      end
  end.
Fixpoint xmldecl_loop (fuel : nat) (fl : dflags) (l : str) : sres unit :=
  match fuel with
  | O => SStop OutOfFuel
  | S f =>
      let l1 := skip_ws l in
      if peek l1 =? c_quest then decl_finish fl l1 else
      if negb (starts_ws l) && negb (Nat.eqb (f_cnt fl) 0) then SStop (Fatal EC_ExpectedWhitespace) else
      let (name, l2) := upto_ws_or c_eq l1 in
      if is_nil name then SStop (Fatal EC_ExpectedDeclString) else
      let which : option nat :=
        if str_eqb name s_version then Some 0%nat else if str_eqb name s_encoding then Some 1%nat
        else if str_eqb name s_standalone then Some 2%nat else None in
      match which with
      | None => SStop (Fatal EC_ExpectedDeclString)
      | Some w =>
          let seen := match w with O => f_ver fl | S O => f_enc fl | _ => f_sd fl end in
          match seen with
          | Some _ => SStop (Fatal EC_DeclStringRep)
          | None =>
              let n := S (f_cnt fl) in
              let fl' := match w with
                         | O => {| f_cnt := n; f_ver := Some n; f_enc := f_enc fl; f_sd := f_sd fl |}
                         | S O => {| f_cnt := n; f_ver := f_ver fl; f_enc := Some n; f_sd := f_sd fl |}
                         | _ => {| f_cnt := n; f_ver := f_ver fl; f_enc := f_enc fl; f_sd := Some n |}
                         end in
              match scan_eq l2 with
              | None => SStop (Fatal EC_ExpectedEqSign)
              | Some l3 =>
                  match quoted_string l3 with
                  | None => SStop (Fatal EC_ExpectedQuotedString)
                  | Some (v, l4) =>
                      match w with
                      | O => if str_eqb v s_1_1 then SStop Unsupported
                             else if str_eqb v s_1_0 || starts_with [49; 46] v then xmldecl_loop f fl' l4
                             else SStop (Fatal EC_UnsupportedXMLVersion)
                      | S O => if negb (valid_enc_name v) then SStop (Fatal EC_BadXMLEncoding)
                               else if enc_supported v then xmldecl_loop f fl' l4 else SStop Unsupported
                      | _ => if str_eqb v s_yes || str_eqb v s_no then xmldecl_loop f fl' l4
                             else SStop (Fatal EC_BadStandalone)
                      end
                  end
              end
          end
      end
  end.
Definition scan_xmldecl (l : str) : sres unit :=
  xmldecl_loop (S (length l)) {| f_cnt := 0; f_ver := None; f_enc := None; f_sd := None |} l.

(* XMLScanner::checkXMLDecl(true): Some (lower-case?, rest after "<?xml" + one whitespace char) *)
Definition s_xmldecl : str := [60; 63; 120; 109; 108].    (* "<?xml" *)
Definition s_xmldeclU : str := [60; 63; 88; 77; 76].      (* "<?XML" *)
Definition check_xmldecl (l : str) : option (bool * str) :=
  match strip_prefix s_xmldecl l with
  | Some (c :: r) => if is_ws c then Some (true, r) else None
  | Some [] => None
  | None =>
      match strip_prefix s_xmldeclU l with
      | Some (c :: r) => if is_ws c then Some (false, r) else None
      | _ => None
      end
  end.
Definition s_pi : str := [60; 63].                         (* "<?" *)
Definition s_comment : str := [60; 33; 45; 45].            (* "<!--" *)
Definition s_doctype : str := [60; 33; 68; 79; 67; 84; 89; 80; 69].   (* "<!DOCTYPE" *)

(* ---- XMLScanner::scanProlog; [first] = nothing consumed yet (reader at line 1, column 1) *)
Fixpoint prolog (fuel : nat) (ns first : bool) (l : str) : list event * sres unit :=
  match fuel with
  | O => ([], SStop OutOfFuel)
  | S f =>
      let c := peek l in
      if c =? c_lt then
        match check_xmldecl l with
        | Some (lowercase, r) =>
            if negb lowercase then ([], SStop (Fatal EC_XMLDeclMustBeLowerCase)) else
            if negb first then ([], SStop (Fatal EC_XMLDeclMustBeFirst)) else
            match scan_xmldecl r with
            | SOk _ rest => prolog f ns false rest
            | SStop s => ([], SStop s)
            end
        | None =>
            match strip_prefix s_pi l with
            | Some r => match scan_pi ns r with
                        | SOk ev rest => emit [ev] (prolog f ns false rest)
                        | SStop s => ([], SStop s)
                        end
            | None =>
                match strip_prefix s_comment l with
                | Some r => match scan_comment CmText false r with
                            | SOk t rest => emit [EvComment t] (prolog f ns false rest)
                            | SStop s => ([], SStop s)
                            end
                | None =>
                    match strip_prefix s_doctype l with
                    | Some _ => ([], SStop Unsupported)
                    | None => ([], SOk tt l)               (* assume the start of the root element *)
                    end
                end
            end
        end
      else if is_ws c then prolog f ns false (skip_ws l)
      else ([], SStop (Fatal EC_InvalidDocumentStructure))
  end.

(* ---- XMLScanner::scanMiscellaneous *)
Fixpoint misc (fuel : nat) (ns : bool) (l : str) : list event * sres unit :=
  match fuel with
  | O => ([], SStop OutOfFuel)
  | S f =>
      let c := peek l in
      (* end of input; a NUL character in the input is not the end of input but an illegal character (F41 repaired) *)
      if is_nil l then ([], SOk tt l) else
      if c =? 0 then ([], SStop (Fatal EC_InvalidCharacter)) else
      if c =? c_lt then
        match check_xmldecl l with
        | Some (lowercase, _) =>
            ([], SStop (Fatal (if lowercase then EC_NotValidAfterContent else EC_XMLDeclMustBeLowerCase)))
        | None =>
            match strip_prefix s_pi l with
            | Some r => match scan_pi ns r with
                        | SOk ev rest => emit [ev] (misc f ns rest)
                        | SStop s => ([], SStop s)
                        end
            | None =>
                match strip_prefix s_comment l with
                | Some r => match scan_comment CmText false r with
                            | SOk t rest => emit [EvComment t] (misc f ns rest)
                            | SStop s => ([], SStop s)
                            end
                | None => ([], SStop (Fatal EC_ExpectedCommentOrPI))
                end
            end
        end
      else if is_ws c then misc f ns (skip_ws l)
      else ([], SStop (Fatal EC_ExpectedCommentOrPI))
  end.

(* ---- XMLScanner/WFXMLScanner::scanDocument *)
Record cfg := { ns : bool }.
Definition scan_doc (nsf : bool) (l : str) : list event * outcome :=
  let fuel := S (length l) in
  let (e1, r1) := prolog fuel nsf true l in
  match r1 with
  | SStop s => (e1, OStop s)
  | SOk _ l1 =>
      let (e2, r2) := content fuel nsf [] l1 in
      match r2 with
      | SStop s => (e1 ++ e2, OStop s)
      | SOk _ l2 =>
          let (e3, r3) := misc fuel nsf l2 in
          (e1 ++ e2 ++ e3, match r3 with SOk _ _ => OOk | SStop s => OStop s end)
      end
  end.
Definition xscan (c : cfg) (raw : str) : list event * outcome := scan_doc (ns c) (eol_norm raw).
