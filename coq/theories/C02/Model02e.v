(** C02 -- entity layer of the scanner model: internal general entities (declared in the internal subset) referenced
    in content and in attribute values.  The C++ (IGXMLScanner / DGXMLScanner + ReaderMgr) pushes a reader for the
    replacement text and uses the reader number as the identity of "the entity we are in": an element must end in
    the entity it started in (PartialTagMarkupError), markup may not span an entity boundary (PartialMarkupInEntity),
    the closing quote of an attribute value only counts in the entity of the opening quote.  The model states that
    directly in the form the recommendation gives it (XML 1.0 4.3.2): the replacement text of every entity is scanned
    as [content] ON ITS OWN - with its own, initially empty, element stack that must be empty again at its end -
    and, in an attribute value, as attribute text in which quotes are data and '<' is forbidden.  A reference to an
    entity that is being expanded is an error (WFC No Recursion).  The functions repeat Model02's loops with that one
    extra case; with an empty entity table they are Model02's (theorems T02_entity_layer_conservative).  No proofs here. *)
From XV Require Import Base.XDefs Gen.GenXMLChar Gen.GenErrs C02.Model02.
Local Open Scope N_scope.

Definition etab := list (str * str).           (* entity name -> replacement text *)
Fixpoint lookup (n : str) (t : etab) : option str :=
  match t with [] => None | (k, v) :: r => if str_eqb n k then Some v else lookup n r end.
(* [r] follows an '&': a reference to a declared, not predefined, general entity? -> (name, replacement text, rest) *)
Definition declared_ref (ents : etab) (r : str) : option (str * str * str) :=
  match get_name r with
  | Some (n, d :: rest) =>
      if d =? c_semi then
        match predefined n with
        | Some _ => None
        | None => match lookup n ents with Some repl => Some (n, repl, rest) | None => None end
        end
      else None
  | _ => None
  end.
Definition app_res (p : str) (r : sres str) : sres str :=
  match r with SOk t rest => SOk (p ++ t) rest | SStop s => SStop s end.

(* replacement text included in an attribute value (XML 1.0 3.3.3 / 4.4.5): quotes are data, '<' is forbidden, white
   space becomes a blank, references are processed recursively *)
Fixpoint eatt_text (fuel : nat) (ents : etab) (active : list str) (sur : bool) (l : str) : sres str :=
  match fuel with
  | O => SStop OutOfFuel
  | S f =>
      match l with
      | [] => SOk [] []
      | c :: r =>
          if c =? c_amp then
            if sur then SStop (Fatal EC_Expected2ndSurrogateChar) else
            match declared_ref ents r with
            | Some (n, repl, rest) =>
                if existsb (str_eqb n) active then SStop (Fatal EC_RecursiveEntity) else
                match eatt_text f ents (n :: active) false repl with
                | SOk t _ => app_res t (eatt_text f ents active false rest)
                | SStop s => SStop s
                end
            | None =>
                match scan_entref r with
                | SOk (c1, c2) r' => cons_res c1 (consopt c2 (eatt_text f ents active false r'))
                | SStop s => SStop s
                end
            end
          else
            match sur_check2 EC_InvalidCharacterInAttrValue sur c with
            | inr e => SStop (Fatal e)
            | inl sur' =>
                if c =? c_lt then SStop (Fatal EC_BracketInAttrValue)
                else cons_res (if is_ws c then c_sp else c) (eatt_text f ents active sur' r)
            end
      end
  end.

(* scanAttValue with entity expansion *)
Fixpoint eattval (fuel : nat) (ents : etab) (q : N) (sur : bool) (l : str) : sres str :=
  match fuel with
  | O => SStop OutOfFuel
  | S f =>
      match l with
      | [] => SStop (Fatal EC_XMLException_Fatal)
      | c :: r =>
          if c =? 0 then SStop (Fatal EC_XMLException_Fatal) else
          if c =? q then (if sur then SStop (Fatal EC_Expected2ndSurrogateChar) else SOk [] r) else
          if c =? c_amp then
            if sur then SStop (Fatal EC_Expected2ndSurrogateChar) else
            match declared_ref ents r with
            | Some (n, repl, rest) =>
                match eatt_text f ents [n] false repl with
                | SOk t _ => app_res t (eattval f ents q false rest)
                | SStop s => SStop s
                end
            | None =>
                match scan_entref r with
                | SOk (c1, c2) r' => cons_res c1 (consopt c2 (eattval f ents q false r'))
                | SStop s => SStop s
                end
            end
          else
            match sur_check2 EC_InvalidCharacterInAttrValue sur c with
            | inr e => SStop (Fatal e)
            | inl sur' =>
                if c =? c_lt then SStop (Fatal EC_BracketInAttrValue)
                else cons_res (if is_ws c then c_sp else c) (eattval f ents q sur' r)
            end
      end
  end.

Definition total_len (ents : etab) : nat := fold_right (fun p a => (length (snd p) + a)%nat) 0%nat ents.

Fixpoint escan_attrs (fuel : nat) (nsf : bool) (ents : etab) (acc : list (str * str)) (l : str)
  : sres (list (str * str) * bool) :=
  match fuel with
  | O => SStop OutOfFuel
  | S f =>
      let c0 := peek l in
      let chk : str + ecode :=
        if negb (is_nil acc) && negb ((c0 =? c_slash) || (c0 =? c_gt))
        then (if starts_ws l then inl (skip_ws l) else inr EC_ExpectedWhitespace)
        else inl l in
      match chk with
      | inr e => SStop (Fatal e)
      | inl l1 =>
          let c := peek l1 in
          if negb (is_special c) then
            match get_name l1 with
            | None => SStop (Fatal EC_ExpectedAttrName)
            | Some (an, l2) =>
                if ns_unsupported nsf an then SStop Unsupported else
                match scan_eq l2 with
                | None => SStop (Fatal EC_ExpectedEqSign)
                | Some l3 =>
                    if existsb (str_eqb an) (map fst acc) then SStop (Fatal EC_AttrAlreadyUsedInSTag) else
                    match l3 with
                    | q :: l4 =>
                        if (q =? c_dq) || (q =? c_sq) then
                          match eattval (S (length l4 + total_len ents)) ents q false l4 with
                          | SOk v l5 => escan_attrs f nsf ents (acc ++ [(an, v)]) l5
                          | SStop s => SStop s
                          end
                        else SStop (Fatal EC_ExpectedAttrValue)
                    | [] => SStop (Fatal EC_ExpectedAttrValue)
                    end
                end
            end
          else if c =? 0 then SStop (Fatal EC_XMLException_Fatal)
          else if c =? c_slash then
            match tl l1 with
            | d :: r => if d =? c_gt then SOk (acc, true) r else SStop (Fatal EC_UnterminatedStartTag)
            | [] => SStop (Fatal EC_UnterminatedStartTag)
            end
          else if c =? c_gt then SOk (acc, false) (tl l1)
          else if c =? c_lt then SStop (Fatal EC_UnterminatedStartTag)
          else if (c =? c_sq) || (c =? c_dq) then SStop (Fatal EC_ExpectedAttrName)
          else SStop OutOfFuel
      end
  end.
Definition escan_starttag (nsf : bool) (ents : etab) (l : str) : sres (str * list (str * str) * bool) :=
  match get_name l with
  | None => SStop (Fatal EC_ExpectedElementName)
  | Some (name, l1) =>
      if ns_unsupported nsf name then SStop Unsupported else
      let l2 := skip_ws l1 in
      match escan_attrs (S (length l2)) nsf ents [] l2 with
      | SOk (atts, empty) rest => SOk (name, atts, empty) rest
      | SStop s => SStop s
      end
  end.

(* scanCharData that stops in front of a reference to a declared general entity *)
Fixpoint escan_chardata (fuel : nat) (ents : etab) (st : cdst) (sur : bool) (l : str) : sres str :=
  match fuel with
  | O => SStop OutOfFuel
  | S f =>
      match l with
      | [] => if sur then SStop (Fatal EC_Expected2ndSurrogateChar) else SOk [] []
      | c :: r =>
          if c =? c_lt then (if sur then SStop (Fatal EC_Expected2ndSurrogateChar) else SOk [] l) else
          if c =? c_amp then
            if sur then SStop (Fatal EC_Expected2ndSurrogateChar) else
            match declared_ref ents r with
            | Some _ => SOk [] l
            | None =>
                match scan_entref r with
                | SOk (c1, c2) r' => cons_res c1 (consopt c2 (escan_chardata f ents CW false r'))
                | SStop s => SStop s
                end
            end
          else
            match sur_check2 EC_InvalidCharacter sur c with
            | inr e => SStop (Fatal e)
            | inl sur' =>
                if c =? c_rbrack then
                  cons_res c (escan_chardata f ents (match st with CW => C1 | _ => C2 end) sur' r)
                else if c =? c_gt then
                  match st with
                  | C2 => SStop (Fatal EC_BadSequenceInCharData)
                  | _ => cons_res c (escan_chardata f ents CW sur' r)
                  end
                else cons_res c (escan_chardata f ents CW sur' r)
            end
      end
  end.

(* scanContent.  [inent] = we are scanning the replacement text of an entity: its own stack, which must be empty at
   its end, and it does not end when an element closes *)
Fixpoint econtent (fuel : nat) (nsf : bool) (ents : etab) (active : list str) (inent : bool) (stack : list str) (l : str)
  : list event * sres unit :=
  match fuel with
  | O => ([], SStop OutOfFuel)
  | S f =>
      let at_eof :=
        if is_nil stack then ([], SOk tt l)
        else ([], SStop (Fatal (if inent then EC_PartialTagMarkupError else EC_EndedWithTagsOnStack))) in
      match l with
      | [] => at_eof
      | c :: r =>
          if c =? 0 then at_eof else
          if negb (c =? c_lt) then
            match (if c =? c_amp then declared_ref ents r else None) with
            | Some (n, repl, rest) =>
                if existsb (str_eqb n) active then ([], SStop (Fatal EC_RecursiveEntity)) else
                let (ev, res) := econtent f nsf ents (n :: active) true [] repl in
                match res with
                | SOk _ _ => emit ev (econtent f nsf ents active inent stack rest)
                | SStop s => (ev, SStop s)
                end
            | None =>
                match escan_chardata (S (length l)) ents CW false l with
                | SOk t rest => emit (text_ev t) (econtent f nsf ents active inent stack rest)
                | SStop s => ([], SStop s)
                end
            end
          else
            let c2 := peek r in
            if c2 =? c_slash then
              match stack with
              | [] => ([], SStop (Fatal (if inent then EC_PartialTagMarkupError else EC_MoreEndThanStartTags)))
              | top :: stack' =>
                  match scan_endtag top (tl r) with
                  | SOk _ rest => if is_nil stack' && negb inent then ([EvEnd top], SOk tt rest)
                                  else emit [EvEnd top] (econtent f nsf ents active inent stack' rest)
                  | SStop s => ([], SStop s)
                  end
              end
            else if c2 =? c_bang then
              match strip_prefix s_cdata (tl r) with
              | Some r2 =>
                  if is_nil stack && negb inent then ([], SStop (Fatal EC_CDATAOutsideOfContent)) else
                  match scan_cdsection r2 with
                  | SOk t rest => emit [EvCData t] (econtent f nsf ents active inent stack rest)
                  | SStop s => ([], SStop s)
                  end
              | None =>
                  match strip_prefix s_dashdash (tl r) with
                  | Some r2 =>
                      match scan_comment CmText false r2 with
                      | SOk t rest => emit [EvComment t] (econtent f nsf ents active inent stack rest)
                      | SStop s => ([], SStop s)
                      end
                  | None => ([], SStop (Fatal EC_ExpectedCommentOrCDATA))
                  end
              end
            else if c2 =? c_quest then
              match scan_pi nsf (tl r) with
              | SOk ev rest => emit [ev] (econtent f nsf ents active inent stack rest)
              | SStop s => ([], SStop s)
              end
            else
              match escan_starttag nsf ents r with
              | SOk (name, atts, empty) rest =>
                  if empty then
                    (if is_nil stack && negb inent then ([EvStart name atts; EvEnd name], SOk tt rest)
                     else emit [EvStart name atts; EvEnd name] (econtent f nsf ents active inent stack rest))
                  else emit [EvStart name atts] (econtent f nsf ents active inent (name :: stack) rest)
              | SStop s => ([], SStop s)
              end
      end
  end.

(* a document whose prolog is only the DOCTYPE that declared [ents]: [l] starts at the root element *)
Definition escan_doc (nsf : bool) (ents : etab) (l : str) : list event * outcome :=
  let fuel := S (length l + total_len ents) in
  let (e2, r2) := econtent fuel nsf ents [] false [] l in
  match r2 with
  | SStop s => (e2, OStop s)
  | SOk _ l2 =>
      let (e3, r3) := misc fuel nsf l2 in
      (e2 ++ e3, match r3 with SOk _ _ => OOk | SStop s => OStop s end)
  end.
