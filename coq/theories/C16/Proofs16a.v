(** Lemmas for C16, part a: list/number helpers, the joint store/load step invariant, primitives. *)
From XV Require Import Base.XDefs C16.Model16 C16.Spec16.
From Coq Require Import Arith ZArith ZifyBool ZifyN ZifyNat Lia.
Ltac Zify.zify_post_hook ::= Z.div_mod_to_equations.
Local Open Scope nat_scope.

(* ---------------------------------------------------------------------------------------------- *)
(** * lists *)
Lemma firstn_app_exact : forall (A : Type) (a b : list A), firstn (length a) (a ++ b) = a.
Proof. induction a as [|x a IH]; intros b; cbn [length firstn app]; [destruct b; reflexivity|]. now rewrite IH. Qed.
Lemma skipn_app_exact : forall (A : Type) (a b : list A), skipn (length a) (a ++ b) = b.
Proof. induction a as [|x a IH]; intros b; cbn [length skipn app]; [reflexivity|]. apply IH. Qed.

Lemma app_eq_len : forall (A : Type) (a c b d : list A), length a = length c -> a ++ b = c ++ d -> a = c /\ b = d.
Proof.
  induction a as [|x a IH]; intros [|y c] b d Hl He; cbn in *; try discriminate.
  - split; [reflexivity|exact He].
  - injection He as -> He. destruct (IH c b d) as [-> ->]; [lia|exact He|]. split; reflexivity.
Qed.

(** if [a] is no longer than [c], a common stream splits at the end of [a] *)
Lemma app_prefix_split : forall (A : Type) (a c b d : list A), length a <= length c -> c ++ d = a ++ b ->
  exists x, c = a ++ x /\ b = x ++ d.
Proof.
  induction a as [|y a IH]; intros c b d Hl He; cbn in *.
  - exists c. split; [reflexivity|]. symmetry. exact He.
  - destruct c as [|z c]; cbn in *; [lia|]. injection He as -> He.
    destruct (IH c b d) as [x [-> ->]]; [lia|exact He|]. exists x. split; reflexivity.
Qed.

Lemma skipn_firstn_glue : forall (A : Type) (l : list A) n m, n <= m -> skipn n (firstn m l) ++ skipn m l = skipn n l.
Proof.
  induction l as [|x l IH]; intros n m H.
  - now rewrite firstn_nil, !skipn_nil.
  - destruct n as [|n].
    + cbn [skipn]. apply firstn_skipn.
    + destruct m as [|m]; [lia|]. cbn [firstn skipn]. apply IH. lia.
Qed.

Lemma firstn_firstn_le : forall (A : Type) (l : list A) n m, n <= m -> firstn n (firstn m l) = firstn n l.
Proof. intros. rewrite firstn_firstn. now rewrite Nat.min_l. Qed.


(* ---------------------------------------------------------------------------------------------- *)
(** * little-endian values *)
Lemma zeros_length : forall n, length (zeros n) = n.
Proof. intros. apply repeat_length. Qed.

Lemma le_bytes_length : forall k v, length (le_bytes k v) = k.
Proof. induction k as [|k IH]; intros v; cbn [le_bytes length]; [reflexivity|]. now rewrite IH. Qed.

Lemma firstn_le : forall k v x, firstn k (le_bytes k v ++ x) = le_bytes k v.
Proof. intros. rewrite <- (le_bytes_length k v) at 1. apply firstn_app_exact. Qed.
Lemma skipn_le : forall k v x, skipn k (le_bytes k v ++ x) = x.
Proof. intros. rewrite <- (le_bytes_length k v) at 1. apply skipn_app_exact. Qed.
Lemma skipn_zeros : forall n (x : list N), skipn n (zeros n ++ x) = x.
Proof. intros. rewrite <- (zeros_length n) at 1. apply skipn_app_exact. Qed.

Lemma le_val_bytes : forall k v, (v < 256 ^ N.of_nat k)%N -> le_val (le_bytes k v) = v.
Proof.
  induction k as [|k IH]; intros v H.
  - cbn [le_bytes le_val]. change (256 ^ N.of_nat 0)%N with 1%N in H. lia.
  - cbn [le_bytes le_val]. rewrite IH.
    + pose proof (N.div_mod v 256). lia.
    + rewrite Nat2N.inj_succ, N.pow_succ_r' in H. apply N.div_lt_upper_bound; lia.
Qed.

Lemma le_bytes_bytes : forall k v, bytes (le_bytes k v).
Proof.
  induction k as [|k IH]; intros v; cbn [le_bytes]; constructor.
  - unfold is_byte. pose proof (N.mod_upper_bound v 256). lia.
  - apply IH.
Qed.

Lemma pk_bound_pow : forall k, pk_bound k = (256 ^ N.of_nat (pk_size k))%N.
Proof. destruct k; vm_compute; reflexivity. Qed.

Lemma chars_bytes_length : forall cs, length (chars_bytes cs) = 2 * length cs.
Proof.
  unfold chars_bytes. induction cs as [|c cs IH]; [reflexivity|].
  cbn [flat_map]. rewrite app_length, le_bytes_length, IH. cbn [length]. lia.
Qed.

Lemma bytes_chars_cons : forall c rest,
  bytes_chars (le_bytes 2 c ++ rest) = (c mod 256 + 256 * ((c / 256) mod 256))%N :: bytes_chars rest.
Proof. intros. reflexivity. Qed.

Lemma bytes_chars_bytes : forall cs, Forall (fun c => (c < 65536)%N) cs -> bytes_chars (chars_bytes cs) = cs.
Proof.
  unfold chars_bytes. induction cs as [|c cs IH]; intros H; [reflexivity|].
  inversion H as [|? ? Hc Hr]; subst.
  cbn [flat_map]. rewrite bytes_chars_cons, (IH Hr). f_equal.
  set (q := (c / 256)%N). assert (Hq : (q < 256)%N) by (apply N.div_lt_upper_bound; lia).
  rewrite (N.mod_small q 256) by lia. pose proof (N.div_mod c 256) as Hd. fold q in Hd. lia.
Qed.

(* ---------------------------------------------------------------------------------------------- *)
(** * the joint invariant *)
Definition L (w : wst) : list N := w_out w ++ w_buf w.        (* logical stream written so far *)
Definition R (r : rst) : list N := r_cur r ++ r_inp r.        (* logical stream still to be read *)

Section Engine.
Variable bs : nat.
Hypothesis Hbs : 0 < bs.

Definition inv_w (w : wst) : Prop := length (w_buf w) <= bs /\ exists k, length (w_out w) = k * bs.
Definition inv_r (r : rst) : Prop := length (r_cur r) <= bs /\ exists k, length (r_inp r) = k * bs.

(** buffer offsets of the two sides agree, or the storing side stands at the start of a fresh buffer while the
    loading side stands at the end of the consumed one *)
Definition psync (pw pr : nat) : Prop := pw = pr \/ (pw = 0 /\ pr = bs).

(** a store action and the matching load action: whatever the store action appends to the logical stream ([e]) is
    consumed exactly by the load action, which returns [a]; the invariants and the offset agreement are kept *)
Definition step_ok {A : Type} (wf : wst -> res wst serr) (rf : rst -> res (A * rst) serr) (a : A) : Prop :=
  forall w, inv_w w -> exists w' e, wf w = Ok w' /\ inv_w w' /\ L w' = L w ++ e /\
    forall r T, inv_r r -> psync (length (w_buf w)) (bs - length (r_cur r)) -> R r = e ++ T ->
      exists r', rf r = Ok (a, r') /\ R r' = T /\ inv_r r' /\ psync (length (w_buf w')) (bs - length (r_cur r')).

Lemma align_adj_0 : forall size, 0 < size -> align_adj 0 size = 0.
Proof. intros size H. unfold align_adj. rewrite Nat.mod_0_l by lia. reflexivity. Qed.

Lemma fill_ok : forall r k, length (r_inp r) = k * bs -> 0 < k ->
  r_fill bs r = Ok (mkR (firstn bs (r_inp r)) (skipn bs (r_inp r))).
Proof.
  intros r k Hk Hpos. unfold r_fill. destruct (length (r_inp r) <? bs) eqn:C; [|reflexivity].
  apply Nat.ltb_lt in C. nia.
Qed.

(** the loading side starts a new buffer for a primitive: the value is at the head of the undelivered input *)
Lemma r_prim_fresh : forall size (al : bool) v r T k,
  0 < size <= bs -> (v < 256 ^ N.of_nat size)%N -> length (r_cur r) <= bs ->
  (bs <? (bs - length (r_cur r)) + ((if al then align_adj (bs - length (r_cur r)) size else 0) + size)) = true ->
  r_inp r = le_bytes size v ++ T -> length (r_inp r) = k * bs ->
  exists r', r_prim bs size al r = Ok (v, r') /\ R r' = T /\ inv_r r' /\ bs - length (r_cur r') = size.
Proof.
  intros size al v r T k Hs Hv Hc Hdec Hin Hk.
  assert (Hkpos : 0 < k).
  { destruct k; [|lia]. rewrite Hin, app_length, le_bytes_length in Hk. lia. }
  unfold r_prim. rewrite Hdec. rewrite (fill_ok r k Hk Hkpos). cbn [bind r_cur r_inp].
  assert (Hlen : length (firstn bs (r_inp r)) = bs) by (rewrite firstn_length; nia).
  rewrite Hlen, Nat.sub_diag.
  assert (Ha : (if al then align_adj 0 size else 0) = 0) by (destruct al; [apply align_adj_0; lia|reflexivity]).
  rewrite Ha. cbn [skipn].
  exists (mkR (skipn size (firstn bs (r_inp r))) (skipn bs (r_inp r))). split; [|split; [|split]].
  - rewrite firstn_firstn_le by lia. rewrite Hin, firstn_le, le_val_bytes by exact Hv. reflexivity.
  - unfold R. cbn [r_cur r_inp]. rewrite skipn_firstn_glue by lia. rewrite Hin. apply skipn_le.
  - split; cbn [r_cur r_inp].
    + rewrite skipn_length, Hlen. lia.
    + exists (k - 1). rewrite skipn_length, Hk. nia.
  - cbn [r_cur]. rewrite skipn_length, Hlen. lia.
Qed.

Lemma step_prim : forall size al v, 0 < size <= bs -> (v < 256 ^ N.of_nat size)%N ->
  step_ok (fun w => Ok (w_prim bs size al v w)) (r_prim bs size al) v.
Proof.
  intros size al v Hs Hv w [Hb [k Hk]]. unfold w_prim.
  set (pos := length (w_buf w)) in *.
  set (adj := if al then align_adj pos size else 0).
  destruct (bs <? pos + (adj + size)) eqn:C.
  - (* flush first *)
    cbn [w_flush w_buf w_out length].
    assert (Ha : (if al then align_adj 0 size else 0) = 0) by (destruct al; [apply align_adj_0; lia|reflexivity]).
    rewrite Ha. cbn [zeros repeat app].
    exists (mkW (w_out w ++ w_buf w ++ zeros (bs - pos)) (le_bytes size v)), (zeros (bs - pos) ++ le_bytes size v).
    split; [reflexivity|]. split; [|split].
    + split; cbn [w_buf w_out]; [rewrite le_bytes_length; lia|].
      exists (k + 1). rewrite !app_length, zeros_length, Hk. fold pos. nia.
    + unfold L. cbn [w_buf w_out]. now rewrite <- !app_assoc.
    + intros r T [Hc [k' Hk']] Hps HR. cbn [w_buf]. rewrite le_bytes_length.
      apply Nat.ltb_lt in C.
      assert (Hpr : pos = bs - length (r_cur r)).
      { destruct Hps as [E|[E0 E1]]; [exact E|]. exfalso.
        assert (adj = 0) by (unfold adj; rewrite E0; destruct al; [apply align_adj_0; lia|reflexivity]). lia. }
      unfold R in HR. rewrite <- app_assoc in HR.
      destruct (app_eq_len _ (r_cur r) (zeros (bs - pos)) (r_inp r) (le_bytes size v ++ T)) as [_ Hin];
        [rewrite zeros_length; lia|exact HR|].
      destruct (r_prim_fresh size al v r T k' Hs Hv Hc) as [r' [E1 [E2 [E3 E4]]]]; [|exact Hin|exact Hk'|].
      * apply Nat.ltb_lt. rewrite <- Hpr. fold adj. exact C.
      * exists r'. split; [exact E1|]. split; [exact E2|]. split; [exact E3|]. left. symmetry. exact E4.
  - (* fits *)
    apply Nat.ltb_ge in C. fold pos. fold adj.
    exists (mkW (w_out w) (w_buf w ++ zeros adj ++ le_bytes size v)), (zeros adj ++ le_bytes size v).
    split; [reflexivity|]. split; [|split].
    + split; cbn [w_buf w_out]; [rewrite !app_length, zeros_length, le_bytes_length; fold pos; lia|exists k; exact Hk].
    + unfold L. cbn [w_buf w_out]. now rewrite <- !app_assoc.
    + intros r T [Hc [k' Hk']] Hps HR. cbn [w_buf]. rewrite !app_length, zeros_length, le_bytes_length. fold pos.
      destruct Hps as [E|[E0 E1]].
      * (* same offset: the value is inside the current buffer *)
        unfold R in HR.
        destruct (app_prefix_split _ (zeros adj ++ le_bytes size v) (r_cur r) T (r_inp r)) as [x [Hx HT]];
          [rewrite app_length, zeros_length, le_bytes_length; lia|exact HR|].
        unfold r_prim. rewrite <- E. fold adj.
        assert (Cf : (bs <? pos + (adj + size)) = false) by (apply Nat.ltb_ge; exact C).
        rewrite Cf. cbn [bind]. rewrite <- E. fold adj.
        assert (Hsk : skipn adj (r_cur r) = le_bytes size v ++ x).
        { rewrite Hx, <- app_assoc. apply skipn_zeros. }
        exists (mkR x (r_inp r)). rewrite Hsk, firstn_le, skipn_le, le_val_bytes by exact Hv.
        split; [reflexivity|].
        assert (Hlx : length (r_cur r) = adj + size + length x).
        { rewrite Hx, !app_length, zeros_length, le_bytes_length. lia. }
        split; [|split].
        -- unfold R. cbn [r_cur r_inp]. symmetry. exact HT.
        -- split; cbn [r_cur r_inp]; [lia|exists k'; exact Hk'].
        -- cbn [r_cur]. left. lia.
      * (* store side at offset 0 of a fresh buffer, load side at the end of the consumed one *)
        assert (Hadj : adj = 0) by (unfold adj; rewrite E0; destruct al; [apply align_adj_0; lia|reflexivity]).
        rewrite Hadj in *. cbn [zeros repeat app] in HR.
        assert (Hcur : r_cur r = []) by (destruct (r_cur r); [reflexivity|cbn [length] in *; lia]).
        unfold R in HR. rewrite Hcur in HR. cbn [app] in HR.
        destruct (r_prim_fresh size al v r T k' Hs Hv Hc) as [r' [F1 [F2 [F3 F4]]]]; [|exact HR|exact Hk'|].
        -- apply Nat.ltb_lt. rewrite Hcur. cbn [length]. lia.
        -- exists r'. split; [exact F1|]. split; [exact F2|]. split; [exact F3|]. left. lia.
Qed.

End Engine.
