(** Specification for C16 (mentions nothing of the C++ buffer management).

    The engine is a typed byte channel: what is read back by the requests matching the written items is exactly
    what was written, and nothing but padding is left over.  A restored grammar pool is behaviourally identical
    iff every class reads, in the same order and with the same wire form, what it wrote. *)
From XV Require Import Base.XDefs C16.Model16.
Local Open Scope N_scope.

(** well-formed items: values fit their width, bytes are bytes, code units are 16 bit, lengths fit the length
    field and are not the "no data" marker *)
Definition pk_bound (k : pk) : N := match k with K1 => 256 | K2 => 65536 | K4 => 4294967296 | K8 | KS => 18446744073709551616 end.
Definition len_fits (n : nat) : Prop := 2 * N.of_nat n < noData.
Definition op_ok (o : op) : Prop :=
  match o with
  | OPrim k v => v < pk_bound k
  | ORaw d => bytes d
  | OStr None | OStrB None | OStr8 None => True
  | OStr (Some cs) => Forall (fun c => c < 65536) cs /\ len_fits (length cs)
  | OStrB (Some (bl, cs)) => Forall (fun c => c < 65536) cs /\ len_fits (length cs) /\ bl < noData
  | OStr8 (Some cs) => bytes cs /\ len_fits (length cs)
  end.

(** the round-trip oracle used by the check on the implementation's answers: were the items read back equal to the
    items written? *)
Fixpoint op_eqb (a b : op) : bool :=
  let leq := fix leq (x y : list N) : bool :=
      match x, y with [] , [] => true | p :: x', q :: y' => (p =? q) && leq x' y' | _, _ => false end in
  let oeq := fun (x y : option (list N)) =>
      match x, y with None, None => true | Some p, Some q => leq p q | _, _ => false end in
  match a, b with
  | OPrim K1 v, OPrim K1 v' | OPrim K2 v, OPrim K2 v' | OPrim K4 v, OPrim K4 v'
  | OPrim K8 v, OPrim K8 v' | OPrim KS v, OPrim KS v' => v =? v'
  | ORaw d, ORaw d' => leq d d'
  | OStr s, OStr s' => oeq s s'
  | OStr8 s, OStr8 s' => oeq s s'
  | OStrB None, OStrB None => true
  | OStrB (Some (bl, cs)), OStrB (Some (bl', cs')) => (bl =? bl') && leq cs cs'
  | _, _ => false
  end.
Fixpoint spec_roundtrip (written readback : list op) : bool :=
  match written, readback with
  | [], [] => true
  | a :: w, b :: r => op_eqb a b && spec_roundtrip w r
  | _, _ => false
  end.
