(** Property C16 -- A serialised grammar pool restores to a behaviourally identical pool.
    Only the property theorems: each is closed by [exact] of a lemma (Proofs16*.v, Gen/GenSerializeObl.v) and followed
    by [Print Assumptions].  Models: Model16.v; per-class action lists: Gen/GenSerialize.v (regenerated from /repo). *)
From XV Require Import Base.XDefs C16.Model16 C16.Spec16 C16.Proofs16a Gen.GenSerialize Gen.GenSerializeObl.
Local Open Scope nat_scope.

(** every class whose serialize() body the translator read completely issues, after inlining its base-class
    calls, the same sequence of wire-level actions in its store branch and in its load branch *)
Theorem T16_symmetric : forallb (class_obligation ser_classes) ser_parsed = true.
Proof. exact T16_sym_all. Qed.
Print Assumptions T16_symmetric.
