(** Property C16 -- A serialised grammar pool restores to a behaviourally identical pool.
    Only the property theorems: each is closed by [exact] of a lemma (Proofs16*.v, Gen/GenSerializeObl.v) and followed
    by [Print Assumptions].  Models: Model16.v; per-class action lists: Gen/GenSerialize.v (regenerated from /repo). *)
From XV Require Import Base.XDefs C16.Model16 C16.Spec16 C16.Proofs16a C16.Proofs16b C16.Proofs16c C16.ModelObj16 C16.Proofs16d C16.Containers16 C16.Helpers16
  Gen.GenSerialize Gen.GenSerializeObl C16.ModelFields16 C16.Fields16 C16.Proofs16e C16.Proofs16f Gen.GenSerFields Gen.GenSerFieldsObl.
Local Open Scope nat_scope.

(** XSerializeEngine is a faithful typed byte channel (repaired read(), see F26): for every buffer size >= 8 and
    every sequence of operations - primitives of 1/2/4/8 bytes at whatever alignment the preceding items leave
    (bool, XMLByte, char, XMLCh, short, int, unsigned, float, long, unsigned long, double: the wire form of each is
    its little-endian byte string), writeSize/Int64/UInt64 (unaligned), raw blocks of any length (every residue of
    the buffer size, including the F26 class where the remainder is an exact multiple of it), XMLCh strings with
    and without buffer length, XMLByte strings, null strings - the loading engine run over the bytes produced by
    the storing engine returns exactly the items written (for strings: bufferLen, dataLen and the characters);
    alignment padding and buffer switches are decided identically on both sides, and what is left of the stream is
    the zero padding of the last block only (at most one buffer). *)
Theorem T16_engine_roundtrip : forall bs, 8 <= bs -> forall ops, Forall op_ok ops ->
  exists stream r', w_all bs ops = Ok stream /\ r_all false bs (map rq_of ops) stream = Ok (ops, r') /\
                    R r' = zeros (length (R r')) /\ length (R r') <= bs.
Proof. exact engine_roundtrip. Qed.
Print Assumptions T16_engine_roundtrip.

(** the code as found does NOT have the property (finding F26): with a 16-byte buffer, a byte, a 31-byte block and
    an int are read back as a byte, the block and a wrong int *)
Theorem T16_raw_stale_refuted : exists stream back r,
  Forall op_ok f26_witness /\ w_all 16 f26_witness = Ok stream /\
  r_all true 16 (map rq_of f26_witness) stream = Ok (back, r) /\ spec_roundtrip f26_witness back = false.
Proof. exact raw_stale_refuted. Qed.
Print Assumptions T16_raw_stale_refuted.

(** every class whose serialize() body the translator read completely issues, after inlining its base-class
    calls, the same sequence of wire-level actions in its store branch and in its load branch (same length, same
    order, same width/kind at every position, same template container kind, same static class of object
    references, same base-class call position); one lemma per class is in Gen/GenSerializeObl.v *)
Theorem T16_symmetric : forallb (class_obligation ser_classes) ser_parsed = true.
Proof. exact T16_sym_all. Qed.
Print Assumptions T16_symmetric.

(** object references (store pool / load pool).  For EVERY finite sequence of reference events - null pointers,
    objects (address, dynamic class) and template containers, with arbitrary sharing, cycles included since a cycle
    is just a later event naming an earlier address - the load side run on the tags the store side issued succeeds,
    rebuilds a pool that mirrors the store pool entry by entry, and returns for each event the id the store side
    assigned to its address; the ids travel through the byte channel of T16_engine_roundtrip as unsigned ints. *)
Theorem T16_objgraph : forall evs ts sp', store_all [] evs = (ts, sp') ->
  load_all [] (map rq_ev evs) ts = Ok (map (ref_of sp') evs, map ent sp').
Proof. intros evs ts sp'. exact (objgraph_run evs [] ts sp'). Qed.
Print Assumptions T16_objgraph.

(** ... hence the loaded graph is isomorphic to the stored one: every non-null pointer is loaded as a non-null
    reference, two references are equal after load iff they were equal before (shared sub-objects stay shared,
    distinct objects stay distinct), and null stays null *)
Theorem T16_objgraph_sharing : forall evs ts sp' e1 e2 a b, store_all [] evs = (ts, sp') -> In e1 evs -> In e2 evs ->
  ev_addr e1 = Some a -> ev_addr e2 = Some b ->
  (exists i, ref_of sp' e1 = Some i) /\ (ref_of sp' e1 = ref_of sp' e2 <-> a = b).
Proof. exact sharing_iff. Qed.
Print Assumptions T16_objgraph_sharing.

Theorem T16_objgraph_null : forall sp' e evs ts, store_all [] evs = (ts, sp') -> In e evs ->
  (ref_of sp' e = None <-> ev_addr e = None).
Proof. exact null_iff. Qed.
Print Assumptions T16_objgraph_null.

(** the class record selects the stored dynamic class: the load-pool entry behind the reference of an object event
    is an object of that event's class (each address being used with one class throughout the run) *)
Theorem T16_objgraph_class : forall evs ts sp' a c, consistent evs -> store_all [] evs = (ts, sp') -> In (EObj a c) evs ->
  exists id, ref_of sp' (EObj a c) = Some id /\ nth_error (map ent sp') (id - 1) = Some (LObj c).
Proof. exact class_of_loaded. Qed.
Print Assumptions T16_objgraph_class.

(** store (load (store g)) = store g: presenting the loaded graph (addresses = load-pool ids) to a fresh storing
    engine yields exactly the same tag sequence - ids are assigned deterministically by first occurrence.  (Bytes
    of a real second serialisation can still differ where a container enumerates in address order; the check
    compares lengths there.) *)
Theorem T16_reserialize : forall evs ts sp', store_all [] evs = (ts, sp') -> fst (store_all [] (reload sp' evs)) = ts.
Proof. exact reserialize. Qed.
Print Assumptions T16_reserialize.

(** the container helpers of XTemplateSerializer.cpp, body by body (28 storeObject/loadObject overload pairs today,
    one lemma each in Gen/GenSerializeObl.v): both overloads transfer the same items - tag, hash modulus, count, and
    per entry the same fields in the same order - and a key that is stored explicitly is read back into the very
    argument position of the insertion call that corresponds to its position in the enumerator's key tuple *)
Theorem T16_containers_symmetric : forallb container_ok ser_containers = true.
Proof. exact T16_tmpl_all. Qed.
Print Assumptions T16_containers_symmetric.

(** every container kind stored by a serialize() body or by another container has such a pair *)
Theorem T16_containers_covered : tmpl_covered ser_parsed ser_containers = true.
Proof. exact T16_tmpl_covered. Qed.
Print Assumptions T16_containers_covered.

(** every loadObject re-inserts its entries under exactly the reviewed key expressions (Containers16.v): callee,
    argument expressions in order, and the definitions of the key variables *)
Theorem T16_container_keys : inserts_ok pinned_container_inserts ser_container_inserts = true.
Proof. exact T16_tmpl_inserts. Qed.
Print Assumptions T16_container_keys.

(** the static store<X>/load<X> helper pairs, body by body (storeDV/loadDV, storeIC/loadIC, storeElementDecl/
    loadElementDecl, storeClusive/loadClusive, storeGrammar/loadGrammar): every control-flow path of the store body
    (null / built-in by name / type id + object ...) writes a sequence that some path of the load body reads item by
    item; every helper called from a serialize() body or a container has such a pair; and the decision conditions
    of both bodies are exactly the reviewed ones (Helpers16.v) - e.g. storeDV decides "built-in" by identity with the
    registry entry, not by name *)
Theorem T16_helpers_symmetric : forallb helper_ok ser_helpers = true.
Proof. exact T16_helper_all. Qed.
Print Assumptions T16_helpers_symmetric.
Theorem T16_helpers_covered : helpers_covered (ser_parsed ++ ser_containers) ser_helpers = true.
Proof. exact T16_helper_covered. Qed.
Print Assumptions T16_helpers_covered.
Theorem T16_helper_decisions : inserts_ok pinned_helper_conds ser_helper_conds = true.
Proof. exact T16_helper_conds. Qed.
Print Assumptions T16_helper_decisions.

(** FIELD COVERAGE (regenerated from the headers and the serialize() bodies of /repo on every run, one obligation per
    class in Gen/GenSerFieldsObl.v): every non-static data member declared in the header of a serialisable class occurs
    in the store direction AND in the load direction of that class's serialize(), or is listed with its reason in the
    reviewed table Fields16.v (derived / cache / scratch members), or is one of the members of the defect list
    known_field_gaps (finding F62: XMLDateTime::fMilliSecond, fHasTime - the check replays the witness while
    Gen reports the gap open).  A member added to a header, or dropped from both branches of serialize() (which
    T16_symmetric cannot see), breaks the obligation of its class.  "Occurs" is by identifier in the statements of the
    direction (trusted reading of the translator); the table is precise (no stale entries). *)
Theorem T16_fields_covered : forall c f, In c ser_fields -> In f (snd c) ->
  (fm_store f = true /\ fm_load f = true) \/ listed (transient_fields ++ known_field_gaps) (fst c) (fm_name f) = true.
Proof. exact (fields_all_spec (transient_fields ++ known_field_gaps) ser_fields T16_fields_all). Qed.
Print Assumptions T16_fields_covered.
Theorem T16_fields_table_is_precise : transient_precise transient_fields ser_fields = true.
Proof. exact T16_fields_table_precise. Qed.
Print Assumptions T16_fields_table_is_precise.
(** enum-typed members travel as a 4-byte integer and are cast back to their declared enum type (so that, with
    T16_engine_roundtrip, the loaded value is the stored enumerator) *)
Theorem T16_enum_fields : forallb (fun e => snd e) ser_enum_fields = true.
Proof. exact T16_enum_fields_all. Qed.
Print Assumptions T16_enum_fields.

(** deserializeGrammars compares the level stamp before anything else is read *)
Theorem T16_level : forall bs level stream r0 stamp r1 stale qs, 8 <= bs ->
  r_init bs stream = Ok r0 -> r_prim bs 4 true r0 = Ok (stamp, r1) -> stamp <> level ->
  pool_load stale bs level qs stream = Err E_LevelMismatch.
Proof. intros bs level stream r0 stamp r1 stale qs _. exact (level_rejected bs level stream r0 stamp r1 stale qs). Qed.
Print Assumptions T16_level.

(** a pool stored by a build of another level is refused by this build's loader (ser_level is regenerated from
    configure.ac), whatever the pool contains and however the stream is cut into buffers *)
Theorem T16_level_foreign_pool : forall bs stamp locked body qs, 8 <= bs -> (stamp < 4294967296)%N -> stamp <> ser_level ->
  Forall op_ok body ->
  exists stream, pool_store bs stamp locked body = Ok stream /\ pool_load false bs ser_level qs stream = Err E_LevelMismatch.
Proof. intros bs stamp locked body qs H. exact (level_mismatch_stored bs H ser_level stamp locked body qs). Qed.
Print Assumptions T16_level_foreign_pool.

(** TRUNCATED STREAMS.  For every buffer size, every sequence of read requests, every stream and every cut point: the
    loading engine run on the first n bytes of the stream either stops with XSer_InStream_Read_LT_Req (fillBuffer obtained
    fewer than fBufSize bytes) or returns exactly the items it returns on the whole stream (the cut fell into bytes no
    request reads, e.g. nothing was cut) - it never returns different items.  (An error other than Read_LT is one the
    whole stream produces as well.)  Holds for the code as found and as repaired (any [stale]). *)
Theorem T16_truncated_rejects : forall stale bs qs stream n,
  match r_all stale bs qs (firstn n stream) with
  | Ok (ops, _) => exists r', r_all stale bs qs stream = Ok (ops, r')
  | Err e => e = E_ReadLT \/ r_all stale bs qs stream = Err e
  end.
Proof. exact truncated_rejects. Qed.
Print Assumptions T16_truncated_rejects.
(** the same through deserializeGrammars' header: a truncated pool stream is rejected (Read_LT, or the level mismatch of
    the whole stream) or loads exactly the items of the whole stream *)
Theorem T16_pool_truncated_rejects : forall stale bs level qs stream n,
  match pool_load stale bs level qs (firstn n stream) with
  | Ok (lk, ops, _) => exists r', pool_load stale bs level qs stream = Ok (lk, ops, r')
  | Err e => e = E_ReadLT \/ pool_load stale bs level qs stream = Err e
  end.
Proof. exact pool_truncated_rejects. Qed.
Print Assumptions T16_pool_truncated_rejects.

(** non-vacuity *)
Example T16_nonvacuous_truncated :   (* cut inside the second buffer: rejected; cut = whole length: read *)
  let ops := [OPrim K1 1; OStr (Some [0x41; 0x42; 0x43; 0x44; 0x45; 0x46; 0x47; 0x48; 0x49]); OPrim K4 9]%N in
  (exists s, w_all 8 ops = Ok s /\ length s = 40 /\
     r_all false 8 (map rq_of ops) (firstn 39 s) = Err E_ReadLT /\ r_all false 8 (map rq_of ops) (firstn 9 s) = Err E_ReadLT /\
     r_all false 8 (map rq_of ops) (firstn 0 s) = Err E_ReadLT /\
     exists r, r_all false 8 (map rq_of ops) (firstn 40 s) = Ok (ops, r)).
Proof. cbv zeta. eexists. split; [vm_compute; reflexivity|]. repeat split; try (vm_compute; reflexivity). eexists. vm_compute. reflexivity. Qed.
Example T16_nonvacuous_ops :
  Forall op_ok [OPrim K4 7; OStr (Some [0x41; 0x20AC]); OStr None; ORaw [1; 2; 3]; OPrim KS 5; OPrim K8 0xFFFFFFFFFFFFFFFF;
                OStrB (Some (16, [0x41; 0xD800])); OStrB None; OStr8 (Some [0x51; 0x4E]); OPrim K2 0xFFFF; OPrim K1 1]%N.
Proof. repeat constructor; vm_compute; reflexivity. Qed.
Example T16_nonvacuous_straddle :   (* a string whose bytes span three 8-byte buffers, then an aligned int *)
  w_all 8 [OPrim K1 1; OStr (Some [0x41; 0x42; 0x43; 0x44; 0x45; 0x46; 0x47; 0x48; 0x49]); OPrim K4 9]%N =
  Ok [1;0;0;0;0;0;0;0; 9;0;0;0;0;0;0;0; 0x41;0;0x42;0;0x43;0;0x44;0; 0x45;0;0x46;0;0x47;0;0x48;0; 0x49;0;0;0;9;0;0;0]%N.
Proof. vm_compute. reflexivity. Qed.
Example T16_nonvacuous_level : pool_load false 8 ser_level [] [8;0;0;0;0;0;0;0]%N = Err E_LevelMismatch.
Proof. vm_compute. reflexivity. Qed.
Example T16_nonvacuous_asymmetry_detected :   (* a field dropped from the load branch breaks the obligation *)
  class_ok [(1, true, [APrim W4; AStr false; AObj 2], [APrim W4; AObj 2])] (1, true, [APrim W4; AStr false; AObj 2], [APrim W4; AObj 2]) = false
  /\ compatible [APrim W4; APrim W1] [APrim W1; APrim W4] = false /\ compatible [APrim W4] [APrim W8] = false.
Proof. vm_compute. repeat split; reflexivity. Qed.
Example T16_nonvacuous_rekeyed_container :   (* the stored scope key not used as third insertion key; a changed key expression *)
  container_ok (1, true, [ATag; ABrOpen; APrim WS; ALoopOpen; AKey W4 3; AObj 2; ALoopClose; ABrAlt; ABrClose],
                         [ATag; ABrOpen; APrim WS; ALoopOpen; AKey W4 0; AObj 2; ALoopClose; ABrAlt; ABrClose]) = false /\
  inserts_ok [(5, [[1; 2; 3]])]%N [(5, [[1; 2; 4]])]%N = false /\ inserts_ok [(5, [[1; 2; 3]])]%N [(5, [[1; 3; 2]])]%N = false.
Proof. vm_compute. repeat split; reflexivity. Qed.
Example T16_nonvacuous_objgraph :   (* shared object, second object of the same class, null, shared container, cycle back to 10 *)
  let evs := [EObj 10 3; EObj 11 3; ENull (QObj 3); EObj 10 3; ETmpl 50; EObj 12 4; ETmpl 50; EObj 10 3] in
  store_all [] evs = ([TNewClass 3; TClassRef 1; TNull; TRef 2; TTmpl; TNewClass 4; TRef 4; TRef 2],
                      [KCls 3; KObj 10 3; KObj 11 3; KTmpl 50; KCls 4; KObj 12 4]) /\
  load_all [] (map rq_ev evs) (fst (store_all [] evs)) =
    Ok ([Some 2; Some 3; None; Some 2; Some 4; Some 6; Some 4; Some 2], [LCls 3; LObj 3; LObj 3; LTmpl; LCls 4; LObj 4]) /\
  load_all [] [QObj 4] [TNewClass 3] = Err E_NameDif /\ load_all [] [QObj 3] [TRef 1] = Err E_UppBnd /\
  consistent evs.
Proof.
  cbv zeta. split; [vm_compute; reflexivity|]. split; [vm_compute; reflexivity|]. split; [reflexivity|]. split; [reflexivity|].
  intros e1 e2 a H1 H2 Ha Hb. cbn [In] in H1, H2.
  repeat (destruct H1 as [<-|H1]); try contradiction; cbn [ev_addr] in Ha; try discriminate; injection Ha as <-;
  repeat (destruct H2 as [<-|H2]); try contradiction; cbn [ev_addr] in Hb; try discriminate; try reflexivity.
Qed.
Example T16_nonvacuous_helper :   (* a store path nobody reads; a changed decision text *)
  helper_ok (1, [[APrim W4; AStr false]; [APrim W4; APrim W4; AObj 2]], [[APrim W4; AStr false]; [APrim W4]]) = false /\
  helper_ok (1, [[APrim W4; AStr false]; [APrim W4]], [[APrim W4; AStr false]; [APrim W4]; [APrim W4; APrim W4]]) = true /\
  inserts_ok [(7, [[1; 2]; [3]])]%N [(7, [[1; 9]; [3]])]%N = false.
Proof. vm_compute. repeat split; reflexivity. Qed.
Example T16_nonvacuous_fields :   (* a member dropped from both branches / a new header member is detected; a listed one is not *)
  fields_ok [(7, 30)]%N (7%N, [(10%N, true, true); (20%N, false, false); (30%N, false, true)]) = false /\
  fields_ok [(7, 30); (0, 20)]%N (7%N, [(10%N, true, true); (20%N, false, false); (30%N, false, true)]) = true /\
  transient_precise [(7, 10)]%N [(7%N, [(10%N, true, true)])] = false /\ length ser_fields = length ser_classes.
Proof. vm_compute. repeat split; reflexivity. Qed.
