(** Property C16 -- A serialised grammar pool restores to a behaviourally identical pool.
    Only the property theorems: each is closed by [exact] of a lemma (Proofs16*.v, Gen/GenSerializeObl.v) and followed
    by [Print Assumptions].  Models: Model16.v; per-class action lists: Gen/GenSerialize.v (regenerated from /repo). *)
From XV Require Import Base.XDefs C16.Model16 C16.Spec16 C16.Proofs16a C16.Proofs16b C16.Proofs16c
  Gen.GenSerialize Gen.GenSerializeObl.
Local Open Scope nat_scope.

(** XSerializeEngine is a faithful typed byte channel (repaired read(), see F26): for every buffer size >= 8 and
    every sequence of typed primitives (1/2/4/8 bytes aligned, writeSize/Int64/UInt64 unaligned), raw blocks of
    any length (spanning any number of buffers) and XMLCh strings (null or not), the loading engine run over the
    bytes produced by the storing engine returns exactly the items written - alignment padding and buffer
    switches are decided identically on both sides - and what is left of the stream is the zero padding of the
    last block only (at most one buffer).
    PARTIAL with respect to the design: writeString with buffer length (OStrB: KVStringPair, QName, XMLDateTime)
    and XMLByte strings (OStr8: class names of XProtoType) are modelled and covered by the correspondence, but not
    by this theorem ([basic] excludes them). *)
Theorem T16_engine_roundtrip_partial : forall bs, 8 <= bs -> forall ops, Forall op_ok ops -> Forall basic ops ->
  exists stream r', w_all bs ops = Ok stream /\ r_all false bs (map rq_of ops) stream = Ok (ops, r') /\
                    R r' = zeros (length (R r')) /\ length (R r') <= bs.
Proof. exact engine_roundtrip. Qed.
Print Assumptions T16_engine_roundtrip_partial.

(** the code as found does NOT have the property (finding F26): with a 16-byte buffer, a byte, a 31-byte block and
    an int are read back as a byte, the block and a wrong int *)
Theorem T16_raw_stale_refuted : exists stream back r,
  Forall op_ok f26_witness /\ w_all 16 f26_witness = Ok stream /\
  r_all true 16 (map rq_of f26_witness) stream = Ok (back, r) /\ spec_roundtrip f26_witness back = false.
Proof. exact raw_stale_refuted. Qed.
Print Assumptions T16_raw_stale_refuted.

(** every class whose serialize() body the translator read completely issues, after inlining its base-class
    calls, the same sequence of wire-level actions in its store branch and in its load branch (same length, same
    order, same width/kind at every position, same template container kind, same static class of object
    references, same base-class call position); one lemma per class is in Gen/GenSerializeObl.v *)
Theorem T16_symmetric : forallb (class_obligation ser_classes) ser_parsed = true.
Proof. exact T16_sym_all. Qed.
Print Assumptions T16_symmetric.

(** deserializeGrammars compares the level stamp before anything else is read *)
Theorem T16_level : forall bs level stream r0 stamp r1 stale qs, 8 <= bs ->
  r_init bs stream = Ok r0 -> r_prim bs 4 true r0 = Ok (stamp, r1) -> stamp <> level ->
  pool_load stale bs level qs stream = Err E_LevelMismatch.
Proof. intros bs level stream r0 stamp r1 stale qs _. exact (level_rejected bs level stream r0 stamp r1 stale qs). Qed.
Print Assumptions T16_level.

(** a pool stored by a build of another level is refused by this build's loader (ser_level is regenerated from
    configure.ac), whatever the pool contains and however the stream is cut into buffers *)
Theorem T16_level_foreign_pool : forall bs stamp locked body qs, 8 <= bs -> (stamp < 4294967296)%N -> stamp <> ser_level ->
  Forall op_ok body -> Forall basic body ->
  exists stream, pool_store bs stamp locked body = Ok stream /\ pool_load false bs ser_level qs stream = Err E_LevelMismatch.
Proof. intros bs stamp locked body qs H. exact (level_mismatch_stored bs H ser_level stamp locked body qs). Qed.
Print Assumptions T16_level_foreign_pool.

(** non-vacuity *)
Example T16_nonvacuous_ops :
  Forall op_ok [OPrim K4 7; OStr (Some [0x41; 0x20AC]); OStr None; ORaw [1; 2; 3]; OPrim KS 5; OPrim K8 0xFFFFFFFFFFFFFFFF]%N /\
  Forall basic [OPrim K4 7; OStr (Some [0x41; 0x20AC]); OStr None; ORaw [1; 2; 3]; OPrim KS 5; OPrim K8 0xFFFFFFFFFFFFFFFF]%N.
Proof. split; repeat constructor; vm_compute; reflexivity. Qed.
Example T16_nonvacuous_straddle :   (* a string whose bytes span three 8-byte buffers, then an aligned int *)
  w_all 8 [OPrim K1 1; OStr (Some [0x41; 0x42; 0x43; 0x44; 0x45; 0x46; 0x47; 0x48; 0x49]); OPrim K4 9]%N =
  Ok [1;0;0;0;0;0;0;0; 9;0;0;0;0;0;0;0; 0x41;0;0x42;0;0x43;0;0x44;0; 0x45;0;0x46;0;0x47;0;0x48;0; 0x49;0;0;0;9;0;0;0]%N.
Proof. vm_compute. reflexivity. Qed.
Example T16_nonvacuous_level : pool_load false 8 ser_level [] [8;0;0;0;0;0;0;0]%N = Err E_LevelMismatch.
Proof. vm_compute. reflexivity. Qed.
Example T16_nonvacuous_asymmetry_detected :   (* a field dropped from the load branch breaks the obligation *)
  class_ok [(1, true, [APrim W4; AStr false; AObj 2], [APrim W4; AObj 2])] (1, true, [APrim W4; AStr false; AObj 2], [APrim W4; AObj 2]) = false
  /\ compatible [APrim W4; APrim W1] [APrim W1; APrim W4] = false /\ compatible [APrim W4] [APrim W8] = false.
Proof. vm_compute. repeat split; reflexivity. Qed.
