(** Executable model of the object-reference layer of XSerializeEngine (XSerializeEngine.cpp: write(XSerializable ptr),
    write(XProtoType ptr), read(XProtoType ptr), needToStoreObject / needToLoadObject / registerObject, fStorePool, fLoadPool,
    fObjectCount) at the level of tags.  No proofs in this file.

    A serialisation run presents the object graph to the engine as the sequence of reference events its traversal
    issues (the nesting of serialize() calls is irrelevant for identity: the stream is flat and both directions walk
    the same class layouts, T16_symmetric).  Each event becomes one tag word; the tag words travel through the byte
    channel of Model16 (T16_engine_roundtrip).  Ids: one counter for class records and objects, pumped before the
    entry is added, so the first entry has id 1; the load pool is a vector whose index i-1 holds entry i.
    Not modelled: the bound fgMaxObjectCount (0x3FFFFFFD entries). *)
From XV Require Import Base.XDefs.
From Coq Require Import Arith.
Local Open Scope nat_scope.

(** what the loading side asks for: an object through the typed operator>> of class [c] (read(XProtoType ptr)) or a
    template container (needToLoadObject) *)
Inductive lreq := QObj (c : nat) | QTmpl.

(** reference events: a null pointer (with the request the load side will issue for it), an object at address [a]
    of dynamic class [c] (the storing side takes the prototype of the dynamic class), a container at address [a] *)
Inductive ev := ENull (q : lreq) | EObj (a c : nat) | ETmpl (a : nat).

(** store pool entries, in insertion order (entry i has id i) *)
Inductive key := KObj (a c : nat) | KTmpl (a : nat) | KCls (c : nat).

(** tag words: fgNullObjectTag, an object reference, fgNewClassTag + class name record, fgClassMask|index,
    fgTemplateObjTag *)
Inductive tok := TNull | TRef (id : nat) | TNewClass (c : nat) | TClassRef (idx : nat) | TTmpl.

Definition key_addr (k : key) : option nat :=
  match k with KObj a _ => Some a | KTmpl a => Some a | KCls _ => None end.
Definition key_cls (k : key) : option nat :=
  match k with KCls c => Some c | _ => None end.

(** lookupStorePool: id of the entry stored under a pointer (the pool is keyed by address) *)
Fixpoint find_id (f : key -> option nat) (n : nat) (sp : list key) (x : nat) : option nat :=
  match sp with
  | [] => None
  | k :: r => if (match f k with Some y => Nat.eqb x y | None => false end) then Some (S n) else find_id f (S n) r x
  end.
Definition addr_id (sp : list key) (a : nat) : option nat := find_id key_addr 0 sp a.
Definition cls_id (sp : list key) (c : nat) : option nat := find_id key_cls 0 sp c.

(** write(XSerializable ptr) / needToStoreObject *)
Definition store_ev (sp : list key) (e : ev) : tok * list key :=
  match e with
  | ENull _ => (TNull, sp)
  | EObj a c =>
    match addr_id sp a with
    | Some id => (TRef id, sp)
    | None => match cls_id sp c with
              | Some idx => (TClassRef idx, sp ++ [KObj a c])
              | None => (TNewClass c, sp ++ [KCls c; KObj a c])
              end
    end
  | ETmpl a =>
    match addr_id sp a with
    | Some id => (TRef id, sp)
    | None => (TTmpl, sp ++ [KTmpl a])
    end
  end.

Fixpoint store_all (sp : list key) (evs : list ev) : list tok * list key :=
  match evs with
  | [] => ([], sp)
  | e :: r => let '(t, sp1) := store_ev sp e in let '(ts, sp2) := store_all sp1 r in (t :: ts, sp2)
  end.

(** load pool entries *)
Inductive lent := LObj (c : nat) | LTmpl | LCls (c : nat).

Inductive oerr :=
| E_UppBnd        (* XSer_LoadPool_UppBnd_Exceed *)
| E_NameDif       (* XSer_ProtoType_Name_Dif / NameLen_Dif *)
| E_ClassIndex    (* XSer_Inv_ClassIndex *)
| E_Short.        (* requests and tags do not pair up *)

(** read(XProtoType ptr) / needToLoadObject + registerObject: the loaded reference is the load-pool id of the object
    (None = null pointer) *)
Definition load_ev (lp : list lent) (q : lreq) (t : tok) : res (option nat * list lent) oerr :=
  match t with
  | TNull => Ok (None, lp)
  | TRef 0 => Ok (None, lp)
  | TRef id => if length lp <? id then Err E_UppBnd else Ok (Some id, lp)
  | TNewClass n =>
    match q with
    | QObj c => if Nat.eqb n c then Ok (Some (length lp + 2), lp ++ [LCls c; LObj c]) else Err E_NameDif
    | QTmpl => Err E_UppBnd
    end
  | TClassRef idx =>
    match q with
    | QObj c => if (idx =? 0) || (length lp <? idx) then Err E_ClassIndex else Ok (Some (length lp + 1), lp ++ [LObj c])
    | QTmpl => Err E_UppBnd
    end
  | TTmpl =>
    match q with
    | QObj _ => Err E_ClassIndex
    | QTmpl => Ok (Some (length lp + 1), lp ++ [LTmpl])
    end
  end.

Fixpoint load_all (lp : list lent) (qs : list lreq) (ts : list tok) : res (list (option nat) * list lent) oerr :=
  match qs, ts with
  | [], [] => Ok ([], lp)
  | q :: qr, t :: tr =>
    match load_ev lp q t with
    | Err e => Err e
    | Ok (r, lp1) => match load_all lp1 qr tr with
                     | Err e => Err e
                     | Ok (rs, lp2) => Ok (r :: rs, lp2)
                     end
    end
  | _, _ => Err E_Short
  end.

(** the request the load side issues where the store side issued [e]: the typed operator>> of the object's class
    (the store/load helper pairs dispatch on a stored type code so that static and dynamic class agree) *)
Definition rq_ev (e : ev) : lreq :=
  match e with ENull q => q | EObj _ c => QObj c | ETmpl _ => QTmpl end.

Definition ent (k : key) : lent :=
  match k with KObj _ c => LObj c | KTmpl _ => LTmpl | KCls c => LCls c end.

Definition ev_addr (e : ev) : option nat :=
  match e with ENull _ => None | EObj a _ => Some a | ETmpl a => Some a end.

(** the reference the loaded graph holds where the original held [e] *)
Definition ref_of (sp : list key) (e : ev) : option nat :=
  match ev_addr e with None => None | Some a => addr_id sp a end.

(** the loaded graph presented as events again: addresses are the load-pool ids *)
Definition the_id (sp : list key) (a : nat) : nat := match addr_id sp a with Some id => id | None => 0 end.
Definition ren_ev (rho : nat -> nat) (e : ev) : ev :=
  match e with ENull q => ENull q | EObj a c => EObj (rho a) c | ETmpl a => ETmpl (rho a) end.
Definition ren_key (rho : nat -> nat) (k : key) : key :=
  match k with KObj a c => KObj (rho a) c | KTmpl a => KTmpl (rho a) | KCls c => KCls c end.
Definition reload (sp : list key) (evs : list ev) : list ev := map (ren_ev (the_id sp)) evs.
