(** Reviewed insertion keys of the XTemplateSerializer loadObject bodies (hand-approved table, committed).
    Each entry: checksum of the container signature, and per insertion call the checksums of the callee name, of
    every argument expression and of the assignments that define a key variable.  The generated list
    (Gen/GenSerialize.v) must equal this one: a loadObject that re-inserts an entry under another key expression, or
    with its arguments in another order, breaks T16_tmpl_inserts.  Readable form of the approved calls:
      NameIdPool<DTDElementDecl>                 put(data)   where data=new (serEng.getMemoryManager()) DTDElementDecl(serEng.getMemoryManager())
      NameIdPool<DTDEntityDecl>                  put(data)   where data=new (serEng.getMemoryManager()) DTDEntityDecl(serEng.getMemoryManager())
      NameIdPool<XMLNotationDecl>                put(data)   where data=new (serEng.getMemoryManager()) XMLNotationDecl(serEng.getMemoryManager())
      RefArrayVectorOf<XMLCh>                    addElement(data)
      RefHash2KeysTableOf<ElemVector>            put((void* )key1, key2, data)   where key1=elemName; data=0
      RefHash2KeysTableOf<SchemaAttDef>          put((void* )key1, key2, data)   where key1=data->getAttName()->getLocalPart(); key2=data->getAttName()->getURI()
      RefHash3KeysIdPool<SchemaElementDecl>      put(elemDecl->getBaseName(), elemDecl->getURI(), scopeKey, elemDecl)
      RefHashTableOf<ComplexTypeInfo>            put((void* )data->getTypeName(), data)
      RefHashTableOf<DTDAttDef>                  put((void* )data->getFullName(), data)
      RefHashTableOf<DatatypeValidator>          put((void* )refKey, data)   where refKey=(XMLCh* ) serEng.getStringPool()->getValueForId(id); data=DatatypeValidator::loadDV(serEng)
      RefHashTableOf<Grammar>                    put(key, data)   where key=(XMLCh* ) data->getGrammarDescription()->getGrammarKey(); data=Grammar::loadGrammar(serEng)
      RefHashTableOf<KVStringPair>               put((void* )data->getKey(), data)
      RefHashTableOf<XMLAttDef>                  put((void* )data->getAttName()->getLocalPart(), data)
      RefHashTableOf<XMLRefInfo>                 put((void* )key, data)
      RefHashTableOf<XSAnnotation,PtrHasher>     put(key, data)   where key=serEng.lookupLoadPool(keyId); key=serEng.lookupLoadPool(keyId)
      RefHashTableOf<XercesAttGroupInfo>         put((void* )key, data)   where key=(XMLCh* ) serEng.getStringPool()->getValueForId(data->getNameId())
      RefHashTableOf<XercesGroupInfo>            put((void* )key, data)   where key=(XMLCh* ) serEng.getStringPool()->getValueForId(id)
      RefVectorOf<ContentSpecNode>               addElement(data)
      RefVectorOf<DatatypeValidator>             addElement(data)   where data=DatatypeValidator::loadDV(serEng)
      RefVectorOf<IC_Field>                      addElement(data)
      RefVectorOf<IdentityConstraint>            addElement(data)   where data=IdentityConstraint::loadIC(serEng)
      RefVectorOf<SchemaAttDef>                  addElement(data)
      RefVectorOf<SchemaElementDecl>             addElement(data)
      RefVectorOf<XMLNumber>                     addElement(data)   where data=XMLNumber::loadNumber(numType , serEng)
      RefVectorOf<XercesLocationPath>            addElement(data)
      RefVectorOf<XercesStep>                    addElement(data)
      ValueVectorOf<SchemaElementDecl-ptr>       addElement(data)
      ValueVectorOf<unsignedint>                 addElement(data)
*)
From XV Require Import Base.XDefs C16.Model16.
Definition pinned_container_inserts : list insert_sig :=
  [(275526576%N, [[928708038%N; 918445909%N; 824374631%N]]);
   (691621674%N, [[928708038%N; 918445909%N; 109529129%N]]);
   (970963915%N, [[928708038%N; 918445909%N; 621374443%N]]);
   (545213264%N, [[601566460%N; 918445909%N]]);
   (84259997%N, [[928708038%N; 176897983%N; 42260437%N; 918445909%N; 108778456%N; 737252053%N]]);
   (210399887%N, [[928708038%N; 176897983%N; 42260437%N; 918445909%N; 348806094%N; 799196373%N]]);
   (15155342%N, [[928708038%N; 637452301%N; 254051447%N; 166138675%N; 625625967%N]]);
   (746990858%N, [[928708038%N; 133617135%N; 918445909%N]]);
   (879258269%N, [[928708038%N; 947018880%N; 918445909%N]]);
   (96950687%N, [[928708038%N; 25513771%N; 918445909%N; 925362041%N; 540607136%N]]);
   (243198030%N, [[928708038%N; 324736923%N; 918445909%N; 146434005%N; 861994587%N]]);
   (20713817%N, [[928708038%N; 397879302%N; 918445909%N]]);
   (166635083%N, [[928708038%N; 204709727%N; 918445909%N]]);
   (743873538%N, [[928708038%N; 611200700%N; 918445909%N]]);
   (624733064%N, [[928708038%N; 324736923%N; 918445909%N; 727602307%N; 727602307%N]]);
   (601525470%N, [[928708038%N; 611200700%N; 918445909%N; 83467777%N]]);
   (893399810%N, [[928708038%N; 611200700%N; 918445909%N; 244407551%N]]);
   (278896520%N, [[601566460%N; 918445909%N]]);
   (402017184%N, [[601566460%N; 918445909%N; 540607136%N]]);
   (558624867%N, [[601566460%N; 918445909%N]]);
   (100592817%N, [[601566460%N; 918445909%N; 338829198%N]]);
   (525393163%N, [[601566460%N; 918445909%N]]);
   (261999374%N, [[601566460%N; 918445909%N]]);
   (281947351%N, [[601566460%N; 918445909%N; 493838448%N]]);
   (848564860%N, [[601566460%N; 918445909%N]]);
   (992098962%N, [[601566460%N; 918445909%N]]);
   (779132239%N, [[601566460%N; 918445909%N]]);
   (453123450%N, [[601566460%N; 918445909%N]])].
