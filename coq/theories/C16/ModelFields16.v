(** Field coverage of the serialisable classes (executable definitions only, no proofs).
    The translator translator/c16_fields.py reads, for every class with a serialize(XSerializeEngine&) body, the non-static
    data members declared in the class's header and whether each of them occurs in the statements of the store direction
    and in the statements of the load direction of that body.  Names travel as checksums (crc32 mod 1000000007 of the
    identifier); the readable names are in the comments of Gen/GenSerFields.v and C16/Fields16.v. *)
From XV Require Import Base.XDefs.
Local Open Scope N_scope.

(** (member, occurs in the store direction, occurs in the load direction) *)
Definition fmember : Type := (N * bool * bool)%type.
Definition fm_name (f : fmember) : N := fst (fst f).
Definition fm_store (f : fmember) : bool := snd (fst f).
Definition fm_load (f : fmember) : bool := snd f.
(** (class, its members) *)
Definition fentry : Type := (N * list fmember)%type.

(** a member that serialize() transfers: written when storing and set when loading *)
Definition transferred (f : fmember) : bool := fm_store f && fm_load f.

(** reviewed table entries: (class, member); class 0 = any class *)
Definition listed (t : list (N * N)) (c m : N) : bool :=
  existsb (fun p => ((fst p =? c) || (fst p =? 0)) && (snd p =? m)) t.

(** the obligation of one class: every declared member is transferred or listed *)
Definition fields_ok (t : list (N * N)) (c : fentry) : bool :=
  forallb (fun f => transferred f || listed t (fst c) (fm_name f)) (snd c).

(** the table is precise: every entry naming a class names a declared member of it that is NOT transferred both ways
    (an entry that went stale - member removed, or serialised by now - fails until the table is re-reviewed) *)
Definition entry_live (fs : list fentry) (p : N * N) : bool :=
  existsb (fun c => (fst c =? fst p) && existsb (fun f => (fm_name f =? snd p) && negb (transferred f)) (snd c)) fs.
Definition transient_precise (t : list (N * N)) (fs : list fentry) : bool :=
  forallb (fun p => (fst p =? 0) || entry_live fs p) t.

(** members of the defect list that the current source still does not transfer *)
Definition open_gaps (gaps : list (N * N)) (fs : list fentry) : list (N * N) := filter (entry_live fs) gaps.

(** for the refuter: (class, member) pairs that fail the obligation *)
Definition uncovered (t : list (N * N)) (fs : list fentry) : list (N * N) :=
  flat_map (fun c => map (fun f => (fst c, fm_name f))
                         (filter (fun f => negb (transferred f || listed t (fst c) (fm_name f))) (snd c))) fs.
