(** Reviewed decision conditions of the static store<X>/load<X> helper pairs (hand-approved table, committed).
    Each entry: checksum of the helper name, then the checksums of the if / switch / case texts of the store body and of
    the load body, in source order.  The generated list (Gen/GenSerialize.v) must equal this one: a helper that decides
    "null / built-in / user-defined / which class" by another test breaks T16_helper_conds at proof time.
    In particular storeDV must recognise a built-in validator by IDENTITY with the registry entry of that name - a test
    by name alone would write a user-defined type called like a built-in as a reference to the built-in.
    Readable form of the approved conditions:
      storeClusive: if !inherited
      loadClusive : if !inherited ; switch flag ; case 1: ; case 2: ; case 3: ; case 4: ; default:
      storeDV: if dv ; if dv == DatatypeValidatorFactory::getBuiltInRegistry()->get(dv->getTypeLocalName())
      loadDV : if DV_BUILTIN == flag ; if DV_ZERO == flag ; switch (ValidatorType)type ; case String: ; case AnyURI: ; case QName: ; case Name: ; case NCName: ; case Boolean: ; case Float: ; case Double: ; case Decimal: ; case HexBinary: ; case Base64Binary: ; case Duration: ; case DateTime: ; case Date: ; case Time: ; case MonthDay: ; case YearMonth: ; case Year: ; case Month: ; case Day: ; case ID: ; case IDREF: ; case ENTITY: ; case NOTATION: ; case List: ; case Union: ; case AnySimpleType: ; case UnKnown: ; default:
      storeElementDecl: if element
      loadElementDecl : switch (XMLElementDecl::objectType)type ; case Schema: ; case DTD: ; case UnKnown: ; default:
      storeGrammar: if grammar
      loadGrammar : switch (GrammarType)type ; case DTDGrammarType: ; case SchemaGrammarType: ; case UnKnown: ; default:
      storeIC: if ic
      loadIC : switch (ICType)type ; case ICType_UNIQUE: ; case ICType_KEY: ; case ICType_KEYREF: ; case ICType_UNKNOWN: ; default:
*)
From XV Require Import Base.XDefs C16.Model16.
Definition pinned_helper_conds : list insert_sig :=
  [(703219305%N, [[347074146%N]; [347074146%N; 780990624%N; 889308677%N; 266630594%N; 650880131%N; 510677057%N; 42051450%N]]);
   (472490552%N, [[479336095%N; 572751466%N]; [347470509%N; 545749984%N; 789782761%N; 620366455%N; 645411247%N; 410401509%N; 771676099%N; 862178769%N; 970285814%N; 272965093%N; 137451901%N; 607434059%N; 382708394%N; 890335125%N; 30390428%N; 510388447%N; 112744305%N; 254513684%N; 266150987%N; 294651957%N; 985596129%N; 580793948%N; 943470900%N; 67934493%N; 605558719%N; 60787177%N; 383610475%N; 450552637%N; 730156212%N; 7123492%N; 881996957%N; 42051450%N]]);
   (989113306%N, [[697347349%N]; [334464517%N; 246616336%N; 879314034%N; 881996957%N; 42051450%N]]);
   (50724304%N, [[880400725%N]; [647314322%N; 841530253%N; 546656724%N; 881996957%N; 42051450%N]]);
   (411198091%N, [[270099972%N]; [133218941%N; 671140124%N; 287099132%N; 78493854%N; 915158922%N; 42051450%N]])].
