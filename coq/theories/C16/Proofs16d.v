(** Lemmas for C16, part d: the object-reference layer (store pool / load pool). *)
From XV Require Import Base.XDefs C16.ModelObj16.
From Coq Require Import Arith Lia.
Local Open Scope nat_scope.

(* ---------------------------------------------------------------------------------------------- *)
(** * pool lookups *)
Lemma find_id_app : forall f sp x n a,
  find_id f n (sp ++ x) a = match find_id f n sp a with Some id => Some id | None => find_id f (n + length sp) x a end.
Proof.
  induction sp as [|k sp IH]; intros x n a; cbn [app find_id length].
  - now rewrite Nat.add_0_r.
  - destruct (match f k with Some y => a =? y | None => false end); [reflexivity|].
    rewrite IH. now rewrite Nat.add_succ_r.
Qed.

Lemma find_id_bound : forall f sp n a id, find_id f n sp a = Some id -> n < id <= n + length sp.
Proof.
  induction sp as [|k sp IH]; intros n a id H; cbn [find_id length] in *; [discriminate|].
  destruct (match f k with Some y => a =? y | None => false end).
  - injection H as <-. lia.
  - apply IH in H. lia.
Qed.

Lemma find_id_hit : forall f sp n a id, find_id f n sp a = Some id ->
  exists k, nth_error sp (id - n - 1) = Some k /\ f k = Some a.
Proof.
  induction sp as [|k sp IH]; intros n a id H; cbn [find_id] in *; [discriminate|].
  destruct (f k) as [y|] eqn:Ef.
  - destruct (a =? y) eqn:E.
    + injection H as <-. apply Nat.eqb_eq in E. subst y. exists k. replace (S n - n - 1) with 0 by lia. split; [reflexivity|exact Ef].
    + pose proof (find_id_bound _ _ _ _ _ H) as Hb. destruct (IH _ _ _ H) as [k' [E1 E2]]. exists k'. split; [|exact E2].
      replace (id - n - 1) with (S (id - S n - 1)) by lia. exact E1.
  - pose proof (find_id_bound _ _ _ _ _ H) as Hb. destruct (IH _ _ _ H) as [k' [E1 E2]]. exists k'. split; [|exact E2].
    replace (id - n - 1) with (S (id - S n - 1)) by lia. exact E1.
Qed.

(** two pointers with the same id are the same pointer *)
Lemma addr_id_inj : forall sp a b id, addr_id sp a = Some id -> addr_id sp b = Some id -> a = b.
Proof.
  intros sp a b id Ha Hb. destruct (find_id_hit _ _ _ _ _ Ha) as [k [E1 E2]]. destruct (find_id_hit _ _ _ _ _ Hb) as [k' [F1 F2]].
  rewrite E1 in F1. injection F1 as <-. rewrite E2 in F2. now injection F2.
Qed.

Lemma addr_id_stable : forall sp x a id, addr_id sp a = Some id -> addr_id (sp ++ x) a = Some id.
Proof. intros sp x a id H. unfold addr_id in *. rewrite find_id_app, H. reflexivity. Qed.

Lemma addr_id_new_obj : forall sp a c, addr_id sp a = None -> addr_id (sp ++ [KObj a c]) a = Some (length sp + 1).
Proof. intros sp a c H. unfold addr_id in *. rewrite find_id_app, H. cbn [find_id key_addr]. rewrite Nat.eqb_refl. f_equal. lia. Qed.
Lemma addr_id_new_tmpl : forall sp a, addr_id sp a = None -> addr_id (sp ++ [KTmpl a]) a = Some (length sp + 1).
Proof. intros sp a H. unfold addr_id in *. rewrite find_id_app, H. cbn [find_id key_addr]. rewrite Nat.eqb_refl. f_equal. lia. Qed.
Lemma addr_id_new_cls_obj : forall sp a c, addr_id sp a = None -> addr_id (sp ++ [KCls c; KObj a c]) a = Some (length sp + 2).
Proof. intros sp a c H. unfold addr_id in *. rewrite find_id_app, H. cbn [find_id key_addr]. rewrite Nat.eqb_refl. f_equal. lia. Qed.

(* ---------------------------------------------------------------------------------------------- *)
(** * one event *)
Lemma store_ev_ext : forall sp e t sp1, store_ev sp e = (t, sp1) -> exists x, sp1 = sp ++ x.
Proof.
  intros sp e t sp1 H. destruct e as [q|a c|a]; cbn [store_ev] in H.
  - injection H as _ <-. exists []. now rewrite app_nil_r.
  - destruct (addr_id sp a); [injection H as _ <-; exists []; now rewrite app_nil_r|].
    destruct (cls_id sp c); injection H as _ <-; eexists; reflexivity.
  - destruct (addr_id sp a); injection H as _ <-; [exists []; now rewrite app_nil_r|eexists; reflexivity].
Qed.

Lemma store_all_ext : forall evs sp ts sp', store_all sp evs = (ts, sp') -> exists x, sp' = sp ++ x.
Proof.
  induction evs as [|e evs IH]; intros sp ts sp' H; cbn [store_all] in H.
  - injection H as _ <-. exists []. now rewrite app_nil_r.
  - destruct (store_ev sp e) as [t sp1] eqn:E1. destruct (store_all sp1 evs) as [ts2 sp2] eqn:E2. injection H as _ <-.
    destruct (store_ev_ext _ _ _ _ E1) as [x ->]. destruct (IH _ _ _ E2) as [y ->]. exists (x ++ y). now rewrite app_assoc.
Qed.

(** the load side, run on the tag the store side produced, performs the matching pool update and returns the id the
    store side assigned *)
Lemma step_obj : forall sp e t sp1, store_ev sp e = (t, sp1) ->
  load_ev (map ent sp) (rq_ev e) t = Ok (ref_of sp1 e, map ent sp1).
Proof.
  intros sp e t sp1 H. destruct e as [q|a c|a]; cbn [store_ev rq_ev] in *.
  - injection H as <- <-. reflexivity.
  - unfold ref_of. cbn [ev_addr]. destruct (addr_id sp a) as [id|] eqn:Ea.
    + injection H as <- <-. rewrite Ea. pose proof (find_id_bound _ _ _ _ _ Ea) as Hb. cbn [load_ev].
      destruct id as [|id']; [lia|]. rewrite map_length.
      destruct (length sp <? S id') eqn:C; [apply Nat.ltb_lt in C; lia|reflexivity].
    + destruct (cls_id sp c) as [idx|] eqn:Ec; injection H as <- <-.
      * pose proof (find_id_bound _ _ _ _ _ Ec) as Hb. cbn [load_ev]. rewrite map_length.
        assert (C : ((idx =? 0) || (length sp <? idx)) = false).
        { apply Bool.orb_false_iff. split; [apply Nat.eqb_neq; lia|apply Nat.ltb_ge; lia]. }
        rewrite C, (addr_id_new_obj sp a c Ea), map_app. reflexivity.
      * cbn [load_ev]. rewrite Nat.eqb_refl, map_length, (addr_id_new_cls_obj sp a c Ea), map_app. reflexivity.
  - unfold ref_of. cbn [ev_addr]. destruct (addr_id sp a) as [id|] eqn:Ea; injection H as <- <-.
    + rewrite Ea. pose proof (find_id_bound _ _ _ _ _ Ea) as Hb. cbn [load_ev].
      destruct id as [|id']; [lia|]. rewrite map_length.
      destruct (length sp <? S id') eqn:C; [apply Nat.ltb_lt in C; lia|reflexivity].
    + cbn [load_ev]. rewrite map_length, (addr_id_new_tmpl sp a Ea), map_app. reflexivity.
Qed.

(** after its own event, the pointer of a non-null event has an id *)
Lemma store_ev_has : forall sp e t sp1 a, store_ev sp e = (t, sp1) -> ev_addr e = Some a -> exists id, addr_id sp1 a = Some id.
Proof.
  intros sp e t sp1 a H Ha. destruct e as [q|a' c|a']; cbn [ev_addr] in Ha; [discriminate| |]; injection Ha as ->; cbn [store_ev] in H.
  - destruct (addr_id sp a) as [id|] eqn:Ea; [injection H as _ <-; eauto|].
    destruct (cls_id sp c); injection H as _ <-; eexists; [apply addr_id_new_obj|apply addr_id_new_cls_obj]; exact Ea.
  - destruct (addr_id sp a) as [id|] eqn:Ea; injection H as _ <-; [eauto|eexists; apply addr_id_new_tmpl; exact Ea].
Qed.

Lemma ref_of_stable : forall sp x e a, ev_addr e = Some a -> (exists id, addr_id sp a = Some id) -> ref_of (sp ++ x) e = ref_of sp e.
Proof. intros sp x e a Ha [id Hid]. unfold ref_of. rewrite Ha, Hid. apply addr_id_stable. exact Hid. Qed.

(* ---------------------------------------------------------------------------------------------- *)
(** * whole runs *)
Lemma objgraph_run : forall evs sp ts sp', store_all sp evs = (ts, sp') ->
  load_all (map ent sp) (map rq_ev evs) ts = Ok (map (ref_of sp') evs, map ent sp').
Proof.
  induction evs as [|e evs IH]; intros sp ts sp' H; cbn [store_all] in H.
  - injection H as <- <-. reflexivity.
  - destruct (store_ev sp e) as [t sp1] eqn:E1. destruct (store_all sp1 evs) as [ts2 sp2] eqn:E2. injection H as <- <-.
    cbn [map load_all]. rewrite (step_obj _ _ _ _ E1). rewrite (IH _ _ _ E2).
    destruct (store_all_ext _ _ _ _ E2) as [x ->].
    destruct (ev_addr e) as [a|] eqn:Ea.
    + rewrite (ref_of_stable sp1 x e a Ea (store_ev_has _ _ _ _ _ E1 Ea)). reflexivity.
    + unfold ref_of. rewrite Ea. reflexivity.
Qed.

Lemma store_all_has : forall evs sp ts sp' e a, store_all sp evs = (ts, sp') -> In e evs -> ev_addr e = Some a ->
  exists id, addr_id sp' a = Some id.
Proof.
  induction evs as [|e0 evs IH]; intros sp ts sp' e a H Hin Ha; [destruct Hin|]. cbn [store_all] in H.
  destruct (store_ev sp e0) as [t sp1] eqn:E1. destruct (store_all sp1 evs) as [ts2 sp2] eqn:E2. injection H as _ <-.
  destruct Hin as [->|Hin].
  - destruct (store_ev_has _ _ _ _ _ E1 Ha) as [id Hid]. destruct (store_all_ext _ _ _ _ E2) as [x ->].
    exists id. apply addr_id_stable. exact Hid.
  - exact (IH _ _ _ _ _ E2 Hin Ha).
Qed.

(** sharing is preserved and not invented: references are equal after load iff they were equal before *)
Lemma sharing_iff : forall evs ts sp' e1 e2 a b, store_all [] evs = (ts, sp') -> In e1 evs -> In e2 evs ->
  ev_addr e1 = Some a -> ev_addr e2 = Some b ->
  (exists i, ref_of sp' e1 = Some i) /\ (ref_of sp' e1 = ref_of sp' e2 <-> a = b).
Proof.
  intros evs ts sp' e1 e2 a b H H1 H2 Ha Hb.
  destruct (store_all_has _ _ _ _ _ _ H H1 Ha) as [i Hi]. destruct (store_all_has _ _ _ _ _ _ H H2 Hb) as [j Hj].
  unfold ref_of. rewrite Ha, Hb. split; [eauto|]. split.
  - intros E. rewrite Hi in E. symmetry in E. exact (addr_id_inj _ _ _ _ Hi E).
  - intros ->. reflexivity.
Qed.

Lemma null_iff : forall sp' e evs ts, store_all [] evs = (ts, sp') -> In e evs -> (ref_of sp' e = None <-> ev_addr e = None).
Proof.
  intros sp' e evs ts H Hin. unfold ref_of. destruct (ev_addr e) as [a|] eqn:Ea.
  - destruct (store_all_has _ _ _ _ _ _ H Hin Ea) as [i Hi]. rewrite Hi. split; discriminate.
  - split; reflexivity.
Qed.

(* ---------------------------------------------------------------------------------------------- *)
(** * class of the loaded object *)
(** every address-bearing entry of the pool comes from an event of the run (or was there before) *)
Definition key_of_ev (k : key) (e : ev) : Prop :=
  match k, e with KObj a c, EObj a' c' => a = a' /\ c = c' | KTmpl a, ETmpl a' => a = a' | _, _ => False end.

Lemma store_all_keys : forall evs sp ts sp' k, store_all sp evs = (ts, sp') -> In k sp' -> key_addr k <> None ->
  In k sp \/ exists e, In e evs /\ key_of_ev k e.
Proof.
  induction evs as [|e0 evs IH]; intros sp ts sp' k H Hin Hk; cbn [store_all] in H.
  - injection H as _ <-. left. exact Hin.
  - destruct (store_ev sp e0) as [t sp1] eqn:E1. destruct (store_all sp1 evs) as [ts2 sp2] eqn:E2. injection H as _ <-.
    destruct (IH _ _ _ _ E2 Hin Hk) as [Hin1|[e [He Hke]]]; [|right; exists e; split; [right; exact He|exact Hke]].
    destruct e0 as [q|a c|a]; cbn [store_ev] in E1.
    + injection E1 as _ <-. left. exact Hin1.
    + destruct (addr_id sp a); [injection E1 as _ <-; left; exact Hin1|].
      destruct (cls_id sp c); injection E1 as _ <-; apply in_app_or in Hin1; destruct Hin1 as [Hs|Hn]; try (left; exact Hs).
      * destruct Hn as [<-|[]]. right. exists (EObj a c). split; [left; reflexivity|split; reflexivity].
      * destruct Hn as [<-|[<-|[]]]; [exfalso; apply Hk; reflexivity|]. right. exists (EObj a c). split; [left; reflexivity|split; reflexivity].
    + destruct (addr_id sp a); injection E1 as _ <-; [left; exact Hin1|].
      apply in_app_or in Hin1. destruct Hin1 as [Hs|[<-|[]]]; [left; exact Hs|]. right. exists (ETmpl a). split; [left; reflexivity|reflexivity].
Qed.

(** each address is used with one kind and one dynamic class throughout the run *)
Definition consistent (evs : list ev) : Prop :=
  forall e1 e2 a, In e1 evs -> In e2 evs -> ev_addr e1 = Some a -> ev_addr e2 = Some a -> e1 = e2.

Lemma class_of_loaded : forall evs ts sp' a c, consistent evs -> store_all [] evs = (ts, sp') -> In (EObj a c) evs ->
  exists id, ref_of sp' (EObj a c) = Some id /\ nth_error (map ent sp') (id - 1) = Some (LObj c).
Proof.
  intros evs ts sp' a c Hc H Hin.
  destruct (store_all_has _ _ _ _ _ _ H Hin eq_refl) as [id Hid]. exists id. split; [exact Hid|].
  destruct (find_id_hit _ _ _ _ _ Hid) as [k [E1 E2]]. rewrite Nat.sub_0_r in E1.
  rewrite nth_error_map, E1. cbn [option_map]. f_equal.
  assert (Hk : key_addr k <> None) by (rewrite E2; discriminate).
  destruct (store_all_keys _ _ _ _ _ H (nth_error_In _ _ E1) Hk) as [[]|[e [He Hke]]].
  destruct k as [a' c'|a'|c']; cbn [key_addr] in E2; try discriminate; injection E2 as ->.
  - destruct e as [q|a2 c2|a2]; cbn [key_of_ev] in Hke; try contradiction. destruct Hke as [<- <-].
    pose proof (Hc _ _ a He Hin eq_refl eq_refl) as E. injection E as ->. reflexivity.
  - destruct e as [q|a2 c2|a2]; cbn [key_of_ev] in Hke; try contradiction. subst a2.
    pose proof (Hc _ _ a He Hin eq_refl eq_refl) as E. discriminate.
Qed.

(* ---------------------------------------------------------------------------------------------- *)
(** * storing the loaded graph again *)
Lemma find_addr_ren : forall rho sp n a,
  (forall k b, In k sp -> key_addr k = Some b -> rho b = rho a -> b = a) ->
  find_id key_addr n (map (ren_key rho) sp) (rho a) = find_id key_addr n sp a.
Proof.
  induction sp as [|k sp IH]; intros n a Hinj; [reflexivity|]. cbn [map find_id].
  assert (Hk : (match key_addr (ren_key rho k) with Some y => rho a =? y | None => false end) =
               (match key_addr k with Some y => a =? y | None => false end)).
  { destruct k as [b c|b|c]; cbn [ren_key key_addr]; [| |reflexivity].
    - destruct (a =? b) eqn:E; [apply Nat.eqb_eq in E; subst; apply Nat.eqb_refl|].
      apply Nat.eqb_neq. intros E'. apply Nat.eqb_neq in E. apply E. symmetry. apply (Hinj (KObj b c) b); [left; reflexivity|reflexivity|now symmetry].
    - destruct (a =? b) eqn:E; [apply Nat.eqb_eq in E; subst; apply Nat.eqb_refl|].
      apply Nat.eqb_neq. intros E'. apply Nat.eqb_neq in E. apply E. symmetry. apply (Hinj (KTmpl b) b); [left; reflexivity|reflexivity|now symmetry]. }
  rewrite Hk. destruct (match key_addr k with Some y => a =? y | None => false end); [reflexivity|].
  apply IH. intros k' b Hin. apply Hinj. right. exact Hin.
Qed.

Lemma find_cls_ren : forall rho sp n c, find_id key_cls n (map (ren_key rho) sp) c = find_id key_cls n sp c.
Proof.
  induction sp as [|k sp IH]; intros n c; [reflexivity|]. cbn [map find_id].
  replace (key_cls (ren_key rho k)) with (key_cls k) by (destruct k; reflexivity). now rewrite IH.
Qed.

Definition pool_addrs (sp : list key) : list nat := flat_map (fun k => match key_addr k with Some a => [a] | None => [] end) sp.
Definition ev_addrs (evs : list ev) : list nat := flat_map (fun e => match ev_addr e with Some a => [a] | None => [] end) evs.

Lemma in_pool_addrs : forall sp k b, In k sp -> key_addr k = Some b -> In b (pool_addrs sp).
Proof. intros sp k b Hin Hk. unfold pool_addrs. apply in_flat_map. exists k. split; [exact Hin|]. rewrite Hk. left. reflexivity. Qed.

(** renaming the addresses by a map that is injective on the addresses in play does not change a single tag *)
Lemma store_all_ren : forall rho evs sp ts sp',
  (forall x y, In x (pool_addrs sp ++ ev_addrs evs) -> In y (pool_addrs sp ++ ev_addrs evs) -> rho x = rho y -> x = y) ->
  store_all sp evs = (ts, sp') ->
  store_all (map (ren_key rho) sp) (map (ren_ev rho) evs) = (ts, map (ren_key rho) sp').
Proof.
  intros rho. induction evs as [|e evs IH]; intros sp ts sp' Hinj H; cbn [store_all map] in *.
  - injection H as <- <-. reflexivity.
  - destruct (store_ev sp e) as [t sp1] eqn:E1. destruct (store_all sp1 evs) as [ts2 sp2] eqn:E2. injection H as <- <-.
    assert (Hlook : forall a, ev_addr e = Some a -> addr_id (map (ren_key rho) sp) (rho a) = addr_id sp a).
    { intros a Ha. apply find_addr_ren. intros k b Hin Hk Hr. apply Hinj; [| |exact Hr].
      - apply in_or_app. left. exact (in_pool_addrs _ _ _ Hin Hk).
      - apply in_or_app. right. unfold ev_addrs. cbn [flat_map]. rewrite Ha. left. reflexivity. }
    assert (E1' : store_ev (map (ren_key rho) sp) (ren_ev rho e) = (t, map (ren_key rho) sp1)).
    { destruct e as [q|a c|a]; cbn [store_ev ren_ev] in *.
      - injection E1 as <- <-. reflexivity.
      - rewrite (Hlook a eq_refl). unfold cls_id. rewrite find_cls_ren. fold (cls_id sp c).
        destruct (addr_id sp a); [injection E1 as <- <-; reflexivity|].
        destruct (cls_id sp c); injection E1 as <- <-; rewrite map_app; reflexivity.
      - rewrite (Hlook a eq_refl). destruct (addr_id sp a); injection E1 as <- <-; [reflexivity|rewrite map_app; reflexivity]. }
    rewrite E1'. rewrite (IH sp1 ts2 sp2); [reflexivity| |exact E2].
    (* injectivity is kept: the new pool addresses are addresses of e *)
    intros x y Hx Hy. apply Hinj.
    + apply in_app_or in Hx. apply in_or_app. destruct Hx as [Hx|Hx]; [|right; unfold ev_addrs; cbn [flat_map]; apply in_or_app; right; exact Hx].
      unfold pool_addrs in Hx. apply in_flat_map in Hx. destruct Hx as [k [Hk Hxk]].
      destruct (store_ev_ext _ _ _ _ E1) as [z Hz]. rewrite Hz in Hk. apply in_app_or in Hk. destruct Hk as [Hk|Hk].
      * left. unfold pool_addrs. apply in_flat_map. exists k. split; assumption.
      * right. unfold ev_addrs. cbn [flat_map]. apply in_or_app. left.
        destruct e as [q|a c|a]; cbn [store_ev] in E1.
        -- injection E1 as _ E1. rewrite <- E1 in Hz. apply (f_equal (@length key)) in Hz. rewrite app_length in Hz. destruct z; [destruct Hk|cbn in Hz; lia].
        -- cbn [ev_addr]. destruct (addr_id sp a).
           ++ injection E1 as _ E1. rewrite <- E1 in Hz. apply (f_equal (@length key)) in Hz. rewrite app_length in Hz. destruct z; [destruct Hk|cbn in Hz; lia].
           ++ destruct (cls_id sp c); injection E1 as _ E1; rewrite <- E1 in Hz; apply app_inv_head in Hz; subst z.
              ** destruct Hk as [<-|[]]. exact Hxk.
              ** destruct Hk as [<-|[<-|[]]]; [destruct Hxk|exact Hxk].
        -- cbn [ev_addr]. destruct (addr_id sp a); injection E1 as _ E1; rewrite <- E1 in Hz.
           ++ apply (f_equal (@length key)) in Hz. rewrite app_length in Hz. destruct z; [destruct Hk|cbn in Hz; lia].
           ++ apply app_inv_head in Hz; subst z. destruct Hk as [<-|[]]. exact Hxk.
    + apply in_app_or in Hy. apply in_or_app. destruct Hy as [Hy|Hy]; [|right; unfold ev_addrs; cbn [flat_map]; apply in_or_app; right; exact Hy].
      unfold pool_addrs in Hy. apply in_flat_map in Hy. destruct Hy as [k [Hk Hyk]].
      destruct (store_ev_ext _ _ _ _ E1) as [z Hz]. rewrite Hz in Hk. apply in_app_or in Hk. destruct Hk as [Hk|Hk].
      * left. unfold pool_addrs. apply in_flat_map. exists k. split; assumption.
      * right. unfold ev_addrs. cbn [flat_map]. apply in_or_app. left.
        destruct e as [q|a c|a]; cbn [store_ev] in E1.
        -- injection E1 as _ E1. rewrite <- E1 in Hz. apply (f_equal (@length key)) in Hz. rewrite app_length in Hz. destruct z; [destruct Hk|cbn in Hz; lia].
        -- cbn [ev_addr]. destruct (addr_id sp a).
           ++ injection E1 as _ E1. rewrite <- E1 in Hz. apply (f_equal (@length key)) in Hz. rewrite app_length in Hz. destruct z; [destruct Hk|cbn in Hz; lia].
           ++ destruct (cls_id sp c); injection E1 as _ E1; rewrite <- E1 in Hz; apply app_inv_head in Hz; subst z.
              ** destruct Hk as [<-|[]]. exact Hyk.
              ** destruct Hk as [<-|[<-|[]]]; [destruct Hyk|exact Hyk].
        -- cbn [ev_addr]. destruct (addr_id sp a); injection E1 as _ E1; rewrite <- E1 in Hz.
           ++ apply (f_equal (@length key)) in Hz. rewrite app_length in Hz. destruct z; [destruct Hk|cbn in Hz; lia].
           ++ apply app_inv_head in Hz; subst z. destruct Hk as [<-|[]]. exact Hyk.
Qed.

(** store (load (store g)) issues the very same tags as store g *)
Lemma reserialize : forall evs ts sp', store_all [] evs = (ts, sp') -> fst (store_all [] (reload sp' evs)) = ts.
Proof.
  intros evs ts sp' H. unfold reload.
  assert (Hr : store_all (map (ren_key (the_id sp')) []) (map (ren_ev (the_id sp')) evs) = (ts, map (ren_key (the_id sp')) sp')).
  2: { cbn [map] in Hr. rewrite Hr. reflexivity. }
  apply store_all_ren; [|exact H].
  cbn [pool_addrs flat_map app]. intros x y Hx Hy E.
  unfold ev_addrs in Hx, Hy. apply in_flat_map in Hx, Hy. destruct Hx as [e1 [H1 Hx]]. destruct Hy as [e2 [H2 Hy]].
  destruct (ev_addr e1) as [a|] eqn:Ea; [|destruct Hx]. destruct Hx as [<-|[]].
  destruct (ev_addr e2) as [b|] eqn:Eb; [|destruct Hy]. destruct Hy as [<-|[]].
  destruct (store_all_has _ _ _ _ _ _ H H1 Ea) as [i Hi]. destruct (store_all_has _ _ _ _ _ _ H H2 Eb) as [j Hj].
  unfold the_id in E. rewrite Hi, Hj in E. subst j. exact (addr_id_inj _ _ _ _ Hi Hj).
Qed.
