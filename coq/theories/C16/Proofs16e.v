(** Field coverage: the boolean obligation means what it says. *)
From XV Require Import Base.XDefs C16.ModelFields16.
From Coq Require Import Bool.
Local Open Scope N_scope.

Lemma fields_ok_spec : forall t c, fields_ok t c = true <->
  (forall f, In f (snd c) -> (fm_store f = true /\ fm_load f = true) \/ listed t (fst c) (fm_name f) = true).
Proof.
  intros t c. unfold fields_ok. rewrite forallb_forall. split; intros H f Hf; specialize (H f Hf).
  - apply orb_true_iff in H. destruct H as [H|H]; [left|right; exact H]. unfold transferred in H. apply andb_true_iff in H. exact H.
  - apply orb_true_iff. destruct H as [[H1 H2]|H]; [left|right; exact H]. unfold transferred. rewrite H1, H2. reflexivity.
Qed.

(** all classes of a generated list *)
Lemma fields_all_spec : forall t fs, forallb (fields_ok t) fs = true ->
  forall c f, In c fs -> In f (snd c) ->
    (fm_store f = true /\ fm_load f = true) \/ listed t (fst c) (fm_name f) = true.
Proof.
  intros t fs H c f Hc Hf. rewrite forallb_forall in H. apply (proj1 (fields_ok_spec t c) (H c Hc) f Hf).
Qed.

(** a member that is neither transferred nor listed breaks the obligation of its class *)
Lemma fields_ok_detects : forall t c f, In f (snd c) -> transferred f = false -> listed t (fst c) (fm_name f) = false ->
  fields_ok t c = false.
Proof.
  intros t c f Hf Ht Hl. destruct (fields_ok t c) eqn:E; [|reflexivity].
  destruct (proj1 (fields_ok_spec t c) E f Hf) as [[H1 H2]|H].
  - unfold transferred in Ht. rewrite H1, H2 in Ht. discriminate.
  - rewrite H in Hl. discriminate.
Qed.
