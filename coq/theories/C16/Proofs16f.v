(** Truncated streams: every reader of the loading engine is prefix-stable.  Run on a prefix of the stream it either
    stops with XSer_InStream_Read_LT_Req (fillBuffer got fewer than fBufSize bytes) or returns exactly what it returns on
    the whole stream (the cut fell into bytes that are never read) - never different items. *)
From XV Require Import Base.XDefs C16.Model16.
From Coq Require Import Arith List Lia.
Import ListNotations.
Local Open Scope nat_scope.

(** the same engine state over a stream cut after [n] more bytes *)
Definition trunc (n : nat) (r : rst) : rst := mkR (r_cur r) (firstn n (r_inp r)).

Definition stable {A : Type} (f : rst -> res (A * rst) serr) : Prop :=
  forall r n, match f (trunc n r) with
              | Ok (x, rt) => exists r' n', f r = Ok (x, r') /\ rt = trunc n' r'
              | Err e => e = E_ReadLT \/ f r = Err e
              end.

Lemma fill_stable : forall bs r n,
  match r_fill bs (trunc n r) with
  | Ok rt => exists r', r_fill bs r = Ok r' /\ rt = trunc (n - bs) r'
  | Err e => e = E_ReadLT
  end.
Proof.
  intros bs r n. unfold r_fill, trunc; cbn [r_inp r_cur].
  destruct (Nat.ltb_spec (length (firstn n (r_inp r))) bs) as [H|H]; [reflexivity|].
  rewrite firstn_length in H.
  assert (Hl : bs <= length (r_inp r)) by lia.
  assert (Hn : bs <= n) by lia.
  destruct (Nat.ltb_spec (length (r_inp r)) bs) as [H2|H2]; [lia|].
  eexists; split; [reflexivity|]. cbn [r_cur r_inp]. f_equal.
  - rewrite firstn_firstn. f_equal. lia.
  - apply skipn_firstn_comm.
Qed.

Ltac fill_step :=
  match goal with
  | |- context [r_fill ?bs (trunc ?n ?r)] =>
    let H := fresh "H" in let rt := fresh "rt" in let e := fresh "e" in
    pose proof (fill_stable bs r n) as H; destruct (r_fill bs (trunc n r)) as [rt|e]; cbn [bind];
    [ let r' := fresh "r'" in destruct H as (r' & H & ->); rewrite H; cbn [bind] | left; exact H ]
  end.

Ltac done_ok := eexists _, _; split; reflexivity.

Lemma r_prim_stable : forall bs size al, stable (r_prim bs size al).
Proof.
  intros bs size al r n. unfold r_prim. cbv zeta. change (r_cur (trunc n r)) with (r_cur r).
  match goal with |- context [if ?c then r_fill _ _ else _] => destruct c end.
  - fill_step. done_ok.
  - cbn [bind]. done_ok.
Qed.

Lemma r_chunks_stable : forall stale bs fuel rem acc, stable (r_chunks stale bs fuel rem acc).
Proof.
  intros stale bs fuel. induction fuel as [|f IH]; intros rem acc r n; cbn [r_chunks].
  - right. reflexivity.
  - destruct (bs <=? rem).
    + fill_step. destruct stale.
      * exact (IH (rem - bs) (acc ++ r_cur r') r' (n - bs)).
      * exact (IH (rem - bs) (acc ++ r_cur r') (mkR [] (r_inp r')) (n - bs)).
    + destruct rem as [|k].
      * done_ok.
      * fill_step. done_ok.
Qed.

Lemma r_raw_stable : forall stale bs k, stable (r_raw stale bs k).
Proof.
  intros stale bs k r n. unfold r_raw. destruct k as [|k]; [done_ok|].
  cbv zeta. change (r_cur (trunc n r)) with (r_cur r).
  destruct (S k <=? length (r_cur r)); [done_ok|].
  exact (r_chunks_stable stale bs (S (S k)) (S k - length (r_cur r)) (r_cur r) (mkR [] (r_inp r)) n).
Qed.

Lemma len_ok_trunc : forall x n r, len_ok x (trunc n r) = true -> len_ok x r = true.
Proof.
  intros x n r. unfold len_ok, trunc; cbn [r_cur r_inp]. rewrite !N.leb_le. intros H.
  rewrite firstn_length in H. lia.
Qed.

Ltac step L :=
  match goal with
  | |- context [bind (?f (trunc ?n ?r)) _] =>
    let H := fresh "H" in let x := fresh "x" in let rt := fresh "rt" in let e := fresh "e" in
    pose proof (L r n) as H; destruct (f (trunc n r)) as [[x rt]|e]; cbn [bind];
    [ let r' := fresh "r'" in let n' := fresh "n'" in destruct H as (r' & n' & H & ->); rewrite H; cbn [bind]
    | destruct H as [->|H]; [left; reflexivity | right; rewrite H; reflexivity] ]
  end.

Lemma r_str_stable : forall stale bs withbuf, stable (r_str stale bs withbuf).
Proof.
  intros stale bs withbuf r n. unfold r_str. step (r_prim_stable bs 8 true).
  destruct (x =? noData)%N; [done_ok|].
  destruct withbuf.
  - step (r_prim_stable bs 8 true).
    destruct (len_ok (2 * x0) (trunc n'0 r'0)) eqn:E; [|left; reflexivity].
    rewrite (len_ok_trunc _ _ _ E). step (r_raw_stable stale bs (N.to_nat (2 * x0))). done_ok.
  - cbn [bind].
    destruct (len_ok (2 * x) (trunc n' r')) eqn:E; [|left; reflexivity].
    rewrite (len_ok_trunc _ _ _ E). step (r_raw_stable stale bs (N.to_nat (2 * x))). done_ok.
Qed.

Lemma r_str8_stable : forall stale bs, stable (r_str8 stale bs).
Proof.
  intros stale bs r n. unfold r_str8. step (r_prim_stable bs 8 true).
  destruct (x =? noData)%N; [done_ok|].
  destruct (len_ok x (trunc n' r')) eqn:E; [|left; reflexivity].
  rewrite (len_ok_trunc _ _ _ E). step (r_raw_stable stale bs (N.to_nat x)). done_ok.
Qed.

Lemma r_op_stable : forall stale bs q, stable (r_op stale bs q).
Proof.
  intros stale bs q r n. destruct q; cbn [r_op].
  - step (r_prim_stable bs (pk_size k) (pk_al k)). done_ok.
  - step (r_raw_stable stale bs n0). done_ok.
  - step (r_str_stable stale bs false). done_ok.
  - step (r_str_stable stale bs true). done_ok.
  - step (r_str8_stable stale bs). done_ok.
Qed.

Lemma r_ops_stable : forall stale bs qs, stable (r_ops stale bs qs).
Proof.
  intros stale bs qs. induction qs as [|q t IH]; intros r n; cbn [r_ops].
  - done_ok.
  - step (r_op_stable stale bs q). step IH. done_ok.
Qed.

(** whole runs: the stream cut anywhere *)
Lemma truncated_rejects : forall stale bs qs stream n,
  match r_all stale bs qs (firstn n stream) with
  | Ok (ops, _) => exists r', r_all stale bs qs stream = Ok (ops, r')
  | Err e => e = E_ReadLT \/ r_all stale bs qs stream = Err e
  end.
Proof.
  intros stale bs qs stream n. unfold r_all, r_init.
  change (mkR [] (firstn n stream)) with (trunc n (mkR [] stream)).
  pose proof (fill_stable bs (mkR [] stream) n) as H.
  destruct (r_fill bs (trunc n (mkR [] stream))) as [rt|e]; cbn [bind].
  - destruct H as (r' & H & ->). rewrite H. cbn [bind].
    pose proof (r_ops_stable stale bs qs r' (n - bs)) as H2.
    destruct (r_ops stale bs qs (trunc (n - bs) r')) as [[ops rt]|e].
    + destruct H2 as (r2 & n2 & H2 & _). exists r2. exact H2.
    + exact H2.
  - left. exact H.
Qed.

(** the level check in front: same statement for deserializeGrammars *)
Lemma pool_truncated_rejects : forall stale bs level qs stream n,
  match pool_load stale bs level qs (firstn n stream) with
  | Ok (lk, ops, _) => exists r', pool_load stale bs level qs stream = Ok (lk, ops, r')
  | Err e => e = E_ReadLT \/ pool_load stale bs level qs stream = Err e
  end.
Proof.
  intros stale bs level qs stream n. unfold pool_load, r_init.
  change (mkR [] (firstn n stream)) with (trunc n (mkR [] stream)).
  pose proof (fill_stable bs (mkR [] stream) n) as H.
  destruct (r_fill bs (trunc n (mkR [] stream))) as [rt|e]; cbn [bind]; [|left; exact H].
  destruct H as (r' & H & ->). rewrite H. cbn [bind].
  step (r_prim_stable bs 4 true).
  destruct (x =? level)%N; [|right; reflexivity].
  step (r_prim_stable bs 1 true). step (r_ops_stable stale bs qs).
  eexists. reflexivity.
Qed.
