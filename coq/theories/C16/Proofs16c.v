(** Lemmas for C16, part c: operation sequences, the engine round trip, the level stamp, and the refutation of the
    round trip for the code as found (finding F26). *)
From XV Require Import Base.XDefs C16.Model16 C16.Spec16 C16.Proofs16a C16.Proofs16b.
From Coq Require Import Arith ZArith ZifyBool ZifyN ZifyNat Lia.
Local Open Scope nat_scope.

Section Main.
Variable bs : nat.
Hypothesis Hbs8 : 8 <= bs.
Let Hbs : 0 < bs := Nat.lt_le_trans 0 8 bs (Nat.lt_0_succ 7) Hbs8.

Lemma pk_size_bounds : forall k, 0 < pk_size k <= bs.
Proof. destruct k; cbn [pk_size]; lia. Qed.

Lemma noData_prim : (noData < 256 ^ N.of_nat 8)%N.
Proof. vm_compute. reflexivity. Qed.

Lemma step_op : forall o, op_ok o -> step_ok bs (w_op bs o) (r_op false bs (rq_of o)) o.
Proof.
  intros o Hok w Hw. destruct o as [k v|data|s|s8|s].
  - (* primitive *)
    cbn [op_ok] in Hok. rewrite pk_bound_pow in Hok.
    destruct (step_prim bs Hbs (pk_size k) (pk_al k) v (pk_size_bounds k) Hok w Hw) as [w' [e [E1 [E2 [E3 E4]]]]].
    exists w', e. split; [exact E1|]. split; [exact E2|]. split; [exact E3|].
    intros r T Hr Hps HR. destruct (E4 r T Hr Hps HR) as [r' [F1 [F2 [F3 F4]]]].
    exists r'. cbn [rq_of r_op]. rewrite F1. cbn [bind]. split; [reflexivity|]. split; [exact F2|]. split; [exact F3|exact F4].
  - (* raw block *)
    destruct (step_raw bs Hbs data w Hw) as [w' [E1 [E2 [E3 E4]]]].
    exists w', data. split; [exact E1|]. split; [exact E2|]. split; [exact E3|].
    intros r T Hr Hps HR. destruct (E4 r T Hr Hps HR) as [r' [F1 [F2 [F3 F4]]]].
    exists r'. cbn [rq_of r_op]. rewrite F1. cbn [bind]. split; [reflexivity|]. split; [exact F2|]. split; [exact F3|exact F4].
  - (* XMLCh string *)
    destruct s as [cs|].
    + cbn [op_ok] in Hok. destruct Hok as [Hcs Hlen]. unfold len_fits in Hlen.
      assert (Hlv : (N.of_nat (length cs) < 256 ^ N.of_nat 8)%N) by (pose proof noData_prim; unfold noData in *; lia).
      destruct (step_prim bs Hbs 8 true (N.of_nat (length cs)) (conj (Nat.lt_0_succ 7) Hbs8) Hlv w Hw) as [w1 [e1 [E1 [E2 [E3 E4]]]]].
      injection E1 as E1.
      destruct (step_raw bs Hbs (chars_bytes cs) w1 E2) as [w2 [G1 [G2 [G3 G4]]]].
      exists w2, (e1 ++ chars_bytes cs). split; [|split; [exact G2|split]].
      * cbn [w_op w_str]. rewrite E1. exact G1.
      * rewrite G3, E3. now rewrite app_assoc.
      * intros r T Hr Hps HR. rewrite <- app_assoc in HR.
        destruct (E4 r (chars_bytes cs ++ T) Hr Hps HR) as [r1 [F1 [F2 [F3 F4]]]].
        destruct (G4 r1 T F3 F4 F2) as [r2 [K1' [K2' [K3' K4']]]].
        exists r2. cbn [rq_of r_op]. unfold r_str. rewrite F1. cbn [bind].
        assert (Hnd : (N.of_nat (length cs) =? noData)%N = false) by (apply N.eqb_neq; unfold noData in *; lia).
        rewrite Hnd. cbn [bind].
        assert (Hlo : len_ok (2 * N.of_nat (length cs)) r1 = true).
        { unfold len_ok. apply N.leb_le. unfold R in F2.
          assert (length (r_cur r1) + length (r_inp r1) = length (chars_bytes cs) + length T)
            by (rewrite <- !app_length, F2; reflexivity).
          rewrite chars_bytes_length in H. lia. }
        rewrite Hlo.
        replace (N.to_nat (2 * N.of_nat (length cs))) with (length (chars_bytes cs)) by (rewrite chars_bytes_length; lia).
        rewrite K1'. cbn [bind]. rewrite (bytes_chars_bytes cs Hcs).
        split; [reflexivity|]. split; [exact K2'|]. split; [exact K3'|exact K4'].
    + (* null string: the noDataFollowed marker *)
      destruct (step_prim bs Hbs 8 true noData (conj (Nat.lt_0_succ 7) Hbs8) noData_prim w Hw) as [w1 [e1 [E1 [E2 [E3 E4]]]]].
      exists w1, e1. split; [exact E1|]. split; [exact E2|]. split; [exact E3|].
      intros r T Hr Hps HR. destruct (E4 r T Hr Hps HR) as [r1 [F1 [F2 [F3 F4]]]].
      exists r1. cbn [rq_of r_op]. unfold r_str. rewrite F1. cbn [bind]. rewrite N.eqb_refl. cbn [bind].
      split; [reflexivity|]. split; [exact F2|]. split; [exact F3|exact F4].
  - (* XMLCh string with buffer length *)
    destruct s8 as [[bl cs]|].
    + cbn [op_ok] in Hok. destruct Hok as [Hcs [Hlen Hbl]]. unfold len_fits in Hlen.
      assert (Hblv : (bl < 256 ^ N.of_nat 8)%N) by (pose proof noData_prim; lia).
      assert (Hlv : (N.of_nat (length cs) < 256 ^ N.of_nat 8)%N) by (pose proof noData_prim; unfold noData in *; lia).
      destruct (step_prim bs Hbs 8 true bl (conj (Nat.lt_0_succ 7) Hbs8) Hblv w Hw) as [w0 [e0 [D1 [D2 [D3 D4]]]]].
      injection D1 as D1.
      destruct (step_prim bs Hbs 8 true (N.of_nat (length cs)) (conj (Nat.lt_0_succ 7) Hbs8) Hlv w0 D2) as [w1 [e1 [E1 [E2 [E3 E4]]]]].
      injection E1 as E1.
      destruct (step_raw bs Hbs (chars_bytes cs) w1 E2) as [w2 [G1 [G2 [G3 G4]]]].
      exists w2, (e0 ++ e1 ++ chars_bytes cs). split; [|split; [exact G2|split]].
      * cbn [w_op w_str]. rewrite D1, E1. exact G1.
      * rewrite G3, E3, D3. now rewrite <- !app_assoc.
      * intros r T Hr Hps HR. rewrite <- !app_assoc in HR.
        destruct (D4 r (e1 ++ chars_bytes cs ++ T) Hr Hps HR) as [r0 [C1 [C2 [C3 C4]]]].
        destruct (E4 r0 (chars_bytes cs ++ T) C3 C4 C2) as [r1 [F1 [F2 [F3 F4]]]].
        destruct (G4 r1 T F3 F4 F2) as [r2 [K1' [K2' [K3' K4']]]].
        exists r2. cbn [rq_of r_op]. unfold r_str. rewrite C1. cbn [bind].
        assert (Hnd : (bl =? noData)%N = false) by (apply N.eqb_neq; lia).
        rewrite Hnd. rewrite F1. cbn [bind].
        assert (Hlo : len_ok (2 * N.of_nat (length cs)) r1 = true).
        { unfold len_ok. apply N.leb_le. unfold R in F2.
          assert (length (r_cur r1) + length (r_inp r1) = length (chars_bytes cs) + length T)
            by (rewrite <- !app_length, F2; reflexivity).
          rewrite chars_bytes_length in H. lia. }
        rewrite Hlo.
        replace (N.to_nat (2 * N.of_nat (length cs))) with (length (chars_bytes cs)) by (rewrite chars_bytes_length; lia).
        rewrite K1'. cbn [bind]. rewrite (bytes_chars_bytes cs Hcs).
        split; [reflexivity|]. split; [exact K2'|]. split; [exact K3'|exact K4'].
    + destruct (step_prim bs Hbs 8 true noData (conj (Nat.lt_0_succ 7) Hbs8) noData_prim w Hw) as [w1 [e1 [E1 [E2 [E3 E4]]]]].
      exists w1, e1. split; [exact E1|]. split; [exact E2|]. split; [exact E3|].
      intros r T Hr Hps HR. destruct (E4 r T Hr Hps HR) as [r1 [F1 [F2 [F3 F4]]]].
      exists r1. cbn [rq_of r_op]. unfold r_str. rewrite F1. cbn [bind]. rewrite N.eqb_refl. cbn [bind].
      split; [reflexivity|]. split; [exact F2|]. split; [exact F3|exact F4].
  - (* XMLByte string *)
    destruct s as [cs|].
    + cbn [op_ok] in Hok. destruct Hok as [Hcs Hlen]. unfold len_fits in Hlen.
      assert (Hlv : (N.of_nat (length cs) < 256 ^ N.of_nat 8)%N) by (pose proof noData_prim; unfold noData in *; lia).
      destruct (step_prim bs Hbs 8 true (N.of_nat (length cs)) (conj (Nat.lt_0_succ 7) Hbs8) Hlv w Hw) as [w1 [e1 [E1 [E2 [E3 E4]]]]].
      injection E1 as E1.
      destruct (step_raw bs Hbs cs w1 E2) as [w2 [G1 [G2 [G3 G4]]]].
      exists w2, (e1 ++ cs). split; [|split; [exact G2|split]].
      * cbn [w_op w_str8]. rewrite E1. exact G1.
      * rewrite G3, E3. now rewrite app_assoc.
      * intros r T Hr Hps HR. rewrite <- app_assoc in HR.
        destruct (E4 r (cs ++ T) Hr Hps HR) as [r1 [F1 [F2 [F3 F4]]]].
        destruct (G4 r1 T F3 F4 F2) as [r2 [K1' [K2' [K3' K4']]]].
        exists r2. cbn [rq_of r_op]. unfold r_str8. rewrite F1. cbn [bind].
        assert (Hnd : (N.of_nat (length cs) =? noData)%N = false) by (apply N.eqb_neq; unfold noData in *; lia).
        rewrite Hnd.
        assert (Hlo : len_ok (N.of_nat (length cs)) r1 = true).
        { unfold len_ok. apply N.leb_le. unfold R in F2.
          assert (length (r_cur r1) + length (r_inp r1) = length cs + length T)
            by (rewrite <- !app_length, F2; reflexivity). lia. }
        rewrite Hlo. rewrite Nat2N.id. rewrite K1'. cbn [bind].
        split; [reflexivity|]. split; [exact K2'|]. split; [exact K3'|exact K4'].
    + destruct (step_prim bs Hbs 8 true noData (conj (Nat.lt_0_succ 7) Hbs8) noData_prim w Hw) as [w1 [e1 [E1 [E2 [E3 E4]]]]].
      exists w1, e1. split; [exact E1|]. split; [exact E2|]. split; [exact E3|].
      intros r T Hr Hps HR. destruct (E4 r T Hr Hps HR) as [r1 [F1 [F2 [F3 F4]]]].
      exists r1. cbn [rq_of r_op]. unfold r_str8. rewrite F1. cbn [bind]. rewrite N.eqb_refl.
      split; [reflexivity|]. split; [exact F2|]. split; [exact F3|exact F4].
Qed.

Lemma ops_ok : forall ops, Forall op_ok ops ->
  step_ok bs (w_ops bs ops) (r_ops false bs (map rq_of ops)) ops.
Proof.
  induction ops as [|o ops IH]; intros Hok w Hw.
  - exists w, []. split; [reflexivity|]. split; [exact Hw|]. split; [now rewrite app_nil_r|].
    intros r T Hr Hps HR. exists r. split; [reflexivity|]. split; [exact HR|]. split; [exact Hr|exact Hps].
  - inversion Hok as [|? ? Ho Hoks]; subst.
    destruct (step_op o Ho w Hw) as [w1 [e1 [E1 [E2 [E3 E4]]]]].
    destruct (IH Hoks w1 E2) as [w2 [e2 [G1 [G2 [G3 G4]]]]].
    exists w2, (e1 ++ e2). split; [cbn [w_ops]; rewrite E1; exact G1|]. split; [exact G2|].
    split; [rewrite G3, E3; now rewrite app_assoc|].
    intros r T Hr Hps HR. rewrite <- app_assoc in HR.
    destruct (E4 r (e2 ++ T) Hr Hps HR) as [r1 [F1 [F2 [F3 F4]]]].
    destruct (G4 r1 T F3 F4 F2) as [r2 [K1' [K2' [K3' K4']]]].
    exists r2. cbn [map r_ops]. rewrite F1. cbn [bind]. rewrite K1'. cbn [bind].
    split; [reflexivity|]. split; [exact K2'|]. split; [exact K3'|exact K4'].
Qed.

Lemma engine_roundtrip : forall ops, Forall op_ok ops ->
  exists stream r', w_all bs ops = Ok stream /\ r_all false bs (map rq_of ops) stream = Ok (ops, r') /\
                    R r' = zeros (length (R r')) /\ length (R r') <= bs.
Proof.
  intros ops Hok.
  assert (Hw0 : inv_w bs w_init) by (split; cbn; [lia|exists 0; reflexivity]).
  destruct (ops_ok ops Hok w_init Hw0) as [w' [e [E1 [[Hbuf [k Hk]] [E3 E4]]]]].
  unfold L in E3. cbn [w_init w_out w_buf app] in E3.
  set (pad := zeros (bs - length (w_buf w'))).
  assert (Hst : w_final bs w' = e ++ pad) by (unfold w_final; cbn [w_flush w_out]; rewrite app_assoc, E3; reflexivity).
  assert (Hlen : length (w_final bs w') = (k + 1) * bs).
  { unfold w_final. cbn [w_flush w_out]. rewrite !app_length, zeros_length, Hk. lia. }
  exists (w_final bs w'). unfold w_all, r_all, r_init. rewrite E1. cbn [bind].
  assert (Hk1 : 0 < k + 1) by lia.
  pose proof (fill_ok bs Hbs (mkR [] (w_final bs w')) (k + 1) Hlen Hk1) as Hfill. rewrite Hfill. cbn [bind r_inp].
  set (r0 := mkR (firstn bs (w_final bs w')) (skipn bs (w_final bs w'))).
  assert (Hf : length (firstn bs (w_final bs w')) = bs) by (rewrite firstn_length, Hlen; nia).
  destruct (E4 r0 pad) as [r' [F1 [F2 [F3 F4]]]].
  - split; cbn [r0 r_cur r_inp]; [lia|]. exists k. rewrite skipn_length, Hlen. nia.
  - cbn [w_init w_buf length r0 r_cur]. rewrite Hf. left. lia.
  - unfold R, r0. cbn [r_cur r_inp]. rewrite firstn_skipn. exact Hst.
  - exists r'. split; [reflexivity|]. split; [exact F1|]. rewrite F2. unfold pad. rewrite zeros_length.
    split; [reflexivity|lia].
Qed.

(** the stamp is compared before anything else is read *)
Lemma level_rejected : forall level stream r0 stamp r1 stale qs,
  r_init bs stream = Ok r0 -> r_prim bs 4 true r0 = Ok (stamp, r1) -> stamp <> level ->
  pool_load stale bs level qs stream = Err E_LevelMismatch.
Proof.
  intros level stream r0 stamp r1 stale qs H0 H1 Hne. unfold pool_load. rewrite H0. cbn [bind]. rewrite H1. cbn [bind].
  apply N.eqb_neq in Hne. rewrite Hne. reflexivity.
Qed.

(** a pool written with stamp [stamp] is refused by a loader of any other level, whatever follows *)
Lemma level_mismatch_stored : forall level stamp locked body qs, (stamp < 4294967296)%N -> stamp <> level ->
  Forall op_ok body ->
  exists stream, pool_store bs stamp locked body = Ok stream /\ pool_load false bs level qs stream = Err E_LevelMismatch.
Proof.
  intros level stamp locked body qs Hs Hne Hok.
  set (lk := if locked then 1%N else 0%N).
  assert (Hok' : Forall op_ok (OPrim K4 stamp :: OPrim K1 lk :: body)).
  { constructor; [exact Hs|]. constructor; [|exact Hok]. cbn [op_ok pk_bound]. unfold lk. destruct locked; lia. }
  destruct (engine_roundtrip _ Hok') as [stream [r' [E1 [E2 _]]]].
  exists stream. split; [exact E1|].
  unfold r_all in E2. destruct (r_init bs stream) as [r0|] eqn:E0; [|discriminate].
  cbn [bind map r_ops rq_of r_op pk_size pk_al] in E2.
  destruct (r_prim bs 4 true r0) as [[v r1]|] eqn:Ep; cbn [bind] in E2; [|discriminate].
  destruct (r_prim bs 1 true r1) as [[v1 r2]|] eqn:Ep1; cbn [bind] in E2; [|discriminate].
  destruct (r_ops false bs (map rq_of body) r2) as [[os r3]|] eqn:Eo; cbn [bind] in E2; [|discriminate].
  inversion E2; subst.
  exact (level_rejected level stream r0 _ r1 false qs E0 Ep Hne).
Qed.

End Main.

(** the code as found: a raw read that ends exactly at a buffer boundary leaves the loading side in the buffer it
    has just consumed; the next value read back is not the value written *)
Definition f26_witness : list op :=
  [OPrim K1 1; ORaw (map N.of_nat (seq 1 31)); OPrim K4 0xDEADBEEF]%N.

Lemma raw_stale_refuted : exists stream back r,
  Forall op_ok f26_witness /\ w_all 16 f26_witness = Ok stream /\
  r_all true 16 (map rq_of f26_witness) stream = Ok (back, r) /\ spec_roundtrip f26_witness back = false.
Proof.
  eexists. eexists. eexists. split; [|split; [|split]].
  - unfold f26_witness. repeat constructor; try (vm_compute; reflexivity).
  - vm_compute. reflexivity.
  - vm_compute. reflexivity.
  - vm_compute. reflexivity.
Qed.
