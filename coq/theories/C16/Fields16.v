(** Reviewed table of the data members of serialisable classes that serialize() deliberately does not transfer
    (hand-approved, committed).  Every member of every serialisable class that is not written in the store direction
    AND set in the load direction of its class's serialize() must be listed here with its reason (Gen/GenSerFieldsObl.v:
    T16_fields_<class>); an entry that no longer names an untransferred member fails T16_fields_table_precise.
    Class 0 = any class.  Names are crc32 mod 1000000007 of the identifiers (translator/c16_ser.py: crc). *)
From XV Require Import Base.XDefs C16.ModelFields16.
Definition transient_fields : list (N * N) :=
  [
   (0%N, 447864278%N);   (* *::fMemoryManager - the memory manager of the loading side (serEng.getMemoryManager() / constructor argument) *)
   (0%N, 997328645%N);   (* *::fMemMgr - same (XMLGrammarDescription) *)
   (470032194%N, 430820545%N);   (* QName::fRawName - cache of prefix:localPart; reset on load, rebuilt by getRawName() *)
   (470032194%N, 600840016%N);   (* QName::fRawNameBufSz - size of that cache *)
   (375370546%N, 392133015%N);   (* XMLStringPool::fHashTable - rebuilt on load by addNewEntry() of every stored string in id order *)
   (375370546%N, 664323244%N);   (* XMLStringPool::fIdMap - rebuilt on load by addNewEntry() *)
   (375370546%N, 180498872%N);   (* XMLStringPool::fMapCapacity - capacity of fIdMap, grows with addNewEntry() *)
   (322053810%N, 571691908%N);   (* XMLAbstractDoubleFloat::fFormattedString - cache; set to 0 on load, re-formatted on demand *)
   (532213515%N, 31321172%N);   (* XMLBigDecimal::fRawDataLen - recomputed on load as stringLen of the stored raw data *)
   (828355779%N, 380640565%N);   (* DTDAttDefList::fArray - enumeration cache rebuilt on load from fList *)
   (828355779%N, 603840892%N);   (* DTDAttDefList::fEnum - enumerator over fList, recreated on load *)
   (828355779%N, 800099754%N);   (* DTDAttDefList::fSize - capacity of fArray; the stored value is fCount *)
   (122634282%N, 150656142%N);   (* DTDElementDecl::fContentModel - derived from the content spec lazily (getContentModel()) *)
   (122634282%N, 429406646%N);   (* DTDElementDecl::fFormattedModel - cache of the printed content model *)
   (725104965%N, 295794671%N);   (* DTDGrammar::fElemNonDeclPool - elements faulted in while scanning an instance (undeclared); a fresh empty pool on load *)
   (36484199%N, 713583927%N);   (* DatatypeValidator::fRegex - compiled lazily from the stored fPattern *)
   (36484199%N, 616840417%N);   (* DatatypeValidator::fTypeLocalName - stored as local name + uri, rebuilt on load through setTypeName(local, uri) *)
   (36484199%N, 43017422%N);   (* DatatypeValidator::fTypeUri - same *)
   (36484199%N, 830022023%N);   (* DatatypeValidator::fTypeName - same (uri,local) *)
   (236461355%N, 753025545%N);   (* ListDatatypeValidator::fContent - scratch pointer valid during one validate() call only *)
   (627139747%N, 150656142%N);   (* ComplexTypeInfo::fContentModel - derived lazily from fContentSpec (getContentModel()) *)
   (627139747%N, 429406646%N);   (* ComplexTypeInfo::fFormattedModel - cache of the printed content model *)
   (627139747%N, 529999057%N);   (* ComplexTypeInfo::fLocator - source position used for messages while the schema is traversed *)
   (627139747%N, 104351636%N);   (* ComplexTypeInfo::fContentSpecOrgURI - scratch array of the content model construction *)
   (627139747%N, 342110046%N);   (* ComplexTypeInfo::fContentSpecOrgURISize - same *)
   (627139747%N, 434561407%N);   (* ComplexTypeInfo::fUniqueURI - same *)
   (436887660%N, 380640565%N);   (* SchemaAttDefList::fArray - enumeration cache rebuilt on load from fList *)
   (436887660%N, 603840892%N);   (* SchemaAttDefList::fEnum - enumerator over fList, recreated on load *)
   (436887660%N, 800099754%N);   (* SchemaAttDefList::fSize - capacity of fArray; the stored value is fCount *)
   (700499379%N, 295794671%N);   (* SchemaGrammar::fElemNonDeclPool - elements faulted in while scanning an instance; created on demand *)
   (700499379%N, 683323134%N);   (* SchemaGrammar::fScopeCount - scope counter of TraverseSchema while the grammar is built (NOT examined: a restored grammar extended afterwards under handle-multiple-imports restarts it at 0) *)
   (700499379%N, 719241239%N);   (* SchemaGrammar::fAnonTypeCount - anonymous type counter of TraverseSchema while the grammar is built (same remark) *)
   (869130770%N, 529999057%N)    (* XercesGroupInfo::fLocator - source position used for messages while the schema is traversed *)
  ].

(** Members that carry state the validator uses and that the code AS FOUND does not transfer: genuine defects of the
    library (known findings).  They are let through by the coverage obligation so that the rest of the table stays checked;
    the check replays the witness of the finding for every entry that [open_gaps] still reports (the entry closes by
    itself once serialize() transfers the member). *)
Definition known_field_gaps : list (N * N) :=
  [
   (435313470%N, 950172493%N);   (* XMLDateTime::fMilliSecond - F62: fractional seconds of a date/time value (facet bounds, enumeration values) - compared by compareOrder, lost by serialize() *)
   (435313470%N, 541413310%N)    (* XMLDateTime::fHasTime - F62: tells compareOrder that the value has a time part whose fractional seconds count *)
  ].
