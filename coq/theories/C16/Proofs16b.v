(** Lemmas for C16, part b: raw blocks spanning buffers, operation sequences, the engine round trip,
    the level stamp, and the refutation of the round trip for the code as found (finding F26). *)
From XV Require Import Base.XDefs C16.Model16 C16.Spec16 C16.Proofs16a.
From Coq Require Import Arith ZArith ZifyBool ZifyN ZifyNat Lia.
Local Open Scope nat_scope.

Section Raw.
Variable bs : nat.
Hypothesis Hbs : 0 < bs.

Lemma mod_step : forall n, bs <= n -> n mod bs = (n - bs) mod bs.
Proof. intros n H. replace n with ((n - bs) + 1 * bs) at 1 by lia. apply Nat.mod_add. lia. Qed.

(** offset of the loading side after a chunked read of [n] remaining bytes *)
Definition rpos (n : nat) : nat := match n mod bs with 0 => bs | m => m end.

Lemma psync_rpos : forall m, psync bs (m mod bs) (rpos m).
Proof. intros m. unfold rpos, psync. destruct (m mod bs); [right; split; reflexivity|left; reflexivity]. Qed.

Lemma w_chunks_ok : forall f data w, length data < f -> w_buf w = [] -> (exists k, length (w_out w) = k * bs) ->
  exists w', w_chunks bs f data w = Ok w' /\ inv_w bs w' /\ L w' = L w ++ data /\ length (w_buf w') = length data mod bs.
Proof.
  induction f as [|f IH]; intros data w Hf Hb [k Hk]; [lia|].
  cbn [w_chunks]. destruct (bs <=? length data) eqn:C.
  - apply Nat.leb_le in C.
    assert (Hfl : length (firstn bs data) = bs) by (rewrite firstn_length; lia).
    destruct (IH (skipn bs data) (w_flush bs (mkW (w_out w) (firstn bs data)))) as [w' [E1 [E2 [E3 E4]]]].
    + rewrite skipn_length. lia.
    + reflexivity.
    + cbn [w_flush w_out w_buf]. exists (k + 1). rewrite !app_length, zeros_length, Hfl, Hk. lia.
    + exists w'. split; [exact E1|]. split; [exact E2|]. split.
      * rewrite E3. unfold L. cbn [w_flush w_out w_buf]. rewrite Hfl, Nat.sub_diag, Hb. cbn [zeros repeat].
        rewrite !app_nil_r. rewrite <- app_assoc. now rewrite firstn_skipn.
      * rewrite E4, skipn_length. symmetry. apply mod_step. exact C.
  - apply Nat.leb_gt in C. exists (mkW (w_out w) data). split; [reflexivity|]. split; [|split].
    + split; cbn [w_buf w_out]; [lia|exists k; exact Hk].
    + unfold L. cbn [w_buf w_out]. now rewrite Hb, app_nil_r.
    + cbn [w_buf]. symmetry. apply Nat.mod_small. exact C.
Qed.

Lemma r_chunks_ok : forall f data acc r T, length data < f -> r_cur r = [] -> r_inp r = data ++ T ->
  (exists k, length (r_inp r) = k * bs) ->
  exists r', r_chunks false bs f (length data) acc r = Ok (acc ++ data, r') /\ R r' = T /\ inv_r bs r' /\
             bs - length (r_cur r') = rpos (length data).
Proof.
  induction f as [|f IH]; intros data acc r T Hf Hc Hin [k Hk]; [lia|].
  cbn [r_chunks]. destruct (bs <=? length data) eqn:C.
  - apply Nat.leb_le in C.
    assert (Hkpos : 0 < k) by (destruct k; [rewrite Hin, app_length in Hk; lia|lia]).
    rewrite (fill_ok bs Hbs r k Hk Hkpos). cbn [bind r_cur r_inp].
    set (d1 := firstn bs data). set (d2 := skipn bs data).
    assert (Hd : data = d1 ++ d2) by (symmetry; apply firstn_skipn).
    assert (Hl1 : length d1 = bs) by (unfold d1; rewrite firstn_length; lia).
    assert (Hf1 : firstn bs (r_inp r) = d1).
    { rewrite Hin, Hd, <- app_assoc. rewrite <- Hl1 at 1. apply firstn_app_exact. }
    assert (Hs1 : skipn bs (r_inp r) = d2 ++ T).
    { rewrite Hin, Hd, <- app_assoc. rewrite <- Hl1 at 1. apply skipn_app_exact. }
    rewrite Hf1, Hs1.
    destruct (IH d2 (acc ++ d1) (mkR [] (d2 ++ T)) T) as [r' [E1 [E2 [E3 E4]]]].
    + unfold d2. rewrite skipn_length. lia.
    + reflexivity.
    + reflexivity.
    + exists (k - 1). cbn [r_inp]. rewrite <- Hs1, skipn_length, Hk. nia.
    + exists r'. replace (length data - bs) with (length d2) by (unfold d2; rewrite skipn_length; reflexivity).
      split; [rewrite E1, <- app_assoc, <- Hd; reflexivity|]. split; [exact E2|]. split; [exact E3|].
      rewrite E4. unfold rpos, d2. rewrite skipn_length. now rewrite <- mod_step.
  - apply Nat.leb_gt in C. destruct data as [|d0 dt].
    + cbn [length]. exists r. split; [now rewrite app_nil_r|]. split; [|split].
      * unfold R. now rewrite Hc, Hin.
      * split; [rewrite Hc; cbn; lia|exists k; exact Hk].
      * rewrite Hc. cbn [length]. unfold rpos. rewrite Nat.mod_0_l by lia. lia.
    + cbn [length] in C |- *.
      assert (Hkpos : 0 < k) by (destruct k; [rewrite Hin, app_length in Hk; cbn [length] in Hk; lia|lia]).
      rewrite (fill_ok bs Hbs r k Hk Hkpos). cbn [bind r_cur r_inp].
      assert (Hlen : length (firstn bs (r_inp r)) = bs) by (rewrite firstn_length; nia).
      change (S (length dt)) with (length (d0 :: dt)).
      exists (mkR (skipn (length (d0 :: dt)) (firstn bs (r_inp r))) (skipn bs (r_inp r))).
      split; [|split; [|split]].
      * rewrite firstn_firstn_le by (cbn [length]; lia). rewrite Hin, firstn_app_exact. reflexivity.
      * unfold R. cbn [r_cur r_inp]. rewrite skipn_firstn_glue by (cbn [length]; lia). rewrite Hin. apply skipn_app_exact.
      * split; cbn [r_cur r_inp]; [rewrite skipn_length; lia|exists (k - 1); rewrite skipn_length, Hk; nia].
      * cbn [r_cur]. rewrite skipn_length, Hlen. unfold rpos. rewrite Nat.mod_small by (cbn [length]; lia). cbn [length]. lia.
Qed.

(** write(bytes, n) / read(bytes, n) *)
Lemma step_raw : forall data, forall w, inv_w bs w -> exists w', w_raw bs data w = Ok w' /\ inv_w bs w' /\ L w' = L w ++ data /\
    forall r T, inv_r bs r -> psync bs (length (w_buf w)) (bs - length (r_cur r)) -> R r = data ++ T ->
      exists r', r_raw false bs (length data) r = Ok (data, r') /\ R r' = T /\ inv_r bs r' /\
                 psync bs (length (w_buf w')) (bs - length (r_cur r')).
Proof.
  intros data w [Hb [k Hk]]. destruct data as [|d0 dt].
  - exists w. split; [reflexivity|]. split; [split; [exact Hb|exists k; exact Hk]|]. split; [now rewrite app_nil_r|].
    intros r T Hr Hps HR. exists r. cbn [length r_raw]. split; [reflexivity|]. split; [exact HR|]. split; [exact Hr|exact Hps].
  - set (data := d0 :: dt). set (n := length data). set (pos := length (w_buf w)) in *.
    assert (Hn : n = S (length dt)) by reflexivity.
    unfold w_raw. fold data. fold pos. fold n.
    destruct (n <=? bs - pos) eqn:C.
    + (* fits into the current buffer *)
      apply Nat.leb_le in C.
      exists (mkW (w_out w) (w_buf w ++ data)). split; [reflexivity|]. split; [|split].
      * split; cbn [w_buf w_out]; [rewrite app_length; fold pos; fold n; lia|exists k; exact Hk].
      * unfold L. cbn [w_buf w_out]. now rewrite app_assoc.
      * intros r T [Hc [k' Hk']] Hps HR. cbn [w_buf]. rewrite app_length. fold pos. fold n.
        unfold r_raw. fold n. rewrite Hn. rewrite <- Hn.
        destruct Hps as [E|[E0 E1]].
        -- assert (Cr : (n <=? length (r_cur r)) = true) by (apply Nat.leb_le; lia).
           rewrite Cr. unfold R in HR.
           destruct (app_prefix_split _ data (r_cur r) T (r_inp r)) as [x [Hx HT]]; [fold n; lia|exact HR|].
           exists (mkR x (r_inp r)). rewrite Hx. unfold n. rewrite firstn_app_exact, skipn_app_exact.
           split; [reflexivity|]. split; [unfold R; cbn [r_cur r_inp]; symmetry; exact HT|].
           assert (Hlx : length (r_cur r) = length data + length x) by (rewrite Hx, app_length; reflexivity).
           split; [split; cbn [r_cur r_inp]; [lia|exists k'; exact Hk']|]. cbn [r_cur]. left. fold n in Hlx. lia.
        -- assert (Hcur : r_cur r = []) by (destruct (r_cur r); [reflexivity|cbn [length] in *; lia]).
           rewrite Hcur. cbn [length]. assert (Cr : (n <=? 0) = false) by (apply Nat.leb_gt; lia). rewrite Cr.
           rewrite Nat.sub_0_r. unfold R in HR. rewrite Hcur in HR. cbn [app] in HR.
           destruct (r_chunks_ok (S n) data [] (mkR [] (r_inp r)) T) as [r' [F1 [F2 [F3 F4]]]];
             [fold n; lia|reflexivity|exact HR|exists k'; exact Hk'|].
           exists r'. fold n in F1, F4. split; [exact F1|]. split; [exact F2|]. split; [exact F3|].
           rewrite F4, E0. unfold rpos. destruct (Nat.eq_dec n bs) as [En|En].
           ++ rewrite En, Nat.mod_same by lia. left. lia.
           ++ rewrite Nat.mod_small by lia. rewrite Hn. left. lia.
    + (* spans buffers *)
      apply Nat.leb_gt in C. set (avail := bs - pos) in *.
      assert (Hfa : length (firstn avail data) = avail) by (rewrite firstn_length; fold n; lia).
      destruct (w_chunks_ok (S n) (skipn avail data) (w_flush bs (mkW (w_out w) (w_buf w ++ firstn avail data))))
        as [w' [E1 [E2 [E3 E4]]]].
      * rewrite skipn_length. fold n. lia.
      * reflexivity.
      * cbn [w_flush w_out w_buf]. exists (k + 1). rewrite !app_length, zeros_length, Hfa, Hk. fold pos. unfold avail. lia.
      * exists w'. split; [exact E1|]. split; [exact E2|]. split.
        -- rewrite E3. unfold L. cbn [w_flush w_out w_buf]. rewrite app_length, Hfa. fold pos.
           replace (bs - (pos + avail)) with 0 by (unfold avail; lia). cbn [zeros repeat]. rewrite !app_nil_r.
           rewrite <- !app_assoc. now rewrite firstn_skipn.
        -- intros r T [Hc [k' Hk']] Hps HR. rewrite E4, skipn_length. fold n.
           unfold r_raw. fold n. rewrite Hn. rewrite <- Hn. unfold R in HR.
           destruct Hps as [E|[E0 E1']].
           ++ assert (Hca : length (r_cur r) = avail) by (unfold avail; lia).
              assert (Cr : (n <=? length (r_cur r)) = false) by (apply Nat.leb_gt; lia). rewrite Cr.
              destruct (app_prefix_split _ (r_cur r) data (r_inp r) T) as [d2 [Hd2 Hi2]]; [fold n; lia|symmetry; exact HR|].
              destruct (r_chunks_ok (S n) d2 (r_cur r) (mkR [] (r_inp r)) T) as [r' [F1 [F2 [F3 F4]]]].
              ** assert (length data = length (r_cur r) + length d2) by (rewrite Hd2 at 1; apply app_length). fold n in H. lia.
              ** reflexivity.
              ** exact Hi2.
              ** exists k'. exact Hk'.
              ** assert (Hl2 : n - length (r_cur r) = length d2).
                 { assert (length data = length (r_cur r) + length d2) by (rewrite Hd2 at 1; apply app_length). fold n in H. lia. }
                 exists r'. rewrite Hl2. split; [rewrite F1, <- Hd2; reflexivity|]. split; [exact F2|]. split; [exact F3|].
                 rewrite F4. rewrite <- Hca, Hl2. apply psync_rpos.
           ++ assert (Hcur : r_cur r = []) by (destruct (r_cur r); [reflexivity|cbn [length] in *; lia]).
              rewrite Hcur in *. cbn [length app] in *. assert (Cr : (n <=? 0) = false) by (apply Nat.leb_gt; lia). rewrite Cr.
              rewrite Nat.sub_0_r.
              destruct (r_chunks_ok (S n) data [] (mkR [] (r_inp r)) T) as [r' [F1 [F2 [F3 F4]]]];
                [fold n; lia|reflexivity|exact HR|exists k'; exact Hk'|].
              exists r'. fold n in F1, F4. split; [exact F1|]. split; [exact F2|]. split; [exact F3|].
              rewrite F4. assert (Hav : avail = bs) by (unfold avail; lia). rewrite Hav, <- mod_step by lia. apply psync_rpos.
Qed.

End Raw.
