(** Extraction of the executable C16 models to OCaml (ExtrOcamlBasic only: N/positive/nat stay inductive).
    The path is relative to the directory coqc runs in (coq/). *)
From Coq Require Import Extraction ExtrOcamlBasic.
From XV Require Import C16.Model16 C16.Spec16 C16.ModelObj16 C16.Containers16 C16.Helpers16 Gen.GenSerialize
  C16.ModelFields16 C16.Fields16 Gen.GenSerFields.
Extraction Language OCaml.
Extraction "../ocaml/C16/gen_c16.ml"
  w_all r_all pool_store pool_load rq_of spec_roundtrip
  ser_classes ser_parsed ser_level ser_bufsize class_ok class_obligation asymmetric_classes open_abstract_classes
  ser_containers ser_container_inserts asymmetric_containers tmpl_covered inserts_ok pinned_container_inserts
  store_all load_all rq_ev reload
  ser_helpers ser_helper_conds pinned_helper_conds failing_helpers helpers_covered
  ser_fields ser_enum_fields transient_fields known_field_gaps uncovered open_gaps transient_precise fields_ok.
