(** C13 -- lemmas, part c: every operation of the repaired model preserves the upward invariant [WFup]. *)
From Coq Require Import NArith List Bool Arith Lia.
From XV Require Import Base.XDefs Gen.GenKidOK C13.Ops13 C13.Spec13 C13.Model13 C13.Abs13 C13.Proofs13b.
Import ListNotations.

Lemma uv_upd_gen : forall h i f j,
  uv (upd h i f) j = if Nat.eqb j i && (i <? length h) then upf (f (nd h i)) else uv h j.
Proof.
  intros. unfold uv. destruct (Nat.eqb_spec j i) as [->|Hn]; cbn [andb].
  - destruct (Nat.ltb_spec i (length h)).
    + rewrite nd_upd_eq by assumption. reflexivity.
    + rewrite upd_oob by assumption. reflexivity.
  - rewrite nd_upd_ne by congruence. reflexivity.
Qed.

(** P holds of h and is insensitive to updates that preserve the view *)
Definition PW (n : nat) (h : heap) := WFup h /\ length h = n.

Lemma PW_upd_pres : forall n h i f, up_pres f -> PW n h -> PW n (upd h i f).
Proof.
  intros n h i f Hf [W L]. split; [|rewrite length_upd; assumption].
  unfold WFup in *. rewrite length_upd. eapply WFv_ext; [|exact W]. intros j. apply uv_upd_pres; assumption.
Qed.

Lemma WFup_view : forall (h h' : heap) v, length h' = length h -> (forall j, uv h' j = v j) -> WFv (length h) v -> WFup h'.
Proof. intros h h' v L E W. unfold WFup. rewrite L. eapply WFv_ext; [|exact W]. exact E. Qed.

(** ------------------------------------------------------------ link_remove *)
Lemma length_link_remove : forall h this old, length (link_remove h this old) = length h.
Proof.
  intros. unfold link_remove. rewrite !length_upd.
  destruct (oid_eqb _ _).
  - destruct (n_next (nd h old)); rewrite ?length_upd; reflexivity.
  - destruct (n_prev (nd h old)); [|reflexivity]. destruct (n_next (nd h old)); rewrite ?length_upd.
    + reflexivity.
    + destruct (n_first _); rewrite ?length_upd; reflexivity.
Qed.

Lemma uv_link_remove : forall h this old j,
  uv (link_remove h this old) j =
  if Nat.eqb j old && (old <? length h) then clr_par (uv h) old (n_odoc (nd h this)) j else uv h j.
Proof.
  intros. unfold link_remove.
  set (h1 := if oid_eqb (n_first (nd h this)) (Some old) then _ else _).
  assert (L1 : length h1 = length h).
  { subst h1. destruct (oid_eqb _ _).
    - destruct (n_next (nd h old)); rewrite ?length_upd; reflexivity.
    - destruct (n_prev (nd h old)); [|reflexivity]. destruct (n_next (nd h old)); rewrite ?length_upd.
      + reflexivity.
      + destruct (n_first _); rewrite ?length_upd; reflexivity. }
  assert (U1 : forall i, uv h1 i = uv h i).
  { intros i. subst h1. destruct (oid_eqb _ _).
    - destruct (n_next (nd h old)); uvs; reflexivity.
    - destruct (n_prev (nd h old)); [|reflexivity]. destruct (n_next (nd h old)); uvs.
      + reflexivity.
      + destruct (n_first _); uvs; reflexivity. }
  uvs. rewrite uv_upd_gen, length_upd, L1.
  destruct (Nat.eqb_spec j old) as [->|Hn]; cbn [andb].
  - destruct (Nat.ltb_spec old (length h)).
    + rewrite nd_upd_eq by lia. unfold clr_par. rewrite Nat.eqb_refl.
      generalize (U1 old). unfold uv, upf, vty, vodoc. destruct (nd h1 old), (nd h old); cbn. intros [= -> _ _ ->]. reflexivity.
    + rewrite uv_upd_gen. rewrite L1. destruct (Nat.ltb_spec old (length h)); [lia|]. rewrite andb_false_r. apply U1.
  - rewrite uv_upd_gen. destruct (Nat.eqb_spec j old); [contradiction|]. cbn [andb]. apply U1.
Qed.

Lemma PW_link_remove : forall n h this old, PW n h -> PW n (link_remove h this old).
Proof.
  intros n h this old [W L]. split; [|rewrite length_link_remove; assumption].
  destruct (Nat.ltb_spec old (length h)) as [Ho|Ho].
  - eapply (WFup_view h _ (clr_par (uv h) old (n_odoc (nd h this)))); [apply length_link_remove| |apply WFv_clr_par; exact W].
    intros j. rewrite uv_link_remove. destruct (Nat.ltb_spec old (length h)); [|lia]. rewrite andb_true_r.
    unfold clr_par. destruct (Nat.eqb j old); reflexivity.
  - eapply (WFup_view h _ (uv h)); [apply length_link_remove| |exact W].
    intros j. rewrite uv_link_remove. destruct (Nat.ltb_spec old (length h)); [lia|]. rewrite andb_false_r. reflexivity.
Qed.

Lemma PW_p_remove : forall n h this old h' r, PW n h -> p_remove h this old = (h', r) -> PW n h'.
Proof.
  intros n h this old h' r P. unfold p_remove.
  destruct (n_ro _); [intros [= <- _]; assumption|].
  destruct (negb _); [intros [= <- _]; assumption|].
  intros [= <- _]. apply PW_link_remove; assumption.
Qed.

Lemma PW_v_remove : forall n h this old h' r, PW n h -> v_remove h this old = (h', r) -> PW n h'.
Proof.
  intros n h this old h' r P. unfold v_remove.
  destruct (n_ty (nd h this)); try (intros [= <- _]; assumption); try (apply PW_p_remove; assumption).
  destruct (p_remove h this old) as [h1 r1] eqn:E. pose proof (PW_p_remove _ _ _ _ _ _ P E) as P1.
  destruct (is_err r1); [intros [= <- _]; assumption|].
  destruct (n_ty (nd h1 old)); intros [= <- _]; try assumption. apply PW_upd_pres; auto with upres.
Qed.

Definition rm_view (h : heap) (old d : id) : view :=
  fun j => if Nat.eqb j old && (old <? length h) then clr_par (uv h) old d j else uv h j.

Lemma uv_p_remove : forall h t old h1 r1, p_remove h t old = (h1, r1) ->
  (forall j, uv h1 j = uv h j) \/ (forall j, uv h1 j = rm_view h old (n_odoc (nd h t)) j).
Proof.
  intros h t old h1 r1. unfold p_remove.
  destruct (n_ro _); [intros [= <- _]; left; reflexivity|].
  destruct (negb _); [intros [= <- _]; left; reflexivity|].
  intros [= <- _]. right. intros j. apply uv_link_remove.
Qed.

Lemma uv_v_remove : forall h t old h1 r1, v_remove h t old = (h1, r1) ->
  (forall j, uv h1 j = uv h j) \/ (forall j, uv h1 j = rm_view h old (n_odoc (nd h t)) j).
Proof.
  intros h t old h1 r1. unfold v_remove.
  destruct (n_ty (nd h t)); try (intros [= <- _]; left; reflexivity); try apply uv_p_remove.
  destruct (p_remove h t old) as [h2 r2] eqn:E. apply uv_p_remove in E.
  destruct (is_err r2); [intros [= <- _]; exact E|].
  destruct (n_ty (nd h2 old)); intros [= <- _]; try exact E.
  destruct E as [E|E]; [left|right]; intros j; uvs; apply E.
Qed.

Lemma rm_view_other : forall h old d j, j <> old -> rm_view h old d j = uv h j.
Proof. intros. unfold rm_view. destruct (Nat.eqb_spec j old); [contradiction|reflexivity]. Qed.
Lemma rm_view_ty_odoc : forall h old d, vty (rm_view h old d) old = vty (uv h) old /\ vodoc (rm_view h old d) old = vodoc (uv h) old.
Proof.
  intros. unfold rm_view, vty, vodoc, clr_par. rewrite Nat.eqb_refl. cbn [andb].
  destruct (old <? length h); cbn; auto.
Qed.

(** ------------------------------------------------------------ link_insert *)
Lemma link_insert_spec : forall h this new ref,
  length (link_insert h this new ref) = length h /\
  forall j, uv (link_insert h this new ref) j =
            if Nat.eqb j new && (new <? length h) then set_par (uv h) new this j else uv h j.
Proof.
  intros. unfold link_insert.
  set (h1 := upd (upd h new (set_owner this)) new (set_owned true)).
  assert (L1 : length h1 = length h) by (subst h1; rewrite !length_upd; reflexivity).
  assert (U1 : forall j, uv h1 j = if Nat.eqb j new && (new <? length h) then set_par (uv h) new this j else uv h j).
  { intros j. subst h1. rewrite uv_upd_gen, length_upd.
    destruct (Nat.eqb_spec j new) as [->|Hn]; cbn [andb].
    - destruct (Nat.ltb_spec new (length h)).
      + rewrite nd_upd_eq by lia. unfold set_par. rewrite Nat.eqb_refl. unfold uv, upf, vty, vodoc.
        destruct (nd h new); reflexivity.
      + rewrite upd_oob by lia. reflexivity.
    - rewrite uv_upd_gen. destruct (Nat.eqb_spec j new); [contradiction|]. reflexivity. }
  destruct (n_first (nd h1 this)) as [f|].
  - destruct ref as [r|].
    + destruct (Nat.eqb r f).
      * rewrite !length_upd. split; [assumption|]. intros j. uvs. apply U1.
      * destruct (n_prev (nd h1 r)); rewrite ?length_upd; (split; [assumption|]); intros j; uvs; apply U1.
    + destruct (n_prev (nd h1 f)); rewrite ?length_upd; (split; [assumption|]); intros j; uvs; apply U1.
  - rewrite !length_upd. split; [assumption|]. intros j. uvs. apply U1.
Qed.

Lemma tree_safe_srooted : forall h x f c, tree_safe h x (Some c) f = true -> exists k, srooted (uv h) x c k = true.
Proof.
  induction f as [|f IH]; intros c H; cbn in H.
  - destruct (Nat.eqb c x); discriminate.
  - destruct (Nat.eqb c x) eqn:E; [discriminate|].
    destruct (parent h c) as [p|] eqn:Ep.
    + destruct (IH p H) as [k Hk]. exists (S k). cbn [srooted]. rewrite E, vparent_uv, Ep. exact Hk.
    + exists 1. cbn [srooted]. rewrite E, vparent_uv, Ep. reflexivity.
Qed.

Lemma srooted_ext : forall v v' x k c, (forall j, j <> x -> v' j = v j) -> srooted v x c k = true -> srooted v' x c k = true.
Proof.
  induction k as [|k IH]; intros c E H; cbn in *; try discriminate.
  apply andb_prop in H. destruct H as [Hne H]. rewrite Hne. cbn [andb].
  assert (c <> x) by (intros ->; rewrite Nat.eqb_refl in Hne; discriminate).
  unfold vparent in *. rewrite (E c) by assumption. destruct (v c) as [[[t o] ow] d]. destruct ow; auto.
Qed.

Lemma PW_link_insert : forall n h this new ref ks, PW n h -> this < n ->
  srooted (uv h) new this ks = true ->
  (is_leaf (n_ty (nd h new)) = false -> n_odoc (nd h new) = n_odoc (nd h this)) -> n_ty (nd h new) <> TDoc ->
  PW n (link_insert h this new ref).
Proof.
  intros n h this new ref ks [W L] Ht Hs Ho Hd. destruct (link_insert_spec h this new ref) as [Ll U].
  split; [|lia]. destruct (Nat.ltb_spec new (length h)) as [Hn|Hn].
  - eapply (WFup_view h _ (set_par (uv h) new this)); [assumption| |].
    + intros j. rewrite U. rewrite andb_true_r. unfold set_par. destruct (Nat.eqb j new); reflexivity.
    + eapply WFv_set_par; eauto. lia.
  - eapply (WFup_view h _ (uv h)); [assumption| |exact W]. intros j. rewrite U, andb_false_r. reflexivity.
Qed.

(** ------------------------------------------------------------ insertBefore *)
Lemma PW_move_loop : forall n k insf h frag h' r,
  (forall h0 kid h1 r1, PW n h0 -> insf h0 kid = (h1, r1) -> PW n h1) ->
  PW n h -> move_loop k insf h frag = (h', r) -> PW n h'.
Proof.
  induction k as [|k IH]; intros insf h frag h' r Hi P; cbn.
  - intros [= <- _]; assumption.
  - destruct (n_first (nd h frag)) as [kid|]; [|intros [= <- _]; assumption].
    destruct (insf h kid) as [h1 r1] eqn:E. pose proof (Hi _ _ _ _ P E) as P1.
    destruct (is_err r1); [intros [= <- _]; assumption|]. apply IH; assumption.
Qed.

Lemma pub_odoc_facts : forall h new d, oid_eqb (pub_odoc h new) (Some d) = true ->
  n_ty (nd h new) <> TDoc /\ (is_leaf (n_ty (nd h new)) = false -> n_odoc (nd h new) = d).
Proof.
  intros h new d. unfold pub_odoc. destruct (n_ty (nd h new)) eqn:T; cbn [is_leaf oid_eqb]; intros H;
    try discriminate H; (split; [discriminate|]); intros Hl; try discriminate Hl; apply Nat.eqb_eq in H; assumption.
Qed.

Lemma PW_pins_body : forall n insf h this new ref h' r,
  (forall h0 kid h1 r1, PW n h0 -> insf h0 kid = (h1, r1) -> PW n h1) ->
  PW n h -> this < n -> pins_body insf cfg_fixed h this new ref = (h', r) -> PW n h'.
Proof.
  intros n insf h this new ref h' r Hi P Ht. unfold pins_body. change (fix_self cfg_fixed) with true. cbv iota.
  destruct (n_ro _); [intros [= <- _]; assumption|].
  destruct (oid_eqb (pub_odoc h new) _) eqn:Eo; cbn [negb]; [|intros [= <- _]; assumption].
  destruct (tree_safe _ _ _ _) eqn:Es; cbn [negb]; [|intros [= <- _]; assumption].
  destruct (match ref with Some r0 => _ | None => false end); [intros [= <- _]; assumption|].
  destruct (oid_eqb ref (Some new)); [intros [= <- _]; assumption|].
  destruct (ntype_eqb _ TFrag).
  { destruct (forallb _ _); [|intros [= <- _]; assumption].
    destruct (move_loop _ _ _ _) as [h1 r1] eqn:E. pose proof (PW_move_loop _ _ _ _ _ _ _ Hi P E).
    destruct (is_err r1); intros [= <- _]; assumption. }
  destruct (kid_ok h this new); cbn [negb]; [|intros [= <- _]; assumption].
  destruct (pub_odoc_facts _ _ _ Eo) as [Hd Hod].
  destruct (tree_safe_srooted _ _ _ _ Es) as [ks Hks].
  destruct (parent h new) as [op|] eqn:Ep.
  - destruct (v_remove h op new) as [h1 r1] eqn:Er. pose proof (PW_v_remove _ _ _ _ _ _ P Er) as P1.
    destruct (is_err r1); [intros [= <- _]; assumption|]. intros [= <- _].
    (* what v_remove did to the view: at most cleared the parent of [new] *)
    assert (V : forall j, j <> new -> uv h1 j = uv h j).
    { intros j Hj. destruct (uv_v_remove _ _ _ _ _ Er) as [E|E]; rewrite E; [reflexivity|apply rm_view_other; assumption]. }
    assert (Vn : n_ty (nd h1 new) = n_ty (nd h new) /\ n_odoc (nd h1 new) = n_odoc (nd h new)).
    { change (vty (uv h1) new = vty (uv h) new /\ vodoc (uv h1) new = vodoc (uv h) new).
      destruct (uv_v_remove _ _ _ _ _ Er) as [E|E]; unfold vty, vodoc; rewrite E; [auto|].
      apply rm_view_ty_odoc. }
    destruct Vn as [Vt Vo].
    assert (Hthis : this <> new).
    { intros ->. destruct ks; cbn in Hks; [discriminate|]. rewrite Nat.eqb_refl in Hks. discriminate. }
    eapply PW_link_insert with (ks := ks); eauto.
    + eapply srooted_ext; [|exact Hks]. intros j Hj. apply V. assumption.
    + rewrite Vt, Vo. intros Hl. rewrite (Hod Hl).
      generalize (V this Hthis). unfold uv, upf. destruct (nd h1 this), (nd h this); cbn. intros [= _ _ _ ->]. reflexivity.
    + rewrite Vt. assumption.
  - intros [= <- _]. eapply PW_link_insert with (ks := ks); eauto.
Qed.

Lemma PW_ins : forall n fuel h this new ref h' r,
  PW n h -> this < n -> ins fuel cfg_fixed h this new ref = (h', r) -> PW n h'.
Proof.
  induction fuel as [|fuel IH]; intros h this new ref h' r P Ht; cbn [ins].
  - intros [= <- _]; assumption.
  - assert (Hi : forall h0 kid h1 r1, PW n h0 -> ins fuel cfg_fixed h0 this kid ref = (h1, r1) -> PW n h1)
      by (intros; eapply IH; eauto).
    destruct (n_ty (nd h this)); try (intros [= <- _]; assumption);
      try (apply (PW_pins_body n (fun h0 kid => ins fuel cfg_fixed h0 this kid ref)); assumption).
    destruct (_ && _ && _); [intros [= <- _]; assumption|].
    destruct (_ && _); [intros [= <- _]; assumption|].
    destruct (pins_body _ _ _ _ _ _) as [h1 r1] eqn:E.
    pose proof (PW_pins_body n _ _ _ _ _ _ _ Hi P Ht E) as P1.
    destruct (is_err r1); [intros [= <- _]; assumption|].
    destruct (ntype_eqb _ _); intros [= <- _]; [apply PW_upd_pres; auto with upres|assumption].
Qed.
