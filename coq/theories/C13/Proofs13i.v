(** C13 -- lemmas, part i: link_insert preserves the sibling-chain invariant [WFsib]. *)
From Coq Require Import NArith List Bool Arith Lia.
From XV Require Import Base.XDefs Gen.GenKidOK C13.Ops13 C13.Spec13 C13.Model13 C13.Abs13 C13.Proofs13b C13.Proofs13c
  C13.Proofs13f C13.Proofs13g C13.Proofs13h.
Import ListNotations.

Lemma insert_before_head : forall c f r, insert_before (Some f) c (f :: r) = c :: f :: r.
Proof. intros. cbn. rewrite Nat.eqb_refl. reflexivity. Qed.
Lemma insert_before_split : forall c x r1 r2, ~ In x r1 -> insert_before (Some x) c (r1 ++ x :: r2) = r1 ++ c :: x :: r2.
Proof.
  induction r1 as [|y r1 IH]; intros r2 H; cbn [app].
  - apply insert_before_head.
  - cbn [insert_before]. destruct (Nat.eqb_spec y x) as [->|_]; [exfalso; apply H; left; reflexivity|].
    f_equal. apply IH. intros Hc. apply H. right; exact Hc.
Qed.
Lemma hd_error_app_ne : forall (a b : list nat), a <> [] -> hd_error (a ++ b) = hd_error a.
Proof. intros [|? ?] ? ?; [contradiction|reflexivity]. Qed.

Lemma insert_before_none : forall c l, insert_before None c l = l ++ [c].
Proof. intros c [|y l]; reflexivity. Qed.

Lemma insert_before_inv : forall ref c l x, In x (insert_before ref c l) -> x = c \/ In x l.
Proof.
  intros [z|] c l x.
  - induction l as [|y l IH]; cbn [insert_before].
    + intros [->|[]]. left; reflexivity.
    + destruct (Nat.eqb y z).
      * intros [->|H]; [left; reflexivity|right; exact H].
      * intros [->|H]; [right; left; reflexivity|]. destruct (IH H); [left; assumption|right; right; assumption].
  - rewrite insert_before_none. intros H. apply in_app_or in H. destruct H as [H|[->|[]]]; [right; exact H|left; reflexivity].
Qed.
Lemma insert_before_new : forall ref c l, In c (insert_before ref c l).
Proof.
  intros [z|] c l.
  - induction l as [|y l IH]; cbn [insert_before]; [left; reflexivity|]. destruct (Nat.eqb y z); [left; reflexivity|right; exact IH].
  - rewrite insert_before_none. apply in_or_app. right. left. reflexivity.
Qed.
Lemma insert_before_old : forall ref c l x, In x l -> In x (insert_before ref c l).
Proof.
  intros [z|] c l x Hx.
  - induction l as [|y l IH]; [contradiction|]. cbn [insert_before]. destruct (Nat.eqb y z); [right; exact Hx|].
    destruct Hx as [->|Hx]; [left; reflexivity|right; apply IH; exact Hx].
  - rewrite insert_before_none. apply in_or_app. left; exact Hx.
Qed.
Lemma NoDup_snoc : forall (l : list nat) c, NoDup l -> ~ In c l -> NoDup (l ++ [c]).
Proof.
  induction l as [|y l IH]; intros c ND Hn; cbn; [constructor; [intros []|constructor]|].
  inversion ND as [|? ? Hy Hl]. constructor.
  - intros Hc. apply in_app_or in Hc. destruct Hc as [Hc|[->|[]]]; [contradiction|]. apply Hn. left; reflexivity.
  - apply IH; [exact Hl|]. intros Hc. apply Hn. right; exact Hc.
Qed.
Lemma insert_before_nodup : forall ref c l, NoDup l -> ~ In c l -> NoDup (insert_before ref c l).
Proof.
  intros [z|] c l ND Hn.
  - induction l as [|y l IH]; cbn [insert_before]; [constructor; [intros []|constructor]|].
    inversion ND as [|? ? Hy Hl]. destruct (Nat.eqb y z).
    + constructor; [exact Hn|exact ND].
    + constructor.
      * intros Hc. destruct (insert_before_inv _ _ _ _ Hc) as [->|Hc']; [apply Hn; left; reflexivity|contradiction].
      * apply IH; [exact Hl|]. intros Hc. apply Hn. right; exact Hc.
  - rewrite insert_before_none. apply NoDup_snoc; assumption.
Qed.

Lemma WFsib_link_insert : forall h ks this new ref,
  WFsib h ks -> this < length h -> new < length h -> new <> this ->
  n_owned (nd h new) = false ->
  (forall r, ref = Some r -> In r (ks this)) ->
  WFsib (link_insert h this new ref) (ks_set ks this (insert_before ref new (ks this))).
Proof.
  intros h ks this new ref W Ht Hn Hnt Hfree Href.
  set (h' := link_insert h this new ref).
  pose proof (s_sibs _ _ W this Ht) as Hs. pose proof (s_nodup _ _ W this) as ND.
  destruct (link_insert_spec h this new ref) as [Hlen Huv]. fold h' in Hlen, Huv.
  pose proof (s_free _ _ W new Hn Hfree) as Hsn.
  destruct (sv_fields _ _ _ _ _ _ _ Hsn) as [_ [_ [Hnnx [_ Hnif]]]].
  assert (Hnew_out : forall q, ~ In new (ks q)).
  { intros q Hc. destruct (WFsib_member _ _ _ _ W Hc). congruence. }
  assert (Hown' : forall x, x <> new -> n_owner (nd h' x) = n_owner (nd h x) /\ n_owned (nd h' x) = n_owned (nd h x)).
  { intros x Hx. apply own_of_uv. rewrite Huv. destruct (Nat.eqb_spec x new); [contradiction|reflexivity]. }
  assert (Hownn : n_owner (nd h' new) = this /\ n_owned (nd h' new) = true).
  { generalize (Huv new). rewrite Nat.eqb_refl. destruct (Nat.ltb_spec new (length h)); [|lia]. cbn [andb].
    unfold set_par, uv, upf. rewrite Nat.eqb_refl. intros [= _ -> -> _]. auto. }
  assert (Core : (forall q, q <> this -> fv h' q = fv h q) /\
                 (forall x, x <> new -> ~ In x (ks this) -> sv h' x = sv h x) /\
                 sibs h' this (insert_before ref new (ks this))).
  { destruct (ks this) as [|f r] eqn:Ek.
    - (* first and only child *)
      assert (Hf : n_first (nd h this) = None) by exact Hs.
      destruct (link_insert_empty h this new ref Ht Hn Hnt Hf Hnnx) as [F1 [F2 F3]]. fold h' in F1, F2, F3.
      assert (EL : insert_before ref new [] = [new]) by (destruct ref; reflexivity). rewrite EL.
      split; [|split].
      + intros q Hq. rewrite F1. destruct (Nat.eqb_spec q this); [contradiction|reflexivity].
      + intros x Hx _. apply F3; exact Hx.
      + cbn [sibs]. split; [rewrite F1, Nat.eqb_refl; reflexivity|]. split; [exact F2|exact I].
    - destruct Hs as [Hf [Hsf Hd]].
      assert (Hval : forall x, In x (f :: r) -> x < length h) by (intros x Hx; apply (s_valid _ _ W this x); rewrite Ek; exact Hx).
      assert (Hnl : ~ In new (f :: r)) by (rewrite <- Ek; apply Hnew_out).
      assert (Hnf : new <> f) by (intros ->; apply Hnl; left; reflexivity).
      assert (Hfr : ~ In f r) by (inversion ND; assumption).
      assert (NDr : NoDup r) by (inversion ND; assumption).
      destruct (sv_fields _ _ _ _ _ _ _ Hsf) as [_ [_ [Hfnx [Hfpv _]]]].
      destruct ref as [x|].
      + specialize (Href x eq_refl). destruct (Nat.eq_dec x f) as [->|Hxf].
        * (* before the first child *)
          destruct (link_insert_head h this new f Ht Hn (Hval f (or_introl eq_refl)) Hnt Hnf Hf) as [F1 [F2 [F3 F4]]].
          fold h' in F1, F2, F3, F4. rewrite insert_before_head. split; [|split].
          -- intros q Hq. rewrite F1. destruct (Nat.eqb_spec q this); [contradiction|reflexivity].
          -- intros y Hy Hnin. apply F4; [exact Hy|]. intros ->. apply Hnin. left; reflexivity.
          -- cbn [sibs dl]. split; [rewrite F1, Nat.eqb_refl; reflexivity|]. split; [|split].
             ++ rewrite F2, Hfpv, last_cons. reflexivity.
             ++ rewrite F3, Hsf. reflexivity.
             ++ eapply dl_frame; [|exact Hd]. intros y Hy. apply F4.
                ** intros ->. apply Hnl. right; exact Hy.
                ** intros ->. contradiction.
        * (* somewhere behind the first child *)
          destruct Href as [E|Hxr]; [congruence|]. destruct (in_split _ _ Hxr) as [r1 [r2 Er]]. subst r.
          pose proof (dl_split_sv _ _ _ _ _ _ Hd) as Hsx.
          destruct (sv_fields _ _ _ _ _ _ _ Hsx) as [_ [_ [_ [Hxpv _]]]].
          assert (Hx1 : ~ In x r1) by (apply NoDup_remove_2 in NDr; intros Hc; apply NDr; apply in_or_app; left; exact Hc).
          assert (Hpin : last r1 f = f /\ r1 = [] \/ In (last r1 f) r1 /\ r1 <> []).
          { destruct r1 as [|e r1]; [left; split; reflexivity|right; split; [apply last_in|]; discriminate]. }
          assert (Hpx : last r1 f <> x).
          { destruct Hpin as [[-> _]|[Hp _]]; [congruence|]. intros E. apply Hx1. rewrite <- E. exact Hp. }
          assert (Hpl : last r1 f < length h).
          { apply Hval. destruct Hpin as [[-> _]|[Hp _]]; [left; reflexivity|right; apply in_or_app; left; exact Hp]. }
          assert (Hpn : new <> last r1 f).
          { intros E. apply Hnl. rewrite E. destruct Hpin as [[-> _]|[Hp _]]; [left; reflexivity|right; apply in_or_app; left; exact Hp]. }
          assert (Hnx : new <> x) by (intros ->; apply Hnl; right; apply in_or_app; right; left; reflexivity).
          destruct (link_insert_middle h this new f x (last r1 f) Ht Hn (Hval f (or_introl eq_refl))
                      (Hval x ltac:(right; apply in_or_app; right; left; reflexivity)) Hpl Hnt Hnx Hpn Hxf Hf Hxpv Hnif) as [F1 [F2 F3]].
          fold h' in F1, F2, F3.
          assert (F3' : forall y, y <> new -> sv h' y =
                    if Nat.eqb y x
                    then set_pv (if Nat.eqb y (last r1 f) then set_nx (sv h y) (Some new) else sv h y) (Some new)
                    else (if Nat.eqb y (last r1 f) then set_nx (sv h y) (Some new) else sv h y))
            by (intros y Hy; exact (F3 y Hy)).
          clear F3. rename F3' into F3.
          assert (EL : insert_before (Some x) new (f :: r1 ++ x :: r2) = f :: r1 ++ new :: x :: r2).
          { cbn [insert_before]. destruct (Nat.eqb_spec f x); [congruence|]. f_equal. apply insert_before_split. exact Hx1. }
          rewrite EL. split; [|split].
          -- intros q _. apply F1.
          -- intros y Hy Hnin. rewrite F3 by exact Hy.
             destruct (Nat.eqb_spec y x) as [->|_]; [exfalso; apply Hnin; right; apply in_or_app; right; left; reflexivity|].
             destruct (Nat.eqb_spec y (last r1 f)) as [->|_]; [|reflexivity].
             exfalso. apply Hnin. destruct Hpin as [[-> _]|[Hp _]]; [left; reflexivity|right; apply in_or_app; left; exact Hp].
          -- cbn [sibs]. split; [rewrite F1; exact Hf|]. split.
             ++ rewrite F3 by (intros E; apply Hnf; symmetry; exact E). rewrite Hsf.
                destruct (Nat.eqb_spec f x); [congruence|].
                destruct Hpin as [[Ep ->]|[Hp Hne]].
                ** cbn [last app hd_error]. rewrite Nat.eqb_refl. reflexivity.
                ** destruct (Nat.eqb_spec f (last r1 f)) as [E|_].
                   { exfalso. apply Hfr. apply in_or_app. left. rewrite E. exact Hp. }
                   rewrite (hd_error_app_ne r1 (x :: r2)) by exact Hne. rewrite (hd_error_app_ne r1 (new :: x :: r2)) by exact Hne.
                   rewrite (last_app_ne r1 (x :: r2)) by discriminate. rewrite (last_app_ne r1 (new :: x :: r2)) by discriminate.
                   rewrite !last_cons. reflexivity.
             ++ eapply dl_insert with (ref := x); [exact Hd|exact ND| | | |].
                ** intros y Hy Hy1 Hy2. rewrite F3 by (intros ->; apply Hnl; right; exact Hy).
                   destruct (Nat.eqb_spec y x); [contradiction|]. destruct (Nat.eqb_spec y (last r1 f)); [contradiction|reflexivity].
                ** intros Hne. rewrite F3 by (intros E; apply Hpn; symmetry; exact E).
                   destruct (Nat.eqb_spec (last r1 f) x); [contradiction|].
                   destruct (Nat.eqb_spec (last r1 f) (last r1 f)) as [_|E]; [reflexivity|contradiction].
                ** rewrite F3 by (intros E; apply Hnx; symmetry; exact E).
                   destruct (Nat.eqb_spec x x) as [_|E]; [|contradiction].
                   destruct (Nat.eqb_spec x (last r1 f)) as [E|_]; [exfalso; apply Hpx; symmetry; exact E|reflexivity].
                ** exact F2.
      + (* append *)
        assert (Hlin : last r f = f /\ r = [] \/ In (last r f) r /\ r <> []).
        { destruct r as [|e r]; [left; split; reflexivity|right; split; [apply last_in|]; discriminate]. }
        assert (Hll : last r f < length h).
        { apply Hval. destruct Hlin as [[-> _]|[Hp _]]; [left; reflexivity|right; exact Hp]. }
        assert (Hnl2 : new <> last r f).
        { intros E. apply Hnl. rewrite E. destruct Hlin as [[-> _]|[Hp _]]; [left; reflexivity|right; exact Hp]. }
        destruct (link_insert_append h this new f (last r f) Ht Hn (Hval f (or_introl eq_refl)) Hll Hnt Hnf Hnl2 Hf Hfpv Hnnx Hnif) as [F1 [F2 F3]].
        fold h' in F1, F2, F3.
        assert (F3' : forall y, y <> new -> sv h' y =
                    if Nat.eqb y f
                    then set_pv (if Nat.eqb y (last r f) then set_nx (sv h y) (Some new) else sv h y) (Some new)
                    else (if Nat.eqb y (last r f) then set_nx (sv h y) (Some new) else sv h y))
          by (intros y Hy; exact (F3 y Hy)).
        clear F3. rename F3' into F3.
        rewrite insert_before_none. cbn [app]. split; [|split].
        * intros q _. apply F1.
        * intros y Hy Hnin. rewrite F3 by exact Hy.
          destruct (Nat.eqb_spec y f) as [->|_]; [exfalso; apply Hnin; left; reflexivity|].
          destruct (Nat.eqb_spec y (last r f)) as [->|_]; [|reflexivity].
          exfalso. apply Hnin. destruct Hlin as [[-> _]|[Hp _]]; [left; reflexivity|right; exact Hp].
        * cbn [sibs]. split; [rewrite F1; exact Hf|]. split.
          -- rewrite F3 by (intros E; apply Hnf; symmetry; exact E). rewrite Hsf.
             destruct (Nat.eqb_spec f f) as [_|E]; [|contradiction].
             destruct Hlin as [[Ep ->]|[Hp Hne]].
             ++ cbn [last app hd_error]. rewrite Nat.eqb_refl. reflexivity.
             ++ destruct (Nat.eqb_spec f (last r f)) as [E|_]; [exfalso; apply Hfr; rewrite E; exact Hp|].
                rewrite (hd_error_app_ne r [new]) by exact Hne. rewrite (last_app_ne r [new]) by discriminate. reflexivity.
          -- eapply dl_snoc; [exact Hd|exact ND| | |exact F2].
             ++ intros y Hy Hy1. rewrite F3 by (intros ->; apply Hnl; right; exact Hy).
                destruct (Nat.eqb_spec y f) as [->|_]; [contradiction|].
                destruct (Nat.eqb_spec y (last r f)); [contradiction|reflexivity].
             ++ intros Hne. rewrite F3 by (intros E; apply Hnl2; symmetry; exact E).
                destruct Hlin as [[_ E]|[Hp _]]; [contradiction|].
                destruct (Nat.eqb_spec (last r f) f) as [E|_]; [exfalso; apply Hfr; rewrite <- E; exact Hp|].
                destruct (Nat.eqb_spec (last r f) (last r f)) as [_|E]; [reflexivity|contradiction]. }
  destruct Core as [C1 [C3 C4]].
  assert (Hmem : forall q x, In x (ks q) -> q <> this -> x <> new /\ ~ In x (ks this)).
  { intros q x Hx Hq. split.
    - intros ->. exact (Hnew_out q Hx).
    - intros Hc. apply Hq. eapply WFsib_disjoint; eauto. }
  pose proof (insert_before_new ref new (ks this)) as Hin_new.
  pose proof (insert_before_old ref new (ks this)) as Hin_old.
  pose proof (insert_before_inv ref new (ks this)) as Hin_inv.
  split.
  - intros q Hq. unfold ks_set. destruct (Nat.eqb_spec q this) as [->|Hne]; [exact C4|].
    apply sibs_frame with (h := h); [apply C1; exact Hne| |apply (s_sibs _ _ W); rewrite <- Hlen; exact Hq].
    intros x Hx. destruct (Hmem q x Hx Hne). apply C3; assumption.
  - intros q c. unfold ks_set. rewrite Hlen. destruct (Nat.eqb_spec q this) as [->|Hne].
    + intros Hc. destruct (Hin_inv c Hc) as [->|Hc']; [split; assumption|apply (s_valid _ _ W); exact Hc'].
    + apply (s_valid _ _ W).
  - intros q. unfold ks_set. destruct (Nat.eqb q this); [|apply (s_nodup _ _ W)].
    apply insert_before_nodup; [exact ND|apply Hnew_out].
  - intros c Hc Hoc. rewrite Hlen in Hc. destruct (Nat.eq_dec c new) as [->|Hne].
    + destruct Hownn as [E1 _]. rewrite E1. unfold ks_set. rewrite Nat.eqb_refl. exact Hin_new.
    + destruct (Hown' c Hne) as [E1 E2]. rewrite E1. rewrite E2 in Hoc.
      pose proof (s_owned _ _ W c Hc Hoc) as Hin'. unfold ks_set.
      destruct (Nat.eqb_spec (n_owner (nd h c)) this) as [E|_]; [|exact Hin'].
      rewrite E in Hin'. apply Hin_old; exact Hin'.
  - intros c Hc Hoc. rewrite Hlen in Hc. destruct (Nat.eq_dec c new) as [->|Hne].
    + destruct Hownn as [_ E2]. congruence.
    + destruct (Hown' c Hne) as [E1 E2]. rewrite E1. rewrite E2 in Hoc.
      rewrite C3; [apply (s_free _ _ W); assumption|exact Hne|].
      intros Hin'. destruct (WFsib_member _ _ _ _ W Hin'). congruence.
Qed.
