(** C13 -- lemmas, part h: link_remove preserves the sibling-chain invariant [WFsib]. *)
From Coq Require Import NArith List Bool Arith Lia.
From XV Require Import Base.XDefs Gen.GenKidOK C13.Ops13 C13.Spec13 C13.Model13 C13.Abs13 C13.Proofs13b C13.Proofs13c
  C13.Proofs13f C13.Proofs13g.
Import ListNotations.

Definition ks_set (ks : id -> list id) (p : id) (l : list id) : id -> list id :=
  fun q => if Nat.eqb q p then l else ks q.

Lemma sv_fields : forall h x o ow nx pv f, sv h x = (o, ow, nx, pv, f) ->
  n_owner (nd h x) = o /\ n_owned (nd h x) = ow /\ n_next (nd h x) = nx /\ n_prev (nd h x) = pv /\ n_isfirst (nd h x) = f.
Proof. unfold sv, svn. intros h x o ow nx pv f [= -> -> -> -> ->]. auto. Qed.

(** ------------------------------------------------------------ consequences of WFsib *)
Lemma sibs_member : forall h p cs x, sibs h p cs -> In x cs -> n_owner (nd h x) = p /\ n_owned (nd h x) = true.
Proof.
  intros h p cs x H Hx. destruct cs as [|f r]; [contradiction|]. destruct H as [_ [Hf Hd]].
  destruct Hx as [<-|Hx].
  - destruct (sv_fields _ _ _ _ _ _ _ Hf) as [? [? _]]. auto.
  - destruct (dl_sv _ _ _ _ _ Hd Hx) as [nx [pv E]]. destruct (sv_fields _ _ _ _ _ _ _ E) as [? [? _]]. auto.
Qed.

Lemma WFsib_member : forall h ks p x, WFsib h ks -> In x (ks p) -> n_owner (nd h x) = p /\ n_owned (nd h x) = true.
Proof.
  intros h ks p x W Hx. destruct (s_valid _ _ W _ _ Hx) as [_ Hp]. eapply sibs_member; [apply (s_sibs _ _ W p Hp)|exact Hx].
Qed.

Lemma WFsib_disjoint : forall h ks p q x, WFsib h ks -> In x (ks p) -> In x (ks q) -> p = q.
Proof.
  intros h ks p q x W H1 H2. destruct (WFsib_member _ _ _ _ W H1). destruct (WFsib_member _ _ _ _ W H2). congruence.
Qed.

Lemma sibs_frame : forall h h' p cs, fv h' p = fv h p -> (forall x, In x cs -> sv h' x = sv h x) -> sibs h p cs -> sibs h' p cs.
Proof.
  intros h h' p cs Hf Hs H. destruct cs as [|f r]; cbn [sibs] in *; [congruence|].
  destruct H as [H1 [H2 H3]]. split; [congruence|]. split.
  - rewrite Hs by (left; reflexivity). exact H2.
  - eapply dl_frame; [|exact H3]. intros x Hx. apply Hs. right; exact Hx.
Qed.

Lemma dl_split_sv : forall h p x r2 r1 c, dl h p c (r1 ++ x :: r2) -> sv h x = (p, true, hd_error r2, Some (last r1 c), false).
Proof.
  induction r1 as [|d r1 IH]; intros c H.
  - destruct H as [H _]. exact H.
  - destruct H as [_ H]. rewrite last_cons. apply IH. exact H.
Qed.

(** ------------------------------------------------------------ lists of the Spec *)
Lemma remove_id_head : forall c l, remove_id c (c :: l) = l.
Proof. intros. cbn. rewrite Nat.eqb_refl. reflexivity. Qed.
Lemma remove_id_split : forall c r1 r2, ~ In c r1 -> remove_id c (r1 ++ c :: r2) = r1 ++ r2.
Proof.
  induction r1 as [|x r1 IH]; intros r2 H; cbn [app].
  - apply remove_id_head.
  - cbn [remove_id]. destruct (Nat.eqb_spec x c) as [->|Hn]; [exfalso; apply H; left; reflexivity|].
    f_equal. apply IH. intros Hc. apply H. right; exact Hc.
Qed.
Lemma remove_id_in : forall c x l, In x (remove_id c l) -> In x l.
Proof.
  induction l as [|y l IH]; cbn; [auto|]. destruct (Nat.eqb y c); [auto|]. intros [->|H]; auto.
Qed.
Lemma remove_id_keeps : forall c x l, x <> c -> In x l -> In x (remove_id c l).
Proof.
  induction l as [|y l IH]; intros Hn H; [contradiction|]. cbn. destruct (Nat.eqb_spec y c) as [->|Hy].
  - destruct H as [->|H]; [contradiction|exact H].
  - destruct H as [->|H]; [left; reflexivity|right; apply IH; assumption].
Qed.
Lemma remove_id_nodup : forall c l, NoDup l -> NoDup (remove_id c l).
Proof.
  induction l as [|y l IH]; intros H; [constructor|]. inversion H as [|? ? Hn Hl]. cbn. destruct (Nat.eqb y c); [exact Hl|].
  constructor; [|apply IH; exact Hl]. intros Hc. apply Hn. eapply remove_id_in; exact Hc.
Qed.

(** ------------------------------------------------------------ link_remove *)
Lemma own_of_uv : forall h h' x, uv h' x = uv h x -> n_owner (nd h' x) = n_owner (nd h x) /\ n_owned (nd h' x) = n_owned (nd h x).
Proof. intros h h' x. unfold uv, upf. intros [= _ -> -> _]. auto. Qed.

Lemma WFsib_link_remove : forall h ks this old,
  WFsib h ks -> this < length h -> old < length h ->
  n_owned (nd h old) = true -> n_owner (nd h old) = this ->
  WFsib (link_remove h this old) (ks_set ks this (remove_id old (ks this))).
Proof.
  intros h ks this old W Ht Ho Hown Howner.
  set (h' := link_remove h this old).
  assert (Hin : In old (ks this)) by (rewrite <- Howner; apply (s_owned _ _ W); assumption).
  pose proof (s_sibs _ _ W this Ht) as Hs. pose proof (s_nodup _ _ W this) as ND.
  assert (Hlen : length h' = length h) by apply length_link_remove.
  (* ownership of the other nodes is untouched *)
  assert (Hown' : forall x, x <> old -> n_owner (nd h' x) = n_owner (nd h x) /\ n_owned (nd h' x) = n_owned (nd h x)).
  { intros x Hx. apply own_of_uv. unfold h'. rewrite uv_link_remove. destruct (Nat.eqb_spec x old); [contradiction|reflexivity]. }
  (* the three facts that depend on the case *)
  assert (Core : (forall q, q <> this -> fv h' q = fv h q) /\ sv h' old = cleared (n_odoc (nd h this)) /\
                 (forall x, x <> old -> ~ In x (ks this) -> sv h' x = sv h x) /\
                 sibs h' this (remove_id old (ks this))).
  { destruct (ks this) as [|f r] eqn:Ek; [contradiction|]. destruct Hs as [Hf [Hsf Hd]].
    assert (Hval : forall x, In x (f :: r) -> x < length h) by (intros x Hx; apply (s_valid _ _ W this x); rewrite Ek; exact Hx).
    destruct (Nat.eq_dec f old) as [->|Hfo].
    - (* removing the first child *)
      destruct (sv_fields _ _ _ _ _ _ _ Hsf) as [_ [_ [Hnx [Hpv _]]]].
      destruct (link_remove_first h this old Ht Ho Hf) as [F1 [F2 [F3 F4]]].
      { intros d Hd'. rewrite Hnx in Hd'. destruct r as [|d' r']; [discriminate|]. injection Hd' as ->.
        split; [apply Hval; right; left; reflexivity|]. inversion ND as [|? ? Hn _]. intros ->. apply Hn. left; reflexivity. }
      fold h' in F1, F2, F3, F4. rewrite remove_id_head. repeat split.
      + intros q Hq. rewrite F1. destruct (Nat.eqb_spec q this); [contradiction|reflexivity].
      + exact F2.
      + intros x Hx Hnin. apply F4; [exact Hx|]. rewrite Hnx. intros E. apply Hnin. right.
        destruct r as [|d r']; [discriminate|]. injection E as ->. left; reflexivity.
      + destruct r as [|d r']; cbn [sibs].
        * rewrite F1, Nat.eqb_refl, Hnx. reflexivity.
        * destruct Hd as [Hd1 Hd2]. split; [rewrite F1, Nat.eqb_refl, Hnx; reflexivity|]. split.
          -- rewrite (F3 d) by (rewrite Hnx; reflexivity). rewrite Hd1, Hpv. rewrite last_cons. reflexivity.
          -- eapply dl_frame; [|exact Hd2]. intros x Hx. inversion ND as [|? ? Hn1 ND1]. inversion ND1 as [|? ? Hn2 _]. apply F4.
             ++ intros ->. apply Hn1. right; exact Hx.
             ++ rewrite Hnx. cbn. intros [= ->]. contradiction.
    - (* removing an inner or the last child *)
      destruct Hin as [|Hin]; [contradiction|]. destruct (in_split _ _ Hin) as [r1 [r2 Er]]. subst r.
      pose proof (dl_split_sv _ _ _ _ _ _ Hd) as Hso.
      destruct (sv_fields _ _ _ _ _ _ _ Hso) as [_ [_ [Hnx [Hpv Hif]]]].
      assert (NDf : NoDup (f :: r1 ++ old :: r2)) by exact ND.
      assert (Hfr : ~ In f (r1 ++ old :: r2)) by (inversion NDf; assumption).
      assert (NDr : NoDup (r1 ++ old :: r2)) by (inversion NDf; assumption).
      assert (Hor : ~ In old (r1 ++ r2)) by (apply NoDup_remove_2; exact NDr).
      assert (NDr' : NoDup (r1 ++ r2)) by (apply NoDup_remove_1 with (a := old); exact NDr).
      assert (Hfr' : ~ In f (r1 ++ r2)).
      { intros Hc. apply Hfr. apply in_app_or in Hc. apply in_or_app. destruct Hc; [left|right; right]; assumption. }
      assert (Hpin : last r1 f = f /\ r1 = [] \/ In (last r1 f) r1 /\ r1 <> []).
      { destruct r1 as [|e r1]; [left; split; reflexivity|right; split; [apply last_in|]; discriminate]. }
      assert (Hpo : last r1 f <> old).
      { destruct Hpin as [[-> _]|[Hp _]]; [exact Hfo|]. intros E. apply Hor. rewrite <- E. apply in_or_app. left; exact Hp. }
      assert (Hpl : last r1 f < length h).
      { apply Hval. destruct Hpin as [[-> _]|[Hp _]]; [left; reflexivity|right; apply in_or_app; left; exact Hp]. }
      assert (Hdf : forall d, hd_error r2 = Some d -> d < length h /\ d <> old /\ d <> last r1 f /\ d <> f /\ In d (r1 ++ r2)).
      { intros d Hd'. destruct r2 as [|d' r2']; [discriminate|]. injection Hd' as ->.
        assert (Hdin : In d (r1 ++ d :: r2')) by (apply in_or_app; right; left; reflexivity).
        split; [apply Hval; right; apply in_or_app; right; right; left; reflexivity|].
        split; [intros ->; apply Hor; exact Hdin|].
        split; [|split; [intros ->; apply Hfr'; exact Hdin|exact Hdin]].
        intros E. destruct Hpin as [[Hp _]|[Hp _]].
        - apply Hfr'. rewrite <- Hp, <- E. exact Hdin.
        - rewrite <- E in Hp. apply NoDup_remove_2 in NDr'. apply NDr'. apply in_or_app. left; exact Hp. }
      destruct (link_remove_inner h this old f (last r1 f) Ht Ho (Hval f (or_introl eq_refl)) Hpl Hf Hfo Hpv Hpo Hif) as [F1 [F2 F3]].
      { intros d Hd'. rewrite Hnx in Hd'. destruct (Hdf d Hd') as [A [B [C _]]]. auto. }
      fold h' in F1, F2, F3.
      assert (Erm : remove_id old (f :: r1 ++ old :: r2) = f :: r1 ++ r2).
      { cbn [remove_id]. destruct (Nat.eqb_spec f old); [contradiction|]. f_equal. apply remove_id_split.
        intros Hc. apply Hor. apply in_or_app. left; exact Hc. }
      rewrite Erm. rewrite Hnx in F3.
      set (tgt := match hd_error r2 with Some d => d | None => f end).
      assert (F3' : forall x, x <> old -> sv h' x =
                    if Nat.eqb x tgt
                    then set_pv (if Nat.eqb x (last r1 f) then set_nx (sv h x) (hd_error r2) else sv h x) (Some (last r1 f))
                    else (if Nat.eqb x (last r1 f) then set_nx (sv h x) (hd_error r2) else sv h x))
        by (intros x Hx; exact (F3 x Hx)).
      clear F3. rename F3' into F3.
      assert (Htgt : tgt = f /\ r2 = [] \/ exists d r2', r2 = d :: r2' /\ tgt = d).
      { subst tgt. destruct r2 as [|d r2']; [left; split; reflexivity|right; eauto]. }
      assert (Hpt : r1 <> [] -> last r1 f <> tgt).
      { intros Hne. destruct Hpin as [[_ E]|[Hp _]]; [contradiction|].
        destruct Htgt as [[-> _]|[d [r2' [E ->]]]].
        - intros E. apply Hfr'. rewrite <- E. apply in_or_app. left; exact Hp.
        - destruct (Hdf d ltac:(rewrite E; reflexivity)) as [_ [_ [C _]]]. auto. }
      split; [|split; [|split]].
      + intros q _. apply F1.
      + exact F2.
      + intros x Hx Hnin. rewrite F3 by exact Hx.
        destruct (Nat.eqb_spec x (last r1 f)) as [->|_].
        { exfalso. apply Hnin. destruct Hpin as [[-> _]|[Hp _]]; [left; reflexivity|right; apply in_or_app; left; exact Hp]. }
        destruct (Nat.eqb_spec x tgt) as [->|_]; [|reflexivity].
        exfalso. apply Hnin. destruct Htgt as [[-> _]|[d [r2' [-> ->]]]]; [left; reflexivity|].
        right. apply in_or_app. right. right. left. reflexivity.
      + cbn [sibs]. split; [rewrite F1; exact Hf|]. split.
        * rewrite F3 by exact Hfo. rewrite Hsf.
          destruct Hpin as [[Ep ->]|[Hp Hne]].
          -- cbn [last app hd_error] in *. rewrite Nat.eqb_refl. cbn [set_nx].
             destruct Htgt as [[-> ->]|[d [r2' [-> ->]]]].
             ++ rewrite Nat.eqb_refl. reflexivity.
             ++ destruct (Nat.eqb_spec f d) as [->|_]; [exfalso; apply Hfr'; left; reflexivity|].
                rewrite !last_cons. reflexivity.
          -- destruct (Nat.eqb_spec f (last r1 f)) as [E|_].
             { exfalso. apply Hfr'. rewrite E. apply in_or_app. left; exact Hp. }
             assert (Eh : forall (a b : list nat), a <> [] -> hd_error (a ++ b) = hd_error a) by (intros [|? ?] ? ?; [contradiction|reflexivity]).
             rewrite (Eh r1 (old :: r2)) by exact Hne. rewrite (Eh r1 r2) by exact Hne.
             destruct Htgt as [[-> ->]|[d [r2' [-> ->]]]].
             ++ rewrite Nat.eqb_refl. cbn [set_pv]. rewrite !app_nil_r. reflexivity.
             ++ destruct (Nat.eqb_spec f d) as [->|_].
                { exfalso. apply Hfr'. apply in_or_app. right. left. reflexivity. }
                rewrite (last_app_ne r1 (old :: d :: r2')) by discriminate.
                rewrite (last_app_ne r1 (d :: r2')) by discriminate. rewrite !last_cons. reflexivity.
        * eapply dl_remove with (old := old); [exact Hd|exact NDf| | |].
          -- intros x Hx Hx1 Hx2. rewrite F3 by (intros ->; contradiction).
             destruct (Nat.eqb_spec x (last r1 f)); [contradiction|].
             destruct (Nat.eqb_spec x tgt) as [->|_]; [|reflexivity]. exfalso.
             destruct Htgt as [[E ->]|[d [r2' [-> E]]]].
             ++ apply Hfr'. rewrite <- E. exact Hx.
             ++ apply Hx2. rewrite E. reflexivity.
          -- intros Hne. rewrite F3 by exact Hpo.
             destruct (Nat.eqb_spec (last r1 f) tgt) as [E|_]; [exfalso; exact (Hpt Hne E)|].
             destruct (Nat.eqb_spec (last r1 f) (last r1 f)) as [_|E]; [reflexivity|contradiction].
          -- intros d Hd'. destruct (Hdf d Hd') as [_ [B [C _]]]. rewrite F3 by exact B.
             destruct (Nat.eqb_spec d (last r1 f)); [contradiction|].
             assert (Et : tgt = d) by (subst tgt; rewrite Hd'; reflexivity). rewrite Et, Nat.eqb_refl. reflexivity. }
  destruct Core as [C1 [C2 [C3 C4]]].
  assert (Hmem : forall q x, In x (ks q) -> q <> this -> x <> old /\ ~ In x (ks this)).
  { intros q x Hx Hq. split.
    - intros ->. apply Hq. eapply WFsib_disjoint; eauto.
    - intros Hc. apply Hq. eapply WFsib_disjoint; eauto. }
  split.
  - intros q Hq. unfold ks_set. destruct (Nat.eqb_spec q this) as [->|Hne]; [exact C4|].
    apply sibs_frame with (h := h); [apply C1; exact Hne| |apply (s_sibs _ _ W); rewrite <- Hlen; exact Hq].
    intros x Hx. destruct (Hmem q x Hx Hne). apply C3; assumption.
  - intros q c. unfold ks_set. rewrite Hlen. destruct (Nat.eqb_spec q this) as [->|Hne].
    + intros Hc. apply (s_valid _ _ W). eapply remove_id_in; exact Hc.
    + apply (s_valid _ _ W).
  - intros q. unfold ks_set. destruct (Nat.eqb q this); [apply remove_id_nodup|]; apply (s_nodup _ _ W).
  - intros c Hc Hoc. rewrite Hlen in Hc. destruct (Nat.eq_dec c old) as [->|Hne].
    + exfalso. unfold sv, svn, cleared in C2. congruence.
    + destruct (Hown' c Hne) as [E1 E2]. rewrite E1. rewrite E2 in Hoc.
      pose proof (s_owned _ _ W c Hc Hoc) as Hin'. unfold ks_set.
      destruct (Nat.eqb_spec (n_owner (nd h c)) this) as [E|_]; [|exact Hin'].
      rewrite E in Hin'. apply remove_id_keeps; assumption.
  - intros c Hc Hoc. rewrite Hlen in Hc. destruct (Nat.eq_dec c old) as [->|Hne].
    + rewrite C2. unfold sv, svn, cleared in C2. unfold cleared. congruence.
    + destruct (Hown' c Hne) as [E1 E2]. rewrite E1. rewrite E2 in Hoc.
      rewrite C3; [apply (s_free _ _ W); assumption|exact Hne|].
      intros Hin'. destruct (WFsib_member _ _ _ _ W Hin'). congruence.
Qed.
