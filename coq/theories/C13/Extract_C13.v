(** Extraction of the executable C13 model (heap + operations) and of the reference DOM (Spec13) used as oracle.
    Only ExtrOcamlBasic is used: N/positive/nat stay the extracted inductive types.
    The path is relative to the directory coqc runs in (coq/). *)
From Coq Require Import Extraction ExtrOcamlBasic NArith.
From XV Require Import C13.Ops13 C13.Spec13 C13.Model13 C13.Abs13 C13.AttrMap13.
Extraction Language OCaml.
Extraction "../ocaml/C13/gen_c13.ml"
  init_heap step_cfg step run_cfg cfg_fixed cfg_found nd parent first_child last_child next_sib prev_sib pub_odoc kids
  exc_code tcode kid_ok valid_name N.add N.mul attr_value a_value get_user_data u_get s_by_id_ok id_find amap_find
  sinit sstep srun abs
  valid svalid name_point s_name_point amap_find_bis amap_put_bis.
