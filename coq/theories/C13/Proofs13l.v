(** C13 -- lemmas, part l: user data (a fresh node has none; setUserData / getUserData laws and frame) and the ID map
    (remove works by attribute identity). *)
From Coq Require Import NArith List Bool Arith Lia.
From XV Require Import Base.XDefs Gen.GenKidOK C13.Ops13 C13.Spec13 C13.Model13 C13.Abs13 C13.Proofs13b C13.Proofs13c C13.Proofs13g.
Import ListNotations.

Lemma nd_alloc_new : forall h x, nd (h ++ [x]) (length h) = x.
Proof. intros. unfold nd. apply nth_middle. Qed.

(** every createX returns a node without user data, whatever was released before *)
Lemma create_no_user_data : forall h d t nm v h' i key, create h d t nm v = (h', RNode i) ->
  n_udata (nd h' i) = [] /\ snd (get_user_data h' i key) = RData 0.
Proof.
  intros h d t nm v h' i key. unfold create, alloc, fresh, get_user_data.
  destruct (n_ty (nd h d)); try discriminate.
  destruct t; try discriminate; try (destruct (valid_name nm); [|discriminate]);
    intros [= <- <-]; rewrite nd_alloc_new; cbn; auto.
Qed.

Lemma str_cmp_refl : forall a, str_cmp a a = Eq.
Proof. induction a as [|x a IH]; cbn; [reflexivity|]. rewrite N.compare_refl. exact IH. Qed.
Lemma str_eqb_refl : forall a, str_eqb a a = true.
Proof. intros. unfold str_eqb. rewrite str_cmp_refl. reflexivity. Qed.

Lemma ud_get_del_other : forall l k k', (forall j, str_eqb j k = true -> str_eqb j k' = false) ->
  ud_get (ud_del l k) k' = ud_get l k'.
Proof.
  induction l as [|[j v] l IH]; intros k k' H; cbn; [reflexivity|].
  destruct (str_eqb j k) eqn:Ej; cbn.
  - rewrite (H j Ej). apply IH. exact H.
  - destruct (str_eqb j k'); [reflexivity|apply IH; exact H].
Qed.

(** setUserData(key, data) then getUserData(key) returns data; the other keys of the node and all other nodes keep theirs *)
Lemma set_get_user_data : forall h n key data hd, n < length h -> data <> 0%N ->
  snd (get_user_data (fst (set_user_data h n key data hd)) n key) = RData data.
Proof.
  intros h n key data hd Hn Hd. unfold set_user_data, get_user_data.
  destruct (N.eqb_spec data 0); [contradiction|]. cbn [andb fst snd].
  rewrite !nd_upd_eq by (rewrite ?length_upd; assumption). cbn. rewrite str_eqb_refl. reflexivity.
Qed.

Lemma set_user_data_frame : forall h n key data hd m, m <> n ->
  n_udata (nd (fst (set_user_data h n key data hd)) m) = n_udata (nd h m) /\
  n_hasud (nd (fst (set_user_data h n key data hd)) m) = n_hasud (nd h m).
Proof.
  intros h n key data hd m Hm. unfold set_user_data.
  destruct (_ && _); [auto|]. destruct (N.eqb data 0); cbn [fst]; rewrite !nd_upd_ne by congruence; auto.
Qed.

(** ------------------------------------------------------------ the ID map *)
Lemma tab_get_set : forall t k v j, tab_get (tab_set t k v) j = if Nat.eqb k j then Some v else tab_get t j.
Proof.
  intros t k v j. unfold tab_set. cbn [tab_get]. destruct (Nat.eqb_spec k j) as [->|Hn]; [reflexivity|].
  induction t as [|[i w] t IH]; cbn; [reflexivity|].
  destruct (Nat.eqb_spec i k) as [->|Hi]; cbn.
  - destruct (Nat.eqb_spec k j); [contradiction|exact IH].
  - destruct (Nat.eqb i j); [reflexivity|exact IH].
Qed.

Lemma id_probe_attr_sound : forall t h0 a fuel cur k, id_probe_attr t h0 a fuel cur = Some k -> tab_get t k = Some (Some a).
Proof.
  induction fuel as [|fuel IH]; intros cur k; cbn; [discriminate|].
  destruct (tab_get t cur) as [[b|]|] eqn:E; try discriminate.
  - destruct (Nat.eqb_spec b a) as [->|_]; [intros [= <-]; exact E|apply IH].
  - apply IH.
Qed.

(** remove(attr) marks the slot that holds THIS attribute and no other: an entry of another attribute with the same
    value stays where it is *)
Lemma id_remove_identity : forall h a k, n_odoc (nd h a) < length h ->
  let d := n_odoc (nd h a) in
  tab_get (n_idtab (nd (id_remove h a) d)) k = tab_get (n_idtab (nd h d)) k \/
  (tab_get (n_idtab (nd h d)) k = Some (Some a) /\ tab_get (n_idtab (nd (id_remove h a) d)) k = Some None).
Proof.
  intros h a k Hd. cbv zeta. unfold id_remove.
  destruct (id_probe_attr _ _ _ _ _) as [k0|] eqn:E; [|left; reflexivity].
  apply id_probe_attr_sound in E. rewrite nd_upd_eq by assumption.
  change (n_idtab (set_idtab ?x ?y)) with x. unfold set_idtab; cbn [n_idtab]. rewrite tab_get_set.
  destruct (Nat.eqb_spec k0 k) as [->|_]; [right; split; [exact E|reflexivity]|left; reflexivity].
Qed.
