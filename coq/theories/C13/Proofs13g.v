(** C13 -- lemmas, part g: what link_remove / link_insert do to the sibling view of every node. *)
From Coq Require Import NArith List Bool Arith Lia.
From XV Require Import Base.XDefs Gen.GenKidOK C13.Ops13 C13.Spec13 C13.Model13 C13.Abs13 C13.Proofs13b C13.Proofs13c C13.Proofs13f.
Import ListNotations.

Lemma nd_upd_if : forall h i f j, i < length h -> nd (upd h i f) j = if Nat.eqb i j then f (nd h j) else nd h j.
Proof.
  intros h i f j H. destruct (Nat.eqb_spec i j) as [->|Hn]; [apply nd_upd_eq; assumption|apply nd_upd_ne; assumption].
Qed.

Ltac nds := repeat (rewrite nd_upd_if by (rewrite ?length_upd; assumption)).
Ltac eqs := repeat match goal with
  | |- context [Nat.eqb ?a ?b] => destruct (Nat.eqb_spec a b); subst
  end.
Definition cleared (d : id) : sview := (d, false, None, None, false).

Ltac fin := unfold sv, svn, fv, set_nx, set_pv, cleared in *; cbn;
  repeat match goal with |- context [nd ?h ?j] => destruct (nd h j) eqn:?; cbn in * end;
  try congruence; try reflexivity; try (exfalso; congruence);
  try match goal with H : ?a <> ?a |- _ => exfalso; apply H; reflexivity end.

(** ------------------------------------------------------------ link_remove *)
Lemma link_remove_first : forall h this old,
  this < length h -> old < length h -> n_first (nd h this) = Some old ->
  (forall d, n_next (nd h old) = Some d -> d < length h /\ d <> old) ->
  let h' := link_remove h this old in
  (forall x, fv h' x = if Nat.eqb x this then n_next (nd h old) else fv h x) /\
  sv h' old = cleared (n_odoc (nd h this)) /\
  (forall d, n_next (nd h old) = Some d ->
     sv h' d = (let '(o, ow, nx, _, _) := sv h d in (o, ow, nx, n_prev (nd h old), true))) /\
  (forall x, x <> old -> Some x <> n_next (nd h old) -> sv h' x = sv h x).
Proof.
  intros h this old Ht Ho Hf Hd. cbv zeta. unfold link_remove. rewrite Hf. cbn [oid_eqb]. rewrite Nat.eqb_refl.
  destruct (n_next (nd h old)) as [d|] eqn:En.
  - destruct (Hd d eq_refl) as [Hdl Hdo].
    repeat split.
    + intros x. unfold fv. nds. eqs; fin.
    + unfold sv. nds. eqs; try congruence; fin.
    + intros d' [= <-]. unfold sv. nds. eqs; try congruence; fin.
    + intros x Hx Hx2. unfold sv. nds. eqs; try congruence; fin.
  - repeat split.
    + intros x. unfold fv. nds. eqs; fin.
    + unfold sv. nds. eqs; try congruence; fin.
    + intros d' [=].
    + intros x Hx Hx2. unfold sv. nds. eqs; try congruence; fin.
Qed.

Lemma link_remove_inner : forall h this old f pv,
  this < length h -> old < length h -> f < length h -> pv < length h ->
  n_first (nd h this) = Some f -> f <> old -> n_prev (nd h old) = Some pv -> pv <> old -> n_isfirst (nd h old) = false ->
  (forall d, n_next (nd h old) = Some d -> d < length h /\ d <> old /\ d <> pv) ->
  let h' := link_remove h this old in
  let tgt := match n_next (nd h old) with Some d => d | None => f end in
  (forall x, fv h' x = fv h x) /\
  sv h' old = cleared (n_odoc (nd h this)) /\
  (forall x, x <> old -> sv h' x =
     (let s1 := if Nat.eqb x pv then set_nx (sv h x) (n_next (nd h old)) else sv h x in
      if Nat.eqb x tgt then set_pv s1 (Some pv) else s1)).
Proof.
  intros h this old f pv Ht Ho Hfl Hpl Hf Hfo Hp Hpo Hif Hd. cbv zeta. unfold link_remove. rewrite Hf, Hp. cbn [oid_eqb].
  destruct (Nat.eqb_spec f old) as [E|_]; [contradiction|].
  destruct (n_next (nd h old)) as [d|] eqn:En.
  - destruct (Hd d eq_refl) as [Hdl [Hdo Hdp]]. repeat split.
    + intros x. unfold fv. nds. eqs; fin.
    + unfold sv. nds. eqs; try congruence; fin.
    + intros x Hx. unfold sv. nds. eqs; try congruence; fin.
  - assert (Hf' : n_first (nd (upd h pv (set_next None)) this) = Some f).
    { nds. eqs; fin. }
    rewrite Hf'. repeat split.
    + intros x. unfold fv. nds. eqs; fin.
    + unfold sv. nds. eqs; try congruence; fin.
    + intros x Hx. unfold sv. nds. eqs; try congruence; fin.
Qed.

(** ------------------------------------------------------------ link_insert *)
Lemma link_insert_empty : forall h this new ref,
  this < length h -> new < length h -> new <> this -> n_first (nd h this) = None ->
  n_next (nd h new) = None ->
  let h' := link_insert h this new ref in
  (forall x, fv h' x = if Nat.eqb x this then Some new else fv h x) /\
  sv h' new = (this, true, None, Some new, true) /\
  (forall x, x <> new -> sv h' x = sv h x).
Proof.
  intros h this new ref Ht Hn Hne Hf Hnx. cbv zeta. unfold link_insert.
  assert (E : n_first (nd (upd (upd h new (set_owner this)) new (set_owned true)) this) = None).
  { nds. eqs; fin. }
  rewrite E. repeat split.
  - intros x. unfold fv. nds. eqs; fin.
  - unfold sv. nds. eqs; try congruence; fin.
  - intros x Hx. unfold sv. nds. eqs; try congruence; fin.
Qed.

Lemma link_insert_append : forall h this new f l,
  this < length h -> new < length h -> f < length h -> l < length h -> new <> this -> new <> f -> new <> l ->
  n_first (nd h this) = Some f -> n_prev (nd h f) = Some l ->
  n_next (nd h new) = None -> n_isfirst (nd h new) = false ->
  let h' := link_insert h this new None in
  (forall x, fv h' x = fv h x) /\
  sv h' new = (this, true, None, Some l, false) /\
  (forall x, x <> new -> sv h' x =
     (let s1 := if Nat.eqb x l then set_nx (sv h x) (Some new) else sv h x in
      if Nat.eqb x f then set_pv s1 (Some new) else s1)).
Proof.
  intros h this new f l Ht Hn Hfl Hll Hne Hnf Hnl Hf Hp Hnx Hif. cbv zeta. unfold link_insert.
  assert (E : n_first (nd (upd (upd h new (set_owner this)) new (set_owned true)) this) = Some f).
  { nds. eqs; fin. }
  rewrite E.
  assert (E2 : n_prev (nd (upd (upd h new (set_owner this)) new (set_owned true)) f) = Some l).
  { nds. eqs; fin. }
  rewrite E2. repeat split.
  - intros x. unfold fv. nds. eqs; fin.
  - unfold sv. nds. eqs; try congruence; fin.
  - intros x Hx. unfold sv. nds. eqs; try congruence; fin.
Qed.

Lemma link_insert_head : forall h this new f,
  this < length h -> new < length h -> f < length h -> new <> this -> new <> f ->
  n_first (nd h this) = Some f ->
  let h' := link_insert h this new (Some f) in
  (forall x, fv h' x = if Nat.eqb x this then Some new else fv h x) /\
  sv h' new = (this, true, Some f, n_prev (nd h f), true) /\
  sv h' f = (let '(o, ow, nx, _, _) := sv h f in (o, ow, nx, Some new, false)) /\
  (forall x, x <> new -> x <> f -> sv h' x = sv h x).
Proof.
  intros h this new f Ht Hn Hfl Hne Hnf Hf. cbv zeta. unfold link_insert.
  assert (E : n_first (nd (upd (upd h new (set_owner this)) new (set_owned true)) this) = Some f).
  { nds. eqs; fin. }
  rewrite E, Nat.eqb_refl. repeat split.
  - intros x. unfold fv. nds. eqs; fin.
  - unfold sv. nds. eqs; try congruence; fin.
  - unfold sv. nds. eqs; try congruence; fin.
  - intros x Hx Hx2. unfold sv. nds. eqs; try congruence; fin.
Qed.

Lemma link_insert_middle : forall h this new f r pv,
  this < length h -> new < length h -> f < length h -> r < length h -> pv < length h ->
  new <> this -> new <> r -> new <> pv -> r <> f ->
  n_first (nd h this) = Some f -> n_prev (nd h r) = Some pv -> n_isfirst (nd h new) = false ->
  let h' := link_insert h this new (Some r) in
  (forall x, fv h' x = fv h x) /\
  sv h' new = (this, true, Some r, Some pv, false) /\
  (forall x, x <> new -> sv h' x =
     (let s1 := if Nat.eqb x pv then set_nx (sv h x) (Some new) else sv h x in
      if Nat.eqb x r then set_pv s1 (Some new) else s1)).
Proof.
  intros h this new f r pv Ht Hn Hfl Hrl Hpl Hne Hnr Hnp Hrf Hf Hp Hif. cbv zeta. unfold link_insert.
  assert (E : n_first (nd (upd (upd h new (set_owner this)) new (set_owned true)) this) = Some f).
  { nds. eqs; fin. }
  rewrite E. destruct (Nat.eqb_spec r f) as [|_]; [contradiction|].
  assert (E2 : n_prev (nd (upd (upd h new (set_owner this)) new (set_owned true)) r) = Some pv).
  { nds. eqs; fin. }
  rewrite E2. repeat split.
  - intros x. unfold fv. nds. eqs; fin.
  - unfold sv. nds. eqs; try congruence; fin.
  - intros x Hx. unfold sv. nds. eqs; try congruence; fin.
Qed.
