(** C13 -- the vocabulary shared by the reference DOM (Spec13.v) and the model of the implementation
    (Model13.v): node identities, strings, node types, DOMException codes, results and the operation type. *)
From Coq Require Import NArith List Bool Arith.
Import ListNotations.

Definition id := nat.
Definition str := list N.

Inductive ntype := TElem | TText | TCData | TERef | TPI | TComment | TDoc | TFrag.

Definition ntype_eqb (a b : ntype) : bool :=
  match a, b with
  | TElem, TElem | TText, TText | TCData, TCData | TERef, TERef | TPI, TPI | TComment, TComment
  | TDoc, TDoc | TFrag, TFrag => true
  | _, _ => false
  end.

(** leaf node types: fNode.setIsLeafNode(true) in their constructors; no DOMParentNode member *)
Definition is_leaf (t : ntype) : bool :=
  match t with TText | TCData | TPI | TComment => true | _ => false end.
(** classes implementing DOMCharacterData *)
Definition is_chardata (t : ntype) : bool :=
  match t with TText | TCData | TComment => true | _ => false end.

(** DOMException codes that the modelled operations raise; E_INTERNAL marks exhausted fuel (never reached) *)
Inductive exc := INDEX_SIZE | HIERARCHY | WRONG_DOC | INVALID_CHAR | NO_MOD | NOT_FOUND | E_INTERNAL.
Inductive result := ROk | RNode (i : id) | RStr (s : str) | RErr (e : exc) | RSkip.
Definition is_err (r : result) : bool := match r with RErr _ => true | _ => false end.

Definition is_space (c : N) : bool := N.eqb c 32 || N.eqb c 9 || N.eqb c 10 || N.eqb c 13.
(** a non-empty string of white space *)
Definition all_spaces (s : str) : bool := match s with [] => false | _ => forallb is_space s end.
(** XMLChar1_0::isValidName restricted to the 7-bit range (the generators only produce 7-bit names) *)
Definition name_start (c : N) : bool :=
  (N.leb 65 c && N.leb c 90) || (N.leb 97 c && N.leb c 122) || N.eqb c 95 || N.eqb c 58.
Definition name_char (c : N) : bool :=
  name_start c || (N.leb 48 c && N.leb c 57) || N.eqb c 45 || N.eqb c 46.
Definition valid_name (s : str) : bool :=
  match s with [] => false | c :: r => name_start c && forallb name_char r end.

(** attribute maps: association lists kept sorted by name (canonical form of a finite map) *)
Fixpoint str_cmp (a b : str) : comparison :=
  match a, b with
  | [], [] => Eq | [], _ => Lt | _, [] => Gt
  | x :: a', y :: b' => match N.compare x y with Eq => str_cmp a' b' | c => c end
  end.
Definition str_eqb (a b : str) : bool := match str_cmp a b with Eq => true | _ => false end.
(** setNamedItem: replace when findNamePoint finds the name, else insert at the insertion point *)
Fixpoint attr_set (l : list (str * str)) (nm v : str) : list (str * str) :=
  match l with
  | [] => [(nm, v)]
  | (k, w) :: r => match str_cmp nm k with
                   | Eq => (k, v) :: r
                   | Lt => (nm, v) :: l
                   | Gt => (k, w) :: attr_set r nm v
                   end
  end.
Fixpoint attr_remove (l : list (str * str)) (nm : str) : list (str * str) :=
  match l with [] => [] | (k, w) :: r => if str_eqb nm k then r else (k, w) :: attr_remove r nm end.
Fixpoint attr_get (l : list (str * str)) (nm : str) : option str :=
  match l with [] => None | (k, w) :: r => if str_eqb nm k then Some w else attr_get r nm end.

Inductive op :=
| OCreate (doc : id) (t : ntype) (nm v : str)
| OInsertBefore (p c : id) (r : option id)
| OAppend (p c : id)
| ORemove (p c : id)
| OReplace (p n o : id)
| OClone (n : id) (deep : bool)
| ONormalize (n : id)
| OSetData (n : id) (s : str)
| OAppendData (n : id) (s : str)
| OInsertData (n : id) (off : nat) (s : str)
| ODeleteData (n : id) (off cnt : nat)
| OReplaceData (n : id) (off cnt : nat) (s : str)
| OSubstring (n : id) (off cnt : nat)
| OSplitText (n : id) (off : nat)
| OSetAttr (e : id) (nm v : str)
| ORemoveAttr (e : id) (nm : str)
| OGetAttr (e : id) (nm : str).

