(** C13 -- the vocabulary shared by the reference DOM (Spec13.v) and the model of the implementation
    (Model13.v): node identities, strings, node types, DOMException codes, results and the operation type. *)
From Coq Require Import NArith List Bool Arith.
Import ListNotations.

Notation id := nat (only parsing).
Definition str := list N.

Inductive ntype := TElem | TText | TCData | TERef | TPI | TComment | TDoc | TFrag | TAttr.

Definition ntype_eqb (a b : ntype) : bool :=
  match a, b with
  | TElem, TElem | TText, TText | TCData, TCData | TERef, TERef | TPI, TPI | TComment, TComment
  | TDoc, TDoc | TFrag, TFrag | TAttr, TAttr => true
  | _, _ => false
  end.

(** leaf node types: fNode.setIsLeafNode(true) in their constructors; no DOMParentNode member *)
Definition is_leaf (t : ntype) : bool :=
  match t with TText | TCData | TPI | TComment => true | _ => false end.
(** classes implementing DOMCharacterData *)
Definition is_chardata (t : ntype) : bool :=
  match t with TText | TCData | TComment => true | _ => false end.

(** DOMException codes that the modelled operations raise; E_INTERNAL marks exhausted fuel (never reached) *)
Inductive exc := INDEX_SIZE | HIERARCHY | WRONG_DOC | INVALID_CHAR | NO_MOD | NOT_FOUND | NOT_SUPPORTED | NAMESPACE | INUSE | INVALID_ACCESS | E_INTERNAL.
Inductive result := ROk | RNode (i : id) | RStr (s : str) | RErr (e : exc) | RSkip | RData (d : N).
Definition is_err (r : result) : bool := match r with RErr _ => true | _ => false end.

Definition is_space (c : N) : bool := N.eqb c 32 || N.eqb c 9 || N.eqb c 10 || N.eqb c 13.
(** a non-empty string of white space *)
Definition all_spaces (s : str) : bool := match s with [] => false | _ => forallb is_space s end.
(** XMLChar1_0::isValidName restricted to the 7-bit range (the generators only produce 7-bit names) *)
Definition name_start (c : N) : bool :=
  (N.leb 65 c && N.leb c 90) || (N.leb 97 c && N.leb c 122) || N.eqb c 95 || N.eqb c 58.
Definition name_char (c : N) : bool :=
  name_start c || (N.leb 48 c && N.leb c 57) || N.eqb c 45 || N.eqb c 46.
Definition valid_name (s : str) : bool :=
  match s with [] => false | c :: r => name_start c && forallb name_char r end.

(** qualified names (Namespaces in XML): position of the single colon; [None] = malformed
    (empty, leading or trailing colon, more than one colon), [Some 0] = no colon *)
Fixpoint colons (s : str) (i : nat) : list nat :=
  match s with [] => [] | c :: r => if N.eqb c 58 then i :: colons r (S i) else colons r (S i) end.
Definition qname_index (s : str) : option nat :=
  match colons s 0 with
  | [] => match s with [] => None | _ => Some 0 end
  | [c] => if Nat.eqb c 0 || Nat.eqb c (length s - 1) then None else Some c
  | _ => None
  end.
Definition s_xml : str := [120; 109; 108]%N.
Definition s_xmlns : str := [120; 109; 108; 110; 115]%N.
(* "http://www.w3.org/XML/1998/namespace" and "http://www.w3.org/2000/xmlns/" *)
Definition xml_uri : str := [104;116;116;112;58;47;47;119;119;119;46;119;51;46;111;114;103;47;88;77;76;47;49;57;57;56;47;110;97;109;101;115;112;97;99;101]%N.
Definition xmlns_uri : str := [104;116;116;112;58;47;47;119;119;119;46;119;51;46;111;114;103;47;50;48;48;48;47;120;109;108;110;115;47]%N.

(** attribute maps: association lists kept sorted by name (canonical form of a finite map) *)
Fixpoint str_cmp (a b : str) : comparison :=
  match a, b with
  | [], [] => Eq | [], _ => Lt | _, [] => Gt
  | x :: a', y :: b' => match N.compare x y with Eq => str_cmp a' b' | c => c end
  end.
Definition str_eqb (a b : str) : bool := match str_cmp a b with Eq => true | _ => false end.
(** setNamedItem: replace when findNamePoint finds the name, else insert at the insertion point *)
Fixpoint attr_set (l : list (str * str)) (nm v : str) : list (str * str) :=
  match l with
  | [] => [(nm, v)]
  | (k, w) :: r => match str_cmp nm k with
                   | Eq => (k, v) :: r
                   | Lt => (nm, v) :: l
                   | Gt => (k, w) :: attr_set r nm v
                   end
  end.
Fixpoint attr_remove (l : list (str * str)) (nm : str) : list (str * str) :=
  match l with [] => [] | (k, w) :: r => if str_eqb nm k then r else (k, w) :: attr_remove r nm end.
Fixpoint attr_get (l : list (str * str)) (nm : str) : option str :=
  match l with [] => None | (k, w) :: r => if str_eqb nm k then Some w else attr_get r nm end.

Inductive op :=
| OCreate (doc : id) (t : ntype) (nm v : str)
| OInsertBefore (p c : id) (r : option id)
| OAppend (p c : id)
| ORemove (p c : id)
| OReplace (p n o : id)
| OClone (n : id) (deep : bool)
| ONormalize (n : id)
| OSetData (n : id) (s : str)
| OAppendData (n : id) (s : str)
| OInsertData (n : id) (off : N) (s : str)
| ODeleteData (n : id) (off cnt : N)
| OReplaceData (n : id) (off cnt : N) (s : str)
| OSubstring (n : id) (off cnt : N)
| OSplitText (n : id) (off : N)
| OSetAttr (e : id) (nm v : str)
| ORemoveAttr (e : id) (nm : str)
| OGetAttr (e : id) (nm : str)
| OSetAttrNode (e a : id)                (* setAttributeNode: the replaced Attr or null *)
| ORemoveAttrNode (e a : id)             (* removeAttributeNode *)
| OGetAttrNode (e : id) (nm : str)       (* getAttributeNode *)
| OSetUserData (n : id) (key : str) (data : N) (handler : bool)   (* data 0 = null; returns the previous data *)
| OGetUserData (n : id) (key : str)
| ORelease (n : id) (force : bool)        (* DOMNode::release(); see Model13.release_node for [force] *)
| OSetIdAttr (e : id) (nm : str) (isid : bool)
| OSetIdAttrNode (e a : id) (isid : bool)
| OGetById (doc : id) (v : str)
| ORename (doc n : id) (ns nm : str)      (* Document.renameNode(n, namespaceURI, qualifiedName); ns = [] is null *).


(** binding a qualified name to a namespace URI ([] = none) for an element / attribute, per Namespaces in XML and
    DOM L2/L3 createElementNS/createAttributeNS: [None] = NAMESPACE_ERR, otherwise the resulting namespace URI *)
Definition ns_bind (is_attr : bool) (ns qname : str) : option str :=
  match qname_index qname with
  | None => None
  | Some O =>
    if is_attr && str_eqb qname s_xmlns then (if str_eqb ns xmlns_uri then Some xmlns_uri else None) else Some ns
  | Some i =>
    let p := firstn i qname in
    let l := skipn (S i) qname in
    if negb (valid_name p && valid_name l) then None
    else if str_eqb p s_xml then (if str_eqb ns xml_uri then Some xml_uri else None)
    else if is_attr && str_eqb p s_xmlns then (if str_eqb ns xmlns_uri then Some xmlns_uri else None)
    else match ns with [] => None | _ => Some ns end
  end.

(** the local part of a qualified name (the whole name when there is no colon) *)
Definition local_name (q : str) : str :=
  match qname_index q with Some (S i) => skipn (S (S i)) q | _ => q end.
