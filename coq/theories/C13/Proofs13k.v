(** C13 -- lemmas, part k: under [WFsib] the fuel-bounded firstChild/nextSibling walk [kids] returns exactly the child
    list of the invariant (the fuel [length h] suffices), and the public getters agree with it. *)
From Coq Require Import NArith List Bool Arith Lia.
From XV Require Import Base.XDefs Gen.GenKidOK C13.Ops13 C13.Spec13 C13.Model13 C13.Abs13 C13.Proofs13b C13.Proofs13c
  C13.Proofs13f C13.Proofs13g C13.Proofs13h.
Import ListNotations.

Lemma walk_chain : forall h p r c fuel, dl h p c r -> length r <= fuel -> walk h (hd_error r) fuel = r.
Proof.
  induction r as [|d r IH]; intros c fuel H L.
  - destruct fuel; reflexivity.
  - destruct fuel as [|fuel]; [cbn in L; lia|]. destruct H as [H1 H2]. cbn [hd_error walk].
    destruct (sv_fields _ _ _ _ _ _ _ H1) as [_ [_ [Hn _]]]. rewrite Hn. f_equal. apply (IH d); [exact H2|cbn in L; lia].
Qed.

Lemma nodup_bounded_length : forall (l : list nat) n, NoDup l -> (forall x, In x l -> x < n) -> length l <= n.
Proof.
  intros l n ND H. rewrite <- (seq_length n 0). apply NoDup_incl_length; [exact ND|].
  intros x Hx. apply in_seq. specialize (H x Hx). lia.
Qed.

Lemma kids_exact : forall h ks p, WFsib h ks -> p < length h -> kids h p = ks p.
Proof.
  intros h ks p W Hp. unfold kids. pose proof (s_sibs _ _ W p Hp) as Hs.
  assert (Hl : length (ks p) <= length h).
  { apply nodup_bounded_length; [apply (s_nodup _ _ W)|]. intros x Hx. apply (s_valid _ _ W p x Hx). }
  destruct (ks p) as [|f r] eqn:Ek.
  - cbn in Hs. unfold fv in Hs. rewrite Hs. destruct (length h); reflexivity.
  - destruct Hs as [Hf [Hsf Hd]]. unfold fv in Hf. rewrite Hf.
    destruct (length h) as [|n] eqn:El; [cbn in Hl; lia|]. cbn [walk].
    destruct (sv_fields _ _ _ _ _ _ _ Hsf) as [_ [_ [Hn _]]]. rewrite Hn. f_equal.
    apply (walk_chain h p r f); [exact Hd|cbn in Hl; lia].
Qed.

(** the readable form of the sibling clauses: for every node p, the chain from firstChild through nextSibling
    visits exactly the nodes whose owner is p with OWNED set, without repetition; lastChild is its last element *)
Lemma kids_are_the_owned : forall h ks p c, WFsib h ks -> p < length h -> c < length h ->
  (In c (kids h p) <-> n_owned (nd h c) = true /\ n_owner (nd h c) = p).
Proof.
  intros h ks p c W Hp Hc. rewrite (kids_exact h ks p W Hp). split.
  - intros Hin. destruct (WFsib_member _ _ _ _ W Hin). auto.
  - intros [Ho Hw]. rewrite <- Hw. apply (s_owned _ _ W); assumption.
Qed.

Lemma last_child_is_last : forall h ks p, WFsib h ks -> p < length h ->
  last_child h p = match kids h p with [] => None | f :: r => Some (last r f) end.
Proof.
  intros h ks p W Hp. rewrite (kids_exact h ks p W Hp). pose proof (s_sibs _ _ W p Hp) as Hs. unfold last_child.
  destruct (ks p) as [|f r]; [exact (f_equal (fun o : option nat => match o with None => None | Some f0 => n_prev (nd h f0) end) Hs)|].
  destruct Hs as [Hf [Hsf _]]. unfold fv in Hf. rewrite Hf. destruct (sv_fields _ _ _ _ _ _ _ Hsf) as [_ [_ [_ [Hpv _]]]]. exact Hpv.
Qed.
