(** C13 -- lemmas, part a: finite facts decided by computation (table tie, defect witnesses, non-vacuity runs). *)
From Coq Require Import NArith List Bool Arith Lia.
From XV Require Import Base.XDefs Gen.GenKidOK C13.Ops13 C13.Spec13 C13.Model13 C13.Abs13.
Import ListNotations.

Definition all_types : list ntype := [TElem; TText; TCData; TERef; TPI; TComment; TDoc; TFrag].

(** the kidOK table regenerated from DOMDocumentImpl.cpp is exactly the DOM structure model of the Spec *)
Lemma kidok_table_is_structure_model :
  forallb (fun p => forallb (fun c =>
     Bool.eqb (existsb (N.eqb (tcode c)) (lookupN (tcode p) gen_kidOK)) (allowed_child p c)) all_types) all_types = true.
Proof. vm_compute. reflexivity. Qed.

Definition A : str := [97%N].
Definition X : str := [120%N].
(** witness of F18: one document, one element e, e.appendChild(e) *)
Definition w_self : list op := [OCreate 0 TElem A []; OAppend 1 1].
(** witness of F26: the clone of a first child appended behind it *)
Definition w_cloneflag : list op :=
  [OCreate 0 TElem A []; OCreate 0 TText [] X; OAppend 1 2; OClone 2 false; OAppend 1 3].
(** witness of F27: a fragment holding two elements appended to an empty document *)
Definition w_fragdoc : list op :=
  [OCreate 0 TFrag [] []; OCreate 0 TElem A []; OCreate 0 TElem A []; OAppend 1 2; OAppend 1 3; OAppend 0 1].

Lemma insert_self_found :
  let h := fst (run_cfg cfg_found (init_heap 1) w_self) in
  snd (run_cfg cfg_found (init_heap 1) w_self) = [RNode 1; RNode 1] /\ parent h 1 = Some 1.
Proof. vm_compute. split; reflexivity. Qed.

Lemma insert_self_fixed :
  run_cfg cfg_fixed (init_heap 1) w_self =
  (fst (run_cfg cfg_fixed (init_heap 1) [OCreate 0 TElem A []]), [RNode 1; RErr HIERARCHY]).
Proof. vm_compute. reflexivity. Qed.

Lemma clone_flag_found :
  let h := fst (run_cfg cfg_found (init_heap 1) w_cloneflag) in
  kids h 1 = [2; 3] /\ prev_sib h 3 = None.
Proof. vm_compute. split; reflexivity. Qed.

Lemma clone_flag_fixed :
  let h := fst (run_cfg cfg_fixed (init_heap 1) w_cloneflag) in
  kids h 1 = [2; 3] /\ prev_sib h 3 = Some 2.
Proof. vm_compute. split; reflexivity. Qed.

(** /repo before the C13-fragment-into-document, -replace-self-docelem, -normalize-empty-text, -rename-name-check,
    -setattrnode-idmap and -setidattrnode-identity patches: F18 and F26 repaired, the later switches as found *)
Definition cfg_head : cfg := mkCfg true true false false false false false false.

Lemma frag_into_doc_found :
  let h0 := fst (run_cfg cfg_fixed (init_heap 1) (removelast w_fragdoc)) in
  let '(h1, r) := step_cfg cfg_head h0 (OAppend 0 1) in
  r = RErr HIERARCHY /\ kids h0 0 = [] /\ kids h1 0 = [2] /\ kids h1 1 = [3] /\
  sstep (abs h0) (OAppend 0 1) = (abs h0, RErr HIERARCHY).
Proof. vm_compute. repeat split; reflexivity. Qed.
