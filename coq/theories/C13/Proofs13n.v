(** C13 -- lemmas, part n: DOMAttrMapImpl.  The bisection [find_name_point] (AttrMap13.v, the C++ line by line) on a
    name-sorted vector returns the index of the name or -1 - (insertion point); getNamedItem / setNamedItem computed
    through it are the linear [amap_find] / [amap_put] of Model13.v; [amap_put] and [amap_del] keep the vector
    strictly sorted (hence names unique). *)
From Coq Require Import NArith ZArith List Bool Arith Lia.
From XV Require Import C13.Ops13 C13.Model13 C13.AttrMap13.
Import ListNotations.
Ltac Zify.zify_post_hook ::= Z.div_mod_to_equations.

(** ------------------------------------------------------------ XMLString::compareString is a strict total order *)
Lemma str_cmp_antisym : forall a b, str_cmp a b = CompOpp (str_cmp b a).
Proof.
  induction a as [|x a IH]; intros [|y b]; cbn [str_cmp CompOpp]; try reflexivity.
  rewrite (N.compare_antisym y x). destruct (N.compare y x); cbn [CompOpp]; auto.
Qed.

Lemma str_cmp_eq : forall a b, str_cmp a b = Eq -> a = b.
Proof.
  induction a as [|x a IH]; intros [|y b]; cbn [str_cmp]; try discriminate; auto.
  destruct (N.compare_spec x y) as [E|E|E]; try discriminate. intros H. subst. f_equal. apply IH; assumption.
Qed.

Lemma str_cmp_lt_trans : forall a b c, str_cmp a b = Lt -> str_cmp b c = Lt -> str_cmp a c = Lt.
Proof.
  induction a as [|x a IH]; intros [|y b] [|z c]; cbn [str_cmp]; try discriminate; auto.
  destruct (N.compare_spec x y) as [E1|E1|E1]; try discriminate;
  destruct (N.compare_spec y z) as [E2|E2|E2]; try discriminate; intros H1 H2.
  - subst. rewrite N.compare_refl. eapply IH; eassumption.
  - subst. rewrite (proj2 (N.compare_lt_iff _ _) E2). reflexivity.
  - subst. rewrite (proj2 (N.compare_lt_iff _ _) E1). reflexivity.
  - rewrite (proj2 (N.compare_lt_iff _ _) (N.lt_trans _ _ _ E1 E2)). reflexivity.
Qed.

Lemma str_cmp_refl' : forall a, str_cmp a a = Eq.
Proof. induction a as [|x a IH]; cbn [str_cmp]; [reflexivity|]. rewrite N.compare_refl. exact IH. Qed.

Lemma str_cmp_gt_of_lt : forall a b, str_cmp b a = Lt -> str_cmp a b = Gt.
Proof. intros a b H. rewrite str_cmp_antisym, H. reflexivity. Qed.

(** ------------------------------------------------------------ the bisection loop *)
Section Bisect.
Variables (h : heap) (l : list id) (nm : str).
Let n := Z.of_nat (length l).
Hypothesis Hs : forall a b, (0 <= a < b)%Z -> (b < n)%Z -> str_cmp (name_at h l a) (name_at h l b) = Lt.

(** what findNamePoint promises: z >= 0 is an index holding the name; otherwise z = -1 - p where every entry before p
    is smaller and every entry from p on is greater than the name *)
Definition fnp_ok (z : Z) : Prop :=
  ((0 <= z < n)%Z /\ str_cmp nm (name_at h l z) = Eq) \/
  (exists p, z = (-1 - p)%Z /\ (0 <= p <= n)%Z /\ (forall j, (0 <= j < p)%Z -> str_cmp nm (name_at h l j) = Gt) /\
             (forall j, (p <= j < n)%Z -> str_cmp nm (name_at h l j) = Lt)).

Lemma fnp_loop_spec : forall fuel first last i,
  (0 <= first)%Z -> (last < n)%Z -> (first <= last + 1)%Z -> (i <= first \/ i = last + 1)%Z ->
  (forall j, (0 <= j < first)%Z -> str_cmp nm (name_at h l j) = Gt) ->
  (forall j, (last < j < n)%Z -> str_cmp nm (name_at h l j) = Lt) ->
  (Z.to_nat (last - first + 1) < fuel)%nat -> fnp_ok (fnp_loop fuel h l nm first last i).
Proof.
  induction fuel as [|fuel IH]; intros first last i H0 Hl Hfl Hi Hlo Hhi Hf; [lia|].
  cbn [fnp_loop]. destruct (Z.leb_spec first last) as [Hle|Hgt].
  - set (m := ((first + last) / 2)%Z).
    assert (Hm : (first <= m <= last)%Z) by (subst m; lia).
    clearbody m.
    destruct (str_cmp nm (name_at h l m)) eqn:Ec.
    + left. split; [lia|exact Ec].
    + apply IH; try lia; try assumption.
      intros j Hj. destruct (Z.eq_dec j m) as [->|Hne]; [exact Ec|].
      eapply str_cmp_lt_trans; [exact Ec|]. apply Hs; lia.
    + apply IH; try lia; try assumption.
      intros j Hj. destruct (Z.eq_dec j m) as [->|Hne]; [exact Ec|].
      apply str_cmp_gt_of_lt. eapply str_cmp_lt_trans; [apply Hs with (b := m); lia|].
      rewrite str_cmp_antisym, Ec. reflexivity.
  - right. exists first.
    assert (Ei : (if (i <? first)%Z then first else i) = first) by (destruct (Z.ltb_spec i first); lia).
    rewrite Ei. split; [reflexivity|]. split; [lia|]. split; [exact Hlo|]. intros j Hj. apply Hhi. lia.
Qed.

Lemma find_name_point_ok : fnp_ok (find_name_point h l nm).
Proof.
  unfold find_name_point. apply fnp_loop_spec; unfold n in *; try lia; intros j Hj; lia.
Qed.
End Bisect.

(** ------------------------------------------------------------ sorted vectors *)
Definition names (h : heap) (l : list id) : list str := map (fun a => n_name (nd h a)) l.
Fixpoint lsorted (ks : list str) : Prop :=
  match ks with [] => True | k :: r => (forall k', In k' r -> str_cmp k k' = Lt) /\ lsorted r end.

Lemma lsorted_nth : forall ks i j d, lsorted ks -> i < j -> j < length ks -> str_cmp (nth i ks d) (nth j ks d) = Lt.
Proof.
  induction ks as [|k r IH]; intros i j d Hs Hij Hj; cbn [length] in Hj; [lia|].
  destruct Hs as [Hk Hr]. destruct j as [|j]; [lia|]. destruct i as [|i]; cbn [nth].
  - apply Hk. apply nth_In. lia.
  - apply IH; [assumption|lia|lia].
Qed.

Lemma name_at_nat : forall h l j, name_at h l (Z.of_nat j) = n_name (nd h (nth j l 0)).
Proof. intros. unfold name_at. rewrite Nat2Z.id. reflexivity. Qed.

Lemma name_at_names : forall h l j, n_name (nd h (nth j l 0)) = nth j (names h l) (n_name (nd h 0)).
Proof. intros. unfold names. symmetry. apply (map_nth (fun a => n_name (nd h a)) l 0). Qed.

Lemma sorted_Hs : forall h l, lsorted (names h l) -> forall a b, (0 <= a < b)%Z -> (b < Z.of_nat (length l))%Z ->
  str_cmp (name_at h l a) (name_at h l b) = Lt.
Proof.
  intros h l S a b Hab Hb. rewrite <- (Z2Nat.id a), <- (Z2Nat.id b) by lia. rewrite !name_at_nat, !name_at_names.
  apply lsorted_nth; [exact S|lia|]. unfold names. rewrite map_length. lia.
Qed.

(** the linear search / update of Model13 characterised by positions *)
Lemma amap_find_at : forall h nm l p, p < length l ->
  (forall j, j < p -> str_cmp nm (n_name (nd h (nth j l 0))) = Gt) -> str_cmp nm (n_name (nd h (nth p l 0))) = Eq ->
  amap_find h l nm = Some (nth p l 0).
Proof.
  intros h nm. induction l as [|b r IH]; intros p Hp Hlt Heq; cbn [length] in Hp; [lia|].
  cbn [amap_find]. unfold str_eqb. destruct p as [|p].
  - cbn [nth] in *. rewrite Heq. reflexivity.
  - assert (H0 : 0 < S p) by lia. apply Hlt in H0. cbn [nth] in H0. rewrite H0. cbn [nth]. apply IH; [lia| |exact Heq].
    intros j Hj. apply (Hlt (S j)). lia.
Qed.

Lemma amap_find_none : forall h nm l, (forall j, j < length l -> str_cmp nm (n_name (nd h (nth j l 0))) <> Eq) ->
  amap_find h l nm = None.
Proof.
  intros h nm. induction l as [|b r IH]; intros Hne; [reflexivity|]. cbn [amap_find]. unfold str_eqb.
  assert (H0 : 0 < length (b :: r)) by (cbn [length]; lia). apply Hne in H0. cbn [nth] in H0.
  destruct (str_cmp nm (n_name (nd h b))) eqn:E; [exfalso; apply H0; reflexivity| |];
    apply IH; intros j Hj; apply (Hne (S j)); cbn [length]; lia.
Qed.

Lemma amap_put_insert : forall h a l p, p <= length l ->
  (forall j, j < p -> str_cmp (n_name (nd h a)) (n_name (nd h (nth j l 0))) = Gt) ->
  (p < length l -> str_cmp (n_name (nd h a)) (n_name (nd h (nth p l 0))) = Lt) ->
  amap_put h l a = insert_at p a l.
Proof.
  intros h a. induction l as [|b r IH]; intros p Hp Hgt Hlt; cbn [length] in *.
  - assert (p = 0) by lia. subst. reflexivity.
  - unfold insert_at. destruct p as [|p]; cbn [amap_put firstn skipn app].
    + assert (H0 : 0 < S (length r)) by lia. apply Hlt in H0. cbn [nth] in H0. rewrite H0. reflexivity.
    + assert (H0 : 0 < S p) by lia. apply Hgt in H0. cbn [nth] in H0. rewrite H0. f_equal. apply IH; [lia| |].
      * intros j Hj. apply (Hgt (S j)). lia.
      * intros Hq. apply Hlt. lia.
Qed.

Lemma amap_put_set : forall h a l p, p < length l ->
  (forall j, j < p -> str_cmp (n_name (nd h a)) (n_name (nd h (nth j l 0))) = Gt) ->
  str_cmp (n_name (nd h a)) (n_name (nd h (nth p l 0))) = Eq ->
  amap_put h l a = set_at p a l.
Proof.
  intros h a. induction l as [|b r IH]; intros p Hp Hgt Heq; cbn [length] in *; [lia|].
  unfold set_at. destruct p as [|p]; cbn [amap_put firstn skipn app].
  - cbn [nth] in Heq. rewrite Heq. reflexivity.
  - assert (H0 : 0 < S p) by lia. apply Hgt in H0. cbn [nth] in H0. rewrite H0. f_equal. apply IH; [lia| |exact Heq].
    intros j Hj. apply (Hgt (S j)). lia.
Qed.

(** on a sorted vector everything before a found name is smaller *)
Lemma before_found : forall h l nm z, lsorted (names h l) -> (0 <= z < Z.of_nat (length l))%Z ->
  str_cmp nm (name_at h l z) = Eq -> forall j, j < Z.to_nat z -> str_cmp nm (n_name (nd h (nth j l 0))) = Gt.
Proof.
  intros h l nm z S Hz He j Hj. apply str_cmp_eq in He. rewrite He. apply str_cmp_gt_of_lt.
  rewrite <- name_at_nat. apply sorted_Hs; [exact S|lia|lia].
Qed.

(** getNamedItem through the bisection = the linear search *)
Lemma find_bis_eq : forall h l nm, lsorted (names h l) -> amap_find_bis h l nm = amap_find h l nm.
Proof.
  intros h l nm S. unfold amap_find_bis.
  destruct (find_name_point_ok h l nm (sorted_Hs h l S)) as [[Hz He]|[p [Ez [Hp [Hgt Hlt]]]]].
  - destruct (Z.ltb_spec (find_name_point h l nm) 0); [lia|]. symmetry. apply amap_find_at.
    + lia.
    + apply before_found; assumption.
    + unfold name_at in He. exact He.
  - rewrite Ez. destruct (Z.ltb_spec (-1 - p) 0); [|lia]. symmetry. apply amap_find_none.
    intros j Hj. rewrite <- name_at_nat. destruct (Z.lt_ge_cases (Z.of_nat j) p) as [Hc|Hc].
    + rewrite Hgt by lia. discriminate.
    + rewrite Hlt by lia. discriminate.
Qed.

(** the vector update of setNamedItem through the bisection = the linear insertion *)
Lemma put_bis_eq : forall h l a, lsorted (names h l) -> amap_put_bis h l a = amap_put h l a.
Proof.
  intros h l a S. unfold amap_put_bis.
  destruct (find_name_point_ok h l (n_name (nd h a)) (sorted_Hs h l S)) as [[Hz He]|[p [Ez [Hp [Hgt Hlt]]]]].
  - destruct (Z.ltb_spec (find_name_point h l (n_name (nd h a))) 0); [lia|]. symmetry. apply amap_put_set.
    + lia.
    + apply before_found; assumption.
    + unfold name_at in He. exact He.
  - rewrite Ez. destruct (Z.ltb_spec (-1 - p) 0); [|lia]. replace (-1 - (-1 - p))%Z with p by lia.
    symmetry. apply amap_put_insert.
    + lia.
    + intros j Hj. rewrite <- name_at_nat. apply Hgt. lia.
    + intros Hq. rewrite <- name_at_nat. apply Hlt. lia.
Qed.

(** ------------------------------------------------------------ the vector stays sorted *)
Lemma amap_put_in : forall h l a x, In x (amap_put h l a) -> x = a \/ In x l.
Proof.
  intros h. induction l as [|b r IH]; intros a x; cbn [amap_put].
  - intros [<-|[]]. left; reflexivity.
  - destruct (str_cmp _ _).
    + intros [<-|H]; [left; reflexivity|right; right; exact H].
    + intros [<-|H]; [left; reflexivity|right; exact H].
    + intros [<-|H]; [right; left; reflexivity|]. destruct (IH _ _ H); [left; assumption|right; right; assumption].
Qed.

Lemma amap_put_sorted : forall h l a, lsorted (names h l) -> lsorted (names h (amap_put h l a)).
Proof.
  intros h. induction l as [|b r IH]; intros a S; unfold names in *; cbn [amap_put map lsorted] in *.
  - split; [intros k' []|exact I].
  - destruct S as [Hk Hr]. destruct (str_cmp (n_name (nd h a)) (n_name (nd h b))) eqn:E; cbn [map lsorted].
    + apply str_cmp_eq in E. rewrite E. split; assumption.
    + split; [|split; assumption]. intros k' [<-|Hin]; [exact E|]. eapply str_cmp_lt_trans; [exact E|apply Hk; exact Hin].
    + split; [|apply IH; exact Hr]. intros k' Hin. apply in_map_iff in Hin. destruct Hin as [x [<- Hx]].
      destruct (amap_put_in _ _ _ _ Hx) as [->|Hx'].
      * rewrite str_cmp_antisym, E. reflexivity.
      * apply Hk. apply in_map_iff. exists x. split; [reflexivity|exact Hx'].
Qed.

Lemma amap_del_in : forall l a x, In x (amap_del l a) -> In x l.
Proof.
  induction l as [|b r IH]; intros a x; cbn [amap_del]; [intros []|].
  destruct (Nat.eqb b a); [intros H; right; exact H|]. intros [<-|H]; [left; reflexivity|right; eapply IH; exact H].
Qed.

Lemma amap_del_sorted : forall h l a, lsorted (names h l) -> lsorted (names h (amap_del l a)).
Proof.
  intros h. induction l as [|b r IH]; intros a S; unfold names in *; cbn [amap_del map lsorted] in *; [exact I|].
  destruct S as [Hk Hr]. destruct (Nat.eqb b a); [exact Hr|]. cbn [map lsorted]. split; [|apply IH; exact Hr].
  intros k' Hin. apply in_map_iff in Hin. destruct Hin as [x [<- Hx]]. apply Hk. apply in_map_iff. exists x.
  split; [reflexivity|eapply amap_del_in; exact Hx].
Qed.

(** strictly sorted = no two entries with the same name *)
Lemma lsorted_unique : forall h l i j, lsorted (names h l) -> i < length l -> j < length l ->
  n_name (nd h (nth i l 0)) = n_name (nd h (nth j l 0)) -> i = j.
Proof.
  intros h l i j S Hi Hj E. rewrite !name_at_names in E.
  assert (L : length (names h l) = length l) by (unfold names; apply map_length).
  destruct (Nat.lt_trichotomy i j) as [H|[H|H]]; [|exact H|]; exfalso.
  - pose proof (lsorted_nth _ i j (n_name (nd h 0)) S H ltac:(lia)) as C. rewrite E in C.
    rewrite str_cmp_refl' in C. discriminate.
  - pose proof (lsorted_nth _ j i (n_name (nd h 0)) S H ltac:(lia)) as C. rewrite E in C.
    rewrite str_cmp_refl' in C. discriminate.
Qed.
