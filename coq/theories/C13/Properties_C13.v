(** Property C13 -- DOM mutation keeps the tree well-formed and equal to a reference DOM.
    This file contains only the property theorems; each is closed by [exact] of a lemma proved in
    Proofs13*.v and followed by [Print Assumptions].  Model: Model13.v (heap with the implementation's link
    fields; the kidOK table and the numeric codes are regenerated from /repo on every run).  Spec: Spec13.v. *)
From Coq Require Import NArith List Bool Arith.
From XV Require Import Base.XDefs Gen.GenKidOK C13.Ops13 C13.Spec13 C13.Model13 C13.Abs13 C13.Proofs13a.
Import ListNotations.

(** tie to the source: the regenerated kidOK table is the DOM structure model *)
Theorem T13_kidok_table :
  forallb (fun p => forallb (fun c =>
     Bool.eqb (existsb (N.eqb (tcode c)) (lookupN (tcode p) gen_kidOK)) (allowed_child p c)) all_types) all_types = true.
Proof. exact kidok_table_is_structure_model. Qed.
Print Assumptions T13_kidok_table.

(** DEFECT F18 on the model of the code as found: e.appendChild(e) succeeds and e becomes its own parent *)
Theorem T13_insert_self_refuted :
  let h := fst (run_cfg cfg_found (init_heap 1) w_self) in
  snd (run_cfg cfg_found (init_heap 1) w_self) = [RNode 1; RNode 1] /\ parent h 1 = Some 1.
Proof. exact insert_self_found. Qed.
Print Assumptions T13_insert_self_refuted.

(** ... and the repaired model refuses it with HIERARCHY_REQUEST_ERR, heap unchanged *)
Theorem T13_insert_self_fixed :
  run_cfg cfg_fixed (init_heap 1) w_self =
  (fst (run_cfg cfg_fixed (init_heap 1) [OCreate 0 TElem A []]), [RNode 1; RErr HIERARCHY]).
Proof. exact insert_self_fixed. Qed.
Print Assumptions T13_insert_self_fixed.

(** DEFECT F26 as found: the clone of a first child keeps the FIRSTCHILD flag; appended behind the original its
    previousSibling reads null although it is the second child *)
Theorem T13_clone_flag_refuted :
  let h := fst (run_cfg cfg_found (init_heap 1) w_cloneflag) in
  kids h 1 = [2; 3] /\ prev_sib h 3 = None.
Proof. exact clone_flag_found. Qed.
Print Assumptions T13_clone_flag_refuted.

Theorem T13_clone_flag_fixed :
  let h := fst (run_cfg cfg_fixed (init_heap 1) w_cloneflag) in
  kids h 1 = [2; 3] /\ prev_sib h 3 = Some 2.
Proof. exact clone_flag_fixed. Qed.
Print Assumptions T13_clone_flag_fixed.

(** KNOWN FINDING F27 (faithful model): a DocumentFragment holding two elements appended to a Document raises
    HIERARCHY_REQUEST_ERR after the first element was moved: exception AND changed tree; the reference DOM
    refuses the fragment as a whole *)
Theorem T13_fragment_into_document_refuted :
  let h0 := fst (run_cfg cfg_fixed (init_heap 1) (removelast w_fragdoc)) in
  let '(h1, r) := step h0 (OAppend 0 1) in
  r = RErr HIERARCHY /\ kids h0 0 = [] /\ kids h1 0 = [2] /\ kids h1 1 = [3] /\
  sstep (abs h0) (OAppend 0 1) = (abs h0, RErr HIERARCHY).
Proof. exact frag_into_doc_found. Qed.
Print Assumptions T13_fragment_into_document_refuted.
