(** Property C13 -- DOM mutation keeps the tree well-formed and equal to a reference DOM.
    This file contains only the property theorems; each is closed by [exact] of a lemma proved in
    Proofs13*.v and followed by [Print Assumptions].  Model: Model13.v (heap with the implementation's link
    fields; the kidOK table and the numeric codes are regenerated from /repo on every run).  Spec: Spec13.v. *)
From Coq Require Import NArith ZArith List Bool Arith.
From XV Require Import Base.XDefs Gen.GenKidOK C13.Ops13 C13.Spec13 C13.Model13 C13.Abs13 C13.Proofs13a C13.Proofs13b C13.Proofs13c C13.Proofs13d C13.Proofs13e
  C13.Proofs13f C13.Proofs13g C13.Proofs13h C13.Proofs13i C13.Proofs13j C13.Proofs13k C13.Proofs13l C13.Proofs13m C13.AttrMap13 C13.Proofs13n.
Import ListNotations.

(** tie to the source: the regenerated kidOK table is the DOM structure model *)
Theorem T13_kidok_table :
  forallb (fun p => forallb (fun c =>
     Bool.eqb (existsb (N.eqb (tcode c)) (lookupN (tcode p) gen_kidOK)) (allowed_child p c)) all_types) all_types = true.
Proof. exact kidok_table_is_structure_model. Qed.
Print Assumptions T13_kidok_table.

(** DEFECT F18 on the model of the code as found: e.appendChild(e) succeeds and e becomes its own parent *)
Theorem T13_insert_self_refuted :
  let h := fst (run_cfg cfg_found (init_heap 1) w_self) in
  snd (run_cfg cfg_found (init_heap 1) w_self) = [RNode 1; RNode 1] /\ parent h 1 = Some 1.
Proof. exact insert_self_found. Qed.
Print Assumptions T13_insert_self_refuted.

(** ... and the repaired model refuses it with HIERARCHY_REQUEST_ERR, heap unchanged *)
Theorem T13_insert_self_fixed :
  run_cfg cfg_fixed (init_heap 1) w_self =
  (fst (run_cfg cfg_fixed (init_heap 1) [OCreate 0 TElem A []]), [RNode 1; RErr HIERARCHY]).
Proof. exact insert_self_fixed. Qed.
Print Assumptions T13_insert_self_fixed.

(** DEFECT F26 as found: the clone of a first child keeps the FIRSTCHILD flag; appended behind the original its
    previousSibling reads null although it is the second child *)
Theorem T13_clone_flag_refuted :
  let h := fst (run_cfg cfg_found (init_heap 1) w_cloneflag) in
  kids h 1 = [2; 3] /\ prev_sib h 3 = None.
Proof. exact clone_flag_found. Qed.
Print Assumptions T13_clone_flag_refuted.

Theorem T13_clone_flag_fixed :
  let h := fst (run_cfg cfg_fixed (init_heap 1) w_cloneflag) in
  kids h 1 = [2; 3] /\ prev_sib h 3 = Some 2.
Proof. exact clone_flag_fixed. Qed.
Print Assumptions T13_clone_flag_fixed.

(** KNOWN FINDING F27 (faithful model): a DocumentFragment holding two elements appended to a Document raises
    HIERARCHY_REQUEST_ERR after the first element was moved: exception AND changed tree; the reference DOM
    refuses the fragment as a whole *)
Theorem T13_fragment_into_document_refuted :
  let h0 := fst (run_cfg cfg_fixed (init_heap 1) (removelast w_fragdoc)) in
  let '(h1, r) := step_cfg cfg_head h0 (OAppend 0 1) in
  r = RErr HIERARCHY /\ kids h0 0 = [] /\ kids h1 0 = [2] /\ kids h1 1 = [3] /\
  sstep (abs h0) (OAppend 0 1) = (abs h0, RErr HIERARCHY).
Proof. exact frag_into_doc_found. Qed.
Print Assumptions T13_fragment_into_document_refuted.

(** T13_wf_preserved, the part that is PROVED (hence the suffix): the upward half of well-formedness,
    [WFup h] = every parent pointer is a live node (a node has at most one parent by construction: one fOwnerNode
    field) + acyclicity as a rank to the root (from every node the parent walk ends) + ownerDocument uniform
    (a non-leaf child carries its parent's fOwnerDocument, a Document owns itself and has no parent; leaf nodes read
    theirs through the parent), is preserved by every operation of the repaired model with ARBITRARY operands
    -- except ([covered]) the two that rebuild the VALUE of an attribute node, setAttribute and setNodeValue on an Attr
    (they release the attribute's children and append a fresh Text; that composition is not proved) --,
    whatever the result (value, exception or skip).  Unconditional thanks to the F18 repair.
    NOT proved (checked on every run by the harness's model-free consistency check and by abs(heap) = reference store
    after every operation): the sibling-chain clauses (firstChild/nextSibling chain = the owned nodes, previousSibling
    its inverse, first.prev = last, flags agree with links). *)
Theorem T13_wf_preserved_partial : forall h o h' r, WFup h -> covered h o = true -> step h o = (h', r) -> WFup h' /\ length h <= length h'.
Proof. exact step_G. Qed.
Print Assumptions T13_wf_preserved_partial.

(** lifted to every heap reachable from n empty documents by any operation sequence *)
Theorem T13_wf_reachable_partial : forall n l h rs, forallb no_attr_value_op l = true ->
  run_cfg cfg_fixed (init_heap n) l = (h, rs) -> WFup h.
Proof. intros n l h rs Hl. apply run_WFup; [apply WFup_init|exact Hl]. Qed.
Print Assumptions T13_wf_reachable_partial.

(** in particular no operation sequence makes a node its own parent (contrast T13_insert_self_refuted) *)
Theorem T13_no_self_parent : forall n l h rs c, forallb no_attr_value_op l = true ->
  run_cfg cfg_fixed (init_heap n) l = (h, rs) -> c < length h -> parent h c <> Some c.
Proof. intros n l h rs c Hl E. apply WFup_not_own_parent. eapply run_WFup; [apply WFup_init|exact Hl|exact E]. Qed.
Print Assumptions T13_no_self_parent.

(** non-vacuity: a reachable heap with three levels, a moved subtree, a clone and a fragment insertion *)
Example T13_wf_nonvacuous :
  let l := [OCreate 0 TElem A []; OAppend 0 2; OCreate 0 TElem A []; OAppend 2 3; OCreate 0 TText [] X; OAppend 3 4;
            OClone 2 true; OCreate 0 TFrag [] []; OAppend 8 5; OAppend 3 8; OAppend 5 2] in
  let '(h, rs) := run_cfg cfg_fixed (init_heap 2) l in
  kids h 2 = [3] /\ kids h 3 = [4; 5] /\ last rs ROk = RErr HIERARCHY /\ WFup h.
Proof. cbv zeta. destruct (run_cfg _ _ _) as [h rs] eqn:E. split; [|split; [|split]];
  try (vm_compute in E; injection E as <- <-; vm_compute; reflexivity). eapply run_WFup; [apply (WFup_init 2)| |exact E]. reflexivity. Qed.

(** T13_chardata: INDEX_SIZE_ERR exactly when offset > length (insertData, deleteData, substringData, splitText),
    offsets and counts being arbitrary 64-bit values *)
Theorem T13_chardata_index : forall h n off cnt s, n_ro (nd h n) = false ->
  (snd (cd_insert h n off s) = RErr INDEX_SIZE <-> (dlen h n < off)%N) /\
  (snd (cd_delete h n off cnt) = RErr INDEX_SIZE <-> (dlen h n < off)%N) /\
  (snd (cd_substring h n off cnt) = RErr INDEX_SIZE <-> (dlen h n < off)%N) /\
  ((dlen h n < off)%N -> forall cf, split_text cf h n off = (h, RErr INDEX_SIZE)).
Proof.
  intros h n off cnt s R. repeat split; try apply cd_insert_index; try apply cd_delete_index; try apply cd_substring_index; auto.
  intros L cf. apply split_index; assumption.
Qed.
Print Assumptions T13_chardata_index.

Theorem T13_chardata_insert : forall h n off s, n < length h -> n_ro (nd h n) = false -> (off <= dlen h n)%N ->
  n_val (nd (fst (cd_insert h n off s)) n) =
  firstn (N.to_nat off) (n_val (nd h n)) ++ s ++ skipn (N.to_nat off) (n_val (nd h n)).
Proof. exact cd_insert_value. Qed.
Print Assumptions T13_chardata_insert.

(** deleteData with ANY 64-bit count (XMLSize_t arithmetic wraps, [wadd]): exactly the units from off up to
    min(off + cnt, length) go away -- a count beyond the end, even one for which off + cnt wraps around 2^64, means
    "to the end".  (Data of 2^63 units does not fit a 64-bit address space.) *)
Theorem T13_chardata_delete : forall h n off cnt, n < length h -> n_ro (nd h n) = false ->
  (off <= dlen h n)%N -> (cnt < w64)%N -> (2 * dlen h n < w64)%N ->
  n_val (nd (fst (cd_delete h n off cnt)) n) =
  firstn (N.to_nat off) (n_val (nd h n)) ++ skipn (N.to_nat (off + N.min cnt (dlen h n - off))) (n_val (nd h n)).
Proof. exact cd_delete_value. Qed.
Print Assumptions T13_chardata_delete.

Example T13_chardata_delete_wraps :
  let h := fst (step (init_heap 1) (OCreate 0 TText [] [97; 98; 99; 100; 101; 102]%N)) in
  n_val (nd (fst (step h (ODeleteData 1 1 18446744073709551615))) 1) = [97%N].
Proof. vm_compute. reflexivity. Qed.

(** exceptions leave the heap unchanged -- proved for removeChild and the character-data operations (which check
    before they mutate) and, below, for insertBefore without a fragment; for replaceChild/splitText/cloneNode/normalize/renameNode it is NOT proved (and it is false for
    a DocumentFragment moved into a Document, T13_fragment_into_document_refuted); the correspondence compares the full
    dump after every raising operation *)
Theorem T13_error_unchanged_partial : forall h p c n (off cnt : N) s h' e,
  (v_remove h p c = (h', RErr e) \/
   cd_set h n s = (h', RErr e) \/ cd_append h n s = (h', RErr e) \/ cd_insert h n off s = (h', RErr e) \/
   cd_delete h n off cnt = (h', RErr e) \/ cd_substring h n off cnt = (h', RErr e)) -> h' = h.
Proof.
  intros h p c n off cnt s h' e [H|H]; [eapply v_remove_error_unchanged; exact H|eapply chardata_error_unchanged; exact H].
Qed.
Print Assumptions T13_error_unchanged_partial.

(** T13_error_unchanged for insertBefore / appendChild (any target incl. Document and Attr, any cfg) when newChild
    is not a DocumentFragment: a DOMException leaves the heap exactly as it was.  For a DocumentFragment newChild the
    claim is NOT proved (it needs the sibling-chain invariant to show that the move loop cannot fail once the pre-scan
    passed) and is false for a Document target (F27); the correspondence covers it with fragments whose children are
    illegal for the target at every position. *)
Theorem T13_insert_error_unchanged_partial : forall fuel cf h this new ref h' e,
  n_ty (nd h new) <> TFrag -> ins fuel cf h this new ref = (h', RErr e) -> h' = h.
Proof. exact ins_error_unchanged. Qed.
Print Assumptions T13_insert_error_unchanged_partial.

(** renameNode on the model: a Level-1 element in the middle of its siblings renamed into a namespace is replaced by a
    new node at the SAME position, which takes over children and attributes (the reference DOM agrees) *)
Example T13_rename_keeps_position :
  let l := [OCreate 0 TElem A []; OAppend 0 1; OCreate 0 TElem A []; OCreate 0 TElem X []; OCreate 0 TElem A [];
            OAppend 1 2; OAppend 1 3; OAppend 1 4; OCreate 0 TText [] X; OAppend 3 5; OSetAttr 3 A X;
            ORename 0 3 X [112; 58; 98]%N] in
  let '(h, rs) := run_cfg cfg_fixed (init_heap 1) l in
  kids h 1 = [2; 8; 4] /\ kids h 8 = [5] /\ kids h 3 = [] /\ n_attrs (nd h 8) = [6] /\ n_oelem (nd h 6) = Some 8 /\
  n_attrs (nd h 3) = [] /\
  abs h = fst (srun (sinit 1) l).
Proof. vm_compute. repeat split; reflexivity. Qed.

(** KNOWN FINDINGS F30 / F31 on the faithful model *)
Theorem T13_rename_unchecked_name_refuted :
  let h := fst (step (init_heap 1) (OCreate 0 TElem A [])) in
  snd (step_cfg cfg_head h (ORename 0 1 [] [49; 97]%N)) = RNode 1 /\ snd (sstep (abs h) (ORename 0 1 [] [49; 97]%N)) = RErr INVALID_CHAR.
Proof. vm_compute. split; reflexivity. Qed.
Print Assumptions T13_rename_unchecked_name_refuted.

Theorem T13_rename_ns_error_changes_name_refuted :
  let h := fst (run_cfg cfg_fixed (init_heap 1) [OCreate 0 TElem A []; ORename 0 1 X [112; 58; 98]%N]) in
  let '(h1, r) := step h (ORename 0 2 X [113; 58]%N) in
  r = RErr NAMESPACE /\ n_name (nd h 2) = [112; 58; 98]%N /\ n_name (nd h1 2) = [113; 58]%N.
Proof. vm_compute. repeat split; reflexivity. Qed.
Print Assumptions T13_rename_ns_error_changes_name_refuted.

(** ------------------------------------------------------------------------------------------------------------
    T13_wf_preserved -- the FULL invariant of the property's first clause.
    [WFheap h] = [WFup h] (above) + [exists ks, WFsib h ks] (Proofs13f.v): for every node p the child chain is a list
    ks p without repetition of live nodes such that fFirstChild is its head, every element is owned by p with OWNED set,
    nextSibling is the successor, previousSibling the predecessor, the head's previousSibling is the LAST child
    (circular), FIRSTCHILD is set on the head only; every OWNED node is in the chain of its owner; a node that is not
    OWNED has no siblings and no FIRSTCHILD flag.
    Proved for createX, insertBefore, appendChild, removeChild, replaceChild (DocumentFragment operands included,
    any target incl. Document/Attr, ARBITRARY operands), all character-data operations, setAttributeNode,
    removeAttributeNode and the attribute getters ([link_op], [covered]); not for setAttribute / removeAttribute /
    setNodeValue on an Attr (they release nodes and rebuild the value); for cloneNode, normalize, splitText and renameNode only T13_wf_preserved_partial (the upward half)
    is proved -- they are compositions of the operations proved here, the composition lemmas are not done. *)
Theorem T13_wf_preserved : forall h o h' r, WFheap h -> link_op o = true -> covered h o = true -> step h o = (h', r) ->
  WFheap h' /\ length h <= length h'.
Proof. exact step_GW. Qed.
Print Assumptions T13_wf_preserved.

(** lifted to every heap reachable from n empty documents by any sequence of those operations *)
Theorem T13_wf_reachable : forall n l h rs, forallb (fun o => link_op o && no_attr_value_op o) l = true ->
  run_cfg cfg_fixed (init_heap n) l = (h, rs) -> WFheap h.
Proof. intros n l h rs Hl. apply run_WFheap; [apply WFheap_init|exact Hl]. Qed.
Print Assumptions T13_wf_reachable.

(** the two primitives on their own (used by every composite operation) *)
Theorem T13_link_remove_wf : forall h ks this old, WFsib h ks -> this < length h -> old < length h ->
  n_owned (nd h old) = true -> n_owner (nd h old) = this ->
  WFsib (link_remove h this old) (ks_set ks this (remove_id old (ks this))).
Proof. exact WFsib_link_remove. Qed.
Print Assumptions T13_link_remove_wf.

Theorem T13_link_insert_wf : forall h ks this new ref, WFsib h ks -> this < length h -> new < length h -> new <> this ->
  n_owned (nd h new) = false -> (forall r, ref = Some r -> In r (ks this)) ->
  WFsib (link_insert h this new ref) (ks_set ks this (insert_before ref new (ks this))).
Proof. exact WFsib_link_insert. Qed.
Print Assumptions T13_link_insert_wf.

(** the fuel of the model's firstChild/nextSibling walk suffices: [kids] is exactly the chain of the invariant, it lists
    exactly the nodes owned by p, and lastChild (= firstChild.previousSibling) is its last element.  Note that the new
    child lists of the two primitives are the reference DOM's [remove_id] / [insert_before] (Spec13), so these theorems
    are the link-level half of T13_refines: kids (link_insert h p c ref) p = insert_before ref c (kids h p). *)
Theorem T13_kids_exact : forall h ks p, WFsib h ks -> p < length h -> kids h p = ks p.
Proof. exact kids_exact. Qed.
Print Assumptions T13_kids_exact.

Theorem T13_kids_are_the_owned : forall h ks p c, WFsib h ks -> p < length h -> c < length h ->
  (In c (kids h p) <-> n_owned (nd h c) = true /\ n_owner (nd h c) = p).
Proof. exact kids_are_the_owned. Qed.
Print Assumptions T13_kids_are_the_owned.

Theorem T13_last_child : forall h ks p, WFsib h ks -> p < length h ->
  last_child h p = match kids h p with [] => None | f :: r => Some (last r f) end.
Proof. exact last_child_is_last. Qed.
Print Assumptions T13_last_child.

(** non-vacuity: the heap of T13_wf_nonvacuous without its clone is reachable by link operations only, hence WFheap *)
Example T13_wfheap_nonvacuous :
  let l := [OCreate 0 TElem A []; OAppend 0 2; OCreate 0 TElem A []; OAppend 2 3; OCreate 0 TText [] X; OAppend 3 4;
            OCreate 0 TFrag [] []; OCreate 0 TComment [] X; OAppend 5 6; OInsertBefore 3 5 (Some 4); OReplace 2 4 3; OAppend 4 2] in
  let '(h, rs) := run_cfg cfg_fixed (init_heap 2) l in
  kids h 2 = [4] /\ kids h 3 = [6] /\ last rs ROk = RErr HIERARCHY /\ WFheap h.
Proof. cbv zeta. destruct (run_cfg _ _ _) as [h rs] eqn:E. split; [|split; [|split]];
  try (vm_compute in E; injection E as <- <-; vm_compute; reflexivity).
  eapply run_WFheap; [apply (WFheap_init 2)| |exact E]. reflexivity. Qed.

(** T13_attr_node_identity: removeAttributeNode(a) removes THAT node -- it succeeds only when a itself is in the
    element's attribute map (an attribute of the same name owned by another element or by nobody does not count),
    and otherwise raises NOT_FOUND_ERR (or NO_MODIFICATION_ALLOWED_ERR) with the heap unchanged.  The attribute map is
    modelled as the name-sorted vector of Attr node identities searched linearly (the bisection of
    DOMAttrMapImpl::findNamePoint is not modelled: T13_attrmap stays unproved). *)
Theorem T13_attr_node_identity : forall h e a h' r, remove_attribute_node h e a = (h', r) ->
  (r = RNode a /\ In a (n_attrs (nd h e))) \/ ((r = RErr NOT_FOUND \/ r = RErr NO_MOD) /\ h' = h).
Proof. exact remove_attribute_node_identity. Qed.
Print Assumptions T13_attr_node_identity.

(** ------------------------------------------------------------------------------------------------------------
    User data.  The model keeps the records of the document's (node, key) table with the node they belong to; node identity
    is creation order, so a node created after a release() is a NEW node even when the implementation recycles the storage.
    T13_userdata_fresh: every createX returns a node without user data.  T13_userdata_set_get / _frame: setUserData(n, key)
    makes getUserData(n, key) return the data and changes no other node (and no other key of n, [ud_get_del_other]).
    NOT proved: the frame over ALL operations ("user data of n changes only by setUserData on n, release, renameNode's
    transfer"); the correspondence compares getUserData for every (live node, key) pair after every operation. *)
Theorem T13_userdata_fresh : forall h d t nm v h' i key, create h d t nm v = (h', RNode i) ->
  n_udata (nd h' i) = [] /\ snd (get_user_data h' i key) = RData 0.
Proof. exact create_no_user_data. Qed.
Print Assumptions T13_userdata_fresh.

Theorem T13_userdata_set_get : forall h n key data hd, n < length h -> data <> 0%N ->
  snd (get_user_data (fst (set_user_data h n key data hd)) n key) = RData data.
Proof. exact set_get_user_data. Qed.
Print Assumptions T13_userdata_set_get.

Theorem T13_userdata_frame : forall h n key data hd m, m <> n ->
  n_udata (nd (fst (set_user_data h n key data hd)) m) = n_udata (nd h m) /\
  n_hasud (nd (fst (set_user_data h n key data hd)) m) = n_hasud (nd h m).
Proof. exact set_user_data_frame. Qed.
Print Assumptions T13_userdata_frame.

(** The ID map (DOMNodeIDMap with its hash, probe sequence and deleted markers; growth not modelled): remove(attr) marks
    the slot holding THAT attribute and leaves every other entry -- in particular one of another attribute with the same
    value -- where it is. *)
Theorem T13_idmap_remove_identity : forall h a k, n_odoc (nd h a) < length h ->
  let d := n_odoc (nd h a) in
  tab_get (n_idtab (nd (id_remove h a) d)) k = tab_get (n_idtab (nd h d)) k \/
  (tab_get (n_idtab (nd h d)) k = Some (Some a) /\ tab_get (n_idtab (nd (id_remove h a) d)) k = Some None).
Proof. exact id_remove_identity. Qed.
Print Assumptions T13_idmap_remove_identity.

(** non-vacuity + the duplicate-ID scenario on the model: two elements carry the ID "d"; un-registering the SECOND one
    leaves getElementById("d") on the first, un-registering the first moves it to the second *)
Example T13_duplicate_ids :
  let pre := [OCreate 0 TElem A []; OCreate 0 TElem X []; OSetAttr 1 A [100%N]; OSetAttr 2 A [100%N]; OSetIdAttr 1 A true; OSetIdAttr 2 A true] in
  snd (run_cfg cfg_fixed (init_heap 1) (pre ++ [ORemoveAttrNode 2 5; OGetById 0 [100%N]])) =
    [RNode 1; RNode 2; ROk; ROk; ROk; ROk; RNode 5; RNode 1] /\
  snd (run_cfg cfg_fixed (init_heap 1) (pre ++ [OSetIdAttr 1 A false; OGetById 0 [100%N]])) =
    [RNode 1; RNode 2; ROk; ROk; ROk; ROk; ROk; RNode 2].
Proof. vm_compute. split; reflexivity. Qed.

(** ------------------------------------------------------------------------------------------------------------
    T13_wf_preserved_all -- the FULL invariant [WFheap] for EVERY operation of the model (Proofs13m.v): also cloneNode
    (deep, with attributes), normalize, splitText, renameNode, setAttribute, removeAttribute and setNodeValue on an Attr,
    with ARBITRARY operands, whatever the result (value, exception, skip).  The only side condition is syntactic:
    setAttribute is not called with the EMPTY name ([named_attr_op]; createAttribute refuses it with
    INVALID_CHARACTER_ERR -- the model's by-name search could otherwise "find" an index outside the heap, because the
    invariant does not speak about the contents of attribute maps). *)
Theorem T13_wf_preserved_all : forall h o h' r, WFheap h -> named_attr_op o = true -> step h o = (h', r) ->
  WFheap h' /\ length h <= length h'.
Proof. exact step_GW_all. Qed.
Print Assumptions T13_wf_preserved_all.

(** ... hence for every heap reachable from n empty documents by ANY sequence of the 27 operation kinds *)
Theorem T13_wf_reachable_all : forall n l h rs, forallb named_attr_op l = true ->
  run_cfg cfg_fixed (init_heap n) l = (h, rs) -> WFheap h.
Proof. intros n l h rs Hl E. exact (proj1 (run_WFheap_all l _ _ _ (WFheap_init n) Hl E)). Qed.
Print Assumptions T13_wf_reachable_all.

(** non-vacuity: a history with clone, split, normalize, rename, setAttribute (twice: the value is rebuilt), removeAttribute *)
Example T13_wf_all_nonvacuous :
  let l := [OCreate 0 TElem A []; OAppend 0 1; OCreate 0 TText [] [97; 98; 99]%N; OAppend 1 2; OSplitText 2 1;
            OSetAttr 1 A X; OSetAttr 1 A A; OClone 1 true; ONormalize 1; ORename 0 1 X [112; 58; 98]%N; ORemoveAttr 12 A] in
  let '(h, rs) := run_cfg cfg_fixed (init_heap 1) l in
  nth 4 rs ROk = RNode 3 /\ kids h 12 = [2] /\ n_attrs (nd h 12) = [] /\ WFheap h.
Proof. cbv zeta. destruct (run_cfg _ _ _) as [h rs] eqn:E. split; [|split; [|split]];
  try (vm_compute in E; injection E as <- <-; vm_compute; reflexivity).
  eapply T13_wf_reachable_all; [|exact E]. reflexivity. Qed.

(** ------------------------------------------------------------------------------------------------------------
    T13_attrmap -- DOMAttrMapImpl's name-sorted vector.  [find_name_point] (AttrMap13.v) is the bisection of
    DOMAttrMapImpl::findNamePoint(name) line by line (int arithmetic, the "if (first>i) i=first" epilogue, -1 - i encoding).
    T13_attrmap_bisect: on a strictly name-sorted vector of ANY length it returns either an index holding the name or
    -1 - p where every entry before p is smaller and every entry from p on is greater ([fnp_ok]); the fuel of the model
    (size + 1 iterations) is never exhausted.  T13_attrmap_find / _put: getNamedItem and the vector update of setNamedItem
    computed through the bisection equal the linear search / insertion [amap_find] / [amap_put] that the heap model uses.
    T13_attrmap_sorted_partial: setNamedItem and removeNamedItem keep the vector strictly sorted (hence names unique,
    T13_attrmap_unique).  PARTIAL: sortedness is proved per update of one vector, not as an invariant of all operation
    histories (renameNode changes the name of a detached attribute; the heap invariant WFheap does not speak about
    attribute maps); the correspondence asks findNamePoint itself after every update (query fp). *)
Theorem T13_attrmap_bisect : forall h l nm, lsorted (names h l) -> fnp_ok h l nm (find_name_point h l nm).
Proof. intros h l nm S. apply find_name_point_ok. apply sorted_Hs. exact S. Qed.
Print Assumptions T13_attrmap_bisect.

Theorem T13_attrmap_find : forall h l nm, lsorted (names h l) -> amap_find_bis h l nm = amap_find h l nm.
Proof. exact find_bis_eq. Qed.
Print Assumptions T13_attrmap_find.

Theorem T13_attrmap_put : forall h l a, lsorted (names h l) -> amap_put_bis h l a = amap_put h l a.
Proof. exact put_bis_eq. Qed.
Print Assumptions T13_attrmap_put.

Theorem T13_attrmap_sorted_partial : forall h l a, lsorted (names h l) ->
  lsorted (names h (amap_put h l a)) /\ lsorted (names h (amap_del l a)).
Proof. intros h l a S. split; [apply amap_put_sorted|apply amap_del_sorted]; exact S. Qed.
Print Assumptions T13_attrmap_sorted_partial.

Theorem T13_attrmap_unique : forall h l i j, lsorted (names h l) -> i < length l -> j < length l ->
  n_name (nd h (nth i l 0)) = n_name (nd h (nth j l 0)) -> i = j.
Proof. exact lsorted_unique. Qed.
Print Assumptions T13_attrmap_unique.

(** non-vacuity: sorted vectors of every size arise from the empty one by setNamedItem; and the bisection on a concrete
    element with five attributes inserted out of order (c, a, e, b, d): present names, absent names before / between / after *)
Example T13_attrmap_nonvacuous_sorted : forall h a b c, lsorted (names h (amap_put h (amap_put h (amap_put h [] a) b) c)).
Proof. intros. repeat apply amap_put_sorted. exact I. Qed.

Example T13_attrmap_nonvacuous :
  let nmc (c : N) : str := [c] in
  let l := [OCreate 0 TElem A []; OSetAttr 1 (nmc 99%N) X; OSetAttr 1 (nmc 97%N) X; OSetAttr 1 (nmc 101%N) X;
            OSetAttr 1 (nmc 98%N) X; OSetAttr 1 (nmc 100%N) X] in
  let h := fst (run_cfg cfg_fixed (init_heap 1) l) in
  n_attrs (nd h 1) = [4; 8; 2; 10; 6] /\
  map (find_name_point h (n_attrs (nd h 1))) [nmc 97%N; nmc 99%N; nmc 101%N; nmc 65%N; [98; 98]%N; nmc 122%N] = [0; 2; 4; -1; -3; -6]%Z /\
  map (fun q => amap_find_bis h (n_attrs (nd h 1)) q) [nmc 98%N; nmc 102%N] = [Some 8; None].
Proof. vm_compute. repeat split; reflexivity. Qed.
