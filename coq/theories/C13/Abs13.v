(** C13 -- the abstraction function from the implementation heap (Model13) to the reference store (Spec13):
    every field is read through the model's public getters; the child list is the firstChild/nextSibling walk. *)
From Coq Require Import NArith List Bool Arith.
From XV Require Import C13.Ops13 C13.Spec13 C13.Model13.
Import ListNotations.

Definition abs_node (h : heap) (i : id) : snode :=
  let x := nd h i in
  mkS (n_ty x) (n_name x) (n_val x) (n_attrs x)
      (match pub_odoc h i with Some d => d | None => i end)
      (parent h i) (kids h i) (n_ro x) (n_ns x) (negb (n_nsimpl x)) (n_oelem x) (n_dead x)
      (if n_hasud x then map (fun p => (fst p, fst (snd p))) (n_udata x) else []) (n_isid x).
Definition abs (h : heap) : sheap := map (abs_node h) (seq 0 (length h)).
