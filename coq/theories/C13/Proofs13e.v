(** C13 -- lemmas, part e: character-data offset laws and "an exception leaves the heap unchanged" for the
    operations that check before they mutate. *)
From Coq Require Import NArith List Bool Arith Lia ZArith ZifyN ZifyNat.
From XV Require Import Base.XDefs Gen.GenKidOK C13.Ops13 C13.Spec13 C13.Model13 C13.Abs13 C13.Proofs13b.
Import ListNotations.

Local Open Scope N_scope.

Lemma cd_insert_index : forall h n off s, n_ro (nd h n) = false ->
  (snd (cd_insert h n off s) = RErr INDEX_SIZE <-> dlen h n < off).
Proof.
  intros h n off s R. unfold cd_insert. rewrite R. destruct (N.ltb_spec (dlen h n) off); cbn; split; intros H0; try lia; try reflexivity; discriminate.
Qed.
Lemma cd_delete_index : forall h n off cnt, n_ro (nd h n) = false ->
  (snd (cd_delete h n off cnt) = RErr INDEX_SIZE <-> dlen h n < off).
Proof.
  intros h n off cnt R. unfold cd_delete. rewrite R. cbv zeta. destruct (N.ltb_spec (dlen h n) off); cbn [snd]; split; intros H0; try lia; try reflexivity; discriminate.
Qed.
Lemma cd_substring_index : forall h n off cnt,
  (snd (cd_substring h n off cnt) = RErr INDEX_SIZE <-> dlen h n < off).
Proof.
  intros h n off cnt. unfold cd_substring. cbv zeta. destruct (N.ltb_spec (dlen h n) off); cbn [snd]; split; intros H0; try lia; try reflexivity; discriminate.
Qed.
Lemma split_index : forall cf h n off, n_ro (nd h n) = false ->
  dlen h n < off -> split_text cf h n off = (h, RErr INDEX_SIZE).
Proof.
  intros cf h n off R L. unfold split_text. rewrite R. cbv zeta.
  apply N.ltb_lt in L. rewrite L. reflexivity.
Qed.

(** deleteData: whatever the 64-bit count, exactly the units from [off] up to min(off + cnt, length) are removed: a
    count that extends off the end (including one so large that off + cnt wraps around 2^64) means "to the end" *)
Lemma cd_delete_value : forall h n off cnt, (n < length h)%nat -> n_ro (nd h n) = false -> off <= dlen h n -> cnt < w64 -> 2 * dlen h n < w64 ->
  n_val (nd (fst (cd_delete h n off cnt)) n) =
  firstn (N.to_nat off) (n_val (nd h n)) ++ skipn (N.to_nat (off + N.min cnt (dlen h n - off))) (n_val (nd h n)).
Proof.
  intros h n off cnt Hn R L Hc Hw. unfold cd_delete. rewrite R. cbv zeta.
  destruct (N.ltb_spec (dlen h n) off); [lia|]. cbn [fst].
  rewrite nd_upd_eq by assumption. cbn [n_val set_val]. f_equal. f_equal. f_equal. f_equal.
  unfold wadd.
  destruct (N.ltb_spec (dlen h n) cnt).
  - rewrite N.mod_small by (unfold w64 in *; lia).
    destruct (N.leb_spec (dlen h n) (off + dlen h n)); lia.
  - rewrite N.mod_small by (unfold w64 in *; lia).
    destruct (N.leb_spec (dlen h n) (off + cnt)); lia.
Qed.

(** insertData splices the string in at the offset *)
Lemma cd_insert_value : forall h n off s, (n < length h)%nat -> n_ro (nd h n) = false -> off <= dlen h n ->
  n_val (nd (fst (cd_insert h n off s)) n) =
  firstn (N.to_nat off) (n_val (nd h n)) ++ s ++ skipn (N.to_nat off) (n_val (nd h n)).
Proof.
  intros h n off s Hn R L. unfold cd_insert. rewrite R. cbv zeta. destruct (N.ltb_spec (dlen h n) off); [lia|].
  cbn [fst]. rewrite nd_upd_eq by assumption. reflexivity.
Qed.

(** exceptions of the operations that check first leave the heap as it was *)
Lemma v_remove_error_unchanged : forall h p c h' e, v_remove h p c = (h', RErr e) -> h' = h.
Proof.
  intros h p c h' e. unfold v_remove, p_remove.
  destruct (n_ty (nd h p)); try (intros [= <- _]; reflexivity);
    destruct (n_ro _); try (intros [= <- _]; reflexivity);
    destruct (negb _); try (intros [= <- _]; reflexivity); cbn [is_err]; try discriminate.
  destruct (n_ty _); discriminate.
Qed.

Lemma chardata_error_unchanged : forall h n off cnt s h' e,
  (cd_set h n s = (h', RErr e) \/ cd_append h n s = (h', RErr e) \/ cd_insert h n off s = (h', RErr e) \/
   cd_delete h n off cnt = (h', RErr e) \/ cd_substring h n off cnt = (h', RErr e)) ->
  h' = h.
Proof.
  intros h n off cnt s h' e. unfold cd_set, cd_append, cd_insert, cd_substring, cd_delete.
  intros [H|[H|[H|[H|H]]]]; revert H.
  - destruct (n_ro _); [intros [= <- _]; reflexivity|discriminate].
  - destruct (n_ro _); [intros [= <- _]; reflexivity|discriminate].
  - destruct (n_ro _); [intros [= <- _]; reflexivity|]. destruct (N.ltb _ _); [intros [= <- _]; reflexivity|discriminate].
  - destruct (n_ro _); [intros [= <- _]; reflexivity|]. destruct (N.ltb _ _); [intros [= <- _]; reflexivity|discriminate].
  - destruct (N.ltb _ _); [intros [= <- _]; reflexivity|intros [= <- _]; reflexivity].
Qed.

(** insertBefore / appendChild with a newChild that is not a DocumentFragment: every exception is raised before the
    first link is touched (the only mutating call that can throw, oldparent->removeChild, throws before it mutates) *)
Lemma pins_error_unchanged : forall insf cf h this new ref h' e,
  n_ty (nd h new) <> TFrag -> pins_body insf cf h this new ref = (h', RErr e) -> h' = h.
Proof.
  intros insf cf h this new ref h' e T. unfold pins_body.
  destruct (n_ro _); [intros [= <- _]; reflexivity|].
  destruct (negb (oid_eqb _ _)); [intros [= <- _]; reflexivity|].
  destruct (if fix_self cf then _ else _); [intros [= <- _]; reflexivity|].
  destruct (match ref with Some r0 => _ | None => false end); [intros [= <- _]; reflexivity|].
  destruct (oid_eqb ref (Some new)); [discriminate|].
  destruct (ntype_eqb (n_ty (nd h new)) TFrag) eqn:EF.
  { destruct (n_ty (nd h new)); try discriminate EF. contradiction T; reflexivity. }
  destruct (negb (kid_ok h this new)); [intros [= <- _]; reflexivity|].
  destruct (parent h new) as [op|]; [|discriminate].
  destruct (v_remove h op new) as [h1 r1] eqn:E1.
  destruct r1; cbn [is_err]; try discriminate.
  intros [= <- <-]. eapply v_remove_error_unchanged; exact E1.
Qed.

Lemma ins_error_unchanged : forall fuel cf h this new ref h' e,
  n_ty (nd h new) <> TFrag -> ins fuel cf h this new ref = (h', RErr e) -> h' = h.
Proof.
  intros [|fuel] cf h this new ref h' e T; cbn [ins]; [intros [= <- _]; reflexivity|].
  destruct (n_ty (nd h this)); try (intros [= <- _]; reflexivity); try (apply pins_error_unchanged; assumption).
  destruct (_ && _ && _); [intros [= <- _]; reflexivity|].
  destruct (_ && _); [intros [= <- _]; reflexivity|].
  destruct (pins_body _ cf h this new ref) as [h1 r1] eqn:E1.
  destruct r1; cbn [is_err]; try (destruct (ntype_eqb _ _); discriminate).
  intros [= <- <-]. eapply pins_error_unchanged; eassumption.
Qed.

(** removeAttributeNode removes THAT node or nothing: identity, not name *)
Lemma amap_find_in : forall h l nm f, amap_find h l nm = Some f -> In f l.
Proof. induction l as [|a l IH]; cbn; [discriminate|]. intros nm f. destruct (str_eqb _ _); [intros [= <-]; left; reflexivity|intros H; right; eapply IH; exact H]. Qed.
Lemma amap_find_ns_in : forall h l ns loc f, amap_find_ns h l ns loc = Some f -> In f l.
Proof. induction l as [|a l IH]; cbn; [discriminate|]. intros ns loc f. destruct (_ && _); [intros [= <-]; left; reflexivity|intros H; right; eapply IH; exact H]. Qed.

Lemma remove_attribute_node_identity : forall h e a h' r, remove_attribute_node h e a = (h', r) ->
  (r = RNode a /\ In a (n_attrs (nd h e))) \/ ((r = RErr NOT_FOUND \/ r = RErr NO_MOD) /\ h' = h).
Proof.
  intros h e a h' r. unfold remove_attribute_node.
  destruct (n_ro _); [intros [= <- <-]; right; auto|].
  destruct (if n_nsimpl (nd h a) then _ else _) as [f|] eqn:Ef; [|intros [= <- <-]; right; auto].
  destruct (Nat.eqb_spec f a) as [->|_]; [|intros [= <- <-]; right; auto].
  intros [= _ <-]. left. split; [reflexivity|].
  destruct (n_nsimpl (nd h a)); [eapply amap_find_ns_in|eapply amap_find_in]; exact Ef.
Qed.
