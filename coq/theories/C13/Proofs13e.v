(** C13 -- lemmas, part e: character-data offset laws and "an exception leaves the heap unchanged" for the
    operations that check before they mutate. *)
From Coq Require Import NArith List Bool Arith Lia.
From XV Require Import Base.XDefs Gen.GenKidOK C13.Ops13 C13.Spec13 C13.Model13 C13.Abs13 C13.Proofs13b.
Import ListNotations.

Lemma cd_insert_index : forall h n off s, n_ro (nd h n) = false ->
  (snd (cd_insert h n off s) = RErr INDEX_SIZE <-> length (n_val (nd h n)) < off).
Proof.
  intros h n off s R. unfold cd_insert. rewrite R. destruct (Nat.ltb_spec (length (n_val (nd h n))) off); cbn; split; intros H0; try lia; try reflexivity; discriminate.
Qed.
Lemma cd_delete_index : forall h n off cnt, n_ro (nd h n) = false ->
  (snd (cd_delete h n off cnt) = RErr INDEX_SIZE <-> length (n_val (nd h n)) < off).
Proof.
  intros h n off cnt R. unfold cd_delete. rewrite R. destruct (Nat.ltb_spec (length (n_val (nd h n))) off); cbn; split; intros H0; try lia; try reflexivity; discriminate.
Qed.
Lemma cd_substring_index : forall h n off cnt,
  (snd (cd_substring h n off cnt) = RErr INDEX_SIZE <-> length (n_val (nd h n)) < off).
Proof.
  intros h n off cnt. unfold cd_substring. destruct (Nat.ltb_spec (length (n_val (nd h n))) off); cbn; split; intros H0; try lia; try reflexivity; discriminate.
Qed.
Lemma split_index : forall cf h n off, n_ro (nd h n) = false ->
  length (n_val (nd h n)) < off -> split_text cf h n off = (h, RErr INDEX_SIZE).
Proof.
  intros cf h n off R L. unfold split_text. rewrite R. cbv zeta.
  apply Nat.ltb_lt in L. rewrite L. reflexivity.
Qed.

(** insertData splices the string in at the offset *)
Lemma cd_insert_value : forall h n off s, n < length h -> n_ro (nd h n) = false -> off <= length (n_val (nd h n)) ->
  n_val (nd (fst (cd_insert h n off s)) n) = firstn off (n_val (nd h n)) ++ s ++ skipn off (n_val (nd h n)).
Proof.
  intros h n off s Hn R L. unfold cd_insert. rewrite R. destruct (Nat.ltb_spec (length (n_val (nd h n))) off); [lia|].
  cbn [fst]. rewrite nd_upd_eq by assumption. reflexivity.
Qed.

(** exceptions of the operations that check first leave the heap as it was *)
Lemma v_remove_error_unchanged : forall h p c h' e, v_remove h p c = (h', RErr e) -> h' = h.
Proof.
  intros h p c h' e. unfold v_remove, p_remove.
  destruct (n_ty (nd h p)); try (intros [= <- _]; reflexivity);
    destruct (n_ro _); try (intros [= <- _]; reflexivity);
    destruct (negb _); try (intros [= <- _]; reflexivity); cbn [is_err]; try discriminate.
  destruct (n_ty _); discriminate.
Qed.

Lemma chardata_error_unchanged : forall h n off cnt s h' e,
  (cd_set h n s = (h', RErr e) \/ cd_append h n s = (h', RErr e) \/ cd_insert h n off s = (h', RErr e) \/
   cd_delete h n off cnt = (h', RErr e) \/ cd_substring h n off cnt = (h', RErr e)) ->
  h' = h.
Proof.
  intros h n off cnt s h' e. unfold cd_set, cd_append, cd_insert, cd_substring, cd_delete.
  intros [H|[H|[H|[H|H]]]]; revert H.
  - destruct (n_ro _); [intros [= <- _]; reflexivity|discriminate].
  - destruct (n_ro _); [intros [= <- _]; reflexivity|discriminate].
  - destruct (n_ro _); [intros [= <- _]; reflexivity|]. destruct (_ <? _); [intros [= <- _]; reflexivity|discriminate].
  - destruct (n_ro _); [intros [= <- _]; reflexivity|]. destruct (_ <? _); [intros [= <- _]; reflexivity|discriminate].
  - destruct (_ <? _); [intros [= <- _]; reflexivity|intros [= <- _]; reflexivity].
Qed.
