(** C13 -- lemmas, part j: the full invariant [WFheap] is preserved by removeChild / insertBefore / appendChild /
    replaceChild (DocumentFragments included) and by the operations that do not touch links. *)
From Coq Require Import NArith List Bool Arith Lia.
From XV Require Import Base.XDefs Gen.GenKidOK C13.Ops13 C13.Spec13 C13.Model13 C13.Abs13 C13.Proofs13b C13.Proofs13c
  C13.Proofs13d C13.Proofs13f C13.Proofs13g C13.Proofs13h C13.Proofs13i.
Import ListNotations.

Definition WF (n : nat) (h : heap) : Prop := WFheap h /\ length h = n.

Lemma WF_PW : forall n h, WF n h -> PW n h.
Proof. intros n h [[W _] L]. split; assumption. Qed.

(** ------------------------------------------------------------ updates that touch no link *)
Definition sib_pres (f : node -> node) := forall x, svn (f x) = svn x /\ n_first (f x) = n_first x.

Lemma WFsib_ext : forall h h' ks, length h' = length h -> (forall j, sv h' j = sv h j) -> (forall j, fv h' j = fv h j) ->
  WFsib h ks -> WFsib h' ks.
Proof.
  intros h h' ks L Es Ef W.
  assert (Eo : forall c, n_owner (nd h' c) = n_owner (nd h c) /\ n_owned (nd h' c) = n_owned (nd h c)).
  { intros c. generalize (Es c). unfold sv, svn. intros [= -> -> _ _ _]. auto. }
  split.
  - intros p Hp. rewrite L in Hp. apply sibs_frame with (h := h); [apply Ef|intros; apply Es|apply (s_sibs _ _ W); exact Hp].
  - intros p c Hc. rewrite L. apply (s_valid _ _ W); exact Hc.
  - apply (s_nodup _ _ W).
  - intros c Hc Ho. rewrite L in Hc. destruct (Eo c) as [E1 E2]. rewrite E1. rewrite E2 in Ho. apply (s_owned _ _ W); assumption.
  - intros c Hc Ho. rewrite L in Hc. destruct (Eo c) as [E1 E2]. rewrite E1, Es. rewrite E2 in Ho. apply (s_free _ _ W); assumption.
Qed.

Lemma sv_fv_upd_pres : forall h i f, sib_pres f -> (forall j, sv (upd h i f) j = sv h j) /\ (forall j, fv (upd h i f) j = fv h j).
Proof.
  intros h i f Hf. split; intros j; unfold sv, fv; destruct (Nat.eq_dec i j) as [->|Hn].
  - destruct (Nat.lt_ge_cases j (length h)); [rewrite nd_upd_eq by assumption; apply Hf|rewrite upd_oob by assumption; reflexivity].
  - rewrite nd_upd_ne by assumption. reflexivity.
  - destruct (Nat.lt_ge_cases j (length h)); [rewrite nd_upd_eq by assumption; apply Hf|rewrite upd_oob by assumption; reflexivity].
  - rewrite nd_upd_ne by assumption. reflexivity.
Qed.

Lemma WF_upd_pres : forall n h i f, up_pres f -> sib_pres f -> WF n h -> WF n (upd h i f).
Proof.
  intros n h i f Hu Hs [[Wu [ks Ws]] L].
  destruct (PW_upd_pres n h i f Hu (conj Wu L)) as [Wu' L'].
  split; [|exact L']. split; [exact Wu'|]. exists ks.
  destruct (sv_fv_upd_pres h i f Hs). apply WFsib_ext with (h := h); auto. apply length_upd.
Qed.

Lemma sib_pres_docel v : sib_pres (set_docel v). Proof. intros []; split; reflexivity. Qed.
Lemma sib_pres_val v : sib_pres (set_val v). Proof. intros []; split; reflexivity. Qed.
Lemma sib_pres_attrs v : sib_pres (set_attrs v). Proof. intros []; split; reflexivity. Qed.
Lemma sib_pres_ro v : sib_pres (set_ro v). Proof. intros []; split; reflexivity. Qed.
Lemma sib_pres_name v : sib_pres (set_name v). Proof. intros []; split; reflexivity. Qed.
Lemma sib_pres_ns v : sib_pres (set_ns v). Proof. intros []; split; reflexivity. Qed.
#[export] Hint Resolve sib_pres_docel sib_pres_val sib_pres_attrs sib_pres_ro sib_pres_name sib_pres_ns : upres.

(** ------------------------------------------------------------ removeChild *)
Lemma parent_owned : forall h c p, parent h c = Some p -> n_owned (nd h c) = true /\ n_owner (nd h c) = p /\ c < length h.
Proof.
  intros h c p. unfold parent. destruct (n_owned (nd h c)) eqn:E; [|discriminate]. intros [= <-]. repeat split.
  destruct (Nat.lt_ge_cases c (length h)) as [|Hge]; [assumption|]. unfold nd in E. rewrite nth_overflow in E by assumption. discriminate.
Qed.

Lemma oid_eqb_eq : forall a b, oid_eqb a b = true -> a = b.
Proof. intros [x|] [y|]; cbn; try discriminate; auto. intros H. apply Nat.eqb_eq in H. congruence. Qed.

Lemma WF_p_remove : forall n h this old h' r, WF n h -> this < n -> p_remove h this old = (h', r) -> WF n h'.
Proof.
  intros n h this old h' r P Ht E. pose proof (PW_p_remove _ _ _ _ _ _ (WF_PW _ _ P) E) as [Wu' L'].
  revert E. unfold p_remove.
  destruct (n_ro _); [intros [= <- _]; assumption|].
  destruct (oid_eqb (parent h old) (Some this)) eqn:Ep; cbn [negb]; [|intros [= <- _]; assumption].
  intros [= <- _]. destruct P as [[Wu [ks Ws]] L]. split; [|exact L']. split; [exact Wu'|].
  apply oid_eqb_eq in Ep. destruct (parent_owned _ _ _ Ep) as [Ho [Hw Hl]].
  eexists. apply WFsib_link_remove; try eassumption. lia.
Qed.

Lemma WF_v_remove : forall n h this old h' r, WF n h -> this < n -> v_remove h this old = (h', r) -> WF n h'.
Proof.
  intros n h this old h' r P Ht. unfold v_remove.
  destruct (n_ty (nd h this)); try (intros [= <- _]; assumption); try (apply WF_p_remove; assumption).
  destruct (p_remove h this old) as [h1 r1] eqn:E. pose proof (WF_p_remove _ _ _ _ _ _ P Ht E) as P1.
  destruct (is_err r1); [intros [= <- _]; assumption|].
  destruct (n_ty (nd h1 old)); intros [= <- _]; try assumption. apply WF_upd_pres; auto with upres.
Qed.

(** after a successful removeChild the node is parentless *)
Lemma v_remove_unowned : forall h op new h1 r1, parent h new = Some op -> v_remove h op new = (h1, r1) -> is_err r1 = false ->
  n_owned (nd h1 new) = false /\ length h1 = length h.
Proof.
  intros h op new h1 r1 Hp. destruct (parent_owned _ _ _ Hp) as [Ho [Hw Hl]].
  assert (Q : forall t, n_owned (nd (link_remove h t new) new) = false).
  { intros t. generalize (uv_link_remove h t new new). rewrite Nat.eqb_refl. destruct (Nat.ltb_spec new (length h)); [|lia].
    cbn [andb]. unfold clr_par, uv, upf. rewrite Nat.eqb_refl. intros [= _ _ -> _]. reflexivity. }
  unfold v_remove, p_remove. rewrite Hp. cbn [oid_eqb]. rewrite Nat.eqb_refl. cbn [negb].
  destruct (n_ty (nd h op)); try (intros [= <- <-]; discriminate);
    destruct (n_ro (nd h op)); try (intros [= <- <-]; discriminate); cbn [is_err].
  - intros [= <- _] _. split; [apply Q|apply length_link_remove].
  - intros [= <- _] _. split; [apply Q|apply length_link_remove].
  - destruct (n_ty (nd (link_remove h op new) new)); intros [= <- _] _; (split; [|rewrite ?length_upd; apply length_link_remove]);
      try apply Q.
    generalize (uv_upd_pres (link_remove h op new) op (set_docel None) new (up_pres_docel None)).
    unfold uv, upf. intros [= _ _ -> _]. apply Q.
  - intros [= <- _] _. split; [apply Q|apply length_link_remove].
  - intros [= <- _] _. split; [apply Q|apply length_link_remove].
Qed.

(** ------------------------------------------------------------ insertBefore *)
Lemma pins_nonfrag_indep : forall insf1 insf2 cf h this new ref, ntype_eqb (n_ty (nd h new)) TFrag = false ->
  pins_body insf1 cf h this new ref = pins_body insf2 cf h this new ref.
Proof. intros. unfold pins_body. rewrite H. reflexivity. Qed.

Lemma first_valid : forall h ks p k, WFsib h ks -> n_first (nd h p) = Some k -> k < length h.
Proof.
  intros h ks p k W Hf. destruct (Nat.lt_ge_cases p (length h)) as [Hp|Hp].
  - pose proof (s_sibs _ _ W p Hp) as Hs. destruct (ks p) as [|f r] eqn:Ek.
    + cbn in Hs. unfold fv in Hs. congruence.
    + destruct Hs as [Hs _]. unfold fv in Hs. assert (f = k) by congruence. subst f.
      apply (s_valid _ _ W p k). rewrite Ek. left; reflexivity.
  - unfold nd in Hf. rewrite nth_overflow in Hf by assumption. discriminate.
Qed.

Lemma WF_move_loop : forall n k insf h frag h' r,
  (forall h0 kid h1 r1, WF n h0 -> kid < n -> insf h0 kid = (h1, r1) -> WF n h1) ->
  WF n h -> move_loop k insf h frag = (h', r) -> WF n h'.
Proof.
  induction k as [|k IH]; intros insf h frag h' r Hi P; cbn.
  - intros [= <- _]; assumption.
  - destruct (n_first (nd h frag)) as [kid|] eqn:Ef; [|intros [= <- _]; assumption].
    assert (Hk : kid < n).
    { destruct P as [[_ [ks Ws]] L]. rewrite <- L. eapply first_valid; eauto. }
    destruct (insf h kid) as [h1 r1] eqn:E. pose proof (Hi _ _ _ _ P Hk E) as P1.
    destruct (is_err r1); [intros [= <- _]; assumption|]. apply IH; assumption.
Qed.

Lemma WF_pins_body : forall n insf h this new ref h' r,
  (forall h0 kid h1 r1, WF n h0 -> kid < n -> insf h0 kid = (h1, r1) -> WF n h1) ->
  WF n h -> this < n -> new < n -> pins_body insf cfg_fixed h this new ref = (h', r) -> WF n h'.
Proof.
  intros n insf h this new ref h' r Hi P Ht Hnew E.
  destruct (ntype_eqb (n_ty (nd h new)) TFrag) eqn:EF.
  { (* DocumentFragment: the loop of virtual insertBefore calls *)
    revert E. unfold pins_body. rewrite EF.
    destruct (n_ro _); [intros [= <- _]; assumption|].
    destruct (negb (oid_eqb _ _)); [intros [= <- _]; assumption|].
    destruct (if fix_self cfg_fixed then _ else _); [intros [= <- _]; assumption|].
    destruct (match ref with Some r0 => _ | None => false end); [intros [= <- _]; assumption|].
    destruct (oid_eqb ref (Some new)); [intros [= <- _]; assumption|].
    destruct (forallb _ _); [|intros [= <- _]; assumption].
    destruct (move_loop _ _ _ _) as [h1 r1] eqn:E1. pose proof (WF_move_loop _ _ _ _ _ _ _ Hi P E1).
    destruct (is_err r1); intros [= <- _]; assumption. }
  (* the upward half comes from PW_pins_body (any insf will do: it is not called) *)
  assert (PWh' : PW n h').
  { apply (PW_pins_body n (fun h0 _ => (h0, ROk)) h this new ref h' r); [|apply WF_PW; exact P|exact Ht|].
    - intros h0 kid h1 r1 P0 [= <- _]. exact P0.
    - rewrite <- E. apply pins_nonfrag_indep. exact EF. }
  destruct PWh' as [Wu' L'].
  revert E. unfold pins_body. rewrite EF. change (fix_self cfg_fixed) with true. cbv iota.
  destruct (n_ro _); [intros [= <- _]; assumption|].
  destruct (oid_eqb (pub_odoc h new) _) eqn:Eo; cbn [negb]; [|intros [= <- _]; assumption].
  destruct (tree_safe _ _ _ _) eqn:Es; cbn [negb]; [|intros [= <- _]; assumption].
  destruct (match ref with Some r0 => negb (oid_eqb (parent h r0) (Some this)) | None => false end) eqn:Er; [intros [= <- _]; assumption|].
  destruct (oid_eqb ref (Some new)) eqn:Ern; [intros [= <- _]; assumption|].
  destruct (kid_ok h this new); cbn [negb]; [|intros [= <- _]; assumption].
  destruct (tree_safe_srooted _ _ _ _ Es) as [ks0 Hks].
  assert (Hthis : new <> this).
  { intros ->. destruct ks0; cbn in Hks; [discriminate|]. rewrite Nat.eqb_refl in Hks. discriminate. }
  destruct P as [[Wu [ks Ws]] L].
  (* the reference child is a child of this *)
  assert (Href : forall x, ref = Some x -> parent h x = Some this /\ x <> new).
  { intros x ->. split.
    - destruct (oid_eqb (parent h x) (Some this)) eqn:E1; [apply oid_eqb_eq; exact E1|discriminate].
    - intros ->. cbn in Ern. rewrite Nat.eqb_refl in Ern. discriminate. }
  destruct (parent h new) as [op|] eqn:Ep.
  - destruct (v_remove h op new) as [h1 r1] eqn:E1.
    assert (Hop : op < n).
    { destruct Wu as [V _ _ _]. rewrite <- L. destruct (parent_owned _ _ _ Ep) as [_ [_ Hl]]. apply (V new op Hl). rewrite vparent_uv. exact Ep. }
    pose proof (WF_v_remove n h op new h1 r1 (conj (conj Wu (ex_intro _ ks Ws)) L) Hop E1) as [[Wu1 [ks1 Ws1]] L1].
    destruct (is_err r1) eqn:Eerr; [intros [= <- _]; split; [split; [exact Wu1|exists ks1; exact Ws1]|exact L1]|].
    intros [= <- _]. split; [|exact L']. split; [exact Wu'|].
    destruct (v_remove_unowned _ _ _ _ _ Ep E1 Eerr) as [Hfree Hl1].
    destruct (parent_owned _ _ _ Ep) as [_ [_ Hnl]].
    eexists. apply WFsib_link_insert; try exact Ws1; try lia; try exact Hfree.
    intros x Hx. destruct (Href x Hx) as [Hpx Hxn]. destruct (parent_owned _ _ _ Hpx) as [Hxo [Hxw Hxl]].
    assert (V : uv h1 x = uv h x).
    { destruct (uv_v_remove _ _ _ _ _ E1) as [E|E]; rewrite E; [reflexivity|apply rm_view_other; exact Hxn]. }
    destruct (own_of_uv _ _ _ V) as [V1 V2].
    rewrite <- Hxw, <- V1. apply (s_owned _ _ Ws1); [lia|congruence].
  - intros [= <- _]. split; [|exact L']. split; [exact Wu'|].
    assert (Hfree : n_owned (nd h new) = false) by (unfold parent in Ep; destruct (n_owned (nd h new)); [discriminate|reflexivity]).
    eexists. apply WFsib_link_insert; try exact Ws; try lia; try exact Hfree.
    intros x Hx. destruct (Href x Hx) as [Hpx _]. destruct (parent_owned _ _ _ Hpx) as [Hxo [Hxw Hxl]].
    rewrite <- Hxw. apply (s_owned _ _ Ws); assumption.
Qed.

Lemma WF_ins : forall n fuel h this new ref h' r,
  WF n h -> this < n -> new < n -> ins fuel cfg_fixed h this new ref = (h', r) -> WF n h'.
Proof.
  induction fuel as [|fuel IH]; intros h this new ref h' r P Ht Hn; cbn [ins].
  - intros [= <- _]; assumption.
  - assert (Hi : forall h0 kid h1 r1, WF n h0 -> kid < n -> ins fuel cfg_fixed h0 this kid ref = (h1, r1) -> WF n h1).
    { intros h0 kid h1 r1 P0 Hk E0. exact (IH h0 this kid ref h1 r1 P0 Ht Hk E0). }
    destruct (n_ty (nd h this)); try (intros [= <- _]; assumption);
      try (apply (WF_pins_body n (fun h0 kid => ins fuel cfg_fixed h0 this kid ref)); assumption).
    destruct (_ && _ && _); [intros [= <- _]; assumption|].
    destruct (_ && _); [intros [= <- _]; assumption|].
    destruct (pins_body _ _ _ _ _ _) as [h1 r1] eqn:E.
    pose proof (WF_pins_body n _ _ _ _ _ _ _ Hi P Ht Hn E) as P1.
    destruct (is_err r1); [intros [= <- _]; assumption|].
    destruct (ntype_eqb _ _); intros [= <- _]; [apply WF_upd_pres; auto with upres|assumption].
Qed.

Lemma WF_v_replace : forall n h this new old h' r, WF n h -> this < n -> new < n ->
  v_replace cfg_fixed h this new old = (h', r) -> WF n h'.
Proof.
  intros n h this new old h' r P Ht Hn. unfold v_replace, p_replace.
  assert (Par : forall h0, WF n h0 ->
     (let (h1, r1) := ins ins_fuel cfg_fixed h0 this new (Some old) in if is_err r1 then (h1, r1) else p_remove h1 this old) = (h', r) ->
     WF n h').
  { intros h0 P0. destruct (ins _ _ h0 this new (Some old)) as [h1 r1] eqn:E1.
    pose proof (WF_ins _ _ _ _ _ _ _ _ P0 Ht Hn E1) as P1.
    destruct (is_err r1); [intros [= <- _]; assumption|]. apply WF_p_remove; assumption. }
  destruct (n_ty (nd h this)); try (intros [= <- _]; assumption); try (apply Par; assumption).
  set (h0 := if ntype_eqb (n_ty (nd h old)) TElem then upd h this (set_docel None) else h).
  assert (P0 : WF n h0) by (subst h0; destruct (ntype_eqb _ _); [apply WF_upd_pres; auto with upres|assumption]).
  destruct (ins _ _ h0 this new (Some old)) as [h1 r1] eqn:E1.
  pose proof (WF_ins _ _ _ _ _ _ _ _ P0 Ht Hn E1) as P1.
  destruct (is_err r1); [intros [= <- _]; apply WF_upd_pres; auto with upres|].
  destruct (if ntype_eqb (n_ty (nd h old)) TElem then p_remove h1 this old else v_remove h1 this old) as [h2 r2] eqn:E2.
  assert (P2 : WF n h2).
  { revert E2. destruct (ntype_eqb (n_ty (nd h old)) TElem); intros E2;
      [exact (WF_p_remove n h1 this old h2 r2 P1 Ht E2)|exact (WF_v_remove n h1 this old h2 r2 P1 Ht E2)]. }
  destruct (is_err r2); [intros [= <- _]; apply WF_upd_pres; auto with upres|].
  destruct (_ && _ && _); intros [= <- _]; [apply WF_upd_pres; auto with upres|assumption].
Qed.

(** ------------------------------------------------------------ allocation *)
Lemma ks_beyond : forall h ks p, WFsib h ks -> length h <= p -> ks p = [].
Proof.
  intros h ks p W Hp. destruct (ks p) as [|c l] eqn:E; [reflexivity|].
  destruct (s_valid _ _ W p c) as [_ H]; [rewrite E; left; reflexivity|lia].
Qed.

Lemma WF_alloc : forall n h x, WF n h -> n_owned x = false -> n_ty x <> TDoc ->
  n_first x = None -> n_next x = None -> n_prev x = None -> n_isfirst x = false -> WF (S n) (h ++ [x]).
Proof.
  intros n h x [[Wu [ks Ws]] L] Ho Ht Hf Hnx Hpv Hif.
  destruct (G_alloc h x Wu Ho Ht) as [Wu' _].
  assert (Ll : length (h ++ [x]) = S n) by (rewrite app_length; cbn; lia).
  split; [|exact Ll]. split; [exact Wu'|]. exists ks.
  assert (Nd : forall j, j < length h -> nd (h ++ [x]) j = nd h j) by (intros j Hj; unfold nd; apply app_nth1; exact Hj).
  assert (Nn : nd (h ++ [x]) (length h) = x) by (unfold nd; apply nth_middle).
  split.
  - intros p Hp. rewrite Ll in Hp. destruct (Nat.eq_dec p (length h)) as [->|Hne].
    + rewrite (ks_beyond _ _ _ Ws (le_n _)). cbn. unfold fv. rewrite Nn. exact Hf.
    + assert (Hpl : p < length h) by lia.
      apply sibs_frame with (h := h); [unfold fv; rewrite Nd by exact Hpl; reflexivity| |apply (s_sibs _ _ Ws); exact Hpl].
      intros c Hc. unfold sv. rewrite Nd; [reflexivity|]. apply (s_valid _ _ Ws p c Hc).
  - intros p c Hc. destruct (s_valid _ _ Ws p c Hc). rewrite Ll. lia.
  - apply (s_nodup _ _ Ws).
  - intros c Hc Hoc. rewrite Ll in Hc. destruct (Nat.eq_dec c (length h)) as [->|Hne].
    + rewrite Nn in Hoc. congruence.
    + assert (Hcl : c < length h) by lia. rewrite Nd in * by exact Hcl. apply (s_owned _ _ Ws); assumption.
  - intros c Hc Hoc. rewrite Ll in Hc. destruct (Nat.eq_dec c (length h)) as [->|Hne].
    + unfold sv. rewrite Nn. unfold svn. rewrite Ho, Hnx, Hpv, Hif. reflexivity.
    + assert (Hcl : c < length h) by lia. unfold sv. rewrite Nd in * by exact Hcl. apply (s_free _ _ Ws); assumption.
Qed.

(** ------------------------------------------------------------ the operations covered by the full invariant *)
Definition link_op (o : op) : bool :=
  match o with
  | OClone _ _ | ONormalize _ | OSplitText _ _ | ORename _ _ _ _ | OSetAttr _ _ _ | ORemoveAttr _ _ => false
  | _ => true
  end.

Definition GW (h h' : heap) : Prop := WFheap h' /\ length h <= length h'.
Lemma GW_of : forall h h', WF (length h) h' -> GW h h'.
Proof. intros h h' [W L]. split; [exact W|lia]. Qed.
Lemma WF_self : forall h, WFheap h -> WF (length h) h.
Proof. intros; split; auto. Qed.

Ltac same := intros [= <- _]; apply GW_of; apply WF_self; assumption.
Ltac updok := intros [= <- _]; apply GW_of; apply WF_upd_pres; [auto with upres|auto with upres|apply WF_self; assumption].

Lemma GW_trans : forall a b c, GW a b -> GW b c -> GW a c.
Proof. intros a b c [_ L1] [W L2]. split; [assumption|lia]. Qed.
Lemma GW_cd_delete : forall h n a b h' r, WFheap h -> cd_delete h n a b = (h', r) -> GW h h'.
Proof. intros h n a b h' r W. unfold cd_delete. destruct (n_ro _); [same|]. destruct (N.ltb _ _); [same|updok]. Qed.
Lemma GW_cd_insert : forall h n a s h' r, WFheap h -> cd_insert h n a s = (h', r) -> GW h h'.
Proof. intros h n a s h' r W. unfold cd_insert. destruct (n_ro _); [same|]. destruct (N.ltb _ _); [same|updok]. Qed.

Lemma sib_pres_oelem v : sib_pres (set_oelem v). Proof. intros []; split; reflexivity. Qed.
Lemma sib_pres_dead v : sib_pres (set_dead v). Proof. intros []; split; reflexivity. Qed.
#[export] Hint Resolve sib_pres_oelem sib_pres_dead : upres.

Lemma sib_pres_udata v : sib_pres (set_udata v). Proof. intros []; split; reflexivity. Qed.
Lemma sib_pres_hasud v : sib_pres (set_hasud v). Proof. intros []; split; reflexivity. Qed.
Lemma sib_pres_isid v : sib_pres (set_isid v). Proof. intros []; split; reflexivity. Qed.
Lemma sib_pres_idtab v : sib_pres (set_idtab v). Proof. intros []; split; reflexivity. Qed.
Lemma sib_pres_idnum v : sib_pres (set_idnum v). Proof. intros []; split; reflexivity. Qed.
Lemma sib_pres_released : sib_pres set_released. Proof. intros []; split; reflexivity. Qed.
#[export] Hint Resolve sib_pres_udata sib_pres_hasud sib_pres_isid sib_pres_idtab sib_pres_idnum sib_pres_released : upres.

Lemma WF_id_add : forall n h a, WF n h -> WF n (id_add h a).
Proof. intros n h a P. unfold id_add. apply WF_upd_pres; auto with upres. apply WF_upd_pres; auto with upres. Qed.
Lemma WF_id_remove : forall n h a, WF n h -> WF n (id_remove h a).
Proof. intros n h a P. unfold id_remove. destruct (id_probe_attr _ _ _ _ _); [apply WF_upd_pres; auto with upres|exact P]. Qed.
Lemma WF_attr_id_on : forall n h a, WF n h -> WF n (attr_id_on h a).
Proof. intros n h a P. unfold attr_id_on. destruct (n_isid _); [exact P|]. apply WF_id_add. apply WF_upd_pres; auto with upres. Qed.
Lemma WF_attr_id_off : forall n h a, WF n h -> WF n (attr_id_off h a).
Proof. intros n h a P. unfold attr_id_off. destruct (n_isid _); [|exact P]. apply WF_upd_pres; auto with upres. apply WF_id_remove; exact P. Qed.
Lemma WF_kill : forall n fuel h x, WF n h -> WF n (kill fuel h x).
Proof.
  induction fuel as [|fuel IH]; intros h x P; cbn [kill]; [exact P|].
  assert (P1 : WF n (upd h x set_released)) by (apply WF_upd_pres; auto with upres).
  revert P1. generalize (upd h x set_released). generalize (kids h x ++ n_attrs (nd h x)). intros l.
  induction l as [|k l IHl]; intros h0 P0; cbn [fold_left]; [exact P0|]. apply IHl. apply IH. exact P0.
Qed.
Lemma WF_fold_id_off : forall n l h, WF n h -> WF n (fold_left attr_id_off l h).
Proof. induction l as [|a l IH]; intros h P; cbn [fold_left]; [exact P|]. apply IH. apply WF_attr_id_off. exact P. Qed.

Ltac splitw := match goal with |- (if ?b then _ else _) = _ -> _ => destruct b eqn:Ev; [|same] end.

Lemma step_GW : forall h o h' r, WFheap h -> link_op o = true -> covered h o = true -> step h o = (h', r) -> GW h h'.
Proof.
  intros h o h' r W Hl Hc. unfold step, step_cfg.
  destruct o; try discriminate Hl; cbn [covered] in Hc.
  - (* create *)
    splitw. unfold create, alloc, fresh.
    destruct (n_ty (nd h doc)); try same.
    destruct t; try same; try (destruct (valid_name nm); [|same]);
      intros [= <- _]; (split; [|rewrite app_length; lia]);
      apply (WF_alloc (length h) h); try (apply WF_self; assumption); try reflexivity; cbn; discriminate.
  - splitw. rewrite !andb_true_iff in Ev. destruct Ev as [[Ev1 Ev2] Ev3].
    unfold v_insert. intros E. apply GW_of. eapply WF_ins; [apply WF_self; exact W| | |exact E]; apply valid_lt; assumption.
  - splitw. rewrite !andb_true_iff in Ev. destruct Ev as [Ev1 Ev2].
    unfold v_insert. intros E. apply GW_of. eapply WF_ins; [apply WF_self; exact W| | |exact E]; apply valid_lt; assumption.
  - splitw. rewrite !andb_true_iff in Ev. destruct Ev as [Ev1 Ev2].
    intros E. apply GW_of. eapply WF_v_remove; [apply WF_self; exact W| |exact E]. apply valid_lt; assumption.
  - splitw. rewrite !andb_true_iff in Ev. destruct Ev as [[Ev1 Ev2] Ev3].
    intros E. apply GW_of. eapply WF_v_replace; [apply WF_self; exact W| | |exact E]; apply valid_lt; assumption.
  - match goal with |- (if ?b then _ else _) = _ -> _ => destruct b eqn:Ev end.
    + unfold cd_set. destruct (n_ro _); [same|updok].
    + match goal with |- (if ?b then _ else _) = _ -> _ => destruct b eqn:Ev2; [|same] end.
      exfalso. rewrite andb_true_iff in Ev2. destruct Ev2 as [_ Ev2]. rewrite Ev2 in Hc. discriminate.
  - splitw. unfold cd_append. destruct (n_ro _); [same|updok].
  - splitw. apply GW_cd_insert; assumption.
  - splitw. apply GW_cd_delete; assumption.
  - splitw. unfold cd_replace. destruct (n_ro (nd h n)); [same|].
    destruct (cd_delete h n off cnt) as [h1 r1] eqn:E1. pose proof (GW_cd_delete _ _ _ _ _ _ W E1) as G1.
    destruct (is_err r1); [intros [= <- _]; exact G1|]. intros E2. eapply GW_trans; [exact G1|].
    eapply GW_cd_insert; [exact (proj1 G1)|exact E2].
  - splitw. unfold cd_substring. destruct (N.ltb _ _); same.
  - splitw. unfold get_attribute. same.
  - splitw. unfold set_attribute_node, amap_set. change (fix_setattr_id cfg_fixed) with true. cbv iota.
    destruct (n_ro (nd h e)); [same|].
    destruct (negb (oid_eqb _ _)); [same|]. destruct (match n_oelem (nd h a) with Some o => _ | None => false end); [same|].
    assert (P1 : WF (length h) (upd h a (set_oelem (Some e)))) by (apply WF_upd_pres; auto with upres; apply WF_self; assumption).
    match goal with |- context [upd ?H e (set_attrs ?L)] =>
      assert (P2 : WF (length h) (upd H e (set_attrs L))) by (apply WF_upd_pres; auto with upres) end.
    destruct (amap_find _ _ _) as [p|]; [|intros [= <- _]; apply GW_of; exact P2].
    destruct (Nat.eqb p a); intros [= <- _]; apply GW_of; [exact P2|]. apply WF_attr_id_off. apply WF_upd_pres; auto with upres.
  - splitw. unfold remove_attribute_node. destruct (n_ro _); [same|].
    destruct (if n_nsimpl (nd h a) then _ else _) as [f|]; [|same].
    destruct (Nat.eqb f a); [|same]. intros [= <- _]. apply GW_of. apply WF_attr_id_off.
    apply WF_upd_pres; auto with upres. apply WF_upd_pres; auto with upres. apply WF_self; assumption.
  - splitw. unfold get_attribute_node. same.
  - splitw. unfold set_user_data. destruct (_ && _); [same|]. destruct (N.eqb data 0); intros [= <- _]; apply GW_of;
      (apply WF_upd_pres; auto with upres; apply WF_upd_pres; auto with upres; apply WF_self; assumption).
  - splitw. unfold get_user_data. same.
  - splitw. unfold release_node. destruct (n_ty (nd h n)); try same;
      (destruct (_ || _); [same|]; destruct (_ && _); [same|]; intros [= <- _]; apply GW_of; apply WF_kill; apply WF_fold_id_off;
       apply WF_self; assumption).
  - splitw. unfold set_id_attribute. destruct (n_ro _); [same|]. destruct (amap_find _ _ _) as [a|]; [|same].
    destruct isid; intros [= <- _]; apply GW_of; [apply WF_attr_id_on|apply WF_attr_id_off]; apply WF_self; assumption.
  - splitw. unfold set_id_attribute_node. destruct (n_ro _); [same|].
    destruct (if n_nsimpl (nd h a) then _ else _) as [f|]; [|same].
    destruct (_ && negb _); [same|].
    destruct isid; intros [= <- _]; apply GW_of; [apply WF_attr_id_on|apply WF_attr_id_off]; apply WF_self; assumption.
  - splitw. unfold get_element_by_id. same.
Qed.

Lemma WFheap_init : forall n, WFheap (init_heap n).
Proof.
  intros n. split; [apply WFup_init|]. exists (fun _ => []).
  assert (Nd : forall j, nd (init_heap n) j = doc_node j \/ nd (init_heap n) j = dummy).
  { intros j. unfold init_heap, nd. destruct (Nat.lt_ge_cases j n) as [Hj|Hj].
    - left. rewrite nth_indep with (d' := doc_node 0) by (rewrite map_length, seq_length; assumption).
      rewrite map_nth, seq_nth by assumption. reflexivity.
    - right. apply nth_overflow. rewrite map_length, seq_length. assumption. }
  split.
  - intros p _. cbn. unfold fv. destruct (Nd p) as [-> | ->]; reflexivity.
  - intros p c [].
  - intros p. constructor.
  - intros c _ Ho. destruct (Nd c) as [E|E]; rewrite E in Ho; discriminate.
  - intros c _ _. unfold sv. destruct (Nd c) as [-> | ->]; reflexivity.
Qed.

Lemma run_WFheap : forall l h h' rs, WFheap h -> forallb (fun o => link_op o && no_attr_value_op o) l = true ->
  run_cfg cfg_fixed h l = (h', rs) -> WFheap h'.
Proof.
  induction l as [|o l IH]; intros h h' rs W Hl; cbn [run_cfg].
  - intros [= <- _]; assumption.
  - cbn [forallb] in Hl. apply andb_prop in Hl. destruct Hl as [Ho Hl]. apply andb_prop in Ho. destruct Ho as [Ho1 Ho2].
    destruct (step_cfg cfg_fixed h o) as [h1 x] eqn:E. destruct (step_GW _ _ _ _ W Ho1 (covered_of h o Ho2) E) as [W1 _].
    destruct (run_cfg cfg_fixed h1 l) as [h2 xs] eqn:E2. intros [= <- _]. eapply IH; eauto.
Qed.
