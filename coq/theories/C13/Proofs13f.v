(** C13 -- lemmas, part f: the sibling-chain half of well-formedness.  Definitions ([sibs], [WFsib], [WFheap]) and the
    list-level lemmas about doubly linked child chains (frame, append, insert in the middle, remove). *)
From Coq Require Import NArith List Bool Arith Lia.
From XV Require Import Base.XDefs Gen.GenKidOK C13.Ops13 C13.Spec13 C13.Model13 C13.Abs13 C13.Proofs13b C13.Proofs13c.
Import ListNotations.

(** what the sibling invariants read of a node: fOwnerNode, OWNED, nextSibling, previousSibling, FIRSTCHILD *)
Definition sview := (id * bool * option id * option id * bool)%type.
Definition svn (x : node) : sview := (n_owner x, n_owned x, n_next x, n_prev x, n_isfirst x).
Definition sv (h : heap) (j : id) : sview := svn (nd h j).
Definition fv (h : heap) (j : id) : option id := n_first (nd h j).
Definition set_nx (s : sview) (v : option id) : sview := let '(o, ow, _, pv, f) := s in (o, ow, v, pv, f).
Definition set_pv (s : sview) (v : option id) : sview := let '(o, ow, nx, _, f) := s in (o, ow, nx, v, f).

(** [dl h p c r]: the nodes of [r] follow [c] in the child chain of [p]: each is owned by p, points forward to its
    successor and back to its predecessor, and is not flagged first child *)
Fixpoint dl (h : heap) (p c : id) (r : list id) : Prop :=
  match r with
  | [] => True
  | d :: r' => sv h d = (p, true, hd_error r', Some c, false) /\ dl h p d r'
  end.
(** the child chain of p is exactly [cs]: fFirstChild is the head, the head is flagged and its previousSibling is
    the LAST child (circular), the rest is doubly linked *)
Definition sibs (h : heap) (p : id) (cs : list id) : Prop :=
  match cs with
  | [] => fv h p = None
  | f :: r => fv h p = Some f /\ sv h f = (p, true, hd_error r, Some (last r f), true) /\ dl h p f r
  end.

Record WFsib (h : heap) (ks : id -> list id) : Prop := {
  s_sibs : forall p, p < length h -> sibs h p (ks p);
  s_valid : forall p c, In c (ks p) -> c < length h /\ p < length h;
  s_nodup : forall p, NoDup (ks p);
  s_owned : forall c, c < length h -> n_owned (nd h c) = true -> In c (ks (n_owner (nd h c)));
  s_free : forall c, c < length h -> n_owned (nd h c) = false -> sv h c = (n_owner (nd h c), false, None, None, false)
}.

(** the full invariant of the property's first clause *)
Definition WFheap (h : heap) : Prop := WFup h /\ exists ks, WFsib h ks.

(** ------------------------------------------------------------ lists *)
Lemma last_cons : forall (r : list id) d c, last (d :: r) c = last r d.
Proof. induction r as [|x r IH]; intros d c; [reflexivity|]. change (last (d :: x :: r) c) with (last (x :: r) c). rewrite (IH x c), (IH x d). reflexivity. Qed.

Lemma last_in : forall (r : list id) c, r <> [] -> In (last r c) r.
Proof.
  induction r as [|x r IH]; intros c H; [contradiction|]. destruct r as [|y r]; [left; reflexivity|].
  right. change (last (x :: y :: r) c) with (last (y :: r) c). apply IH. discriminate.
Qed.

Lemma last_app_ne : forall (a b : list id) c, b <> [] -> last (a ++ b) c = last b c.
Proof.
  induction a as [|x a IH]; intros b c H; [reflexivity|]. cbn [app].
  destruct (a ++ b) eqn:E; [destruct a, b; try discriminate; contradiction|]. rewrite <- E.
  change (last (x :: a ++ b) c) with (match a ++ b with [] => x | _ => last (a ++ b) c end). rewrite E, <- E. apply IH; assumption.
Qed.

Lemma dl_frame : forall h h' p r c, (forall x, In x r -> sv h' x = sv h x) -> dl h p c r -> dl h' p c r.
Proof.
  induction r as [|d r IH]; intros c E H; [exact I|]. destruct H as [H1 H2]. split.
  - rewrite E by (left; reflexivity). exact H1.
  - apply IH; [|exact H2]. intros x Hx. apply E. right; exact Hx.
Qed.

Lemma dl_sv : forall h p r c x, dl h p c r -> In x r -> exists nx pv, sv h x = (p, true, nx, Some pv, false).
Proof.
  induction r as [|d r IH]; intros c x H Hx; [contradiction|]. destruct H as [H1 H2]. destruct Hx as [<-|Hx].
  - eauto.
  - eapply IH; eauto.
Qed.

(** append [n] behind the last node *)
Lemma dl_snoc : forall h h' p n r c,
  dl h p c r -> NoDup (c :: r) ->
  (forall x, In x r -> x <> last r c -> sv h' x = sv h x) ->
  (r <> [] -> sv h' (last r c) = set_nx (sv h (last r c)) (Some n)) ->
  sv h' n = (p, true, None, Some (last r c), false) ->
  dl h' p c (r ++ [n]).
Proof.
  induction r as [|d r IH]; intros c H ND Ho Hl Hn.
  - cbn. split; [exact Hn|exact I].
  - destruct H as [H1 H2]. cbn [app dl]. rewrite last_cons in *.
    assert (NDr : NoDup (d :: r)) by (inversion ND; assumption).
    split.
    + destruct r as [|e r].
      * cbn [last] in *. rewrite Hl by discriminate. rewrite H1. reflexivity.
      * rewrite Ho; [exact H1|left; reflexivity|].
        intros E. inversion NDr as [|? ? Hnin _]. apply Hnin. rewrite E. apply last_in. discriminate.
    + apply IH; try assumption.
      * intros x Hx Hne. apply Ho; [right; exact Hx|exact Hne].
      * intros Hr. apply Hl. discriminate.
Qed.

(** insert [n] before [ref] somewhere behind [c] *)
Lemma dl_insert : forall h h' p n ref r2 r1 c,
  dl h p c (r1 ++ ref :: r2) -> NoDup (c :: r1 ++ ref :: r2) ->
  (forall x, In x (r1 ++ ref :: r2) -> x <> ref -> x <> last r1 c -> sv h' x = sv h x) ->
  (r1 <> [] -> sv h' (last r1 c) = set_nx (sv h (last r1 c)) (Some n)) ->
  sv h' ref = set_pv (sv h ref) (Some n) ->
  sv h' n = (p, true, Some ref, Some (last r1 c), false) ->
  dl h' p c (r1 ++ n :: ref :: r2).
Proof.
  induction r1 as [|d r1 IH]; intros c H ND Ho Hl Hr Hn.
  - cbn [app] in *. destruct H as [H1 H2]. cbn [dl last]. split; [exact Hn|]. split.
    + rewrite Hr, H1. reflexivity.
    + eapply dl_frame; [|exact H2]. intros x Hx. apply Ho.
      * right; exact Hx.
      * intros ->. inversion ND as [|? ? _ ND1]. inversion ND1 as [|? ? Hnin _]. contradiction.
      * cbn [last]. intros ->. inversion ND as [|? ? Hnin _]. apply Hnin. right; exact Hx.
  - cbn [app] in *. destruct H as [H1 H2]. rewrite last_cons in *.
    assert (NDr : NoDup (d :: r1 ++ ref :: r2)) by (inversion ND; assumption).
    cbn [dl]. split.
    + destruct r1 as [|e r1].
      * cbn [last app hd_error] in *. rewrite Hl by discriminate. rewrite H1. reflexivity.
      * rewrite Ho.
        -- exact H1.
        -- left; reflexivity.
        -- intros ->. inversion NDr as [|? ? Hnin _]. apply Hnin. apply (in_or_app (e :: r1) (ref :: r2)). right. left. reflexivity.
        -- intros E. inversion NDr as [|? ? Hnin _]. apply Hnin. apply (in_or_app (e :: r1) (ref :: r2)). left. rewrite E. apply last_in. discriminate.
    + apply IH; try assumption.
      * intros x Hx H1' H2'. apply Ho; [right; exact Hx|exact H1'|exact H2'].
      * intros Hne. apply Hl. discriminate.
Qed.

(** remove [old] somewhere behind [c] *)
Lemma dl_remove : forall h h' p old r2 r1 c,
  dl h p c (r1 ++ old :: r2) -> NoDup (c :: r1 ++ old :: r2) ->
  (forall x, In x (r1 ++ r2) -> x <> last r1 c -> Some x <> hd_error r2 -> sv h' x = sv h x) ->
  (r1 <> [] -> sv h' (last r1 c) = set_nx (sv h (last r1 c)) (hd_error r2)) ->
  (forall d, hd_error r2 = Some d -> sv h' d = set_pv (sv h d) (Some (last r1 c))) ->
  dl h' p c (r1 ++ r2).
Proof.
  induction r1 as [|d r1 IH]; intros c H ND Ho Hl Hd.
  - cbn [app] in *. destruct H as [H1 H2]. cbn [last] in *.
    destruct r2 as [|e r2]; [exact I|]. destruct H2 as [H3 H4]. cbn [dl]. split.
    + rewrite (Hd e eq_refl), H3. reflexivity.
    + eapply dl_frame; [|exact H4]. intros x Hx. apply Ho.
      * right; exact Hx.
      * intros ->. inversion ND as [|? ? Hnin _]. apply Hnin. right. right. exact Hx.
      * cbn [hd_error]. intros [= ->]. inversion ND as [|? ? _ ND1]. inversion ND1 as [|? ? _ ND2]. inversion ND2 as [|? ? Hnin _]. contradiction.
  - cbn [app] in *. destruct H as [H1 H2]. rewrite last_cons in *.
    assert (NDr : NoDup (d :: r1 ++ old :: r2)) by (inversion ND; assumption).
    cbn [dl]. split.
    + destruct r1 as [|e r1].
      * cbn [last app hd_error] in *. rewrite Hl by discriminate. rewrite H1. reflexivity.
      * rewrite Ho.
        -- exact H1.
        -- left; reflexivity.
        -- intros E. inversion NDr as [|? ? Hnin _]. apply Hnin. apply (in_or_app (e :: r1) (old :: r2)). left. rewrite E. apply last_in. discriminate.
        -- intros E. inversion NDr as [|? ? Hnin _]. apply Hnin. apply (in_or_app (e :: r1) (old :: r2)). right. right.
           destruct r2 as [|y r2]; [discriminate|]. cbn in E. injection E as ->. left; reflexivity.
    + apply IH; try assumption.
      * intros x Hx H1' H2'. apply Ho; [right; exact Hx|exact H1'|exact H2'].
      * intros Hne. apply Hl. discriminate.
Qed.
