(** C13 -- lemmas, part b: the upward half of well-formedness (parent pointers: validity, acyclicity as a rank to
    the root, uniform ownerDocument) is preserved by every operation of the repaired model. *)
From Coq Require Import NArith List Bool Arith Lia.
From XV Require Import Base.XDefs Gen.GenKidOK C13.Ops13 C13.Spec13 C13.Model13 C13.Abs13.
Import ListNotations.

(** ------------------------------------------------------------ heap lemmas *)
Lemma length_upd : forall h i f, length (upd h i f) = length h.
Proof. induction h as [|x h IH]; intros [|i] f; cbn; auto. Qed.

Lemma nd_upd_ne : forall h i j f, i <> j -> nd (upd h i f) j = nd h j.
Proof.
  unfold nd. induction h as [|x h IH]; intros [|i] [|j] f H; cbn; auto; try congruence.
Qed.

Lemma nd_upd_eq : forall h i f, i < length h -> nd (upd h i f) i = f (nd h i).
Proof.
  unfold nd. induction h as [|x h IH]; intros [|i] f H; cbn in *; try lia; auto.
  apply IH. lia.
Qed.

Lemma upd_oob : forall h i f, length h <= i -> upd h i f = h.
Proof. induction h as [|x h IH]; intros [|i] f H; cbn in *; auto; try lia. f_equal. apply IH. lia. Qed.

(** the view of a node that the upward invariants read *)
Definition view := id -> (ntype * id * bool * id)%type.
Definition upf (x : node) := (n_ty x, n_owner x, n_owned x, n_odoc x).
Definition uv (h : heap) : view := fun j => upf (nd h j).
Definition up_pres (f : node -> node) := forall x, upf (f x) = upf x.

Lemma uv_upd_pres : forall h i f j, up_pres f -> uv (upd h i f) j = uv h j.
Proof.
  intros h i f j Hf. unfold uv. destruct (Nat.eq_dec i j) as [->|Hn].
  - destruct (Nat.lt_ge_cases j (length h)).
    + rewrite nd_upd_eq by assumption. apply Hf.
    + rewrite upd_oob by assumption. reflexivity.
  - rewrite nd_upd_ne by assumption. reflexivity.
Qed.

Lemma up_pres_first v : up_pres (set_first v). Proof. intros []; reflexivity. Qed.
Lemma up_pres_prev v : up_pres (set_prev v). Proof. intros []; reflexivity. Qed.
Lemma up_pres_next v : up_pres (set_next v). Proof. intros []; reflexivity. Qed.
Lemma up_pres_isfirst v : up_pres (set_isfirst v). Proof. intros []; reflexivity. Qed.
Lemma up_pres_docel v : up_pres (set_docel v). Proof. intros []; reflexivity. Qed.
Lemma up_pres_val v : up_pres (set_val v). Proof. intros []; reflexivity. Qed.
Lemma up_pres_attrs v : up_pres (set_attrs v). Proof. intros []; reflexivity. Qed.
#[export] Hint Resolve up_pres_first up_pres_prev up_pres_next up_pres_isfirst up_pres_docel up_pres_val up_pres_attrs : upres.

Ltac uvs := repeat (rewrite uv_upd_pres by auto with upres).

(** ------------------------------------------------------------ the invariant on views *)
Definition vty (v : view) c := fst (fst (fst (v c))).
Definition vodoc (v : view) c := snd (v c).
Definition vparent (v : view) (c : id) : option id :=
  let '(_, o, ow, _) := v c in if ow then Some o else None.
Fixpoint rooted (v : view) (c : id) (k : nat) : bool :=
  match k with
  | O => false
  | S k' => match vparent v c with None => true | Some p => rooted v p k' end
  end.
(** walk to the root that never meets [x] *)
Fixpoint srooted (v : view) (x c : id) (k : nat) : bool :=
  match k with
  | O => false
  | S k' => negb (Nat.eqb c x) && match vparent v c with None => true | Some p => srooted v x p k' end
  end.

Record WFv (n : nat) (v : view) : Prop := {
  u_valid : forall c p, c < n -> vparent v c = Some p -> p < n;
  u_acyclic : forall c, c < n -> exists k, rooted v c k = true;
  u_odoc : forall c p, c < n -> vparent v c = Some p -> is_leaf (vty v c) = false -> vodoc v c = vodoc v p;
  u_doc : forall d, d < n -> vty v d = TDoc -> vodoc v d = d /\ vparent v d = None
}.
Definition WFup (h : heap) : Prop := WFv (length h) (uv h).

Lemma vparent_uv : forall h c, vparent (uv h) c = parent h c.
Proof. intros. unfold vparent, uv, upf, parent. reflexivity. Qed.

Lemma rooted_ext : forall v v' k c, (forall j, v' j = v j) -> rooted v' c k = rooted v c k.
Proof.
  induction k as [|k IH]; intros c E; cbn; auto. unfold vparent. rewrite E.
  destruct (v c) as [[[t o] ow] d]. destruct ow; auto.
Qed.

Lemma WFv_ext : forall n v v', (forall j, v' j = v j) -> WFv n v -> WFv n v'.
Proof.
  intros n v v' E [H1 H2 H3 H4].
  assert (Ep : forall c, vparent v' c = vparent v c) by (intros; unfold vparent; rewrite E; reflexivity).
  assert (Et : forall c, vty v' c = vty v c) by (intros; unfold vty; rewrite E; reflexivity).
  assert (Eo : forall c, vodoc v' c = vodoc v c) by (intros; unfold vodoc; rewrite E; reflexivity).
  split.
  - intros c p Hc Hp. rewrite Ep in Hp. eauto.
  - intros c Hc. destruct (H2 c Hc) as [k Hk]. exists k. rewrite (rooted_ext v v'); auto.
  - intros c p Hc Hp Hl. rewrite Ep in Hp. rewrite Et in Hl. rewrite !Eo. eauto.
  - intros d Hd Ht. rewrite Et in Ht. rewrite Eo, Ep. eauto.
Qed.

Lemma rooted_mono : forall v k k' c, rooted v c k = true -> k <= k' -> rooted v c k' = true.
Proof.
  induction k as [|k IH]; intros k' c H L; cbn in H; try discriminate.
  destruct k' as [|k']; [lia|]. cbn. destruct (vparent v c); auto. apply (IH k'); auto. lia.
Qed.

(** giving [x] the parent [p] *)
Definition set_par (v : view) (x p : id) : view :=
  fun j => if Nat.eqb j x then (vty v x, p, true, vodoc v x) else v j.
(** detaching [x]; its fOwnerNode becomes [d] *)
Definition clr_par (v : view) (x d : id) : view :=
  fun j => if Nat.eqb j x then (vty v x, d, false, vodoc v x) else v j.

Lemma vparent_set_par : forall v x p j, vparent (set_par v x p) j = if Nat.eqb j x then Some p else vparent v j.
Proof. intros. unfold vparent, set_par. destruct (Nat.eqb j x); reflexivity. Qed.
Lemma vparent_clr_par : forall v x d j, vparent (clr_par v x d) j = if Nat.eqb j x then None else vparent v j.
Proof. intros. unfold vparent, clr_par. destruct (Nat.eqb j x); reflexivity. Qed.
Lemma vty_set_par : forall v x p j, vty (set_par v x p) j = vty v j.
Proof. intros. unfold vty, set_par. destruct (Nat.eqb_spec j x); subst; reflexivity. Qed.
Lemma vty_clr_par : forall v x p j, vty (clr_par v x p) j = vty v j.
Proof. intros. unfold vty, clr_par. destruct (Nat.eqb_spec j x); subst; reflexivity. Qed.
Lemma vodoc_set_par : forall v x p j, vodoc (set_par v x p) j = vodoc v j.
Proof. intros. unfold vodoc, set_par. destruct (Nat.eqb_spec j x); subst; reflexivity. Qed.
Lemma vodoc_clr_par : forall v x p j, vodoc (clr_par v x p) j = vodoc v j.
Proof. intros. unfold vodoc, clr_par. destruct (Nat.eqb_spec j x); subst; reflexivity. Qed.

Lemma srooted_set_par : forall v x p k c, srooted v x c k = true -> rooted (set_par v x p) c k = true.
Proof.
  induction k as [|k IH]; intros c H; cbn in *; try discriminate.
  apply andb_prop in H. destruct H as [Hne H]. rewrite vparent_set_par.
  destruct (Nat.eqb c x); [discriminate|]. destruct (vparent v c); auto.
Qed.

Lemma rooted_set_par : forall v x p ks, srooted v x p ks = true ->
  forall k c, rooted v c k = true -> rooted (set_par v x p) c (k + S ks) = true.
Proof.
  intros v x p ks Hs. induction k as [|k IH]; intros c H; cbn in H; try discriminate.
  cbn. rewrite vparent_set_par. destruct (Nat.eqb_spec c x) as [->|Hne].
  - apply rooted_mono with (k := ks); [|lia]. apply srooted_set_par; assumption.
  - destruct (vparent v c) as [q|]; auto.
Qed.

Lemma WFv_set_par : forall n v x p ks, WFv n v -> p < n -> srooted v x p ks = true ->
  (is_leaf (vty v x) = false -> vodoc v x = vodoc v p) -> vty v x <> TDoc -> WFv n (set_par v x p).
Proof.
  intros n v x p ks [H1 H2 H3 H4] Hp Hs Ho Ht. split.
  - intros c q Hc. rewrite vparent_set_par. destruct (Nat.eqb c x); [intros [= <-]; assumption|eauto].
  - intros c Hc. destruct (H2 c Hc) as [k Hk]. exists (k + S ks). apply rooted_set_par; assumption.
  - intros c q Hc. rewrite vparent_set_par, vty_set_par, !vodoc_set_par.
    destruct (Nat.eqb_spec c x) as [->|]; [intros [= <-]; assumption|eauto].
  - intros d Hd. rewrite vty_set_par, vodoc_set_par, vparent_set_par. intros Hd'.
    destruct (Nat.eqb_spec d x) as [->|]; [contradiction|eauto].
Qed.

Lemma rooted_clr_par : forall v x d k c, rooted v c k = true -> rooted (clr_par v x d) c k = true.
Proof.
  induction k as [|k IH]; intros c H; cbn in *; try discriminate.
  rewrite vparent_clr_par. destruct (Nat.eqb c x); auto. destruct (vparent v c); auto.
Qed.

Lemma WFv_clr_par : forall n v x d, WFv n v -> WFv n (clr_par v x d).
Proof.
  intros n v x d [H1 H2 H3 H4]. split.
  - intros c q Hc. rewrite vparent_clr_par. destruct (Nat.eqb c x); [discriminate|eauto].
  - intros c Hc. destruct (H2 c Hc) as [k Hk]. exists k. apply rooted_clr_par; assumption.
  - intros c q Hc. rewrite vparent_clr_par, vty_clr_par, !vodoc_clr_par. destruct (Nat.eqb c x); [discriminate|eauto].
  - intros c Hc. rewrite vty_clr_par, vodoc_clr_par, vparent_clr_par. intros Ht.
    destruct (H4 c Hc Ht). destruct (Nat.eqb c x); auto.
Qed.

(** a new, parentless node at index n *)
Definition ext_view (v : view) (n : nat) (e : ntype * id * bool * id) : view :=
  fun j => if Nat.eqb j n then e else v j.

Lemma rooted_ext_view : forall v n e k c, (forall c p, c < n -> vparent v c = Some p -> p < n) -> c < n ->
  rooted v c k = true -> rooted (ext_view v n e) c k = true.
Proof.
  induction k as [|k IH]; intros c Hv Hc H; cbn in *; try discriminate.
  assert (E : vparent (ext_view v n e) c = vparent v c).
  { unfold vparent, ext_view. destruct (Nat.eqb_spec c n); [lia|reflexivity]. }
  rewrite E. destruct (vparent v c) as [p|] eqn:Ep; auto. apply IH; eauto.
Qed.

Lemma WFv_alloc : forall n v t o d, WFv n v -> t <> TDoc -> WFv (S n) (ext_view v n (t, o, false, d)).
Proof.
  intros n v t o d [H1 H2 H3 H4] Ht.
  assert (P : forall c, vparent (ext_view v n (t, o, false, d)) c = if Nat.eqb c n then None else vparent v c).
  { intros. unfold vparent, ext_view. destruct (Nat.eqb c n); reflexivity. }
  split.
  - intros c p Hc. rewrite P. destruct (Nat.eqb_spec c n); [discriminate|]. intros Hp.
    assert (p < n) by (apply (H1 c); [lia|assumption]). lia.
  - intros c Hc. destruct (Nat.eqb_spec c n) as [->|Hne].
    + exists 1. cbn. rewrite P, Nat.eqb_refl. reflexivity.
    + destruct (H2 c ltac:(lia)) as [k Hk]. exists k. apply rooted_ext_view; auto. lia.
  - intros c p Hc. rewrite P. destruct (Nat.eqb_spec c n) as [->|Hne]; [discriminate|]. intros Hp Hl.
    assert (Hpn : p < n) by (apply (H1 c); [lia|assumption]).
    unfold vodoc, vty, ext_view in *. destruct (Nat.eqb_spec c n); [lia|]. destruct (Nat.eqb_spec p n); [lia|].
    apply H3; auto. lia.
  - intros c Hc. unfold vty, vodoc. rewrite P. unfold ext_view. destruct (Nat.eqb_spec c n) as [->|Hne]; cbn.
    + intros; contradiction.
    + apply H4. lia.
Qed.
